(* C20 — block level: _aes_encrypt_block / _aes_decrypt_block (model) = Cipher / InvCipher (spec);
   InvCipher inverts Cipher. *)
From Coq Require Import Arith NArith List Bool Lia.
From S2T Require Import C20.Spec C20.Model C20.Tables C20.Finite C20.Rounds C20.MixInv C20.KeyExp.
Import ListNotations.
Open Scope N_scope.

Lemma fold_inv_eq {A B} (f g : A -> B -> A) (P : A -> Prop) (Q : B -> Prop) l : forall a,
  (forall a b, P a -> Q b -> f a b = g a b /\ P (g a b)) -> P a -> Forall Q l ->
  fold_left f l a = fold_left g l a /\ P (fold_left g l a).
Proof.
  induction l as [|b l IH]; intros a H Pa F. cbn. tauto.
  inversion F as [|? ? Qb F']; subst. cbn [fold_left]. destruct (H a b Pa Qb) as [E Pg]. rewrite E.
  apply IH; assumption.
Qed.

Lemma seq_le n : Forall (fun r => r <= n)%nat (seq 1 (n - 1)).
Proof. apply Forall_forall. intros r H. apply in_seq in H. lia. Qed.
Lemma rev_seq_le n : Forall (fun r => r <= n)%nat (rev (seq 1 (n - 1))).
Proof. apply Forall_forall. intros r H. apply in_rev in H. apply in_seq in H. lia. Qed.

(* unfold the top-level spec definitions first in conversions (otherwise the kernel starts evaluating
   the state transformations on symbolic states) *)
#[local] Strategy expand [cipher cipher_w inv_cipher inv_cipher_w].

Lemma fl_cons {A B} (f : A -> B -> A) b l a : fold_left f (b :: l) a = fold_left f l (f a b).
Proof. reflexivity. Qed.
Lemma fl_one {A B} (f : A -> B -> A) b a : fold_left f [b] a = f a b.
Proof. reflexivity. Qed.
Lemma decrypt_block_unfold T block rks : length block = 16%nat ->
  decrypt_block T block rks =
  Ok (Model.add_round_key (Model.inv_sub_bytes T (Model.inv_shift_rows
        (fold_left (Model.dec_round T rks) (rev (seq 1 (length rks - 1 - 1)))
           (Model.add_round_key block (nth (length rks - 1) rks []))))) (nth 0 rks [])).
Proof. intro L. unfold decrypt_block. rewrite L. reflexivity. Qed.
Lemma inv_cipher_unfold key block :
  inv_cipher key block =
  Spec.add_round_key (Spec.inv_sub_bytes (Spec.inv_shift_rows
     (fold_left (Spec.dec_round (key_expansion key)) (rev (seq 1 (rounds key - 1)))
        (Spec.add_round_key block (round_key (key_expansion key) (rounds key))))))
     (round_key (key_expansion key) 0).
Proof. reflexivity. Qed.

Section Key.
  Variable key : bytes.
  Hypothesis K : key_len_ok key = true.
  Hypothesis B : bytes_ok key = true.
  Local Notation w := (key_expansion key).
  Local Notation nr := (rounds key).
  Local Notation rks := (round_keys_spec key).

  Lemma rk_wf r : (r <= nr)%nat -> wf16 (round_key w r).
  Proof. apply round_key_spec_wf; assumption. Qed.

  Lemma spec_enc_round_wf st r : wf16 st -> (r <= nr)%nat -> wf16 (Spec.enc_round w st r).
  Proof.
    intros H R. unfold Spec.enc_round. apply add_round_key_wf; [|apply rk_wf; exact R].
    apply mix_columns_wf, shift_rows_wf, sub_bytes_wf, H.
  Qed.
  Lemma spec_dec_round_wf st r : wf16 st -> (r <= nr)%nat -> wf16 (Spec.dec_round w st r).
  Proof.
    intros H R. unfold Spec.dec_round. apply inv_mix_columns_wf. apply add_round_key_wf; [|apply rk_wf; exact R].
    apply inv_sub_bytes_wf, inv_shift_rows_wf, H.
  Qed.

  Lemma enc_round_eq st r : wf16 st -> (r <= nr)%nat ->
    Model.enc_round spec_tables rks st r = Spec.enc_round w st r /\ wf16 (Spec.enc_round w st r).
  Proof.
    intros H R. split; [|apply spec_enc_round_wf; assumption].
    unfold Model.enc_round, Spec.enc_round.  rewrite round_keys_nth by exact R.
    rewrite sub_bytes_eq by exact H.
    rewrite shift_rows_eq by (apply sub_bytes_wf, H).
    rewrite mix_columns_eq by (apply shift_rows_wf, sub_bytes_wf, H).
    apply add_round_key_eq. apply mix_columns_wf, shift_rows_wf, sub_bytes_wf, H. apply rk_wf, R.
  Qed.
  Lemma dec_round_eq st r : wf16 st -> (r <= nr)%nat ->
    Model.dec_round spec_tables rks st r = Spec.dec_round w st r /\ wf16 (Spec.dec_round w st r).
  Proof.
    intros H R. split; [|apply spec_dec_round_wf; assumption].
    unfold Model.dec_round, Spec.dec_round.  rewrite round_keys_nth by exact R.
    rewrite inv_shift_rows_eq by (apply H).
    rewrite inv_sub_bytes_eq by (apply inv_shift_rows_wf, H).
    rewrite add_round_key_eq by (try apply inv_sub_bytes_wf, inv_shift_rows_wf, H; apply rk_wf, R).
    apply inv_mix_columns_eq. apply add_round_key_wf. apply inv_sub_bytes_wf, inv_shift_rows_wf, H. apply rk_wf, R.
  Qed.

  Lemma nr_pos : (1 <= nr)%nat. Proof. unfold rounds. lia. Qed.
  Lemma rks_len : (length rks - 1)%nat = nr.
  Proof.  rewrite round_keys_length. lia. Qed.

  Lemma fold_enc_wf l st : wf16 st -> Forall (fun r => r <= nr)%nat l -> wf16 (fold_left (Spec.enc_round w) l st).
  Proof.
    revert st. induction l as [|r l IH]; intros st H F. exact H.
    inversion F; subst. cbn [fold_left]. apply IH. apply spec_enc_round_wf; assumption. assumption.
  Qed.
  Lemma fold_dec_wf l st : wf16 st -> Forall (fun r => r <= nr)%nat l -> wf16 (fold_left (Spec.dec_round w) l st).
  Proof.
    revert st. induction l as [|r l IH]; intros st H F. exact H.
    inversion F; subst. cbn [fold_left]. apply IH. apply spec_dec_round_wf; assumption. assumption.
  Qed.

  Theorem encrypt_block_eq block : wf16 block ->
    encrypt_block spec_tables block rks = Ok (cipher key block).
  Proof.
    intros H. unfold encrypt_block. destruct H as [L Bb]. rewrite L. cbn [Nat.eqb negb].
    rewrite rks_len. assert (H : wf16 block) by (split; assumption).
    unfold cipher, cipher_w.  
    rewrite !round_keys_nth by (pose proof nr_pos; lia). 
    rewrite (add_round_key_eq block (round_key w 0)) by (try exact H; apply rk_wf; lia).
    destruct (fold_inv_eq (Model.enc_round spec_tables (round_keys_spec key)) (Spec.enc_round w) wf16
               (fun r => r <= nr)%nat (seq 1 (nr - 1)) (Spec.add_round_key block (round_key w 0))) as [E W].
    - intros a b Pa Qb. apply enc_round_eq; assumption.
    - apply add_round_key_wf. exact H. apply rk_wf. lia.
    - apply seq_le.
    - rewrite E. rewrite sub_bytes_eq by exact W. rewrite shift_rows_eq by (apply sub_bytes_wf, W).
      rewrite add_round_key_eq. reflexivity. apply shift_rows_wf, sub_bytes_wf, W. apply rk_wf. lia.
  Qed.

  Theorem decrypt_block_eq block : wf16 block ->
    decrypt_block spec_tables block rks = Ok (inv_cipher key block).
  Proof.
    intros H. rewrite decrypt_block_unfold by apply H. rewrite inv_cipher_unfold. f_equal.
    rewrite rks_len.
    rewrite !round_keys_nth by (pose proof nr_pos; lia).
    rewrite (add_round_key_eq block (round_key w nr)) by (try exact H; apply rk_wf; lia).
    destruct (fold_inv_eq (Model.dec_round spec_tables (round_keys_spec key)) (Spec.dec_round w) wf16
               (fun r => r <= nr)%nat (rev (seq 1 (nr - 1))) (Spec.add_round_key block (round_key w nr))) as [E W].
    - intros a b Pa Qb. apply dec_round_eq; assumption.
    - apply add_round_key_wf. exact H. apply rk_wf. lia.
    - apply rev_seq_le.
    - rewrite E. rewrite inv_shift_rows_eq by (apply W). rewrite inv_sub_bytes_eq by (apply inv_shift_rows_wf, W).
      apply add_round_key_eq. apply inv_sub_bytes_wf, inv_shift_rows_wf, W. apply rk_wf. lia.
  Qed.

  Lemma cipher_wf block : wf16 block -> wf16 (cipher key block).
  Proof.
    intro H. unfold cipher, cipher_w.  apply add_round_key_wf; [|apply rk_wf; lia].
    apply shift_rows_wf, sub_bytes_wf, fold_enc_wf. apply add_round_key_wf. exact H. apply rk_wf. lia. apply seq_le.
  Qed.
  Lemma inv_cipher_wf block : wf16 block -> wf16 (inv_cipher key block).
  Proof.
    intro H. unfold inv_cipher, inv_cipher_w.  apply add_round_key_wf; [|apply rk_wf; lia].
    apply inv_sub_bytes_wf, inv_shift_rows_wf, fold_dec_wf. apply add_round_key_wf. exact H. apply rk_wf. lia.
    apply rev_seq_le.
  Qed.

  (* ---- InvCipher . Cipher = id *)
  Definition SR (st : bytes) := Spec.shift_rows (Spec.sub_bytes st).
  Definition ISR (st : bytes) := Spec.inv_sub_bytes (Spec.inv_shift_rows st).
  Lemma ISR_SR st : wf16 st -> ISR (SR st) = st.
  Proof.
    intros H. unfold ISR, SR. rewrite inv_shift_rows_shift_rows by (apply sub_bytes_wf, H).
    apply inv_sub_bytes_sub_bytes. apply H.
  Qed.
  Lemma SR_ISR st : wf16 st -> SR (ISR st) = st.
  Proof.
    intros H. unfold ISR, SR. rewrite sub_bytes_inv_sub_bytes by (apply inv_shift_rows_wf, H).
    apply shift_rows_inv_shift_rows. apply H.
  Qed.
  Lemma ark_cancel st rk : wf16 st -> wf16 rk -> Spec.add_round_key (Spec.add_round_key st rk) rk = st.
  Proof. intros [L _] [L' _]. apply xor_bytes_cancel. congruence. Qed.

  Lemma enc_round_SR st r :
    Spec.enc_round w st r = Spec.add_round_key (Spec.mix_columns (SR st)) (round_key w r).
  Proof. reflexivity. Qed.
  Lemma dec_round_ISR st r :
    Spec.dec_round w st r = Spec.inv_mix_columns (Spec.add_round_key (ISR st) (round_key w r)).
  Proof. reflexivity. Qed.
  Lemma cipher_SR block :
    cipher key block = Spec.add_round_key
      (SR (fold_left (Spec.enc_round w) (seq 1 (nr - 1)) (Spec.add_round_key block (round_key w 0)))) (round_key w nr).
  Proof. reflexivity. Qed.
  Lemma inv_cipher_ISR block :
    inv_cipher key block = Spec.add_round_key
      (ISR (fold_left (Spec.dec_round w) (rev (seq 1 (nr - 1))) (Spec.add_round_key block (round_key w nr)))) (round_key w 0).
  Proof. reflexivity. Qed.
  Lemma SR_wf st : wf16 st -> wf16 (SR st).
  Proof. intro H. apply shift_rows_wf, sub_bytes_wf, H. Qed.
  Lemma ISR_wf st : wf16 st -> wf16 (ISR st).
  Proof. intro H. apply inv_sub_bytes_wf, inv_shift_rows_wf, H. Qed.

  Lemma dec_enc_step z r : wf16 z -> (r <= nr)%nat -> Spec.dec_round w (SR (Spec.enc_round w z r)) r = SR z.
  Proof.
    intros Z R. rewrite dec_round_ISR, enc_round_SR.
    assert (S1 : wf16 (SR z)) by (apply SR_wf, Z).
    rewrite ISR_SR by (apply add_round_key_wf; [apply mix_columns_wf, S1 | apply rk_wf, R]).
    rewrite ark_cancel by (try apply mix_columns_wf, S1; apply rk_wf, R).
    apply inv_mix_columns_mix_columns, S1.
  Qed.
  Lemma enc_dec_step z r : wf16 z -> (r <= nr)%nat -> Spec.enc_round w (ISR (Spec.dec_round w z r)) r = ISR z.
  Proof.
    intros Z R. rewrite enc_round_SR, dec_round_ISR.
    assert (S1 : wf16 (ISR z)) by (apply ISR_wf, Z).
    assert (S2 : wf16 (Spec.add_round_key (ISR z) (round_key w r))) by (apply add_round_key_wf; [exact S1 | apply rk_wf, R]).
    rewrite SR_ISR by (apply inv_mix_columns_wf, S2).
    rewrite mix_columns_inv_mix_columns by exact S2.
    apply ark_cancel. exact S1. apply rk_wf, R.
  Qed.

  Lemma dec_enc_rounds l : Forall (fun r => r <= nr)%nat l -> forall st, wf16 st ->
    ISR (fold_left (Spec.dec_round w) (rev l) (SR (fold_left (Spec.enc_round w) l st))) = st.
  Proof.
    induction l as [|r l IH] using rev_ind; intros F st H.
    - change (ISR (SR st) = st). apply ISR_SR, H.
    - apply Forall_app in F. destruct F as [F Fr]. inversion Fr as [|? ? R _]; subst.
      rewrite rev_app_distr. rewrite (fold_left_app (Spec.enc_round w)).
      change (rev [r] ++ rev l) with (r :: rev l). rewrite fl_cons, fl_one.
      rewrite dec_enc_step by (try apply fold_enc_wf; assumption).
      apply IH; assumption.
  Qed.
  Lemma enc_dec_rounds l : Forall (fun r => r <= nr)%nat l -> forall st, wf16 st ->
    SR (fold_left (Spec.enc_round w) l (ISR (fold_left (Spec.dec_round w) (rev l) st))) = st.
  Proof.
    induction l as [|r l IH]; intros F st H.
    - change (SR (ISR st) = st). apply SR_ISR, H.
    - inversion F as [|? ? R F']; subst.
      change (rev (r :: l)) with (rev l ++ [r]). rewrite (fold_left_app (Spec.dec_round w)). rewrite fl_cons, fl_one.
      rewrite enc_dec_step by (try (apply fold_dec_wf; [assumption | apply Forall_rev, F']); assumption).
      apply IH; assumption.
  Qed.

  Theorem inv_cipher_cipher block : wf16 block -> inv_cipher key (cipher key block) = block.
  Proof.
    intro H. rewrite inv_cipher_ISR, cipher_SR.
    assert (S0 : wf16 (Spec.add_round_key block (round_key w 0))) by (apply add_round_key_wf; [exact H | apply rk_wf; lia]).
    rewrite ark_cancel by (try (apply SR_wf, fold_enc_wf; [exact S0 | apply seq_le]); apply rk_wf; lia).
    rewrite dec_enc_rounds by (try apply seq_le; exact S0).
    apply ark_cancel. exact H. apply rk_wf. lia.
  Qed.
  Theorem cipher_inv_cipher block : wf16 block -> cipher key (inv_cipher key block) = block.
  Proof.
    intro H. rewrite cipher_SR, inv_cipher_ISR.
    assert (S0 : wf16 (Spec.add_round_key block (round_key w nr))) by (apply add_round_key_wf; [exact H | apply rk_wf; lia]).
    rewrite ark_cancel by (try (apply ISR_wf, fold_dec_wf; [exact S0 | apply rev_seq_le]); apply rk_wf; lia).
    rewrite enc_dec_rounds by (try apply seq_le; exact S0).
    apply ark_cancel. exact H. apply rk_wf. lia.
  Qed.
End Key.
