(* C20 — block level: _aes_encrypt_block / _aes_decrypt_block (model) = Cipher / InvCipher (spec);
   InvCipher inverts Cipher. *)
From Coq Require Import Arith NArith List Bool Lia.
From S2T Require Import C20.Spec C20.Model C20.Tables C20.Finite C20.Rounds C20.MixInv C20.KeyExp.
Import ListNotations.
Open Scope N_scope.

Lemma fold_inv_eq {A B} (f g : A -> B -> A) (P : A -> Prop) (Q : B -> Prop) l : forall a,
  (forall a b, P a -> Q b -> f a b = g a b /\ P (g a b)) -> P a -> Forall Q l ->
  fold_left f l a = fold_left g l a /\ P (fold_left g l a).
Proof.
  induction l as [|b l IH]; intros a H Pa F. cbn. tauto.
  inversion F as [|? ? Qb F']; subst. cbn [fold_left]. destruct (H a b Pa Qb) as [E Pg]. rewrite E.
  apply IH; assumption.
Qed.

Lemma seq_le n : Forall (fun r => r <= n)%nat (seq 1 (n - 1)).
Proof. apply Forall_forall. intros r H. apply in_seq in H. lia. Qed.
Lemma rev_seq_le n : Forall (fun r => r <= n)%nat (rev (seq 1 (n - 1))).
Proof. apply Forall_forall. intros r H. apply in_rev in H. apply in_seq in H. lia. Qed.

(* unfold the top-level spec definitions first in conversions (otherwise the kernel starts evaluating
   the state transformations on symbolic states) *)
#[local] Strategy expand [cipher cipher_w inv_cipher inv_cipher_w].

Section Key.
  Variable key : bytes.
  Hypothesis K : key_len_ok key = true.
  Hypothesis B : bytes_ok key = true.
  Local Notation w := (key_expansion key).
  Local Notation nr := (rounds key).
  Local Notation rks := (round_keys_spec key).

  Lemma rk_wf r : (r <= nr)%nat -> wf16 (round_key w r).
  Proof. apply round_key_spec_wf; assumption. Qed.

  Lemma spec_enc_round_wf st r : wf16 st -> (r <= nr)%nat -> wf16 (Spec.enc_round w st r).
  Proof.
    intros H R. unfold Spec.enc_round. apply add_round_key_wf; [|apply rk_wf; exact R].
    apply mix_columns_wf, shift_rows_wf, sub_bytes_wf, H.
  Qed.
  Lemma spec_dec_round_wf st r : wf16 st -> (r <= nr)%nat -> wf16 (Spec.dec_round w st r).
  Proof.
    intros H R. unfold Spec.dec_round. apply inv_mix_columns_wf. apply add_round_key_wf; [|apply rk_wf; exact R].
    apply inv_sub_bytes_wf, inv_shift_rows_wf, H.
  Qed.

  Lemma enc_round_eq st r : wf16 st -> (r <= nr)%nat ->
    Model.enc_round spec_tables rks st r = Spec.enc_round w st r /\ wf16 (Spec.enc_round w st r).
  Proof.
    intros H R. split; [|apply spec_enc_round_wf; assumption].
    unfold Model.enc_round, Spec.enc_round.  rewrite round_keys_nth by exact R.
    rewrite sub_bytes_eq by exact H.
    rewrite shift_rows_eq by (apply sub_bytes_wf, H).
    rewrite mix_columns_eq by (apply shift_rows_wf, sub_bytes_wf, H).
    apply add_round_key_eq. apply mix_columns_wf, shift_rows_wf, sub_bytes_wf, H. apply rk_wf, R.
  Qed.
  Lemma dec_round_eq st r : wf16 st -> (r <= nr)%nat ->
    Model.dec_round spec_tables rks st r = Spec.dec_round w st r /\ wf16 (Spec.dec_round w st r).
  Proof.
    intros H R. split; [|apply spec_dec_round_wf; assumption].
    unfold Model.dec_round, Spec.dec_round.  rewrite round_keys_nth by exact R.
    rewrite inv_shift_rows_eq by (apply H).
    rewrite inv_sub_bytes_eq by (apply inv_shift_rows_wf, H).
    rewrite add_round_key_eq by (try apply inv_sub_bytes_wf, inv_shift_rows_wf, H; apply rk_wf, R).
    apply inv_mix_columns_eq. apply add_round_key_wf. apply inv_sub_bytes_wf, inv_shift_rows_wf, H. apply rk_wf, R.
  Qed.

  Lemma nr_pos : (1 <= nr)%nat. Proof. unfold rounds. lia. Qed.
  Lemma rks_len : (length rks - 1)%nat = nr.
  Proof.  rewrite round_keys_length. lia. Qed.

  Lemma fold_enc_wf l st : wf16 st -> Forall (fun r => r <= nr)%nat l -> wf16 (fold_left (Spec.enc_round w) l st).
  Proof.
    revert st. induction l as [|r l IH]; intros st H F. exact H.
    inversion F; subst. cbn [fold_left]. apply IH. apply spec_enc_round_wf; assumption. assumption.
  Qed.
  Lemma fold_dec_wf l st : wf16 st -> Forall (fun r => r <= nr)%nat l -> wf16 (fold_left (Spec.dec_round w) l st).
  Proof.
    revert st. induction l as [|r l IH]; intros st H F. exact H.
    inversion F; subst. cbn [fold_left]. apply IH. apply spec_dec_round_wf; assumption. assumption.
  Qed.

  Theorem encrypt_block_eq block : wf16 block ->
    encrypt_block spec_tables block rks = Ok (cipher key block).
  Proof.
    intros H. unfold encrypt_block. destruct H as [L Bb]. rewrite L. cbn [Nat.eqb negb].
    rewrite rks_len. assert (H : wf16 block) by (split; assumption).
    unfold cipher, cipher_w.  
    rewrite !round_keys_nth by (pose proof nr_pos; lia). 
    rewrite (add_round_key_eq block (round_key w 0)) by (try exact H; apply rk_wf; lia).
    destruct (fold_inv_eq (Model.enc_round spec_tables (round_keys_spec key)) (Spec.enc_round w) wf16
               (fun r => r <= nr)%nat (seq 1 (nr - 1)) (Spec.add_round_key block (round_key w 0))) as [E W].
    - intros a b Pa Qb. apply enc_round_eq; assumption.
    - apply add_round_key_wf. exact H. apply rk_wf. lia.
    - apply seq_le.
    - rewrite E. rewrite sub_bytes_eq by exact W. rewrite shift_rows_eq by (apply sub_bytes_wf, W).
      rewrite add_round_key_eq. reflexivity. apply shift_rows_wf, sub_bytes_wf, W. apply rk_wf. lia.
  Qed.

  Theorem decrypt_block_eq block : wf16 block ->
    decrypt_block spec_tables block rks = Ok (inv_cipher key block).
  Proof.
    intros H. unfold decrypt_block. destruct H as [L Bb]. rewrite L. cbn [Nat.eqb negb].
    rewrite rks_len. assert (H : wf16 block) by (split; assumption).
    unfold inv_cipher, inv_cipher_w.  
    rewrite !round_keys_nth by (pose proof nr_pos; lia). 
    rewrite (add_round_key_eq block (round_key w nr)) by (try exact H; apply rk_wf; lia).
    destruct (fold_inv_eq (Model.dec_round spec_tables (round_keys_spec key)) (Spec.dec_round w) wf16
               (fun r => r <= nr)%nat (rev (seq 1 (nr - 1))) (Spec.add_round_key block (round_key w nr))) as [E W].
    - intros a b Pa Qb. apply dec_round_eq; assumption.
    - apply add_round_key_wf. exact H. apply rk_wf. lia.
    - apply rev_seq_le.
    - rewrite E. rewrite inv_shift_rows_eq by (apply W). rewrite inv_sub_bytes_eq by (apply inv_shift_rows_wf, W).
      rewrite add_round_key_eq. reflexivity. apply inv_sub_bytes_wf, inv_shift_rows_wf, W. apply rk_wf. lia.
  Qed.

  Lemma cipher_wf block : wf16 block -> wf16 (cipher key block).
  Proof.
    intro H. unfold cipher, cipher_w.  apply add_round_key_wf; [|apply rk_wf; lia].
    apply shift_rows_wf, sub_bytes_wf, fold_enc_wf. apply add_round_key_wf. exact H. apply rk_wf. lia. apply seq_le.
  Qed.
  Lemma inv_cipher_wf block : wf16 block -> wf16 (inv_cipher key block).
  Proof.
    intro H. unfold inv_cipher, inv_cipher_w.  apply add_round_key_wf; [|apply rk_wf; lia].
    apply inv_sub_bytes_wf, inv_shift_rows_wf, fold_dec_wf. apply add_round_key_wf. exact H. apply rk_wf. lia.
    apply rev_seq_le.
  Qed.

  (* ---- InvCipher . Cipher = id *)
  Definition SR (st : bytes) := Spec.shift_rows (Spec.sub_bytes st).
  Definition ISR (st : bytes) := Spec.inv_sub_bytes (Spec.inv_shift_rows st).
  Lemma ISR_SR st : wf16 st -> ISR (SR st) = st.
  Proof.
    intros H. unfold ISR, SR. rewrite inv_shift_rows_shift_rows by (apply sub_bytes_wf, H).
    apply inv_sub_bytes_sub_bytes. apply H.
  Qed.
  Lemma SR_ISR st : wf16 st -> SR (ISR st) = st.
  Proof.
    intros H. unfold ISR, SR. rewrite sub_bytes_inv_sub_bytes by (apply inv_shift_rows_wf, H).
    apply shift_rows_inv_shift_rows. apply H.
  Qed.
  Lemma ark_cancel st rk : wf16 st -> wf16 rk -> Spec.add_round_key (Spec.add_round_key st rk) rk = st.
  Proof. intros [L _] [L' _]. apply xor_bytes_cancel. congruence. Qed.

  Lemma dec_enc_rounds l : Forall (fun r => r <= nr)%nat l -> forall st, wf16 st ->
    ISR (fold_left (Spec.dec_round w) (rev l) (SR (fold_left (Spec.enc_round w) l st))) = st.
  Proof.
    induction l as [|r l IH] using rev_ind; intros F st H.
    - cbn. apply ISR_SR, H.
    - apply Forall_app in F. destruct F as [F Fr]. inversion Fr as [|? ? R _]; subst.
      rewrite rev_app_distr. cbn [rev app fold_left]. rewrite fold_left_app. cbn [fold_left].
      set (z := fold_left (Spec.enc_round w) l st).
      assert (Z : wf16 z) by (apply fold_enc_wf; assumption).
      assert (E : Spec.dec_round w (SR (Spec.enc_round w z r)) r = SR z).
      { unfold Spec.dec_round, Spec.enc_round. fold (SR z).
        fold (ISR (SR (Spec.add_round_key (Spec.mix_columns (SR z)) (round_key w r)))).
        assert (S1 : wf16 (SR z)) by (apply shift_rows_wf, sub_bytes_wf, Z).
        rewrite ISR_SR by (apply add_round_key_wf; [apply mix_columns_wf, S1 | apply rk_wf, R]).
        rewrite ark_cancel by (try apply mix_columns_wf, S1; apply rk_wf, R).
        apply inv_mix_columns_mix_columns, S1. }
      rewrite E. apply IH; assumption.
  Qed.
  Lemma enc_dec_rounds l : Forall (fun r => r <= nr)%nat l -> forall st, wf16 st ->
    SR (fold_left (Spec.enc_round w) l (ISR (fold_left (Spec.dec_round w) (rev l) st))) = st.
  Proof.
    induction l as [|r l IH]; intros F st H.
    - cbn. apply SR_ISR, H.
    - inversion F as [|? ? R F']; subst.
      cbn [rev]. rewrite fold_left_app. cbn [fold_left].
      set (z := fold_left (Spec.dec_round w) (rev l) st).
      assert (Z : wf16 z) by (apply fold_dec_wf; [assumption | apply Forall_rev, F']).
      assert (E : Spec.enc_round w (ISR (Spec.dec_round w z r)) r = ISR z).
      { unfold Spec.dec_round, Spec.enc_round. fold (ISR z).
        fold (SR (ISR (Spec.inv_mix_columns (Spec.add_round_key (ISR z) (round_key w r))))).
        assert (S1 : wf16 (ISR z)) by (apply inv_sub_bytes_wf, inv_shift_rows_wf, Z).
        assert (S2 : wf16 (Spec.add_round_key (ISR z) (round_key w r))) by (apply add_round_key_wf; [exact S1 | apply rk_wf, R]).
        rewrite SR_ISR by (apply inv_mix_columns_wf, S2).
        rewrite mix_columns_inv_mix_columns by exact S2.
        apply ark_cancel. exact S1. apply rk_wf, R. }
      rewrite E. apply IH; assumption.
  Qed.

  Theorem inv_cipher_cipher block : wf16 block -> inv_cipher key (cipher key block) = block.
  Proof.
    intro H. unfold inv_cipher, cipher, inv_cipher_w, cipher_w. 
    set (st0 := Spec.add_round_key block (round_key w 0)).
    assert (S0 : wf16 st0) by (apply add_round_key_wf; [exact H | apply rk_wf; lia]).
    set (y := fold_left (Spec.enc_round w) (seq 1 (nr - 1)) st0).
    assert (Y : wf16 y) by (apply fold_enc_wf; [exact S0 | apply seq_le]).
    fold (SR y). rewrite ark_cancel by (try apply shift_rows_wf, sub_bytes_wf, Y; apply rk_wf; lia).
    fold (ISR (fold_left (Spec.dec_round w) (rev (seq 1 (nr - 1))) (SR y))).
    subst y. rewrite dec_enc_rounds by (try apply seq_le; exact S0).
    subst st0. apply ark_cancel. exact H. apply rk_wf. lia.
  Qed.
  Theorem cipher_inv_cipher block : wf16 block -> cipher key (inv_cipher key block) = block.
  Proof.
    intro H. unfold inv_cipher, cipher, inv_cipher_w, cipher_w. 
    set (st0 := Spec.add_round_key block (round_key w nr)).
    assert (S0 : wf16 st0) by (apply add_round_key_wf; [exact H | apply rk_wf; lia]).
    set (y := fold_left (Spec.dec_round w) (rev (seq 1 (nr - 1))) st0).
    assert (Y : wf16 y) by (apply fold_dec_wf; [exact S0 | apply rev_seq_le]).
    fold (ISR y). rewrite ark_cancel by (try apply inv_sub_bytes_wf, inv_shift_rows_wf, Y; apply rk_wf; lia).
    fold (SR (fold_left (Spec.enc_round w) (seq 1 (nr - 1)) (ISR y))).
    subst y. rewrite enc_dec_rounds by (try apply seq_le; exact S0).
    subst st0. apply ark_cancel. exact H. apply rk_wf. lia.
  Qed.
End Key.
