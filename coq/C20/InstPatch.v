(* C20 — obligations over patch_pypdf_fallback_aes as translated from today's AST (Gen/C20Patch.v). *)
From S2T Require Import Lib.PyStr C20.Patch Gen.C20Patch.
Theorem C20_patch_body_ok : install_ok patch_body = true.
Proof. vm_compute. reflexivity. Qed.
Print Assumptions C20_patch_body_ok.
Theorem C20_patch_guard_is_fallback_provider : str_eqb patch_guard (s "local_crypt_fallback") = true.
Proof. vm_compute. reflexivity. Qed.
Print Assumptions C20_patch_guard_is_fallback_provider.
