(* C20 — ECB/CBC drivers, PKCS#7, the CryptAES wrapper, rejection of wrong lengths, the round-key cache. *)
From Coq Require Import Arith NArith List Bool Lia.
From S2T Require Import C20.Spec C20.Model C20.Tables C20.Finite C20.Rounds C20.KeyExp C20.Block.
Import ListNotations.
Open Scope N_scope.

(* ---- chunking *)
Lemma chunks_f_nil f : chunks_f f [] = [].
Proof. destruct f; reflexivity. Qed.

Lemma chunks_f_blocks n : forall f l, length l = (16 * n)%nat -> (length l <= f)%nat -> bytes_ok l = true ->
  Forall wf16 (chunks_f f l) /\ concat (chunks_f f l) = l /\ length (chunks_f f l) = n.
Proof.
  induction n as [|n IH]; intros f l L F B.
  - destruct l; [|discriminate L]. rewrite chunks_f_nil. repeat split. constructor.
  - destruct f as [|f]; [lia|]. destruct l as [|a l]; [discriminate L|].
    change (chunks_f (S f) (a :: l)) with (firstn 16 (a :: l) :: chunks_f f (skipn 16 (a :: l))).
    destruct (IH f (skipn 16 (a :: l))) as (F1 & C1 & L1).
    + rewrite skipn_length. lia.
    + rewrite skipn_length. cbn [length] in *. lia.
    + apply bytes_ok_skipn, B.
    + split; [|split].
      * constructor; [|exact F1]. split. rewrite firstn_length. lia. apply bytes_ok_firstn, B.
      * change (concat (?x :: ?y)) with (x ++ concat y). rewrite C1. apply firstn_skipn.
      * cbn [length]. now rewrite L1.
Qed.

Lemma aligned_len data : aligned data = true -> exists n, length data = (16 * n)%nat.
Proof. unfold aligned. intro H. apply Nat.eqb_eq in H. apply Nat.mod_divides in H; [exact H | lia]. Qed.

Lemma chunks_ok data : aligned data = true -> bytes_ok data = true ->
  Forall wf16 (chunks data) /\ concat (chunks data) = data.
Proof.
  intros A B. destruct (aligned_len data A) as [n L].
  destruct (chunks_f_blocks n (length data) data L (le_n _) B) as (F & C & _). split; assumption.
Qed.

Lemma chunks_f_app c rest f : length c = 16%nat -> (length (c ++ rest) <= f)%nat ->
  chunks_f f (c ++ rest) = c :: chunks_f (f - 1) rest.
Proof.
  intros L F. destruct f as [|f]. rewrite app_length in F. lia.
  destruct (c ++ rest) as [|x y] eqn:E. destruct c; discriminate.
  change (chunks_f (S f) (x :: y)) with (firstn 16 (x :: y) :: chunks_f f (skipn 16 (x :: y))).
  rewrite <- E. rewrite <- L. rewrite firstn_app, Nat.sub_diag, firstn_O, app_nil_r, firstn_all.
  rewrite skipn_app, Nat.sub_diag, skipn_all. cbn [skipn app]. replace (S f - 1)%nat with f by lia. reflexivity.
Qed.

Lemma chunks_f_more f : forall l, (length l <= f)%nat -> chunks_f f l = chunks_f (length l) l.
Proof.
  induction f as [f IH] using lt_wf_ind. intros l F.
  destruct l as [|a l]. now rewrite !chunks_f_nil.
  destruct f as [|f]; [cbn [length] in F; lia|].
  change (chunks_f (S f) (a :: l)) with (firstn 16 (a :: l) :: chunks_f f (skipn 16 (a :: l))).
  change (chunks_f (length (a :: l)) (a :: l)) with (firstn 16 (a :: l) :: chunks_f (length l) (skipn 16 (a :: l))).
  f_equal. assert (S : (length (skipn 16 (a :: l)) <= length l)%nat) by (rewrite skipn_length; cbn [length]; lia).
  rewrite (IH f) by (cbn [length] in F; lia). rewrite (IH (length l)) by (cbn [length] in F; lia). reflexivity.
Qed.

Lemma chunks_concat_blocks bl : Forall (fun b => length b = 16%nat) bl -> chunks (concat bl) = bl.
Proof.
  induction bl as [|c bl IH]; intro F. reflexivity.
  inversion F as [|? ? L F']; subst. unfold chunks. change (concat (c :: bl)) with (c ++ concat bl).
  rewrite chunks_f_app by (try exact L; lia). f_equal.
  rewrite chunks_f_more by (rewrite app_length; lia). apply IH, F'.
Qed.

(* ---- loops of the drivers *)
Section Key.
  Variable key : bytes.
  Hypothesis K : key_len_ok key = true.
  Hypothesis B : bytes_ok key = true.
  Local Notation rks := (round_keys_spec key).

  Lemma ecb_enc_loop_eq bl : Forall wf16 bl ->
    ecb_loop (fun b => encrypt_block spec_tables b rks) bl = Ok (ecb_enc_blocks key bl).
  Proof.
    induction bl as [|b bl IH]; intro F. reflexivity.
    inversion F as [|? ? W F']; subst. change (ecb_loop ?f (b :: bl)) with
      (match f b with Raise e => Raise e | Ok o => match ecb_loop f bl with Raise e => Raise e | Ok rest => Ok (o ++ rest) end end).
    cbv beta. rewrite (encrypt_block_eq key K B b W), (IH F'). reflexivity.
  Qed.
  Lemma ecb_dec_loop_eq bl : Forall wf16 bl ->
    ecb_loop (fun b => decrypt_block spec_tables b rks) bl = Ok (ecb_dec_blocks key bl).
  Proof.
    induction bl as [|b bl IH]; intro F. reflexivity.
    inversion F as [|? ? W F']; subst. change (ecb_loop ?f (b :: bl)) with
      (match f b with Raise e => Raise e | Ok o => match ecb_loop f bl with Raise e => Raise e | Ok rest => Ok (o ++ rest) end end).
    cbv beta. rewrite (decrypt_block_eq key K B b W), (IH F'). reflexivity.
  Qed.

  Lemma xor_wf a b : wf16 a -> wf16 b -> wf16 (xor_bytes a b).
  Proof. apply add_round_key_wf. Qed.

  Lemma cbc_enc_loop_eq bl : forall prev, wf16 prev -> Forall wf16 bl ->
    cbc_enc_loop (fun b => encrypt_block spec_tables b rks) prev bl = Ok (cbc_enc_blocks key prev bl).
  Proof.
    induction bl as [|b bl IH]; intros prev P F. reflexivity.
    inversion F as [|? ? W F']; subst.
    change (cbc_enc_loop ?f prev (b :: bl)) with
      (match f (xor_bytes b prev) with Raise e => Raise e
       | Ok enc => match cbc_enc_loop f enc bl with Raise e => Raise e | Ok rest => Ok (enc ++ rest) end end).
    cbv beta. rewrite (encrypt_block_eq key K B _ (xor_wf b prev W P)).
    rewrite (IH _ (cipher_wf key K B _ (xor_wf b prev W P)) F'). reflexivity.
  Qed.
  Lemma cbc_dec_loop_eq bl : forall prev, Forall wf16 bl ->
    cbc_dec_loop (fun b => decrypt_block spec_tables b rks) prev bl = Ok (cbc_dec_blocks key prev bl).
  Proof.
    induction bl as [|b bl IH]; intros prev F. reflexivity.
    inversion F as [|? ? W F']; subst.
    change (cbc_dec_loop ?f prev (b :: bl)) with
      (match f b with Raise e => Raise e
       | Ok dec => match cbc_dec_loop f b bl with Raise e => Raise e | Ok rest => Ok (xor_bytes dec prev ++ rest) end end).
    cbv beta. rewrite (decrypt_block_eq key K B b W). rewrite (IH b F'). reflexivity.
  Qed.

  (* ---- round trips on block lists (spec level) *)
  Lemma Forall_len bl : Forall wf16 bl -> Forall (fun b : bytes => length b = 16%nat) bl.
  Proof. intro F. eapply Forall_impl; [|exact F]. intros a [L _]. exact L. Qed.

  Lemma ecb_enc_blocks_concat bl : ecb_enc_blocks key bl = concat (map (cipher key) bl).
  Proof. unfold ecb_enc_blocks. apply flat_map_concat_map. Qed.
  Lemma map_cipher_wf bl : Forall wf16 bl -> Forall wf16 (map (cipher key) bl).
  Proof. intro F. apply Forall_map. eapply Forall_impl; [|exact F]. intros a W. apply cipher_wf; assumption. Qed.

  Lemma ecb_roundtrip_blocks bl : Forall wf16 bl ->
    ecb_dec_blocks key (chunks (ecb_enc_blocks key bl)) = concat bl.
  Proof.
    intro F. rewrite ecb_enc_blocks_concat. rewrite chunks_concat_blocks by (apply Forall_len, map_cipher_wf, F).
    unfold ecb_dec_blocks. rewrite flat_map_concat_map, map_map. f_equal.
    induction F as [|b bl W F IH]. reflexivity. cbn [map]. rewrite (inv_cipher_cipher key K B b W). now f_equal.
  Qed.

  Lemma cbc_enc_blocks_split bl : forall prev, wf16 prev -> Forall wf16 bl ->
    exists cl, cbc_enc_blocks key prev bl = concat cl /\ Forall wf16 cl /\ length cl = length bl /\
               cbc_dec_blocks key prev cl = concat bl.
  Proof.
    induction bl as [|b bl IH]; intros prev P F. exists []. repeat split. constructor.
    inversion F as [|? ? W F']; subst.
    pose proof (xor_wf b prev W P) as X. pose proof (cipher_wf key K B _ X) as C.
    destruct (IH _ C F') as (cl & E & Fc & Lc & D).
    exists (cipher key (xor_bytes b prev) :: cl). split; [|split; [|split]].
    - change (cbc_enc_blocks key prev (b :: bl)) with
        (cipher key (xor_bytes b prev) ++ cbc_enc_blocks key (cipher key (xor_bytes b prev)) bl).
      rewrite E. reflexivity.
    - constructor; assumption.
    - cbn [length]. now rewrite Lc.
    - change (cbc_dec_blocks key prev (?c :: cl)) with (xor_bytes (inv_cipher key c) prev ++ cbc_dec_blocks key c cl).
      rewrite D. rewrite (inv_cipher_cipher key K B _ X).
      rewrite xor_bytes_cancel by (destruct W, P; congruence). reflexivity.
  Qed.

  Lemma cbc_roundtrip_blocks bl prev : wf16 prev -> Forall wf16 bl ->
    cbc_dec_blocks key prev (chunks (cbc_enc_blocks key prev bl)) = concat bl
    /\ length (cbc_enc_blocks key prev bl) = (16 * length bl)%nat
    /\ bytes_ok (cbc_enc_blocks key prev bl) = true.
  Proof.
    intros P F. destruct (cbc_enc_blocks_split bl prev P F) as (cl & E & Fc & Lc & D).
    rewrite E. rewrite chunks_concat_blocks by (apply Forall_len, Fc). split; [exact D|].
    rewrite <- Lc. clear -Fc. induction Fc as [|c cl [L Bc] F IH]. split; reflexivity.
    change (concat (c :: cl)) with (c ++ concat cl). rewrite app_length, L. destruct IH as [IH1 IH2]. split.
    cbn [length]. lia. apply bytes_ok_app. split; assumption.
  Qed.
End Key.

(* ---- PKCS#7 *)
Lemma bytes_eqb_refl a : bytes_eqb a a = true.
Proof. induction a as [|x a IH]. reflexivity. cbn [bytes_eqb]. now rewrite N.eqb_refl, IH. Qed.
Lemma bytes_eqb_eq a : forall b, bytes_eqb a b = true -> a = b.
Proof.
  induction a as [|x a IH]; intros [|y b] H; try reflexivity; try discriminate H.
  cbn [bytes_eqb] in H. apply andb_true_iff in H. destruct H as [H1 H2]. apply N.eqb_eq in H1. subst. f_equal. apply IH, H2.
Qed.

Definition block_size_ok (bs : nat) : bool := ((1 <=? bs) && (bs <=? 255))%nat.

Lemma pad_amount (m : bytes) bs : block_size_ok bs = true -> (1 <= bs - length m mod bs <= bs)%nat.
Proof.
  unfold block_size_ok. rewrite andb_true_iff, !Nat.leb_le. intros [H1 H2].
  pose proof (Nat.mod_upper_bound (length m) bs ltac:(lia)). lia.
Qed.

Lemma last_app_repeat (m : bytes) (x : N) p : (1 <= p)%nat -> last (m ++ repeat x p) 0 = x.
Proof.
  intro H. destruct p as [|p]; [lia|]. replace (repeat x (S p)) with (repeat x p ++ [x]).
  rewrite app_assoc. apply last_last. clear. induction p. reflexivity. cbn [repeat app]. now rewrite IHp.
Qed.

Theorem pkcs7_unpad_pad m bs : block_size_ok bs = true -> pkcs7_unpad (pkcs7_pad m bs) bs = Ok m.
Proof.
  intro Hbs. pose proof (pad_amount m bs Hbs) as P. unfold pkcs7_pad.
  set (p := (bs - length m mod bs)%nat) in *.
  unfold pkcs7_unpad. destruct (m ++ repeat (N.of_nat p) p) as [|x y] eqn:E.
  - apply (f_equal (@length N)) in E. rewrite app_length, repeat_length in E. cbn [length] in E. lia.
  - rewrite <- E. rewrite last_app_repeat by lia. rewrite Nat2N.id.
    replace ((p <? 1) || (bs <? p))%nat with false
      by (symmetry; apply orb_false_iff; split; apply Nat.ltb_ge; lia).
    rewrite app_length, repeat_length. replace (length m + p - p)%nat with (length m) by lia.
    rewrite skipn_app, Nat.sub_diag, skipn_all. cbn [skipn app]. rewrite bytes_eqb_refl. cbn [negb].
    rewrite firstn_app, Nat.sub_diag, firstn_all. cbn [firstn]. now rewrite app_nil_r.
Qed.

Theorem pkcs7_pad_length m bs : block_size_ok bs = true ->
  (length (pkcs7_pad m bs) mod bs = 0)%nat /\ (length m < length (pkcs7_pad m bs) <= length m + bs)%nat.
Proof.
  intro Hbs. pose proof (pad_amount m bs Hbs) as P. unfold pkcs7_pad. rewrite app_length, repeat_length.
  split; [|lia].
  assert (Z : bs <> 0%nat) by (unfold block_size_ok in Hbs; apply andb_true_iff in Hbs; destruct Hbs as [H _]; apply Nat.leb_le in H; lia).
  pose proof (Nat.div_mod (length m) bs Z) as D.
  replace (length m + (bs - length m mod bs))%nat with ((length m / bs + 1) * bs)%nat by nia.
  apply Nat.mod_mul. exact Z.
Qed.

Lemma pkcs7_pad_ok m bs : block_size_ok bs = true -> bytes_ok m = true -> bytes_ok (pkcs7_pad m bs) = true.
Proof.
  intros Hbs Bm. pose proof (pad_amount m bs Hbs) as P. unfold pkcs7_pad. apply bytes_ok_app. split. exact Bm.
  unfold block_size_ok in Hbs. apply andb_true_iff in Hbs. destruct Hbs as [_ H]. apply Nat.leb_le in H.
  set (p := (bs - length m mod bs)%nat) in *. assert (Bp : N.of_nat p < 256) by lia.
  generalize p at 2. intro k. induction k. reflexivity. cbn [repeat]. apply bytes_ok_cons. split; assumption.
Qed.

(* ---- the round-key cache *)
Definition cache_ok (c : cache) : Prop :=
  Forall (fun kv => expand_key spec_tables (fst kv) = Ok (snd kv)) c.

Lemma cache_find_ok c key v : cache_ok c -> cache_find key c = Some v -> expand_key spec_tables key = Ok v.
Proof.
  induction c as [|[k v'] c IH]; intros F H. discriminate H.
  inversion F as [|? ? Hk F']; subst. cbn [cache_find] in H. destruct (bytes_eqb k key) eqn:E.
  - apply bytes_eqb_eq in E. subst. injection H as <-. exact Hk.
  - apply IH; assumption.
Qed.
Lemma cache_remove_ok c key : cache_ok c -> cache_ok (cache_remove key c).
Proof.
  induction c as [|[k v] c IH]; intro F. constructor.
  inversion F as [|? ? Hk F']; subst. cbn [cache_remove]. destruct (bytes_eqb k key). exact F'.
  constructor. exact Hk. apply IH, F'.
Qed.
Lemma cache_remove_len c key v : cache_find key c = Some v -> S (length (cache_remove key c)) = length c.
Proof.
  induction c as [|[k v'] c IH]; intro H. discriminate H.
  cbn [cache_find] in H. cbn [cache_remove]. destruct (bytes_eqb k key). reflexivity.
  cbn [length]. f_equal. apply IH, H.
Qed.

Theorem get_round_keys_coherent c key : cache_ok c ->
  fst (get_round_keys spec_tables c key) = expand_key spec_tables key
  /\ cache_ok (snd (get_round_keys spec_tables c key))
  /\ ((length c <= CACHE_MAX)%nat -> (length (snd (get_round_keys spec_tables c key)) <= CACHE_MAX)%nat).
Proof.
  intro F. unfold get_round_keys. destruct (cache_find key c) as [v|] eqn:E.
  - pose proof (cache_find_ok c key v F E) as Hv. cbn [fst snd]. split; [now rewrite Hv|]. split.
    + apply Forall_app. split. apply cache_remove_ok, F. constructor. exact Hv. constructor.
    + intro L. rewrite app_length. cbn [length]. pose proof (cache_remove_len c key v E). lia.
  - destruct (expand_key spec_tables key) as [rks|e] eqn:X; cbn [fst snd].
    + split; [reflexivity|].
      assert (F2 : cache_ok (c ++ [(key, rks)])) by (apply Forall_app; split; [exact F | constructor; [exact X | constructor]]).
      destruct (CACHE_MAX <? length (c ++ [(key, rks)]))%nat eqn:Cmp.
      * split. destruct (c ++ [(key, rks)]) as [|h tl]. constructor. inversion F2; assumption.
        intro L. rewrite app_length in *. cbn [length] in *. destruct c; cbn [app tl length] in *; [lia|]. rewrite app_length. cbn [length]. lia.
      * split. exact F2. intro L. apply Nat.ltb_ge in Cmp. exact Cmp.
    + repeat split. exact F. tauto.
Qed.

Theorem cache_after_coherent history :
  cache_ok (cache_after spec_tables history) /\ (length (cache_after spec_tables history) <= CACHE_MAX)%nat.
Proof.
  unfold cache_after.
  assert (G : forall c, cache_ok c -> (length c <= CACHE_MAX)%nat ->
    cache_ok (fold_left (fun c k => snd (get_round_keys spec_tables c k)) history c) /\
    (length (fold_left (fun c k => snd (get_round_keys spec_tables c k)) history c) <= CACHE_MAX)%nat).
  { induction history as [|k h IH]; intros c F L. split; assumption.
    cbn [fold_left]. destruct (get_round_keys_coherent c k F) as (_ & F' & L'). apply IH. exact F'. apply L', L. }
  apply G. constructor. cbn. unfold CACHE_MAX. lia.
Qed.
