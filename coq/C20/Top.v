(* C20 — the public functions of the module (with the cache threaded through) against the spec. *)
From Coq Require Import Arith NArith List Bool Lia.
From S2T Require Import C20.Spec C20.Model C20.Tables C20.Finite C20.Rounds C20.KeyExp C20.Block C20.Modes.
Import ListNotations.
Open Scope N_scope.

Lemma tables_ok_eq T : tables_ok T = true -> T = spec_tables.
Proof.
  unfold tables_ok, tables_eqb. rewrite !andb_true_iff. intros H. decompose [and] H. clear H.
  destruct T as [t1 t2 t3 t4 t5 t6 t7 t8 t9]. cbn [SBOX INV_SBOX MUL2 MUL3 MUL9 MUL11 MUL13 MUL14 RCON] in *.
  unfold spec_tables.
  repeat match goal with H : bytes_eqb _ _ = true |- _ => apply bytes_eqb_eq in H end.
  subst. reflexivity.
Qed.

Definition iv_ok (iv : bytes) : bool := (length iv =? 16)%nat && bytes_ok iv.
Lemma iv_ok_wf iv : iv_ok iv = true -> wf16 iv.
Proof. unfold iv_ok. rewrite andb_true_iff, Nat.eqb_eq. intros [L Bi]. split; assumption. Qed.

Section Key.
  Variable key : bytes.
  Hypothesis K : key_len_ok key = true.
  Hypothesis B : bytes_ok key = true.

  Lemma with_rk_eq c k : cache_ok c ->
    fst (with_round_keys spec_tables c key k) = k (round_keys_spec key)
    /\ cache_ok (snd (with_round_keys spec_tables c key k)).
  Proof.
    intro F. destruct (get_round_keys_coherent c key F) as (E & F' & _).
    rewrite (expand_key_eq key K B) in E. unfold with_round_keys.
    destruct (get_round_keys spec_tables c key) as [r c']. cbn [fst snd] in *. subst r. cbn [fst snd]. tauto.
  Qed.

  Theorem ecb_encrypt_eq c data : cache_ok c -> aligned data = true -> bytes_ok data = true ->
    fst (aes_ecb_encrypt spec_tables c key data) = Ok (ecb_encrypt key data).
  Proof.
    intros F A Bd. unfold aes_ecb_encrypt. rewrite A. cbn [negb].
    destruct (with_rk_eq c (fun rks => ecb_loop (fun b => encrypt_block spec_tables b rks) (chunks data)) F) as [E _].
    rewrite E. apply ecb_enc_loop_eq; try assumption. apply chunks_ok; assumption.
  Qed.
  Theorem ecb_decrypt_eq c data : cache_ok c -> aligned data = true -> bytes_ok data = true ->
    fst (aes_ecb_decrypt spec_tables c key data) = Ok (ecb_decrypt key data).
  Proof.
    intros F A Bd. unfold aes_ecb_decrypt. rewrite A. cbn [negb].
    destruct (with_rk_eq c (fun rks => ecb_loop (fun b => decrypt_block spec_tables b rks) (chunks data)) F) as [E _].
    rewrite E. apply ecb_dec_loop_eq; try assumption. apply chunks_ok; assumption.
  Qed.
  Theorem cbc_encrypt_eq c iv data : cache_ok c -> iv_ok iv = true -> aligned data = true -> bytes_ok data = true ->
    fst (aes_cbc_encrypt spec_tables c key iv data) = Ok (cbc_encrypt key iv data).
  Proof.
    intros F I A Bd. pose proof (iv_ok_wf iv I) as W. unfold aes_cbc_encrypt. destruct W as [L Bi]. rewrite L, A. cbn [negb Nat.eqb].
    destruct (with_rk_eq c (fun rks => cbc_enc_loop (fun b => encrypt_block spec_tables b rks) iv (chunks data)) F) as [E _].
    rewrite E. apply cbc_enc_loop_eq; try assumption. split; assumption. apply chunks_ok; assumption.
  Qed.
  Theorem cbc_decrypt_eq c iv data : cache_ok c -> iv_ok iv = true -> aligned data = true -> bytes_ok data = true ->
    fst (aes_cbc_decrypt spec_tables c key iv data) = Ok (cbc_decrypt key iv data).
  Proof.
    intros F I A Bd. pose proof (iv_ok_wf iv I) as W. unfold aes_cbc_decrypt. destruct W as [L Bi]. rewrite L, A. cbn [negb Nat.eqb].
    destruct (with_rk_eq c (fun rks => cbc_dec_loop (fun b => decrypt_block spec_tables b rks) iv (chunks data)) F) as [E _].
    rewrite E. apply cbc_dec_loop_eq; try assumption. apply chunks_ok; assumption.
  Qed.

  (* round trips, spec level *)
  Theorem ecb_roundtrip data : aligned data = true -> bytes_ok data = true ->
    ecb_decrypt key (ecb_encrypt key data) = data.
  Proof.
    intros A Bd. destruct (chunks_ok data A Bd) as [F C]. unfold ecb_decrypt, ecb_encrypt.
    rewrite (ecb_roundtrip_blocks key K B _ F). exact C.
  Qed.
  Theorem cbc_roundtrip iv data : iv_ok iv = true -> aligned data = true -> bytes_ok data = true ->
    cbc_decrypt key iv (cbc_encrypt key iv data) = data
    /\ length (cbc_encrypt key iv data) = length data /\ bytes_ok (cbc_encrypt key iv data) = true.
  Proof.
    intros I A Bd. destruct (aligned_len data A) as [n L].
    destruct (chunks_f_blocks n (length data) data L (le_n _) Bd) as (F & C & Ln). fold (chunks data) in *.
    unfold cbc_decrypt, cbc_encrypt.
    destruct (cbc_roundtrip_blocks key K B (chunks data) iv (iv_ok_wf iv I) F) as (R & Lc & Bc).
    rewrite R, Lc, Ln. repeat split; [exact C | lia | exact Bc].
  Qed.

  (* CryptAES.encrypt then CryptAES.decrypt *)
  Theorem stream_roundtrip c1 c2 iv m : cache_ok c1 -> cache_ok c2 -> iv_ok iv = true -> bytes_ok m = true ->
    exists ct, fst (cryptaes_encrypt spec_tables c1 key iv m) = Ok ct /\ firstn 16 ct = iv
               /\ skipn 16 ct = cbc_encrypt key iv (pkcs7_pad m 16)
               /\ fst (cryptaes_decrypt spec_tables c2 key ct) = Ok m.
  Proof.
    intros F1 F2 I Bm. pose proof (iv_ok_wf iv I) as [Li Bi].
    assert (BS : block_size_ok 16 = true) by reflexivity.
    destruct (pkcs7_pad_length m 16 BS) as [PA PL]. apply Nat.eqb_eq in PA. fold (aligned (pkcs7_pad m 16)) in PA.
    pose proof (pkcs7_pad_ok m 16 BS Bm) as PB.
    pose proof (cbc_encrypt_eq c1 iv _ F1 I PA PB) as E.
    destruct (cbc_roundtrip iv _ I PA PB) as (R & Lc & Bc).
    set (ct := cbc_encrypt key iv (pkcs7_pad m 16)) in *.
    exists (iv ++ ct). split; [|split; [|split]].
    - unfold cryptaes_encrypt. destruct (aes_cbc_encrypt spec_tables c1 key iv (pkcs7_pad m 16)) as [r c'].
      cbn [fst] in E. subst r. reflexivity.
    - rewrite <- Li. rewrite firstn_app, Nat.sub_diag, firstn_O, app_nil_r. apply firstn_all.
    - rewrite <- Li. rewrite skipn_app, Nat.sub_diag, skipn_all. reflexivity.
    - unfold cryptaes_decrypt.
      assert (S16 : skipn 16 (iv ++ ct) = ct) by (rewrite <- Li; rewrite skipn_app, Nat.sub_diag, skipn_all; reflexivity).
      assert (F16 : firstn 16 (iv ++ ct) = iv) by (rewrite <- Li; rewrite firstn_app, Nat.sub_diag, firstn_O, app_nil_r; apply firstn_all).
      rewrite S16, F16.
      assert (A : aligned ct = true) by (unfold aligned; rewrite Lc; exact PA).
      destruct ct as [|x y] eqn:Ect. cbn [length] in Lc. lia.
      rewrite <- Ect in *. rewrite A. cbn [negb].
      pose proof (cbc_decrypt_eq c2 iv ct F2 I A Bc) as D.
      destruct (aes_cbc_decrypt spec_tables c2 key iv ct) as [r c']. cbn [fst] in D. subst r. cbn [fst].
      rewrite Ect in R. rewrite <- Ect in R. rewrite R. apply pkcs7_unpad_pad. exact BS.
  Qed.
End Key.

(* ---- rejection of wrong lengths (ValueError), whatever the cache holds *)
Lemma bad_key_not_cached c key : cache_ok c -> key_len_ok key = false -> cache_find key c = None.
Proof.
  intros F K. destruct (cache_find key c) as [v|] eqn:E; [|reflexivity].
  pose proof (cache_find_ok c key v F E) as X. rewrite (expand_key_bad_len key K) in X. discriminate X.
Qed.
Lemma with_rk_bad_key c key k : cache_ok c -> key_len_ok key = false ->
  with_round_keys spec_tables c key k = (Raise ValueError, c).
Proof.
  intros F K. unfold with_round_keys, get_round_keys. rewrite (bad_key_not_cached c key F K).
  rewrite (expand_key_bad_len key K). reflexivity.
Qed.

Theorem rejects c key iv data : cache_ok c ->
  (aligned data = false ->
     aes_ecb_encrypt spec_tables c key data = (Raise ValueError, c) /\ aes_ecb_decrypt spec_tables c key data = (Raise ValueError, c) /\
     aes_cbc_encrypt spec_tables c key iv data = (Raise ValueError, c) /\ aes_cbc_decrypt spec_tables c key iv data = (Raise ValueError, c)) /\
  ((length iv =? 16)%nat = false ->
     aes_cbc_encrypt spec_tables c key iv data = (Raise ValueError, c) /\ aes_cbc_decrypt spec_tables c key iv data = (Raise ValueError, c)) /\
  (key_len_ok key = false ->
     aes_ecb_encrypt spec_tables c key data = (Raise ValueError, c) /\ aes_ecb_decrypt spec_tables c key data = (Raise ValueError, c) /\
     aes_cbc_encrypt spec_tables c key iv data = (Raise ValueError, c) /\ aes_cbc_decrypt spec_tables c key iv data = (Raise ValueError, c) /\
     expand_key spec_tables key = Raise ValueError).
Proof.
  intro F. split; [|split].
  - intro A. unfold aes_ecb_encrypt, aes_ecb_decrypt, aes_cbc_encrypt, aes_cbc_decrypt. rewrite A. cbn [negb].
    destruct (length iv =? 16)%nat; cbn [negb]; tauto.
  - intro I. unfold aes_cbc_encrypt, aes_cbc_decrypt. rewrite I. cbn [negb]. tauto.
  - intro K. unfold aes_ecb_encrypt, aes_ecb_decrypt, aes_cbc_encrypt, aes_cbc_decrypt.
    rewrite !(with_rk_bad_key c key _ F K). rewrite (expand_key_bad_len key K).
    destruct (aligned data), (length iv =? 16)%nat; cbn [negb]; tauto.
Qed.
