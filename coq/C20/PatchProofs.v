(* C20 — lemmas about the installation model C20/Patch.v *)
From Coq Require Import NArith List Bool.
From S2T Require Import Lib.PyStr C20.Patch.
Import ListNotations.

Lemma ns_eqb_eq a b : ns_eqb a b = true <-> a = b.
Proof. destruct a, b; cbn; split; intro H; try reflexivity; try discriminate H. Qed.
Lemma key_eqb_eq a b : key_eqb a b = true <-> a = b.
Proof.
  destruct a as [n x], b as [n' y]. unfold key_eqb. cbn [fst snd]. rewrite andb_true_iff, ns_eqb_eq, str_eqb_eq.
  split. intros [-> ->]. reflexivity. intro H. injection H as -> ->. split; reflexivity.
Qed.
Lemma key_eqb_refl a : key_eqb a a = true. Proof. apply key_eqb_eq. reflexivity. Qed.
Lemma val_eqb_eq a b : val_eqb a b = true -> a = b.
Proof.
  destruct a, b; cbn; intro H; try discriminate H; try reflexivity.
  - apply str_eqb_eq in H. now subst.
  - apply str_eqb_eq in H. now subst.
  - apply N.eqb_eq in H. now subst.
Qed.

Lemma lookup_set st a k : lookup (set st a) k = if key_eqb (fst a) k then Some (snd a) else lookup st k.
Proof.
  destruct a as [ka va]. cbn [fst snd]. induction st as [|[k' v] r IH]; cbn [set lookup fst snd].
  - destruct (key_eqb ka k); reflexivity.
  - destruct (key_eqb k' ka) eqn:E.
    + apply key_eqb_eq in E. subst k'. cbn [lookup]. destruct (key_eqb ka k); reflexivity.
    + cbn [lookup]. rewrite IH. destruct (key_eqb k' k) eqn:E2; [|reflexivity].
      apply key_eqb_eq in E2. subst k'. destruct (key_eqb ka k) eqn:E3; [|reflexivity].
      apply key_eqb_eq in E3. subst k. rewrite key_eqb_refl in E. discriminate E.
Qed.

Lemma lookup_run body : forall st k,
  lookup (fold_left set body st) k = match last_write body k with Some w => Some w | None => lookup st k end.
Proof.
  induction body as [|[k' v] r IH]; intros st k. reflexivity.
  cbn [fold_left last_write]. rewrite IH, lookup_set. cbn [fst snd].
  destruct (last_write r k); [reflexivity|]. destruct (key_eqb k' k); reflexivity.
Qed.

Lemma last_write_none body k : (forall a, In a body -> key_eqb (fst a) k = false) -> last_write body k = None.
Proof.
  induction body as [|[k' v] r IH]; intro H. reflexivity.
  cbn [last_write]. rewrite IH by (intros a Ha; apply H; right; exact Ha).
  pose proof (H (k', v) (or_introl eq_refl)) as E. cbn [fst] in E. rewrite E. reflexivity.
Qed.

Lemma patch_installs guard body st : install_ok body = true ->
  fst (run_patch guard body guard st) = true /\
  forall r, In r required -> lookup (snd (run_patch guard body guard st)) (fst r) = Some (snd r).
Proof.
  intro H. unfold run_patch. rewrite str_eqb_refl. cbn [fst snd]. split. reflexivity.
  intros r Hr. unfold install_ok in H. apply andb_true_iff in H. destruct H as [H _].
  rewrite forallb_forall in H. specialize (H r Hr). rewrite lookup_run.
  destruct (last_write body (fst r)) as [w|]; cbn in H; [|discriminate H]. apply val_eqb_eq in H. now subst.
Qed.

Lemma patch_frame guard body provider st k : install_ok body = true ->
  existsb (fun r => key_eqb (fst r) k) required = false ->
  lookup (snd (run_patch guard body provider st)) k = lookup st k.
Proof.
  intros H Hk. unfold run_patch. destruct (str_eqb provider guard); [|reflexivity]. cbn [snd].
  rewrite lookup_run. rewrite last_write_none. reflexivity.
  intros a Ha. unfold install_ok in H. apply andb_true_iff in H. destruct H as [_ H].
  rewrite forallb_forall in H. specialize (H a Ha). destruct (key_eqb (fst a) k) eqn:E; [|reflexivity].
  apply key_eqb_eq in E. subst k. rewrite H in Hk. discriminate Hk.
Qed.

Lemma patch_idempotent guard body provider st :
  fst (run_patch guard body provider (snd (run_patch guard body provider st))) = fst (run_patch guard body provider st) /\
  forall k, lookup (snd (run_patch guard body provider (snd (run_patch guard body provider st)))) k
            = lookup (snd (run_patch guard body provider st)) k.
Proof.
  unfold run_patch. destruct (str_eqb provider guard); cbn [fst snd]; split; try reflexivity.
  intro k. rewrite !lookup_run. destruct (last_write body k); reflexivity.
Qed.

Lemma patch_not_applicable guard body provider st :
  str_eqb provider guard = false -> run_patch guard body provider st = (false, st).
Proof. intro H. unfold run_patch. now rewrite H. Qed.
