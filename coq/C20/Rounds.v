(* C20 — round functions: the table-driven in-place functions of the model equal the FIPS-197
   transformations on every well-formed state, and the spec transformations invert each other. *)
From Coq Require Import Arith NArith List Bool Lia Btauto.
From S2T Require Import C20.Spec C20.Model C20.Tables C20.Finite.
Import ListNotations.
Open Scope N_scope.

Definition wf16 (st : bytes) : Prop := length st = 16%nat /\ bytes_ok st = true.

Lemma bytes_ok_cons a l : bytes_ok (a :: l) = true <-> a < 256 /\ bytes_ok l = true.
Proof. unfold bytes_ok. cbn [forallb]. rewrite andb_true_iff, byteb_lt. tauto. Qed.

Lemma bytes_ok_app a b : bytes_ok (a ++ b) = true <-> bytes_ok a = true /\ bytes_ok b = true.
Proof. unfold bytes_ok. rewrite forallb_app, andb_true_iff. tauto. Qed.

Lemma len16_inv (st : list N) : length st = 16%nat ->
  exists a0 a1 a2 a3 a4 a5 a6 a7 a8 a9 a10 a11 a12 a13 a14 a15,
    st = [a0;a1;a2;a3;a4;a5;a6;a7;a8;a9;a10;a11;a12;a13;a14;a15].
Proof.
  intro H. do 16 (destruct st as [|? st]; [discriminate H|]). destruct st; [|discriminate H].
  repeat eexists.
Qed.

Lemma len4_inv (st : list N) : length st = 4%nat -> exists a0 a1 a2 a3, st = [a0;a1;a2;a3].
Proof.
  intro H. do 4 (destruct st as [|? st]; [discriminate H|]). destruct st; [|discriminate H].
  repeat eexists.
Qed.

Ltac open16 st H :=
  let Hl := fresh "Hl" in let Hb := fresh "Hb" in
  destruct H as [Hl Hb];
  destruct (len16_inv st Hl) as (?a & ?a & ?a & ?a & ?a & ?a & ?a & ?a & ?a & ?a & ?a & ?a & ?a & ?a & ?a & ?a & ->);
  clear Hl; repeat (apply bytes_ok_cons in Hb; let Hx := fresh "B" in destruct Hb as [Hx Hb]); clear Hb.

Lemma lxor_byte a b : a < 256 -> b < 256 -> N.lxor a b < 256.
Proof.
  intros Ha Hb. destruct (N.eq_dec (N.lxor a b) 0) as [E|E]. rewrite E. reflexivity.
  change 256 with (2 ^ 8). apply N.log2_lt_pow2. lia.
  eapply N.le_lt_trans. apply N.log2_lxor.
  assert (La : N.log2 a < 8).
  { destruct (N.eq_dec a 0) as [->|Za]. reflexivity. apply N.log2_lt_pow2; [lia | exact Ha]. }
  assert (Lb : N.log2 b < 8).
  { destruct (N.eq_dec b 0) as [->|Zb]. reflexivity. apply N.log2_lt_pow2; [lia | exact Hb]. }
  lia.
Qed.

Lemma xor_bytes_ok a b : bytes_ok a = true -> bytes_ok b = true -> bytes_ok (xor_bytes a b) = true.
Proof.
  revert b. induction a as [|x a IH]; intros [|y b] Ha Hb; try reflexivity.
  apply bytes_ok_cons in Ha. apply bytes_ok_cons in Hb. cbn [xor_bytes]. apply bytes_ok_cons. split.
  apply lxor_byte; tauto. apply IH; tauto.
Qed.
Lemma xor_bytes_length a b : length a = length b -> length (xor_bytes a b) = length a.
Proof.
  revert b. induction a as [|x a IH]; intros [|y b] H; try reflexivity; try discriminate H.
  cbn [xor_bytes length]. f_equal. apply IH. now injection H.
Qed.
Lemma xor_bytes_cancel a b : length a = length b -> xor_bytes (xor_bytes a b) b = a.
Proof.
  revert b. induction a as [|x a IH]; intros [|y b] H; try reflexivity; try discriminate H.
  cbn [xor_bytes]. f_equal. rewrite N.lxor_assoc, N.lxor_nilpotent. apply N.lxor_0_r. apply IH. now injection H.
Qed.

(* ---- table look-ups of the spec tables *)
Lemma tget_map f b : b < 256 -> tget (map f bytes256) b = f b.
Proof.
  intro H. unfold tget.
  assert (L : length bytes256 = 256%nat) by (unfold bytes256; rewrite map_length, seq_length; reflexivity).
  rewrite nth_indep with (d' := f 0) by (rewrite map_length, L; lia).
  rewrite map_nth. f_equal. unfold bytes256.
  rewrite nth_indep with (d' := N.of_nat 0) by (rewrite map_length, seq_length; lia).
  rewrite map_nth, seq_nth by lia. lia.
Qed.
Lemma tget_sbox b : b < 256 -> tget (SBOX spec_tables) b = sbox b. Proof. apply tget_map. Qed.
Lemma tget_inv_sbox b : b < 256 -> tget (INV_SBOX spec_tables) b = inv_sbox b. Proof. apply tget_map. Qed.
Lemma tget_mul2 b : b < 256 -> tget (MUL2 spec_tables) b = gmul 2 b. Proof. apply tget_map. Qed.
Lemma tget_mul3 b : b < 256 -> tget (MUL3 spec_tables) b = gmul 3 b. Proof. apply tget_map. Qed.
Lemma tget_mul9 b : b < 256 -> tget (MUL9 spec_tables) b = gmul 9 b. Proof. apply tget_map. Qed.
Lemma tget_mul11 b : b < 256 -> tget (MUL11 spec_tables) b = gmul 11 b. Proof. apply tget_map. Qed.
Lemma tget_mul13 b : b < 256 -> tget (MUL13 spec_tables) b = gmul 13 b. Proof. apply tget_map. Qed.
Lemma tget_mul14 b : b < 256 -> tget (MUL14 spec_tables) b = gmul 14 b. Proof. apply tget_map. Qed.

Ltac model_cbv :=
  cbv [Model.sub_bytes Model.inv_sub_bytes Model.add_round_key Model.mix_columns Model.inv_mix_columns
       for_range seq fold_left set_nth nth Nat.add Nat.mul x4].
Ltac spec_cbv :=
  cbv [Spec.sub_bytes Spec.inv_sub_bytes Spec.add_round_key xor_bytes Spec.mix_columns Spec.inv_mix_columns
       mat_columns build map seq sget idx nth circ Nat.modulo Nat.div Nat.divmod fst snd Nat.add Nat.sub Nat.mul].

(* ---- model = spec, function by function *)
Lemma add_round_key_eq st rk : wf16 st -> wf16 rk -> Model.add_round_key st rk = Spec.add_round_key st rk.
Proof. intros H K. open16 st H. open16 rk K. reflexivity. Qed.

Lemma sub_bytes_eq st : wf16 st -> Model.sub_bytes spec_tables st = Spec.sub_bytes st.
Proof. intros H. open16 st H. model_cbv. spec_cbv. rewrite !tget_sbox by assumption. reflexivity. Qed.

Lemma inv_sub_bytes_eq st : wf16 st -> Model.inv_sub_bytes spec_tables st = Spec.inv_sub_bytes st.
Proof. intros H. open16 st H. model_cbv. spec_cbv. rewrite !tget_inv_sbox by assumption. reflexivity. Qed.

Lemma shift_rows_eq st : length st = 16%nat -> Model.shift_rows st = Spec.shift_rows st.
Proof.
  intro H. destruct (len16_inv st H) as (a0&a1&a2&a3&a4&a5&a6&a7&a8&a9&a10&a11&a12&a13&a14&a15&->). reflexivity.
Qed.
Lemma inv_shift_rows_eq st : length st = 16%nat -> Model.inv_shift_rows st = Spec.inv_shift_rows st.
Proof.
  intro H. destruct (len16_inv st H) as (a0&a1&a2&a3&a4&a5&a6&a7&a8&a9&a10&a11&a12&a13&a14&a15&->). reflexivity.
Qed.

Lemma mix_columns_eq st : wf16 st -> Model.mix_columns spec_tables st = Spec.mix_columns st.
Proof.
  intros H. open16 st H. model_cbv. spec_cbv.
  rewrite !tget_mul2, !tget_mul3 by assumption. rewrite !gmul_1_l by assumption.
  rewrite !N.lxor_assoc. reflexivity.
Qed.
Lemma inv_mix_columns_eq st : wf16 st -> Model.inv_mix_columns spec_tables st = Spec.inv_mix_columns st.
Proof.
  intros H. open16 st H. model_cbv. spec_cbv.
  rewrite !tget_mul9, !tget_mul11, !tget_mul13, !tget_mul14 by assumption.
  rewrite !N.lxor_assoc. reflexivity.
Qed.

(* ---- the spec transformations keep states well-formed *)
Lemma map_bytes_ok f l : (forall b, b < 256 -> f b < 256) -> bytes_ok l = true -> bytes_ok (map f l) = true.
Proof.
  intros Hf. induction l as [|a l IH]; intro H. reflexivity.
  apply bytes_ok_cons in H. cbn [map]. apply bytes_ok_cons. split. apply Hf; tauto. apply IH; tauto.
Qed.
Lemma sub_bytes_wf st : wf16 st -> wf16 (Spec.sub_bytes st).
Proof. intros [L B]. split. unfold Spec.sub_bytes. now rewrite map_length. apply map_bytes_ok. apply sbox_byte. exact B. Qed.
Lemma inv_sub_bytes_wf st : wf16 st -> wf16 (Spec.inv_sub_bytes st).
Proof. intros [L B]. split. unfold Spec.inv_sub_bytes. now rewrite map_length. apply map_bytes_ok. apply inv_sbox_byte. exact B. Qed.
Lemma add_round_key_wf st rk : wf16 st -> wf16 rk -> wf16 (Spec.add_round_key st rk).
Proof.
  intros [L B] [L' B']. split. unfold Spec.add_round_key. rewrite xor_bytes_length; congruence.
  apply xor_bytes_ok; assumption.
Qed.
Ltac close_wf :=
  split; [reflexivity|];
  repeat (apply bytes_ok_cons; split); try reflexivity; try assumption.
Lemma shift_rows_wf st : wf16 st -> wf16 (Spec.shift_rows st).
Proof. intros H. open16 st H. spec_cbv. cbv [Spec.shift_rows build map seq sget idx nth Nat.modulo Nat.div Nat.divmod fst snd Nat.add Nat.sub Nat.mul]. close_wf. Qed.
Lemma inv_shift_rows_wf st : wf16 st -> wf16 (Spec.inv_shift_rows st).
Proof. intros H. open16 st H. cbv [Spec.inv_shift_rows build map seq sget idx nth Nat.modulo Nat.div Nat.divmod fst snd Nat.add Nat.sub Nat.mul]. close_wf. Qed.

Ltac coef_in := cbv [coefs In]; tauto.
Lemma mat_columns_wf row0 st : incl row0 coefs -> length row0 = 4%nat -> wf16 st -> wf16 (mat_columns row0 st).
Proof.
  intros Hi Hr H. destruct (len4_inv row0 Hr) as (c0&c1&c2&c3&->).
  assert (C0 : In c0 coefs) by (apply Hi; cbn; tauto). assert (C1 : In c1 coefs) by (apply Hi; cbn; tauto).
  assert (C2 : In c2 coefs) by (apply Hi; cbn; tauto). assert (C3 : In c3 coefs) by (apply Hi; cbn; tauto).
  open16 st H. spec_cbv. split; [reflexivity|].
  repeat (apply bytes_ok_cons; split); try reflexivity;
    repeat apply lxor_byte; apply gmul_coef_byte; assumption.
Qed.
Lemma mix_columns_wf st : wf16 st -> wf16 (Spec.mix_columns st).
Proof. apply mat_columns_wf. intros x Hx. cbv [In] in Hx. coef_in. reflexivity. Qed.
Lemma inv_mix_columns_wf st : wf16 st -> wf16 (Spec.inv_mix_columns st).
Proof. apply mat_columns_wf. intros x Hx. cbv [In] in Hx. coef_in. reflexivity. Qed.

(* ---- inverses *)
Lemma inv_sub_bytes_sub_bytes st : bytes_ok st = true -> Spec.inv_sub_bytes (Spec.sub_bytes st) = st.
Proof.
  induction st as [|a l IH]; intro H. reflexivity. apply bytes_ok_cons in H.
  unfold Spec.inv_sub_bytes, Spec.sub_bytes in *. cbn [map]. rewrite inv_sbox_sbox by tauto. f_equal. apply IH. tauto.
Qed.
Lemma sub_bytes_inv_sub_bytes st : bytes_ok st = true -> Spec.sub_bytes (Spec.inv_sub_bytes st) = st.
Proof.
  induction st as [|a l IH]; intro H. reflexivity. apply bytes_ok_cons in H.
  unfold Spec.inv_sub_bytes, Spec.sub_bytes in *. cbn [map]. rewrite sbox_inv_sbox by tauto. f_equal. apply IH. tauto.
Qed.
Lemma inv_shift_rows_shift_rows st : length st = 16%nat -> Spec.inv_shift_rows (Spec.shift_rows st) = st.
Proof.
  intro H. destruct (len16_inv st H) as (a0&a1&a2&a3&a4&a5&a6&a7&a8&a9&a10&a11&a12&a13&a14&a15&->). reflexivity.
Qed.
Lemma shift_rows_inv_shift_rows st : length st = 16%nat -> Spec.shift_rows (Spec.inv_shift_rows st) = st.
Proof.
  intro H. destruct (len16_inv st H) as (a0&a1&a2&a3&a4&a5&a6&a7&a8&a9&a10&a11&a12&a13&a14&a15&->). reflexivity.
Qed.

(* the matrix identity  M' . M = I  over GF(2^8), lifted to every column by XOR-linearity of the product:
   sum_k c_k . (sum_j d_kj . a_j)  =  sum_j (sum_k c_k . d_kj . a_j)  =  r0 + r1 + r2 + r3 *)
Lemma regroup16 t00 t01 t02 t03 t10 t11 t12 t13 t20 t21 t22 t23 t30 t31 t32 t33 r0 r1 r2 r3 :
  N.lxor t00 (N.lxor t10 (N.lxor t20 t30)) = r0 -> N.lxor t01 (N.lxor t11 (N.lxor t21 t31)) = r1 ->
  N.lxor t02 (N.lxor t12 (N.lxor t22 t32)) = r2 -> N.lxor t03 (N.lxor t13 (N.lxor t23 t33)) = r3 ->
  N.lxor (N.lxor t00 (N.lxor t01 (N.lxor t02 t03))) (N.lxor (N.lxor t10 (N.lxor t11 (N.lxor t12 t13)))
    (N.lxor (N.lxor t20 (N.lxor t21 (N.lxor t22 t23))) (N.lxor t30 (N.lxor t31 (N.lxor t32 t33)))))
  = N.lxor r0 (N.lxor r1 (N.lxor r2 r3)).
Proof. intros <- <- <- <-. xor_solve. Qed.

