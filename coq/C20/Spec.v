(* C20 — AesSpec: AES written from FIPS-197 (and ECB/CBC from SP 800-38A), independently of the
   implementation: no tables, GF(2^8) by polynomial arithmetic, S-box as affine map of the
   multiplicative inverse, ShiftRows/MixColumns in matrix form, KeyExpansion of FIPS-197 Fig. 11,
   Cipher Fig. 5, InvCipher Fig. 12.  Bytes are N, byte strings are lists, the state is the
   16-byte list in input order (FIPS-197 3.4: s[r,c] = in[r + 4c]).
   Validated against the published vectors in C20/Vectors.v.  Definitions only. *)
From Coq Require Import Arith NArith List Bool.
Import ListNotations.
Open Scope N_scope.

Definition bytes := list N.

Definition byteb (b : N) : bool := b <? 256.
Definition bytes_ok (l : bytes) : bool := forallb byteb l.

(* ---- GF(2^8), FIPS-197 section 4 *)
(* polynomial product over GF(2) (4.2): XOR of the shifted copies of b selected by the bits of a *)
Definition bit_term (a b i : N) : N := if N.testbit a i then N.shiftl b i else 0.
Definition clmul (a b : N) : N :=
  fold_right (fun i acc => N.lxor (bit_term a b i) acc) 0 [0;1;2;3;4;5;6;7].
(* reduction modulo m(x) = x^8 + x^4 + x^3 + x + 1 = 0x11B of a polynomial of degree <= 14 *)
Definition red_step (x i : N) : N := if N.testbit x i then N.lxor x (N.shiftl 283 (i - 8)) else x.
Definition pmod (x : N) : N := fold_left red_step [14;13;12;11;10;9;8] x.
Definition gmul (a b : N) : N := pmod (clmul a b).

(* multiplicative inverse (0 -> 0): a^254, as a square-and-multiply chain (254 = 2+4+...+128);
   that it IS the inverse is theorem ginv_is_inverse *)
Definition gsq (a : N) : N := gmul a a.
Definition ginv (a : N) : N :=
  let a2 := gsq a in let a4 := gsq a2 in let a8 := gsq a4 in let a16 := gsq a8 in
  let a32 := gsq a16 in let a64 := gsq a32 in let a128 := gsq a64 in
  gmul a128 (gmul a64 (gmul a32 (gmul a16 (gmul a8 (gmul a4 a2))))).

Fixpoint gpow (a : N) (n : nat) : N := match n with O => 1 | S n' => gmul a (gpow a n') end.

(* ---- S-box, FIPS-197 5.1.1 (eq. 5.1) and 5.3.2 *)
Definition bitm (b i : N) : bool := N.testbit b (i mod 8).
Definition of_bits (f : N -> bool) : N :=
  fold_right (fun i acc => N.lxor (if f i then N.shiftl 1 i else 0) acc) 0 [0;1;2;3;4;5;6;7].
Definition affine (b : N) : N :=
  of_bits (fun i => xorb (bitm b i) (xorb (bitm b (i + 4)) (xorb (bitm b (i + 5))
                    (xorb (bitm b (i + 6)) (xorb (bitm b (i + 7)) (N.testbit 99 i)))))).
Definition inv_affine (b : N) : N :=
  of_bits (fun i => xorb (bitm b (i + 2)) (xorb (bitm b (i + 5)) (xorb (bitm b (i + 7)) (N.testbit 5 i)))).
Definition sbox (b : N) : N := affine (ginv b).
Definition inv_sbox (b : N) : N := ginv (inv_affine b).

(* ---- state transformations, FIPS-197 5.1 / 5.3 *)
Definition idx (r c : nat) : nat := (r + 4 * c)%nat.
Definition sget (st : bytes) (r c : nat) : N := nth (idx r c) st 0.
Definition build (f : nat -> nat -> N) : bytes :=
  map (fun i : nat => f (Nat.modulo i 4) (Nat.div i 4)) (seq 0 16).

Definition sub_bytes (st : bytes) : bytes := map sbox st.
Definition inv_sub_bytes (st : bytes) : bytes := map inv_sbox st.
(* s'[r,c] = s[r,(c + r) mod 4] ;  inverse: s'[r,(c + r) mod 4] = s[r,c] *)
Definition shift_rows (st : bytes) : bytes := build (fun r c : nat => sget st r (Nat.modulo (Nat.add c r) 4)).
Definition inv_shift_rows (st : bytes) : bytes := build (fun r c : nat => sget st r (Nat.modulo (Nat.sub (Nat.add c 4) r) 4)).
(* s'[r,c] = XOR_k M[r,k] . s[k,c] with the circulant matrices of 5.1.3 / 5.3.3 *)
Definition circ (row0 : list N) (r k : nat) : N := nth (Nat.modulo (Nat.sub (Nat.add k 4) r) 4) row0 0.
Definition mat_columns (row0 : list N) (st : bytes) : bytes :=
  build (fun r c : nat => N.lxor (gmul (circ row0 r 0) (sget st 0 c)) (N.lxor (gmul (circ row0 r 1) (sget st 1 c))
                   (N.lxor (gmul (circ row0 r 2) (sget st 2 c)) (gmul (circ row0 r 3) (sget st 3 c))))).
Definition mix_columns : bytes -> bytes := mat_columns [2;3;1;1].
Definition inv_mix_columns : bytes -> bytes := mat_columns [14;11;13;9].

Fixpoint xor_bytes (a b : bytes) : bytes :=
  match a, b with x :: a', y :: b' => N.lxor x y :: xor_bytes a' b' | _, _ => [] end.
Definition add_round_key (st rk : bytes) : bytes := xor_bytes st rk.

(* ---- KeyExpansion, FIPS-197 5.2 / Fig. 11; words are 4-byte lists *)
Definition word := list N.
Definition rot_word (w : word) : word := match w with a :: r => r ++ [a] | [] => [] end.
Definition sub_word (w : word) : word := map sbox w.
Definition rcon (j : nat) : word := [gpow 2 (j - 1); 0; 0; 0].

Fixpoint words_of (nk : nat) (key : bytes) : list word :=
  match nk with O => [] | S n => firstn 4 key :: words_of n (skipn 4 key) end.

Definition next_word (nk i : nat) (w : list word) : word :=
  let temp := nth (i - 1) w [] in
  let temp := if (i mod nk =? 0)%nat then xor_bytes (sub_word (rot_word temp)) (rcon (i / nk))
              else if ((6 <? nk) && (i mod nk =? 4))%nat then sub_word temp else temp in
  xor_bytes (nth (i - nk) w []) temp.

(* `n` further words starting at index i *)
Fixpoint expansion_loop (nk n i : nat) (w : list word) : list word :=
  match n with O => w | S n' => expansion_loop nk n' (S i) (w ++ [next_word nk i w]) end.

Definition key_expansion (key : bytes) : list word :=
  let nk := (length key / 4)%nat in
  let nr := (nk + 6)%nat in
  expansion_loop nk (4 * (nr + 1) - nk) nk (words_of nk key).

Definition round_key (w : list word) (r : nat) : bytes := concat (firstn 4 (skipn (4 * r) w)).

Definition key_len_ok (key : bytes) : bool :=
  let n := length key in ((n =? 16) || (n =? 24) || (n =? 32))%nat.

(* ---- Cipher (Fig. 5) and InvCipher (Fig. 12) *)
Definition enc_round (w : list word) (st : bytes) (r : nat) : bytes :=
  add_round_key (mix_columns (shift_rows (sub_bytes st))) (round_key w r).
Definition dec_round (w : list word) (st : bytes) (r : nat) : bytes :=
  inv_mix_columns (add_round_key (inv_sub_bytes (inv_shift_rows st)) (round_key w r)).

Definition cipher_w (nr : nat) (w : list word) (block : bytes) : bytes :=
  let st := add_round_key block (round_key w 0) in
  let st := fold_left (enc_round w) (seq 1 (nr - 1)) st in
  add_round_key (shift_rows (sub_bytes st)) (round_key w nr).
Definition inv_cipher_w (nr : nat) (w : list word) (block : bytes) : bytes :=
  let st := add_round_key block (round_key w nr) in
  let st := fold_left (dec_round w) (rev (seq 1 (nr - 1))) st in
  add_round_key (inv_sub_bytes (inv_shift_rows st)) (round_key w 0).

Definition rounds (key : bytes) : nat := (length key / 4 + 6)%nat.
Definition cipher (key block : bytes) : bytes := cipher_w (rounds key) (key_expansion key) block.
Definition inv_cipher (key block : bytes) : bytes := inv_cipher_w (rounds key) (key_expansion key) block.

(* ---- modes, SP 800-38A 6.1 / 6.2, on lists of blocks *)
Definition ecb_enc_blocks (key : bytes) (bl : list bytes) : bytes := flat_map (cipher key) bl.
Definition ecb_dec_blocks (key : bytes) (bl : list bytes) : bytes := flat_map (inv_cipher key) bl.
Fixpoint cbc_enc_blocks (key prev : bytes) (bl : list bytes) : bytes :=
  match bl with
  | [] => []
  | b :: r => let c := cipher key (xor_bytes b prev) in c ++ cbc_enc_blocks key c r
  end.
Fixpoint cbc_dec_blocks (key prev : bytes) (bl : list bytes) : bytes :=
  match bl with
  | [] => []
  | b :: r => xor_bytes (inv_cipher key b) prev ++ cbc_dec_blocks key b r
  end.

(* splitting a byte string into 16-byte blocks; the fuel (= length) is never exhausted:
   theorem chunks_concat *)
Fixpoint chunks_f (fuel : nat) (l : bytes) : list bytes :=
  match fuel with
  | O => []
  | S f => match l with [] => [] | _ => firstn 16 l :: chunks_f f (skipn 16 l) end
  end.
Definition chunks (l : bytes) : list bytes := chunks_f (length l) l.

Definition ecb_encrypt (key data : bytes) : bytes := ecb_enc_blocks key (chunks data).
Definition ecb_decrypt (key data : bytes) : bytes := ecb_dec_blocks key (chunks data).
Definition cbc_encrypt (key iv data : bytes) : bytes := cbc_enc_blocks key iv (chunks data).
Definition cbc_decrypt (key iv data : bytes) : bytes := cbc_dec_blocks key iv (chunks data).
