(* C20 — _expand_key (model) = FIPS-197 KeyExpansion (spec) for Nk in {4,6,8}; every round key is a
   well-formed 16-byte string. *)
From Coq Require Import Arith NArith List Bool Lia.
From S2T Require Import C20.Spec C20.Model C20.Tables C20.Finite C20.Rounds.
Import ListNotations.
Open Scope N_scope.

Definition word_ok (w : list N) : Prop := length w = 4%nat /\ bytes_ok w = true.

Lemma gpow2_byte n : gpow 2 n < 256.
Proof. induction n; cbn [gpow]. reflexivity. apply gmul_coef_byte. cbv [coefs In]. tauto. exact IHn. Qed.

Lemma sub_word_eq w : bytes_ok w = true -> Model.sub_word spec_tables w = Spec.sub_word w.
Proof.
  unfold Model.sub_word, Spec.sub_word. induction w as [|a w IH]; intro H. reflexivity.
  apply bytes_ok_cons in H. cbn [map]. rewrite tget_sbox by tauto. f_equal. apply IH. tauto.
Qed.

Lemma rcon_nth j : (1 <= j <= 14)%nat -> nth j (RCON spec_tables) 0 = gpow 2 (j - 1).
Proof.
  intros H. destruct j as [|k]; [lia|]. cbn [RCON spec_tables spec_rcon_table nth].
  set (f := fun j : nat => gpow 2 (j - 1)).
  rewrite nth_indep with (d' := f 0%nat) by (rewrite map_length, seq_length; lia).
  rewrite map_nth. rewrite seq_nth by lia. reflexivity.
Qed.

Lemma word_open w : word_ok w -> exists a b c d, w = [a;b;c;d] /\ a < 256 /\ b < 256 /\ c < 256 /\ d < 256.
Proof.
  intros [L B]. destruct (len4_inv w L) as (a&b&c&d&->). exists a, b, c, d.
  repeat (apply bytes_ok_cons in B; destruct B as [? B]). tauto.
Qed.
Lemma word_close a b c d : a < 256 -> b < 256 -> c < 256 -> d < 256 -> word_ok [a;b;c;d].
Proof. intros. split. reflexivity. repeat (apply bytes_ok_cons; split; [assumption|]). reflexivity. Qed.

Lemma nth_word_ok (w : list (list N)) i : Forall word_ok w -> (i < length w)%nat -> word_ok (nth i w []).
Proof. intros F H. rewrite Forall_forall in F. apply F. apply nth_In. exact H. Qed.

Lemma xor_word_ok u v : word_ok u -> word_ok v -> word_ok (xor_bytes u v).
Proof.
  intros [L B] [L' B']. split. rewrite xor_bytes_length; congruence. apply xor_bytes_ok; assumption.
Qed.

(* one step of the loop: the model's statement sequence computes FIPS-197's w[i] *)
Lemma expand_step_eq nk (w : list (list N)) i :
  Forall word_ok w -> length w = i -> (4 <= nk <= i)%nat -> (i < 60)%nat ->
  expand_step spec_tables nk (RCON spec_tables) w i = w ++ [next_word nk i w] /\ word_ok (next_word nk i w).
Proof.
  intros F L Hnk Hi. unfold expand_step, next_word. unfold word in *.
  assert (T1 : word_ok (nth (i - 1) w [])) by (apply nth_word_ok; [assumption | lia]).
  assert (T2 : word_ok (nth (i - nk) w [])) by (apply nth_word_ok; [assumption | lia]).
  destruct (word_open _ T1) as (a&b&c&d&E&Ba&Bb&Bc&Bd). rewrite E.
  assert (J : (1 <= i / nk <= 14)%nat).
  { split. apply Nat.div_le_lower_bound; lia.
    assert (i / nk < 15)%nat; [|lia]. apply Nat.div_lt_upper_bound; lia. }
  destruct (i mod nk =? 0)%nat.
  - rewrite sub_word_eq.
    2:{ cbv [Model.rot_word skipn firstn app]. repeat (apply bytes_ok_cons; split; [assumption|]). reflexivity. }
    cbv [Model.rot_word Spec.rot_word skipn firstn app Spec.sub_word map set_nth nth rcon xor_bytes].
    rewrite rcon_nth by exact J. rewrite !N.lxor_0_r. split. reflexivity.
    apply xor_word_ok. exact T2.
    apply word_close; try (apply sbox_byte; assumption). apply lxor_byte. apply sbox_byte; assumption. apply gpow2_byte.
  - destruct ((6 <? nk) && (i mod nk =? 4))%nat.
    + rewrite sub_word_eq by (repeat (apply bytes_ok_cons; split; [assumption|]); reflexivity).
      split. reflexivity. apply xor_word_ok. exact T2.
      cbv [Spec.sub_word map]. apply word_close; apply sbox_byte; assumption.
    + split. reflexivity. apply xor_word_ok. exact T2. rewrite <- E. exact T1.
Qed.

Lemma expand_loop_eq nk n : forall i (w : list (list N)),
  Forall word_ok w -> length w = i -> (4 <= nk <= i)%nat -> (i + n <= 60)%nat ->
  fold_left (expand_step spec_tables nk (RCON spec_tables)) (seq i n) w = expansion_loop nk n i w
  /\ Forall word_ok (expansion_loop nk n i w) /\ length (expansion_loop nk n i w) = (i + n)%nat.
Proof.
  unfold word in *. induction n as [|n IH]; intros i w F L Hnk Hb.
  - cbn [seq fold_left expansion_loop]. split; [reflexivity|split; [assumption | lia]].
  - cbn [seq fold_left expansion_loop].
    destruct (expand_step_eq nk w i F L Hnk ltac:(lia)) as [E W]. rewrite E.
    destruct (IH (S i) (w ++ [next_word nk i w])) as (E1 & F1 & L1).
    + apply Forall_app. split. assumption. constructor. assumption. constructor.
    + rewrite app_length. cbn [length]. lia.
    + lia.
    + lia.
    + split; [assumption | split; [assumption | unfold word in *; rewrite L1; lia]].
Qed.

Lemma bytes_ok_firstn n l : bytes_ok l = true -> bytes_ok (firstn n l) = true.
Proof.
  revert l. induction n as [|n IH]; intros [|a l] H; try reflexivity.
  apply bytes_ok_cons in H. cbn [firstn]. apply bytes_ok_cons. split. tauto. apply IH. tauto.
Qed.
Lemma bytes_ok_skipn n l : bytes_ok l = true -> bytes_ok (skipn n l) = true.
Proof.
  revert l. induction n as [|n IH]; intros [|a l] H; try reflexivity; try exact H.
  apply bytes_ok_cons in H. cbn [skipn]. apply IH. tauto.
Qed.

Lemma skipn_add {A} m : forall n (l : list A), skipn n (skipn m l) = skipn (m + n) l.
Proof.
  induction m as [|m IH]; intros n l. reflexivity.
  destruct l as [|a l]. cbn [skipn Nat.add]. now rewrite !skipn_nil. cbn [skipn Nat.add]. apply IH.
Qed.

(* the initial words key[4i:4i+4] *)
Lemma words_of_ok nk : forall key, length key = (4 * nk)%nat -> bytes_ok key = true ->
  map (fun i : nat => firstn 4 (skipn (4 * i) key)) (seq 0 nk) = words_of nk key
  /\ Forall word_ok (words_of nk key) /\ length (words_of nk key) = nk.
Proof.
  induction nk as [|nk IH]; intros key L B.
  - cbn. repeat split. constructor.
  - cbn [words_of seq map]. destruct (IH (skipn 4 key)) as (E & F & L').
    + rewrite skipn_length. lia.
    + apply bytes_ok_skipn. exact B.
    + repeat split.
      * f_equal. rewrite <- E. rewrite <- seq_shift, map_map. apply map_ext. intro i.
        rewrite skipn_add. do 2 f_equal. lia.
      * constructor; [|exact F]. split. rewrite firstn_length. lia. apply bytes_ok_firstn. exact B.
      * cbn [length]. lia.
Qed.

Lemma key_len_cases key : key_len_ok key = true ->
  length key = 16%nat \/ length key = 24%nat \/ length key = 32%nat.
Proof.
  unfold key_len_ok. rewrite !orb_true_iff, !Nat.eqb_eq. tauto.
Qed.

Lemma expand_words_eq key : key_len_ok key = true -> bytes_ok key = true ->
  expand_words spec_tables key = key_expansion key
  /\ Forall word_ok (key_expansion key) /\ length (key_expansion key) = (4 * (rounds key + 1))%nat.
Proof.
  intros K B. unfold expand_words, key_expansion, rounds.
  assert (R : (length key / 4 + 6 <? length (RCON spec_tables))%nat = true).
  { apply Nat.ltb_lt. change (length (RCON spec_tables)) with 15%nat.
    destruct (key_len_cases key K) as [E|[E|E]]; rewrite E; cbv; lia. }
  rewrite R.
  assert (NK : exists nk, (length key / 4)%nat = nk /\ length key = (4 * nk)%nat /\ (nk = 4 \/ nk = 6 \/ nk = 8)%nat).
  { destruct (key_len_cases key K) as [E|[E|E]]; rewrite E; [exists 4%nat | exists 6%nat | exists 8%nat]; cbv; tauto. }
  destruct NK as (nk & -> & L & C).
  destruct (words_of_ok nk key L B) as (E & F & L'). rewrite E.
  destruct (expand_loop_eq nk (4 * (nk + 6 + 1) - nk) nk (words_of nk key) F L' ltac:(lia) ltac:(lia)) as (E1 & F1 & L1).
  repeat split; [exact E1 | exact F1 | rewrite L1; lia].
Qed.

(* round keys *)
Lemma Forall_firstn {A} (P : A -> Prop) n l : Forall P l -> Forall P (firstn n l).
Proof.
  revert l. induction n as [|n IH]; intros [|a l] H; try constructor; inversion H; subst; auto.
Qed.
Lemma Forall_skipn {A} (P : A -> Prop) n l : Forall P l -> Forall P (skipn n l).
Proof.
  revert l. induction n as [|n IH]; intros [|a l] H; try assumption. inversion H; subst. cbn [skipn]. auto.
Qed.

Lemma round_key_wf (w : list (list N)) r : Forall word_ok w -> (4 * r + 4 <= length w)%nat -> wf16 (round_key w r).
Proof.
  intros F L. unfold round_key. unfold word in *.
  assert (F4 : Forall word_ok (firstn 4 (skipn (4 * r) w))) by (apply Forall_firstn, Forall_skipn, F).
  assert (L4 : length (firstn 4 (skipn (4 * r) w)) = 4%nat) by (rewrite firstn_length, skipn_length; lia).
  destruct (firstn 4 (skipn (4 * r) w)) as [|w0 [|w1 [|w2 [|w3 [|? ?]]]]]; try discriminate L4.
  inversion F4 as [|? ? W0 F3]; subst. inversion F3 as [|? ? W1 F2]; subst.
  inversion F2 as [|? ? W2 F1]; subst. inversion F1 as [|? ? W3 _]; subst.
  destruct (word_open _ W0) as (?&?&?&?&->&?&?&?&?). destruct (word_open _ W1) as (?&?&?&?&->&?&?&?&?).
  destruct (word_open _ W2) as (?&?&?&?&->&?&?&?&?). destruct (word_open _ W3) as (?&?&?&?&->&?&?&?&?).
  cbv [concat app]. split. reflexivity.
  repeat (apply bytes_ok_cons; split; [assumption|]). reflexivity.
Qed.

Definition round_keys_spec (key : bytes) : list bytes :=
  map (round_key (key_expansion key)) (seq 0 (rounds key + 1)).

Theorem expand_key_eq key : key_len_ok key = true -> bytes_ok key = true ->
  expand_key spec_tables key = Ok (round_keys_spec key).
Proof.
  intros K B. unfold expand_key. fold (key_len_ok key). rewrite K. cbn [negb].
  destruct (expand_words_eq key K B) as (E & _ & _). rewrite E. reflexivity.
Qed.

Lemma expand_key_bad_len key : key_len_ok key = false -> expand_key spec_tables key = Raise ValueError.
Proof. intro K. unfold expand_key. fold (key_len_ok key). rewrite K. reflexivity. Qed.

Lemma round_keys_nth key r : (r <= rounds key)%nat -> nth r (round_keys_spec key) [] = round_key (key_expansion key) r.
Proof.
  intro H. unfold round_keys_spec.
  rewrite nth_indep with (d' := round_key (key_expansion key) 0) by (rewrite map_length, seq_length; lia).
  rewrite map_nth, seq_nth by lia. reflexivity.
Qed.
Lemma round_keys_length key : length (round_keys_spec key) = (rounds key + 1)%nat.
Proof. unfold round_keys_spec. now rewrite map_length, seq_length. Qed.

Lemma round_key_spec_wf key r : key_len_ok key = true -> bytes_ok key = true -> (r <= rounds key)%nat ->
  wf16 (round_key (key_expansion key) r).
Proof.
  intros K B H. destruct (expand_words_eq key K B) as (_ & F & L). apply round_key_wf. exact F. unfold word in *. rewrite L. lia.
Qed.
