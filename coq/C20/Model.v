(* C20 — executable model of sharepoint2text/parsing/extractors/pdf/_pypdf_aes_fallback.py as it is:
   table-driven AES over the module's tables (a `tables` record; the live values are dumped into
   Gen/C20Tables.v on every check run), in-place round functions as list transformers that follow the
   Python loops statement by statement, _expand_key, block encrypt/decrypt, the ECB/CBC drivers,
   PKCS#7 helpers, the three CryptAES methods (IV as a parameter instead of secrets.token_bytes) and
   _get_round_keys with the 4-entry ordered cache (the cache is threaded through explicitly).
   Python `bytes`/`list[int]` are `list N`; the only exception the module raises itself is ValueError.
   Table look-ups `T[b]` are `nth b T 0`: a byte >= 256 cannot occur in a Python `bytes`, every theorem
   carries `bytes_ok`.  From C20/Spec.v only the neutral list utilities `bytes`, `xor_bytes`
   (= bytes(a ^ b for a, b in zip(..))) and `chunks` (= _chunks(data, 16)) are shared.
   Definitions only. *)
From Coq Require Import Arith NArith List Bool.
From S2T Require Import C20.Spec.
Import ListNotations.
Open Scope N_scope.

Inductive exn := ValueError.
Inductive result (A : Type) := Ok (a : A) | Raise (e : exn).
Arguments Ok {A} a.
Arguments Raise {A} e.

Record tables := {
  SBOX : list N; INV_SBOX : list N;
  MUL2 : list N; MUL3 : list N; MUL9 : list N; MUL11 : list N; MUL13 : list N; MUL14 : list N;
  RCON : list N
}.

Definition tget (t : list N) (b : N) : N := nth (N.to_nat b) t 0.
Definition bnz (x : N) : bool := negb (x =? 0).      (* Python truthiness of an int *)

(* ---- _xtime, _gf_mul, _build_mul_table, _build_rcon *)
Definition xtime (a : N) : N :=
  let a := N.land a 255 in
  if bnz (N.land a 128) then N.land (N.lxor (N.shiftl a 1) 27) 255 else N.land (N.shiftl a 1) 255.

Inductive loop_result := Done (r : N) | OutOfFuel.
(* while b: ...  — b < 256 after masking, so 8 iterations suffice (theorem gf_mul_ok: never OutOfFuel) *)
Fixpoint gf_mul_loop (fuel : nat) (res a b : N) : loop_result :=
  if bnz b then
    match fuel with
    | O => OutOfFuel
    | S f => gf_mul_loop f (if bnz (N.land b 1) then N.lxor res a else res) (xtime a) (N.shiftr b 1)
    end
  else Done (N.land res 255).
Definition gf_mul (a b : N) : loop_result := gf_mul_loop 8 0 (N.land a 255) (N.land b 255).

Definition bytes256 : list N := map N.of_nat (seq 0 256).
Fixpoint collect (l : list loop_result) : option (list N) :=
  match l with
  | [] => Some []
  | Done r :: t => match collect t with Some t' => Some (r :: t') | None => None end
  | OutOfFuel :: _ => None
  end.
Definition build_mul_table (multiplier : N) : option (list N) :=
  collect (map (fun value => gf_mul value multiplier) bytes256).

Fixpoint rcon_tail (n : nat) (prev : N) : list N :=
  match n with O => [] | S n' => prev :: rcon_tail n' (xtime prev) end.
Definition build_rcon (max_rounds : nat) : list N := 0 :: rcon_tail max_rounds 1.

(* ---- in-place round functions *)
Fixpoint set_nth (i : nat) (v : N) (l : list N) : list N :=
  match l, i with
  | [], _ => []
  | _ :: r, O => v :: r
  | x :: r, S i' => x :: set_nth i' v r
  end.
Definition for_range (n : nat) (body : list N -> nat -> list N) (st : list N) : list N :=
  fold_left body (seq 0 n) st.

Definition add_round_key (st rk : bytes) : bytes :=
  for_range 16 (fun st i => set_nth i (N.lxor (nth i st 0) (nth i rk 0)) st) st.
Definition sub_bytes (T : tables) (st : bytes) : bytes :=
  for_range 16 (fun st i => set_nth i (tget (SBOX T) (nth i st 0)) st) st.
Definition inv_sub_bytes (T : tables) (st : bytes) : bytes :=
  for_range 16 (fun st i => set_nth i (tget (INV_SBOX T) (nth i st 0)) st) st.

Definition shift_row (k : nat -> nat) (st : bytes) (row : nat) : bytes :=
  let row_bytes := map (fun col : nat => nth (row + 4 * col) st 0) (seq 0 4) in
  let row_bytes := skipn (k row) row_bytes ++ firstn (k row) row_bytes in
  fold_left (fun st col => set_nth (row + 4 * col) (nth col row_bytes 0) st) (seq 0 4) st.
(* row_bytes[row:] + row_bytes[:row]   /   row_bytes[-row:] + row_bytes[:-row] *)
Definition shift_rows (st : bytes) : bytes := fold_left (shift_row (fun row => row)) (seq 1 3) st.
Definition inv_shift_rows (st : bytes) : bytes := fold_left (shift_row (fun row => 4 - row)%nat) (seq 1 3) st.

Definition x3 (a b c : N) : N := N.lxor (N.lxor a b) c.          (* a ^ b ^ c, left-associated as in Python *)
Definition x4 (a b c d : N) : N := N.lxor (N.lxor (N.lxor a b) c) d.

Definition mix_columns (T : tables) (st : bytes) : bytes :=
  for_range 4 (fun st col =>
    let i := (4 * col)%nat in
    let a0 := nth i st 0 in let a1 := nth (i + 1) st 0 in let a2 := nth (i + 2) st 0 in let a3 := nth (i + 3) st 0 in
    let st := set_nth (i + 0) (x4 (tget (MUL2 T) a0) (tget (MUL3 T) a1) a2 a3) st in
    let st := set_nth (i + 1) (x4 a0 (tget (MUL2 T) a1) (tget (MUL3 T) a2) a3) st in
    let st := set_nth (i + 2) (x4 a0 a1 (tget (MUL2 T) a2) (tget (MUL3 T) a3)) st in
    set_nth (i + 3) (x4 (tget (MUL3 T) a0) a1 a2 (tget (MUL2 T) a3)) st) st.

Definition inv_mix_columns (T : tables) (st : bytes) : bytes :=
  for_range 4 (fun st col =>
    let i := (4 * col)%nat in
    let a0 := nth i st 0 in let a1 := nth (i + 1) st 0 in let a2 := nth (i + 2) st 0 in let a3 := nth (i + 3) st 0 in
    let st := set_nth (i + 0) (x4 (tget (MUL14 T) a0) (tget (MUL11 T) a1) (tget (MUL13 T) a2) (tget (MUL9 T) a3)) st in
    let st := set_nth (i + 1) (x4 (tget (MUL9 T) a0) (tget (MUL14 T) a1) (tget (MUL11 T) a2) (tget (MUL13 T) a3)) st in
    let st := set_nth (i + 2) (x4 (tget (MUL13 T) a0) (tget (MUL9 T) a1) (tget (MUL14 T) a2) (tget (MUL11 T) a3)) st in
    set_nth (i + 3) (x4 (tget (MUL11 T) a0) (tget (MUL13 T) a1) (tget (MUL9 T) a2) (tget (MUL14 T) a3)) st) st.

(* ---- _expand_key *)
Definition rot_word (w : list N) : list N := skipn 1 w ++ firstn 1 w.
Definition sub_word (T : tables) (w : list N) : list N := map (tget (SBOX T)) w.

Definition expand_step (T : tables) (nk : nat) (rcon : list N) (w : list (list N)) (i : nat) : list (list N) :=
  let temp := nth (i - 1) w [] in
  let temp :=
    if (i mod nk =? 0)%nat then
      let t := sub_word T (rot_word temp) in set_nth 0 (N.lxor (nth 0 t 0) (nth (i / nk) rcon 0)) t
    else if ((6 <? nk) && (i mod nk =? 4))%nat then sub_word T temp
    else temp in
  w ++ [xor_bytes (nth (i - nk) w []) temp].

Definition expand_words (T : tables) (key : bytes) : list (list N) :=
  let nk := (length key / 4)%nat in
  let nr := (nk + 6)%nat in
  let w := map (fun i : nat => firstn 4 (skipn (4 * i) key)) (seq 0 nk) in
  let rcon := if (nr <? length (RCON T))%nat then RCON T else build_rcon nr in
  fold_left (expand_step T nk rcon) (seq nk (4 * (nr + 1) - nk)) w.

Definition expand_key (T : tables) (key : bytes) : result (list bytes) :=
  let n := length key in
  if negb ((n =? 16) || (n =? 24) || (n =? 32))%nat then Raise ValueError else
  let nr := (n / 4 + 6)%nat in
  let w := expand_words T key in
  Ok (map (fun r : nat => concat (firstn 4 (skipn (4 * r) w))) (seq 0 (nr + 1))).

(* ---- _get_round_keys: OrderedDict cache, oldest first *)
Fixpoint bytes_eqb (a b : bytes) : bool :=
  match a, b with
  | [], [] => true
  | x :: a', y :: b' => (x =? y) && bytes_eqb a' b'
  | _, _ => false
  end.
Definition cache := list (bytes * list bytes).
Fixpoint cache_find (key : bytes) (c : cache) : option (list bytes) :=
  match c with
  | [] => None
  | (k, v) :: r => if bytes_eqb k key then Some v else cache_find key r
  end.
Fixpoint cache_remove (key : bytes) (c : cache) : cache :=
  match c with
  | [] => []
  | (k, v) :: r => if bytes_eqb k key then r else (k, v) :: cache_remove key r
  end.
Definition CACHE_MAX : nat := 4.
Definition get_round_keys (T : tables) (c : cache) (key : bytes) : result (list bytes) * cache :=
  match cache_find key c with
  | Some v => (Ok v, cache_remove key c ++ [(key, v)])
  | None =>
      match expand_key T key with
      | Raise e => (Raise e, c)
      | Ok rks => let c' := c ++ [(key, rks)] in
                  (Ok rks, if (CACHE_MAX <? length c')%nat then tl c' else c')
      end
  end.

(* ---- block functions *)
Definition enc_round (T : tables) (rks : list bytes) (st : bytes) (r : nat) : bytes :=
  add_round_key (mix_columns T (shift_rows (sub_bytes T st))) (nth r rks []).
Definition dec_round (T : tables) (rks : list bytes) (st : bytes) (r : nat) : bytes :=
  inv_mix_columns T (add_round_key (inv_sub_bytes T (inv_shift_rows st)) (nth r rks [])).

Definition encrypt_block (T : tables) (block : bytes) (rks : list bytes) : result bytes :=
  if negb (length block =? 16)%nat then Raise ValueError else
  let nr := (length rks - 1)%nat in
  let st := add_round_key block (nth 0 rks []) in
  let st := fold_left (enc_round T rks) (seq 1 (nr - 1)) st in
  Ok (add_round_key (shift_rows (sub_bytes T st)) (nth nr rks [])).

Definition decrypt_block (T : tables) (block : bytes) (rks : list bytes) : result bytes :=
  if negb (length block =? 16)%nat then Raise ValueError else
  let nr := (length rks - 1)%nat in
  let st := add_round_key block (nth nr rks []) in
  let st := fold_left (dec_round T rks) (rev (seq 1 (nr - 1))) st in
  Ok (add_round_key (inv_sub_bytes T (inv_shift_rows st)) (nth 0 rks [])).

(* ---- ECB / CBC drivers *)
Fixpoint ecb_loop (f : bytes -> result bytes) (bl : list bytes) : result bytes :=
  match bl with
  | [] => Ok []
  | b :: r =>
      match f b with
      | Raise e => Raise e
      | Ok o => match ecb_loop f r with Raise e => Raise e | Ok rest => Ok (o ++ rest) end
      end
  end.
Fixpoint cbc_enc_loop (f : bytes -> result bytes) (prev : bytes) (bl : list bytes) : result bytes :=
  match bl with
  | [] => Ok []
  | b :: r =>
      match f (xor_bytes b prev) with
      | Raise e => Raise e
      | Ok enc => match cbc_enc_loop f enc r with Raise e => Raise e | Ok rest => Ok (enc ++ rest) end
      end
  end.
Fixpoint cbc_dec_loop (f : bytes -> result bytes) (prev : bytes) (bl : list bytes) : result bytes :=
  match bl with
  | [] => Ok []
  | b :: r =>
      match f b with
      | Raise e => Raise e
      | Ok dec => match cbc_dec_loop f b r with Raise e => Raise e | Ok rest => Ok (xor_bytes dec prev ++ rest) end
      end
  end.

Definition with_round_keys (T : tables) (c : cache) (key : bytes) (k : list bytes -> result bytes)
  : result bytes * cache :=
  match get_round_keys T c key with
  | (Raise e, c') => (Raise e, c')
  | (Ok rks, c') => (k rks, c')
  end.

Definition aligned (data : bytes) : bool := (length data mod 16 =? 0)%nat.

Definition aes_ecb_encrypt (T : tables) (c : cache) (key data : bytes) : result bytes * cache :=
  if negb (aligned data) then (Raise ValueError, c) else
  with_round_keys T c key (fun rks => ecb_loop (fun b => encrypt_block T b rks) (chunks data)).
Definition aes_ecb_decrypt (T : tables) (c : cache) (key data : bytes) : result bytes * cache :=
  if negb (aligned data) then (Raise ValueError, c) else
  with_round_keys T c key (fun rks => ecb_loop (fun b => decrypt_block T b rks) (chunks data)).
Definition aes_cbc_encrypt (T : tables) (c : cache) (key iv data : bytes) : result bytes * cache :=
  if negb (length iv =? 16)%nat then (Raise ValueError, c) else
  if negb (aligned data) then (Raise ValueError, c) else
  with_round_keys T c key (fun rks => cbc_enc_loop (fun b => encrypt_block T b rks) iv (chunks data)).
Definition aes_cbc_decrypt (T : tables) (c : cache) (key iv data : bytes) : result bytes * cache :=
  if negb (length iv =? 16)%nat then (Raise ValueError, c) else
  if negb (aligned data) then (Raise ValueError, c) else
  with_round_keys T c key (fun rks => cbc_dec_loop (fun b => decrypt_block T b rks) iv (chunks data)).

(* ---- PKCS#7 *)
Definition pkcs7_pad (data : bytes) (block_size : nat) : bytes :=
  let padding := (block_size - length data mod block_size)%nat in
  data ++ repeat (N.of_nat padding) padding.
Definition pkcs7_unpad (data : bytes) (block_size : nat) : result bytes :=
  match data with
  | [] => Ok []
  | _ =>
      let padding := N.to_nat (last data 0) in
      if ((padding <? 1) || (block_size <? padding))%nat then Raise ValueError else
      if negb (bytes_eqb (skipn (length data - padding) data) (repeat (N.of_nat padding) padding))
      then Raise ValueError
      else Ok (firstn (length data - padding) data)
  end.

(* ---- CryptAES.encrypt / .decrypt as patched into pypdf (iv = secrets.token_bytes(16) is a parameter) *)
Definition cryptaes_encrypt (T : tables) (c : cache) (key iv data : bytes) : result bytes * cache :=
  match aes_cbc_encrypt T c key iv (pkcs7_pad data 16) with
  | (Raise e, c') => (Raise e, c')
  | (Ok ct, c') => (Ok (iv ++ ct), c')
  end.
Definition cryptaes_decrypt (T : tables) (c : cache) (key data : bytes) : result bytes * cache :=
  let iv := firstn 16 data in
  let payload := skipn 16 data in
  match payload with
  | [] => (Ok [], c)
  | _ =>
      let payload := if negb (aligned payload) then pkcs7_pad payload 16 else payload in
      match aes_cbc_decrypt T c key iv payload with
      | (Raise e, c') => (Raise e, c')
      | (Ok plain, c') => (pkcs7_unpad plain 16, c')
      end
  end.

(* the cache after a history of _get_round_keys calls, starting from the empty cache of a fresh import *)
Definition cache_after (T : tables) (history : list bytes) : cache :=
  fold_left (fun c k => snd (get_round_keys T c k)) history [].
