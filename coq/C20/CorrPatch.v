(* C20 — correspondence for the installation: recorded namespace snapshots before / after the real call *)
From Coq Require Import NArith List Bool.
From S2T Require Import Lib.PyStr C20.Patch.
Import ListNotations.
(* case = (provider, snapshot before, returned value, snapshot after) *)
Definition patch_case (guard : str) (body : list assign) (c : str * state * bool * state) : bool :=
  let '(provider, before, ret, after) := c in
  let r := run_patch guard body provider before in
  Bool.eqb (fst r) ret &&
  state_eqb_on (map fst before ++ map fst after ++ map fst required) (snd r) after.
