(* C20 — obligations re-decided by the kernel for the tables dumped from the live module on this run. *)
From Coq Require Import Arith NArith List Bool.
From S2T Require Import C20.Spec C20.Model C20.Tables Gen.C20Tables.
Import ListNotations.

(* premise of the theorems of C20/Props.v: _SBOX, _INV_SBOX, _MUL2/3/9/11/13/14 (256 entries each) and
   _RCON (15 entries) are, entry by entry, the FIPS-197 functions *)
Theorem C20_tables_ok : tables_ok T = true.
Proof. vm_compute. reflexivity. Qed.
Print Assumptions C20_tables_ok.

(* the model's cache bound is the module's _ROUND_KEY_CACHE_MAX *)
Theorem C20_cache_max : ROUND_KEY_CACHE_MAX = CACHE_MAX.
Proof. vm_compute. reflexivity. Qed.
Print Assumptions C20_cache_max.
