(* C20 — facts decided over complete finite domains (all 256 bytes, all 65 536 byte pairs) by
   vm_compute and lifted to universally quantified statements with forallb_forall; and the
   XOR-linearity of the GF(2^8) product, proved for all numbers by bit reasoning. *)
From Coq Require Import Arith NArith List Bool Lia Btauto.
From S2T Require Import C20.Spec C20.Model C20.Tables.
Import ListNotations.
Open Scope N_scope.

Lemma byte_forall (P : N -> bool) :
  forallb P bytes256 = true -> forall b, b < 256 -> P b = true.
Proof.
  intros H b Hb. rewrite forallb_forall in H. apply H. unfold bytes256.
  apply in_map_iff. exists (N.to_nat b). split. apply N2Nat.id. apply in_seq. lia.
Qed.

Lemma byte_forall2 (P : N -> N -> bool) :
  forallb (fun a => forallb (P a) bytes256) bytes256 = true ->
  forall a b, a < 256 -> b < 256 -> P a b = true.
Proof.
  intros H a b Ha Hb. apply (byte_forall (P a)); [|exact Hb].
  apply (byte_forall (fun a => forallb (P a) bytes256)); assumption.
Qed.

Lemma byteb_lt b : byteb b = true <-> b < 256.
Proof. unfold byteb. apply N.ltb_lt. Qed.

(* ---- S-box *)
Lemma sbox_byte b : b < 256 -> sbox b < 256.
Proof. intro H. apply N.ltb_lt. apply (byte_forall (fun b => sbox b <? 256)); [vm_compute; reflexivity | exact H]. Qed.
Lemma inv_sbox_byte b : b < 256 -> inv_sbox b < 256.
Proof. intro H. apply N.ltb_lt. apply (byte_forall (fun b => inv_sbox b <? 256)); [vm_compute; reflexivity | exact H]. Qed.
Lemma inv_sbox_sbox b : b < 256 -> inv_sbox (sbox b) = b.
Proof. intro H. apply N.eqb_eq. apply (byte_forall (fun b => inv_sbox (sbox b) =? b)); [vm_compute; reflexivity | exact H]. Qed.
Lemma sbox_inv_sbox b : b < 256 -> sbox (inv_sbox b) = b.
Proof. intro H. apply N.eqb_eq. apply (byte_forall (fun b => sbox (inv_sbox b) =? b)); [vm_compute; reflexivity | exact H]. Qed.
(* the spec's ginv is the multiplicative inverse of FIPS-197 4.2 (and 0 -> 0) *)
Lemma ginv_is_inverse b : b < 256 -> (if b =? 0 then ginv b = 0 else gmul b (ginv b) = 1 /\ ginv b < 256).
Proof.
  intro H.
  assert (E : (if b =? 0 then ginv b =? 0 else (gmul b (ginv b) =? 1) && (ginv b <? 256)) = true).
  { apply (byte_forall (fun b => if b =? 0 then ginv b =? 0 else (gmul b (ginv b) =? 1) && (ginv b <? 256)));
      [vm_compute; reflexivity | exact H]. }
  destruct (b =? 0). now apply N.eqb_eq. apply andb_true_iff in E. destruct E as [E1 E2].
  split. now apply N.eqb_eq. now apply N.ltb_lt.
Qed.

(* ---- products *)
Definition coefs : list N := [1;2;3;9;11;13;14].
Lemma gmul_coef_byte k a : In k coefs -> a < 256 -> gmul k a < 256.
Proof.
  intros Hk Ha. apply N.ltb_lt.
  assert (E : forallb (fun k => forallb (fun a => gmul k a <? 256) bytes256) coefs = true) by (vm_compute; reflexivity).
  rewrite forallb_forall in E. apply (byte_forall _ (E k Hk)). exact Ha.
Qed.
Lemma gmul_1_l a : a < 256 -> gmul 1 a = a.
Proof. intro H. apply N.eqb_eq. apply (byte_forall (fun a => gmul 1 a =? a)); [vm_compute; reflexivity | exact H]. Qed.

(* the 2 x 4 coefficient identities of  InvMixColumns . MixColumns = id  and  MixColumns . InvMixColumns = id:
   first row of the matrix product (the other rows are its rotations) *)
Definition coef_ids (a : N) : bool :=
  (N.lxor (gmul 14 (gmul 2 a)) (N.lxor (gmul 11 (gmul 1 a)) (N.lxor (gmul 13 (gmul 1 a)) (gmul 9 (gmul 3 a)))) =? a) &&
  (N.lxor (gmul 14 (gmul 3 a)) (N.lxor (gmul 11 (gmul 2 a)) (N.lxor (gmul 13 (gmul 1 a)) (gmul 9 (gmul 1 a)))) =? 0) &&
  (N.lxor (gmul 14 (gmul 1 a)) (N.lxor (gmul 11 (gmul 3 a)) (N.lxor (gmul 13 (gmul 2 a)) (gmul 9 (gmul 1 a)))) =? 0) &&
  (N.lxor (gmul 14 (gmul 1 a)) (N.lxor (gmul 11 (gmul 1 a)) (N.lxor (gmul 13 (gmul 3 a)) (gmul 9 (gmul 2 a)))) =? 0) &&
  (N.lxor (gmul 2 (gmul 14 a)) (N.lxor (gmul 3 (gmul 9 a)) (N.lxor (gmul 1 (gmul 13 a)) (gmul 1 (gmul 11 a)))) =? a) &&
  (N.lxor (gmul 2 (gmul 11 a)) (N.lxor (gmul 3 (gmul 14 a)) (N.lxor (gmul 1 (gmul 9 a)) (gmul 1 (gmul 13 a)))) =? 0) &&
  (N.lxor (gmul 2 (gmul 13 a)) (N.lxor (gmul 3 (gmul 11 a)) (N.lxor (gmul 1 (gmul 14 a)) (gmul 1 (gmul 9 a)))) =? 0) &&
  (N.lxor (gmul 2 (gmul 9 a)) (N.lxor (gmul 3 (gmul 13 a)) (N.lxor (gmul 1 (gmul 11 a)) (gmul 1 (gmul 14 a)))) =? 0).
Lemma coef_ids_ok a : a < 256 -> coef_ids a = true.
Proof. intro H. apply (byte_forall coef_ids); [vm_compute; reflexivity | exact H]. Qed.

(* ---- the module's own arithmetic helpers *)
Lemma xtime_ok a : a < 256 -> xtime a = gmul 2 a.
Proof. intro H. apply N.eqb_eq. apply (byte_forall (fun a => xtime a =? gmul 2 a)); [vm_compute; reflexivity | exact H]. Qed.

Definition lr_eqb (r : loop_result) (v : N) : bool := match r with Done x => x =? v | OutOfFuel => false end.
(* all 65 536 pairs: the shift-and-add loop never runs out of fuel and computes the field product *)
Lemma gf_mul_ok a b : a < 256 -> b < 256 -> gf_mul a b = Done (gmul a b).
Proof.
  intros Ha Hb.
  assert (E : lr_eqb (gf_mul a b) (gmul a b) = true).
  { apply (byte_forall2 (fun a b => lr_eqb (gf_mul a b) (gmul a b))); [vm_compute; reflexivity | exact Ha | exact Hb]. }
  destruct (gf_mul a b); cbn in E; [apply N.eqb_eq in E; now subst | discriminate].
Qed.

Lemma build_mul_tables_ok :
  build_mul_table 2 = Some (MUL2 spec_tables) /\ build_mul_table 3 = Some (MUL3 spec_tables) /\
  build_mul_table 9 = Some (MUL9 spec_tables) /\ build_mul_table 11 = Some (MUL11 spec_tables) /\
  build_mul_table 13 = Some (MUL13 spec_tables) /\ build_mul_table 14 = Some (MUL14 spec_tables).
Proof. repeat split; vm_compute; reflexivity. Qed.

Lemma build_rcon_ok : build_rcon 14 = RCON spec_tables.
Proof. vm_compute. reflexivity. Qed.

(* ---- XOR-linearity of the field product in its second argument, for all numbers *)
Ltac xor_solve :=
  apply N.bits_inj; intro; rewrite ?N.lxor_spec, ?N.bits_0;
  repeat match goal with |- context [N.testbit ?a ?n] => generalize (N.testbit a n); intro end;
  btauto.

Lemma sh4 a b c d : N.lxor (N.lxor a b) (N.lxor c d) = N.lxor (N.lxor a c) (N.lxor b d).
Proof. xor_solve. Qed.

Lemma bit_term_lxor a b c i : bit_term a (N.lxor b c) i = N.lxor (bit_term a b i) (bit_term a c i).
Proof. unfold bit_term. destruct (N.testbit a i). apply N.shiftl_lxor. reflexivity. Qed.

Lemma clmul_lxor a b c : clmul a (N.lxor b c) = N.lxor (clmul a b) (clmul a c).
Proof.
  unfold clmul. induction [0;1;2;3;4;5;6;7] as [|i l IH]; cbn [fold_right]. reflexivity.
  rewrite IH, bit_term_lxor. apply sh4.
Qed.

Lemma red_step_lxor x y i : red_step (N.lxor x y) i = N.lxor (red_step x i) (red_step y i).
Proof.
  unfold red_step. rewrite N.lxor_spec.
  destruct (N.testbit x i), (N.testbit y i); cbn [xorb]; xor_solve.
Qed.

Lemma pmod_lxor x y : pmod (N.lxor x y) = N.lxor (pmod x) (pmod y).
Proof.
  unfold pmod. revert x y. induction [14;13;12;11;10;9;8] as [|i l IH]; intros x y; cbn [fold_left]. reflexivity.
  rewrite red_step_lxor. apply IH.
Qed.

Theorem gmul_lxor_r a b c : gmul a (N.lxor b c) = N.lxor (gmul a b) (gmul a c).
Proof. unfold gmul. rewrite clmul_lxor. apply pmod_lxor. Qed.
