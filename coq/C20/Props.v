(* C20 — property theorems.  Model: C20/Model.v (the Python module as it is, over its tables T);
   spec: C20/Spec.v (FIPS-197 / SP 800-38A, validated by the published vectors in C20/Vectors.v).
   `tables_ok T` (every table entry equals the FIPS-197 function, 9 tables) is re-decided by the kernel in
   C20/Inst.v for the tables dumped from the live module on every run.  Quantification is over every key
   of 16/24/32 bytes, every IV, every (aligned) message, every history of earlier calls (cache contents);
   `bytes_ok` says list elements are bytes (< 256), which Python's `bytes` guarantees. *)
From Coq Require Import Arith NArith List Bool Lia.
From S2T Require Import C20.Spec C20.Model C20.Tables C20.Finite C20.Rounds C20.KeyExp C20.Block C20.Modes C20.Top.
Import ListNotations.
Open Scope N_scope.

(* the hypotheses used below are satisfiable *)
Example C20_hypotheses_nonvacuous :
  tables_ok spec_tables = true /\ key_len_ok (repeat 0 16) = true /\ key_len_ok (repeat 7 24) = true /\
  key_len_ok (repeat 255 32) = true /\ bytes_ok (repeat 255 32) = true /\ iv_ok (repeat 9 16) = true /\
  aligned (repeat 1 48) = true /\ aligned [] = true /\ block_size_ok 16 = true /\
  key_len_ok (repeat 0 17) = false /\ aligned (repeat 1 5) = false.
Proof. vm_compute. repeat split. Qed.
Print Assumptions C20_hypotheses_nonvacuous.

(* ---- finite table theorems (bound in the statement: all 256 bytes / all 65 536 pairs) *)
Theorem C20_sbox_tables_ok : forall T, tables_ok T = true -> forall b, b < 256 ->
  tget (SBOX T) b = sbox b /\ tget (INV_SBOX T) b = inv_sbox b /\ inv_sbox (sbox b) = b /\ sbox (inv_sbox b) = b.
Proof.
  intros T H b Hb. rewrite (tables_ok_eq T H).
  exact (conj (tget_sbox b Hb) (conj (tget_inv_sbox b Hb) (conj (inv_sbox_sbox b Hb) (sbox_inv_sbox b Hb)))).
Qed.
Print Assumptions C20_sbox_tables_ok.

Theorem C20_mul_tables_ok : forall T, tables_ok T = true -> forall b, b < 256 ->
  tget (MUL2 T) b = gmul 2 b /\ tget (MUL3 T) b = gmul 3 b /\ tget (MUL9 T) b = gmul 9 b /\
  tget (MUL11 T) b = gmul 11 b /\ tget (MUL13 T) b = gmul 13 b /\ tget (MUL14 T) b = gmul 14 b.
Proof.
  intros T H b Hb. rewrite (tables_ok_eq T H).
  exact (conj (tget_mul2 b Hb) (conj (tget_mul3 b Hb) (conj (tget_mul9 b Hb) (conj (tget_mul11 b Hb)
        (conj (tget_mul13 b Hb) (tget_mul14 b Hb)))))).
Qed.
Print Assumptions C20_mul_tables_ok.

Theorem C20_rcon_ok : forall T, tables_ok T = true -> forall j, (1 <= j <= 14)%nat ->
  nth j (RCON T) 0 = gpow 2 (j - 1).
Proof. intros T H j Hj. rewrite (tables_ok_eq T H). exact (rcon_nth j Hj). Qed.
Print Assumptions C20_rcon_ok.

(* _xtime and the shift-and-add loop _gf_mul compute the field product; the loop never runs out of fuel *)
Theorem C20_gf_mul_ok : forall a b, a < 256 -> b < 256 -> gf_mul a b = Done (gmul a b) /\ xtime a = gmul 2 a.
Proof. intros a b Ha Hb. exact (conj (gf_mul_ok a b Ha Hb) (xtime_ok a Ha)). Qed.
Print Assumptions C20_gf_mul_ok.

(* _build_mul_table(k) and _build_rcon() produce exactly the tables the theorems assume *)
Theorem C20_built_tables : forall T, tables_ok T = true ->
  build_mul_table 2 = Some (MUL2 T) /\ build_mul_table 3 = Some (MUL3 T) /\ build_mul_table 9 = Some (MUL9 T) /\
  build_mul_table 11 = Some (MUL11 T) /\ build_mul_table 13 = Some (MUL13 T) /\ build_mul_table 14 = Some (MUL14 T) /\
  build_rcon 14 = RCON T.
Proof.
  intros T H. rewrite (tables_ok_eq T H). destruct build_mul_tables_ok as (A&B&C&D&E&F).
  exact (conj A (conj B (conj C (conj D (conj E (conj F build_rcon_ok)))))).
Qed.
Print Assumptions C20_built_tables.

(* the spec's inverse is the multiplicative inverse of FIPS-197 4.2; the product is XOR-linear (all numbers) *)
Theorem C20_spec_inverse : forall b, b < 256 -> if b =? 0 then ginv b = 0 else gmul b (ginv b) = 1 /\ ginv b < 256.
Proof. exact ginv_is_inverse. Qed.
Print Assumptions C20_spec_inverse.
Theorem C20_gmul_xor_linear : forall a b c, gmul a (N.lxor b c) = N.lxor (gmul a b) (gmul a c).
Proof. exact gmul_lxor_r. Qed.
Print Assumptions C20_gmul_xor_linear.

(* ---- unbounded theorems *)
(* _expand_key = KeyExpansion for every key of 16, 24 or 32 bytes *)
Theorem C20_expand_key_eq_spec : forall T key, tables_ok T = true -> key_len_ok key = true -> bytes_ok key = true ->
  expand_key T key = Ok (map (round_key (key_expansion key)) (seq 0 (rounds key + 1))).
Proof. intros T key H K B. rewrite (tables_ok_eq T H). exact (expand_key_eq key K B). Qed.
Print Assumptions C20_expand_key_eq_spec.

(* block functions = Cipher / InvCipher of FIPS-197, every key, every 16-byte block *)
Theorem C20_block_eq_fips : forall T key block rks, tables_ok T = true ->
  key_len_ok key = true -> bytes_ok key = true -> length block = 16%nat -> bytes_ok block = true ->
  expand_key T key = Ok rks ->
  encrypt_block T block rks = Ok (cipher key block) /\ decrypt_block T block rks = Ok (inv_cipher key block).
Proof.
  intros T key block rks H K B L Bb E. rewrite (tables_ok_eq T H) in *. rewrite (expand_key_eq key K B) in E.
  injection E as <-.
  exact (conj (encrypt_block_eq key K B block (conj L Bb)) (decrypt_block_eq key K B block (conj L Bb))).
Qed.
Print Assumptions C20_block_eq_fips.

(* decryption inverts encryption (and conversely), spec level; with C20_block_eq_fips also for the model *)
Theorem C20_decrypt_encrypt : forall key block, key_len_ok key = true -> bytes_ok key = true ->
  length block = 16%nat -> bytes_ok block = true ->
  inv_cipher key (cipher key block) = block /\ cipher key (inv_cipher key block) = block
  /\ length (cipher key block) = 16%nat /\ bytes_ok (cipher key block) = true.
Proof.
  intros key block K B L Bb.
  exact (conj (inv_cipher_cipher key K B block (conj L Bb)) (conj (cipher_inv_cipher key K B block (conj L Bb))
         (cipher_wf key K B block (conj L Bb)))).
Qed.
Print Assumptions C20_decrypt_encrypt.

(* aes_ecb_* / aes_cbc_* compute SP 800-38A ECB / CBC over the FIPS-197 cipher, after any history of calls *)
Theorem C20_ecb_eq : forall T history key data, tables_ok T = true ->
  key_len_ok key = true -> bytes_ok key = true -> aligned data = true -> bytes_ok data = true ->
  fst (aes_ecb_encrypt T (cache_after T history) key data) = Ok (ecb_encrypt key data) /\
  fst (aes_ecb_decrypt T (cache_after T history) key data) = Ok (ecb_decrypt key data).
Proof.
  intros T h key data H K B A Bd. rewrite (tables_ok_eq T H). destruct (cache_after_coherent h) as [F _].
  exact (conj (ecb_encrypt_eq key K B _ data F A Bd) (ecb_decrypt_eq key K B _ data F A Bd)).
Qed.
Print Assumptions C20_ecb_eq.

Theorem C20_cbc_eq : forall T history key iv data, tables_ok T = true ->
  key_len_ok key = true -> bytes_ok key = true -> iv_ok iv = true -> aligned data = true -> bytes_ok data = true ->
  fst (aes_cbc_encrypt T (cache_after T history) key iv data) = Ok (cbc_encrypt key iv data) /\
  fst (aes_cbc_decrypt T (cache_after T history) key iv data) = Ok (cbc_decrypt key iv data).
Proof.
  intros T h key iv data H K B I A Bd. rewrite (tables_ok_eq T H). destruct (cache_after_coherent h) as [F _].
  exact (conj (cbc_encrypt_eq key K B _ iv data F I A Bd) (cbc_decrypt_eq key K B _ iv data F I A Bd)).
Qed.
Print Assumptions C20_cbc_eq.

Theorem C20_ecb_roundtrip : forall key data, key_len_ok key = true -> bytes_ok key = true ->
  aligned data = true -> bytes_ok data = true -> ecb_decrypt key (ecb_encrypt key data) = data.
Proof. intros key data K B. exact (ecb_roundtrip key K B data). Qed.
Print Assumptions C20_ecb_roundtrip.

Theorem C20_cbc_roundtrip : forall key iv data, key_len_ok key = true -> bytes_ok key = true -> iv_ok iv = true ->
  aligned data = true -> bytes_ok data = true ->
  cbc_decrypt key iv (cbc_encrypt key iv data) = data /\ length (cbc_encrypt key iv data) = length data
  /\ bytes_ok (cbc_encrypt key iv data) = true.
Proof. intros key iv data K B. exact (cbc_roundtrip key K B iv data). Qed.
Print Assumptions C20_cbc_roundtrip.

(* the splitting into blocks loses nothing (its fuel is never exhausted) and yields 16-byte blocks *)
Theorem C20_chunks_exact : forall data, aligned data = true -> bytes_ok data = true ->
  Forall (fun b => length b = 16%nat /\ bytes_ok b = true) (chunks data) /\ concat (chunks data) = data.
Proof. exact chunks_ok. Qed.
Print Assumptions C20_chunks_exact.

(* PKCS#7 *)
Theorem C20_unpad_pad : forall m bs, block_size_ok bs = true -> pkcs7_unpad (pkcs7_pad m bs) bs = Ok m.
Proof. exact pkcs7_unpad_pad. Qed.
Print Assumptions C20_unpad_pad.
Theorem C20_pad_len : forall m bs, block_size_ok bs = true ->
  (length (pkcs7_pad m bs) mod bs = 0)%nat /\ (length m < length (pkcs7_pad m bs) <= length m + bs)%nat.
Proof. exact pkcs7_pad_length. Qed.
Print Assumptions C20_pad_len.

(* CryptAES: encrypt = IV || CBC(pad m); decrypt returns exactly m; any histories before either call *)
Theorem C20_stream_roundtrip : forall T h1 h2 key iv m, tables_ok T = true ->
  key_len_ok key = true -> bytes_ok key = true -> iv_ok iv = true -> bytes_ok m = true ->
  exists ct, fst (cryptaes_encrypt T (cache_after T h1) key iv m) = Ok ct /\ firstn 16 ct = iv
             /\ skipn 16 ct = cbc_encrypt key iv (pkcs7_pad m 16)
             /\ fst (cryptaes_decrypt T (cache_after T h2) key ct) = Ok m.
Proof.
  intros T h1 h2 key iv m H K B I Bm. rewrite (tables_ok_eq T H).
  destruct (cache_after_coherent h1) as [F1 _]. destruct (cache_after_coherent h2) as [F2 _].
  exact (stream_roundtrip key K B _ _ iv m F1 F2 I Bm).
Qed.
Print Assumptions C20_stream_roundtrip.

(* wrong data / IV / key lengths raise ValueError and leave the cache unchanged *)
Theorem C20_rejects : forall T history key iv data, tables_ok T = true ->
  let c := cache_after T history in
  (aligned data = false ->
     aes_ecb_encrypt T c key data = (Raise ValueError, c) /\ aes_ecb_decrypt T c key data = (Raise ValueError, c) /\
     aes_cbc_encrypt T c key iv data = (Raise ValueError, c) /\ aes_cbc_decrypt T c key iv data = (Raise ValueError, c)) /\
  ((length iv =? 16)%nat = false ->
     aes_cbc_encrypt T c key iv data = (Raise ValueError, c) /\ aes_cbc_decrypt T c key iv data = (Raise ValueError, c)) /\
  (key_len_ok key = false ->
     aes_ecb_encrypt T c key data = (Raise ValueError, c) /\ aes_ecb_decrypt T c key data = (Raise ValueError, c) /\
     aes_cbc_encrypt T c key iv data = (Raise ValueError, c) /\ aes_cbc_decrypt T c key iv data = (Raise ValueError, c) /\
     expand_key T key = Raise ValueError).
Proof.
  intros T h key iv data H. rewrite (tables_ok_eq T H). cbv zeta. destruct (cache_after_coherent h) as [F _].
  exact (rejects _ key iv data F).
Qed.
Print Assumptions C20_rejects.

(* the round-key cache: after every history, a look-up returns _expand_key(key) and at most 4 entries are kept *)
Theorem C20_round_key_cache_coherent : forall T history key, tables_ok T = true ->
  fst (get_round_keys T (cache_after T history) key) = expand_key T key /\
  (length (cache_after T (history ++ [key])) <= 4)%nat /\
  Forall (fun kv => expand_key T (fst kv) = Ok (snd kv)) (cache_after T (history ++ [key])).
Proof.
  intros T h key H. rewrite (tables_ok_eq T H). destruct (cache_after_coherent h) as [F _].
  destruct (get_round_keys_coherent _ key F) as (E & _ & _). destruct (cache_after_coherent (h ++ [key])) as [F' L'].
  exact (conj E (conj L' F')).
Qed.
Print Assumptions C20_round_key_cache_coherent.

(* ---- patch_pypdf_fallback_aes(): installation into pypdf.  `body` / `guard` are translated from the
   function's AST on every run (Gen/C20Patch.v); `install_ok body` is re-decided in C20/Inst.v. *)
From S2T Require Import Lib.PyStr C20.Patch C20.PatchProofs.

Example C20_install_ok_nonvacuous : install_ok required = true.
Proof. vm_compute. reflexivity. Qed.
Print Assumptions C20_install_ok_nonvacuous.

(* on the fallback provider the patch returns True and, whatever the namespaces held before, afterwards the
   four AES functions of all three pypdf namespaces are the built-in ones, CryptAES is the fallback class
   and its __init__/encrypt/decrypt are the wrapper closures *)
Theorem C20_patch_installs : forall guard body st, install_ok body = true ->
  fst (run_patch guard body guard st) = true /\
  forall r, In r required -> lookup (snd (run_patch guard body guard st)) (fst r) = Some (snd r).
Proof. exact patch_installs. Qed.
Print Assumptions C20_patch_installs.

(* no other attribute of any namespace is touched, on any provider *)
Theorem C20_patch_frame : forall guard body provider st k, install_ok body = true ->
  existsb (fun r => key_eqb (fst r) k) required = false ->
  lookup (snd (run_patch guard body provider st)) k = lookup st k.
Proof. exact patch_frame. Qed.
Print Assumptions C20_patch_frame.

(* calling it again changes nothing observable (same return value, same binding of every attribute) *)
Theorem C20_patch_idempotent : forall guard body provider st,
  fst (run_patch guard body provider (snd (run_patch guard body provider st))) = fst (run_patch guard body provider st) /\
  forall k, lookup (snd (run_patch guard body provider (snd (run_patch guard body provider st)))) k
            = lookup (snd (run_patch guard body provider st)) k.
Proof. exact patch_idempotent. Qed.
Print Assumptions C20_patch_idempotent.

(* with any other crypto provider: returns False, nothing is rebound *)
Theorem C20_patch_not_applicable : forall guard body provider st,
  str_eqb provider guard = false -> run_patch guard body provider st = (false, st).
Proof. exact patch_not_applicable. Qed.
Print Assumptions C20_patch_not_applicable.
