(* C20 — model of patch_pypdf_fallback_aes(): which names of which pypdf namespaces are rebound to what.
   The body (guard string + list of attribute assignments in source order) is translated fail-closed from
   the function's AST into Gen/C20Patch.v on every run; this file interprets it.  A namespace state is an
   association list keyed by (namespace, attribute name).  Definitions only. *)
From Coq Require Import NArith List Bool.
From S2T Require Import Lib.PyStr.
Import ListNotations.

Inductive ns := Providers | Fb | Enc | FbCryptAES.   (* pypdf._crypt_providers, ..._fallback, pypdf._encryption, class _fallback.CryptAES *)
Inductive val :=
| OursFn (name : str)      (* a module-level function of _pypdf_aes_fallback: aes_ecb_encrypt, ... *)
| Wrapper (name : str)     (* a closure defined inside patch_pypdf_fallback_aes: _cryptaes_init/_encrypt/_decrypt *)
| FbClass                  (* the class object pypdf._crypt_providers._fallback.CryptAES *)
| Other (id : N).          (* any other object, by identity *)
Definition key := (ns * str)%type.
Definition assign := (key * val)%type.
Definition state := list assign.

Definition ns_eqb (a b : ns) : bool :=
  match a, b with Providers, Providers | Fb, Fb | Enc, Enc | FbCryptAES, FbCryptAES => true | _, _ => false end.
Definition key_eqb (a b : key) : bool := ns_eqb (fst a) (fst b) && str_eqb (snd a) (snd b).
Definition val_eqb (a b : val) : bool :=
  match a, b with
  | OursFn x, OursFn y | Wrapper x, Wrapper y => str_eqb x y
  | FbClass, FbClass => true
  | Other i, Other j => N.eqb i j
  | _, _ => false
  end.

Fixpoint lookup (st : state) (k : key) : option val :=
  match st with [] => None | (k', v) :: r => if key_eqb k' k then Some v else lookup r k end.
(* setattr: rebinding in place, or a new attribute *)
Fixpoint set (st : state) (a : assign) : state :=
  match st with
  | [] => [a]
  | (k', v) :: r => if key_eqb k' (fst a) then (k', snd a) :: r else (k', v) :: set r a
  end.

Definition run_patch (guard : str) (body : list assign) (provider : str) (st : state) : bool * state :=
  if str_eqb provider guard then (true, fold_left set body st) else (false, st).

(* the last value a body assigns to a key *)
Fixpoint last_write (body : list assign) (k : key) : option val :=
  match body with
  | [] => None
  | (k', v) :: r => match last_write r k with Some w => Some w | None => if key_eqb k' k then Some v else None end
  end.

(* what the installation must achieve: in all three module namespaces the four AES functions are the
   built-in ones and CryptAES is the fallback class, whose three methods are the wrapper closures *)
Definition fn_names : list str := [s "aes_ecb_encrypt"; s "aes_ecb_decrypt"; s "aes_cbc_encrypt"; s "aes_cbc_decrypt"].
Definition required : list assign :=
  flat_map (fun n => map (fun f => ((n, f), OursFn f)) fn_names) [Fb; Providers; Enc] ++
  [((Providers, s "CryptAES"), FbClass); ((Enc, s "CryptAES"), FbClass);
   ((FbCryptAES, s "__init__"), Wrapper (s "_cryptaes_init"));
   ((FbCryptAES, s "encrypt"), Wrapper (s "_cryptaes_encrypt"));
   ((FbCryptAES, s "decrypt"), Wrapper (s "_cryptaes_decrypt"))].

Definition opt_val_eqb (a b : option val) : bool :=
  match a, b with Some x, Some y => val_eqb x y | None, None => true | _, _ => false end.
(* the body writes every required binding (as its last write to that key) and writes nothing else *)
Definition install_ok (body : list assign) : bool :=
  forallb (fun r => opt_val_eqb (last_write body (fst r)) (Some (snd r))) required &&
  forallb (fun a => existsb (fun r => key_eqb (fst r) (fst a)) required) body.

Definition state_eqb_on (keys : list key) (a b : state) : bool :=
  forallb (fun k => opt_val_eqb (lookup a k) (lookup b k)) keys.
