(* C20 — InvMixColumns . MixColumns = id (and conversely) for every column: the matrix identity over
   GF(2^8) (8 coefficient identities, each decided on all 256 bytes) lifted by XOR-linearity. *)
From Coq Require Import Arith NArith List Bool Lia Btauto.
From S2T Require Import C20.Spec C20.Model C20.Tables C20.Finite C20.Rounds.
Import ListNotations.
Open Scope N_scope.

Lemma byte_forall_eq (f g : N -> N) :
  forallb (fun a => f a =? g a) bytes256 = true -> forall a, a < 256 -> f a = g a.
Proof. intros H a Ha. apply N.eqb_eq. exact (byte_forall (fun a => f a =? g a) H a Ha). Qed.
Ltac byte_id f g H :=
  let E := fresh "E" in
  assert (E : forallb (fun a => f a =? g a) bytes256 = true) by (vm_compute; reflexivity);
  exact (byte_forall_eq f g E _ H).

(* NB: all statements below are spelled out syntactically (no let / auxiliary definitions): a
   conversion between a folded and an unfolded form would make the kernel evaluate gmul on variables. *)
Lemma coef_ids_prop a : a < 256 ->
  (N.lxor (gmul 14 (gmul 2 a)) (N.lxor (gmul 11 (gmul 1 a)) (N.lxor (gmul 13 (gmul 1 a)) (gmul 9 (gmul 3 a)))) = a /\
   N.lxor (gmul 14 (gmul 3 a)) (N.lxor (gmul 11 (gmul 2 a)) (N.lxor (gmul 13 (gmul 1 a)) (gmul 9 (gmul 1 a)))) = 0 /\
   N.lxor (gmul 14 (gmul 1 a)) (N.lxor (gmul 11 (gmul 3 a)) (N.lxor (gmul 13 (gmul 2 a)) (gmul 9 (gmul 1 a)))) = 0 /\
   N.lxor (gmul 14 (gmul 1 a)) (N.lxor (gmul 11 (gmul 1 a)) (N.lxor (gmul 13 (gmul 3 a)) (gmul 9 (gmul 2 a)))) = 0) /\
  (N.lxor (gmul 2 (gmul 14 a)) (N.lxor (gmul 3 (gmul 9 a)) (N.lxor (gmul 1 (gmul 13 a)) (gmul 1 (gmul 11 a)))) = a /\
   N.lxor (gmul 2 (gmul 11 a)) (N.lxor (gmul 3 (gmul 14 a)) (N.lxor (gmul 1 (gmul 9 a)) (gmul 1 (gmul 13 a)))) = 0 /\
   N.lxor (gmul 2 (gmul 13 a)) (N.lxor (gmul 3 (gmul 11 a)) (N.lxor (gmul 1 (gmul 14 a)) (gmul 1 (gmul 9 a)))) = 0 /\
   N.lxor (gmul 2 (gmul 9 a)) (N.lxor (gmul 3 (gmul 13 a)) (N.lxor (gmul 1 (gmul 11 a)) (gmul 1 (gmul 14 a)))) = 0).
Proof.
  intro H. split; [split; [|split; [|split]]|split; [|split; [|split]]].
  - byte_id (fun a : N => N.lxor (gmul 14 (gmul 2 a)) (N.lxor (gmul 11 (gmul 1 a)) (N.lxor (gmul 13 (gmul 1 a)) (gmul 9 (gmul 3 a))))) (fun a : N => a) H.
  - byte_id (fun a : N => N.lxor (gmul 14 (gmul 3 a)) (N.lxor (gmul 11 (gmul 2 a)) (N.lxor (gmul 13 (gmul 1 a)) (gmul 9 (gmul 1 a))))) (fun a : N => 0) H.
  - byte_id (fun a : N => N.lxor (gmul 14 (gmul 1 a)) (N.lxor (gmul 11 (gmul 3 a)) (N.lxor (gmul 13 (gmul 2 a)) (gmul 9 (gmul 1 a))))) (fun a : N => 0) H.
  - byte_id (fun a : N => N.lxor (gmul 14 (gmul 1 a)) (N.lxor (gmul 11 (gmul 1 a)) (N.lxor (gmul 13 (gmul 3 a)) (gmul 9 (gmul 2 a))))) (fun a : N => 0) H.
  - byte_id (fun a : N => N.lxor (gmul 2 (gmul 14 a)) (N.lxor (gmul 3 (gmul 9 a)) (N.lxor (gmul 1 (gmul 13 a)) (gmul 1 (gmul 11 a))))) (fun a : N => a) H.
  - byte_id (fun a : N => N.lxor (gmul 2 (gmul 11 a)) (N.lxor (gmul 3 (gmul 14 a)) (N.lxor (gmul 1 (gmul 9 a)) (gmul 1 (gmul 13 a))))) (fun a : N => 0) H.
  - byte_id (fun a : N => N.lxor (gmul 2 (gmul 13 a)) (N.lxor (gmul 3 (gmul 11 a)) (N.lxor (gmul 1 (gmul 14 a)) (gmul 1 (gmul 9 a))))) (fun a : N => 0) H.
  - byte_id (fun a : N => N.lxor (gmul 2 (gmul 9 a)) (N.lxor (gmul 3 (gmul 13 a)) (N.lxor (gmul 1 (gmul 11 a)) (gmul 1 (gmul 14 a))))) (fun a : N => 0) H.
Qed.

Ltac xor_ac :=
  apply N.bits_inj; intro; rewrite ?N.lxor_spec;
  repeat match goal with |- context [N.testbit ?a ?n] => generalize (N.testbit a n); intro end;
  btauto.
Lemma regroup_0 t00 t01 t02 t03 t10 t11 t12 t13 t20 t21 t22 t23 t30 t31 t32 t33 :
  N.lxor (N.lxor t00 (N.lxor t01 (N.lxor t02 (t03)))) (N.lxor (N.lxor t10 (N.lxor t11 (N.lxor t12 (t13)))) (N.lxor (N.lxor t20 (N.lxor t21 (N.lxor t22 (t23)))) (N.lxor t30 (N.lxor t31 (N.lxor t32 (t33)))))) =
  N.lxor (N.lxor t00 (N.lxor t10 (N.lxor t20 (t30)))) (N.lxor (N.lxor t01 (N.lxor t11 (N.lxor t21 (t31)))) (N.lxor (N.lxor t02 (N.lxor t12 (N.lxor t22 (t32)))) (N.lxor t03 (N.lxor t13 (N.lxor t23 (t33)))))).
Proof. xor_ac. Qed.
Lemma regroup_1 t00 t01 t02 t03 t10 t11 t12 t13 t20 t21 t22 t23 t30 t31 t32 t33 :
  N.lxor (N.lxor t00 (N.lxor t01 (N.lxor t02 (t03)))) (N.lxor (N.lxor t10 (N.lxor t11 (N.lxor t12 (t13)))) (N.lxor (N.lxor t20 (N.lxor t21 (N.lxor t22 (t23)))) (N.lxor t30 (N.lxor t31 (N.lxor t32 (t33)))))) =
  N.lxor (N.lxor t10 (N.lxor t20 (N.lxor t30 (t00)))) (N.lxor (N.lxor t11 (N.lxor t21 (N.lxor t31 (t01)))) (N.lxor (N.lxor t12 (N.lxor t22 (N.lxor t32 (t02)))) (N.lxor t13 (N.lxor t23 (N.lxor t33 (t03)))))).
Proof. xor_ac. Qed.
Lemma regroup_2 t00 t01 t02 t03 t10 t11 t12 t13 t20 t21 t22 t23 t30 t31 t32 t33 :
  N.lxor (N.lxor t00 (N.lxor t01 (N.lxor t02 (t03)))) (N.lxor (N.lxor t10 (N.lxor t11 (N.lxor t12 (t13)))) (N.lxor (N.lxor t20 (N.lxor t21 (N.lxor t22 (t23)))) (N.lxor t30 (N.lxor t31 (N.lxor t32 (t33)))))) =
  N.lxor (N.lxor t20 (N.lxor t30 (N.lxor t00 (t10)))) (N.lxor (N.lxor t21 (N.lxor t31 (N.lxor t01 (t11)))) (N.lxor (N.lxor t22 (N.lxor t32 (N.lxor t02 (t12)))) (N.lxor t23 (N.lxor t33 (N.lxor t03 (t13)))))).
Proof. xor_ac. Qed.
Lemma regroup_3 t00 t01 t02 t03 t10 t11 t12 t13 t20 t21 t22 t23 t30 t31 t32 t33 :
  N.lxor (N.lxor t00 (N.lxor t01 (N.lxor t02 (t03)))) (N.lxor (N.lxor t10 (N.lxor t11 (N.lxor t12 (t13)))) (N.lxor (N.lxor t20 (N.lxor t21 (N.lxor t22 (t23)))) (N.lxor t30 (N.lxor t31 (N.lxor t32 (t33)))))) =
  N.lxor (N.lxor t30 (N.lxor t00 (N.lxor t10 (t20)))) (N.lxor (N.lxor t31 (N.lxor t01 (N.lxor t11 (t21)))) (N.lxor (N.lxor t32 (N.lxor t02 (N.lxor t12 (t22)))) (N.lxor t33 (N.lxor t03 (N.lxor t13 (t23)))))).
Proof. xor_ac. Qed.
Lemma fin_0 a : N.lxor a (N.lxor 0 (N.lxor 0 0)) = a. Proof. apply N.lxor_0_r. Qed.
Lemma fin_1 a : N.lxor 0 (N.lxor a (N.lxor 0 0)) = a. Proof. rewrite N.lxor_0_l. apply N.lxor_0_r. Qed.
Lemma fin_2 a : N.lxor 0 (N.lxor 0 (N.lxor a 0)) = a. Proof. rewrite !N.lxor_0_l. apply N.lxor_0_r. Qed.
Lemma fin_3 a : N.lxor 0 (N.lxor 0 (N.lxor 0 a)) = a. Proof. rewrite !N.lxor_0_l. reflexivity. Qed.
Ltac row_solve R F Ea Eb Ec Ed :=
  etransitivity; [apply R|]; rewrite Ea, Eb, Ec, Ed; apply F.

Lemma inv_mix_mix_col a0 a1 a2 a3 : a0 < 256 -> a1 < 256 -> a2 < 256 -> a3 < 256 ->
  N.lxor (gmul 14 (N.lxor (gmul 2 a0) (N.lxor (gmul 3 a1) (N.lxor (gmul 1 a2) (gmul 1 a3))))) (N.lxor (gmul 11 (N.lxor (gmul 1 a0) (N.lxor (gmul 2 a1) (N.lxor (gmul 3 a2) (gmul 1 a3))))) (N.lxor (gmul 13 (N.lxor (gmul 1 a0) (N.lxor (gmul 1 a1) (N.lxor (gmul 2 a2) (gmul 3 a3))))) (gmul 9 (N.lxor (gmul 3 a0) (N.lxor (gmul 1 a1) (N.lxor (gmul 1 a2) (gmul 2 a3))))))) = a0 /\
  N.lxor (gmul 9 (N.lxor (gmul 2 a0) (N.lxor (gmul 3 a1) (N.lxor (gmul 1 a2) (gmul 1 a3))))) (N.lxor (gmul 14 (N.lxor (gmul 1 a0) (N.lxor (gmul 2 a1) (N.lxor (gmul 3 a2) (gmul 1 a3))))) (N.lxor (gmul 11 (N.lxor (gmul 1 a0) (N.lxor (gmul 1 a1) (N.lxor (gmul 2 a2) (gmul 3 a3))))) (gmul 13 (N.lxor (gmul 3 a0) (N.lxor (gmul 1 a1) (N.lxor (gmul 1 a2) (gmul 2 a3))))))) = a1 /\
  N.lxor (gmul 13 (N.lxor (gmul 2 a0) (N.lxor (gmul 3 a1) (N.lxor (gmul 1 a2) (gmul 1 a3))))) (N.lxor (gmul 9 (N.lxor (gmul 1 a0) (N.lxor (gmul 2 a1) (N.lxor (gmul 3 a2) (gmul 1 a3))))) (N.lxor (gmul 14 (N.lxor (gmul 1 a0) (N.lxor (gmul 1 a1) (N.lxor (gmul 2 a2) (gmul 3 a3))))) (gmul 11 (N.lxor (gmul 3 a0) (N.lxor (gmul 1 a1) (N.lxor (gmul 1 a2) (gmul 2 a3))))))) = a2 /\
  N.lxor (gmul 11 (N.lxor (gmul 2 a0) (N.lxor (gmul 3 a1) (N.lxor (gmul 1 a2) (gmul 1 a3))))) (N.lxor (gmul 13 (N.lxor (gmul 1 a0) (N.lxor (gmul 2 a1) (N.lxor (gmul 3 a2) (gmul 1 a3))))) (N.lxor (gmul 9 (N.lxor (gmul 1 a0) (N.lxor (gmul 1 a1) (N.lxor (gmul 2 a2) (gmul 3 a3))))) (gmul 14 (N.lxor (gmul 3 a0) (N.lxor (gmul 1 a1) (N.lxor (gmul 1 a2) (gmul 2 a3))))))) = a3.
Proof.
  intros H0 H1 H2 H3. rewrite !gmul_lxor_r.
  destruct (coef_ids_prop a0 H0) as [(A1&A2&A3&A4) _]. destruct (coef_ids_prop a1 H1) as [(B1&B2&B3&B4) _].
  destruct (coef_ids_prop a2 H2) as [(C1&C2&C3&C4) _]. destruct (coef_ids_prop a3 H3) as [(D1&D2&D3&D4) _].
  split; [|split; [|split]].
  - row_solve regroup_0 fin_0 A1 B2 C3 D4.
  - row_solve regroup_1 fin_1 A4 B1 C2 D3.
  - row_solve regroup_2 fin_2 A3 B4 C1 D2.
  - row_solve regroup_3 fin_3 A2 B3 C4 D1.
Qed.

Lemma mix_inv_mix_col a0 a1 a2 a3 : a0 < 256 -> a1 < 256 -> a2 < 256 -> a3 < 256 ->
  N.lxor (gmul 2 (N.lxor (gmul 14 a0) (N.lxor (gmul 11 a1) (N.lxor (gmul 13 a2) (gmul 9 a3))))) (N.lxor (gmul 3 (N.lxor (gmul 9 a0) (N.lxor (gmul 14 a1) (N.lxor (gmul 11 a2) (gmul 13 a3))))) (N.lxor (gmul 1 (N.lxor (gmul 13 a0) (N.lxor (gmul 9 a1) (N.lxor (gmul 14 a2) (gmul 11 a3))))) (gmul 1 (N.lxor (gmul 11 a0) (N.lxor (gmul 13 a1) (N.lxor (gmul 9 a2) (gmul 14 a3))))))) = a0 /\
  N.lxor (gmul 1 (N.lxor (gmul 14 a0) (N.lxor (gmul 11 a1) (N.lxor (gmul 13 a2) (gmul 9 a3))))) (N.lxor (gmul 2 (N.lxor (gmul 9 a0) (N.lxor (gmul 14 a1) (N.lxor (gmul 11 a2) (gmul 13 a3))))) (N.lxor (gmul 3 (N.lxor (gmul 13 a0) (N.lxor (gmul 9 a1) (N.lxor (gmul 14 a2) (gmul 11 a3))))) (gmul 1 (N.lxor (gmul 11 a0) (N.lxor (gmul 13 a1) (N.lxor (gmul 9 a2) (gmul 14 a3))))))) = a1 /\
  N.lxor (gmul 1 (N.lxor (gmul 14 a0) (N.lxor (gmul 11 a1) (N.lxor (gmul 13 a2) (gmul 9 a3))))) (N.lxor (gmul 1 (N.lxor (gmul 9 a0) (N.lxor (gmul 14 a1) (N.lxor (gmul 11 a2) (gmul 13 a3))))) (N.lxor (gmul 2 (N.lxor (gmul 13 a0) (N.lxor (gmul 9 a1) (N.lxor (gmul 14 a2) (gmul 11 a3))))) (gmul 3 (N.lxor (gmul 11 a0) (N.lxor (gmul 13 a1) (N.lxor (gmul 9 a2) (gmul 14 a3))))))) = a2 /\
  N.lxor (gmul 3 (N.lxor (gmul 14 a0) (N.lxor (gmul 11 a1) (N.lxor (gmul 13 a2) (gmul 9 a3))))) (N.lxor (gmul 1 (N.lxor (gmul 9 a0) (N.lxor (gmul 14 a1) (N.lxor (gmul 11 a2) (gmul 13 a3))))) (N.lxor (gmul 1 (N.lxor (gmul 13 a0) (N.lxor (gmul 9 a1) (N.lxor (gmul 14 a2) (gmul 11 a3))))) (gmul 2 (N.lxor (gmul 11 a0) (N.lxor (gmul 13 a1) (N.lxor (gmul 9 a2) (gmul 14 a3))))))) = a3.
Proof.
  intros H0 H1 H2 H3. rewrite !gmul_lxor_r.
  destruct (coef_ids_prop a0 H0) as [_ (A1&A2&A3&A4)]. destruct (coef_ids_prop a1 H1) as [_ (B1&B2&B3&B4)].
  destruct (coef_ids_prop a2 H2) as [_ (C1&C2&C3&C4)]. destruct (coef_ids_prop a3 H3) as [_ (D1&D2&D3&D4)].
  split; [|split; [|split]].
  - row_solve regroup_0 fin_0 A1 B2 C3 D4.
  - row_solve regroup_1 fin_1 A4 B1 C2 D3.
  - row_solve regroup_2 fin_2 A3 B4 C1 D2.
  - row_solve regroup_3 fin_3 A2 B3 C4 D1.
Qed.

Lemma mat_columns_explicit c0 c1 c2 c3 a0 a1 a2 a3 a4 a5 a6 a7 a8 a9 a10 a11 a12 a13 a14 a15 :
  mat_columns [c0;c1;c2;c3] [a0;a1;a2;a3;a4;a5;a6;a7;a8;a9;a10;a11;a12;a13;a14;a15] =
  [N.lxor (gmul c0 a0) (N.lxor (gmul c1 a1) (N.lxor (gmul c2 a2) (gmul c3 a3)));
   N.lxor (gmul c3 a0) (N.lxor (gmul c0 a1) (N.lxor (gmul c1 a2) (gmul c2 a3)));
   N.lxor (gmul c2 a0) (N.lxor (gmul c3 a1) (N.lxor (gmul c0 a2) (gmul c1 a3)));
   N.lxor (gmul c1 a0) (N.lxor (gmul c2 a1) (N.lxor (gmul c3 a2) (gmul c0 a3)));
   N.lxor (gmul c0 a4) (N.lxor (gmul c1 a5) (N.lxor (gmul c2 a6) (gmul c3 a7)));
   N.lxor (gmul c3 a4) (N.lxor (gmul c0 a5) (N.lxor (gmul c1 a6) (gmul c2 a7)));
   N.lxor (gmul c2 a4) (N.lxor (gmul c3 a5) (N.lxor (gmul c0 a6) (gmul c1 a7)));
   N.lxor (gmul c1 a4) (N.lxor (gmul c2 a5) (N.lxor (gmul c3 a6) (gmul c0 a7)));
   N.lxor (gmul c0 a8) (N.lxor (gmul c1 a9) (N.lxor (gmul c2 a10) (gmul c3 a11)));
   N.lxor (gmul c3 a8) (N.lxor (gmul c0 a9) (N.lxor (gmul c1 a10) (gmul c2 a11)));
   N.lxor (gmul c2 a8) (N.lxor (gmul c3 a9) (N.lxor (gmul c0 a10) (gmul c1 a11)));
   N.lxor (gmul c1 a8) (N.lxor (gmul c2 a9) (N.lxor (gmul c3 a10) (gmul c0 a11)));
   N.lxor (gmul c0 a12) (N.lxor (gmul c1 a13) (N.lxor (gmul c2 a14) (gmul c3 a15)));
   N.lxor (gmul c3 a12) (N.lxor (gmul c0 a13) (N.lxor (gmul c1 a14) (gmul c2 a15)));
   N.lxor (gmul c2 a12) (N.lxor (gmul c3 a13) (N.lxor (gmul c0 a14) (gmul c1 a15)));
   N.lxor (gmul c1 a12) (N.lxor (gmul c2 a13) (N.lxor (gmul c3 a14) (gmul c0 a15)))].
Proof. reflexivity. Qed.

Lemma inv_mix_columns_mix_columns st : wf16 st -> Spec.inv_mix_columns (Spec.mix_columns st) = st.
Proof.
  intros H. open16 st H. unfold Spec.inv_mix_columns, Spec.mix_columns. rewrite !mat_columns_explicit.
  destruct (inv_mix_mix_col a a0 a1 a2 B B0 B1 B2) as (X0&X1&X2&X3).
  destruct (inv_mix_mix_col a3 a4 a5 a6 B3 B4 B5 B6) as (Y0&Y1&Y2&Y3).
  destruct (inv_mix_mix_col a7 a8 a9 a10 B7 B8 B9 B10) as (Z0&Z1&Z2&Z3).
  destruct (inv_mix_mix_col a11 a12 a13 a14 B11 B12 B13 B14) as (W0&W1&W2&W3).
  rewrite X0, X1, X2, X3, Y0, Y1, Y2, Y3, Z0, Z1, Z2, Z3, W0, W1, W2, W3. reflexivity.
Qed.
Lemma mix_columns_inv_mix_columns st : wf16 st -> Spec.mix_columns (Spec.inv_mix_columns st) = st.
Proof.
  intros H. open16 st H. unfold Spec.inv_mix_columns, Spec.mix_columns. rewrite !mat_columns_explicit.
  destruct (mix_inv_mix_col a a0 a1 a2 B B0 B1 B2) as (X0&X1&X2&X3).
  destruct (mix_inv_mix_col a3 a4 a5 a6 B3 B4 B5 B6) as (Y0&Y1&Y2&Y3).
  destruct (mix_inv_mix_col a7 a8 a9 a10 B7 B8 B9 B10) as (Z0&Z1&Z2&Z3).
  destruct (mix_inv_mix_col a11 a12 a13 a14 B11 B12 B13 B14) as (W0&W1&W2&W3).
  rewrite X0, X1, X2, X3, Y0, Y1, Y2, Y3, Z0, Z1, Z2, Z3, W0, W1, W2, W3. reflexivity.
Qed.
