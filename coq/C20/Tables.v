(* C20 — what the module's tables must be, in terms of the spec; `tables_ok` is the premise of the
   theorems of C20/Props.v and is re-decided by the kernel for the dumped tables in C20/Inst.v. *)
From Coq Require Import Arith NArith List Bool.
From S2T Require Import C20.Spec C20.Model.
Import ListNotations.
Open Scope N_scope.

Definition spec_rcon_table : list N := 0 :: map (fun j : nat => gpow 2 (j - 1)) (seq 1 14).

Definition spec_tables : tables := {|
  SBOX := map sbox bytes256; INV_SBOX := map inv_sbox bytes256;
  MUL2 := map (gmul 2) bytes256; MUL3 := map (gmul 3) bytes256;
  MUL9 := map (gmul 9) bytes256; MUL11 := map (gmul 11) bytes256;
  MUL13 := map (gmul 13) bytes256; MUL14 := map (gmul 14) bytes256;
  RCON := spec_rcon_table |}.

Definition tables_eqb (A B : tables) : bool :=
  bytes_eqb (SBOX A) (SBOX B) && bytes_eqb (INV_SBOX A) (INV_SBOX B) &&
  bytes_eqb (MUL2 A) (MUL2 B) && bytes_eqb (MUL3 A) (MUL3 B) && bytes_eqb (MUL9 A) (MUL9 B) &&
  bytes_eqb (MUL11 A) (MUL11 B) && bytes_eqb (MUL13 A) (MUL13 B) && bytes_eqb (MUL14 A) (MUL14 B) &&
  bytes_eqb (RCON A) (RCON B).

(* every table of the module is, entry by entry (256 each, 15 for _RCON), the FIPS-197 function *)
Definition tables_ok (T : tables) : bool := tables_eqb T spec_tables.

(* which table differs first (diagnostics for the check) *)
Definition first_bad (T : tables) : list nat :=
  map fst (filter (fun p => negb (snd p))
    (combine (seq 0 9)
      [bytes_eqb (SBOX T) (SBOX spec_tables); bytes_eqb (INV_SBOX T) (INV_SBOX spec_tables);
       bytes_eqb (MUL2 T) (MUL2 spec_tables); bytes_eqb (MUL3 T) (MUL3 spec_tables);
       bytes_eqb (MUL9 T) (MUL9 spec_tables); bytes_eqb (MUL11 T) (MUL11 spec_tables);
       bytes_eqb (MUL13 T) (MUL13 spec_tables); bytes_eqb (MUL14 T) (MUL14 spec_tables);
       bytes_eqb (RCON T) (RCON spec_tables)])).
