(* C16 — executable model of the repository's own e-mail logic (definitions only):
     mbox_email_extractor.py   MBOX_FROM_PATTERN / _split_mbox_messages (re-used from C03.Extract),
                               _unfold_header, decode_header_value, parse_email_address(es),
                               get_body_content, the Date fallback of parse_email_message
     eml_email_extractor.py    _read_eml_format field mapping over a mailparser result record
     data_types.py             EmailContent.__post_init__ / iterate_units / get_full_text /
                               iterate_supported_attachments (router = C07.Model)
   RFC 2047 / charset / base64 / quoted-printable decoding, address parsing and MIME parsing by the
   stdlib `email` package and by `mailparser` are ORACLES: inputs of the model, recorded from the real
   library in the correspondence.  The model follows the code as repaired by fixes/C16-*.patch. *)
From Coq Require Import ZArith List Bool.
From S2T Require Import Lib.PyStr C03.Lib C03.Extract C03.ProofsM.
From S2T Require C07.Model.
Import ListNotations.
Open Scope N_scope.

(* ================================================================== mbox: writer side *)
Definition LF : str := [10].
Definition CRLF : str := [13; 10].
Definition is_eol (e : str) : bool := str_eqb e LF || str_eqb e CRLF.

Definition not_nl (c : N) : bool := negb (N.eqb c NL).
(* a complete line: ends with \n and has no other \n *)
Definition is_line (l : str) : bool :=
  match rev l with
  | c :: r => N.eqb c NL && forallb not_nl r
  | [] => false
  end.

Definition is_crlf_char (c : N) : bool := N.eqb c CR || N.eqb c NL.
Definition ends_crlf (b : str) : bool := match rev b with c :: _ => is_crlf_char c | [] => false end.

(* a mailbox as a writer produces it: separator line, message bytes, line end, blank line *)
Definition bmsg := (str * str)%type.                 (* (separator line without its line end, message bytes) *)
Definition mbox_piece (eol : str) (m : bmsg) : str := fst m ++ eol ++ snd m ++ eol ++ eol.
Definition mbox_concat (eol : str) (msgs : list bmsg) : str := List.concat (map (mbox_piece eol) msgs).

(* no_body_line_matches_From, and the shape a message has after _split_mbox_messages' rstrip *)
Definition bmsg_ok (eol : str) (m : bmsg) : bool :=
  is_from_line (fst m ++ eol) && is_line (fst m ++ eol)
  && C03.Lib.nonempty (snd m) && negb (ends_crlf (snd m))
  && forallb (fun l => negb (is_from_line l)) (split_lines (snd m ++ eol ++ eol)).

Definition count_from_lines (data : str) : nat := List.length (filter is_from_line (split_lines data)).

(* mboxrd quoting of one line:  ^>*From  gets one more '>' *)
Definition GT : N := 62.
Definition is_quoted_from (l : str) : bool := startswith (dropWhile (N.eqb GT) l) (s "From ").
Definition esc_line (l : str) : str := if is_quoted_from l then GT :: l else l.
Definition unesc_line (l : str) : str :=
  match l with
  | c :: r => if N.eqb c GT && is_quoted_from r then r else l
  | [] => l
  end.
Definition esc_msg (m : mbox_msg) : mbox_msg := (fst m, map esc_line (snd m)).
Definition lines_ok (m : mbox_msg) : bool := is_from_line (fst m) && is_line (fst m) && forallb is_line (snd m).
Definition mbox_file (msgs : list mbox_msg) : str := List.concat (flat msgs).
Definition split_result (msgs : list mbox_msg) : list str :=
  filter C03.Lib.nonempty (map rstrip_crlf (bodies msgs)).

(* ================================================================== header unfolding (_unfold_header) *)
Definition is_wsp (c : N) : bool := N.eqb c 32 || N.eqb c 9.
(* re.sub(r"\r?\n(?=[ \t])", "", v) *)
Fixpoint unfold (v : str) : str :=
  match v with
  | [] => []
  | c :: r =>
      let keep := c :: unfold r in
      if N.eqb c CR then
        match r with
        | n :: ((w :: _) as t) => if N.eqb n NL && is_wsp w then unfold t else keep
        | _ => keep
        end
      else if N.eqb c NL then
        match r with
        | w :: _ => if is_wsp w then unfold r else keep
        | [] => keep
        end
      else keep
  end.

Definition no_crlf (x : str) : bool := forallb (fun c => negb (is_crlf_char c)) x.
Definition starts_wsp (x : str) : bool := match x with c :: _ => is_wsp c | [] => false end.
Definition fold_with (eol : str) (first : str) (conts : list str) : str :=
  first ++ List.concat (map (fun c => eol ++ c) conts).

(* ================================================================== decode_header_value *)
Inductive dres := DOk (t : str) | DLookupError | DUnicodeError.
(* one element of email.header.decode_header(value) *)
Inductive hpart :=
| HBytes (b : str) (charset : option str)
| HStr (t : str).

Definition UTF8 : str := s "utf-8".

Section Header.
  Variable decode_header : str -> list hpart.       (* email.header.decode_header *)
  Variable decode : str -> str -> dres.             (* bytes.decode(charset, errors="replace") *)
  Variable utf8_replace : str -> str.               (* bytes.decode("utf-8", errors="replace"): total *)

  Definition charset_or_utf8 (c : option str) : str :=
    match c with Some x => if C03.Lib.nonempty x then x else UTF8 | None => UTF8 end.

  Definition decode_fallback (b : str) (c : option str) : str :=
    match decode b (charset_or_utf8 c) with
    | DOk t => t
    | DLookupError | DUnicodeError => utf8_replace b
    end.

  Definition part_text (p : hpart) : str :=
    match p with
    | HBytes b c => decode_fallback b c
    | HStr t => t
    end.

  (* value = None is modelled as "" (both are falsy) *)
  Definition decode_header_value (value : str) : str :=
    if C03.Lib.nonempty value then List.concat (map part_text (decode_header (unfold value))) else [].

  (* ---------------------------------------------------------------- addresses *)
  Variable getaddresses : str -> list (str * str).  (* email.utils.getaddresses([v]) / parseaddr *)

  (* the loop of parse_email_addresses *)
  Fixpoint addr_loop (l : list (str * str)) (acc : list (str * str)) : list (str * str) :=
    match l with
    | [] => acc
    | (n, a) :: r => if C03.Lib.nonempty a then addr_loop r (acc ++ [(decode_header_value n, a)]) else addr_loop r acc
    end.
  Definition parse_email_addresses (v : str) : list (str * str) :=
    if C03.Lib.nonempty v then addr_loop (getaddresses (unfold v)) [] else [].
  Definition parse_email_address (v : str) : str * str :=
    if C03.Lib.nonempty v then
      match getaddresses (unfold v) with
      | (n, a) :: _ => (decode_header_value n, a)
      | [] => ([], [])
      end
    else ([], []).
End Header.

(* the Date header: parsedate_to_datetime(...).isoformat(), "" when it raises TypeError/ValueError *)
Definition date_field (parsed : option str) : str := match parsed with Some d => d | None => [] end.

(* ================================================================== get_body_content *)
(* one node of the parsed MIME tree: get_content_type(), str(part.get("Content-Disposition", "")),
   bool(get_payload(decode=True)), the payload decoded with the declared charset / utf-8 fallback
   (decode_fallback above; recorded), sub-parts (get_payload() when is_multipart()) *)
Inductive part := Part (ctype disp : str) (has_payload : bool) (text : str) (kids : list part).

Definition p_ctype (p : part) := match p with Part c _ _ _ _ => c end.
Definition p_disp (p : part) := match p with Part _ d _ _ _ => d end.
Definition p_has (p : part) := match p with Part _ _ h _ _ => h end.
Definition p_text (p : part) := match p with Part _ _ _ t _ => t end.
Definition p_kids (p : part) := match p with Part _ _ _ _ k => k end.

(* email.message.Message.walk(): pre-order *)
Fixpoint walk (p : part) : list part :=
  match p with Part _ _ _ _ ks => p :: flat_map walk ks end.

Fixpoint contains (x sub : str) : bool :=
  startswith x sub || match x with [] => false | _ :: r => contains r sub end.

Definition TEXT_PLAIN : str := s "text/plain".
Definition TEXT_HTML : str := s "text/html".
Definition is_attachment (p : part) : bool := contains (p_disp p) (s "attachment").

Definition body_step (st : str * str) (p : part) : str * str :=
  let '(bp, bh) := st in
  if is_attachment p then st
  else if str_eqb (p_ctype p) TEXT_PLAIN && negb (C03.Lib.nonempty bp) then
    (if p_has p then (p_text p, bh) else st)
  else if str_eqb (p_ctype p) TEXT_HTML && negb (C03.Lib.nonempty bh) then
    (if p_has p then (bp, p_text p) else st)
  else st.

Definition get_body_content (multipart : bool) (root : part) : str * str :=
  if multipart then fold_left body_step (walk root) ([], [])
  else if p_has root then
    (if str_eqb (p_ctype root) TEXT_HTML then ([], p_text root) else (p_text root, []))
  else ([], []).

(* declarative specification: the first eligible part in document order *)
Definition eligible (ct : str) (p : part) : bool :=
  negb (is_attachment p) && str_eqb (p_ctype p) ct && p_has p && C03.Lib.nonempty (p_text p).
Definition first_text (ct : str) (root : part) : str :=
  match find (eligible ct) (walk root) with Some p => p_text p | None => [] end.

(* proper descendants *)
Definition below (p : part) : list part := flat_map walk (p_kids p).

(* ================================================================== EmailContent *)
Record email := mkEmail { e_subject : str; e_plain : str; e_html : str }.
(* the constructor followed by __post_init__ *)
Definition new_email (subject plain html : str) : email := mkEmail (strip subject) (strip plain) html.

Definition BT_PLAIN : str := s "plain".
Definition BT_HTML : str := s "html".
Definition BT_EMPTY : str := s "empty".
(* iterate_units: (text, body_type) *)
Definition email_units (e : email) : list (str * str) :=
  if C03.Lib.nonempty (e_plain e) then [(e_plain e, BT_PLAIN)]
  else if C03.Lib.nonempty (e_html e) then [(e_html e, BT_HTML)]
  else [([], BT_EMPTY)].
Definition email_full_text (e : email) : str := strip (joinNL (map fst (email_units e))).

(* ================================================================== attachments *)
Record attachment := mkAtt { a_name : str; a_mime : str; a_data : str; a_flag : bool }.

Inductive choice := Choose (e : C07.Model.extractor) | Skip | RaiseNotSupported.

Inductive fin := FDone | FFailed | FEncrypted.       (* extractor generator: exhausted | other exception | ExtractionFileEncryptedError *)
Inductive outcome := Completed | RaisedEncrypted | RaisedNotSupported.

Definition ATTACHMENT_DOT : str := s "attachment.".

Section Attachments.
  Variable T : C07.Model.tables.
  Variable lower : str -> str.                       (* str.lower *)
  Variable mime : str -> option str.                 (* mimetypes.guess_type *)

  Definition route (p : str) : C07.Model.outcome := C07.Model.get_extractor T lower mime p.

  (* mime_types.is_supported_mime_type *)
  Definition is_supported_mime_type (m : str) : bool := C03.Lib.nonempty m && has_key m (C07.Model.mime_map T).

  (* iterate_supported_attachments: which extractor (repaired code: the file name decides first, then the MIME type) *)
  Definition choose (a : attachment) : choice :=
    match route (a_name a) with
    | C07.Model.Extractor e => Choose e
    | C07.Model.NotSupported =>
        match assoc (a_mime a) (C07.Model.mime_map T) with
        | Some ft =>
            if C03.Lib.nonempty ft then
              match route (ATTACHMENT_DOT ++ ft) with
              | C07.Model.Extractor e => Choose e
              | C07.Model.NotSupported => RaiseNotSupported
              end
            else Skip
        | None => Skip
        end
    end.

  (* the code before fixes/C16-attachment-by-name.patch: gated on the MIME flag first *)
  Definition choose_unrepaired (a : attachment) : choice := if a_flag a then choose a else Skip.

  Variable R : Type.
  Variable run : C07.Model.extractor -> str -> str -> list R * fin.     (* extractor(data, filename): yielded results, how it ended *)

  Section Iter.
    Variable ch : attachment -> choice.
    Fixpoint iter_atts (l : list attachment) : list R * outcome :=
      match l with
      | [] => ([], Completed)
      | a :: r =>
          match ch a with
          | Skip => iter_atts r
          | RaiseNotSupported => ([], RaisedNotSupported)
          | Choose e =>
              let '(rs, f) := run e (a_data a) (a_name a) in
              match f with
              | FEncrypted => (rs, RaisedEncrypted)
              | _ => let '(rs', o) := iter_atts r in (rs ++ rs', o)
              end
          end
      end.
  End Iter.

  Definition iterate_supported_attachments := iter_atts choose.
  Definition iterate_supported_attachments_unrepaired := iter_atts choose_unrepaired.

  (* the attached file on its own: read_file(<name>) over the same bytes *)
  Definition alone (name data : str) : option (list R * fin) :=
    match route name with
    | C07.Model.Extractor e => Some (run e data name)
    | C07.Model.NotSupported => None
    end.

  (* what one attachment contributes when nothing raises *)
  Definition contribution (a : attachment) : list R :=
    match choose a with Choose e => fst (run e (a_data a) (a_name a)) | _ => [] end.
  Definition quiet (a : attachment) : bool :=
    match choose a with
    | Choose e => match snd (run e (a_data a) (a_name a)) with FEncrypted => false | _ => true end
    | Skip => true
    | RaiseNotSupported => false
    end.
End Attachments.

(* every MIME-table entry leads to an extractor through the "attachment.<type>" fallback, whatever the
   MIME database (decided for today's tables in Inst.v with the identity as `lower`: the fallback path is
   ASCII lower case already) *)
Definition mime_fallback_ok (T : C07.Model.tables) : bool :=
  forallb (fun mf =>
    C03.Lib.nonempty (snd mf) &&
    match C07.Model.file_type_from_extension T (ATTACHMENT_DOT ++ snd mf) with
    | Some ft => C03.Lib.nonempty ft && has_key ft (C07.Model.registry T)
    | None => false
    end) (C07.Model.mime_map T).

(* ================================================================== _read_eml_format (mailparser result -> fields) *)
Record mp_attachment := mkMpAtt { mp_filename : str; mp_ctype : str }.   (* "" = missing / None *)
Definition ATTACHMENT_NAME : str := s "attachment".
Definition OCTET_STREAM : str := s "application/octet-stream".
Definition or_default (x d : str) : str := if C03.Lib.nonempty x then x else d.

(* (filename, mime_type, is_supported_mime_type) of the EmailAttachment built for one mailparser attachment *)
Definition eml_attachment (T : C07.Model.tables) (a : mp_attachment) : str * str * bool :=
  let fn := or_default (mp_filename a) ATTACHMENT_NAME in
  let mt := or_default (mp_ctype a) OCTET_STREAM in
  (fn, mt, C03.Lib.nonempty mt && has_key mt (C07.Model.mime_map T)).

(* cc / bcc / reply_to: `if t and len(t) > 1 and t[1]`; to: unfiltered *)
Definition eml_filter (l : list (str * str)) : list (str * str) := filter (fun t => C03.Lib.nonempty (snd t)) l.
(* text_plain / text_html: "\n".join(list) *)
Definition eml_body (parts : list str) : str := joinNL parts.
