(* C16 — executable model of the repository's own e-mail logic (definitions only):
     mbox_email_extractor.py   MBOX_FROM_PATTERN / _split_mbox_messages (re-used from C03.Extract),
                               _unfold_header, decode_header_value, parse_email_address(es),
                               get_body_content_joined, the Date fallback of parse_email_message
     eml_email_extractor.py    _read_eml_format field mapping over a mailparser result record
     data_types.py             EmailContent.__post_init__ / iterate_units / get_full_text /
                               iterate_supported_attachments (router = C07.Model)
   RFC 2047 / charset / base64 / quoted-printable decoding, address parsing and MIME parsing by the
   stdlib `email` package and by `mailparser` are ORACLES: inputs of the model, recorded from the real
   library in the correspondence.  The model follows the code as repaired by fixes/C16-*.patch. *)
From Coq Require Import ZArith List Bool.
From S2T Require Import Lib.PyStr C03.Lib C03.Extract C03.ProofsM.
From S2T Require C07.Model.
Import ListNotations.
Open Scope N_scope.

(* ================================================================== mbox: writer side *)
Definition LF : str := [10].
Definition CRLF : str := [13; 10].
Definition is_eol (e : str) : bool := str_eqb e LF || str_eqb e CRLF.

Definition not_nl (c : N) : bool := negb (N.eqb c NL).
(* a complete line: ends with \n and has no other \n *)
Definition is_line (l : str) : bool :=
  match rev l with
  | c :: r => N.eqb c NL && forallb not_nl r
  | [] => false
  end.

Definition is_crlf_char (c : N) : bool := N.eqb c CR || N.eqb c NL.
Definition ends_crlf (b : str) : bool := match rev b with c :: _ => is_crlf_char c | [] => false end.

(* a mailbox as a writer produces it: separator line, message bytes, line end, blank line *)
Definition bmsg := (str * str)%type.                 (* (separator line without its line end, message bytes) *)
Definition mbox_piece (eol : str) (m : bmsg) : str := fst m ++ eol ++ snd m ++ eol ++ eol.
Definition mbox_concat (eol : str) (msgs : list bmsg) : str := List.concat (map (mbox_piece eol) msgs).

(* no_body_line_matches_From, and the shape a message has after _split_mbox_messages' rstrip *)
Definition bmsg_ok (eol : str) (m : bmsg) : bool :=
  is_from_line (fst m ++ eol) && is_line (fst m ++ eol)
  && C03.Lib.nonempty (snd m) && negb (ends_crlf (snd m))
  && forallb (fun l => negb (is_from_line l)) (split_lines (snd m ++ eol ++ eol)).

Definition count_from_lines (data : str) : nat := List.length (filter is_from_line (split_lines data)).

(* mboxrd quoting of one line:  ^>*From  gets one more '>' *)
Definition GT : N := 62.
Definition is_quoted_from (l : str) : bool := startswith (dropWhile (N.eqb GT) l) (s "From ").
Definition esc_line (l : str) : str := if is_quoted_from l then GT :: l else l.
Definition unesc_line (l : str) : str :=
  match l with
  | c :: r => if N.eqb c GT && is_quoted_from r then r else l
  | [] => l
  end.
Definition esc_msg (m : mbox_msg) : mbox_msg := (fst m, map esc_line (snd m)).
Definition lines_ok (m : mbox_msg) : bool := is_from_line (fst m) && is_line (fst m) && forallb is_line (snd m).
Definition mbox_file (msgs : list mbox_msg) : str := List.concat (flat msgs).
Definition split_result (msgs : list mbox_msg) : list str :=
  filter C03.Lib.nonempty (map rstrip_crlf (bodies msgs)).

(* ALTERNATIVE (not the code at HEAD): _split_mbox_messages as fixes/proposed-not-applied/C16-mbox-unquote-from.patch would make it: MBOXRD_QUOTED_FROM_PATTERN.sub(rb"\1", chunk)
   (one ">" removed from every line matching ^>+From ), then rstrip(b"\r\n").  C03.Extract.split_mbox_messages is the
   code at HEAD. *)
Definition unquote_bytes (b : str) : str := List.concat (map unesc_line (split_lines b)).
Definition split_mbox_messages_rd (data : str) : list str :=
  filter C03.Lib.nonempty (map (fun c => rstrip_crlf (unquote_bytes c)) (mbox_collect (split_lines data) false [])).
(* a message none of whose lines is a quoted From_ line is left alone by the unquoting *)
Definition unquote_fixed (b : str) : bool := forallb (fun l => str_eqb (unesc_line l) l) (split_lines b).
Definition bmsg_ok_rd (eol : str) (m : bmsg) : bool := bmsg_ok eol m && unquote_fixed (snd m ++ eol ++ eol).

(* ================================================================== header unfolding (_unfold_header) *)
Definition is_wsp (c : N) : bool := N.eqb c 32 || N.eqb c 9.
(* re.sub(r"\r?\n(?=[ \t])", "", v) *)
Fixpoint unfold (v : str) : str :=
  match v with
  | [] => []
  | c :: r =>
      let keep := c :: unfold r in
      if N.eqb c CR then
        match r with
        | n :: ((w :: _) as t) => if N.eqb n NL && is_wsp w then unfold t else keep
        | _ => keep
        end
      else if N.eqb c NL then
        match r with
        | w :: _ => if is_wsp w then unfold r else keep
        | [] => keep
        end
      else keep
  end.

Definition no_crlf (x : str) : bool := forallb (fun c => negb (is_crlf_char c)) x.
Definition starts_wsp (x : str) : bool := match x with c :: _ => is_wsp c | [] => false end.
Definition fold_with (eol : str) (first : str) (conts : list str) : str :=
  first ++ List.concat (map (fun c => eol ++ c) conts).

(* ================================================================== decode_header_value *)
Inductive dres := DOk (t : str) | DLookupError | DUnicodeError.
(* one element of email.header.decode_header(value) *)
Inductive hpart :=
| HBytes (b : str) (charset : option str)
| HStr (t : str).

Definition UTF8 : str := s "utf-8".

Section Header.
  Variable decode_header : str -> list hpart.       (* email.header.decode_header *)
  Variable decode : str -> str -> dres.             (* bytes.decode(charset, errors="replace") *)
  Variable utf8_replace : str -> str.               (* bytes.decode("utf-8", errors="replace"): total *)

  Definition charset_or_utf8 (c : option str) : str :=
    match c with Some x => if C03.Lib.nonempty x then x else UTF8 | None => UTF8 end.

  Definition decode_fallback (b : str) (c : option str) : str :=
    match decode b (charset_or_utf8 c) with
    | DOk t => t
    | DLookupError | DUnicodeError => utf8_replace b
    end.

  Definition part_text (p : hpart) : str :=
    match p with
    | HBytes b c => decode_fallback b c
    | HStr t => t
    end.

  (* value = None is modelled as "" (both are falsy) *)
  Definition decode_header_value (value : str) : str :=
    if C03.Lib.nonempty value then List.concat (map part_text (decode_header (unfold value))) else [].

  (* ---------------------------------------------------------------- addresses *)
  Variable getaddresses : str -> list (str * str).  (* email.utils.getaddresses([v]) / parseaddr *)

  (* the loop of parse_email_addresses *)
  Fixpoint addr_loop (l : list (str * str)) (acc : list (str * str)) : list (str * str) :=
    match l with
    | [] => acc
    | (n, a) :: r => if C03.Lib.nonempty a then addr_loop r (acc ++ [(decode_header_value n, a)]) else addr_loop r acc
    end.
  Definition parse_email_addresses (v : str) : list (str * str) :=
    if C03.Lib.nonempty v then addr_loop (getaddresses (unfold v)) [] else [].
  Definition parse_email_address (v : str) : str * str :=
    if C03.Lib.nonempty v then
      match getaddresses (unfold v) with
      | (n, a) :: _ => (decode_header_value n, a)
      | [] => ([], [])
      end
    else ([], []).
End Header.

(* the Date header: parsedate_to_datetime(...).isoformat(), "" when it raises TypeError/ValueError *)
Definition date_field (parsed : option str) : str := match parsed with Some d => d | None => [] end.

(* ================================================================== get_body_content_joined / get_attachments_joined *)
(* one node of the parsed MIME tree: get_content_type(), str(part.get("Content-Disposition", "")), get_filename() ("" =
   None), decode_header_value(get_filename()), is_multipart(), bool(get_payload(decode=True)), the payload decoded
   with the declared charset / utf-8 fallback (_decode_text_payload; recorded), sub-parts *)
Inductive part := Part (ctype disp fname dname : str) (multi has_payload : bool) (text : str) (kids : list part).

Definition p_ctype (p : part) := match p with Part c _ _ _ _ _ _ _ => c end.
Definition p_disp (p : part) := match p with Part _ d _ _ _ _ _ _ => d end.
Definition p_fname (p : part) := match p with Part _ _ f _ _ _ _ _ => f end.
Definition p_dname (p : part) := match p with Part _ _ _ n _ _ _ _ => n end.
Definition p_multi (p : part) := match p with Part _ _ _ _ m _ _ _ => m end.
Definition p_has (p : part) := match p with Part _ _ _ _ _ h _ _ => h end.
Definition p_text (p : part) := match p with Part _ _ _ _ _ _ t _ => t end.
Definition p_kids (p : part) := match p with Part _ _ _ _ _ _ _ k => k end.

(* email.message.Message.walk(): pre-order *)
Fixpoint walk (p : part) : list part :=
  match p with Part _ _ _ _ _ _ _ ks => p :: flat_map walk ks end.

Fixpoint contains (x sub : str) : bool :=
  startswith x sub || match x with [] => false | _ :: r => contains r sub end.

Definition TEXT_PLAIN : str := s "text/plain".
Definition TEXT_HTML : str := s "text/html".
(* _is_attachment_part *)
Definition att_fields (disp fname : str) : bool := contains disp (s "attachment") || C03.Lib.nonempty fname.
Definition is_attachment_joined (p : part) : bool := att_fields (p_disp p) (p_fname p).

(* _classify_parts: an attachment is never descended into *)
Fixpoint inline_parts (p : part) : list part :=
  match p with
  | Part _ d f _ multi _ _ ks =>
      if att_fields d f then [] else if multi then flat_map inline_parts ks else [p]
  end.
Fixpoint attachment_parts (p : part) : list part :=
  match p with
  | Part _ d f _ multi _ _ ks =>
      if att_fields d f then [p] else if multi then flat_map attachment_parts ks else []
  end.

(* the loop of get_body_content_joined: (plain_parts, html_parts) *)
Definition body_step_joined (single : bool) (st : list str * list str) (p : part) : list str * list str :=
  let '(pl, ht) := st in
  if str_eqb (p_ctype p) TEXT_HTML then (if p_has p then (pl, ht ++ [p_text p]) else st)
  else if str_eqb (p_ctype p) TEXT_PLAIN || single then (if p_has p then (pl ++ [p_text p], ht) else st)
  else st.

Definition get_body_content_joined (root : part) : str * str :=
  let '(pl, ht) := fold_left (body_step_joined (negb (p_multi root))) (inline_parts root) ([], []) in
  (joinNL pl, joinNL ht).

(* declarative specification *)
Definition sel_html (p : part) : bool := str_eqb (p_ctype p) TEXT_HTML && p_has p.
Definition sel_plain (single : bool) (p : part) : bool :=
  negb (str_eqb (p_ctype p) TEXT_HTML) && (str_eqb (p_ctype p) TEXT_PLAIN || single) && p_has p.
Definition body_spec_joined (root : part) : str * str :=
  (joinNL (map p_text (filter (sel_plain (negb (p_multi root))) (inline_parts root))),
   joinNL (map p_text (filter sel_html (inline_parts root)))).

(* one-hole contexts: plug ctx p puts p into the innermost frame first *)
(* a frame is a multipart container (only those have sub-parts) *)
Record frame := mkFrame { f_ctype : str; f_disp : str; f_fname : str; f_dname : str; f_has : bool;
                          f_text : str; f_left : list part; f_right : list part }.
Fixpoint plug (ctx : list frame) (p : part) : part :=
  match ctx with
  | [] => p
  | f :: ctx' => plug ctx' (Part (f_ctype f) (f_disp f) (f_fname f) (f_dname f) true (f_has f) (f_text f)
                                 (f_left f ++ p :: f_right f))
  end.

(* get_attachments_joined: (filename, mime_type) of the EmailAttachment built for one attachment part; the bytes are the
   decoded payload / the attached message's bytes (oracle) *)
Definition ATTACHMENT_NAME : str := s "attachment".
Definition or_default (x d : str) : str := if C03.Lib.nonempty x then x else d.
Definition mbox_attachment (p : part) : str * str := (or_default (p_dname p) ATTACHMENT_NAME, p_ctype p).
Definition get_attachments_joined (root : part) : list (str * str) := map mbox_attachment (attachment_parts root).

(* ---- the code at HEAD *)
Definition is_attachment (p : part) : bool := contains (p_disp p) (s "attachment").
(* declarative specification of the HEAD rule: the first eligible part in document order *)
Definition eligible (ct : str) (p : part) : bool :=
  negb (is_attachment p) && str_eqb (p_ctype p) ct && p_has p && C03.Lib.nonempty (p_text p).
Definition first_text (ct : str) (root : part) : str :=
  match find (eligible ct) (walk root) with Some p => p_text p | None => [] end.

(* get_body_content at HEAD (fixes/proposed-not-applied/C16-mbox-body-and-attachments.patch would replace it by get_body_content_joined): first text/plain / text/html part of walk(), parts
   disposed as attachment skipped but still descended into; non-multipart messages: the single payload *)
Definition body_step (st : str * str) (p : part) : str * str :=
  let '(bp, bh) := st in
  if is_attachment p then st
  else if str_eqb (p_ctype p) TEXT_PLAIN && negb (C03.Lib.nonempty bp) then
    (if p_has p then (p_text p, bh) else st)
  else if str_eqb (p_ctype p) TEXT_HTML && negb (C03.Lib.nonempty bh) then
    (if p_has p then (bp, p_text p) else st)
  else st.
Definition get_body_content (root : part) : str * str :=
  if p_multi root then fold_left body_step (walk root) ([], [])
  else if p_has root then
    (if str_eqb (p_ctype root) TEXT_HTML then ([], p_text root) else (p_text root, []))
  else ([], []).
Definition below (p : part) : list part := flat_map walk (p_kids p).

(* ================================================================== EmailContent *)
Record email := mkEmail { e_subject : str; e_plain : str; e_html : str }.
(* the constructor followed by __post_init__ *)
Definition new_email (subject plain html : str) : email := mkEmail (strip subject) (strip plain) html.

Definition BT_PLAIN : str := s "plain".
Definition BT_HTML : str := s "html".
Definition BT_EMPTY : str := s "empty".
(* iterate_units: (text, body_type) *)
Definition email_units (e : email) : list (str * str) :=
  if C03.Lib.nonempty (e_plain e) then [(e_plain e, BT_PLAIN)]
  else if C03.Lib.nonempty (e_html e) then [(e_html e, BT_HTML)]
  else [([], BT_EMPTY)].
Definition email_full_text (e : email) : str := strip (joinNL (map fst (email_units e))).

(* ================================================================== attachments *)
Record attachment := mkAtt { a_name : str; a_mime : str; a_data : str; a_flag : bool }.

Inductive choice := Choose (e : C07.Model.extractor) | Skip | RaiseNotSupported.

Inductive fin := FDone | FFailed | FEncrypted.       (* extractor generator: exhausted | other exception | ExtractionFileEncryptedError *)
Inductive outcome := Completed | RaisedEncrypted | RaisedNotSupported.

Definition ATTACHMENT_DOT : str := s "attachment.".

Section Attachments.
  Variable T : C07.Model.tables.
  Variable lower : str -> str.                       (* str.lower *)
  Variable mime : str -> option str.                 (* mimetypes.guess_type *)

  Definition route (p : str) : C07.Model.outcome := C07.Model.get_extractor T lower mime p.

  (* mime_types.is_supported_mime_type *)
  Definition is_supported_mime_type (m : str) : bool := C03.Lib.nonempty m && has_key m (C07.Model.mime_map T).

  (* iterate_supported_attachments: which extractor (repaired code: the file name decides first, then the MIME type) *)
  Definition choose (a : attachment) : choice :=
    match route (a_name a) with
    | C07.Model.Extractor e => Choose e
    | C07.Model.NotSupported =>
        match assoc (a_mime a) (C07.Model.mime_map T) with
        | Some ft =>
            if C03.Lib.nonempty ft then
              match route (ATTACHMENT_DOT ++ ft) with
              | C07.Model.Extractor e => Choose e
              | C07.Model.NotSupported => RaiseNotSupported
              end
            else Skip
        | None => Skip
        end
    end.

  (* the code before fixes/C16-attachment-by-name.patch: gated on the MIME flag first *)
  Definition choose_unrepaired (a : attachment) : choice := if a_flag a then choose a else Skip.

  Variable R : Type.
  Variable run : C07.Model.extractor -> str -> str -> list R * fin.     (* extractor(data, filename): yielded results, how it ended *)

  Section Iter.
    Variable ch : attachment -> choice.
    Fixpoint iter_atts (l : list attachment) : list R * outcome :=
      match l with
      | [] => ([], Completed)
      | a :: r =>
          match ch a with
          | Skip => iter_atts r
          | RaiseNotSupported => ([], RaisedNotSupported)
          | Choose e =>
              let '(rs, f) := run e (a_data a) (a_name a) in
              match f with
              | FEncrypted => (rs, RaisedEncrypted)
              | _ => let '(rs', o) := iter_atts r in (rs ++ rs', o)
              end
          end
      end.
  End Iter.

  Definition iterate_supported_attachments := iter_atts choose.
  Definition iterate_supported_attachments_unrepaired := iter_atts choose_unrepaired.

  (* the attached file on its own: read_file(<name>) over the same bytes *)
  Definition alone (name data : str) : option (list R * fin) :=
    match route name with
    | C07.Model.Extractor e => Some (run e data name)
    | C07.Model.NotSupported => None
    end.

  (* what one attachment contributes when nothing raises *)
  Definition contribution (a : attachment) : list R :=
    match choose a with Choose e => fst (run e (a_data a) (a_name a)) | _ => [] end.
  Definition quiet (a : attachment) : bool :=
    match choose a with
    | Choose e => match snd (run e (a_data a) (a_name a)) with FEncrypted => false | _ => true end
    | Skip => true
    | RaiseNotSupported => false
    end.
End Attachments.

(* every MIME-table entry leads to an extractor through the "attachment.<type>" fallback, whatever the
   MIME database (decided for today's tables in Inst.v with the identity as `lower`: the fallback path is
   ASCII lower case already) *)
Definition mime_fallback_ok (T : C07.Model.tables) : bool :=
  forallb (fun mf =>
    C03.Lib.nonempty (snd mf) &&
    match C07.Model.file_type_from_extension T (ATTACHMENT_DOT ++ snd mf) with
    | Some ft => C03.Lib.nonempty ft && has_key ft (C07.Model.registry T)
    | None => false
    end) (C07.Model.mime_map T).

(* ================================================================== _read_eml_format (mailparser result -> fields) *)
Record mp_attachment := mkMpAtt { mp_filename : str; mp_ctype : str }.   (* "" = missing / None *)
Definition OCTET_STREAM : str := s "application/octet-stream".

(* (filename, mime_type, is_supported_mime_type) of the EmailAttachment built for one mailparser attachment *)
Definition eml_attachment (T : C07.Model.tables) (a : mp_attachment) : str * str * bool :=
  let fn := or_default (mp_filename a) ATTACHMENT_NAME in
  let mt := or_default (mp_ctype a) OCTET_STREAM in
  (fn, mt, C03.Lib.nonempty mt && has_key mt (C07.Model.mime_map T)).

(* the attachment loop of _read_eml_format: ONE EmailAttachment per mailparser attachment record, in order, whatever the
   payload is (zero bytes included) *)
Definition eml_attachments (T : C07.Model.tables) (recs : list mp_attachment) : list (str * str * bool) :=
  map (eml_attachment T) recs.

(* cc / bcc / reply_to: `if t and len(t) > 1 and t[1]`; to: unfiltered *)
Definition eml_filter (l : list (str * str)) : list (str * str) := filter (fun t => C03.Lib.nonempty (snd t)) l.
(* text_plain / text_html: "\n".join(list) *)
Definition eml_body (parts : list str) : str := joinNL parts.

(* ================================================================== msg_email_extractor.py (msg_parser/olefile are oracles) *)
Definition LT : N := 60.
Definition not_gt (c : N) : bool := negb (N.eqb c GT).
Definition not_lt (c : N) : bool := negb (N.eqb c LT).
Definition is_quote_char (c : N) : bool := N.eqb c 34 || N.eqb c 39.
(* x.strip(QUOTES) with QUOTES = the double and the single quote character *)
Definition strip_quotes (x : str) : str := rev (dropWhile is_quote_char (rev (dropWhile is_quote_char x))).

(* re.search(r"<([^>]+)>\s*$", raw) on a stripped, non-empty raw: the match ends at the final ">", starts at the
   first "<" after the last other ">", and needs at least one character in between: Some (raw[:start], group 1) *)
Definition angle_match (raw : str) : option (str * str) :=
  match rev raw with
  | c :: rbody =>
      if N.eqb c GT then
        let tail := rev (takeWhile not_gt rbody) in
        let pre := rev (dropWhile not_gt rbody) in
        match dropWhile not_lt tail with
        | _lt :: addr => if C03.Lib.nonempty addr then Some (pre ++ takeWhile not_lt tail, addr) else None
        | [] => None
        end
      else None
  | [] => None
  end.

Definition AT : N := 64.
Definition SP : N := 32.
Definition mem_char (c : N) (x : str) : bool := existsb (N.eqb c) x.

(* _parse_single_recipient: None | Some (name, address) *)
Definition parse_single_recipient (raw0 : str) : option (str * str) :=
  let raw := strip raw0 in
  if C03.Lib.nonempty raw then
    match angle_match raw with
    | Some (before, addr) => Some (strip_quotes (strip before), strip addr)
    | None =>
        if mem_char AT raw && negb (mem_char SP raw) then Some ([], raw) else Some (raw, [])
    end
  else None.

(* re.split(r"[;,]", raw) *)
Definition is_sep (c : N) : bool := N.eqb c 59 || N.eqb c 44.
Fixpoint split_seps_acc (x cur : str) : list str :=
  match x with
  | [] => [rev cur]
  | c :: r => if is_sep c then rev cur :: split_seps_acc r [] else split_seps_acc r (c :: cur)
  end.
Definition split_seps (x : str) : list str := split_seps_acc x [].

Definition keep_recipient (o : option (str * str)) : list (str * str) :=
  match o with
  | Some (n, a) => if C03.Lib.nonempty n || C03.Lib.nonempty a then [(n, a)] else []
  | None => []
  end.
(* _parse_multi_recipients on one string; on a list: the concatenation *)
Definition parse_multi_recipients (raw : str) : list (str * str) :=
  if C03.Lib.nonempty raw then flat_map (fun p => keep_recipient (parse_single_recipient p)) (split_seps raw) else [].
Definition parse_multi_recipients_list (l : list str) : list (str * str) := flat_map parse_multi_recipients l.

(* _looks_like_html; `lowered` = text.lstrip().lower() is recorded (str.lower is an oracle); the hint regex
   <(html|head|body|p|div|br|span|table|tr|td|style|script)(\s|>) with IGNORECASE is modelled for ASCII case folding *)
Definition ascii_lower (c : N) : N := if (65 <=? c) && (c <=? 90) then c + 32 else c.
Definition HINT_TAGS : list str :=
  [s "html"; s "head"; s "body"; s "p"; s "div"; s "br"; s "span"; s "table"; s "tr"; s "td"; s "style"; s "script"].
Definition hint_at (x : str) : bool :=        (* the regex anchored at the head of x *)
  match x with
  | c :: r =>
      N.eqb c LT &&
      existsb (fun tag =>
        startswith (map ascii_lower r) tag &&
        match skipn (List.length tag) r with
        | d :: _ => is_space d || N.eqb d GT
        | [] => false
        end) HINT_TAGS
  | [] => false
  end.
Fixpoint hint_search (x : str) : bool :=
  hint_at x || match x with [] => false | _ :: r => hint_search r end.
Definition looks_like_html (text lowered : str) : bool :=
  if C03.Lib.nonempty text then
    startswith lowered (s "<!doctype") || contains lowered (s "<html") || contains lowered (s "<body") || hint_search text
  else false.

(* body selection of read_msg_format_mail (then __post_init__): html_to_text is an oracle *)
Definition msg_bodies (html_to_text : str -> str) (lowered raw_body : str) : str * str :=
  if looks_like_html raw_body lowered then (strip (html_to_text raw_body), raw_body) else (strip raw_body, []).

(* sender: first parsed recipient or the empty address *)
Definition msg_sender (sender : list str) : str * str :=
  match parse_multi_recipients_list sender with x :: _ => x | [] => ([], []) end.

(* _extract_msg_attachments: (long name, short name, mime tag) of the k-th attachment storage (1-based, counting
   storages without data stream) -> (filename, mime_type); decimal k is supplied by the harness as a string *)
Definition ATTACHMENT_DASH : str := s "attachment-".
Definition msg_attachment (long short mime index_dec : str) : str * str :=
  (or_default long (or_default short (ATTACHMENT_DASH ++ index_dec)), or_default mime (s "application/octet-stream")).

(* ================================================================== more mailbox variants (writer side) *)
(* mboxo quoting: only lines starting with "From " get a ">" *)
Definition esc_o_line (l : str) : str := if startswith l (s "From ") then GT :: l else l.
Definition qmsg (f : str -> str) (m : mbox_msg) : mbox_msg := (fst m, map f (snd m)).
(* the shape MBOX_FROM_PATTERN accepts: "From ", a non-space, anything, four digits, optional CR, LF *)
Definition from_shape (a : N) (mid : str) (d1 d2 d3 d4 : N) (tail : str) : str :=
  s "From " ++ a :: mid ++ [d1; d2; d3; d4] ++ tail.
Definition line_end (t : str) : bool := str_eqb t [NL] || str_eqb t [CR; NL].
(* an MMDF mailbox: every message between two lines of four ^A *)
Definition MMDF_DELIM : str := [1; 1; 1; 1; 10].
Definition mmdf_concat (msgs : list bmsg) : str :=
  List.concat (map (fun m => MMDF_DELIM ++ fst m ++ LF ++ snd m ++ LF ++ MMDF_DELIM) msgs).

(* ================================================================== _read_eml_format: attachment data *)
(* attachment.get("payload"): a str, bytes, or missing/None;  `payload or b""` *)
Inductive mp_payload := PStr (t : str) | PBytes (b : str) | PNone.
Section EmlPayload.
  Variable b64decode : str -> str.            (* base64.b64decode on the text / bytes it is given *)
  Variable utf8_encode_ignore : str -> str.   (* str.encode("utf-8", errors="ignore") *)
  Definition eml_attachment_data (binary : bool) (p : mp_payload) : str :=
    let empty := if binary then b64decode [] else [] in
    match p with
    | PNone => empty
    | PStr t => if C03.Lib.nonempty t then (if binary then b64decode t else utf8_encode_ignore t) else empty
    | PBytes b => if C03.Lib.nonempty b then (if binary then b64decode b else b) else empty
    end.
End EmlPayload.

(* single-part body of get_body_content: the payload decoded with the declared charset, UTF-8 otherwise *)
Definition payload_text (decode : str -> str -> dres) (utf8_replace : str -> str) (payload : str) (charset : option str) : str :=
  if C03.Lib.nonempty payload then decode_fallback decode utf8_replace payload charset else [].
