(* C16 — body selection, header unfolding/decoding structure, addresses, EmailContent, attachments. *)
From Coq Require Import ZArith List Bool Lia.
From S2T Require Import Lib.PyStr C03.Lib C03.Extract C16.Model.
From S2T Require C07.Model C07.Proofs.
Import ListNotations.
Open Scope N_scope.

(* ------------------------------------------------------------------ HEAD: get_body_content = first eligible parts *)
Definition pick (cur : str) (ct : str) (l : list part) : str :=
  if C03.Lib.nonempty cur then cur
  else match find (eligible ct) l with Some p => p_text p | None => [] end.

Lemma plain_not_html c : str_eqb c TEXT_PLAIN = true -> str_eqb c TEXT_HTML = false.
Proof. intro H. apply str_eqb_eq in H. subst c. reflexivity. Qed.

Definition upd (cur ct : str) (p : part) : str :=
  if C03.Lib.nonempty cur then cur else if eligible ct p then p_text p else [].

Lemma body_step_upd bp bh p : body_step (bp, bh) p = (upd bp TEXT_PLAIN p, upd bh TEXT_HTML p).
Proof.
  destruct p as [c d f n m h t k]. unfold body_step, upd, eligible, is_attachment. cbn [p_ctype p_disp p_has p_text].
  destruct (contains d (s "attachment")); cbn [negb andb].
  { destruct bp; destruct bh; reflexivity. }
  destruct (str_eqb c TEXT_PLAIN) eqn:CP.
  - rewrite (plain_not_html _ CP). cbn [andb].
    destruct bp; destruct bh; destruct h; destruct t; reflexivity.
  - cbn [andb]. destruct (str_eqb c TEXT_HTML); cbn [andb];
      destruct bp; destruct bh; destruct h; destruct t; reflexivity.
Qed.

Lemma pick_cons cur ct p l : pick cur ct (p :: l) = pick (upd cur ct p) ct l.
Proof.
  unfold pick, upd. cbn [find]. destruct (C03.Lib.nonempty cur) eqn:N; [rewrite N; reflexivity|].
  destruct (eligible ct p) eqn:E.
  - unfold eligible in E. apply andb_true_iff in E as [_ NT]. rewrite NT. reflexivity.
  - reflexivity.
Qed.

Lemma body_fold l : forall bp bh,
  fold_left body_step l (bp, bh) = (pick bp TEXT_PLAIN l, pick bh TEXT_HTML l).
Proof.
  induction l as [|p l IH]; intros bp bh.
  - unfold pick. destruct bp; destruct bh; reflexivity.
  - cbn [fold_left]. rewrite body_step_upd, IH, !pick_cons. reflexivity.
Qed.

Lemma body_selection_spec root : p_multi root = true ->
  get_body_content root = (first_text TEXT_PLAIN root, first_text TEXT_HTML root).
Proof. intro M. unfold get_body_content. rewrite M, body_fold. reflexivity. Qed.

Lemma body_never_attachment ct root :
  first_text ct root = [] \/
  exists p, In p (walk root) /\ is_attachment p = false /\ p_ctype p = ct /\ p_has p = true /\ first_text ct root = p_text p.
Proof.
  unfold first_text. destruct (find (eligible ct) (walk root)) as [p|] eqn:F; [right | left; reflexivity].
  apply find_some in F as [I E]. unfold eligible in E.
  apply andb_true_iff in E as [E _]. apply andb_true_iff in E as [E H]. apply andb_true_iff in E as [A C].
  exists p. repeat split; try assumption.
  - apply negb_true_iff in A. exact A.
  - apply str_eqb_eq in C. exact C.
Qed.

Lemma all_attachments_no_body root : p_multi root = true ->
  forallb is_attachment (walk root) = true -> get_body_content root = ([], []).
Proof.
  intros M H. rewrite body_selection_spec by exact M. unfold first_text.
  assert (G : forall ct, find (eligible ct) (walk root) = None).
  { intro ct. destruct (find (eligible ct) (walk root)) as [p|] eqn:F; [|reflexivity].
    apply find_some in F as [I E]. rewrite forallb_forall in H. specialize (H p I).
    unfold eligible in E. rewrite H in E. discriminate E. }
  rewrite !G. reflexivity.
Qed.

Lemma body_single root : p_multi root = false ->
  get_body_content root =
    if p_has root then (if str_eqb (p_ctype root) TEXT_HTML then ([], p_text root) else (p_text root, [])) else ([], []).
Proof. intro M. unfold get_body_content. rewrite M. reflexivity. Qed.

(* ------------------------------------------------------------------ PROPOSED variant (not HEAD): get_body_content_joined = all inline text parts, joined *)
Lemma nonempty_false_nil x : C03.Lib.nonempty x = false -> x = [].
Proof. destruct x; [reflexivity | discriminate]. Qed.

Lemma body_fold_joined single l : forall pl ht,
  fold_left (body_step_joined single) l (pl, ht) =
    (pl ++ map p_text (filter (sel_plain single) l), ht ++ map p_text (filter sel_html l)).
Proof.
  induction l as [|p l IH]; intros pl ht.
  - cbn. rewrite !app_nil_r. reflexivity.
  - cbn [fold_left filter]. unfold body_step_joined at 2, sel_plain at 1, sel_html at 1.
    destruct (str_eqb (p_ctype p) TEXT_HTML) eqn:H; cbn [negb andb].
    + destruct (p_has p); rewrite IH; [|reflexivity]. cbn [map]. rewrite <- app_assoc. reflexivity.
    + destruct (str_eqb (p_ctype p) TEXT_PLAIN || single); cbn [andb]; [|apply IH].
      destruct (p_has p); rewrite IH; [|reflexivity]. cbn [map]. rewrite <- app_assoc. reflexivity.
Qed.

Lemma body_selection_spec_joined root : get_body_content_joined root = body_spec_joined root.
Proof. unfold get_body_content_joined, body_spec_joined. rewrite body_fold_joined. reflexivity. Qed.

(* what _classify_parts returns *)
Lemma flat_map_In_ind (P : part -> Prop) (f : part -> list part) ks :
  Forall (fun k => forall q, In q (f k) -> P q) ks -> forall q, In q (flat_map f ks) -> P q.
Proof.
  induction 1 as [|k ks Hk _ IH]; intros q Hq; [destruct Hq|].
  cbn in Hq. apply in_app_or in Hq as [Hq|Hq]; auto.
Qed.

Fixpoint part_ind' (P : part -> Prop)
    (step : forall c d f n m h t ks, Forall P ks -> P (Part c d f n m h t ks)) (p : part) : P p :=
  match p with
  | Part c d f n m h t ks =>
      step c d f n m h t ks
        ((fix go (l : list part) : Forall P l :=
            match l with [] => Forall_nil P | k :: r => Forall_cons k (part_ind' P step k) (go r) end) ks)
  end.

Lemma inline_parts_sound root : forall p, In p (inline_parts root) -> is_attachment_joined p = false /\ p_multi p = false.
Proof.
  induction root as [c d f n m h t ks IH] using part_ind'. intros p Hp. cbn [inline_parts] in Hp.
  destruct (att_fields d f) eqn:A; [destruct Hp|]. destruct m.
  - revert p Hp. apply flat_map_In_ind. exact IH.
  - destruct Hp as [<- | []]. split; [exact A | reflexivity].
Qed.

Lemma attachment_parts_sound root : forall p, In p (attachment_parts root) -> is_attachment_joined p = true.
Proof.
  induction root as [c d f n m h t ks IH] using part_ind'. intros p Hp. cbn [attachment_parts] in Hp.
  destruct (att_fields d f) eqn:A.
  - destruct Hp as [<- | []]. exact A.
  - destruct m; [|destruct Hp]. revert p Hp. apply flat_map_In_ind. exact IH.
Qed.

Lemma attachment_no_inline a : is_attachment_joined a = true -> inline_parts a = [] /\ attachment_parts a = [a].
Proof. destruct a as [c d f n m h t ks]. unfold is_attachment_joined. cbn. intro H. rewrite H. split; reflexivity. Qed.

(* whatever an attachment contains does not reach the bodies: replace one attachment by another anywhere in the tree *)
Lemma flat_map_hole (f : part -> list part) l r p p' : f p = f p' -> flat_map f (l ++ p :: r) = flat_map f (l ++ p' :: r).
Proof. intro H. rewrite !flat_map_app. cbn [flat_map]. rewrite H. reflexivity. Qed.

Lemma plug_inline ctx : forall p p', inline_parts p = inline_parts p' -> inline_parts (plug ctx p) = inline_parts (plug ctx p').
Proof.
  induction ctx as [|f ctx IH]; intros p p' H; [exact H|].
  cbn [plug]. apply IH. cbn [inline_parts]. destruct (att_fields (f_disp f) (f_fname f)); [reflexivity|].
  apply flat_map_hole. exact H.
Qed.

Lemma plug_multi ctx : forall p p', p_multi p = p_multi p' -> p_multi (plug ctx p) = p_multi (plug ctx p').
Proof. induction ctx as [|f ctx IH]; intros p p' H; [exact H|]. cbn [plug]. apply IH. reflexivity. Qed.

Lemma body_ignores_attachment_contents ctx a a' :
  is_attachment_joined a = true -> is_attachment_joined a' = true ->
  get_body_content_joined (plug ctx a) = get_body_content_joined (plug ctx a').
Proof.
  intros Ha Ha'. destruct (attachment_no_inline a Ha) as [Ia _]. destruct (attachment_no_inline a' Ha') as [Ia' _].
  destruct ctx as [|f ctx].
  - cbn [plug]. unfold get_body_content_joined. rewrite Ia, Ia'. reflexivity.
  - unfold get_body_content_joined.
    rewrite (plug_inline (f :: ctx) a a') by (rewrite Ia, Ia'; reflexivity).
    cbn [plug]. rewrite (plug_multi ctx _ (Part (f_ctype f) (f_disp f) (f_fname f) (f_dname f) true (f_has f) (f_text f)
                                             (f_left f ++ a' :: f_right f))) by reflexivity.
    reflexivity.
Qed.

(* the unrepaired code: the text of a message attached as message/rfc822 became the body of the outer message *)
Definition w_inner : part := Part TEXT_PLAIN [] [] [] false true (s "INNER BODY") [].
Definition w_att : part := Part (s "message/rfc822") (s "attachment") [] [] true false [] [w_inner].
Definition w_outer : part :=
  Part (s "multipart/mixed") [] [] [] true false [] [Part TEXT_HTML [] [] [] false true (s "<p>outer</p>") []; w_att].

Lemma body_inside_attachment :
  exists root att p, In att (walk root) /\ contains (p_disp att) (s "attachment") = true /\ In p (below att) /\
    C03.Lib.nonempty (p_text p) = true /\ fst (get_body_content root) = p_text p /\
    fst (get_body_content_joined root) = [].
Proof.
  exists w_outer, w_att, w_inner. repeat split.
  - simpl. right. right. left. reflexivity.
  - simpl. left. reflexivity.
Qed.

(* several inline text parts: the unrepaired code kept only the first *)
Definition w_two : part :=
  Part (s "multipart/mixed") [] [] [] true false []
    [Part TEXT_PLAIN [] [] [] false true (s "first") []; Part TEXT_PLAIN [] [] [] false true (s "second") []].
Lemma several_inline_parts :
  fst (get_body_content w_two) = s "first" /\ fst (get_body_content_joined w_two) = s "first" ++ [NL] ++ s "second".
Proof. split; vm_compute; reflexivity. Qed.

Lemma get_attachments_joined_spec root :
  get_attachments_joined root = map (fun p => (or_default (p_dname p) ATTACHMENT_NAME, p_ctype p)) (attachment_parts root)
  /\ forall p, In p (attachment_parts root) -> is_attachment_joined p = true.
Proof. split; [reflexivity | apply attachment_parts_sound]. Qed.

(* ------------------------------------------------------------------ unfolding *)
Lemma unfold_no_crlf x : no_crlf x = true -> unfold x = x.
Proof.
  induction x as [|c r IH]; intro H; [reflexivity|].
  unfold no_crlf in *. cbn [forallb] in H. apply andb_true_iff in H as [H1 H2].
  unfold is_crlf_char in H1. apply negb_true_iff in H1. apply orb_false_iff in H1 as [HC HN].
  cbn [unfold]. rewrite HC, HN. rewrite IH by exact H2. reflexivity.
Qed.

Lemma unfold_app_plain x rest : no_crlf x = true -> unfold (x ++ rest) = x ++ unfold rest.
Proof.
  induction x as [|c r IH]; intro H; [reflexivity|].
  unfold no_crlf in *. cbn [forallb] in H. apply andb_true_iff in H as [H1 H2].
  unfold is_crlf_char in H1. apply negb_true_iff in H1. apply orb_false_iff in H1 as [HC HN].
  rewrite <- app_comm_cons. cbn [unfold]. rewrite HC, HN. rewrite IH by exact H2. reflexivity.
Qed.

Lemma unfold_fold_lf c rest : starts_wsp c = true -> unfold (LF ++ c ++ rest) = unfold (c ++ rest).
Proof.
  destruct c as [|w c']; [discriminate|]. intro H. simpl in H. unfold LF. cbn [app unfold].
  change (N.eqb 10 CR) with false. change (N.eqb 10 NL) with true. cbn iota. rewrite H. reflexivity.
Qed.

Lemma unfold_fold_crlf c rest : starts_wsp c = true -> unfold (CRLF ++ c ++ rest) = unfold (c ++ rest).
Proof.
  destruct c as [|w c']; [discriminate|]. intro H. simpl in H. unfold CRLF. cbn [app unfold].
  change (N.eqb 13 CR) with true. change (N.eqb 10 NL) with true. cbn iota. rewrite H. reflexivity.
Qed.

Lemma unfold_conts eol conts : is_eol eol = true ->
  forallb (fun c => starts_wsp c && no_crlf c) conts = true ->
  unfold (List.concat (map (fun c => eol ++ c) conts)) = List.concat conts.
Proof.
  intro He. induction conts as [|c r IH]; intro H; [reflexivity|].
  cbn [forallb] in H. apply andb_true_iff in H as [H1 H2]. apply andb_true_iff in H1 as [HW HN].
  cbn [map List.concat]. rewrite <- app_assoc.
  assert (E : unfold (eol ++ c ++ List.concat (map (fun c0 => eol ++ c0) r)) = unfold (c ++ List.concat (map (fun c0 => eol ++ c0) r))).
  { unfold is_eol in He. apply orb_true_iff in He as [He|He]; apply str_eqb_eq in He; subst eol;
      [apply unfold_fold_lf | apply unfold_fold_crlf]; exact HW. }
  rewrite E. rewrite unfold_app_plain by exact HN. rewrite IH by exact H2. reflexivity.
Qed.

Lemma unfold_inverts_folding eol first conts : is_eol eol = true -> no_crlf first = true ->
  forallb (fun c => starts_wsp c && no_crlf c) conts = true ->
  unfold (fold_with eol first conts) = first ++ List.concat conts.
Proof.
  intros He Hf Hc. unfold fold_with. rewrite unfold_app_plain by exact Hf. rewrite unfold_conts by assumption. reflexivity.
Qed.

(* ------------------------------------------------------------------ decode_header_value / addresses *)
Section HeaderProofs.
  Variable decode_header : str -> list hpart.
  Variable decode : str -> str -> dres.
  Variable utf8_replace : str -> str.
  Variable getaddresses : str -> list (str * str).

  Let dhv := decode_header_value decode_header decode utf8_replace.

  (* the declared charset is used when it works, UTF-8 with replacement otherwise; never an exception:
     the function is total by construction, the fallback only needs utf8_replace *)
  Lemma decode_fallback_spec b c :
    (exists t, decode b (charset_or_utf8 c) = DOk t /\ decode_fallback decode utf8_replace b c = t) \/
    ((decode b (charset_or_utf8 c) = DLookupError \/ decode b (charset_or_utf8 c) = DUnicodeError) /\
     decode_fallback decode utf8_replace b c = utf8_replace b).
  Proof.
    unfold decode_fallback. destruct (decode b (charset_or_utf8 c)) as [t| |]; [left; eauto | right; auto | right; auto].
  Qed.

  Lemma decode_header_plain v t : C03.Lib.nonempty v = true -> decode_header (unfold v) = [HStr t] -> dhv v = t.
  Proof.
    intros Hn Hd. unfold dhv, decode_header_value. rewrite Hn, Hd. simpl. apply app_nil_r.
  Qed.

  Lemma addr_loop_spec l : forall acc,
    addr_loop decode_header decode utf8_replace l acc =
    acc ++ map (fun na => (dhv (fst na), snd na)) (filter (fun na => C03.Lib.nonempty (snd na)) l).
  Proof.
    induction l as [|[n a] r IH]; intro acc; cbn [addr_loop filter snd].
    - rewrite app_nil_r. reflexivity.
    - destruct (C03.Lib.nonempty a) eqn:E.
      + rewrite IH. cbn [map fst snd]. rewrite <- app_assoc. reflexivity.
      + apply IH.
  Qed.

  Lemma parse_addresses_spec v :
    parse_email_addresses decode_header decode utf8_replace getaddresses v =
      if C03.Lib.nonempty v then
        map (fun na => (dhv (fst na), snd na)) (filter (fun na => C03.Lib.nonempty (snd na)) (getaddresses (unfold v)))
      else [].
  Proof. unfold parse_email_addresses. destruct (C03.Lib.nonempty v); [apply addr_loop_spec | reflexivity]. Qed.

  Lemma parse_addresses_addrs v :
    map snd (parse_email_addresses decode_header decode utf8_replace getaddresses v) =
      if C03.Lib.nonempty v then filter C03.Lib.nonempty (map snd (getaddresses (unfold v))) else [].
  Proof.
    rewrite parse_addresses_spec. destruct (C03.Lib.nonempty v); [|reflexivity].
    induction (getaddresses (unfold v)) as [|[n a] r IH]; [reflexivity|].
    cbn [filter map snd]. destruct (C03.Lib.nonempty a); cbn [map snd]; rewrite IH; reflexivity.
  Qed.
End HeaderProofs.

(* ------------------------------------------------------------------ EmailContent *)
Lemma email_one_unit e : List.length (email_units e) = 1%nat.
Proof. unfold email_units. destruct (C03.Lib.nonempty (e_plain e)); [reflexivity|]. destruct (C03.Lib.nonempty (e_html e)); reflexivity. Qed.

Lemma email_full_text_spec subject plain html :
  email_full_text (new_email subject plain html) =
    if C03.Lib.nonempty (strip plain) then strip plain else strip html.
Proof.
  unfold email_full_text, email_units, new_email. cbn [e_plain e_html].
  destruct (C03.Lib.nonempty (strip plain)) eqn:P.
  - cbn [map fst joinNL]. unfold joinNL. rewrite join_single. apply strip_idem.
  - destruct (C03.Lib.nonempty html) eqn:H; cbn [map fst]; unfold joinNL; rewrite join_single; [reflexivity|].
    apply nonempty_false_nil in H. subst html. reflexivity.
Qed.

Lemma email_subject_stripped subject plain html : e_subject (new_email subject plain html) = strip subject.
Proof. reflexivity. Qed.

(* ------------------------------------------------------------------ attachments *)
Section AttProofs.
  Variable T : C07.Model.tables.
  Variable lower : str -> str.
  Variable mime : str -> option str.
  Variable R : Type.
  Variable run : C07.Model.extractor -> str -> str -> list R * fin.

  Lemma choose_by_name a e : route T lower mime (a_name a) = C07.Model.Extractor e -> choose T lower mime a = Choose e.
  Proof. intro H. unfold choose. rewrite H. reflexivity. Qed.

  Lemma choose_by_mime a ft :
    route T lower mime (a_name a) = C07.Model.NotSupported ->
    assoc (a_mime a) (C07.Model.mime_map T) = Some ft -> C03.Lib.nonempty ft = true ->
    choose T lower mime a =
      match route T lower mime (ATTACHMENT_DOT ++ ft) with C07.Model.Extractor e => Choose e | C07.Model.NotSupported => RaiseNotSupported end.
  Proof. intros H1 H2 H3. unfold choose. rewrite H1, H2, H3. reflexivity. Qed.

  Lemma choose_skip a :
    route T lower mime (a_name a) = C07.Model.NotSupported -> assoc (a_mime a) (C07.Model.mime_map T) = None ->
    choose T lower mime a = Skip.
  Proof. intros H1 H2. unfold choose. rewrite H1, H2. reflexivity. Qed.

  (* a supported attachment is extracted by the extractor the router gives for its name, from its bytes and name:
     the same call the attached file gets on its own *)
  Lemma same_as_alone a e :
    route T lower mime (a_name a) = C07.Model.Extractor e ->
    alone T lower mime R run (a_name a) (a_data a) = Some (run e (a_data a) (a_name a)) /\
    contribution T lower mime R run a = fst (run e (a_data a) (a_name a)) /\
    fst (iterate_supported_attachments T lower mime R run [a]) = fst (run e (a_data a) (a_name a)).
  Proof.
    intro H. unfold alone, contribution, iterate_supported_attachments. cbn [iter_atts].
    rewrite (choose_by_name a e H). rewrite H. repeat split.
    destruct (run e (a_data a) (a_name a)) as [rs f]. destruct f; cbn [fst]; try rewrite app_nil_r; reflexivity.
  Qed.

  (* neighbours do not matter: the results are the concatenation of the per-attachment contributions *)
  Lemma iterate_concat l : forallb (quiet T lower mime R run) l = true ->
    iterate_supported_attachments T lower mime R run l = (List.concat (map (contribution T lower mime R run) l), Completed).
  Proof.
    unfold iterate_supported_attachments. induction l as [|a r IH]; intro H; [reflexivity|].
    cbn [forallb] in H. apply andb_true_iff in H as [H1 H2]. cbn [iter_atts map List.concat].
    unfold quiet in H1. unfold contribution at 1.
    destruct (choose T lower mime a) as [e| |]; [| rewrite IH by exact H2; reflexivity | discriminate].
    destruct (run e (a_data a) (a_name a)) as [rs f]. cbn [fst snd] in *.
    destruct f; try discriminate; rewrite IH by exact H2; reflexivity.
  Qed.

  (* attachment i contributes the same whatever stands before and after it *)
  Lemma contribution_context_free l1 a l2 :
    forallb (quiet T lower mime R run) (l1 ++ a :: l2) = true ->
    fst (iterate_supported_attachments T lower mime R run (l1 ++ a :: l2)) =
      fst (iterate_supported_attachments T lower mime R run l1) ++ contribution T lower mime R run a
      ++ fst (iterate_supported_attachments T lower mime R run l2)
    /\ fst (iterate_supported_attachments T lower mime R run [a]) = contribution T lower mime R run a.
  Proof.
    intro H. pose proof H as H0. rewrite forallb_app in H. apply andb_true_iff in H as [H1 H2].
    cbn [forallb] in H2. apply andb_true_iff in H2 as [Ha H2].
    rewrite (iterate_concat _ H0), (iterate_concat _ H1), (iterate_concat _ H2).
    assert (Hs : forallb (quiet T lower mime R run) [a] = true) by (cbn [forallb]; rewrite Ha; reflexivity).
    rewrite (iterate_concat _ Hs). cbn [fst map List.concat]. rewrite map_app, concat_app. cbn [map List.concat].
    rewrite app_nil_r. split; reflexivity.
  Qed.

  (* the unrepaired gate: an attachment with a supported NAME but an unlisted MIME type is dropped *)
  Lemma unrepaired_gate a :
    a_flag a = false -> iterate_supported_attachments_unrepaired T lower mime R run [a] = ([], Completed).
  Proof. intro H. unfold iterate_supported_attachments_unrepaired, choose_unrepaired. cbn [iter_atts]. rewrite H. reflexivity. Qed.
End AttProofs.

(* the MIME fallback never raises when the tables pass mime_fallback_ok and the fallback path is its own lower case *)
Lemma mime_fallback_routes T lower mime a ft :
  C07.Model.wf T = true -> mime_fallback_ok T = true ->
  lower (ATTACHMENT_DOT ++ ft) = ATTACHMENT_DOT ++ ft ->
  route T lower mime (a_name a) = C07.Model.NotSupported ->
  assoc (a_mime a) (C07.Model.mime_map T) = Some ft ->
  exists e, choose T lower mime a = Choose e /\ In e (map snd (C07.Model.registry T)).
Proof.
  intros W M L H1 H2. unfold mime_fallback_ok in M. rewrite forallb_forall in M.
  pose proof (assoc_In _ _ _ H2) as I. specialize (M _ I). cbn [snd] in M.
  apply andb_true_iff in M as [N M].
  destruct (C07.Model.file_type_from_extension T (ATTACHMENT_DOT ++ ft)) as [ft'|] eqn:F; [|discriminate].
  apply andb_true_iff in M as [N' K].
  unfold choose. rewrite H1, H2, N. unfold route, C07.Model.get_extractor. rewrite L.
  assert (N'' : C07.Model.nonempty ft' = true) by exact N'.
  unfold C07.Model.get_extractor_lower. rewrite F, N''. unfold C07.Model.get_by_type.
  unfold has_key in K. destruct (assoc ft' (C07.Model.registry T)) as [e|] eqn:A; [|discriminate].
  exists e. split; [reflexivity|]. apply assoc_In in A. apply in_map_iff. exists (ft', e). auto.
Qed.

(* ------------------------------------------------------------------ _read_eml_format pieces *)
Lemma eml_attachment_defaults T a :
  eml_attachment T a =
    (or_default (mp_filename a) ATTACHMENT_NAME, or_default (mp_ctype a) OCTET_STREAM,
     is_supported_mime_type T (or_default (mp_ctype a) OCTET_STREAM)).
Proof. reflexivity. Qed.

Lemma eml_filter_addrs l : Forall (fun t => C03.Lib.nonempty (snd t) = true) (eml_filter l).
Proof. unfold eml_filter. apply Forall_forall. intros x Hx. apply filter_In in Hx as [_ H]. exact H. Qed.

Lemma eml_attachments_count T recs :
  List.length (eml_attachments T recs) = List.length recs /\
  forall i a, nth_error recs i = Some a -> nth_error (eml_attachments T recs) i = Some (eml_attachment T a).
Proof.
  unfold eml_attachments. split; [apply map_length|]. intros i a H. apply map_nth_error. exact H.
Qed.

(* exact bytes: whatever the attachment was, if mailparser hands it over as base64 text (binary = True; what it does for
   every transfer encoding) the EmailAttachment holds exactly the original bytes - zero bytes included *)
Lemma eml_attachment_bytes_exact (b64decode b64encode utf8 : str -> str) :
  (forall d, b64decode (b64encode d) = d) ->
  forall d, eml_attachment_data b64decode utf8 true (PStr (b64encode d)) = d.
Proof.
  intros L d. unfold eml_attachment_data. destruct (C03.Lib.nonempty (b64encode d)) eqn:E; [apply L|].
  apply nonempty_false_nil in E. rewrite <- (L d). rewrite E. reflexivity.
Qed.

Lemma eml_attachment_bytes_passthrough (b64decode utf8 : str -> str) b :
  eml_attachment_data b64decode utf8 false (PBytes b) = b.
Proof. unfold eml_attachment_data. destruct b; reflexivity. Qed.
