(* C16 — mbox: byte-level round trip (LF and CRLF), boundaries only at separator lines, mboxrd quoting. *)
From Coq Require Import ZArith List Bool Lia.
From S2T Require Import Lib.PyStr C03.Lib C03.Extract C03.ProofsM C16.Model.
Import ListNotations.
Open Scope N_scope.

(* ------------------------------------------------------------------ split_lines *)
Lemma sla_app a : forall cur b,
  split_lines_acc (a ++ NL :: b) cur = split_lines_acc (a ++ [NL]) cur ++ split_lines_acc b [].
Proof.
  induction a as [|c a IH]; intros cur b; simpl.
  - reflexivity.
  - destruct (N.eqb c NL); [rewrite IH; reflexivity | apply IH].
Qed.

Lemma split_lines_app a b : split_lines ((a ++ [NL]) ++ b) = split_lines (a ++ [NL]) ++ split_lines b.
Proof. unfold split_lines. rewrite <- app_assoc. simpl. apply sla_app. Qed.

Lemma sla_nonl r : forall cur, forallb not_nl r = true ->
  split_lines_acc (r ++ [NL]) cur = [rev cur ++ r ++ [NL]].
Proof.
  induction r as [|c r IH]; intros cur H; simpl in *.
  - reflexivity.
  - apply andb_true_iff in H as [H1 H2]. unfold not_nl in H1. apply negb_true_iff in H1. rewrite H1.
    rewrite IH by exact H2. simpl. rewrite <- app_assoc. reflexivity.
Qed.

Lemma is_line_shape l : is_line l = true -> exists r, l = r ++ [NL] /\ forallb not_nl r = true.
Proof.
  unfold is_line. destruct (rev l) as [|c r] eqn:E; [discriminate|].
  intro H. apply andb_true_iff in H as [H1 H2]. apply N.eqb_eq in H1. subst c.
  exists (rev r). split.
  - apply (f_equal (@rev N)) in E. rewrite rev_involutive in E. simpl in E. exact E.
  - rewrite forallb_forall in *. intros x Hx. apply H2. apply in_rev. exact Hx.
Qed.

Lemma split_lines_line l : is_line l = true -> split_lines l = [l].
Proof.
  intro H. destruct (is_line_shape l H) as [r [-> Hr]]. unfold split_lines. rewrite sla_nonl by exact Hr. reflexivity.
Qed.

Lemma split_lines_line_app l b : is_line l = true -> split_lines (l ++ b) = l :: split_lines b.
Proof.
  intro H. destruct (is_line_shape l H) as [r [E Hr]]. subst l.
  rewrite split_lines_app. rewrite split_lines_line; [reflexivity|].
  unfold is_line. rewrite rev_app_distr. simpl.
  rewrite forallb_forall in *. intros x Hx. apply Hr. apply in_rev. exact Hx.
Qed.

Lemma split_lines_concat ls : forallb is_line ls = true -> split_lines (List.concat ls) = ls.
Proof.
  induction ls as [|l r IH]; intro H; simpl in *; [reflexivity|].
  apply andb_true_iff in H as [H1 H2]. rewrite split_lines_line_app by exact H1. rewrite IH by exact H2. reflexivity.
Qed.

Lemma sla_concat d : forall cur, List.concat (split_lines_acc d cur) = rev cur ++ d.
Proof.
  induction d as [|c d IH]; intro cur; simpl.
  - destruct cur; simpl; [reflexivity | rewrite !app_nil_r; reflexivity].
  - destruct (N.eqb c NL); simpl.
    + rewrite IH. simpl. rewrite <- app_assoc. reflexivity.
    + rewrite IH. simpl. rewrite <- app_assoc. reflexivity.
Qed.

Lemma concat_split_lines d : List.concat (split_lines d) = d.
Proof. unfold split_lines. rewrite sla_concat. reflexivity. Qed.

(* ------------------------------------------------------------------ line-level round trip *)
Lemma flat_lines msgs : forallb lines_ok msgs = true -> forallb is_line (flat msgs) = true.
Proof.
  induction msgs as [|[sp b] r IH]; intro H; simpl in *; [reflexivity|].
  apply andb_true_iff in H as [H1 H2]. unfold lines_ok in H1. simpl in H1.
  apply andb_true_iff in H1 as [H1 Hb]. apply andb_true_iff in H1 as [_ Hs].
  unfold flat in *. simpl. rewrite Hs. simpl. rewrite forallb_app, Hb. simpl. apply IH. exact H2.
Qed.

Lemma roundtrip_lines msgs :
  forallb lines_ok msgs = true -> forallb msg_ok msgs = true ->
  split_mbox_messages (mbox_file msgs) = split_result msgs.
Proof.
  intros HL HM. unfold split_mbox_messages, mbox_file, split_result.
  rewrite split_lines_concat by (apply flat_lines; exact HL).
  rewrite collect_all by exact HM. reflexivity.
Qed.

(* ------------------------------------------------------------------ byte-level round trip *)
Definition to_lines (eol : str) (m : bmsg) : mbox_msg := (fst m ++ eol, split_lines (snd m ++ eol ++ eol)).

Lemma eol_cases eol : is_eol eol = true -> eol = LF \/ eol = CRLF.
Proof.
  unfold is_eol. intro H. apply orb_true_iff in H as [H|H]; apply str_eqb_eq in H; auto.
Qed.

Lemma eol_ends_nl eol : is_eol eol = true -> exists p, eol = p ++ [NL].
Proof. intro H. destruct (eol_cases eol H) as [-> | ->]; [exists [] | exists [CR]]; reflexivity. Qed.

Lemma piece_lines eol m rest : is_eol eol = true -> is_line (fst m ++ eol) = true ->
  split_lines (mbox_piece eol m ++ rest) = (fst m ++ eol) :: split_lines (snd m ++ eol ++ eol) ++ split_lines rest.
Proof.
  intros He Hl.
  assert (E : mbox_piece eol m ++ rest = (fst m ++ eol) ++ ((snd m ++ eol ++ eol) ++ rest)).
  { unfold mbox_piece. rewrite <- !app_assoc. reflexivity. }
  rewrite E. rewrite (split_lines_line_app (fst m ++ eol)) by exact Hl. f_equal.
  destruct (eol_ends_nl eol He) as [p Ep].
  assert (E2 : snd m ++ eol ++ eol = (snd m ++ eol ++ p) ++ [NL]).
  { rewrite Ep at 2. rewrite <- !app_assoc. reflexivity. }
  rewrite E2.
  apply split_lines_app.
Qed.

Lemma concat_lines eol msgs : is_eol eol = true -> forallb (bmsg_ok eol) msgs = true ->
  split_lines (mbox_concat eol msgs) = flat (map (to_lines eol) msgs).
Proof.
  intros He. induction msgs as [|m r IH]; intro H; simpl in *; [reflexivity|].
  apply andb_true_iff in H as [H1 H2]. unfold mbox_concat in *. simpl.
  assert (Hl : is_line (fst m ++ eol) = true).
  { unfold bmsg_ok in H1. repeat (apply andb_true_iff in H1 as [H1 ?]). assumption. }
  rewrite piece_lines by assumption. rewrite IH by exact H2. unfold flat. simpl. reflexivity.
Qed.

Lemma to_lines_ok eol msgs : forallb (bmsg_ok eol) msgs = true -> forallb msg_ok (map (to_lines eol) msgs) = true.
Proof.
  induction msgs as [|m r IH]; intro H; simpl in *; [reflexivity|].
  apply andb_true_iff in H as [H1 H2]. rewrite IH by exact H2. rewrite andb_true_r.
  unfold bmsg_ok in H1. unfold msg_ok, to_lines. simpl.
  apply andb_true_iff in H1 as [H1 Hb]. apply andb_true_iff in H1 as [H1 _]. apply andb_true_iff in H1 as [H1 _].
  apply andb_true_iff in H1 as [Hf _]. rewrite Hf, Hb. reflexivity.
Qed.

Lemma dropWhile_crlf_body b : C03.Lib.nonempty b = true -> ends_crlf b = false ->
  dropWhile (fun c => N.eqb c CR || N.eqb c NL) (rev b) = rev b.
Proof.
  unfold ends_crlf, is_crlf_char. destruct (rev b) as [|c r] eqn:E; intros Hn He; [reflexivity|].
  simpl. rewrite He. reflexivity.
Qed.

Lemma rstrip_piece eol b : is_eol eol = true -> C03.Lib.nonempty b = true -> ends_crlf b = false ->
  rstrip_crlf (b ++ eol ++ eol) = b.
Proof.
  intros He Hn Hb. unfold rstrip_crlf.
  destruct (eol_cases eol He) as [-> | ->]; rewrite !rev_app_distr; simpl;
    rewrite dropWhile_crlf_body by assumption; apply rev_involutive.
Qed.

Lemma bodies_to_lines eol msgs : map rstrip_crlf (bodies (map (to_lines eol) msgs)) = map (fun m => rstrip_crlf (snd m ++ eol ++ eol)) msgs.
Proof.
  unfold bodies. rewrite !map_map. apply map_ext. intro m. simpl. rewrite concat_split_lines. reflexivity.
Qed.

Lemma roundtrip_bytes eol msgs : is_eol eol = true -> forallb (bmsg_ok eol) msgs = true ->
  split_mbox_messages (mbox_concat eol msgs) = map snd msgs.
Proof.
  intros He H. pose proof He as He0. unfold split_mbox_messages. rewrite concat_lines by assumption.
  rewrite collect_all by (apply to_lines_ok; exact H). rewrite bodies_to_lines.
  clear He0. induction msgs as [|[sp b] r IH]; [reflexivity|].
  cbn [forallb] in H. apply andb_true_iff in H as [H1 H2]. unfold bmsg_ok in H1.
  apply andb_true_iff in H1 as [H1 _]. apply andb_true_iff in H1 as [H1 Hc]. apply andb_true_iff in H1 as [_ Hn].
  apply negb_true_iff in Hc. cbn [snd fst] in *. cbn [map snd]. rewrite rstrip_piece by assumption. cbn [filter]. rewrite Hn.
  f_equal. apply IH. exact H2.
Qed.

(* ------------------------------------------------------------------ boundaries only at separator lines *)
Lemma collect_length lines : forall started cur,
  List.length (mbox_collect lines started cur) =
  (List.length (filter is_from_line lines) + (if started then 1 else 0))%nat.
Proof.
  induction lines as [|l r IH]; intros started cur; simpl.
  - destruct started; reflexivity.
  - destruct (is_from_line l) eqn:E.
    + rewrite app_length, IH. destruct started; simpl; lia.
    + apply IH.
Qed.

Lemma filter_length_le {A} (f : A -> bool) l : (List.length (filter f l) <= List.length l)%nat.
Proof. induction l as [|x l IH]; simpl; [lia|]. destruct (f x); simpl; lia. Qed.

Lemma boundaries_only_at_separators data :
  (List.length (split_mbox_messages data) <= count_from_lines data)%nat.
Proof.
  unfold split_mbox_messages, count_from_lines.
  eapply Nat.le_trans; [apply filter_length_le|]. rewrite map_length, collect_length. lia.
Qed.

Lemma no_separator_no_message data : count_from_lines data = 0%nat -> split_mbox_messages data = [].
Proof.
  intro H. pose proof (boundaries_only_at_separators data) as B. rewrite H in B.
  destruct (split_mbox_messages data); [reflexivity | simpl in B; lia].
Qed.

(* ------------------------------------------------------------------ mboxrd quoting *)
Lemma esc_not_from l : is_from_line (esc_line l) = false.
Proof.
  unfold esc_line. destruct (is_quoted_from l) eqn:Q.
  - unfold is_from_line. simpl. reflexivity.
  - unfold is_from_line. destruct (startswith l (s "From ")) eqn:S; [|reflexivity].
    exfalso. apply startswith_app in S as [r ->]. vm_compute in Q. discriminate Q.
Qed.

Lemma esc_is_line l : is_line (esc_line l) = is_line l.
Proof.
  unfold esc_line. destruct (is_quoted_from l) eqn:Q; [|reflexivity].
  unfold is_line. simpl. destruct (rev l) as [|c r] eqn:E.
  - unfold is_quoted_from in Q. apply (f_equal (@rev N)) in E. rewrite rev_involutive in E. subst l. discriminate Q.
  - simpl. rewrite forallb_app. simpl. rewrite andb_true_r. reflexivity.
Qed.

Lemma unesc_esc l : unesc_line (esc_line l) = l.
Proof.
  unfold esc_line. destruct (is_quoted_from l) eqn:Q.
  - unfold unesc_line. rewrite N.eqb_refl, Q. reflexivity.
  - unfold unesc_line. destruct l as [|c r]; [reflexivity|].
    destruct (N.eqb c GT) eqn:E; [|reflexivity]. simpl.
    destruct (is_quoted_from r) eqn:Qr; [|reflexivity].
    exfalso. apply N.eqb_eq in E. subst c. unfold is_quoted_from in Q, Qr.
    cbn [dropWhile] in Q. rewrite N.eqb_refl in Q. congruence.
Qed.

Lemma esc_msgs_ok msgs : forallb lines_ok msgs = true ->
  forallb lines_ok (map esc_msg msgs) = true /\ forallb msg_ok (map esc_msg msgs) = true.
Proof.
  induction msgs as [|[sp b] r IH]; intro H; simpl in *; [split; reflexivity|].
  apply andb_true_iff in H as [H1 H2]. destruct (IH H2) as [I1 I2]. rewrite I1, I2. rewrite !andb_true_r.
  unfold lines_ok in *. unfold msg_ok. simpl in *.
  apply andb_true_iff in H1 as [H1 Hb]. apply andb_true_iff in H1 as [Hf Hs]. rewrite Hf, Hs. simpl.
  split.
  - rewrite forallb_forall in *. intros x Hx. apply in_map_iff in Hx as [y [<- Hy]]. rewrite esc_is_line. apply Hb. exact Hy.
  - rewrite forallb_forall. intros x Hx. apply in_map_iff in Hx as [y [<- Hy]]. rewrite esc_not_from. reflexivity.
Qed.

Lemma escaped_one_per_message msgs : forallb lines_ok msgs = true ->
  split_mbox_messages (mbox_file (map esc_msg msgs)) = split_result (map esc_msg msgs).
Proof. intro H. destruct (esc_msgs_ok msgs H) as [A B]. apply roundtrip_lines; assumption. Qed.

(* ------------------------------------------------------------------ the repaired split undoes the quoting *)
Lemma unquote_escaped ls : forallb is_line ls = true ->
  unquote_bytes (List.concat (map esc_line ls)) = List.concat ls.
Proof.
  intro H. unfold unquote_bytes. rewrite split_lines_concat.
  - rewrite map_map. f_equal. rewrite <- (map_id ls) at 2. apply map_ext. intro l. apply unesc_esc.
  - rewrite forallb_forall in *. intros x Hx. apply in_map_iff in Hx as [y [<- Hy]]. rewrite esc_is_line. apply H. exact Hy.
Qed.

Lemma mboxrd_roundtrip msgs : forallb lines_ok msgs = true ->
  split_mbox_messages_rd (mbox_file (map esc_msg msgs)) = split_result msgs.
Proof.
  intro H. destruct (esc_msgs_ok msgs H) as [A B]. unfold split_mbox_messages_rd, mbox_file, split_result.
  rewrite split_lines_concat by (apply flat_lines; exact A). rewrite collect_all by exact B.
  f_equal. unfold bodies. rewrite !map_map. clear A B.
  induction msgs as [|[sp b] r IH]; [reflexivity|].
  cbn [forallb] in H. apply andb_true_iff in H as [H1 H2]. cbn [map]. rewrite IH by exact H2. f_equal.
  unfold esc_msg. cbn [fst snd]. unfold lines_ok in H1. cbn [fst snd] in H1. apply andb_true_iff in H1 as [_ Hb].
  rewrite unquote_escaped by exact Hb. reflexivity.
Qed.

Lemma unquote_fixed_id b : unquote_fixed b = true -> unquote_bytes b = b.
Proof.
  unfold unquote_fixed, unquote_bytes. intro H. rewrite <- (concat_split_lines b) at 2. f_equal.
  rewrite <- (map_id (split_lines b)) at 2. apply map_ext_in. intros l Hl.
  rewrite forallb_forall in H. apply str_eqb_eq. apply H. exact Hl.
Qed.

Lemma roundtrip_bytes_rd eol msgs : is_eol eol = true -> forallb (bmsg_ok_rd eol) msgs = true ->
  split_mbox_messages_rd (mbox_concat eol msgs) = map snd msgs.
Proof.
  intros He H.
  assert (H0 : forallb (bmsg_ok eol) msgs = true).
  { rewrite forallb_forall in *. intros m Hm. specialize (H m Hm). unfold bmsg_ok_rd in H. apply andb_true_iff in H as [H _]. exact H. }
  rewrite <- (roundtrip_bytes eol msgs He H0). unfold split_mbox_messages_rd, split_mbox_messages.
  rewrite concat_lines by assumption. rewrite collect_all by (apply to_lines_ok; exact H0).
  f_equal. unfold bodies. rewrite !map_map. apply map_ext_in. intros m Hm. cbn [to_lines snd].
  rewrite concat_split_lines. rewrite unquote_fixed_id; [reflexivity|].
  rewrite forallb_forall in H. specialize (H m Hm). unfold bmsg_ok_rd in H. apply andb_true_iff in H as [_ H]. exact H.
Qed.

Lemma boundaries_only_at_separators_rd data :
  (List.length (split_mbox_messages_rd data) <= count_from_lines data)%nat.
Proof.
  unfold split_mbox_messages_rd, count_from_lines.
  eapply Nat.le_trans; [apply filter_length_le|]. rewrite map_length, collect_length. lia.
Qed.

(* witnesses *)
Definition w_sep : str := s "From a@b Mon Jan  1 00:00:00 2024".
Definition w_body_from : str := s "Subject: x" ++ [NL; NL] ++ s "line" ++ [NL] ++ s "From here on 2024" ++ [NL] ++ s "end".
Definition w_msg_lines : mbox_msg :=
  (w_sep ++ [NL], [s "Subject: x" ++ [NL]; [NL]; s "From here on it is over" ++ [NL]; [NL]]).

Lemma unescaped_from_splits :
  exists m : bmsg, is_from_line (fst m ++ LF) = true /\ C03.Lib.nonempty (snd m) = true /\ ends_crlf (snd m) = false /\
    bmsg_ok LF m = false /\ List.length (split_mbox_messages (mbox_concat LF [m])) = 2%nat.
Proof. exists (w_sep, w_body_from). vm_compute. repeat split; reflexivity. Qed.

Lemma quoting_not_undone :
  exists m : mbox_msg, lines_ok m = true /\
    split_mbox_messages (mbox_file [esc_msg m]) <> split_result [m] /\
    split_mbox_messages (mbox_file [esc_msg m]) = split_result [esc_msg m].
Proof.
  exists w_msg_lines. split; [vm_compute; reflexivity|]. split.
  - vm_compute. discriminate.
  - vm_compute. reflexivity.
Qed.

Example bmsg_ok_satisfiable_lf : bmsg_ok LF (w_sep, s "Subject: x" ++ [NL; NL] ++ s ">From here 2024") = true.
Proof. vm_compute. reflexivity. Qed.
Example bmsg_ok_satisfiable_crlf : bmsg_ok CRLF (w_sep, s "Subject: x" ++ [CR; NL; CR; NL] ++ s "body") = true.
Proof. vm_compute. reflexivity. Qed.
Example lines_ok_satisfiable : lines_ok w_msg_lines = true.
Proof. vm_compute. reflexivity. Qed.

Lemma unescaped_from_splits_rd :
  exists m : bmsg, is_from_line (fst m ++ LF) = true /\ C03.Lib.nonempty (snd m) = true /\ ends_crlf (snd m) = false /\
    bmsg_ok LF m = false /\ List.length (split_mbox_messages_rd (mbox_concat LF [m])) = 2%nat.
Proof. exists (w_sep, w_body_from). vm_compute. repeat split; reflexivity. Qed.

Example bmsg_ok_rd_satisfiable_lf : bmsg_ok_rd LF (w_sep, s "Subject: x" ++ [NL; NL] ++ s "from here 2024") = true.
Proof. vm_compute. reflexivity. Qed.
Example bmsg_ok_rd_satisfiable_crlf : bmsg_ok_rd CRLF (w_sep, s "Subject: x" ++ [CR; NL; CR; NL] ++ s "body") = true.
Proof. vm_compute. reflexivity. Qed.

(* ------------------------------------------------------------------ any quoting that defuses separator lines *)
Lemma quoted_msgs_ok (f : str -> str) :
  (forall l, is_from_line (f l) = false) -> (forall l, is_line (f l) = is_line l) ->
  forall msgs, forallb lines_ok msgs = true ->
  forallb lines_ok (map (qmsg f) msgs) = true /\ forallb msg_ok (map (qmsg f) msgs) = true.
Proof.
  intros NF KL. induction msgs as [|[sp b] r IH]; intro H; simpl in *; [split; reflexivity|].
  apply andb_true_iff in H as [H1 H2]. destruct (IH H2) as [I1 I2]. rewrite I1, I2. rewrite !andb_true_r.
  unfold lines_ok in *. unfold msg_ok. simpl in *.
  apply andb_true_iff in H1 as [H1 Hb]. apply andb_true_iff in H1 as [Hf Hs]. rewrite Hf, Hs. simpl.
  split.
  - rewrite forallb_forall in *. intros x Hx. apply in_map_iff in Hx as [y [<- Hy]]. rewrite KL. apply Hb. exact Hy.
  - rewrite forallb_forall. intros x Hx. apply in_map_iff in Hx as [y [<- Hy]]. rewrite NF. reflexivity.
Qed.

Lemma quoted_one_per_message (f : str -> str) :
  (forall l, is_from_line (f l) = false) -> (forall l, is_line (f l) = is_line l) ->
  forall msgs, forallb lines_ok msgs = true ->
  split_mbox_messages (mbox_file (map (qmsg f) msgs)) = split_result (map (qmsg f) msgs).
Proof. intros NF KL msgs H. destruct (quoted_msgs_ok f NF KL msgs H) as [A B]. apply roundtrip_lines; assumption. Qed.

Lemma esc_o_not_from l : is_from_line (esc_o_line l) = false.
Proof.
  unfold esc_o_line. destruct (startswith l (s "From ")) eqn:S.
  - unfold is_from_line. simpl. reflexivity.
  - unfold is_from_line. rewrite S. reflexivity.
Qed.

Lemma esc_o_is_line l : is_line (esc_o_line l) = is_line l.
Proof.
  unfold esc_o_line. destruct (startswith l (s "From ")) eqn:S; [|reflexivity].
  unfold is_line. simpl. destruct (rev l) as [|c r] eqn:E.
  - apply (f_equal (@rev N)) in E. rewrite rev_involutive in E. subst l. discriminate S.
  - simpl. rewrite forallb_app. simpl. rewrite andb_true_r. reflexivity.
Qed.

Lemma mboxo_one_per_message msgs : forallb lines_ok msgs = true ->
  split_mbox_messages (mbox_file (map (qmsg esc_o_line) msgs)) = split_result (map (qmsg esc_o_line) msgs).
Proof. apply quoted_one_per_message; [exact esc_o_not_from | exact esc_o_is_line]. Qed.

(* ------------------------------------------------------------------ what a separator line looks like *)
Lemma ends_4_digits_rev x : ends_4_digits (rev x) = true ->
  exists d4 d3 d2 d1 rest, x = d4 :: d3 :: d2 :: d1 :: rest /\
    b_is_digit d1 = true /\ b_is_digit d2 = true /\ b_is_digit d3 = true /\ b_is_digit d4 = true.
Proof.
  unfold ends_4_digits. rewrite rev_involutive. destruct x as [|a [|b [|c [|d rest]]]]; try discriminate.
  intro H. apply andb_true_iff in H as [H Hd]. apply andb_true_iff in H as [H Hc]. apply andb_true_iff in H as [Ha Hb].
  exists a, b, c, d, rest. repeat split; try reflexivity; assumption.
Qed.

Lemma from_line_sound l : is_from_line l = true ->
  exists a mid d1 d2 d3 d4 tail, l = from_shape a mid d1 d2 d3 d4 tail /\ b_is_ws a = false /\
    b_is_digit d1 = true /\ b_is_digit d2 = true /\ b_is_digit d3 = true /\ b_is_digit d4 = true /\ line_end tail = true.
Proof.
  unfold is_from_line. intro H. apply andb_true_iff in H as [S H]. apply startswith_app in S as [r0 ->].
  change (skipn 5 (s "From " ++ r0)) with r0 in H. destruct r0 as [|a r]; [discriminate|].
  apply andb_true_iff in H as [Ha H]. apply negb_true_iff in Ha.
  destruct (rev r) as [|nl body_rev] eqn:E; [discriminate|].
  apply andb_true_iff in H as [Hn H]. apply N.eqb_eq in Hn. subst nl.
  assert (Er : r = rev body_rev ++ [NL]).
  { apply (f_equal (@rev N)) in E. rewrite rev_involutive in E. exact E. }
  apply orb_true_iff in H as [H|H].
  - apply ends_4_digits_rev in H as [d4 [d3 [d2 [d1 [rest [Eb [D1 [D2 [D3 D4]]]]]]]]].
    exists a, (rev rest), d1, d2, d3, d4, [NL]. split; [|repeat split; try assumption; reflexivity].
    unfold from_shape. rewrite Er, Eb. cbn [rev]. rewrite <- !app_assoc. reflexivity.
  - destruct body_rev as [|cr b2]; [discriminate|]. apply andb_true_iff in H as [Hc H]. apply N.eqb_eq in Hc. subst cr.
    apply ends_4_digits_rev in H as [d4 [d3 [d2 [d1 [rest [Eb [D1 [D2 [D3 D4]]]]]]]]].
    exists a, (rev rest), d1, d2, d3, d4, [CR; NL]. split; [|repeat split; try assumption; reflexivity].
    unfold from_shape. rewrite Er, Eb. cbn [rev]. rewrite <- !app_assoc. reflexivity.
Qed.

Lemma from_line_complete a mid d1 d2 d3 d4 tail :
  b_is_ws a = false -> b_is_digit d1 = true -> b_is_digit d2 = true -> b_is_digit d3 = true -> b_is_digit d4 = true ->
  line_end tail = true -> is_from_line (from_shape a mid d1 d2 d3 d4 tail) = true.
Proof.
  intros Ha D1 D2 D3 D4 T. unfold line_end in T. unfold is_from_line, from_shape.
  change (startswith (s "From " ++ a :: mid ++ [d1; d2; d3; d4] ++ tail) (s "From ")) with true.
  change (skipn 5 (s "From " ++ a :: mid ++ [d1; d2; d3; d4] ++ tail)) with (a :: mid ++ [d1; d2; d3; d4] ++ tail).
  cbn [andb]. cbv iota. rewrite Ha. cbn [negb andb].
  apply orb_true_iff in T as [T|T]; apply str_eqb_eq in T; subst tail.
  - replace (rev (mid ++ [d1; d2; d3; d4] ++ [NL])) with (NL :: d4 :: d3 :: d2 :: d1 :: rev mid)
      by (rewrite !rev_app_distr; reflexivity).
    change (N.eqb NL NL) with true. cbn [andb]. apply orb_true_iff. left.
    unfold ends_4_digits. rewrite rev_involutive. rewrite D1, D2, D3, D4. reflexivity.
  - replace (rev (mid ++ [d1; d2; d3; d4] ++ [CR; NL])) with (NL :: CR :: d4 :: d3 :: d2 :: d1 :: rev mid)
      by (rewrite !rev_app_distr; reflexivity).
    change (N.eqb NL NL) with true. cbn [andb]. apply orb_true_iff. right.
    change (N.eqb CR CR) with true. cbn [andb].
    unfold ends_4_digits. rewrite rev_involutive. rewrite D1, D2, D3, D4. reflexivity.
Qed.

(* MMDF: the ^A^A^A^A delimiter lines are no separators; they come back inside the messages *)
Lemma mmdf_delimiters_kept :
  exists msgs : list bmsg, forallb (bmsg_ok LF) msgs = true /\
    split_mbox_messages (mmdf_concat msgs) <> map snd msgs /\
    List.length (split_mbox_messages (mmdf_concat msgs)) = List.length msgs /\
    forallb (fun m => existsb (N.eqb 1) m) (split_mbox_messages (mmdf_concat msgs)) = true.
Proof.
  exists [(w_sep, s "Subject: a" ++ [NL; NL] ++ s "one"); (w_sep, s "Subject: b" ++ [NL; NL] ++ s "two")].
  split; [vm_compute; reflexivity|]. split; [vm_compute; discriminate|]. split; vm_compute; reflexivity.
Qed.
