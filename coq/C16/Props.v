(* C16 — property theorems.  Statements closed by `exact`, each followed by Print Assumptions.
   Oracles (universally quantified): email.header.decode_header, bytes.decode, email.utils.getaddresses,
   str.lower, mimetypes.guess_type, every extractor (`run`); the MIME tree / mailparser record are inputs. *)
From Coq Require Import ZArith List Bool.
From S2T Require Import Lib.PyStr C03.Lib C03.Extract C03.ProofsM C16.Model C16.ProofsMbox C16.ProofsMail C16.ProofsMsg C16.Loop.
From S2T Require C07.Model.
Import ListNotations.
Open Scope N_scope.

(* ---------------------------------------------------------------- mbox (the code at HEAD: C03.Extract.split_mbox_messages) *)
(* split (concat_with_separators msgs) = msgs for LF and CRLF mailboxes, any number of messages, when no
   line of a message matches MBOX_FROM_PATTERN (bmsg_ok = no_body_line_matches_From + the message is
   non-empty and does not end in CR/LF, which _split_mbox_messages strips) *)
Theorem C16_mbox_roundtrip :
  forall (eol : str) (msgs : list bmsg),
    is_eol eol = true -> forallb (bmsg_ok eol) msgs = true ->
    split_mbox_messages (mbox_concat eol msgs) = map snd msgs.
Proof. exact roundtrip_bytes. Qed.
Print Assumptions C16_mbox_roundtrip.

Example C16_mbox_roundtrip_hyp_lf : bmsg_ok LF (w_sep, s "Subject: x" ++ [NL; NL] ++ s ">From here 2024") = true.
Proof. exact bmsg_ok_satisfiable_lf. Qed.
Print Assumptions C16_mbox_roundtrip_hyp_lf.
Example C16_mbox_roundtrip_hyp_crlf : bmsg_ok CRLF (w_sep, s "Subject: x" ++ [CR; NL; CR; NL] ++ s "body") = true.
Proof. exact bmsg_ok_satisfiable_crlf. Qed.
Print Assumptions C16_mbox_roundtrip_hyp_crlf.

(* boundaries only at separator lines: never more messages than separator lines, for ANY bytes *)
Theorem C16_mbox_boundaries_only_at_separators :
  forall data : str, (List.length (split_mbox_messages data) <= count_from_lines data)%nat.
Proof. exact boundaries_only_at_separators. Qed.
Print Assumptions C16_mbox_boundaries_only_at_separators.

Theorem C16_mbox_no_separator_no_message :
  forall data : str, count_from_lines data = 0%nat -> split_mbox_messages data = [].
Proof. exact no_separator_no_message. Qed.
Print Assumptions C16_mbox_no_separator_no_message.

(* the converse witness: ONE message with an unescaped body line matching the pattern comes back as two *)
Theorem C16_mbox_unescaped_From_splits_refuted :
  exists m : bmsg, is_from_line (fst m ++ LF) = true /\ C03.Lib.nonempty (snd m) = true /\ ends_crlf (snd m) = false /\
    bmsg_ok LF m = false /\ List.length (split_mbox_messages (mbox_concat LF [m])) = 2%nat.
Proof. exact unescaped_from_splits. Qed.
Print Assumptions C16_mbox_unescaped_From_splits_refuted.

(* with mboxrd quoting EVERY mailbox splits into one result per message, in order (no hypothesis on bodies) *)
Theorem C16_mbox_escaped_one_per_message :
  forall msgs : list mbox_msg, forallb lines_ok msgs = true ->
    split_mbox_messages (mbox_file (map esc_msg msgs)) = split_result (map esc_msg msgs).
Proof. exact escaped_one_per_message. Qed.
Print Assumptions C16_mbox_escaped_one_per_message.

Example C16_lines_ok_satisfiable : lines_ok w_msg_lines = true.
Proof. exact lines_ok_satisfiable. Qed.
Print Assumptions C16_lines_ok_satisfiable.

(* ... but the quoting is not undone: the result is the quoted text, not the message (finding mbox-from-quoting-not-undone) *)
Theorem C16_mbox_quoting_undone_refuted :
  exists m : mbox_msg, lines_ok m = true /\
    split_mbox_messages (mbox_file [esc_msg m]) <> split_result [m] /\
    split_mbox_messages (mbox_file [esc_msg m]) = split_result [esc_msg m].
Proof. exact quoting_not_undone. Qed.
Print Assumptions C16_mbox_quoting_undone_refuted.

Theorem C16_mboxrd_unquote_inverts_quote : forall l : str, unesc_line (esc_line l) = l.
Proof. exact unesc_esc. Qed.
Print Assumptions C16_mboxrd_unquote_inverts_quote.

Theorem C16_mboxrd_quoted_never_separator : forall l : str, is_from_line (esc_line l) = false.
Proof. exact esc_not_from. Qed.
Print Assumptions C16_mboxrd_quoted_never_separator.

(* MBOX_FROM_PATTERN, declaratively: a line is a separator exactly when it is "From ", a non-white-space byte, anything,
   four digits, an optional CR and the LF (sound and complete; covers "From - ..." of Thunderbird, asctime with numeric
   zone before the year, CRLF line ends; NOT "... 2024 remote from host" and not a last line without line end) *)
Theorem C16_from_line_sound :
  forall l : str, is_from_line l = true ->
    exists a mid d1 d2 d3 d4 tail, l = from_shape a mid d1 d2 d3 d4 tail /\ b_is_ws a = false /\
      b_is_digit d1 = true /\ b_is_digit d2 = true /\ b_is_digit d3 = true /\ b_is_digit d4 = true /\ line_end tail = true.
Proof. exact from_line_sound. Qed.
Print Assumptions C16_from_line_sound.

Theorem C16_from_line_complete :
  forall (a : N) (mid : str) (d1 d2 d3 d4 : N) (tail : str),
    b_is_ws a = false -> b_is_digit d1 = true -> b_is_digit d2 = true -> b_is_digit d3 = true -> b_is_digit d4 = true ->
    line_end tail = true -> is_from_line (from_shape a mid d1 d2 d3 d4 tail) = true.
Proof. exact from_line_complete. Qed.
Print Assumptions C16_from_line_complete.

Example C16_from_line_hyp :
  is_from_line (from_shape 45 (s " Mon Jan 01 00:00:00 ") 50 48 50 52 [CR; NL]) = true /\
  is_from_line (s "From u@x Mon Jan  1 00:00:00 2024 remote from host" ++ [NL]) = false.
Proof. split; vm_compute; reflexivity. Qed.
Print Assumptions C16_from_line_hyp.

(* ANY quoting scheme that turns no line into a separator and keeps lines lines gives one result per message, in
   order; mboxo (only "From " lines get a ">") is one *)
Theorem C16_mbox_any_quoting_one_per_message :
  forall f : str -> str,
    (forall l, is_from_line (f l) = false) -> (forall l, is_line (f l) = is_line l) ->
    forall msgs : list mbox_msg, forallb lines_ok msgs = true ->
      split_mbox_messages (mbox_file (map (qmsg f) msgs)) = split_result (map (qmsg f) msgs).
Proof. exact quoted_one_per_message. Qed.
Print Assumptions C16_mbox_any_quoting_one_per_message.

Theorem C16_mboxo_one_per_message :
  forall msgs : list mbox_msg, forallb lines_ok msgs = true ->
    split_mbox_messages (mbox_file (map (qmsg esc_o_line) msgs)) = split_result (map (qmsg esc_o_line) msgs).
Proof. exact mboxo_one_per_message. Qed.
Print Assumptions C16_mboxo_one_per_message.

(* MMDF mailboxes (messages between ^A^A^A^A lines) are split at their From_ lines, but the delimiter lines are no
   separators: they come back inside the messages *)
Theorem C16_mbox_mmdf_delimiters_kept_refuted :
  exists msgs : list bmsg, forallb (bmsg_ok LF) msgs = true /\
    split_mbox_messages (mmdf_concat msgs) <> map snd msgs /\
    List.length (split_mbox_messages (mmdf_concat msgs)) = List.length msgs /\
    forallb (fun m => existsb (N.eqb 1) m) (split_mbox_messages (mmdf_concat msgs)) = true.
Proof. exact mmdf_delimiters_kept. Qed.
Print Assumptions C16_mbox_mmdf_delimiters_kept_refuted.

(* ---- ALTERNATIVE definition split_mbox_messages_rd (fixes/proposed-not-applied/C16-mbox-unquote-from.patch, NOT the code at HEAD):
   undoing the quoting while splitting gives split (concat (quote msgs)) = msgs with no hypothesis on the bodies *)
Theorem C16_alt_mboxrd_roundtrip :
  forall msgs : list mbox_msg, forallb lines_ok msgs = true ->
    split_mbox_messages_rd (mbox_file (map esc_msg msgs)) = split_result msgs.
Proof. exact mboxrd_roundtrip. Qed.
Print Assumptions C16_alt_mboxrd_roundtrip.

Theorem C16_alt_mbox_rd_roundtrip_unquoted :
  forall (eol : str) (msgs : list bmsg),
    is_eol eol = true -> forallb (bmsg_ok_rd eol) msgs = true ->
    split_mbox_messages_rd (mbox_concat eol msgs) = map snd msgs.
Proof. exact roundtrip_bytes_rd. Qed.
Print Assumptions C16_alt_mbox_rd_roundtrip_unquoted.

Example C16_alt_mbox_rd_hyp : bmsg_ok_rd LF (w_sep, s "Subject: x" ++ [NL; NL] ++ s "from here 2024") = true
                              /\ bmsg_ok_rd CRLF (w_sep, s "Subject: x" ++ [CR; NL; CR; NL] ++ s "body") = true.
Proof. split; [exact bmsg_ok_rd_satisfiable_lf | exact bmsg_ok_rd_satisfiable_crlf]. Qed.
Print Assumptions C16_alt_mbox_rd_hyp.

Theorem C16_alt_mbox_rd_boundaries :
  forall data : str, (List.length (split_mbox_messages_rd data) <= count_from_lines data)%nat.
Proof. exact boundaries_only_at_separators_rd. Qed.
Print Assumptions C16_alt_mbox_rd_boundaries.

(* ---------------------------------------------------------------- bodies (the code at HEAD: get_body_content) *)
(* multipart: each body is the text of the FIRST part in document order (nested multiparts included) that is
   not disposed as attachment, has the wanted type, a non-empty payload and a non-empty decoded text *)
Theorem C16_body_selection_spec :
  forall root : part, p_multi root = true ->
    get_body_content root = (first_text TEXT_PLAIN root, first_text TEXT_HTML root).
Proof. exact body_selection_spec. Qed.
Print Assumptions C16_body_selection_spec.

Example C16_body_selection_hyp : p_multi w_outer = true.
Proof. reflexivity. Qed.
Print Assumptions C16_body_selection_hyp.

Theorem C16_body_is_no_attachment :
  forall (ct : str) (root : part),
    first_text ct root = [] \/
    exists p, In p (walk root) /\ is_attachment p = false /\ p_ctype p = ct /\ p_has p = true /\ first_text ct root = p_text p.
Proof. exact body_never_attachment. Qed.
Print Assumptions C16_body_is_no_attachment.

Theorem C16_body_only_attachments_empty :
  forall root : part, p_multi root = true -> forallb is_attachment (walk root) = true -> get_body_content root = ([], []).
Proof. exact all_attachments_no_body. Qed.
Print Assumptions C16_body_only_attachments_empty.

Theorem C16_body_single_part :
  forall root : part, p_multi root = false ->
    get_body_content root =
      if p_has root then (if str_eqb (p_ctype root) TEXT_HTML then ([], p_text root) else (p_text root, [])) else ([], []).
Proof. exact body_single. Qed.
Print Assumptions C16_body_single_part.

(* "attachments skipped" does not cover what is INSIDE an attached message (finding body-from-attached-message); the
   proposed variant returns no plain body for the same tree *)
Theorem C16_body_outside_attachments_refuted :
  exists root att p, In att (walk root) /\ contains (p_disp att) (s "attachment") = true /\ In p (below att) /\
    C03.Lib.nonempty (p_text p) = true /\ fst (get_body_content root) = p_text p /\
    fst (get_body_content_joined root) = [].
Proof. exact body_inside_attachment. Qed.
Print Assumptions C16_body_outside_attachments_refuted.

(* only the first of several inline text parts is returned; the .eml path (and the proposed variant) joins them all
   (finding eml-vs-mbox:several-inline-text-parts) *)
Theorem C16_body_several_inline_parts :
  fst (get_body_content w_two) = s "first" /\ fst (get_body_content_joined w_two) = s "first" ++ [NL] ++ s "second".
Proof. exact several_inline_parts. Qed.
Print Assumptions C16_body_several_inline_parts.

(* ---- ALTERNATIVE definitions *_joined (fixes/proposed-not-applied/C16-mbox-body-and-attachments.patch, NOT the code at HEAD) *)
Theorem C16_alt_body_joined_spec : forall root : part, get_body_content_joined root = body_spec_joined root.
Proof. exact body_selection_spec_joined. Qed.
Print Assumptions C16_alt_body_joined_spec.

Theorem C16_alt_classify_parts_sound :
  forall root p, (In p (inline_parts root) -> is_attachment_joined p = false /\ p_multi p = false) /\
                 (In p (attachment_parts root) -> is_attachment_joined p = true).
Proof. intros root p. split; [apply inline_parts_sound | apply attachment_parts_sound]. Qed.
Print Assumptions C16_alt_classify_parts_sound.

(* replacing an attachment, anywhere in the tree, by any other attachment leaves both bodies unchanged *)
Theorem C16_alt_body_outside_attachments :
  forall (ctx : list frame) (a a' : part), is_attachment_joined a = true -> is_attachment_joined a' = true ->
    get_body_content_joined (plug ctx a) = get_body_content_joined (plug ctx a').
Proof. exact body_ignores_attachment_contents. Qed.
Print Assumptions C16_alt_body_outside_attachments.

Example C16_alt_body_outside_attachments_hyp : is_attachment_joined w_att = true.
Proof. vm_compute. reflexivity. Qed.
Print Assumptions C16_alt_body_outside_attachments_hyp.

Theorem C16_alt_mbox_attachments :
  forall root : part,
    get_attachments_joined root = map (fun p => (or_default (p_dname p) ATTACHMENT_NAME, p_ctype p)) (attachment_parts root)
    /\ forall p, In p (attachment_parts root) -> is_attachment_joined p = true.
Proof. exact get_attachments_joined_spec. Qed.
Print Assumptions C16_alt_mbox_attachments.

(* ---------------------------------------------------------------- headers *)
(* unfolding inverts folding: first line + continuation lines (each starting with SP/TAB), LF or CRLF *)
Theorem C16_unfold_inverts_folding :
  forall (eol first : str) (conts : list str),
    is_eol eol = true -> no_crlf first = true ->
    forallb (fun c => starts_wsp c && no_crlf c) conts = true ->
    unfold (fold_with eol first conts) = first ++ List.concat conts.
Proof. exact unfold_inverts_folding. Qed.
Print Assumptions C16_unfold_inverts_folding.

Example C16_unfold_hyp_satisfiable :
  forallb (fun c => starts_wsp c && no_crlf c) [s " word two"; [9] ++ s "three"] = true /\ no_crlf (s "Subject one") = true.
Proof. split; vm_compute; reflexivity. Qed.
Print Assumptions C16_unfold_hyp_satisfiable.

(* decode_header_value: declared charset when it decodes, UTF-8 with replacement otherwise; total *)
Theorem C16_decode_fallback :
  forall (decode : str -> str -> dres) (utf8_replace : str -> str) (b : str) (c : option str),
    (exists t, decode b (charset_or_utf8 c) = DOk t /\ decode_fallback decode utf8_replace b c = t) \/
    ((decode b (charset_or_utf8 c) = DLookupError \/ decode b (charset_or_utf8 c) = DUnicodeError) /\
     decode_fallback decode utf8_replace b c = utf8_replace b).
Proof. exact decode_fallback_spec. Qed.
Print Assumptions C16_decode_fallback.

(* address lists: exactly the entries with an address, in order, names decoded *)
Theorem C16_address_list :
  forall (decode_header : str -> list hpart) (decode : str -> str -> dres) (utf8_replace : str -> str)
         (getaddresses : str -> list (str * str)) (v : str),
    parse_email_addresses decode_header decode utf8_replace getaddresses v =
      if C03.Lib.nonempty v then
        map (fun na => (decode_header_value decode_header decode utf8_replace (fst na), snd na))
            (filter (fun na => C03.Lib.nonempty (snd na)) (getaddresses (unfold v)))
      else [].
Proof. exact parse_addresses_spec. Qed.
Print Assumptions C16_address_list.

(* the ISO date of an .mbox message is what parsedate_to_datetime(...).isoformat() gives, verbatim (a date without zone
   information stays naive: nothing is appended), and "" when it refuses the header *)
Theorem C16_mbox_date_field : forall d : str, date_field (Some d) = d /\ date_field None = [].
Proof. intro d. split; reflexivity. Qed.
Print Assumptions C16_mbox_date_field.

(* ---------------------------------------------------------------- EmailContent *)
Theorem C16_full_text_plain_else_html :
  forall subject plain html : str,
    email_full_text (new_email subject plain html) =
      (if C03.Lib.nonempty (strip plain) then strip plain else strip html)
    /\ List.length (email_units (new_email subject plain html)) = 1%nat
    /\ e_subject (new_email subject plain html) = strip subject.
Proof. intros. split; [apply email_full_text_spec | split; [apply email_one_unit | reflexivity]]. Qed.
Print Assumptions C16_full_text_plain_else_html.

(* ---------------------------------------------------------------- attachments *)
(* routing = the router's decision on the file name; the MIME type only when the name is not supported *)
Theorem C16_attachment_routing :
  forall (T : C07.Model.tables) (lower : str -> str) (mime : str -> option str) (a : attachment),
    (forall e, route T lower mime (a_name a) = C07.Model.Extractor e -> choose T lower mime a = Choose e) /\
    (route T lower mime (a_name a) = C07.Model.NotSupported ->
     assoc (a_mime a) (C07.Model.mime_map T) = None -> choose T lower mime a = Skip) /\
    (forall ft, C07.Model.wf T = true -> mime_fallback_ok T = true ->
       lower (ATTACHMENT_DOT ++ ft) = ATTACHMENT_DOT ++ ft ->
       route T lower mime (a_name a) = C07.Model.NotSupported ->
       assoc (a_mime a) (C07.Model.mime_map T) = Some ft ->
       exists e, choose T lower mime a = Choose e /\ In e (map snd (C07.Model.registry T))).
Proof.
  intros T lower mime a. split; [intros e H; exact (choose_by_name T lower mime a e H)|].
  split; [exact (choose_skip T lower mime a)|].
  intros ft W M L H1 H2. exact (mime_fallback_routes T lower mime a ft W M L H1 H2).
Qed.
Print Assumptions C16_attachment_routing.

(* a supported attachment extracts exactly like the attached file on its own (extractor = function of bytes, name) *)
Theorem C16_attachment_same_as_alone :
  forall (T : C07.Model.tables) (lower : str -> str) (mime : str -> option str) (R : Type)
         (run : C07.Model.extractor -> str -> str -> list R * fin) (a : attachment) (e : C07.Model.extractor),
    route T lower mime (a_name a) = C07.Model.Extractor e ->
    alone T lower mime R run (a_name a) (a_data a) = Some (run e (a_data a) (a_name a)) /\
    contribution T lower mime R run a = fst (run e (a_data a) (a_name a)) /\
    fst (iterate_supported_attachments T lower mime R run [a]) = fst (run e (a_data a) (a_name a)).
Proof. exact same_as_alone. Qed.
Print Assumptions C16_attachment_same_as_alone.

(* ... and independently of the other attachments of the message *)
Theorem C16_attachments_independent :
  forall (T : C07.Model.tables) (lower : str -> str) (mime : str -> option str) (R : Type)
         (run : C07.Model.extractor -> str -> str -> list R * fin) (l : list attachment),
    forallb (quiet T lower mime R run) l = true ->
    iterate_supported_attachments T lower mime R run l =
      (List.concat (map (contribution T lower mime R run) l), Completed).
Proof. exact iterate_concat. Qed.
Print Assumptions C16_attachments_independent.

(* attachment i contributes exactly what it contributes on its own, whatever attachments j <> i stand before and
   after it in the message (no state carried from one attachment to the next, e.g. no per-MIME-type cache) *)
Theorem C16_attachment_contribution_context_free :
  forall (T : C07.Model.tables) (lower : str -> str) (mime : str -> option str) (R : Type)
         (run : C07.Model.extractor -> str -> str -> list R * fin) (l1 : list attachment) (a : attachment) (l2 : list attachment),
    forallb (quiet T lower mime R run) (l1 ++ a :: l2) = true ->
    fst (iterate_supported_attachments T lower mime R run (l1 ++ a :: l2)) =
      fst (iterate_supported_attachments T lower mime R run l1) ++ contribution T lower mime R run a
      ++ fst (iterate_supported_attachments T lower mime R run l2)
    /\ fst (iterate_supported_attachments T lower mime R run [a]) = contribution T lower mime R run a.
Proof. exact contribution_context_free. Qed.
Print Assumptions C16_attachment_contribution_context_free.

(* the code before fixes/C16-attachment-by-name.patch dropped every attachment whose MIME type is not in the table,
   whatever its name (finding attachment-supported-name-unlisted-mime) *)
Theorem C16_attachment_unrepaired_gate_refuted :
  forall (T : C07.Model.tables) (lower : str -> str) (mime : str -> option str) (R : Type)
         (run : C07.Model.extractor -> str -> str -> list R * fin) (a : attachment),
    a_flag a = false -> iterate_supported_attachments_unrepaired T lower mime R run [a] = ([], Completed).
Proof. exact unrepaired_gate. Qed.
Print Assumptions C16_attachment_unrepaired_gate_refuted.

(* ---------------------------------------------------------------- .eml attachments *)
(* one EmailAttachment per mailparser attachment record, in order: none is dropped (an empty payload included), none
   changes place; file name and MIME type with their defaults *)
Theorem C16_eml_attachments_count :
  forall (T : C07.Model.tables) (recs : list mp_attachment),
    List.length (eml_attachments T recs) = List.length recs /\
    forall i a, nth_error recs i = Some a -> nth_error (eml_attachments T recs) i = Some (eml_attachment T a).
Proof. exact eml_attachments_count. Qed.
Print Assumptions C16_eml_attachments_count.

(* the attachment loop of _read_eml_format, as a skeleton translated from today's ast (Gen/C16Tables.v, obligation
   C16_eml_attachment_loop_appends_once in Inst.v): a body with exactly one top-level append and no way to leave the
   iteration early appends exactly once on EVERY path, so n mailparser records give exactly n EmailAttachments and the
   loop runs to its end *)
Theorem C16_eml_loop_one_per_record :
  forall (body : list st) (n : nat), appends_once body = true -> all_are (n, FNormal) (loop_outs body n).
Proof. exact loop_count. Qed.
Print Assumptions C16_eml_loop_one_per_record.

Example C16_eml_loop_hyp : appends_once [SSkip; SIf [SIf [SSkip] [SSkip]] [SSkip]; SSkip; SAppend] = true
                           /\ appends_once [SSkip; SIf [SContinue] []; SAppend] = false.
Proof. split; reflexivity. Qed.
Print Assumptions C16_eml_loop_hyp.

(* exact bytes: an attachment handed over by mailparser as base64 text comes back as exactly its bytes (b"" included),
   for every base64 codec pair with decode (encode d) = d; bytes payloads of non-binary records pass through unchanged *)
Theorem C16_eml_attachment_bytes_exact :
  forall b64decode b64encode utf8 : str -> str,
    (forall d, b64decode (b64encode d) = d) ->
    forall d, eml_attachment_data b64decode utf8 true (PStr (b64encode d)) = d.
Proof. exact eml_attachment_bytes_exact. Qed.
Print Assumptions C16_eml_attachment_bytes_exact.

Theorem C16_eml_attachment_bytes_passthrough :
  forall (b64decode utf8 : str -> str) (b : str), eml_attachment_data b64decode utf8 false (PBytes b) = b.
Proof. exact eml_attachment_bytes_passthrough. Qed.
Print Assumptions C16_eml_attachment_bytes_passthrough.

(* ---------------------------------------------------------------- .msg (msg_parser / olefile are oracles) *)
(* "Name <address>" without further angle brackets: the name (outer white space and quotes removed) and the address *)
Theorem C16_msg_recipient_angle :
  forall name addr : str,
    no_angle name = true -> no_angle addr = true -> C03.Lib.nonempty addr = true ->
    str_eqb (strip (name ++ LT :: addr ++ [GT])) (name ++ LT :: addr ++ [GT]) = true ->
    parse_single_recipient (name ++ LT :: addr ++ [GT]) = Some (strip_quotes (strip name), strip addr).
Proof. exact recipient_angle. Qed.
Print Assumptions C16_msg_recipient_angle.

Example C16_msg_recipient_angle_hyp :
  let name := [34] ++ s "John Doe" ++ [34; 32] in let addr := s "john@example.com" in
  no_angle name = true /\ no_angle addr = true /\ C03.Lib.nonempty addr = true /\
  str_eqb (strip (name ++ LT :: addr ++ [GT])) (name ++ LT :: addr ++ [GT]) = true /\
  parse_single_recipient (name ++ LT :: addr ++ [GT]) = Some (s "John Doe", s "john@example.com").
Proof. exact recipient_angle_hyp. Qed.
Print Assumptions C16_msg_recipient_angle_hyp.

(* a recipient string is cut at EVERY ";" and "," and the pieces are parsed independently, in order *)
Theorem C16_msg_recipients_split :
  forall (a : str) (sep : N) (b : str),
    is_sep sep = true -> forallb (fun c => negb (is_sep c)) a = true ->
    parse_multi_recipients (a ++ sep :: b) =
      keep_recipient (parse_single_recipient a) ++ flat_map (fun p => keep_recipient (parse_single_recipient p)) (split_seps b).
Proof. exact recipients_split. Qed.
Print Assumptions C16_msg_recipients_split.

(* ... so a quoted display name containing a comma is torn apart (finding msg-recipient-quoted-comma) *)
Theorem C16_msg_quoted_comma_refuted :
  parse_multi_recipients w_quoted = [([34] ++ s "Doe", []); (s "John", s "j@x.test")].
Proof. exact quoted_comma_splits. Qed.
Print Assumptions C16_msg_quoted_comma_refuted.

(* body mapping: HTML detected -> (text of the HTML, the HTML); otherwise (the body, "") ; plain body stripped *)
Theorem C16_msg_body_mapping :
  forall (html_to_text : str -> str) (lowered raw : str),
    msg_bodies html_to_text lowered raw =
      if looks_like_html raw lowered then (strip (html_to_text raw), raw) else (strip raw, []).
Proof. exact msg_bodies_spec. Qed.
Print Assumptions C16_msg_body_mapping.

Theorem C16_msg_attachment_mapping :
  forall long short mime k : str,
    msg_attachment long short mime k =
      ((if C03.Lib.nonempty long then long else if C03.Lib.nonempty short then short else ATTACHMENT_DASH ++ k),
       (if C03.Lib.nonempty mime then mime else s "application/octet-stream")).
Proof. exact msg_attachment_spec. Qed.
Print Assumptions C16_msg_attachment_mapping.
