(* C16 — obligations re-decided by the kernel for what is generated from /repo on this run
   (Gen/C16Tables.v: routing tables + MIME map, the source of the two regular expressions the model mirrors). *)
From Coq Require Import ZArith List Bool.
From S2T Require Import Lib.PyStr C03.Lib C16.Model C16.Loop Gen.C16Tables.
From S2T Require C07.Model.
Import ListNotations.
Open Scope N_scope.

(* premise of C16_attachment_routing: the router tables are well-formed *)
Theorem C16_tables_wf : C07.Model.wf T = true.
Proof. vm_compute. reflexivity. Qed.
Print Assumptions C16_tables_wf.

(* every entry of MIME_TYPE_MAPPING reaches an extractor through "attachment.<type>" by extension alone *)
Theorem C16_mime_fallback_ok : mime_fallback_ok T = true.
Proof. vm_compute. reflexivity. Qed.
Print Assumptions C16_mime_fallback_ok.

(* ... and those paths are ASCII without upper-case letters, so str.lower is the identity on them *)
Definition ascii_lower_fixed (x : str) : bool := forallb (fun c => (c <? 65) || ((90 <? c) && (c <? 128))) x.
Theorem C16_fallback_paths_lower_case :
  forallb (fun mf => ascii_lower_fixed (ATTACHMENT_DOT ++ snd mf)) (C07.Model.mime_map T) = true.
Proof. vm_compute. reflexivity. Qed.
Print Assumptions C16_fallback_paths_lower_case.

(* the model of MBOX_FROM_PATTERN (C03.Extract.is_from_line) and of _HEADER_FOLD_PATTERN (Model.unfold) was written
   for exactly these regular expressions *)
Theorem C16_from_pattern_is_modelled :
  str_eqb from_pattern (s "^From \S+.*\d{4}\r?\n") = true /\ from_pattern_multiline = true /\ from_pattern_bytes = true.
Proof. vm_compute. repeat split; reflexivity. Qed.
Print Assumptions C16_from_pattern_is_modelled.

Theorem C16_fold_pattern_is_modelled : str_eqb fold_pattern (s "\r?\n(?=[ \t])") = true /\ fold_pattern_flags_plain = true.
Proof. vm_compute. repeat split; reflexivity. Qed.
Print Assumptions C16_fold_pattern_is_modelled.

(* the literals get_body_content / the attachment defaults compare against *)
Theorem C16_literals :
  str_eqb eml_default_filename ATTACHMENT_NAME = true /\ str_eqb eml_default_mime OCTET_STREAM = true.
Proof. vm_compute. split; reflexivity. Qed.
Print Assumptions C16_literals.

(* today's attachment loop of _read_eml_format (translated from the ast, fail-closed: unknown statements become SUnknown)
   appends exactly one EmailAttachment per iteration and cannot leave an iteration early: premise of
   C16_eml_loop_one_per_record *)
Theorem C16_eml_attachment_loop_appends_once : appends_once attachment_loop = true.
Proof. vm_compute. reflexivity. Qed.
Print Assumptions C16_eml_attachment_loop_appends_once.
