(* C16 — boolean case checkers for the differential correspondence (oracle values are recorded tables). *)
From Coq Require Import ZArith List Bool.
From S2T Require Import Lib.PyStr C03.Lib C03.Extract C16.Model.
From S2T Require C07.Model.
Import ListNotations.
Open Scope N_scope.

Fixpoint strs_eqb (a b : list str) : bool :=
  match a, b with
  | [], [] => true
  | x :: a', y :: b' => str_eqb x y && strs_eqb a' b'
  | _, _ => false
  end.

Fixpoint pairs_eqb (a b : list (str * str)) : bool :=
  match a, b with
  | [], [] => true
  | (x1, x2) :: a', (y1, y2) :: b' => str_eqb x1 y1 && str_eqb x2 y2 && pairs_eqb a' b'
  | _, _ => false
  end.

(* MBOX_FROM_PATTERN on one physical line; _split_mbox_messages on a whole mailbox *)
Definition from_line_case (c : str * bool) : bool := Bool.eqb (is_from_line (fst c)) (snd c).
Definition split_case (c : str * list str) : bool := strs_eqb (split_mbox_messages (fst c)) (snd c).

(* _unfold_header *)
Definition unfold_case (c : str * str) : bool := str_eqb (unfold (fst c)) (snd c).

(* get_body_content (HEAD) on a recorded MIME tree: (root, (plain, html)) *)
Definition body_case (c : part * (str * str)) : bool :=
  let '(root, (bp, bh)) := c in
  let '(mp, mh) := get_body_content root in str_eqb mp bp && str_eqb mh bh.

(* recorded oracles *)
Definition dh_table := list (str * list hpart).           (* decode_header: argument -> parts *)
Definition dec_table := list (str * (str * dres)).        (* bytes -> (charset, result) ; several rows per bytes *)
Definition u8_table := list (str * str).

Definition dh_of (t : dh_table) (v : str) : list hpart := match assoc v t with Some p => p | None => [] end.
Fixpoint dec_of (t : dec_table) (b cs : str) : dres :=
  match t with
  | [] => DLookupError
  | (b', (cs', r)) :: t' => if str_eqb b b' && str_eqb cs cs' then r else dec_of t' b cs
  end.
Definition u8_of (t : u8_table) (b : str) : str := match assoc b t with Some x => x | None => [] end.

Definition header_case (c : dh_table * dec_table * u8_table * str * str) : bool :=
  let '(dh, dc, u8, v, expected) := c in
  str_eqb (decode_header_value (dh_of dh) (dec_of dc) (u8_of u8) v) expected.

(* parse_email_addresses: getaddresses is recorded for the unfolded value *)
Definition addr_case (c : dh_table * dec_table * u8_table * str * list (str * str) * list (str * str)) : bool :=
  let '(dh, dc, u8, v, ga, expected) := c in
  pairs_eqb (parse_email_addresses (dh_of dh) (dec_of dc) (u8_of u8) (fun _ => ga) v) expected.

(* EmailContent: (subject, plain, html) -> (subject', plain', [(unit text, body type)], full text) *)
Definition email_case (c : str * str * str * (str * str * list (str * str) * str)) : bool :=
  let '(sj, pl, ht, (sj', pl', us, ft)) := c in
  let e := new_email sj pl ht in
  str_eqb (e_subject e) sj' && str_eqb (e_plain e) pl' && pairs_eqb (email_units e) us && str_eqb (email_full_text e) ft.

(* iterate_supported_attachments: which extractor runs.  lower/mime are recorded tables. *)
Definition lower_of (t : list (str * str)) (p : str) : str := match assoc p t with Some x => x | None => p end.
Definition mime_of (t : list (str * option str)) (p : str) : option str := match assoc p t with Some x => x | None => None end.

Definition choice_eqb (c : choice) (e : option (option (str * str))) : bool :=
  match c, e with
  | Choose (m, f), Some (Some (m', f')) => str_eqb m m' && str_eqb f f'
  | Skip, Some None => true
  | RaiseNotSupported, None => true
  | _, _ => false
  end.

Definition att_case (T : C07.Model.tables)
    (c : list (str * str) * list (str * option str) * (str * str * bool) * option (option (str * str))) : bool :=
  let '(lt, mt, (name, mtype, flag), expected) := c in
  choice_eqb (choose T (lower_of lt) (mime_of mt) (mkAtt name mtype [] flag)) expected.

(* _read_eml_format: list filters, body joins (then __post_init__), attachment defaults *)
Fixpoint triples_eqb (a b : list (str * str * bool)) : bool :=
  match a, b with
  | [], [] => true
  | (x1, x2, x3) :: a', (y1, y2, y3) :: b' => str_eqb x1 y1 && str_eqb x2 y2 && Bool.eqb x3 y3 && triples_eqb a' b'
  | _, _ => false
  end.

Definition eml_case (T : C07.Model.tables)
    (c : list (str * str) * list (str * str) * list str * list str * list (str * str) *
         (list (str * str) * list (str * str) * str * str * list (str * str * bool))) : bool :=
  let '(to, cc, tp, th, atts, (to', cc', plain', html', atts')) := c in
  pairs_eqb to to' && pairs_eqb (eml_filter cc) cc'
  && str_eqb (strip (eml_body tp)) plain' && str_eqb (eml_body th) html'
  && triples_eqb (eml_attachments T (map (fun a => mkMpAtt (fst a) (snd a)) atts)) atts'.

(* a whole message of several attachments: the model's iterate_supported_attachments with a marker oracle
   (every extractor run yields its own identity and the file name it was given), against the sequence of
   (extractor, file name) runs observed on the implementation.  None = the iteration raised. *)
Fixpoint runs_eqb (a b : list (C07.Model.extractor * str)) : bool :=
  match a, b with
  | [], [] => true
  | ((m, f), n) :: a', ((m', f'), n') :: b' => str_eqb m m' && str_eqb f f' && str_eqb n n' && runs_eqb a' b'
  | _, _ => false
  end.

Definition marker_run (e : C07.Model.extractor) (data name : str) : list (C07.Model.extractor * str) * fin := ([(e, name)], FDone).

Definition att_list_case (T : C07.Model.tables)
    (c : list (str * str) * list (str * option str) * list (str * str * bool) * option (list (C07.Model.extractor * str))) : bool :=
  let '(lt, mt, atts, expected) := c in
  let l := map (fun a => let '(n, m, f) := a in mkAtt n m [] f) atts in
  let '(rs, o) := iterate_supported_attachments T (lower_of lt) (mime_of mt) _ marker_run l in
  match o, expected with
  | Completed, Some ex =>
      runs_eqb rs ex
      (* C16_attachments_independent on this input: the whole = the concatenation of the parts *)
      && runs_eqb rs (List.concat (map (contribution T (lower_of lt) (mime_of mt) _ marker_run) l))
  | RaisedNotSupported, None => true
  | _, _ => false
  end.

(* .msg: _parse_single_recipient, _parse_multi_recipients (string / list), _looks_like_html, field mapping *)
Definition opt_pair_eqb (a b : option (str * str)) : bool :=
  match a, b with
  | Some (x1, x2), Some (y1, y2) => str_eqb x1 y1 && str_eqb x2 y2
  | None, None => true
  | _, _ => false
  end.
Definition msg_single_case (c : str * option (str * str)) : bool := opt_pair_eqb (parse_single_recipient (fst c)) (snd c).
Definition msg_multi_case (c : list str * list (str * str)) : bool := pairs_eqb (parse_multi_recipients_list (fst c)) (snd c).
Definition msg_html_case (c : str * str * bool) : bool := let '(text, lowered, r) := c in Bool.eqb (looks_like_html text lowered) r.
(* read_msg_format_mail over a recorded msg_parser record:
   (sender list, to list, body, lowered, html_to_text(body), [(long, short, mime, index)]) ->
   (from, to, body_plain, body_html, [(filename, mime type)]) *)
Definition msg_case (c : list str * list str * str * str * str * list (str * str * str * str) *
                         ((str * str) * list (str * str) * str * str * list (str * str))) : bool :=
  let '(sender, to, body, lowered, h2t, atts, (frm, to', plain, html, atts')) := c in
  let '(bp, bh) := msg_bodies (fun _ => h2t) lowered body in
  opt_pair_eqb (Some (msg_sender sender)) (Some frm) && pairs_eqb (parse_multi_recipients_list to) to'
  && str_eqb bp plain && str_eqb bh html
  && pairs_eqb (map (fun a => let '(l, sh, m, k) := a in msg_attachment l sh m k) atts) atts'.

(* the Date field of parse_email_message: parsedate_to_datetime(...).isoformat() (recorded; None = it raised) *)
Definition date_case (c : option str * str) : bool := str_eqb (date_field (fst c)) (snd c).

(* _read_eml_format over an arbitrary (stubbed) mailparser record: per attachment (filename, content type, binary, payload)
   -> (filename, mime type, flag, data).  b64decode / utf-8 encoding are recorded tables. *)
Definition tbl_of (t : list (str * str)) (x : str) : str := match assoc x t with Some y => y | None => [] end.
Fixpoint quads_eqb (a b : list (str * str * bool * str)) : bool :=
  match a, b with
  | [], [] => true
  | (x1, x2, x3, x4) :: a', (y1, y2, y3, y4) :: b' =>
      str_eqb x1 y1 && str_eqb x2 y2 && Bool.eqb x3 y3 && str_eqb x4 y4 && quads_eqb a' b'
  | _, _ => false
  end.
Definition eml_record_case (T : C07.Model.tables)
    (c : list (str * str) * list (str * str) * list (str * str * bool * mp_payload) * list (str * str * bool * str)) : bool :=
  let '(b64, u8, recs, expected) := c in
  quads_eqb (map (fun r => let '(fn, ct, bin, p) := r in
                           let '(n, m, fl) := eml_attachment T (mkMpAtt fn ct) in
                           (n, m, fl, eml_attachment_data (tbl_of b64) (tbl_of u8) bin p)) recs) expected.

(* the single-part body of get_body_content: payload bytes, declared charset, recorded codec results *)
Definition payload_case (c : dec_table * u8_table * str * option str * str) : bool :=
  let '(dc, u8, payload, cs, expected) := c in
  str_eqb (payload_text (dec_of dc) (u8_of u8) payload cs) expected.
