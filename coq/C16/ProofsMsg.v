(* C16 — .msg: recipient parsing and body mapping. *)
From Coq Require Import ZArith List Bool Lia.
From S2T Require Import Lib.PyStr C03.Lib C03.Extract C16.Model.
Import ListNotations.
Open Scope N_scope.

(* ------------------------------------------------------------------ re.split(r"[;,]") *)
Lemma split_seps_acc_app a : forall cur sep b, is_sep sep = true -> forallb (fun c => negb (is_sep c)) a = true ->
  split_seps_acc (a ++ sep :: b) cur = (rev cur ++ a) :: split_seps_acc b [].
Proof.
  induction a as [|c a IH]; intros cur sep b Hs Ha; cbn [app split_seps_acc].
  - rewrite Hs. rewrite app_nil_r. reflexivity.
  - cbn [forallb] in Ha. apply andb_true_iff in Ha as [H1 H2]. apply negb_true_iff in H1. rewrite H1.
    rewrite IH by assumption. cbn [rev]. rewrite <- app_assoc. reflexivity.
Qed.

Lemma split_seps_acc_nosep a : forall cur, forallb (fun c => negb (is_sep c)) a = true ->
  split_seps_acc a cur = [rev cur ++ a].
Proof.
  induction a as [|c a IH]; intros cur Ha; cbn [split_seps_acc].
  - rewrite app_nil_r. reflexivity.
  - cbn [forallb] in Ha. apply andb_true_iff in Ha as [H1 H2]. apply negb_true_iff in H1. rewrite H1.
    rewrite IH by assumption. cbn [rev]. rewrite <- app_assoc. reflexivity.
Qed.

(* the recipient string is cut at EVERY ";" and ",": a first piece without separator is parsed on its own *)
Lemma recipients_split a sep b :
  is_sep sep = true -> forallb (fun c => negb (is_sep c)) a = true ->
  parse_multi_recipients (a ++ sep :: b) =
    keep_recipient (parse_single_recipient a) ++ flat_map (fun p => keep_recipient (parse_single_recipient p)) (split_seps b).
Proof.
  intros Hs Ha. unfold parse_multi_recipients.
  assert (N : C03.Lib.nonempty (a ++ sep :: b) = true) by (destruct a; reflexivity).
  rewrite N. unfold split_seps. rewrite split_seps_acc_app by assumption. reflexivity.
Qed.

(* ... also inside a quoted display name: "Doe, John" <j@x.test> becomes two entries (finding msg-recipient-quoted-comma) *)
Definition w_quoted : str := [34] ++ s "Doe, John" ++ [34] ++ s " <j@x.test>".
Lemma quoted_comma_splits :
  parse_multi_recipients w_quoted = [([34] ++ s "Doe", []); (s "John", s "j@x.test")].
Proof. vm_compute. reflexivity. Qed.

(* ------------------------------------------------------------------ "Name <address>" *)
Lemma takeWhile_all_id {A} (f : A -> bool) l : forallb f l = true -> takeWhile f l = l.
Proof. induction l as [|x l IH]; cbn; [reflexivity|]. intro H. apply andb_true_iff in H as [H1 H2]. rewrite H1, IH by exact H2. reflexivity. Qed.
Lemma dropWhile_all_nil {A} (f : A -> bool) l : forallb f l = true -> dropWhile f l = [].
Proof. induction l as [|x l IH]; cbn; [reflexivity|]. intro H. apply andb_true_iff in H as [H1 H2]. rewrite H1. apply IH. exact H2. Qed.
Lemma takeWhile_app_stop {A} (f : A -> bool) a x b : forallb f a = true -> f x = false -> takeWhile f (a ++ x :: b) = a.
Proof. induction a as [|y a IH]; cbn; intros H Hx; [rewrite Hx; reflexivity|]. apply andb_true_iff in H as [H1 H2]. rewrite H1, IH by assumption. reflexivity. Qed.
Lemma dropWhile_app_stop {A} (f : A -> bool) a x b : forallb f a = true -> f x = false -> dropWhile f (a ++ x :: b) = x :: b.
Proof. induction a as [|y a IH]; cbn; intros H Hx; [rewrite Hx; reflexivity|]. apply andb_true_iff in H as [H1 H2]. rewrite H1. apply IH; assumption. Qed.
Lemma forallb_rev {A} (f : A -> bool) l : forallb f (rev l) = forallb f l.
Proof. induction l as [|x l IH]; [reflexivity|]. cbn [rev]. rewrite forallb_app, IH. cbn. rewrite andb_true_r. apply andb_comm. Qed.

Definition no_angle (x : str) : bool := forallb (fun c => not_gt c && not_lt c) x.

Lemma no_angle_split x : no_angle x = true -> forallb not_gt x = true /\ forallb not_lt x = true.
Proof.
  unfold no_angle. rewrite !forallb_forall. intro H. split; intros c Hc; specialize (H c Hc); apply andb_true_iff in H; tauto.
Qed.

(* the angle-bracket match on  name <addr>  (no other angle brackets): name part and address, exactly *)
Lemma angle_match_name_addr name addr :
  no_angle name = true -> no_angle addr = true -> C03.Lib.nonempty addr = true ->
  angle_match (name ++ LT :: addr ++ [GT]) = Some (name, addr).
Proof.
  intros Hn Ha Hne. destruct (no_angle_split _ Hn) as [Ng Nl]. destruct (no_angle_split _ Ha) as [Ag Al].
  unfold angle_match.
  assert (E : rev (name ++ LT :: addr ++ [GT]) = GT :: rev (name ++ LT :: addr)).
  { replace (name ++ LT :: addr ++ [GT]) with ((name ++ LT :: addr) ++ [GT]) by (rewrite <- app_assoc; reflexivity).
    rewrite rev_app_distr. reflexivity. }
  rewrite E. rewrite N.eqb_refl.
  assert (G : forallb not_gt (rev (name ++ LT :: addr)) = true).
  { rewrite forallb_rev, forallb_app. cbn [forallb]. rewrite Ng, Ag. reflexivity. }
  rewrite (takeWhile_all_id _ _ G), (dropWhile_all_nil _ _ G), rev_involutive. cbn [rev app].
  rewrite (dropWhile_app_stop not_lt name LT addr Nl eq_refl), (takeWhile_app_stop not_lt name LT addr Nl eq_refl).
  rewrite Hne. reflexivity.
Qed.

Lemma msg_bodies_spec html_to_text lowered raw :
  msg_bodies html_to_text lowered raw =
    if looks_like_html raw lowered then (strip (html_to_text raw), raw) else (strip raw, []).
Proof. reflexivity. Qed.

Lemma msg_plain_body_is_plain html_to_text lowered raw :
  looks_like_html raw lowered = false -> msg_bodies html_to_text lowered raw = (strip raw, []).
Proof. intro H. unfold msg_bodies. rewrite H. reflexivity. Qed.

Lemma msg_attachment_spec long short mime k :
  msg_attachment long short mime k =
    ((if C03.Lib.nonempty long then long else if C03.Lib.nonempty short then short else ATTACHMENT_DASH ++ k),
     (if C03.Lib.nonempty mime then mime else s "application/octet-stream")).
Proof. reflexivity. Qed.

Lemma recipient_angle name addr :
  no_angle name = true -> no_angle addr = true -> C03.Lib.nonempty addr = true ->
  str_eqb (strip (name ++ LT :: addr ++ [GT])) (name ++ LT :: addr ++ [GT]) = true ->
  parse_single_recipient (name ++ LT :: addr ++ [GT]) = Some (strip_quotes (strip name), strip addr).
Proof.
  intros Hn Ha Hne Hs. apply str_eqb_eq in Hs. unfold parse_single_recipient. rewrite Hs.
  assert (N : C03.Lib.nonempty (name ++ LT :: addr ++ [GT]) = true) by (destruct name; reflexivity).
  rewrite N. rewrite angle_match_name_addr by assumption. reflexivity.
Qed.

Example recipient_angle_hyp :
  let name := [34] ++ s "John Doe" ++ [34; 32] in let addr := s "john@example.com" in
  no_angle name = true /\ no_angle addr = true /\ C03.Lib.nonempty addr = true /\
  str_eqb (strip (name ++ LT :: addr ++ [GT])) (name ++ LT :: addr ++ [GT]) = true /\
  parse_single_recipient (name ++ LT :: addr ++ [GT]) = Some (s "John Doe", s "john@example.com").
Proof. vm_compute. repeat split; reflexivity. Qed.
