(* C16 — skeleton of the attachment loop of eml_email_extractor._read_eml_format (generated from the ast into
   Gen/C16Tables.v) and what "one EmailAttachment per mailparser record" means for it.  Definitions + proofs. *)
From Coq Require Import List Bool Arith Lia.
Import ListNotations.

Inductive st := SAppend | SSkip | SIf (a b : list st) | SContinue | SBreak | SRaise | SUnknown.
Inductive flow := FNormal | FContinue | FBreak | FRaise | FUnknown.

(* all possible (number of appends, how the body is left) outcomes of one iteration; an `if` may go either way *)
Definition seq_outs (first : list (nat * flow)) (rest : list (nat * flow)) : list (nat * flow) :=
  flat_map (fun o => match snd o with
                     | FNormal => map (fun o' => (fst o + fst o', snd o')) rest
                     | _ => [o]
                     end) first.

Fixpoint outs_st (x : st) : list (nat * flow) :=
  let fix outs_list (l : list st) : list (nat * flow) :=
    match l with [] => [(0, FNormal)] | y :: r => seq_outs (outs_st y) (outs_list r) end in
  match x with
  | SAppend => [(1, FNormal)]
  | SSkip => [(0, FNormal)]
  | SIf a b => outs_list a ++ outs_list b
  | SContinue => [(0, FContinue)]
  | SBreak => [(0, FBreak)]
  | SRaise => [(0, FRaise)]
  | SUnknown => [(0, FUnknown)]
  end.
Fixpoint outs (l : list st) : list (nat * flow) :=
  match l with [] => [(0, FNormal)] | y :: r => seq_outs (outs_st y) (outs r) end.

(* decidable shape: statements that neither append nor leave the iteration *)
Fixpoint quiet_st (x : st) : bool :=
  match x with
  | SSkip => true
  | SIf a b => forallb quiet_st a && forallb quiet_st b
  | _ => false
  end.
Definition is_append (x : st) : bool := match x with SAppend => true | _ => false end.
(* exactly one append, at the top level of the body, everything else quiet *)
Definition appends_once (body : list st) : bool :=
  Nat.eqb (List.length (filter is_append body)) 1 && forallb (fun x => is_append x || quiet_st x) body.

Definition all_are (o : nat * flow) (l : list (nat * flow)) : Prop := l <> [] /\ Forall (fun x => x = o) l.

Lemma seq_outs_all a n b m : all_are (n, FNormal) a -> all_are (m, FNormal) b -> all_are (n + m, FNormal) (seq_outs a b).
Proof.
  intros [Na Fa] [Nb Fb]. unfold seq_outs. split.
  - destruct a as [|x a]; [contradiction|]. inversion Fa; subst. cbn. destruct b; [contradiction|]. cbn. discriminate.
  - apply Forall_forall. intros o Ho. apply in_flat_map in Ho as [x [Hx Ho]].
    rewrite Forall_forall in Fa. rewrite (Fa x Hx) in Ho. cbn in Ho.
    apply in_map_iff in Ho as [y [<- Hy]]. rewrite Forall_forall in Fb. rewrite (Fb y Hy). reflexivity.
Qed.

Lemma app_all o a b : all_are o a -> all_are o b -> all_are o (a ++ b).
Proof. intros [Na Fa] [Nb Fb]. split; [destruct a; [contradiction | discriminate]|]. apply Forall_app. split; assumption. Qed.

Fixpoint st_ind' (P : st -> Prop) (base : forall x, (match x with SIf _ _ => False | _ => True end) -> P x)
    (step : forall a b, Forall P a -> Forall P b -> P (SIf a b)) (x : st) : P x :=
  match x with
  | SIf a b =>
      step a b
        ((fix go (l : list st) : Forall P l := match l with [] => Forall_nil P | k :: r => Forall_cons k (st_ind' P base step k) (go r) end) a)
        ((fix go (l : list st) : Forall P l := match l with [] => Forall_nil P | k :: r => Forall_cons k (st_ind' P base step k) (go r) end) b)
  | y => base y I
  end.

Lemma outs_list_eq l :
  (fix outs_list (l : list st) : list (nat * flow) :=
     match l with [] => [(0, FNormal)] | y :: r => seq_outs (outs_st y) (outs_list r) end) l = outs l.
Proof. induction l as [|y r IH]; [reflexivity|]. cbn [outs]. rewrite <- IH. reflexivity. Qed.

Lemma quiet_list_outs l : Forall (fun x => quiet_st x = true -> all_are (0, FNormal) (outs_st x)) l ->
  forallb quiet_st l = true -> all_are (0, FNormal) (outs l).
Proof.
  induction 1 as [|x l Hx _ IH]; intro Q; cbn [outs].
  - split; [discriminate | repeat constructor].
  - cbn [forallb] in Q. apply andb_true_iff in Q as [Q1 Q2].
    change (0, FNormal) with (0 + 0, FNormal). apply seq_outs_all; [apply Hx; exact Q1 | apply IH; exact Q2].
Qed.

Lemma quiet_outs x : quiet_st x = true -> all_are (0, FNormal) (outs_st x).
Proof.
  induction x as [x Hx | a b IHa IHb] using st_ind'.
  - destruct x; try discriminate; try contradiction. intros _. split; [discriminate | repeat constructor].
  - intro Q. cbn [quiet_st] in Q. apply andb_true_iff in Q as [Qa Qb].
    cbn [outs_st]. rewrite !outs_list_eq. apply app_all; apply quiet_list_outs; assumption.
Qed.

Lemma body_outs body k :
  forallb (fun x => is_append x || quiet_st x) body = true -> List.length (filter is_append body) = k ->
  all_are (k, FNormal) (outs body).
Proof.
  revert k. induction body as [|x r IH]; intros k Q L; cbn [outs].
  - cbn in L. subst k. split; [discriminate | repeat constructor].
  - cbn [forallb] in Q. apply andb_true_iff in Q as [Q1 Q2]. cbn [filter] in L.
    destruct (is_append x) eqn:A.
    + destruct x; try discriminate. cbn [List.length] in L. destruct k as [|k]; [discriminate|]. injection L as L.
      change (S k, FNormal) with (1 + k, FNormal). apply seq_outs_all; [|apply IH; assumption].
      split; [discriminate | repeat constructor].
    + cbn [orb] in Q1. change (k, FNormal) with (0 + k, FNormal). apply seq_outs_all; [apply quiet_outs; exact Q1 | apply IH; assumption].
Qed.

Lemma appends_once_sound body : appends_once body = true -> all_are (1, FNormal) (outs body).
Proof.
  unfold appends_once. intro H. apply andb_true_iff in H as [H1 H2]. apply Nat.eqb_eq in H1. apply body_outs; assumption.
Qed.

(* n iterations of a body all of whose outcomes are (1, Normal): exactly n appends, the loop runs to its end *)
Fixpoint loop_outs (body : list st) (n : nat) : list (nat * flow) :=
  match n with O => [(0, FNormal)] | S n' => seq_outs (outs body) (loop_outs body n') end.
Lemma loop_count body n : appends_once body = true -> all_are (n, FNormal) (loop_outs body n).
Proof.
  intro H. induction n as [|n IH]; cbn [loop_outs]; [split; [discriminate | repeat constructor]|].
  change (S n, FNormal) with (1 + n, FNormal). apply seq_outs_all; [apply appends_once_sound; exact H | exact IH].
Qed.
