(* C04 — EPUB chapter numbers: positive, strictly increasing, equal to the 1-based spine position. *)
From S2T Require Import Lib.PyStr C04.Model C04.ModelEpub.
From Coq Require Import List NArith ZArith Bool Lia Sorted.
Import ListNotations.
Open Scope Z_scope.

Lemma number_spine_spec p spine : forall n i k,
  In (i, k) (number_spine p n spine) <->
  exists j : nat, nth_error spine j = Some i /\ p i = true /\ k = n + 1 + Z.of_nat j.
Proof.
  induction spine as [|x r IH]; intros n i k; cbn [number_spine].
  - split; [intros [] | intros [j [H _]]; destruct j; discriminate].
  - rewrite in_app_iff, IH. split.
    + intros [H|[j [A [B C]]]].
      * destruct (p x) eqn:E; [|destruct H]. destruct H as [H|[]]. inversion H; subst. exists 0%nat. simpl. repeat split; [exact E | lia].
      * exists (S j). simpl. repeat split; [exact A | exact B | lia].
    + intros [j [A [B C]]]. destruct j as [|j].
      * simpl in A. inversion A; subst. left. rewrite B. left. f_equal. lia.
      * right. exists j. simpl in A. repeat split; [exact A | exact B | lia].
Qed.

Lemma number_spine_gt p spine n i k : In (i, k) (number_spine p n spine) -> n < k.
Proof. intro H. apply number_spine_spec in H as [j [_ [_ ->]]]. lia. Qed.

Lemma number_spine_sorted p spine : forall n, StronglySorted Z.lt (map snd (number_spine p n spine)).
Proof.
  induction spine as [|x r IH]; intro n; cbn [number_spine]; [constructor|].
  destruct (p x); cbn [app map]; [|apply IH].
  constructor; [apply IH|]. apply Forall_forall. intros k H. apply in_map_iff in H as [[i k'] [<- H]].
  apply number_spine_gt in H. simpl. lia.
Qed.

Lemma epub_units_ge1 p spine i k : In (i, k) (epub_units p spine) -> 1 <= k.
Proof. unfold epub_units. intro H. apply number_spine_gt in H. lia. Qed.
