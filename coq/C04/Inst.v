(* C04 — obligations re-decided by the kernel for the tables generated from the repository on this run
   (Gen/C04Tables.v): which variant of the three repaired spots the tree has, table well-formedness,
   the known witnesses evaluated on today's tables. *)
From S2T Require Import Lib.PyStr C04.Model C04.ModelFloat C04.ModelPath C04.ModelRtf C04.ModelMeta C04.Corr
  C04.ProofsRtf Gen.C04Tables.
From Coq Require Import List NArith ZArith Bool.
Import ListNotations.
Open Scope N_scope.

Definition isspace_g := isspace_of spaces.
Definition decval_g := decval_of decimals.
Definition nines_cm : str := repeat 57 400 ++ s "cm".
Definition emoji_rtf : str := [92] ++ s "u55357?" ++ [92] ++ s "u56832? x".
Definition ascii_alpha (c : N) : bool := ((65 <=? c) && (c <=? 90)) || ((97 <=? c) && (c <=? 122)).
Definition ascii_digit (c : N) : bool := (48 <=? c) && (c <=? 57).

(* premise of C04_odf_length_total: the tree guards the conversion against non-finite values *)

(* the known witness (400 nines + "cm") on today's unit table: no pixel size, no exception *)

(* … and the same table without the guard raises: the guard is what makes the accessor total *)
Theorem C04_odf_overflow_unguarded :
  odf_px isspace_g decval_g {| units := units odf_T; guarded := false |} nines_cm = Raise OverflowError.
Proof. vm_compute. reflexivity. Qed.
Print Assumptions C04_odf_overflow_unguarded.

(* premise of C04_rtf_output_utf8able *)

Theorem C04_rtf_tables_wf : special_ok rtf_T valid = true /\ special_ok rtf_T scalar = true.
Proof. vm_compute. split; reflexivity. Qed.
Print Assumptions C04_rtf_tables_wf.


Theorem C04_rtf_surrogate_unrepaired :
  strip_full ascii_alpha ascii_digit decval_g isspace_g
    {| skip_dests := skip_dests rtf_T; special := special rtf_T; repair := false |} emoji_rtf
  = Ok ([0xD83D; 0xDE00; 32; 120], [[0xD83D; 0xDE00; 32; 120]]).
Proof. vm_compute. reflexivity. Qed.
Print Assumptions C04_rtf_surrogate_unrepaired.

(* premise of C04_path_metadata_total *)

Theorem C04_rtf_ctypes_wf : forallb (fun kv => utf8able (snd kv)) rtf_ctypes = true.
Proof. vm_compute. reflexivity. Qed.
Print Assumptions C04_rtf_ctypes_wf.

(* the declared field types of the ten image classes are the ones the model's well_typed assumes *)
Definition decl_ok (d : img_class * str * str * bool) : bool :=
  let '(c, data, width, has_size) := d in
  (if str_eqb data (s "Bytes") then payload_ok c (PBytes [])
   else if str_eqb data (s "OptBytes") then payload_ok c (POptBytes None)
   else if str_eqb data (s "OptStream") then payload_ok c (PStream None) else false)
  && (if str_eqb width (s "OptInt") then dim_ok c DNone && dim_ok c (DInt 0)
      else if str_eqb width (s "Int") then negb (dim_ok c DNone) && dim_ok c (DInt 0)
      else if str_eqb width (s "OptStr") then dim_ok c DNone && dim_ok c (DStr []) else false)
  && Bool.eqb has_size (match c with PdfImage | RtfImage => false | _ => true end).

Theorem C04_image_decls : forallb decl_ok img_decls = true /\ length img_decls = 10%nat.
Proof. vm_compute. split; reflexivity. Qed.
Print Assumptions C04_image_decls.

Theorem C04_archive_member_path :
  populate_from_path (fun _ => Some false) (fun q => q) path_guard file_meta_default (Some (s "archive.zip!/dir/member.docx"))
  = Ok {| filename := Some (s "member.docx"); file_extension := Some (s ".docx");
          file_path := Some (s "archive.zip!/dir/member.docx"); folder_path := Some (s "archive.zip!/dir") |}.
Proof. vm_compute. reflexivity. Qed.
Print Assumptions C04_archive_member_path.
