(* C04 — obligations that hold exactly on a tree carrying the repairs of fixes/C04-*.patch: they are the
   premises of the positive theorems (guarded conversion, repaired decoder, shielded exists()) and the
   known witnesses evaluated on today's tables.  On an unrepaired tree these fail and the check's search
   produces the failing inputs. *)
From S2T Require Import Lib.PyStr C04.Model C04.ModelFloat C04.ModelPath C04.ModelRtf C04.ModelMeta C04.Corr
  C04.ProofsRtf C04.Inst Gen.C04Tables.
From Coq Require Import List NArith ZArith Bool.
Import ListNotations.
Open Scope N_scope.

Theorem C04_odf_guarded : guarded odf_T = true.
Proof. vm_compute. reflexivity. Qed.
Print Assumptions C04_odf_guarded.

Theorem C04_odf_overflow_witness : odf_px isspace_g decval_g odf_T nines_cm = Ok None.
Proof. vm_compute. reflexivity. Qed.
Print Assumptions C04_odf_overflow_witness.

Theorem C04_rtf_repaired : repair rtf_T = true.
Proof. vm_compute. reflexivity. Qed.
Print Assumptions C04_rtf_repaired.

Theorem C04_rtf_surrogate_witness :
  strip_full ascii_alpha ascii_digit decval_g isspace_g rtf_T emoji_rtf = Ok ([0x1F600; 32; 120], [[0x1F600; 32; 120]]).
Proof. vm_compute. reflexivity. Qed.
Print Assumptions C04_rtf_surrogate_witness.

Theorem C04_path_guarded : path_guard = true.
Proof. vm_compute. reflexivity. Qed.
Print Assumptions C04_path_guarded.

From S2T Require Import C04.ModelRtfText.
(* premise of C04_props_unchanged_rtf: get_value decodes \uN (fixes/C04-rtf-info-unicode.patch) *)
Theorem C04_rtf_info_unicode : info_unicode = true.
Proof. vm_compute. reflexivity. Qed.
Print Assumptions C04_rtf_info_unicode.

Theorem C04_rtf_info_witness :
  info_value decval_g isspace_g (fun c => memN c az_ci_table) info_unicode (repair rtf_T)
    (s "Pr" ++ [92] ++ s "u8364?is " ++ [92] ++ s "u55357?" ++ [92] ++ s "u56832? J" ++ [92] ++ s "'fcrgen Z")
  = Ok ([80; 114; 0x20AC; 105; 115; 32; 0x1F600; 32; 74; 0xFC] ++ s "rgen Z").
Proof. vm_compute. reflexivity. Qed.
Print Assumptions C04_rtf_info_witness.

Theorem C04_rtf_simple_witness :
  strip_simple decval_g isspace_g (fun c => memN c az_ci_table) rtf_T emoji_rtf = Ok [0x1F600; 32; 120].
Proof. vm_compute. reflexivity. Qed.
Print Assumptions C04_rtf_simple_witness.

(* premise of C04_xls_summary_total: OLE text is decoded with the recorded code page, never raising *)
Theorem C04_ole_cp_aware : ole_cp_aware = true.
Proof. vm_compute. reflexivity. Qed.
Print Assumptions C04_ole_cp_aware.
