(* C04 — executable model of FileMetadataInterface.populate_from_path (data_types.py) over a model
   of pathlib.PurePosixPath (CPython 3.12): posixpath.splitroot, _parse_path, name, suffix, parent,
   __str__.  Definitions only.

   Oracles: the file system.  `fs_exists p` is what Path(p).exists() does: Some b = returns b,
   None = raises OSError (3.12 re-raises every errno outside ENOENT/ENOTDIR/EBADF/ELOOP, e.g.
   ENAMETOOLONG for a component of more than 255 bytes).  `fs_resolve p` is str(Path(p).resolve()).

   `guard` (read from the source on every run, Gen/C04Tables.v): the existence test is wrapped so
   that an OSError counts as "does not exist". *)
From S2T Require Import Lib.PyStr C04.Model.
From Coq Require Import List NArith Bool.
Import ListNotations.
Open Scope N_scope.

Definition SLASH : N := 47.
Definition PDOT : N := 46.

(* x.split("/") *)
Fixpoint split_slash_aux (cur : str) (x : str) : list str :=
  match x with
  | [] => [rev cur]
  | c :: r => if N.eqb c SLASH then rev cur :: split_slash_aux [] r else split_slash_aux (c :: cur) r
  end.
Definition split_slash (x : str) : list str := split_slash_aux [] x.

Fixpoint join_slash (parts : list str) : str :=
  match parts with
  | [] => []
  | [x] => x
  | x :: r => x ++ SLASH :: join_slash r
  end.

(* a parsed PurePosixPath: root ("", "/" or "//") and tail *)
Record ppath := { proot : str; ptail : list str }.

(* posixpath.splitroot (drive is always empty) *)
Definition splitroot (p : str) : str * str :=
  match p with
  | c0 :: r0 =>
      if N.eqb c0 SLASH then
        match r0 with
        | c1 :: r1 =>
            if N.eqb c1 SLASH then
              match r1 with
              | c2 :: _ => if N.eqb c2 SLASH then ([SLASH], r0) else ([SLASH; SLASH], r1)
              | [] => ([SLASH; SLASH], r1)
              end
            else ([SLASH], r0)
        | [] => ([SLASH], r0)
        end
      else ([], p)
  | [] => ([], p)
  end.

Definition is_dot (x : str) : bool := match x with [c] => N.eqb c PDOT | _ => false end.
Definition keep_part (x : str) : bool := match x with [] => false | _ => negb (is_dot x) end.

(* PurePath._parse_path *)
Definition parse (p : str) : ppath :=
  let '(root, rel) := splitroot p in
  {| proot := root; ptail := filter keep_part (split_slash rel) |}.

(* PurePath.__str__ *)
Definition pstr (p : ppath) : str :=
  match proot p ++ join_slash (ptail p) with
  | [] => [PDOT]
  | x => x
  end.

(* PurePath.name *)
Definition pname (p : ppath) : str := last (ptail p) [].

(* PurePath.parent *)
Definition pparent (p : ppath) : ppath :=
  match ptail p with
  | [] => p
  | _ => {| proot := proot p; ptail := removelast (ptail p) |}
  end.

(* name.rfind("."): index of the last dot *)
Fixpoint rfind_dot_aux (x : str) (i : nat) (best : option nat) : option nat :=
  match x with
  | [] => best
  | c :: r => rfind_dot_aux r (S i) (if N.eqb c PDOT then Some i else best)
  end.
Definition rfind_dot (x : str) : option nat := rfind_dot_aux x 0%nat None.

(* PurePath.suffix:  i = name.rfind('.');  name[i:] if 0 < i < len(name) - 1 else '' *)
Definition suffix_of_name (name : str) : str :=
  match rfind_dot name with
  | Some i => if (Nat.ltb 0 i) && (Nat.ltb (S i) (length name)) then skipn i name else []
  | None => []
  end.
Definition psuffix (p : ppath) : str := suffix_of_name (pname p).

(* the four path-derived fields of FileMetadataInterface (detected_encoding is not touched) *)
Record file_meta := {
  filename : option str; file_extension : option str; file_path : option str; folder_path : option str }.
Definition file_meta_default : file_meta :=
  {| filename := None; file_extension := None; file_path := None; folder_path := None |}.

Section Populate.
  Variable fs_exists : str -> option bool.
  Variable fs_resolve : str -> str.
  Variable guard : bool.

  (* str(q.resolve()) if q.exists() else str(q) *)
  Definition resolved_or_str (q : ppath) : result str :=
    match fs_exists (pstr q) with
    | Some true => Ok (fs_resolve (pstr q))
    | Some false => Ok (pstr q)
    | None => if guard then Ok (pstr q) else Raise OSError
    end.

  Definition populate_from_path (m : file_meta) (path : option str) : result file_meta :=
    match path with
    | None => Ok m
    | Some x =>
        let p := parse x in
        bind (resolved_or_str p) (fun fp =>
        bind (resolved_or_str (pparent p)) (fun dp =>
        Ok {| filename := Some (pname p); file_extension := Some (psuffix p);
              file_path := Some fp; folder_path := Some dp |}))
    end.
End Populate.

(* ---- specification side: a path in normal form *)
Definition no_slash (x : str) : bool := forallb (fun c => negb (N.eqb c SLASH)) x.
Definition good_part (x : str) : bool := keep_part x && no_slash x.
Definition good_root (r : str) : bool :=
  match r with
  | [] => true
  | [a] => N.eqb a SLASH
  | [a; b] => N.eqb a SLASH && N.eqb b SLASH
  | _ => false
  end.
Definition no_dot (x : str) : bool := forallb (fun c => negb (N.eqb c PDOT)) x.

Definition or_nil (o : option str) : str := match o with Some x => x | None => [] end.
