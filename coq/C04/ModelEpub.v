(* C04 — executable model of the chapter numbering of epub_extractor.  Definitions only.
     _EpubContext._parse_spine:  idrefs of the opf:itemref children of <spine> (empty idrefs skipped); when that gives
                                 nothing, the same over {*}itemref
     read_epub:                  chapter_number = 0; for item_id in ctx.spine: chapter_number += 1;
                                 chapter = _extract_chapter(ctx, item_id, chapter_number, …); kept when not None
     EpubChapter.get_metadata(): unit_number = chapter_number
   Oracle: whether _extract_chapter produces a chapter for an item id (manifest entry, media type, member present,
   XHTML parses) — a function of the item id. *)
From S2T Require Import Lib.PyStr C04.Model.
From Coq Require Import List NArith ZArith Bool.
Import ListNotations.
Open Scope N_scope.

(* a child of <spine>: its tag and its idref attribute (None when absent) *)
Definition spine_child := (str * option str)%type.

Definition idrefs_of (is_itemref : str -> bool) (children : list spine_child) : list str :=
  flat_map (fun c => if is_itemref (fst c) then
                       match snd c with Some (x :: r) => [x :: r] | _ => [] end
                     else []) children.

Definition parse_spine (opf_itemref : str) (any_ns_itemref : str -> bool) (children : list spine_child) : list str :=
  match idrefs_of (fun t => str_eqb t opf_itemref) children with
  | [] => idrefs_of any_ns_itemref children
  | l => l
  end.

(* the loop of read_epub from chapter_number = n: (item id, unit number) of every chapter that is kept *)
Fixpoint number_spine (produces : str -> bool) (n : Z) (spine : list str) : list (str * Z) :=
  match spine with
  | [] => []
  | i :: r => let n' := (n + 1)%Z in
              (if produces i then [(i, n')] else []) ++ number_spine produces n' r
  end.

Definition epub_units (produces : str -> bool) (spine : list str) : list (str * Z) := number_spine produces 0%Z spine.
