(* C04 — executable model of the RTF body decoder _RtfParser._strip_rtf_full_with_pages
   (ms_legacy/rtf_extractor.py): group/skip bookkeeping, \\ \{ \} escapes, \uN and \'hh decoding,
   control words (page breaks, SPECIAL_CHARS), page flushing.  Definitions only.

   The while-loop over an index is modelled as a structural recursion over the remaining text with a
   count of characters still to be consumed by the previous step (every branch of the loop looks
   forward only), so there is no fuel and no default.

   Tables (regenerated from the live class on every run, Gen/C04Tables.v): SKIP_DESTINATIONS,
   SPECIAL_CHARS.  `repair` (read from the behaviour of the code on every run): the produced text goes
   through _repair_surrogates (fixes/C04-rtf-surrogates.patch), which is modelled as `repair_surrogates`
   (= s.encode("utf-16-le","surrogatepass").decode("utf-16-le","replace")).
   Oracles: str.isalpha, str.isdigit, Unicode decimal value (\d / int()), str.isspace. *)
From S2T Require Import Lib.PyStr C04.Model.
From Coq Require Import List NArith ZArith Bool.
Import ListNotations.
Open Scope N_scope.

Definition BSL : N := 92.      (* \ *)
Definition LBRACE : N := 123.
Definition RBRACE : N := 125.
Definition QUOTE : N := 39.
Definition MINUS : N := 45.
Definition QMARK : N := 63.
Definition SPACE : N := 32.
Definition TAB : N := 9.
Definition NL : N := 10.
Definition CR : N := 13.
Definition REPLACEMENT : N := 0xFFFD.

(* ---- _repair_surrogates *)
Definition is_hi (c : N) : bool := (0xD800 <=? c) && (c <=? 0xDBFF).
Definition is_lo (c : N) : bool := (0xDC00 <=? c) && (c <=? 0xDFFF).
Definition combine_pair (h l : N) : N := 0x10000 + (h - 0xD800) * 0x400 + (l - 0xDC00).

Fixpoint repair_surrogates (x : str) : str :=
  match x with
  | [] => []
  | h :: r =>
      if is_hi h then
        match r with
        | l :: r' => if is_lo l then combine_pair h l :: repair_surrogates r'
                     else REPLACEMENT :: repair_surrogates r
        | [] => [REPLACEMENT]
        end
      else if is_lo h then REPLACEMENT :: repair_surrogates r
      else h :: repair_surrogates r
  end.

Record rtf_tables := {
  skip_dests : list str;          (* _RtfParser.SKIP_DESTINATIONS *)
  special : list (str * str);     (* _RtfParser.SPECIAL_CHARS *)
  repair : bool
}.

(* ---- page / full-text clean-up: .strip(), [ \t]+ -> " ", \n{3,} -> "\n\n" *)
Definition is_blank (c : N) : bool := N.eqb c SPACE || N.eqb c TAB.

Fixpoint multi_space (x : str) : str :=
  match x with
  | [] => []
  | c :: r =>
      if is_blank c then
        match r with
        | d :: _ => if is_blank d then multi_space r else SPACE :: multi_space r
        | [] => [SPACE]
        end
      else c :: multi_space r
  end.

(* runs of newlines: n >= 3 -> 2 *)
Fixpoint multi_newline_aux (run : nat) (x : str) : str :=
  match x with
  | [] => repeat NL (Nat.min run 2)
  | c :: r =>
      if N.eqb c NL then multi_newline_aux (S run) r
      else repeat NL (if Nat.leb 3 run then 2%nat else run) ++ c :: multi_newline_aux 0 r
  end.
Definition multi_newline (x : str) : str :=
  (* a trailing run is collapsed like any other *)
  multi_newline_aux 0 x.

Section Rtf.
  Variable isalpha : N -> bool.
  Variable isdigit_str : N -> bool.     (* str.isdigit *)
  Variable decval : N -> option N.      (* Unicode decimal digit value: \d and int() *)
  Variable isspace : N -> bool.
  Variable T : rtf_tables.

  Definition isdec (c : N) : bool := match decval c with Some _ => true | None => false end.
  Definition dec_value (ds : str) : Z :=
    fold_left (fun acc c => (acc * 10 + Z.of_N (match decval c with Some d => d | None => 0 end))%Z) ds 0%Z.

  Definition clean (x : str) : str := multi_newline (multi_space (strip isspace x)).

  Record st := {
    depth : Z; skip : bool; skip_depth : Z;
    out : str;              (* result, reversed *)
    cur : str;              (* current_page, reversed *)
    pages : list str        (* self.pages, reversed *)
  }.
  Definition st0 : st := {| depth := 0; skip := false; skip_depth := 0; out := []; cur := []; pages := [] |}.

  Definition emit (q : st) (x : str) : st :=
    {| depth := depth q; skip := skip q; skip_depth := skip_depth q;
       out := rev x ++ out q; cur := rev x ++ cur q; pages := pages q |}.

  Definition fix_text (x : str) : str := if repair T then repair_surrogates x else x.

  Definition flush_page (q : st) : st :=
    let page_text := clean (fix_text (rev (cur q))) in
    {| depth := depth q; skip := skip q; skip_depth := skip_depth q; out := out q; cur := [];
       pages := match page_text with [] => pages q | _ => page_text :: pages q end |}.

  (* \page / \sbkpage: flush_page(); result.append("\n")  (the new line goes to `result` only) *)
  Definition page_break (q : st) : st :=
    let f := flush_page q in
    {| depth := depth f; skip := skip f; skip_depth := skip_depth f; out := NL :: out f; cur := cur f; pages := pages f |}.

  Definition is_skip_destination (ahead : str) : bool :=
    startswith ahead [BSL; 42] || existsb (fun kw => startswith ahead (BSL :: kw)) (skip_dests T).

  (* _RE_UNICODE.match just after "\u":  (-?\d+)\??  ->  (int value, characters consumed);
     int() refuses more than 4300 digits (sys.get_int_max_str_digits) with ValueError *)
  Definition match_unicode (r : str) : option (result Z * nat) :=
    let '(neg, r1) := match r with c :: r' => if N.eqb c MINUS then (true, r') else (false, r) | [] => (false, r) end in
    let ds := takeWhile isdec r1 in
    match ds with
    | [] => None
    | _ =>
        let r2 := dropWhile isdec r1 in
        let q := match r2 with c :: _ => if N.eqb c QMARK then 1%nat else 0%nat | [] => 0%nat end in
        let len := ((if neg then 1 else 0) + length ds + q)%nat in
        if 4300 <? N.of_nat (length ds) then Some (Raise ValueError, len)
        else Some (Ok (if neg then (- dec_value ds)%Z else dec_value ds), len)
    end.

  Definition hexval (c : N) : option N :=
    match decval c with
    | Some d => if d <=? 9 then Some d else None     (* Unicode decimal values are 0..9 *)
    | None => if (97 <=? c) && (c <=? 102) then Some (c - 87)
              else if (65 <=? c) && (c <=? 70) then Some (c - 55) else None
    end.

  (* white space that int() strips: ASCII characters by C isspace (\x1c..\x1f are NOT stripped, unlike
     str.strip), non-ASCII characters by Py_UNICODE_ISSPACE (they are first mapped to ' ') *)
  Definition int_space (c : N) : bool :=
    if c <? 127 then (N.eqb c 32 || ((9 <=? c) && (c <=? 13))) else isspace c.

  (* chr(int(<two characters>, 16)) or None where that raises ValueError (swallowed by the code) *)
  Definition hex2 (a b : N) : option N :=
    match hexval a, hexval b with
    | Some x, Some y => Some (16 * x + y)
    | Some x, None => if int_space b then Some x else None
    | None, Some y =>
        if int_space a || N.eqb a 43 then Some y
        else if N.eqb a MINUS then (if N.eqb y 0 then Some 0 else None)
        else None
    | None, None => None
    end.

  Definition rstrip_pred (p : N -> bool) (x : str) : str := rev (dropWhile p (rev x)).
  Definition digit_or_minus (c : N) : bool := isdigit_str c || N.eqb c MINUS.

  Definition LETTER_u : N := 117.
  Definition TILDE : N := 126.
  Definition UNDERSCORE : N := 95.

  (* one iteration of the while loop at character c with the rest r of the text after it:
     new state and number of characters consumed (>= 1) *)
  Definition step (q : st) (c : N) (r : str) : result (st * nat) :=
    if N.eqb c LBRACE then
      let d := (depth q + 1)%Z in
      let enter := match r with
                   | c1 :: _ => negb (skip q) && N.eqb c1 BSL && is_skip_destination (firstn 29 r)
                   | [] => false end in
      Ok ({| depth := d; skip := if enter then true else skip q;
             skip_depth := if enter then d else skip_depth q;
             out := out q; cur := cur q; pages := pages q |}, 1%nat)
    else if N.eqb c RBRACE then
      Ok ({| depth := (depth q - 1)%Z;
             skip := if skip q && Z.eqb (depth q) (skip_depth q) then false else skip q;
             skip_depth := skip_depth q; out := out q; cur := cur q; pages := pages q |}, 1%nat)
    else if skip q then Ok (q, 1%nat)
    else if N.eqb c BSL then
      match r with
      | [] => Ok (q, 1%nat)
      | nx :: r1 =>
          if N.eqb nx BSL || N.eqb nx LBRACE || N.eqb nx RBRACE then Ok (emit q [nx], 2%nat)
          else if N.eqb nx LETTER_u then
            match match_unicode r1 with
            | Some (Ok v, len) => Ok (emit q [Z.to_N (Z.land v 0xFFFF)], (2 + len)%nat)
            | Some (Raise e, _) => Raise e
            | None => Ok (q, 2%nat)
            end
          else if N.eqb nx QUOTE then
            match r1 with
            | h1 :: h2 :: _ =>
                Ok (match hex2 h1 h2 with Some v => emit q [v] | None => q end, 4%nat)
            | _ => Ok (q, 2%nat)
            end
          else if isalpha nx then
            let alpha := takeWhile isalpha r in
            let r2 := dropWhile isalpha r in
            let digs := match r2 with
                        | d :: _ => if digit_or_minus d then takeWhile digit_or_minus r2 else []
                        | [] => [] end in
            let r3 := skipn (length digs) r2 in
            let sp := match r3 with d :: _ => if N.eqb d SPACE then [SPACE] else [] | [] => [] end in
            let control_word := rstrip isspace (alpha ++ digs ++ sp) in
            let word_only := rstrip_pred digit_or_minus control_word in
            let q' :=
              if str_eqb word_only (s "page") || str_eqb word_only (s "sbkpage") then page_break q
              else match assoc word_only (special T) with
                   | Some chars => emit q chars
                   | None => q end in
            Ok (q', (1 + length alpha + length digs + length sp)%nat)
          else
            Ok (if N.eqb nx TILDE then emit q [0xA0]
                else if N.eqb nx UNDERSCORE then emit q [0xAD] else q, 2%nat)
      end
    else if N.eqb c CR then Ok (q, 1%nat)
    else Ok (emit q [c], 1%nat).

  Fixpoint go (q : st) (pending : nat) (l : str) : result st :=
    match l with
    | [] => Ok q
    | c :: r =>
        match pending with
        | Datatypes.S k => go q k r
        | O => match step q c r with
               | Ok (q', n) => go q' (Nat.pred n) r
               | Raise e => Raise e
               end
        end
    end.

  (* returns ("".join(result), self.pages) *)
  Definition strip_full (text : str) : result (str * list str) :=
    match go st0 0 text with
    | Raise e => Raise e
    | Ok S1 =>
        let S2 := flush_page S1 in
        let joined := fix_text (rev (out S2)) in
        let pgs := match pages S2 with
                   | [] => match clean joined with [] => [] | ft => [ft] end
                   | ps => rev ps
                   end in
        Ok (joined, pgs)
    end.
End Rtf.
