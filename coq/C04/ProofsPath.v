(* C04 — lemmas about the pathlib model: parsing of normal-form paths, name, parent, suffix. *)
From S2T Require Import Lib.PyStr C04.Model C04.ModelPath.
From Coq Require Import ZArith List Bool Lia.
Import ListNotations.
Open Scope N_scope.

Lemma no_slash_cons c x : no_slash (c :: x) = true -> N.eqb c SLASH = false /\ no_slash x = true.
Proof.
  unfold no_slash. simpl. intro H. apply andb_true_iff in H as [H1 H2].
  split; [destruct (N.eqb c SLASH); [discriminate | reflexivity] | exact H2].
Qed.

Lemma split_aux_noslash cur x : no_slash x = true -> split_slash_aux cur x = [rev cur ++ x].
Proof.
  revert cur; induction x as [|c x IH]; intros cur H; simpl.
  - rewrite app_nil_r. reflexivity.
  - apply no_slash_cons in H as [H1 H2]. rewrite H1. rewrite IH by exact H2. simpl. rewrite <- app_assoc. reflexivity.
Qed.

Lemma split_aux_app cur a r : no_slash a = true ->
  split_slash_aux cur (a ++ SLASH :: r) = (rev cur ++ a) :: split_slash_aux [] r.
Proof.
  revert cur; induction a as [|c a IH]; intros cur H; simpl.
  - try rewrite N.eqb_refl. rewrite app_nil_r. reflexivity.
  - apply no_slash_cons in H as [H1 H2]. rewrite H1. rewrite IH by exact H2. simpl. rewrite <- app_assoc. reflexivity.
Qed.

Lemma good_part_spec x : good_part x = true -> keep_part x = true /\ no_slash x = true.
Proof. unfold good_part. intro H. apply andb_true_iff in H. exact H. Qed.

Lemma split_join parts : parts <> [] -> forallb good_part parts = true ->
  split_slash_aux [] (join_slash parts) = parts.
Proof.
  induction parts as [|x ps IH]; [congruence|]. intros _ H. simpl in H.
  apply andb_true_iff in H as [H1 H2]. apply good_part_spec in H1 as [_ H1].
  destruct ps as [|y ps'].
  - simpl. rewrite split_aux_noslash by exact H1. reflexivity.
  - change (join_slash (x :: y :: ps')) with (x ++ SLASH :: join_slash (y :: ps')).
    rewrite split_aux_app by exact H1. simpl. f_equal. apply IH; [discriminate | exact H2].
Qed.

Lemma filter_good parts : forallb good_part parts = true -> filter keep_part parts = parts.
Proof.
  induction parts as [|x ps IH]; [reflexivity|]. simpl. intro H. apply andb_true_iff in H as [H1 H2].
  apply good_part_spec in H1 as [H1 _]. rewrite H1, IH by exact H2. reflexivity.
Qed.

Lemma tail_of_join parts : forallb good_part parts = true ->
  filter keep_part (split_slash_aux [] (join_slash parts)) = parts.
Proof.
  intro H. destruct parts as [|x ps]; [reflexivity|].
  rewrite split_join; [apply filter_good; exact H | discriminate | exact H].
Qed.

(* a joined normal-form tail is empty or starts with a character other than '/' *)
Lemma join_head parts : forallb good_part parts = true ->
  join_slash parts = [] \/ exists c r, join_slash parts = c :: r /\ N.eqb c SLASH = false.
Proof.
  destruct parts as [|x ps]; [left; reflexivity|]. simpl. intro H. apply andb_true_iff in H as [H1 _].
  apply good_part_spec in H1 as [K S]. right.
  destruct x as [|c x]; [discriminate|]. apply no_slash_cons in S as [S _].
  destruct ps; simpl; eauto.
Qed.

Lemma splitroot_rel c r : N.eqb c SLASH = false -> splitroot (c :: r) = ([], c :: r).
Proof. intro H. unfold splitroot. rewrite H. reflexivity. Qed.
Lemma splitroot_abs c r : N.eqb c SLASH = false -> splitroot (SLASH :: c :: r) = ([SLASH], c :: r).
Proof. intro H. unfold splitroot. rewrite N.eqb_refl, H. reflexivity. Qed.
Lemma splitroot_abs2 c r : N.eqb c SLASH = false -> splitroot (SLASH :: SLASH :: c :: r) = ([SLASH; SLASH], c :: r).
Proof. intro H. unfold splitroot. rewrite !N.eqb_refl, H. reflexivity. Qed.

Lemma parse_normal root parts : good_root root = true -> forallb good_part parts = true ->
  parse (root ++ join_slash parts) = {| proot := root; ptail := parts |}.
Proof.
  intros R G. pose proof (tail_of_join parts G) as TJ. unfold parse, split_slash.
  destruct (join_head parts G) as [E|[c [r [E S]]]].
  - rewrite E in *. cbn in TJ. subst parts.
    destruct root as [|a [|b [|d root]]]; simpl in R; try discriminate.
    + reflexivity.
    + apply N.eqb_eq in R; subst a. reflexivity.
    + apply andb_true_iff in R as [R1 R2]. apply N.eqb_eq in R1, R2; subst a b. reflexivity.
  - rewrite E in *.
    destruct root as [|a [|b [|d root]]]; simpl in R; try discriminate.
    + cbn [app]. rewrite (splitroot_rel c r S). rewrite TJ. reflexivity.
    + apply N.eqb_eq in R; subst a. cbn [app]. rewrite (splitroot_abs c r S). rewrite TJ. reflexivity.
    + apply andb_true_iff in R as [R1 R2]. apply N.eqb_eq in R1, R2; subst a b. cbn [app].
      rewrite (splitroot_abs2 c r S). rewrite TJ. reflexivity.
Qed.

Lemma join_last_nonempty dirs name : name <> [] -> join_slash (dirs ++ [name]) <> [].
Proof.
  intro H. induction dirs as [|x ds IH]; simpl; [exact H|].
  destruct (ds ++ [name]) eqn:E; [destruct ds; discriminate|].
  intro K. destruct x; discriminate.
Qed.

Lemma pstr_nonempty root parts : join_slash parts <> [] -> pstr {| proot := root; ptail := parts |} = root ++ join_slash parts.
Proof.
  intro H. unfold pstr. simpl. destruct (root ++ join_slash parts) eqn:E; [|reflexivity].
  apply app_eq_nil in E as [_ E]. contradiction.
Qed.

Lemma parent_of_normal root dirs name :
  pparent {| proot := root; ptail := dirs ++ [name] |} = {| proot := root; ptail := dirs |}.
Proof.
  unfold pparent. simpl. destruct (dirs ++ [name]) eqn:E; [destruct dirs; discriminate|].
  rewrite <- E. rewrite removelast_last. reflexivity.
Qed.

Lemma name_of_normal root dirs name : pname {| proot := root; ptail := dirs ++ [name] |} = name.
Proof. unfold pname. simpl. apply last_last. Qed.

(* ---- suffix *)
Lemma rfind_nodot e j b : no_dot e = true -> rfind_dot_aux e j b = b.
Proof.
  revert j b; induction e as [|c e IH]; intros j b H; simpl; [reflexivity|].
  unfold no_dot in H. simpl in H. apply andb_true_iff in H as [H1 H2].
  destruct (N.eqb c PDOT); [discriminate|]. apply IH. exact H2.
Qed.

Lemma rfind_last_dot a e i best : no_dot e = true ->
  rfind_dot_aux (a ++ PDOT :: e) i best = Some (i + length a)%nat.
Proof.
  revert i best; induction a as [|c a IH]; intros i best H; simpl.
  - try rewrite N.eqb_refl. rewrite rfind_nodot by exact H. f_equal. lia.
  - rewrite IH by exact H. f_equal. lia.
Qed.

Lemma suffix_spec stem e : stem <> [] -> e <> [] -> no_dot e = true ->
  suffix_of_name (stem ++ PDOT :: e) = PDOT :: e.
Proof.
  intros Hs He Hd. unfold suffix_of_name, rfind_dot. rewrite rfind_last_dot by exact Hd. simpl Nat.add.
  assert (L1 : Nat.ltb 0 (length stem) = true) by (apply Nat.ltb_lt; destruct stem; [congruence | simpl; lia]).
  assert (L2 : Nat.ltb (S (length stem)) (length (stem ++ PDOT :: e)) = true).
  { apply Nat.ltb_lt. rewrite app_length. simpl. destruct e; [congruence | simpl; lia]. }
  rewrite L1, L2. simpl. rewrite skipn_app, skipn_all, Nat.sub_diag. reflexivity.
Qed.

Lemma suffix_nodot name : no_dot name = true -> suffix_of_name name = [].
Proof. intro H. unfold suffix_of_name, rfind_dot. rewrite rfind_nodot by exact H. reflexivity. Qed.

Lemma suffix_trailing_dot stem : suffix_of_name (stem ++ [PDOT]) = [].
Proof.
  unfold suffix_of_name, rfind_dot. rewrite (rfind_last_dot stem [] 0%nat None) by reflexivity. simpl Nat.add.
  rewrite app_length. simpl.
  replace (Nat.ltb (S (length stem)) (length stem + 1)) with false by (symmetry; apply Nat.ltb_ge; lia).
  rewrite andb_false_r. reflexivity.
Qed.

Lemma suffix_leading_dot e : no_dot e = true -> suffix_of_name (PDOT :: e) = [].
Proof.
  intro H. unfold suffix_of_name, rfind_dot. change (PDOT :: e) with ([] ++ PDOT :: e).
  rewrite (rfind_last_dot [] e 0%nat None) by exact H. reflexivity.
Qed.

(* ---- populate_from_path on a normal-form path *)
Section Norm.
  Variable fs_exists : str -> option bool.
  Variable fs_resolve : str -> str.

  Definition shown (q : str) : str := match fs_exists q with Some true => fs_resolve q | _ => q end.

  Lemma resolved_shown guard q v : resolved_or_str fs_exists fs_resolve guard q = Ok v -> v = shown (pstr q).
  Proof.
    unfold resolved_or_str, shown. destruct (fs_exists (pstr q)) as [[|]|]; try (intro H; inversion H; reflexivity).
    destruct guard; intro H; inversion H; reflexivity.
  Qed.

  Lemma populate_normal guard root dirs name m' :
    good_root root = true -> forallb good_part dirs = true -> good_part name = true ->
    populate_from_path fs_exists fs_resolve guard file_meta_default (Some (root ++ join_slash (dirs ++ [name]))) = Ok m' ->
    filename m' = Some name /\ file_extension m' = Some (suffix_of_name name)
    /\ file_path m' = Some (shown (root ++ join_slash (dirs ++ [name])))
    /\ folder_path m' = Some (shown (match root ++ join_slash dirs with [] => [PDOT] | x => x end)).
  Proof.
    intros R D Nm. unfold populate_from_path.
    assert (G : forallb good_part (dirs ++ [name]) = true) by (rewrite forallb_app, D; simpl; rewrite Nm; reflexivity).
    rewrite (parse_normal root _ R G).
    destruct (resolved_or_str fs_exists fs_resolve guard {| proot := root; ptail := dirs ++ [name] |}) as [fp|] eqn:E1; [|discriminate].
    simpl bind. rewrite parent_of_normal.
    destruct (resolved_or_str fs_exists fs_resolve guard {| proot := root; ptail := dirs |}) as [dp|] eqn:E2; [|discriminate].
    simpl. intro H; inversion H; subst; simpl. clear H.
    apply resolved_shown in E1, E2. subst fp dp.
    unfold psuffix. rewrite name_of_normal.
    rewrite pstr_nonempty.
    - repeat split; reflexivity.
    - apply join_last_nonempty. apply good_part_spec in Nm as [K _]. destruct name; [discriminate | discriminate].
  Qed.
End Norm.

(* ---- the path argument of an archive member:  <archive path> "!/" <member name>, for ANY member name *)
Definition BANG : N := 33.
Definition kept (m : str) : list str := filter keep_part (split_slash m).

Lemma split_join_app parts m : parts <> [] -> forallb good_part parts = true ->
  split_slash_aux [] (join_slash parts ++ SLASH :: m) = parts ++ split_slash_aux [] m.
Proof.
  induction parts as [|x ps IH]; [congruence|]. intros _ H. simpl in H.
  apply andb_true_iff in H as [H1 H2]. apply good_part_spec in H1 as [_ H1].
  destruct ps as [|y ps'].
  - cbn [join_slash]. rewrite split_aux_app by exact H1. reflexivity.
  - change (join_slash (x :: y :: ps')) with (x ++ SLASH :: join_slash (y :: ps')).
    rewrite <- app_assoc. cbn [app]. rewrite split_aux_app by exact H1. cbn [rev app].
    rewrite IH; [reflexivity | discriminate | exact H2].
Qed.

(* parse of root ++ rel where rel is empty or starts with a character other than '/' *)
Lemma parse_root_rel root rel : good_root root = true ->
  (rel = [] \/ exists c r, rel = c :: r /\ N.eqb c SLASH = false) ->
  parse (root ++ rel) = {| proot := root; ptail := filter keep_part (split_slash rel) |}.
Proof.
  intros R H. unfold parse. destruct H as [->|[c [r [-> S]]]].
  - rewrite app_nil_r.
    destruct root as [|a [|b [|d root]]]; simpl in R; try discriminate.
    + reflexivity.
    + apply N.eqb_eq in R; subst a. reflexivity.
    + apply andb_true_iff in R as [R1 R2]. apply N.eqb_eq in R1, R2; subst a b. reflexivity.
  - destruct root as [|a [|b [|d root]]]; simpl in R; try discriminate.
    + cbn [app]. rewrite (splitroot_rel c r S). reflexivity.
    + apply N.eqb_eq in R; subst a. cbn [app]. rewrite (splitroot_abs c r S). reflexivity.
    + apply andb_true_iff in R as [R1 R2]. apply N.eqb_eq in R1, R2; subst a b. cbn [app].
      rewrite (splitroot_abs2 c r S). reflexivity.
Qed.

Lemma filter_app_good parts l : forallb good_part parts = true ->
  filter keep_part (parts ++ l) = parts ++ filter keep_part l.
Proof. intro H. rewrite filter_app. rewrite filter_good by exact H. reflexivity. Qed.

Lemma good_bang aname : good_part aname = true -> good_part (aname ++ [BANG]) = true.
Proof.
  intro H. apply good_part_spec in H as [K S]. unfold good_part. apply andb_true_iff. split.
  - destruct aname as [|c [|d r]]; [discriminate | reflexivity | reflexivity].
  - unfold no_slash in *. rewrite forallb_app, S. reflexivity.
Qed.

Lemma parse_member root dirs aname m :
  good_root root = true -> forallb good_part dirs = true -> good_part aname = true ->
  parse (root ++ join_slash (dirs ++ [aname ++ [BANG]]) ++ SLASH :: m)
  = {| proot := root; ptail := dirs ++ [aname ++ [BANG]] ++ kept m |}.
Proof.
  intros R D A.
  assert (G : forallb good_part (dirs ++ [aname ++ [BANG]]) = true).
  { rewrite forallb_app, D. simpl. rewrite good_bang by exact A. reflexivity. }
  assert (NE : dirs ++ [aname ++ [BANG]] <> []) by (destruct dirs; discriminate).
  rewrite parse_root_rel; [|exact R|].
  - unfold split_slash. rewrite split_join_app by assumption. rewrite filter_app_good by exact G.
    rewrite <- app_assoc. reflexivity.
  - right. destruct (join_head _ G) as [E|[c [r [E S]]]].
    + exfalso. destruct dirs as [|x ds]; simpl in E.
      * destruct aname; discriminate.
      * destruct (ds ++ [aname ++ [BANG]]) eqn:K; [destruct ds; discriminate|].
        simpl in G. apply andb_true_iff in G as [Gx _]. apply good_part_spec in Gx as [Kx _]. destruct x; discriminate.
    + exists c, (r ++ SLASH :: m). rewrite E. split; [reflexivity | exact S].
Qed.

(* every kept component of any string is a good part *)
Lemma forallb_rev' {X} (p : X -> bool) l : forallb p (rev l) = forallb p l.
Proof.
  induction l as [|x l IH]; simpl; [reflexivity|]. rewrite forallb_app, IH. simpl. rewrite andb_true_r, andb_comm. reflexivity.
Qed.
Lemma split_aux_no_slash x : forall cur, no_slash cur = true -> forallb no_slash (split_slash_aux cur x) = true.
Proof.
  induction x as [|c x IH]; intros cur H; simpl.
  - unfold no_slash in *. rewrite forallb_rev'. rewrite H. reflexivity.
  - destruct (N.eqb c SLASH) eqn:E.
    + simpl. unfold no_slash at 1. rewrite forallb_rev'. unfold no_slash in H. rewrite H. apply IH. reflexivity.
    + apply IH. unfold no_slash in *. simpl. rewrite E, H. reflexivity.
Qed.

Lemma kept_good m : forallb good_part (kept m) = true.
Proof.
  unfold kept, split_slash. pose proof (split_aux_no_slash m [] eq_refl) as H.
  induction (split_slash_aux [] m) as [|p ps IH]; [reflexivity|]. simpl in H. apply andb_true_iff in H as [Hp Hs].
  simpl. destruct (keep_part p) eqn:K; [|apply IH; exact Hs].
  simpl. unfold good_part. rewrite K, Hp. simpl. apply IH. exact Hs.
Qed.

Lemma join_last_app dirs a b : join_slash (dirs ++ [a ++ b]) = join_slash (dirs ++ [a]) ++ b.
Proof.
  induction dirs as [|x ds IH]; [reflexivity|]. cbn [app].
  destruct (ds ++ [a ++ b]) as [|y l] eqn:E1; [destruct ds; discriminate|].
  destruct (ds ++ [a]) as [|y' l'] eqn:E2; [destruct ds; discriminate|].
  change (join_slash (x :: y :: l)) with (x ++ SLASH :: join_slash (y :: l)).
  change (join_slash (x :: y' :: l')) with (x ++ SLASH :: join_slash (y' :: l')).
  rewrite IH. rewrite <- app_assoc. reflexivity.
Qed.

Lemma join_app2 P1 : forall l1, P1 <> [] -> l1 <> [] -> join_slash (P1 ++ l1) = join_slash P1 ++ SLASH :: join_slash l1.
Proof.
  induction P1 as [|x ps IHp]; intros l1 H1 Hl; [congruence|]. destruct ps as [|y ps'].
  - destruct l1; [congruence | reflexivity].
  - cbn [app]. change (join_slash (x :: y :: ps' ++ l1)) with (x ++ SLASH :: join_slash ((y :: ps') ++ l1)).
    rewrite IHp by (discriminate || exact Hl).
    change (join_slash (x :: y :: ps')) with (x ++ SLASH :: join_slash (y :: ps')). rewrite <- app_assoc. reflexivity.
Qed.

Lemma match_nonempty (x : str) : x <> [] -> match x with [] => [PDOT] | c :: r => c :: r end = x.
Proof. destruct x; [congruence | reflexivity]. Qed.

Section Member.
  Variable fs_exists : str -> option bool.
  Variable fs_resolve : str -> str.

  Lemma populate_parse guard x y : parse x = parse y ->
    populate_from_path fs_exists fs_resolve guard file_meta_default (Some x)
    = populate_from_path fs_exists fs_resolve guard file_meta_default (Some y).
  Proof. intro H. unfold populate_from_path. rewrite H. reflexivity. Qed.

  (* archive path = root ++ dirs/aname (normal form), member name m arbitrary with at least one kept component *)
  Lemma populate_member guard root dirs aname m qs n m' :
    good_root root = true -> forallb good_part dirs = true -> good_part aname = true ->
    kept m = qs ++ [n] ->
    populate_from_path fs_exists fs_resolve guard file_meta_default
      (Some ((root ++ join_slash (dirs ++ [aname])) ++ [BANG; SLASH] ++ m)) = Ok m' ->
    filename m' = Some n /\ file_extension m' = Some (suffix_of_name n)
    /\ file_path m' = Some (shown fs_exists fs_resolve ((root ++ join_slash (dirs ++ [aname])) ++ BANG :: SLASH :: join_slash (qs ++ [n])))
    /\ folder_path m' = Some (shown fs_exists fs_resolve
         (match qs with [] => (root ++ join_slash (dirs ++ [aname])) ++ [BANG]
                      | _ => (root ++ join_slash (dirs ++ [aname])) ++ BANG :: SLASH :: join_slash qs end)).
  Proof.
    intros R D A K.
    assert (E : (root ++ join_slash (dirs ++ [aname])) ++ [BANG; SLASH] ++ m
                = root ++ join_slash (dirs ++ [aname ++ [BANG]]) ++ SLASH :: m).
    { rewrite join_last_app. rewrite <- !app_assoc. reflexivity. }
    rewrite E. clear E.
    pose proof (kept_good m) as KG. rewrite K in KG. rewrite forallb_app in KG. apply andb_true_iff in KG as [Gq Gn].
    simpl in Gn. rewrite andb_true_r in Gn.
    set (DD := dirs ++ [aname ++ [BANG]] ++ qs).
    assert (GD : forallb good_part DD = true).
    { unfold DD. rewrite forallb_app, D. cbn [app forallb]. rewrite good_bang by exact A. rewrite Gq. reflexivity. }
    assert (P : parse (root ++ join_slash (dirs ++ [aname ++ [BANG]]) ++ SLASH :: m) = parse (root ++ join_slash (DD ++ [n]))).
    { rewrite parse_member by assumption. rewrite parse_normal; [|exact R|].
      - unfold DD. rewrite K. rewrite <- !app_assoc. reflexivity.
      - rewrite forallb_app, GD. simpl. rewrite Gn. reflexivity. }
    intro H0. pose proof (populate_parse guard _ _ P) as PP.
    assert (H : populate_from_path fs_exists fs_resolve guard file_meta_default (Some (root ++ join_slash (DD ++ [n]))) = Ok m').
    { exact (eq_trans (eq_sym PP) H0). }
    destruct (populate_normal fs_exists fs_resolve guard root DD n m' R GD Gn H) as [F1 [F2 [F3 F4]]].
    split; [exact F1|]. split; [exact F2|].
    assert (J : forall l, l <> [] -> root ++ join_slash (dirs ++ [aname ++ [BANG]] ++ l)
                = (root ++ join_slash (dirs ++ [aname])) ++ BANG :: SLASH :: join_slash l).
    { intros l NE. rewrite app_assoc.
      assert (G2 : forallb good_part (dirs ++ [aname ++ [BANG]]) = true)
        by (rewrite forallb_app, D; simpl; rewrite good_bang by exact A; reflexivity).
      rewrite join_app2; [|destruct dirs; discriminate | exact NE].
      rewrite join_last_app. rewrite <- !app_assoc. reflexivity. }
    assert (LA : forall l, DD ++ l = dirs ++ [aname ++ [BANG]] ++ qs ++ l).
    { intro l. unfold DD. rewrite <- !app_assoc. reflexivity. }
    split.
    - rewrite F3. f_equal. f_equal. rewrite LA. rewrite <- (J (qs ++ [n])) by (destruct qs; discriminate). reflexivity.
    - rewrite F4. f_equal. f_equal. destruct qs as [|q qs'].
      + unfold DD. rewrite app_nil_r. rewrite join_last_app. rewrite app_assoc.
        apply match_nonempty. intro Z. apply app_eq_nil in Z as [_ Z]. discriminate.
      + assert (E4 : root ++ join_slash DD = (root ++ join_slash (dirs ++ [aname])) ++ BANG :: SLASH :: join_slash (q :: qs')).
        { rewrite <- (J (q :: qs')) by discriminate. reflexivity. }
        rewrite E4. apply match_nonempty. intro Z. apply app_eq_nil in Z as [_ Z]. discriminate.
  Qed.
End Member.
