(* C04 — lemmas about the pathlib model: parsing of normal-form paths, name, parent, suffix. *)
From S2T Require Import Lib.PyStr C04.Model C04.ModelPath.
From Coq Require Import ZArith List Bool Lia.
Import ListNotations.
Open Scope N_scope.

Lemma no_slash_cons c x : no_slash (c :: x) = true -> N.eqb c SLASH = false /\ no_slash x = true.
Proof.
  unfold no_slash. simpl. intro H. apply andb_true_iff in H as [H1 H2].
  split; [destruct (N.eqb c SLASH); [discriminate | reflexivity] | exact H2].
Qed.

Lemma split_aux_noslash cur x : no_slash x = true -> split_slash_aux cur x = [rev cur ++ x].
Proof.
  revert cur; induction x as [|c x IH]; intros cur H; simpl.
  - rewrite app_nil_r. reflexivity.
  - apply no_slash_cons in H as [H1 H2]. rewrite H1. rewrite IH by exact H2. simpl. rewrite <- app_assoc. reflexivity.
Qed.

Lemma split_aux_app cur a r : no_slash a = true ->
  split_slash_aux cur (a ++ SLASH :: r) = (rev cur ++ a) :: split_slash_aux [] r.
Proof.
  revert cur; induction a as [|c a IH]; intros cur H; simpl.
  - try rewrite N.eqb_refl. rewrite app_nil_r. reflexivity.
  - apply no_slash_cons in H as [H1 H2]. rewrite H1. rewrite IH by exact H2. simpl. rewrite <- app_assoc. reflexivity.
Qed.

Lemma good_part_spec x : good_part x = true -> keep_part x = true /\ no_slash x = true.
Proof. unfold good_part. intro H. apply andb_true_iff in H. exact H. Qed.

Lemma split_join parts : parts <> [] -> forallb good_part parts = true ->
  split_slash_aux [] (join_slash parts) = parts.
Proof.
  induction parts as [|x ps IH]; [congruence|]. intros _ H. simpl in H.
  apply andb_true_iff in H as [H1 H2]. apply good_part_spec in H1 as [_ H1].
  destruct ps as [|y ps'].
  - simpl. rewrite split_aux_noslash by exact H1. reflexivity.
  - change (join_slash (x :: y :: ps')) with (x ++ SLASH :: join_slash (y :: ps')).
    rewrite split_aux_app by exact H1. simpl. f_equal. apply IH; [discriminate | exact H2].
Qed.

Lemma filter_good parts : forallb good_part parts = true -> filter keep_part parts = parts.
Proof.
  induction parts as [|x ps IH]; [reflexivity|]. simpl. intro H. apply andb_true_iff in H as [H1 H2].
  apply good_part_spec in H1 as [H1 _]. rewrite H1, IH by exact H2. reflexivity.
Qed.

Lemma tail_of_join parts : forallb good_part parts = true ->
  filter keep_part (split_slash_aux [] (join_slash parts)) = parts.
Proof.
  intro H. destruct parts as [|x ps]; [reflexivity|].
  rewrite split_join; [apply filter_good; exact H | discriminate | exact H].
Qed.

(* a joined normal-form tail is empty or starts with a character other than '/' *)
Lemma join_head parts : forallb good_part parts = true ->
  join_slash parts = [] \/ exists c r, join_slash parts = c :: r /\ N.eqb c SLASH = false.
Proof.
  destruct parts as [|x ps]; [left; reflexivity|]. simpl. intro H. apply andb_true_iff in H as [H1 _].
  apply good_part_spec in H1 as [K S]. right.
  destruct x as [|c x]; [discriminate|]. apply no_slash_cons in S as [S _].
  destruct ps; simpl; eauto.
Qed.

Lemma splitroot_rel c r : N.eqb c SLASH = false -> splitroot (c :: r) = ([], c :: r).
Proof. intro H. unfold splitroot. rewrite H. reflexivity. Qed.
Lemma splitroot_abs c r : N.eqb c SLASH = false -> splitroot (SLASH :: c :: r) = ([SLASH], c :: r).
Proof. intro H. unfold splitroot. rewrite N.eqb_refl, H. reflexivity. Qed.
Lemma splitroot_abs2 c r : N.eqb c SLASH = false -> splitroot (SLASH :: SLASH :: c :: r) = ([SLASH; SLASH], c :: r).
Proof. intro H. unfold splitroot. rewrite !N.eqb_refl, H. reflexivity. Qed.

Lemma parse_normal root parts : good_root root = true -> forallb good_part parts = true ->
  parse (root ++ join_slash parts) = {| proot := root; ptail := parts |}.
Proof.
  intros R G. pose proof (tail_of_join parts G) as TJ. unfold parse, split_slash.
  destruct (join_head parts G) as [E|[c [r [E S]]]].
  - rewrite E in *. cbn in TJ. subst parts.
    destruct root as [|a [|b [|d root]]]; simpl in R; try discriminate.
    + reflexivity.
    + apply N.eqb_eq in R; subst a. reflexivity.
    + apply andb_true_iff in R as [R1 R2]. apply N.eqb_eq in R1, R2; subst a b. reflexivity.
  - rewrite E in *.
    destruct root as [|a [|b [|d root]]]; simpl in R; try discriminate.
    + cbn [app]. rewrite (splitroot_rel c r S). rewrite TJ. reflexivity.
    + apply N.eqb_eq in R; subst a. cbn [app]. rewrite (splitroot_abs c r S). rewrite TJ. reflexivity.
    + apply andb_true_iff in R as [R1 R2]. apply N.eqb_eq in R1, R2; subst a b. cbn [app].
      rewrite (splitroot_abs2 c r S). rewrite TJ. reflexivity.
Qed.

Lemma join_last_nonempty dirs name : name <> [] -> join_slash (dirs ++ [name]) <> [].
Proof.
  intro H. induction dirs as [|x ds IH]; simpl; [exact H|].
  destruct (ds ++ [name]) eqn:E; [destruct ds; discriminate|].
  intro K. destruct x; discriminate.
Qed.

Lemma pstr_nonempty root parts : join_slash parts <> [] -> pstr {| proot := root; ptail := parts |} = root ++ join_slash parts.
Proof.
  intro H. unfold pstr. simpl. destruct (root ++ join_slash parts) eqn:E; [|reflexivity].
  apply app_eq_nil in E as [_ E]. contradiction.
Qed.

Lemma parent_of_normal root dirs name :
  pparent {| proot := root; ptail := dirs ++ [name] |} = {| proot := root; ptail := dirs |}.
Proof.
  unfold pparent. simpl. destruct (dirs ++ [name]) eqn:E; [destruct dirs; discriminate|].
  rewrite <- E. rewrite removelast_last. reflexivity.
Qed.

Lemma name_of_normal root dirs name : pname {| proot := root; ptail := dirs ++ [name] |} = name.
Proof. unfold pname. simpl. apply last_last. Qed.

(* ---- suffix *)
Lemma rfind_nodot e j b : no_dot e = true -> rfind_dot_aux e j b = b.
Proof.
  revert j b; induction e as [|c e IH]; intros j b H; simpl; [reflexivity|].
  unfold no_dot in H. simpl in H. apply andb_true_iff in H as [H1 H2].
  destruct (N.eqb c PDOT); [discriminate|]. apply IH. exact H2.
Qed.

Lemma rfind_last_dot a e i best : no_dot e = true ->
  rfind_dot_aux (a ++ PDOT :: e) i best = Some (i + length a)%nat.
Proof.
  revert i best; induction a as [|c a IH]; intros i best H; simpl.
  - try rewrite N.eqb_refl. rewrite rfind_nodot by exact H. f_equal. lia.
  - rewrite IH by exact H. f_equal. lia.
Qed.

Lemma suffix_spec stem e : stem <> [] -> e <> [] -> no_dot e = true ->
  suffix_of_name (stem ++ PDOT :: e) = PDOT :: e.
Proof.
  intros Hs He Hd. unfold suffix_of_name, rfind_dot. rewrite rfind_last_dot by exact Hd. simpl Nat.add.
  assert (L1 : Nat.ltb 0 (length stem) = true) by (apply Nat.ltb_lt; destruct stem; [congruence | simpl; lia]).
  assert (L2 : Nat.ltb (S (length stem)) (length (stem ++ PDOT :: e)) = true).
  { apply Nat.ltb_lt. rewrite app_length. simpl. destruct e; [congruence | simpl; lia]. }
  rewrite L1, L2. simpl. rewrite skipn_app, skipn_all, Nat.sub_diag. reflexivity.
Qed.

Lemma suffix_nodot name : no_dot name = true -> suffix_of_name name = [].
Proof. intro H. unfold suffix_of_name, rfind_dot. rewrite rfind_nodot by exact H. reflexivity. Qed.

Lemma suffix_trailing_dot stem : suffix_of_name (stem ++ [PDOT]) = [].
Proof.
  unfold suffix_of_name, rfind_dot. rewrite (rfind_last_dot stem [] 0%nat None) by reflexivity. simpl Nat.add.
  rewrite app_length. simpl.
  replace (Nat.ltb (S (length stem)) (length stem + 1)) with false by (symmetry; apply Nat.ltb_ge; lia).
  rewrite andb_false_r. reflexivity.
Qed.

Lemma suffix_leading_dot e : no_dot e = true -> suffix_of_name (PDOT :: e) = [].
Proof.
  intro H. unfold suffix_of_name, rfind_dot. change (PDOT :: e) with ([] ++ PDOT :: e).
  rewrite (rfind_last_dot [] e 0%nat None) by exact H. reflexivity.
Qed.

(* ---- populate_from_path on a normal-form path *)
Section Norm.
  Variable fs_exists : str -> option bool.
  Variable fs_resolve : str -> str.

  Definition shown (q : str) : str := match fs_exists q with Some true => fs_resolve q | _ => q end.

  Lemma resolved_shown guard q v : resolved_or_str fs_exists fs_resolve guard q = Ok v -> v = shown (pstr q).
  Proof.
    unfold resolved_or_str, shown. destruct (fs_exists (pstr q)) as [[|]|]; try (intro H; inversion H; reflexivity).
    destruct guard; intro H; inversion H; reflexivity.
  Qed.

  Lemma populate_normal guard root dirs name m' :
    good_root root = true -> forallb good_part dirs = true -> good_part name = true ->
    populate_from_path fs_exists fs_resolve guard file_meta_default (Some (root ++ join_slash (dirs ++ [name]))) = Ok m' ->
    filename m' = Some name /\ file_extension m' = Some (suffix_of_name name)
    /\ file_path m' = Some (shown (root ++ join_slash (dirs ++ [name])))
    /\ folder_path m' = Some (shown (match root ++ join_slash dirs with [] => [PDOT] | x => x end)).
  Proof.
    intros R D Nm. unfold populate_from_path.
    assert (G : forallb good_part (dirs ++ [name]) = true) by (rewrite forallb_app, D; simpl; rewrite Nm; reflexivity).
    rewrite (parse_normal root _ R G).
    destruct (resolved_or_str fs_exists fs_resolve guard {| proot := root; ptail := dirs ++ [name] |}) as [fp|] eqn:E1; [|discriminate].
    simpl bind. rewrite parent_of_normal.
    destruct (resolved_or_str fs_exists fs_resolve guard {| proot := root; ptail := dirs |}) as [dp|] eqn:E2; [|discriminate].
    simpl. intro H; inversion H; subst; simpl. clear H.
    apply resolved_shown in E1, E2. subst fp dp.
    unfold psuffix. rewrite name_of_normal.
    rewrite pstr_nonempty.
    - repeat split; reflexivity.
    - apply join_last_nonempty. apply good_part_spec in Nm as [K _]. destruct name; [discriminate | discriminate].
  Qed.
End Norm.
