(* C04 — executable model of data_types._odf_length_to_px.  Definitions only.

     _ODF_LENGTH_RE = ^\s*(\d+(?:\.\d+)?)\s*([a-zA-Z]+)?\s*$
     value = float(group 1); unit = (group 2 or "px").lower()
     if unit == "<u>": return int(round(<expression over value and float literals>))  … else None

   Floats are IEEE-754 binary64, modelled bit-exactly with Coq.Floats.SpecFloat (prec 53, emax 1024):
   float(decimal literal) is the correctly rounded quotient digits / 10^k (what CPython's dtoa returns),
   `*` and `/` are SFmul / SFdiv, round() is round-half-even to an int and raises OverflowError on
   an infinity and ValueError on a NaN (CPython float.__round__).

   The per-unit expressions and the presence of a finiteness guard are read from the source of the
   function on every check run (Gen/C04Tables.v); the model interprets them.
   Oracles: str.isspace / \s, Unicode decimal value of a code point (\d, float()). *)
From S2T Require Import Lib.PyStr C04.Model.
From Coq Require Import List NArith ZArith Bool Floats.SpecFloat.
Import ListNotations.
Open Scope N_scope.

Definition prec : Z := 53.
Definition emax : Z := 1024.

(* expression over `value` and float literals (literal = m * 2^e exactly) *)
Inductive fexpr := FVal | FConst (m : Z) (e : Z) | FMul (a b : fexpr) | FDiv (a b : fexpr).

Record odf_table := {
  units : list (str * fexpr);   (* the `if unit == "…"` chain in source order *)
  guarded : bool                (* the result is tested with math.isfinite before round() *)
}.

Definition fconst (m e : Z) : spec_float := binary_normalize prec emax m e false.

Fixpoint feval (v : spec_float) (x : fexpr) : spec_float :=
  match x with
  | FVal => v
  | FConst m e => fconst m e
  | FMul a b => SFmul prec emax (feval v a) (feval v b)
  | FDiv a b => SFdiv prec emax (feval v a) (feval v b)
  end.

Definition is_finite (f : spec_float) : bool :=
  match f with S754_zero _ | S754_finite _ _ _ => true | _ => false end.

(* round-half-even of m * 2^e (m > 0) *)
Definition rne (m : positive) (e : Z) : Z :=
  match e with
  | Zneg k =>
      let d := Z.pow_pos 2 k in
      let q := (Zpos m / d)%Z in
      let r := (Zpos m mod d)%Z in
      match (2 * r ?= d)%Z with
      | Lt => q
      | Gt => (q + 1)%Z
      | Eq => if Z.even q then q else (q + 1)%Z
      end
  | _ => (Zpos m * 2 ^ e)%Z
  end.

(* int(round(f)) *)
Definition py_round (f : spec_float) : result Z :=
  match f with
  | S754_zero _ => Ok 0%Z
  | S754_finite sg m e => Ok (if sg then (- rne m e)%Z else rne m e)
  | S754_infinity _ => Raise OverflowError
  | S754_nan => Raise ValueError
  end.

Section Odf.
  Variable isspace : N -> bool.
  Variable decval : N -> option N.    (* Some d for a Unicode decimal digit of value d *)

  Definition isdigit (c : N) : bool := match decval c with Some _ => true | None => false end.
  Definition ascii_letter (c : N) : bool :=
    ((65 <=? c) && (c <=? 90)) || ((97 <=? c) && (c <=? 122)).
  Definition ascii_lower (x : str) : str :=
    map (fun c => if (65 <=? c) && (c <=? 90) then c + 32 else c) x.

  Definition digits_value (ds : str) : Z :=
    fold_left (fun acc c => (acc * 10 + Z.of_N (match decval c with Some d => d | None => 0 end))%Z) ds 0%Z.

  Definition DOT : N := 46.

  (* the regular expression, matched deterministically (its character classes are disjoint) *)
  Definition parse_length (x : str) : option (str * str * str) :=
    let r0 := dropWhile isspace x in
    let ip := takeWhile isdigit r0 in
    let r1 := dropWhile isdigit r0 in
    match ip with
    | [] => None
    | _ =>
      let '(fp, r2) :=
        match r1 with
        | c :: r =>
            if N.eqb c DOT then
              match takeWhile isdigit r with
              | [] => ([], r1)
              | fp => (fp, dropWhile isdigit r)
              end
            else ([], r1)
        | [] => ([], r1)
        end in
      let r3 := dropWhile isspace r2 in
      let unit := takeWhile ascii_letter r3 in
      let r4 := dropWhile ascii_letter r3 in
      match dropWhile isspace r4 with
      | [] => Some (ip, fp, unit)
      | _ => None
      end
    end.

  Fixpoint pow10 (k : nat) : positive := match k with O => 1%positive | S k' => (10 * pow10 k')%positive end.

  (* float("<ip>.<fp>") *)
  Definition float_of_decimal (ip fp : str) : spec_float :=
    match digits_value (ip ++ fp) with
    | Zpos d => SFdiv prec emax (S754_finite false d 0) (S754_finite false (pow10 (length fp)) 0)
    | _ => S754_zero false
    end.

  Definition px_float (T : odf_table) (x : str) : option spec_float :=
    match parse_length x with
    | None => None
    | Some (ip, fp, unit) =>
        let u := match unit with [] => s "px" | _ => ascii_lower unit end in
        match assoc u (units T) with
        | None => None
        | Some ex => Some (feval (float_of_decimal ip fp) ex)
        end
    end.

  Definition odf_px (T : odf_table) (x : str) : result (option Z) :=
    match x with
    | [] => Ok None
    | _ =>
      match px_float T x with
      | None => Ok None
      | Some px =>
          if guarded T && negb (is_finite px) then Ok None
          else match py_round px with Ok z => Ok (Some z) | Raise e => Raise e end
      end
    end.
End Odf.
