(* C04 — property theorems.  Statements closed by `exact`/short scripts over the lemmas of Proofs*.v,
   each followed by Print Assumptions.  All oracles (str.isspace/isalpha/isdigit/lower, Unicode decimal
   values, the file system, the unit table and the RTF tables) are universally quantified. *)
From S2T Require Import Lib.PyStr C04.Model C04.ModelFloat C04.ModelPath C04.ModelRtf C04.ModelMeta
  C04.Proofs C04.ProofsPath C04.ProofsRtf C04.ProofsMeta.
From Coq Require Import List NArith ZArith Bool Floats.SpecFloat.
Import ListNotations.
Open Scope N_scope.

(* ================================================================= tables *)
(* get_dim() is the shape of get_table() — rows = number of rows, columns = the largest row length
   (0 for an empty table) — for all six table classes and every content *)
Theorem C04_dim_is_shape : forall (V : Type) (t : table V), is_shape (get_table_lengths t) (get_dim t).
Proof. exact dim_is_shape. Qed.
Print Assumptions C04_dim_is_shape.

(* XlsSheet: header row + one row per record, every row exactly as wide as the header *)
Theorem C04_xls_sheet_dim : forall (V : Type) (first : list (str * V)) (rest : list (list (str * V))),
  xls_get_dim (first :: rest) = {| rows := S (S (length rest)); columns := length first |}
  /\ forall n, In n (map (@length (xcell V)) (xls_get_table (first :: rest))) -> n = length first.
Proof.
  intros V first rest. split; [apply xls_dim|]. intros n H.
  rewrite (xls_rows_rectangular V (first :: rest) n H), xls_dim. reflexivity.
Qed.
Print Assumptions C04_xls_sheet_dim.

(* ================================================================= byte streams *)
(* get_bytes(): positioned at 0, holds exactly the image's bytes, read() returns them all — whatever
   position an earlier reader left a shared stream at; and its length is the reported size_bytes
   whenever the producer stored size_bytes = len(data) *)
Theorem C04_bytes_stream : forall i : image,
  pos (get_bytes i) = 0 /\ buf (get_bytes i) = payload_bytes (idata i) /\ bio_read (get_bytes i) = payload_bytes (idata i)
  /\ (size_consistent i = true -> forall z, isize i = Some z -> Z.of_N (bio_len (get_bytes i)) = z).
Proof.
  intro i. destruct (bytes_stream i) as [A [B C]]. repeat split; try assumption.
  intros H z E. exact (bytes_len_is_size i z H E).
Qed.
Print Assumptions C04_bytes_stream.

Example C04_size_consistent_satisfiable :
  size_consistent {| icls := DocxImage; inum := 1; ictype := s "image/png"; idata := PStream (Some {| buf := [1;2;3]; pos := 2 |});
                     isize := Some 3%Z; iwidth := DNone; iheight := DNone; iunit := None; icaption := []; idesc := [] |} = true.
Proof. reflexivity. Qed.
Print Assumptions C04_size_consistent_satisfiable.

(* ================================================================= path metadata *)
(* no path: nothing is touched (all four fields stay None on a fresh object) *)
Theorem C04_metadata_no_path : forall fs_exists fs_resolve guard,
  populate_from_path fs_exists fs_resolve guard file_meta_default None = Ok file_meta_default
  /\ filename file_meta_default = None /\ file_extension file_meta_default = None
  /\ file_path file_meta_default = None /\ folder_path file_meta_default = None.
Proof. intros. repeat split. Qed.
Print Assumptions C04_metadata_no_path.

(* every path in normal form  root ++ dir/…/dir/name  (root "", "/" or "//"; components non-empty, not ".",
   without "/" — any other characters, e.g. "archive.zip!"): file name, extension, folder and path are
   derived from the path argument; `shown q` is q itself unless the file system says q exists *)
Theorem C04_metadata_from_path :
  forall (fs_exists : str -> option bool) (fs_resolve : str -> str) (guard : bool) (root : str) (dirs : list str) (name : str) m',
    good_root root = true -> forallb good_part dirs = true -> good_part name = true ->
    populate_from_path fs_exists fs_resolve guard file_meta_default (Some (root ++ join_slash (dirs ++ [name]))) = Ok m' ->
    filename m' = Some name /\ file_extension m' = Some (suffix_of_name name)
    /\ file_path m' = Some (shown fs_exists fs_resolve (root ++ join_slash (dirs ++ [name])))
    /\ folder_path m' = Some (shown fs_exists fs_resolve (match root ++ join_slash dirs with [] => [PDOT] | x => x end)).
Proof. exact populate_normal. Qed.
Print Assumptions C04_metadata_from_path.

Example C04_archive_member_form :
  populate_from_path (fun _ => Some false) (fun q => q) false file_meta_default (Some (s "archive.zip!/dir/member.docx"))
  = Ok {| filename := Some (s "member.docx"); file_extension := Some (s ".docx");
          file_path := Some (s "archive.zip!/dir/member.docx"); folder_path := Some (s "archive.zip!/dir") |}
  /\ good_part (s "archive.zip!") = true /\ good_root [] = true.
Proof. vm_compute. repeat split. Qed.
Print Assumptions C04_archive_member_form.

(* the extension: ".ext" after the last dot, unless that dot starts or ends the name *)
Theorem C04_path_suffix :
  (forall stem e, stem <> [] -> e <> [] -> no_dot e = true -> suffix_of_name (stem ++ PDOT :: e) = PDOT :: e)
  /\ (forall name, no_dot name = true -> suffix_of_name name = [])
  /\ (forall stem, suffix_of_name (stem ++ [PDOT]) = [])
  /\ (forall e, no_dot e = true -> suffix_of_name (PDOT :: e) = []).
Proof. repeat split. exact suffix_spec. exact suffix_nodot. exact suffix_trailing_dot. exact suffix_leading_dot. Qed.
Print Assumptions C04_path_suffix.

(* with Path.exists() shielded (fixes/C04-path-metadata-oserror.patch) the call never raises, for every path
   string and every behaviour of the file system *)
Theorem C04_path_metadata_total : forall fs_exists fs_resolve m path,
  raises (populate_from_path fs_exists fs_resolve true m path) = false.
Proof. exact populate_total_guarded. Qed.
Print Assumptions C04_path_metadata_total.

(* without it: a file system that answers exists() with an OSError (ENAMETOOLONG) makes the call raise *)
Theorem C04_path_metadata_total_refuted : exists fs_exists fs_resolve path,
  raises (populate_from_path fs_exists fs_resolve false file_meta_default (Some path)) = true.
Proof. exists (fun _ => None), (fun q => q), (s "x.docx"). reflexivity. Qed.
Print Assumptions C04_path_metadata_total_refuted.

(* ================================================================= ImageMetadata *)
(* get_metadata() of a well-typed image never raises, provided the ODF length conversion does not *)
Theorem C04_image_metadata_total :
  forall isspace lower (odf : str -> result (option Z)) ctypes (i : image),
    well_typed i = true -> (forall x, raises (odf x) = false) ->
    raises (get_metadata isspace lower odf ctypes i) = false.
Proof. exact get_metadata_total. Qed.
Print Assumptions C04_image_metadata_total.

(* … and that conversion is the only way it can raise *)
Theorem C04_image_metadata_raises_only_odf :
  forall isspace lower (odf : str -> result (option Z)) ctypes (i : image),
    well_typed i = true -> raises (get_metadata isspace lower odf ctypes i) = true ->
    icls i = OpenDocumentImage /\ exists x, (iwidth i = DStr x \/ iheight i = DStr x) /\ raises (odf x) = true.
Proof. exact get_metadata_raises_only_odf. Qed.
Print Assumptions C04_image_metadata_raises_only_odf.

Example C04_well_typed_satisfiable :
  well_typed {| icls := OpenDocumentImage; inum := 1; ictype := s "image/png"; idata := PStream None; isize := Some 0%Z;
                iwidth := DStr (s "10cm"); iheight := DNone; iunit := None; icaption := []; idesc := [] |} = true.
Proof. reflexivity. Qed.
Print Assumptions C04_well_typed_satisfiable.

(* reported width/height are None or positive (RtfImage: twips // 15 may be 0) *)
Theorem C04_image_dims_positive :
  forall (odf : str -> result (option Z)) c d o z, meta_dim odf c d = Ok o -> o = Some z ->
    (0 <= z)%Z /\ (c <> RtfImage -> 0 < z)%Z.
Proof. exact meta_dim_nonneg. Qed.
Print Assumptions C04_image_dims_positive.

(* ImageMetadata: the dict view has exactly the five keys with the attribute values *)
Theorem C04_image_metadata_dict_view : forall f,
  items (image_metadata_init f) =
    [(s "unit_number", MOptZ (m_unit f)); (s "image_number", MZ (m_num f)); (s "content_type", MStr (m_ctype f));
     (s "width", MOptZ (m_width f)); (s "height", MOptZ (m_height f))].
Proof. exact image_metadata_items. Qed.
Print Assumptions C04_image_metadata_dict_view.

(* text accessors of images return well-formed Unicode when the stored fields are well-formed *)
Theorem C04_image_text_utf8able :
  forall isspace lower ctypes (i : image),
    forallb (fun kv => utf8able (snd kv)) ctypes = true ->
    utf8able (ictype i) = true -> utf8able (icaption i) = true -> utf8able (idesc i) = true ->
    utf8able (get_content_type isspace lower ctypes i) = true
    /\ utf8able (get_caption isspace i) = true /\ utf8able (get_description isspace i) = true.
Proof.
  intros isspace lower ctypes i HT H1 H2 H3. repeat split.
  - apply get_content_type_utf8able; assumption.
  - apply get_caption_utf8able; assumption.
  - apply get_description_utf8able; assumption.
Qed.
Print Assumptions C04_image_text_utf8able.

(* ================================================================= _odf_length_to_px *)
(* guarded conversion (fixes/C04-odf-length-nonfinite.patch): total for every string, every unit table *)
Theorem C04_odf_length_total : forall isspace decval (T : odf_table) (x : str),
  guarded T = true -> raises (odf_px isspace decval T x) = false.
Proof. exact odf_px_total_guarded. Qed.
Print Assumptions C04_odf_length_total.

Definition ascii_space (c : N) : bool := N.eqb c 32.
Definition ascii_decval (c : N) : option N := if (48 <=? c) && (c <=? 57) then Some (c - 48) else None.
Definition cm_table (g : bool) : odf_table :=
  {| units := [(s "px", FVal); (s "cm", FMul (FDiv FVal (FConst 5719571526760530 (-51))) (FConst 96 0))]; guarded := g |}.
Definition nines_cm : str := repeat 57 400 ++ s "cm".
Definition overflow_image : image :=
  {| icls := OpenDocumentImage; inum := 1; ictype := s "image/png"; idata := PStream None; isize := Some 0%Z;
     iwidth := DStr nines_cm; iheight := DNone; iunit := None; icaption := []; idesc := [] |}.

(* "accessors never raise" at full strength is FALSE of the unguarded code: a well-typed OpenDocumentImage
   whose svg:width is 400 nines + "cm" makes get_metadata() raise OverflowError (float inf -> round) *)
Theorem C04_accessors_total_refuted : exists isspace decval lower T ctypes (i : image),
  well_typed i = true /\ guarded T = false
  /\ get_metadata isspace lower (odf_px isspace decval T) ctypes i = Raise OverflowError.
Proof.
  exists ascii_space, ascii_decval, (fun x => x), (cm_table false), [], overflow_image.
  vm_compute. repeat split.
Qed.
Print Assumptions C04_accessors_total_refuted.

(* the unguarded conversion raises exactly when the float handed to round() is not finite *)
Theorem C04_odf_length_raises_iff : forall isspace decval (T : odf_table) (x : str),
  guarded T = false ->
  (raises (odf_px isspace decval T x) = true <->
   x <> [] /\ exists px, px_float isspace decval T x = Some px /\ is_finite px = false).
Proof. exact odf_px_raises_iff. Qed.
Print Assumptions C04_odf_length_raises_iff.

Example C04_odf_guarded_witness :
  odf_px ascii_space ascii_decval (cm_table true) nines_cm = Ok None
  /\ odf_px ascii_space ascii_decval (cm_table true) (s "10.5cm") = Ok (Some 397%Z).
Proof. vm_compute. split; reflexivity. Qed.
Print Assumptions C04_odf_guarded_witness.

(* ================================================================= RTF body decoder *)
(* repaired decoder (fixes/C04-rtf-surrogates.patch): for EVERY text made of code points — no matter what
   \uN, \'hh, control words or groups it contains — the returned text and every page are UTF-8 encodable *)
Theorem C04_rtf_output_utf8able :
  forall isalpha isdigit_str decval isspace (T : rtf_tables) (text joined : str) (pgs : list str),
    repair T = true -> special_ok T valid = true -> forallb valid text = true ->
    strip_full isalpha isdigit_str decval isspace T text = Ok (joined, pgs) ->
    utf8able joined = true /\ forallb utf8able pgs = true.
Proof. exact strip_full_utf8able_repaired. Qed.
Print Assumptions C04_rtf_output_utf8able.

Definition ascii_alpha (c : N) : bool := ((65 <=? c) && (c <=? 90)) || ((97 <=? c) && (c <=? 122)).
Definition ascii_digit (c : N) : bool := (48 <=? c) && (c <=? 57).
Definition bare_tables (r : bool) : rtf_tables := {| skip_dests := [s "fonttbl"]; special := [(s "par", [10])]; repair := r |}.
Definition emoji_rtf : str := [92] ++ s "u55357?" ++ [92] ++ s "u56832? x".   (* backslash-u55357? backslash-u56832? x *)

(* the unrepaired decoder turns a pure-ASCII (hence well-formed) text into two lone surrogates *)
Theorem C04_rtf_output_utf8able_refuted : exists isalpha isdigit_str decval isspace T text joined pgs,
  repair T = false /\ utf8able text = true /\
  strip_full isalpha isdigit_str decval isspace T text = Ok (joined, pgs) /\ utf8able joined = false
  /\ joined = [0xD83D; 0xDE00; 32; 120].
Proof.
  exists ascii_alpha, ascii_digit, ascii_decval, ascii_space, (bare_tables false), emoji_rtf,
    [0xD83D; 0xDE00; 32; 120], [[0xD83D; 0xDE00; 32; 120]].
  vm_compute. repeat split.
Qed.
Print Assumptions C04_rtf_output_utf8able_refuted.

(* what is true of the unrepaired decoder: well-formed in, well-formed out, when the text has no \u escape *)
Theorem C04_rtf_output_utf8able_partial :
  forall isalpha isdigit_str decval isspace (T : rtf_tables) (text joined : str) (pgs : list str),
    repair T = false -> special_ok T scalar = true -> utf8able text = true -> no_bsl_u text = true ->
    strip_full isalpha isdigit_str decval isspace T text = Ok (joined, pgs) ->
    utf8able joined = true /\ forallb utf8able pgs = true.
Proof. exact strip_full_utf8able_no_u. Qed.
Print Assumptions C04_rtf_output_utf8able_partial.

Example C04_rtf_hypotheses_satisfiable :
  no_bsl_u (s "{\rtf1 caf\'e9\par}") = true /\ utf8able (s "{\rtf1 caf\'e9\par}") = true
  /\ special_ok (bare_tables false) scalar = true /\ special_ok (bare_tables true) valid = true
  /\ strip_full ascii_alpha ascii_digit ascii_decval ascii_space (bare_tables true) emoji_rtf = Ok ([0x1F600; 32; 120], [[0x1F600; 32; 120]]).
Proof. vm_compute. repeat split. Qed.
Print Assumptions C04_rtf_hypotheses_satisfiable.

(* _repair_surrogates: output always encodable; well-formed text is left alone *)
Theorem C04_repair_surrogates_utf8able : forall x, forallb valid x = true -> utf8able (repair_surrogates x) = true.
Proof. exact repair_scalar. Qed.
Print Assumptions C04_repair_surrogates_utf8able.

Theorem C04_repair_surrogates_identity : forall x, utf8able x = true -> repair_surrogates x = x.
Proof. exact repair_identity. Qed.
Print Assumptions C04_repair_surrogates_identity.

(* ================================================================= document properties *)
(* core.xml (DOCX/PPTX): what the file stores for title / creator / subject / keywords / description
   (first child with the tag, non-empty text) is the metadata value, character for character *)
Theorem C04_props_unchanged_ooxml : forall (tg : prop_tags) (root : xml),
  (forall t, stored root (t_title tg) t -> p_title (ooxml_props tg (Some root)) = t) /\
  (forall t, stored root (t_author tg) t -> p_author (ooxml_props tg (Some root)) = t) /\
  (forall t, stored root (t_subject tg) t -> p_subject (ooxml_props tg (Some root)) = t) /\
  (forall t, stored root (t_keywords tg) t -> p_keywords (ooxml_props tg (Some root)) = t) /\
  (forall t, stored root (t_description tg) t -> p_description (ooxml_props tg (Some root)) = t).
Proof. exact ooxml_unchanged. Qed.
Print Assumptions C04_props_unchanged_ooxml.

(* meta.xml (ODF), m = the office:meta element found under the root *)
Theorem C04_props_unchanged_odf : forall (office_meta : str) (tg : prop_tags) (root m : xml),
  find_desc office_meta root = Some m ->
  (forall t, stored m (t_title tg) t -> p_title (odf_props office_meta tg (Some root)) = t) /\
  (forall t, stored m (t_author tg) t -> p_author (odf_props office_meta tg (Some root)) = t) /\
  (forall t, stored m (t_subject tg) t -> p_subject (odf_props office_meta tg (Some root)) = t) /\
  (forall t, stored m (t_keywords tg) t -> p_keywords (odf_props office_meta tg (Some root)) = t) /\
  (forall t, stored m (t_description tg) t -> p_description (odf_props office_meta tg (Some root)) = t).
Proof. exact odf_unchanged. Qed.
Print Assumptions C04_props_unchanged_odf.

Example C04_stored_satisfiable :
  stored (Elem (s "root") None [Elem (s "other") None []; Elem (s "title") (Some (s " My Title ")) []]) (s "title") (s " My Title ")
  /\ find_desc (s "meta") (Elem (s "doc") None [Elem (s "meta") None []]) = Some (Elem (s "meta") None []).
Proof.
  split; [|reflexivity].
  exists (s "root"), None, [Elem (s "other") None []], [], []. repeat split.
  - simpl. intros [H|[]]. discriminate.
  - discriminate.
Qed.
Print Assumptions C04_stored_satisfiable.

(* OPF (EPUB): the reader strips; unchanged exactly for values without surrounding whitespace *)
Theorem C04_props_unchanged_epub_partial :
  forall isspace opf_metadata any_ns (tg : prop_tags) (root m : xml),
    find_child opf_metadata root = Some m ->
    (forall t, stored m (t_title tg) t -> strip isspace t = t -> p_title (epub_props isspace opf_metadata any_ns tg (Some root)) = t) /\
    (forall t, stored m (t_author tg) t -> strip isspace t = t -> p_author (epub_props isspace opf_metadata any_ns tg (Some root)) = t) /\
    (forall t, stored m (t_subject tg) t -> strip isspace t = t -> p_subject (epub_props isspace opf_metadata any_ns tg (Some root)) = t) /\
    (forall t, stored m (t_description tg) t -> strip isspace t = t -> p_description (epub_props isspace opf_metadata any_ns tg (Some root)) = t).
Proof.
  intros isspace opf any tg root m F.
  destruct (epub_stripped isspace opf any tg root m F) as [A [B [C D]]].
  repeat split; intros t H E; [rewrite (A t H) | rewrite (B t H) | rewrite (C t H) | rewrite (D t H)]; exact E.
Qed.
Print Assumptions C04_props_unchanged_epub_partial.

Definition epub_demo_tags : prop_tags :=
  {| t_title := s "title"; t_author := s "creator"; t_subject := s "subject"; t_keywords := []; t_description := s "description" |}.
Definition epub_demo_meta : xml := Elem (s "metadata") None [Elem (s "title") (Some (s " A")) []].

Theorem C04_props_unchanged_epub_refuted : exists isspace opf any tg root m t,
  find_child opf root = Some m /\ stored m (t_title tg) t
  /\ p_title (epub_props isspace opf any tg (Some root)) <> t.
Proof.
  exists ascii_space, (s "metadata"), (fun _ => false), epub_demo_tags,
    (Elem (s "package") None [epub_demo_meta]), epub_demo_meta, (s " A").
  split; [reflexivity|]. split.
  - exists (s "metadata"), None, [], [], []. repeat split; [intros [] | discriminate].
  - vm_compute. discriminate.
Qed.
Print Assumptions C04_props_unchanged_epub_refuted.

(* HTML head: the content of the last <meta name=…> with that (lower-cased) name and a non-empty content
   is the metadata value, unchanged — description, keywords, author *)
Theorem C04_props_unchanged_html_meta :
  forall (lower : str -> str) (k : mkey) (p0 : props) (pre : list (list (str * str))) (a : list (str * str)) post,
    meta_name lower a = key_name k -> meta_content a <> [] ->
    (forall b, In b post -> meta_name lower b = key_name k -> meta_content b = []) ->
    key_get k (html_meta_props lower p0 (pre ++ a :: post)) = meta_content a.
Proof. exact html_meta_last_wins. Qed.
Print Assumptions C04_props_unchanged_html_meta.

(* ================================================================= RTF info group (get_value) *)
From S2T Require Import C04.ModelRtfText C04.ProofsRtfText C04.ModelSummary.

(* a property value written with plain characters, \'hh, \uN? and surrogate pairs \uH?\uL? (tokens the reader can
   take apart: token_ok; no surrounding white space) is returned by the repaired get_value exactly as meant,
   and that text is well-formed Unicode — for every oracle that does not call '?' or '-' a digit *)
Theorem C04_props_unchanged_rtf :
  forall (decval : N -> option N) (isspace az_ci : N -> bool) (ts : list token),
    sane decval = true -> forallb (token_ok decval) ts = true ->
    str_eqb (strip isspace (written ts)) (written ts) = true ->
    str_eqb (strip isspace (meaning decval ts)) (meaning decval ts) = true ->
    info_value decval isspace az_ci true true (written ts) = Ok (meaning decval ts)
    /\ utf8able (meaning decval ts) = true.
Proof.
  intros decval isspace az_ci ts S OK S1 S2. split.
  - exact (info_round_trip decval isspace az_ci S ts OK S1 S2).
  - first [exact (meaning_utf8able decval ts OK) | exact (meaning_utf8able decval S ts OK)].
Qed.
Print Assumptions C04_props_unchanged_rtf.

Definition price_tokens : list token :=
  [TChar 80; TChar 114; TUni false (s "8364"); TChar 105; TChar 115; TChar 32; TChar 74; THex 102 99; TChar 32;
   TPair false (s "55357") false (s "56832"); TUni true (s "3"); TChar 90].

Example C04_rtf_info_hypotheses_satisfiable :
  sane ascii_decval = true /\ forallb (token_ok ascii_decval) price_tokens = true
  /\ str_eqb (strip ascii_space (written price_tokens)) (written price_tokens) = true
  /\ str_eqb (strip ascii_space (meaning ascii_decval price_tokens)) (meaning ascii_decval price_tokens) = true
  /\ meaning ascii_decval price_tokens = [80; 114; 0x20AC; 105; 115; 32; 74; 0xFC; 32; 0x1F600; 0xFFFD; 90].
Proof. vm_compute. repeat split. Qed.
Print Assumptions C04_rtf_info_hypotheses_satisfiable.

(* before the repair get_value dropped the escape and kept its "?" fallback *)
Theorem C04_props_unchanged_rtf_refuted : exists decval isspace az_ci ts,
  sane decval = true /\ forallb (token_ok decval) ts = true /\
  info_value decval isspace az_ci false false (written ts) = Ok (s "Pr?is") /\ meaning decval ts = [80; 114; 0x20AC; 105; 115].
Proof.
  exists ascii_decval, ascii_space, ascii_alpha, [TChar 80; TChar 114; TUni false (s "8364"); TChar 105; TChar 115].
  vm_compute. repeat split.
Qed.
Print Assumptions C04_props_unchanged_rtf_refuted.

(* ================================================================= _strip_rtf_simple *)
(* repaired fallback stripper: every text made of code points gives UTF-8 encodable text *)
Theorem C04_rtf_simple_utf8able :
  forall (decval : N -> option N) (isspace az_ci : N -> bool) (T : rtf_tables) (text out : str),
    repair T = true -> special_ok T scalar = true -> forallb valid text = true ->
    strip_simple decval isspace az_ci T text = Ok out -> utf8able out = true.
Proof. exact strip_simple_utf8able. Qed.
Print Assumptions C04_rtf_simple_utf8able.

Theorem C04_rtf_simple_utf8able_refuted : exists decval isspace az_ci T text out,
  repair T = false /\ utf8able text = true /\ strip_simple decval isspace az_ci T text = Ok out /\ utf8able out = false.
Proof.
  exists ascii_decval, ascii_space, ascii_alpha, (bare_tables false), emoji_rtf, [0xD83D; 0xDE00; 32; 120].
  vm_compute. repeat split.
Qed.
Print Assumptions C04_rtf_simple_utf8able_refuted.

(* it raises exactly when the \uN substitution does (int() refuses more than 4300 digits) … *)
Theorem C04_rtf_simple_raises_only_digits :
  forall (decval : N -> option N) (isspace az_ci : N -> bool) (T : rtf_tables) (text : str),
    raises (strip_simple decval isspace az_ci T text) = raises (usub decval 0 (rig 0 text)).
Proof. exact strip_simple_raises. Qed.
Print Assumptions C04_rtf_simple_raises_only_digits.

(* … so "never raises" is false: backslash-u followed by 4301 digits *)
Theorem C04_rtf_simple_total_refuted : exists decval isspace az_ci T text,
  strip_simple decval isspace az_ci T text = Raise ValueError.
Proof.
  exists ascii_decval, ascii_space, ascii_alpha, (bare_tables true), ([92; 117] ++ repeat 49 4301).
  vm_compute. reflexivity.
Qed.
Print Assumptions C04_rtf_simple_total_refuted.

(* ================================================================= OLE summary / openpyxl properties *)
(* DOC and PPT: every property is `lenient cp stored`: a str arrives unchanged, bytes are decoded with the
   recorded code page (UTF-8 before the repair), an absent value is "" *)
Theorem C04_props_summary_ole :
  forall (decode : Z -> list N -> str) (cp_aware : bool) (m : ole_meta),
    let L := lenient decode cp_aware (o_cp m) in
    doc_props decode cp_aware m = {| p_title := L (o_title m); p_author := L (o_author m); p_subject := L (o_subject m);
                                     p_keywords := L (o_keywords m); p_description := [] |}
    /\ ppt_props decode cp_aware m = {| p_title := L (o_title m); p_author := L (o_author m); p_subject := L (o_subject m);
                                        p_keywords := L (o_keywords m); p_description := L (o_comments m) |}
    /\ (forall x, L (OStr x) = x) /\ L ONone = []
    /\ (forall b, L (OBytes b) = decode (if cp_aware then o_cp m else 65001%Z) b).
Proof. intros. repeat split. Qed.
Print Assumptions C04_props_summary_ole.

(* XLS after the repair: never raises, same normalisation *)
Theorem C04_xls_summary_total :
  forall (decode : Z -> list N -> str) (strict : list N -> option str) (m : ole_meta),
    let L := lenient decode true (o_cp m) in
    xls_props decode strict true m = Ok {| p_title := L (o_title m); p_author := L (o_author m); p_subject := L (o_subject m);
                                           p_keywords := []; p_description := [] |}.
Proof. intros. reflexivity. Qed.
Print Assumptions C04_xls_summary_total.

(* XLS before: an author stored in the ANSI code page (bytes that are not UTF-8) makes the reader raise *)
Theorem C04_xls_summary_total_refuted : exists decode strict m,
  xls_props decode strict false m = Raise UnicodeDecodeError.
Proof.
  exists (fun _ b => b), (fun b => if forallb (fun c => c <? 128) b then Some b else None),
    {| o_cp := 1252; o_title := ONone; o_author := OBytes [103; 101; 0xF6; 114; 103]; o_subject := ONone;
       o_keywords := ONone; o_comments := ONone |}.
  reflexivity.
Qed.
Print Assumptions C04_xls_summary_total_refuted.

(* XLSX: a stored property is reported unchanged, an absent one as "" *)
Theorem C04_props_unchanged_xlsx : forall p : xlsx_properties,
  (forall t, x_title p = Some t -> p_title (xlsx_props p) = t) /\
  (forall t, x_creator p = Some t -> p_author (xlsx_props p) = t) /\
  (forall t, x_keywords p = Some t -> p_keywords (xlsx_props p) = t) /\
  (forall t, x_description p = Some t -> p_description (xlsx_props p) = t) /\
  (x_title p = None -> p_title (xlsx_props p) = []).
Proof. intro p. repeat split; intros; simpl; rewrite H; reflexivity. Qed.
Print Assumptions C04_props_unchanged_xlsx.

(* ================================================================= archive members *)
(* the path argument of an archive member is  <archive path>!/<member name>.  For an archive path in normal form and
   ANY member name m — relative, "./x", "a//b", absolute "/srv/x", … — whose kept components (non-empty, not ".")
   are qs ++ [n]: the file name is n, and file_path / folder_path keep the archive path in front:
   <archive path>!/q1/…/n  and  <archive path>!/q1/…  (just <archive path>! for a top-level member) *)
Theorem C04_archive_member_metadata :
  forall (fs_exists : str -> option bool) (fs_resolve : str -> str) (guard : bool)
         (root : str) (dirs : list str) (aname m : str) (qs : list str) (n : str) m',
    good_root root = true -> forallb good_part dirs = true -> good_part aname = true ->
    kept m = qs ++ [n] ->
    populate_from_path fs_exists fs_resolve guard file_meta_default
      (Some ((root ++ join_slash (dirs ++ [aname])) ++ [BANG; SLASH] ++ m)) = Ok m' ->
    filename m' = Some n /\ file_extension m' = Some (suffix_of_name n)
    /\ file_path m' = Some (shown fs_exists fs_resolve ((root ++ join_slash (dirs ++ [aname])) ++ BANG :: SLASH :: join_slash (qs ++ [n])))
    /\ folder_path m' = Some (shown fs_exists fs_resolve
         (match qs with [] => (root ++ join_slash (dirs ++ [aname])) ++ [BANG]
                      | _ => (root ++ join_slash (dirs ++ [aname])) ++ BANG :: SLASH :: join_slash qs end)).
Proof. exact populate_member. Qed.
Print Assumptions C04_archive_member_metadata.

Example C04_archive_member_absolute_name :
  kept (s "/srv/export/summary.txt") = [s "srv"; s "export"] ++ [s "summary.txt"]
  /\ kept (s "./docs//guide.md") = [s "docs"] ++ [s "guide.md"]
  /\ populate_from_path (fun _ => Some false) (fun q => q) true file_meta_default (Some (s "out/bundle.zip!//srv/export/summary.txt"))
     = Ok {| filename := Some (s "summary.txt"); file_extension := Some (s ".txt");
             file_path := Some (s "out/bundle.zip!/srv/export/summary.txt"); folder_path := Some (s "out/bundle.zip!/srv/export") |}.
Proof. vm_compute. repeat split. Qed.
Print Assumptions C04_archive_member_absolute_name.

(* ================================================================= ImageMetadata under mutation *)
From S2T Require Import C04.ModelImeta C04.ProofsImeta.
(* after ANY sequence of attribute assignments, item assignments and unit_index / image_index alias assignments
   the dict item of every dataclass field is the attribute of that field *)
Theorem C04_image_metadata_views_agree : forall (u n c w h : mval) (ops : list iop) (f : fld),
  assoc (fld_name f) (d_items (run_ops (im_new u n c w h) ops)) = Some (attr f (run_ops (im_new u n c w h) ops)).
Proof. intros u n c w h ops f. exact (run_ops_synced ops _ (im_new_synced u n c w h) f). Qed.
Print Assumptions C04_image_metadata_views_agree.

(* ================================================================= EPUB chapter numbers *)
From S2T Require Import C04.ModelEpub C04.ProofsEpub.
From Coq Require Import Sorted.
(* for every spine and every behaviour of _extract_chapter: the unit number of a kept chapter is its 1-based position
   in the spine (so it is a positive integer and names the right spine item), and the numbers increase strictly *)
Theorem C04_epub_unit_numbers :
  forall (produces : str -> bool) (spine : list str),
    (forall i k, In (i, k) (epub_units produces spine) <->
                 exists j : nat, nth_error spine j = Some i /\ produces i = true /\ k = (1 + Z.of_nat j)%Z)
    /\ (forall i k, In (i, k) (epub_units produces spine) -> (1 <= k)%Z)
    /\ StronglySorted Z.lt (map snd (epub_units produces spine)).
Proof.
  intros produces spine. unfold epub_units. split; [|split].
  - intros i k. exact (number_spine_spec produces spine 0%Z i k).
  - exact (epub_units_ge1 produces spine).
  - exact (number_spine_sorted produces spine 0%Z).
Qed.
Print Assumptions C04_epub_unit_numbers.
