(* C04 — lemmas about the RTF body decoder: every emitted character satisfies an invariant predicate,
   surrogate repair yields well-formed text. *)
From S2T Require Import Lib.PyStr C04.Model C04.ModelRtf C04.Proofs.
From Coq Require Import ZArith List Bool Lia.
Import ListNotations.
Open Scope N_scope.

Definition valid (c : N) : bool := c <=? 0x10FFFF.
Definition allP (P : N -> bool) (x : str) : bool := forallb P x.

Ltac b2p :=
  repeat match goal with
  | H : _ && _ = true |- _ => apply andb_true_iff in H; destruct H
  | H : _ || _ = false |- _ => apply orb_false_iff in H; destruct H
  | H : negb _ = true |- _ => apply negb_true_iff in H
  | H : negb _ = false |- _ => apply negb_false_iff in H
  | H : (_ <=? _) = true |- _ => apply N.leb_le in H
  | H : (_ <=? _) = false |- _ => apply N.leb_gt in H
  | H : (_ <? _) = true |- _ => apply N.ltb_lt in H
  | H : (_ <? _) = false |- _ => apply N.ltb_ge in H
  | H : (_ =? _) = true |- _ => apply N.eqb_eq in H
  end.

Lemma scalar_of_valid h : valid h = true -> is_hi h = false -> is_lo h = false -> scalar h = true.
Proof.
  unfold valid, is_hi, is_lo, scalar, is_surrogate. intros V H L.
  apply N.leb_le in V.
  apply andb_true_iff; split; [|apply N.leb_le; exact V].
  apply negb_true_iff. apply andb_false_iff.
  apply andb_false_iff in H. apply andb_false_iff in L.
  destruct (0xD800 <=? h) eqn:A; [|left; reflexivity]. right.
  apply N.leb_le in A. apply N.leb_gt.
  destruct H as [H|H]; [discriminate|]. apply N.leb_gt in H.
  destruct L as [L|L]; apply N.leb_gt in L; lia.
Qed.

Lemma scalar_combine h l : is_hi h = true -> is_lo l = true -> scalar (combine_pair h l) = true.
Proof.
  unfold is_hi, is_lo, scalar, is_surrogate, combine_pair. intros H L. b2p.
  apply andb_true_iff; split.
  - apply negb_true_iff. apply andb_false_iff. right. apply N.leb_gt. lia.
  - apply N.leb_le. lia.
Qed.

Lemma repair_scalar_len n : forall x, (length x <= n)%nat -> allP valid x = true ->
  allP scalar (repair_surrogates x) = true.
Proof.
  unfold allP. induction n as [|n IH]; intros x Hl Hv.
  - destruct x; [reflexivity | simpl in Hl; lia].
  - destruct x as [|h r]; [reflexivity|]. simpl in Hv. apply andb_true_iff in Hv as [Hh Hr].
    cbn [repair_surrogates]. destruct (is_hi h) eqn:Ehi.
    + destruct r as [|l r']; [reflexivity|].
      simpl in Hr. apply andb_true_iff in Hr as [Hlv Hr'].
      destruct (is_lo l) eqn:Elo.
      * cbn [forallb]. rewrite scalar_combine by assumption. apply IH; [simpl in Hl; lia | exact Hr'].
      * cbn [forallb]. change (scalar REPLACEMENT) with true. apply IH; [simpl in *; lia|].
        simpl. rewrite Hlv, Hr'. reflexivity.
    + destruct (is_lo h) eqn:Elo.
      * cbn [forallb]. change (scalar REPLACEMENT) with true. apply IH; [simpl in Hl; lia | exact Hr].
      * cbn [forallb]. rewrite scalar_of_valid by assumption. apply IH; [simpl in Hl; lia | exact Hr].
Qed.

Lemma repair_scalar x : allP valid x = true -> allP scalar (repair_surrogates x) = true.
Proof. apply (repair_scalar_len (length x)). lia. Qed.

Lemma scalar_not_surrogate h : scalar h = true -> is_hi h = false /\ is_lo h = false.
Proof.
  unfold scalar, is_surrogate, is_hi, is_lo. intro H. b2p.
  apply andb_false_iff in H. split; apply andb_false_iff.
  - destruct H as [H|H]; [left; exact H|]. apply N.leb_gt in H.
    destruct (0xD800 <=? h) eqn:A; [|left; reflexivity]. right. apply N.leb_gt.
    apply N.leb_le in A. lia.
  - destruct H as [H|H]; [left; apply N.leb_gt in H; apply N.leb_gt; lia | right; exact H].
Qed.

Lemma repair_identity x : utf8able x = true -> repair_surrogates x = x.
Proof.
  unfold utf8able. induction x as [|h r IH]; [reflexivity|]. simpl. intro H.
  apply andb_true_iff in H as [Hh Hr]. destruct (scalar_not_surrogate h Hh) as [A B].
  rewrite A, B, IH by exact Hr. reflexivity.
Qed.

Lemma scalar_valid c : scalar c = true -> valid c = true.
Proof. unfold scalar, valid. intro H. apply andb_true_iff in H as [_ H]. exact H. Qed.

(* ---- clean-up functions keep characters *)
Lemma forallb_repeat {A} (P : A -> bool) a n : P a = true -> forallb P (repeat a n) = true.
Proof. intro H. induction n; simpl; [reflexivity | rewrite H; exact IHn]. Qed.

Lemma multi_space_P P x : P SPACE = true -> allP P x = true -> allP P (multi_space x) = true.
Proof.
  unfold allP. intro HS. induction x as [|c r IH]; [reflexivity|]. intro H. simpl in H.
  apply andb_true_iff in H as [Hc Hr]. specialize (IH Hr). cbn [multi_space].
  destruct (is_blank c).
  - destruct r as [|d r']; [simpl; rewrite HS; reflexivity|].
    destruct (is_blank d); [exact IH | simpl; rewrite HS; exact IH].
  - simpl. rewrite Hc. exact IH.
Qed.

Lemma multi_newline_aux_P P x : P NL = true -> forall run, allP P x = true -> allP P (multi_newline_aux run x) = true.
Proof.
  unfold allP. intro HN. induction x as [|c r IH]; intros run H; cbn [multi_newline_aux].
  - apply forallb_repeat. exact HN.
  - simpl in H. apply andb_true_iff in H as [Hc Hr]. destruct (N.eqb c NL); [apply IH; exact Hr|].
    rewrite forallb_app. rewrite forallb_repeat by exact HN. simpl. rewrite Hc. apply IH. exact Hr.
Qed.

Section Inv.
  Variable isalpha isdigit_str : N -> bool.
  Variable decval : N -> option N.
  Variable isspace : N -> bool.
  Variable T : rtf_tables.
  (* P: what holds of every character kept in `result` / `current_page`;
     R: what holds of every character of the returned text and pages *)
  Variable P R : N -> bool.
  Hypothesis Hfix : forall x, allP P x = true -> allP R (fix_text T x) = true.
  Hypothesis HRsp : R SPACE = true.
  Hypothesis HRnl : R NL = true.
  Hypothesis Hsmall : forall v, v <= 255 -> P v = true.
  Hypothesis Hspecial : forallb (fun kv => allP P (snd kv)) (special T) = true.

  Notation st := (st).
  Definition inv (q : ModelRtf.st) : Prop :=
    allP P (out q) = true /\ allP P (cur q) = true /\ forallb (allP R) (pages q) = true.

  Lemma clean_R x : allP R x = true -> allP R (clean isspace x) = true.
  Proof.
    intro H. unfold clean, multi_newline. apply multi_newline_aux_P; [exact HRnl|].
    apply multi_space_P; [exact HRsp|]. unfold allP. apply forallb_strip. exact H.
  Qed.

  Lemma emit_inv q x : inv q -> allP P x = true -> inv (emit q x).
  Proof.
    unfold inv, allP. intros [A [B C]] H. simpl. rewrite !forallb_app, !forallb_rev, H, A, B. auto.
  Qed.

  Lemma flush_inv q : inv q -> inv (flush_page isspace T q).
  Proof.
    unfold inv. intros [A [B C]]. unfold flush_page. simpl. split; [exact A|]. split; [reflexivity|].
    assert (K : allP R (clean isspace (fix_text T (rev (cur q)))) = true).
    { apply clean_R. apply Hfix. unfold allP. rewrite forallb_rev. exact B. }
    destruct (clean isspace (fix_text T (rev (cur q)))); [exact C|]. cbn [forallb]. rewrite K. exact C.
  Qed.

  Lemma page_break_inv q : inv q -> inv (page_break isspace T q).
  Proof.
    intro I. destruct (flush_inv q I) as [A [B C]]. unfold page_break, inv. simpl. repeat split; try assumption.
    unfold allP. simpl. rewrite (Hsmall NL) by (unfold NL; lia). exact A.
  Qed.

  Lemma hexval_le c x : hexval decval c = Some x -> x <= 15.
  Proof.
    unfold hexval. destruct (decval c) as [d|].
    - destruct (d <=? 9) eqn:E; intro H; inversion H; subst. apply N.leb_le in E. lia.
    - destruct ((97 <=? c) && (c <=? 102)) eqn:E; [intro H; inversion H; subst; b2p; lia|].
      destruct ((65 <=? c) && (c <=? 70)) eqn:E2; intro H; inversion H; subst. b2p. lia.
  Qed.

  Lemma hex2_le a b v : hex2 decval isspace a b = Some v -> v <= 255.
  Proof.
    unfold hex2. destruct (hexval decval a) as [x|] eqn:A; destruct (hexval decval b) as [y|] eqn:B.
    - apply hexval_le in A. apply hexval_le in B. assert (K : 16 * x + y <= 255) by lia. intros [= <-]. exact K.
    - apply hexval_le in A. destruct (int_space isspace b); intros [= <-]. lia.
    - apply hexval_le in B. destruct (int_space isspace a || (a =? 43)); [intros [= <-]; lia|].
      destruct (a =? MINUS); [|discriminate]. destruct (y =? 0); intros [= <-]. lia.
    - discriminate.
  Qed.

  (* the \uN branch: at a backslash followed by 'u' the decoded 16-bit value must satisfy P *)
  Definition u_ok (c : N) (r : str) : Prop :=
    c = BSL -> (exists r1, r = LETTER_u :: r1) -> forall v : Z, P (Z.to_N (Z.land v 0xFFFF)) = true.

  Lemma step_inv q c r q' n :
    inv q -> P c = true -> allP P r = true -> u_ok c r ->
    step isalpha isdigit_str decval isspace T q c r = Ok (q', n) -> inv q'.
  Proof.
    intros I Pc Pr U. unfold step.
    destruct (c =? LBRACE). { intro H; inversion H; subst. destruct I as [A [B C]]. repeat split; assumption. }
    destruct (c =? RBRACE). { intro H; inversion H; subst. destruct I as [A [B C]]. repeat split; assumption. }
    destruct (skip q). { intro H; inversion H; subst. exact I. }
    destruct (c =? BSL) eqn:EB.
    2:{ destruct (c =? CR); intro H; inversion H; subst; [exact I|]. apply emit_inv; [exact I|]. unfold allP; simpl. rewrite Pc. reflexivity. }
    apply N.eqb_eq in EB.
    destruct r as [|nx r1]. { intro H; inversion H; subst. exact I. }
    unfold allP in Pr. simpl in Pr. apply andb_true_iff in Pr as [Pnx Pr1].
    destruct ((nx =? BSL) || (nx =? LBRACE) || (nx =? RBRACE)).
    { intro H; inversion H; subst. apply emit_inv; [exact I|]. unfold allP; simpl. rewrite Pnx. reflexivity. }
    destruct (nx =? LETTER_u) eqn:EU.
    { apply N.eqb_eq in EU. subst nx.
      destruct (match_unicode decval r1) as [[[v|e] len]|].
      - pose proof (U EB (ex_intro _ r1 eq_refl) v) as Uv.
        intro H; inversion H; subst. apply emit_inv; [exact I|]. unfold allP; simpl.
        rewrite Uv. reflexivity.
      - discriminate.
      - intro H; inversion H; subst. exact I. }
    destruct (nx =? QUOTE).
    { destruct r1 as [|h1 [|h2 r2]]; try (intro H; inversion H; subst; exact I).
      intro H; inversion H; subst. destruct (hex2 decval isspace h1 h2) as [v|] eqn:E; [|exact I].
      apply emit_inv; [exact I|]. unfold allP; simpl. rewrite (Hsmall v (hex2_le _ _ _ E)). reflexivity. }
    destruct (isalpha nx).
    { intro H; inversion H; subst. clear H.
      match goal with |- inv (if ?b then _ else _) => destruct b end; [apply page_break_inv; exact I|].
      match goal with |- inv (match ?a with Some _ => _ | None => _ end) => destruct a as [chars|] eqn:E end; [|exact I].
      apply emit_inv; [exact I|]. apply assoc_In in E. rewrite forallb_forall in Hspecial. exact (Hspecial _ E). }
    intro H; inversion H; subst.
    destruct (nx =? TILDE). { apply emit_inv; [exact I|]. unfold allP; simpl. rewrite Hsmall by lia. reflexivity. }
    destruct (nx =? UNDERSCORE). { apply emit_inv; [exact I|]. unfold allP; simpl. rewrite Hsmall by lia. reflexivity. }
    exact I.
  Qed.

  (* u_ok at every position of the text *)
  Definition u_ok_all (l : str) : Prop := forall pre c r, l = pre ++ c :: r -> u_ok c r.

  Lemma u_ok_all_tail c l : u_ok_all (c :: l) -> u_ok_all l.
  Proof. intros H pre d r E. apply (H (c :: pre) d r). simpl. rewrite E. reflexivity. Qed.

  Lemma go_inv l : forall q pending q',
    inv q -> allP P l = true -> u_ok_all l ->
    go isalpha isdigit_str decval isspace T q pending l = Ok q' -> inv q'.
  Proof.
    induction l as [|c r IH]; intros q pending q' I Pl U; cbn [go].
    - intro H; inversion H; subst; exact I.
    - unfold allP in Pl. simpl in Pl. apply andb_true_iff in Pl as [Pc Pr].
      destruct pending as [|k].
      + destruct (step isalpha isdigit_str decval isspace T q c r) as [[q1 n]|] eqn:E; [|discriminate].
        intro H. apply (IH q1 (Nat.pred n) q'); [|exact Pr|apply (u_ok_all_tail c); exact U|exact H].
        apply (step_inv q c r q1 n I Pc Pr); [|exact E]. apply (U [] c r). reflexivity.
      + apply IH; [exact I | exact Pr | apply (u_ok_all_tail c); exact U].
  Qed.

  Lemma strip_full_R text joined pgs :
    allP P text = true -> u_ok_all text ->
    strip_full isalpha isdigit_str decval isspace T text = Ok (joined, pgs) ->
    allP R joined = true /\ forallb (allP R) pgs = true.
  Proof.
    intros Pt U. unfold strip_full.
    destruct (go isalpha isdigit_str decval isspace T (st0) 0 text) as [q1|] eqn:E; [|discriminate].
    assert (I0 : inv st0) by (repeat split; reflexivity).
    pose proof (go_inv text st0 0%nat q1 I0 Pt U E) as I1.
    remember (flush_page isspace T q1) as q2 eqn:Eq2.
    assert (I2 : inv q2) by (subst q2; apply flush_inv; exact I1). destruct I2 as [A [B C]].
    assert (J : allP R (fix_text T (rev (out q2))) = true).
    { apply Hfix. unfold allP. rewrite forallb_rev. exact A. }
    intros [= <- <-]. split; [exact J|].
    destruct (pages q2) as [|p ps] eqn:EP.
    - pose proof (clean_R _ J) as K. destruct (clean isspace (fix_text T (rev (out q2)))); [reflexivity|].
      cbn [forallb]. rewrite K. reflexivity.
    - change (forallb (allP R) (rev (p :: ps)) = true). rewrite forallb_rev. exact C.
  Qed.
End Inv.

(* ---- no "\u" anywhere in the text *)
Fixpoint no_bsl_u (l : str) : bool :=
  match l with
  | [] => true
  | c :: r => negb (N.eqb c BSL && match r with d :: _ => N.eqb d LETTER_u | [] => false end) && no_bsl_u r
  end.

Lemma no_bsl_u_app pre r1 : no_bsl_u (pre ++ BSL :: LETTER_u :: r1) = false.
Proof.
  induction pre as [|c pre IH]; [reflexivity|]. cbn [app no_bsl_u]. rewrite IH. apply andb_false_r.
Qed.

Lemma valid_land v : valid (Z.to_N (Z.land v 0xFFFF)) = true.
Proof.
  unfold valid. apply N.leb_le. change 0xFFFF%Z with (Z.ones 16). rewrite Z.land_ones by lia.
  pose proof (Z.mod_pos_bound v (2 ^ 16) ltac:(lia)) as B. lia.
Qed.

Section Main.
  Variable isalpha isdigit_str : N -> bool.
  Variable decval : N -> option N.
  Variable isspace : N -> bool.
  Variable T : rtf_tables.

  Definition special_ok (P : N -> bool) : bool := forallb (fun kv => forallb P (snd kv)) (special T).

  (* repaired decoder: every input made of code points gives UTF-8 encodable text and pages *)
  Lemma strip_full_utf8able_repaired text joined pgs :
    repair T = true -> special_ok valid = true -> forallb valid text = true ->
    strip_full isalpha isdigit_str decval isspace T text = Ok (joined, pgs) ->
    utf8able joined = true /\ forallb utf8able pgs = true.
  Proof.
    intros Rp Sp V H.
    apply (strip_full_R isalpha isdigit_str decval isspace T valid scalar) with (text := text); try assumption; try reflexivity.
    - intros x Hx. unfold fix_text. rewrite Rp. apply repair_scalar. exact Hx.
    - intros v Hv. unfold valid. apply N.leb_le. lia.
    - intros pre c r _ _ _ v. apply valid_land.
  Qed.

  (* unrepaired decoder: holds when the text has no \u escape *)
  Lemma strip_full_utf8able_no_u text joined pgs :
    repair T = false -> special_ok scalar = true -> utf8able text = true -> no_bsl_u text = true ->
    strip_full isalpha isdigit_str decval isspace T text = Ok (joined, pgs) ->
    utf8able joined = true /\ forallb utf8able pgs = true.
  Proof.
    intros Rp Sp V NU H.
    apply (strip_full_R isalpha isdigit_str decval isspace T scalar scalar) with (text := text); try assumption; try reflexivity.
    - intros x Hx. unfold fix_text. rewrite Rp. exact Hx.
    - intros v Hv. unfold scalar, is_surrogate. apply andb_true_iff; split.
      + apply negb_true_iff. apply andb_false_iff. left. apply N.leb_gt. lia.
      + apply N.leb_le. lia.
    - intros pre c r E Ec [r1 Er]. subst c r. rewrite E in NU. rewrite no_bsl_u_app in NU. discriminate.
  Qed.
End Main.
