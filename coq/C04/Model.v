(* C04 — executable model of the common-interface accessors of
   sharepoint2text/parsing/extractors/data_types.py.  Definitions only.

   - tables:   get_table / get_dim of TableData, XlsxSheet, OdsSheet, OdtTable, RtfTable (list-of-rows
               `data`) and of XlsSheet (list of dict rows; the table is computed);
   - streams:  get_bytes of the ten image classes over a model of io.BytesIO (buffer, position);
   - metadata: get_metadata() -> ImageMetadata of the ten image classes, ImageMetadata's dataclass/dict
               double view;
   - text:     get_content_type / get_caption / get_description;
   - well-formed Unicode: `utf8able` (what str.encode("utf-8") accepts).

   Oracles (Section variables, never axioms): str.isspace (str.strip), str.lower (RtfImage content
   type), the ODF length conversion (modelled in ModelFloat.v and passed in here as a function). *)
From S2T Require Import Lib.PyStr.
From Coq Require Import List NArith ZArith Bool.
Import ListNotations.
Open Scope N_scope.

(* ------------------------------------------------------------------ outcomes *)
Inductive exn := OverflowError | ValueError | TypeError | OSError | UnicodeDecodeError | AttributeError.
Inductive result (A : Type) := Ok (a : A) | Raise (e : exn).
Arguments Ok {A} a.
Arguments Raise {A} e.

Definition raises {A} (r : result A) : bool := match r with Ok _ => false | Raise _ => true end.
Definition bind {A B} (r : result A) (f : A -> result B) : result B :=
  match r with Ok a => f a | Raise e => Raise e end.

(* ------------------------------------------------------------------ well-formed Unicode *)
(* a str element is a code point 0..0x10FFFF; encodable as UTF-8 iff it is not a surrogate *)
Definition is_surrogate (c : N) : bool := (0xD800 <=? c) && (c <=? 0xDFFF).
Definition scalar (c : N) : bool := negb (is_surrogate c) && (c <=? 0x10FFFF).
Definition utf8able (x : str) : bool := forallb scalar x.

(* ------------------------------------------------------------------ str.strip *)
Section Strip.
  Variable isspace : N -> bool.
  Definition lstrip (x : str) : str := dropWhile isspace x.
  Definition rstrip (x : str) : str := rev (dropWhile isspace (rev x)).
  Definition strip (x : str) : str := rstrip (lstrip x).
End Strip.

(* ------------------------------------------------------------------ tables *)
Record dim := { rows : nat; columns : nat }.

(* max((len(row) for row in data), default=0) *)
Fixpoint max_len {A} (t : list (list A)) : nat :=
  match t with
  | [] => 0%nat
  | r :: t' => Nat.max (length r) (max_len t')
  end.

(* TableData / XlsxSheet / OdsSheet / OdtTable / RtfTable: get_table returns self.data,
   get_dim computes rows = len(self.data), columns = max(len(row)) *)
Definition rows_get_table {A} (data : list (list A)) : list (list A) := data.
Definition rows_get_dim {A} (data : list (list A)) : dim :=
  {| rows := length data; columns := max_len data |}.

(* XlsSheet: data is a list of dicts (insertion-ordered association lists);
     headers = list(self.data[0].keys()); rows = [headers] + [[row.get(h) for h in headers] for row in data]
   a cell of the computed table is a header string or the value of row.get (None when absent) *)
Inductive xcell (V : Type) := XHeader (h : str) | XValue (v : option V).
Arguments XHeader {V} h.
Arguments XValue {V} v.

Definition xls_get_table {V} (data : list (list (str * V))) : list (list (xcell V)) :=
  match data with
  | [] => []
  | first :: _ =>
      let headers := map fst first in
      map XHeader headers :: map (fun row => map (fun h => XValue (assoc h row)) headers) data
  end.
Definition xls_get_dim {V} (data : list (list (str * V))) : dim :=
  let t := xls_get_table data in {| rows := length t; columns := max_len t |}.

(* the six table classes *)
Inductive table (V : Type) :=
  | TableData (data : list (list V))
  | XlsxSheet (data : list (list V))
  | OdsSheet (data : list (list V))
  | OdtTable (data : list (list V))
  | RtfTable (data : list (list V))
  | XlsSheet (data : list (list (str * V))).
Arguments TableData {V} data.
Arguments XlsxSheet {V} data.
Arguments OdsSheet {V} data.
Arguments OdtTable {V} data.
Arguments RtfTable {V} data.
Arguments XlsSheet {V} data.

(* the shape of a table as the caller sees it: list of row lengths *)
Definition get_table_lengths {V} (t : table V) : list nat :=
  match t with
  | TableData d | XlsxSheet d | OdsSheet d | OdtTable d | RtfTable d => map (@length V) (rows_get_table d)
  | XlsSheet d => map (@length (xcell V)) (xls_get_table d)
  end.
Definition get_dim {V} (t : table V) : dim :=
  match t with
  | TableData d | XlsxSheet d | OdsSheet d | OdtTable d | RtfTable d => rows_get_dim d
  | XlsSheet d => xls_get_dim d
  end.

(* specification of "shape": number of rows, and the least upper bound of the row lengths *)
Definition is_shape (lens : list nat) (d : dim) : Prop :=
  rows d = length lens /\
  (forall n, In n lens -> (n <= columns d)%nat) /\
  (lens = [] -> columns d = 0%nat) /\
  (lens <> [] -> In (columns d) lens).

(* ------------------------------------------------------------------ io.BytesIO *)
Record bytesio := { buf : list N; pos : N }.
Definition bio_new (b : list N) : bytesio := {| buf := b; pos := 0 |}.   (* io.BytesIO(b) *)
Definition bio_seek0 (x : bytesio) : bytesio := {| buf := buf x; pos := 0 |}.  (* x.seek(0); same object *)
Definition bio_len (x : bytesio) : N := N.of_nat (length (buf x)).
(* read() from the current position *)
Definition bio_read (x : bytesio) : list N := skipn (N.to_nat (pos x)) (buf x).

(* ------------------------------------------------------------------ images *)
Inductive img_class :=
  DocImage | DocxImage | PdfImage | PptImage | PptxImage | XlsImage | XlsxImage
  | OpenDocumentImage | RtfImage | EpubImage.

(* the `data`/`blob` field: bytes, Optional[bytes] or Optional[io.BytesIO] (a live stream whose
   position is whatever an earlier reader left) *)
Inductive payload :=
  | PBytes (b : list N)
  | POptBytes (b : option (list N))
  | PStream (st : option bytesio).

(* width/height field: Optional[int], int, or Optional[str] (ODF length) *)
Inductive dimfield := DNone | DInt (z : Z) | DStr (x : str).

Record image := {
  icls : img_class;
  inum : Z;                 (* image_number | image_index | index *)
  ictype : str;             (* content_type; RtfImage: image_type *)
  idata : payload;
  isize : option Z;         (* size_bytes (None: the class has no such field — PdfImage, RtfImage) *)
  iwidth : dimfield;
  iheight : dimfield;
  iunit : option Z;         (* unit_number | slide_number | unit_name | page_number | unit_index *)
  icaption : str;
  idesc : str               (* description; PdfImage: name *)
}.

(* which payload shape each class declares *)
Definition payload_ok (c : img_class) (p : payload) : bool :=
  match c, p with
  | (DocImage | PdfImage | PptImage | XlsImage), PBytes _ => true
  | (PptxImage | RtfImage), POptBytes _ => true
  | (DocxImage | XlsxImage | OpenDocumentImage | EpubImage), PStream _ => true
  | _, _ => false
  end.

(* get_bytes():
     Doc/Pdf/Ppt/Xls:  fl = io.BytesIO(self.data); fl.seek(0); return fl
     Pptx:             fl = io.BytesIO(self.blob); fl.seek(0)        (io.BytesIO(None) is empty)
     Rtf:              io.BytesIO() if data is None else io.BytesIO(self.data)
     Docx/Xlsx/ODF/Epub: io.BytesIO() if data is None else (self.data.seek(0); self.data) *)
Definition get_bytes (i : image) : bytesio :=
  match idata i with
  | PBytes b => bio_seek0 (bio_new b)
  | POptBytes None => bio_new []
  | POptBytes (Some b) =>
      match icls i with RtfImage => bio_new b | _ => bio_seek0 (bio_new b) end
  | PStream None => bio_new []
  | PStream (Some st) => bio_seek0 st
  end.

(* the bytes held by the image *)
Definition payload_bytes (p : payload) : list N :=
  match p with
  | PBytes b => b
  | POptBytes None => []
  | POptBytes (Some b) => b
  | PStream None => []
  | PStream (Some st) => buf st
  end.

(* producer invariant "reported size is the length of the data" (checked on every extractor result by
   the differential run; classes without size_bytes report nothing) *)
Definition size_consistent (i : image) : bool :=
  match isize i with
  | None => true
  | Some z => Z.eqb z (Z.of_nat (length (payload_bytes (idata i))))
  end.

(* ---- ImageMetadata: a dataclass that is also a dict; __init__ assigns the five fields through
   __setattr__ (attribute + dict item), __post_init__ re-initialises the dict from the attributes *)
Record imeta_fields := {
  m_unit : option Z; m_num : Z; m_ctype : str; m_width : option Z; m_height : option Z }.
Inductive mval := MOptZ (z : option Z) | MZ (z : Z) | MStr (x : str).
Record image_metadata := { attrs : imeta_fields; items : list (str * mval) }.

Definition dict_set (k : str) (v : mval) (d : list (str * mval)) : list (str * mval) :=
  if has_key k d then map (fun kv => if str_eqb (fst kv) k then (k, v) else kv) d else d ++ [(k, v)].

Definition image_metadata_init (f : imeta_fields) : image_metadata :=
  let d := dict_set (s "unit_number") (MOptZ (m_unit f)) [] in
  let d := dict_set (s "image_number") (MZ (m_num f)) d in
  let d := dict_set (s "content_type") (MStr (m_ctype f)) d in
  let d := dict_set (s "width") (MOptZ (m_width f)) d in
  let d := dict_set (s "height") (MOptZ (m_height f)) d in
  (* __post_init__: dict.__init__(self, unit_number=…, …) updates the same keys with the same values *)
  let d := dict_set (s "unit_number") (MOptZ (m_unit f)) d in
  let d := dict_set (s "image_number") (MZ (m_num f)) d in
  let d := dict_set (s "content_type") (MStr (m_ctype f)) d in
  let d := dict_set (s "width") (MOptZ (m_width f)) d in
  let d := dict_set (s "height") (MOptZ (m_height f)) d in
  {| attrs := f; items := d |}.

Section ImageAccessors.
  Variable isspace : N -> bool.
  Variable lower : str -> str.
  (* _odf_length_to_px on a str (ModelFloat.odf_px with the generated unit table) *)
  Variable odf_px : str -> result (option Z).
  (* RtfImage._CONTENT_TYPES *)
  Variable rtf_ctypes : list (str * str).

  Definition positive_or_none (z : Z) : option Z := if (0 <? z)%Z then Some z else None.

  (* the width/height expression of each get_metadata *)
  Definition meta_dim (c : img_class) (d : dimfield) : result (option Z) :=
    match c, d with
    (* w if w is not None and w > 0 else None *)
    | (DocImage | DocxImage | PptImage | PptxImage | XlsImage | EpubImage), DNone => Ok None
    | (DocImage | DocxImage | PptImage | PptxImage | XlsImage | EpubImage), DInt z => Ok (positive_or_none z)
    (* w if w > 0 else None   (int field) *)
    | (PdfImage | XlsxImage), DInt z => Ok (positive_or_none z)
    (* w // 15 if w > 0 else None *)
    | RtfImage, DInt z => Ok (if (0 <? z)%Z then Some (z / 15)%Z else None)
    (* px = _odf_length_to_px(w); px if px and px > 0 else None *)
    | OpenDocumentImage, DNone => Ok None
    | OpenDocumentImage, DStr x =>
        match x with
        | [] => Ok None                       (* `if not length: return None` *)
        | _ => bind (odf_px x) (fun px =>
                 Ok (match px with Some z => positive_or_none z | None => None end))
        end
    (* a value outside the declared field type: comparing it with 0 is a TypeError *)
    | _, _ => Raise TypeError
    end.

  Definition meta_unit (i : image) : option Z :=
    match icls i with
    | DocxImage | XlsImage | XlsxImage => None
    | PptImage => match iunit i with Some z => positive_or_none z | None => None end
    | _ => iunit i
    end.

  Definition get_content_type (i : image) : str :=
    match icls i with
    | PptxImage | XlsxImage | OpenDocumentImage => ictype i
    | RtfImage => match assoc (lower (ictype i)) rtf_ctypes with
                  | Some t => t | None => s "application/octet-stream" end
    | _ => strip isspace (ictype i)
    end.

  Definition meta_ctype (i : image) : str :=
    match icls i with
    | PdfImage | RtfImage => get_content_type i
    | _ => ictype i
    end.

  Definition get_metadata (i : image) : result image_metadata :=
    bind (meta_dim (icls i) (iwidth i)) (fun w =>
    bind (meta_dim (icls i) (iheight i)) (fun h =>
    Ok (image_metadata_init {| m_unit := meta_unit i; m_num := inum i; m_ctype := meta_ctype i;
                               m_width := w; m_height := h |}))).

  Definition get_caption (i : image) : str :=
    match icls i with
    | DocImage | DocxImage | PdfImage | RtfImage => strip isspace (icaption i)
    | PptxImage | XlsxImage | OpenDocumentImage => icaption i
    | PptImage | XlsImage | EpubImage => []
    end.

  Definition get_description (i : image) : str :=
    match icls i with
    | DocxImage | RtfImage => strip isspace (idesc i)
    | PdfImage | PptxImage | XlsxImage | OpenDocumentImage => idesc i
    | DocImage | PptImage | XlsImage | EpubImage => []
    end.

  (* the declared type of the width/height fields *)
  Definition dim_ok (c : img_class) (d : dimfield) : bool :=
    match c, d with
    | (DocImage | DocxImage | PptImage | PptxImage | XlsImage | EpubImage), (DNone | DInt _) => true
    | (PdfImage | XlsxImage | RtfImage), DInt _ => true
    | OpenDocumentImage, (DNone | DStr _) => true
    | _, _ => false
    end.

  Definition well_typed (i : image) : bool :=
    payload_ok (icls i) (idata i) && dim_ok (icls i) (iwidth i) && dim_ok (icls i) (iheight i).
End ImageAccessors.
