(* C04 — ImageMetadata as a mutable object: a dataclass that is also a dict (data_types.py).  Definitions only.
     __setattr__(name, v): object attribute := v; if name is a dataclass field, dict item name := v
     __setitem__(key, v):  dict item key := v;   if key is a dataclass field, attribute key := v
     unit_index / image_index: property aliases of unit_number / image_number (setter = attribute assignment)
   Values are whatever the caller stores (no type check in Python): `mval`. *)
From S2T Require Import Lib.PyStr C04.Model.
From Coq Require Import List NArith ZArith Bool.
Import ListNotations.
Open Scope N_scope.

Inductive fld := FUnit | FNum | FCtype | FWidth | FHeight.
Definition fld_name (f : fld) : str :=
  match f with
  | FUnit => s "unit_number" | FNum => s "image_number" | FCtype => s "content_type"
  | FWidth => s "width" | FHeight => s "height"
  end.
Definition all_flds : list fld := [FUnit; FNum; FCtype; FWidth; FHeight].
Definition fld_of_key (k : str) : option fld :=
  find (fun f => str_eqb k (fld_name f)) all_flds.

Record im_state := { a_unit : mval; a_num : mval; a_ctype : mval; a_width : mval; a_height : mval; d_items : list (str * mval) }.

Definition attr (f : fld) (x : im_state) : mval :=
  match f with FUnit => a_unit x | FNum => a_num x | FCtype => a_ctype x | FWidth => a_width x | FHeight => a_height x end.

Definition set_attr_only (f : fld) (v : mval) (x : im_state) : im_state :=
  match f with
  | FUnit => {| a_unit := v; a_num := a_num x; a_ctype := a_ctype x; a_width := a_width x; a_height := a_height x; d_items := d_items x |}
  | FNum => {| a_unit := a_unit x; a_num := v; a_ctype := a_ctype x; a_width := a_width x; a_height := a_height x; d_items := d_items x |}
  | FCtype => {| a_unit := a_unit x; a_num := a_num x; a_ctype := v; a_width := a_width x; a_height := a_height x; d_items := d_items x |}
  | FWidth => {| a_unit := a_unit x; a_num := a_num x; a_ctype := a_ctype x; a_width := v; a_height := a_height x; d_items := d_items x |}
  | FHeight => {| a_unit := a_unit x; a_num := a_num x; a_ctype := a_ctype x; a_width := a_width x; a_height := v; d_items := d_items x |}
  end.
Definition set_items (d : list (str * mval)) (x : im_state) : im_state :=
  {| a_unit := a_unit x; a_num := a_num x; a_ctype := a_ctype x; a_width := a_width x; a_height := a_height x; d_items := d |}.

(* ImageMetadata(unit_number=…, image_number=…, content_type=…, width=…, height=…) *)
Definition im_new (u n c w h : mval) : im_state :=
  {| a_unit := u; a_num := n; a_ctype := c; a_width := w; a_height := h;
     d_items := [(s "unit_number", u); (s "image_number", n); (s "content_type", c); (s "width", w); (s "height", h)] |}.

Inductive iop :=
  | OSetAttr (f : fld) (v : mval)              (* obj.<field> = v *)
  | OSetOtherAttr (v : mval)                   (* obj.<something else> = v : no dataclass field, dict untouched *)
  | OSetItem (k : str) (v : mval)              (* obj[k] = v *)
  | OSetUnitIndex (v : mval)                   (* obj.unit_index = v *)
  | OSetImageIndex (v : mval).                 (* obj.image_index = v *)

Definition setattr_field (f : fld) (v : mval) (x : im_state) : im_state :=
  let x1 := set_attr_only f v x in set_items (dict_set (fld_name f) v (d_items x1)) x1.

Definition apply_op (x : im_state) (o : iop) : im_state :=
  match o with
  | OSetAttr f v => setattr_field f v x
  | OSetOtherAttr _ => x
  | OSetItem k v =>
      let x1 := set_items (dict_set k v (d_items x)) x in
      match fld_of_key k with Some f => set_attr_only f v x1 | None => x1 end
  | OSetUnitIndex v => setattr_field FUnit v x
  | OSetImageIndex v => setattr_field FNum v x
  end.

Definition run_ops (x : im_state) (ops : list iop) : im_state := fold_left apply_op ops x.

(* the two views agree on every dataclass field *)
Definition mval_eqb (a b : mval) : bool :=
  match a, b with
  | MOptZ (Some x), MOptZ (Some y) => Z.eqb x y
  | MOptZ None, MOptZ None => true
  | MZ x, MZ y => Z.eqb x y
  | MStr x, MStr y => str_eqb x y
  | _, _ => false
  end.
Definition synced (x : im_state) : Prop := forall f, assoc (fld_name f) (d_items x) = Some (attr f x).
