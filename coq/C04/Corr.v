(* C04 — boolean case checkers for the differential correspondence (model vs implementation). *)
From S2T Require Import Lib.PyStr C04.Model C04.ModelFloat C04.ModelPath C04.ModelRtf C04.ModelMeta.
From Coq Require Import List NArith ZArith Bool.
Import ListNotations.
Open Scope N_scope.

Fixpoint memN (c : N) (l : list N) : bool :=
  match l with [] => false | d :: r => N.eqb c d || memN c r end.
Fixpoint assocN {A} (c : N) (l : list (N * A)) : option A :=
  match l with [] => None | (d, v) :: r => if N.eqb c d then Some v else assocN c r end.

(* oracles from the generated Unicode tables; ASCII fast path *)
Definition isspace_of (spaces : list N) (c : N) : bool := memN c spaces.
Definition decval_of (decimals : list (N * N)) (c : N) : option N :=
  if (48 <=? c) && (c <=? 57) then Some (c - 48) else if c <? 128 then None else assocN c decimals.

Definition optZ_eqb (a b : option Z) : bool :=
  match a, b with Some x, Some y => Z.eqb x y | None, None => true | _, _ => false end.
Definition optstr_eqb (a b : option str) : bool :=
  match a, b with Some x, Some y => str_eqb x y | None, None => true | _, _ => false end.
Fixpoint strs_eqb (a b : list str) : bool :=
  match a, b with
  | [], [] => true
  | x :: a', y :: b' => str_eqb x y && strs_eqb a' b'
  | _, _ => false
  end.

(* ---- _odf_length_to_px: (input, None = raised | Some result) *)
Definition odf_case (spaces : list N) (decimals : list (N * N)) (T : odf_table)
    (c : str * option (option Z)) : bool :=
  let '(x, want) := c in
  match odf_px (isspace_of spaces) (decval_of decimals) T x, want with
  | Ok r, Some w => optZ_eqb r w
  | Raise _, None => true
  | _, _ => false
  end.

(* ---- populate_from_path: (path, [(q, (exists q, resolve q))], None = raised | Some (name, suffix, file_path, folder_path)) *)
Definition fs_of (fs : list (str * (option bool * str))) : (str -> option bool) * (str -> str) :=
  (fun q => match assoc q fs with Some (e, _) => e | None => Some false end,
   fun q => match assoc q fs with Some (_, r) => r | None => s "<unrecorded>" end).

Definition path_case (guard : bool)
    (c : option str * list (str * (option bool * str)) * option (option str * option str * option str * option str)) : bool :=
  let '(p, fs, want) := c in
  let '(ex, rs) := fs_of fs in
  match populate_from_path ex rs guard file_meta_default p, want with
  | Ok m, Some (n, e, f, d) =>
      optstr_eqb (filename m) n && optstr_eqb (file_extension m) e
      && optstr_eqb (file_path m) f && optstr_eqb (folder_path m) d
  | Raise _, None => true
  | _, _ => false
  end.

(* pure path algebra: (path, str(p), name, suffix, str(parent)) *)
Definition purepath_case (c : str * str * str * str * str) : bool :=
  let '(p, sp, n, e, par) := c in
  let q := parse p in
  str_eqb (pstr q) sp && str_eqb (pname q) n && str_eqb (psuffix q) e && str_eqb (pstr (pparent q)) par.

(* ---- _strip_rtf_full_with_pages: (text, alpha chars, isdigit chars, None = raised | Some (joined, pages)) *)
Definition rtf_case (spaces : list N) (decimals : list (N * N)) (T : rtf_tables)
    (c : str * list N * list N * option (str * list str)) : bool :=
  let '(text, alphas, digits, want) := c in
  match strip_full (fun ch => memN ch alphas) (fun ch => memN ch digits) (decval_of decimals)
                   (isspace_of spaces) T text, want with
  | Ok (j, pg), Some (wj, wpg) => str_eqb j wj && strs_eqb pg wpg
  | Raise _, None => true
  | _, _ => false
  end.

Definition repair_case (c : str * str) : bool := str_eqb (repair_surrogates (fst c)) (snd c).

(* ---- document properties: (tree, (title, author, subject, keywords, description)) *)
Definition props_eqb (p : props) (w : str * str * str * str * str) : bool :=
  let '(a, b, c, d, e) := w in
  str_eqb (p_title p) a && str_eqb (p_author p) b && str_eqb (p_subject p) c
  && str_eqb (p_keywords p) d && str_eqb (p_description p) e.

Definition ooxml_case (tg : prop_tags) (c : option xml * (str * str * str * str * str)) : bool :=
  props_eqb (ooxml_props tg (fst c)) (snd c).
Definition odfmeta_case (office_meta : str) (tg : prop_tags) (c : option xml * (str * str * str * str * str)) : bool :=
  props_eqb (odf_props office_meta tg (fst c)) (snd c).
Definition epub_case (spaces : list N) (opf_metadata : str) (tg : prop_tags)
    (c : option xml * (str * str * str * str * str)) : bool :=
  props_eqb (epub_props (isspace_of spaces) opf_metadata
               (fun t => endswith t (s "}metadata") || str_eqb t (s "metadata")) tg (fst c)) (snd c).
Definition htmlmeta_case (lower_tbl : list (str * str))
    (c : list (list (str * str)) * (str * str * str * str * str)) : bool :=
  props_eqb (html_meta_props (fun x => match assoc x lower_tbl with Some y => y | None => x end)
               props_default (fst c)) (snd c).

(* ---- images: type-directed instances.  (image, get_bytes position and content, metadata outcome, texts) *)
Definition bytes_eqb (a b : list N) : bool := str_eqb a b.

Definition imeta_eqb (m : image_metadata) (w : option Z * Z * str * option Z * option Z) : bool :=
  let '(u, n, ct, wd, ht) := w in
  let f := attrs m in
  optZ_eqb (m_unit f) u && Z.eqb (m_num f) n && str_eqb (m_ctype f) ct
  && optZ_eqb (m_width f) wd && optZ_eqb (m_height f) ht.

Definition image_case (spaces : list N) (decimals : list (N * N)) (T : odf_table) (ctypes : list (str * str))
    (lower_tbl : list (str * str))
    (c : image * (N * list N) * option (option Z * Z * str * option Z * option Z) * (str * str * str)) : bool :=
  let '(i, (p, b), wm, (ct, cap, desc)) := c in
  let isspace := isspace_of spaces in
  let lower := fun x => match assoc x lower_tbl with Some y => y | None => x end in
  let g := get_bytes i in
  N.eqb (pos g) p && bytes_eqb (bio_read g) b
  && match get_metadata isspace lower (odf_px isspace (decval_of decimals) T) ctypes i, wm with
     | Ok m, Some w => imeta_eqb m w
     | Raise _, None => true
     | _, _ => false
     end
  && str_eqb (get_content_type isspace lower ctypes i) ct
  && str_eqb (get_caption isspace i) cap && str_eqb (get_description isspace i) desc.

(* ---- tables: (table, row lengths of get_table(), (rows, columns) of get_dim()) *)
Fixpoint nats_eqb (a b : list nat) : bool :=
  match a, b with
  | [], [] => true
  | x :: a', y :: b' => Nat.eqb x y && nats_eqb a' b'
  | _, _ => false
  end.
Definition table_case (c : table unit * list nat * (nat * nat)) : bool :=
  let '(t, lens, (r, k)) := c in
  nats_eqb (get_table_lengths t) lens && Nat.eqb (rows (get_dim t)) r && Nat.eqb (columns (get_dim t)) k.

(* ---- RTF info-group value (get_value from the captured text on) and _strip_rtf_simple:
   (text, None = raised ValueError | Some result) *)
From S2T Require Import C04.ModelRtfText.

Definition info_case (spaces : list N) (decimals : list (N * N)) (azci : list N) (info_unicode rep : bool)
    (c : str * option str) : bool :=
  match info_value (decval_of decimals) (isspace_of spaces) (fun ch => memN ch azci) info_unicode rep (fst c), snd c with
  | Ok v, Some w => str_eqb v w
  | Raise _, None => true
  | _, _ => false
  end.

Definition simple_case (spaces : list N) (decimals : list (N * N)) (azci : list N) (T : rtf_tables)
    (c : str * option str) : bool :=
  match strip_simple (decval_of decimals) (isspace_of spaces) (fun ch => memN ch azci) T (fst c), snd c with
  | Ok v, Some w => str_eqb v w
  | Raise _, None => true
  | _, _ => false
  end.

(* ---- OLE summary readers and XLSX properties on recorded oracle records.
   (kind 0 = DOC, 1 = PPT, 2 = XLS; record; recorded decodes ((code page, bytes) -> str); recorded strict UTF-8
   decodes; None = raised | Some (title, author, subject, keywords, description)) *)
From S2T Require Import C04.ModelSummary.

Fixpoint dec_lookup (tbl : list (Z * list N * str)) (cp : Z) (b : list N) : str :=
  match tbl with
  | [] => s "<unrecorded>"
  | (cp', b', x) :: r => if Z.eqb cp cp' && str_eqb b b' then x else dec_lookup r cp b
  end.
Fixpoint strict_lookup (tbl : list (list N * option str)) (b : list N) : option str :=
  match tbl with
  | [] => None
  | (b', x) :: r => if str_eqb b b' then x else strict_lookup r b
  end.

Definition summary_case (cp_aware : bool)
    (c : N * ole_meta * list (Z * list N * str) * list (list N * option str) * option (str * str * str * str * str)) : bool :=
  let '(kind, m, dt, st, want) := c in
  let dec := dec_lookup dt in
  let r := if N.eqb kind 0 then Ok (doc_props dec cp_aware m)
           else if N.eqb kind 1 then Ok (ppt_props dec cp_aware m)
           else xls_props dec (strict_lookup st) cp_aware m in
  match r, want with
  | Ok p, Some w => props_eqb p w
  | Raise _, None => true
  | _, _ => false
  end.

Definition xlsx_case (c : xlsx_properties * (str * str * str * str * str)) : bool := props_eqb (xlsx_props (fst c)) (snd c).

(* ---- ImageMetadata under a sequence of assignments: (constructor values, operations, final attributes, final items) *)
From S2T Require Import C04.ModelImeta.
Fixpoint items_eqb (a b : list (str * mval)) : bool :=
  match a, b with
  | [], [] => true
  | (k, v) :: a', (k', v') :: b' => str_eqb k k' && mval_eqb v v' && items_eqb a' b'
  | _, _ => false
  end.
Definition imeta_case (c : (mval * mval * mval * mval * mval) * list iop * (mval * mval * mval * mval * mval) * list (str * mval)) : bool :=
  let '((u, n, ct, w, h), ops, (u', n', ct', w', h'), its) := c in
  let x := run_ops (im_new u n ct w h) ops in
  mval_eqb (a_unit x) u' && mval_eqb (a_num x) n' && mval_eqb (a_ctype x) ct' && mval_eqb (a_width x) w'
  && mval_eqb (a_height x) h' && items_eqb (d_items x) its.

(* ---- EPUB chapter numbers: (children of <spine> as (tag, idref), item ids that produce a chapter, (item id, unit number) of the result) *)
From S2T Require Import C04.ModelEpub.
Fixpoint units_eqb (a b : list (str * Z)) : bool :=
  match a, b with
  | [], [] => true
  | (i, k) :: a', (j, l) :: b' => str_eqb i j && Z.eqb k l && units_eqb a' b'
  | _, _ => false
  end.
Definition epub_units_case (opf_itemref : str) (c : list spine_child * list str * list (str * Z)) : bool :=
  let '(children, prod, want) := c in
  units_eqb (epub_units (fun i => mem_str i prod)
               (parse_spine opf_itemref (fun t => endswith t (s "}itemref") || str_eqb t (s "itemref")) children)) want.
