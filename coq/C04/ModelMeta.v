(* C04 — executable models of the document-property readers.  Definitions only.

   - OOXML core.xml:  docx_extractor._extract_metadata_from_context / pptx_extractor._extract_metadata_from_context
                      (`_get_element_text(root, tag)`: root.find(tag), text if non-empty)
   - ODF meta.xml:    open_office/_shared.extract_odf_metadata (meta_root.find(".//office:meta"), then find(tag))
   - EPUB OPF:        epub_extractor._EpubContext._parse_metadata (find("opf:metadata") or find("{*}metadata"),
                      get_dc(name) = (elem.text or "").strip())
   - HTML head:       html_extractor._HtmlTextExtractor._extract_metadata, the <meta name=… content=…> loop

   ElementTree parsing is an oracle: a tree is what ET.fromstring returned (tag in Clark notation, text,
   children); Element.find(tag) = first direct child, find(".//tag") = first descendant in document order.
   The tag names are read from the live modules on every run (Gen/C04Tables.v).
   Oracles: str.isspace (strip), str.lower (meta name). *)
From S2T Require Import Lib.PyStr C04.Model.
From Coq Require Import List NArith Bool.
Import ListNotations.
Open Scope N_scope.

Inductive xml := Elem (tag : str) (text : option str) (children : list xml).
Definition xtag (e : xml) : str := match e with Elem t _ _ => t end.
Definition xtext (e : xml) : option str := match e with Elem _ x _ => x end.
Definition xchildren (e : xml) : list xml := match e with Elem _ _ c => c end.

(* Element.find(tag) *)
Fixpoint find_first (tag : str) (l : list xml) : option xml :=
  match l with
  | [] => None
  | e :: r => if str_eqb (xtag e) tag then Some e else find_first tag r
  end.
Definition find_child (tag : str) (e : xml) : option xml := find_first tag (xchildren e).

(* Element.find(".//tag"): first descendant (not the element itself) in document order *)
Fixpoint find_desc (tag : str) (e : xml) : option xml :=
  match e with
  | Elem _ _ cs =>
      (fix scan (l : list xml) : option xml :=
         match l with
         | [] => None
         | c :: r =>
             if str_eqb (xtag c) tag then Some c
             else match find_desc tag c with
                  | Some d => Some d
                  | None => scan r
                  end
         end) cs
  end.

(* `elem is not None and elem.text` -> elem.text *)
Definition nonempty_text (o : option xml) : option str :=
  match o with
  | Some e => match xtext e with Some (c :: r) => Some (c :: r) | _ => None end
  | None => None
  end.

(* the five textual document properties of the statement *)
Record props := { p_title : str; p_author : str; p_subject : str; p_keywords : str; p_description : str }.
Definition props_default : props :=
  {| p_title := []; p_author := []; p_subject := []; p_keywords := []; p_description := [] |}.

Record prop_tags := { t_title : str; t_author : str; t_subject : str; t_keywords : str; t_description : str }.

Definition or_empty (o : option str) : str := match o with Some x => x | None => [] end.

(* ---- OOXML core.xml (DocxMetadata.title/author/subject/keywords/comments; same for PptxMetadata) *)
Definition ooxml_props (tg : prop_tags) (root : option xml) : props :=
  match root with
  | None => props_default
  | Some r =>
      let get tag := or_empty (nonempty_text (find_child tag r)) in
      {| p_title := get (t_title tg); p_author := get (t_author tg); p_subject := get (t_subject tg);
         p_keywords := get (t_keywords tg); p_description := get (t_description tg) |}
  end.

(* ---- ODF meta.xml (OpenDocumentMetadata.title/creator/subject/keywords/description) *)
Definition odf_props (office_meta : str) (tg : prop_tags) (root : option xml) : props :=
  match root with
  | None => props_default
  | Some r =>
      match find_desc office_meta r with
      | None => props_default
      | Some m =>
          let get tag := or_empty (nonempty_text (find_child tag m)) in
          {| p_title := get (t_title tg); p_author := get (t_author tg); p_subject := get (t_subject tg);
             p_keywords := get (t_keywords tg); p_description := get (t_description tg) |}
      end
  end.

(* ---- EPUB OPF (EpubMetadata.title/creator/subject/description; there is no keywords field).
   find("opf:metadata") or find("{*}metadata"): the wildcard form is given as a predicate on tags *)
Section Epub.
  Variable isspace : N -> bool.
  Variable opf_metadata : str.
  Variable any_ns_metadata : str -> bool.      (* tag matches "{*}metadata" *)

  Fixpoint find_first_p (p : str -> bool) (l : list xml) : option xml :=
    match l with
    | [] => None
    | e :: r => if p (xtag e) then Some e else find_first_p p r
    end.

  Definition epub_props (tg : prop_tags) (root : option xml) : props :=
    match root with
    | None => props_default
    | Some r =>
        let m := match find_child opf_metadata r with
                 | Some m => Some m
                 | None => find_first_p any_ns_metadata (xchildren r) end in
        match m with
        | None => props_default
        | Some m =>
            (* (elem.text or "").strip() if elem is not None else "" *)
            let get tag := match find_child tag m with
                           | Some e => strip isspace (or_empty (xtext e))
                           | None => [] end in
            {| p_title := get (t_title tg); p_author := get (t_author tg); p_subject := get (t_subject tg);
               p_keywords := []; p_description := get (t_description tg) |}
        end
    end.
End Epub.

(* ---- HTML <meta> loop: attrs dicts of the meta elements in document order;
     name = attrs.get("name","").lower(); content = attrs.get("content","")
     if name == "description" and content: description = content  elif keywords …  elif author … *)
Section Html.
  Variable lower : str -> str.

  Definition html_meta_step (p : props) (attrs : list (str * str)) : props :=
    let name := lower (or_empty (assoc (s "name") attrs)) in
    let content := or_empty (assoc (s "content") attrs) in
    match content with
    | [] => p
    | _ =>
        if str_eqb name (s "description") then
          {| p_title := p_title p; p_author := p_author p; p_subject := p_subject p;
             p_keywords := p_keywords p; p_description := content |}
        else if str_eqb name (s "keywords") then
          {| p_title := p_title p; p_author := p_author p; p_subject := p_subject p;
             p_keywords := content; p_description := p_description p |}
        else if str_eqb name (s "author") then
          {| p_title := p_title p; p_author := content; p_subject := p_subject p;
             p_keywords := p_keywords p; p_description := p_description p |}
        else p
    end.

  Definition html_meta_props (p0 : props) (metas : list (list (str * str))) : props :=
    fold_left html_meta_step metas p0.
End Html.
