(* C04 — lemmas about tables, streams, image metadata, the ODF length conversion and path metadata. *)
From S2T Require Import Lib.PyStr C04.Model C04.ModelFloat C04.ModelPath.
From Coq Require Import ZArith List Bool Lia ZifyBool Floats.SpecFloat.
Import ListNotations.
Open Scope N_scope.

(* ------------------------------------------------------------------ tables *)
Lemma max_len_ub {A} (t : list (list A)) r : In r t -> (length r <= max_len t)%nat.
Proof.
  induction t as [|x t IH]; simpl; [tauto|]. intros [->|H]; [lia|]. specialize (IH H). lia.
Qed.

Lemma max_len_in {A} (t : list (list A)) : t <> [] -> In (max_len t) (map (@length A) t).
Proof.
  induction t as [|x t IH]; [congruence|]. intros _. simpl.
  destruct t as [|y t'].
  - left. simpl. lia.
  - destruct (Nat.max_spec (length x) (max_len (y :: t'))) as [[_ E]|[_ E]]; rewrite E.
    + right. apply IH. discriminate.
    + left. reflexivity.
Qed.

Lemma is_shape_rows {A} (t : list (list A)) :
  is_shape (map (@length A) t) {| rows := length t; columns := max_len t |}.
Proof.
  unfold is_shape; simpl. repeat split.
  - rewrite map_length. reflexivity.
  - intros n H. apply in_map_iff in H as [r [<- H]]. apply max_len_ub. exact H.
  - intro H. destruct t; [reflexivity | discriminate].
  - intro H. apply max_len_in. intro E; subst; apply H; reflexivity.
Qed.

Lemma dim_is_shape V (t : table V) : is_shape (get_table_lengths t) (get_dim t).
Proof.
  destruct t; simpl; unfold rows_get_table, rows_get_dim, xls_get_dim; apply is_shape_rows.
Qed.

Lemma max_len_const {A B} (f : A -> list B) n (l : list A) :
  (forall a, In a l -> length (f a) = n) -> l <> [] -> max_len (map f l) = n.
Proof.
  induction l as [|a l IH]; [congruence|]. intros H _. simpl.
  rewrite (H a (or_introl eq_refl)).
  destruct l as [|b l']; [simpl; lia|].
  rewrite IH; [lia | intros x Hx; apply H; right; exact Hx | discriminate].
Qed.

(* XlsSheet: one header row plus one row per record, every row as wide as the header *)
Lemma xls_dim V (first : list (str * V)) rest :
  xls_get_dim (first :: rest) = {| rows := S (S (length rest)); columns := length first |}.
Proof.
  unfold xls_get_dim, xls_get_table. cbn [length]. f_equal.
  - rewrite map_length. reflexivity.
  - cbn [max_len]. rewrite !map_length.
    rewrite (max_len_const (fun row => map (fun h => XValue (assoc h row)) (map fst first)) (length first)).
    + lia.
    + intros a _. rewrite !map_length. reflexivity.
    + discriminate.
Qed.

Lemma xls_rows_rectangular V (data : list (list (str * V))) n :
  In n (map (@length (xcell V)) (xls_get_table data)) -> n = columns (xls_get_dim data).
Proof.
  destruct data as [|first rest]; [simpl; tauto|].
  rewrite xls_dim. cbn [columns]. unfold xls_get_table.
  intro H. apply in_map_iff in H as [r [<- H]]. destruct H as [<-|H].
  - rewrite !map_length. reflexivity.
  - apply in_map_iff in H as [row [<- _]]. rewrite !map_length. reflexivity.
Qed.

(* ------------------------------------------------------------------ streams *)
Lemma bytes_stream (i : image) :
  pos (get_bytes i) = 0 /\ buf (get_bytes i) = payload_bytes (idata i)
  /\ bio_read (get_bytes i) = payload_bytes (idata i).
Proof.
  unfold get_bytes, bio_read. destruct (idata i) as [b|[b|]|[st|]]; simpl; try (destruct (icls i)); simpl; auto.
Qed.

Lemma bytes_len_is_size (i : image) z :
  size_consistent i = true -> isize i = Some z -> Z.of_N (bio_len (get_bytes i)) = z.
Proof.
  unfold size_consistent, bio_len. intros H E. rewrite E in H. apply Z.eqb_eq in H.
  destruct (bytes_stream i) as [_ [-> _]]. rewrite nat_N_Z. congruence.
Qed.

(* ------------------------------------------------------------------ str.strip keeps characters *)
Lemma forallb_dropWhile {A} (p q : A -> bool) l : forallb p l = true -> forallb p (dropWhile q l) = true.
Proof.
  induction l as [|x l IH]; simpl; [auto|]. intro H. apply andb_true_iff in H as [H1 H2].
  destruct (q x); [auto | simpl; rewrite H1, H2; reflexivity].
Qed.

Lemma forallb_rev {A} (p : A -> bool) l : forallb p (rev l) = forallb p l.
Proof.
  induction l as [|x l IH]; simpl; [reflexivity|]. rewrite forallb_app, IH. simpl. rewrite andb_true_r, andb_comm. reflexivity.
Qed.

Lemma forallb_strip (p : N -> bool) isspace x : forallb p x = true -> forallb p (strip isspace x) = true.
Proof.
  intro H. unfold strip, rstrip, lstrip. rewrite forallb_rev. apply forallb_dropWhile.
  rewrite forallb_rev. apply forallb_dropWhile. exact H.
Qed.

Lemma forallb_rstrip (p : N -> bool) isspace x : forallb p x = true -> forallb p (rstrip isspace x) = true.
Proof.
  intro H. unfold rstrip. rewrite forallb_rev. apply forallb_dropWhile. rewrite forallb_rev. exact H.
Qed.

(* ------------------------------------------------------------------ image accessors *)
Section Img.
  Variable isspace : N -> bool.
  Variable lower : str -> str.
  Variable odf_px : str -> result (option Z).
  Variable rtf_ctypes : list (str * str).

  Lemma meta_dim_total c d :
    dim_ok c d = true -> (forall x, raises (odf_px x) = false) -> raises (meta_dim odf_px c d) = false.
  Proof.
    intros H Ho. destruct c, d as [|z|y]; simpl in *; try discriminate; try reflexivity.
    destruct y as [|n y]; [reflexivity|]. specialize (Ho (n :: y)). destruct (odf_px (n :: y)); simpl in *; [reflexivity | discriminate].
  Qed.

  Lemma get_metadata_total i :
    well_typed i = true -> (forall x, raises (odf_px x) = false) ->
    raises (get_metadata isspace lower odf_px rtf_ctypes i) = false.
  Proof.
    unfold well_typed, get_metadata. intros H Ho.
    apply andb_true_iff in H as [H H3]. apply andb_true_iff in H as [_ H2].
    pose proof (meta_dim_total _ _ H2 Ho) as A. pose proof (meta_dim_total _ _ H3 Ho) as B.
    destruct (meta_dim odf_px (icls i) (iwidth i)); [|discriminate].
    destruct (meta_dim odf_px (icls i) (iheight i)); [|discriminate]. reflexivity.
  Qed.

  (* the only way get_metadata of a well-typed image raises is the ODF length conversion raising *)
  Lemma get_metadata_raises_only_odf i :
    well_typed i = true -> raises (get_metadata isspace lower odf_px rtf_ctypes i) = true ->
    icls i = OpenDocumentImage /\
    exists x, (iwidth i = DStr x \/ iheight i = DStr x) /\ raises (odf_px x) = true.
  Proof.
    unfold well_typed, get_metadata. intros H R.
    apply andb_true_iff in H as [H H3]. apply andb_true_iff in H as [_ H2].
    assert (K : forall d, dim_ok (icls i) d = true -> raises (meta_dim odf_px (icls i) d) = true ->
                icls i = OpenDocumentImage /\ exists x, d = DStr x /\ raises (odf_px x) = true).
    { intros d Hd Hr. destruct (icls i), d; simpl in *; try discriminate.
      split; [reflexivity|]. exists x. split; [reflexivity|].
      destruct x; [discriminate|]. destruct (odf_px (n :: x)); simpl in *; [discriminate | reflexivity]. }
    destruct (meta_dim odf_px (icls i) (iwidth i)) eqn:E1.
    - destruct (meta_dim odf_px (icls i) (iheight i)) eqn:E2; [discriminate|].
      destruct (K _ H3) as [C [x [Hx Hr]]]; [rewrite E2; reflexivity|]. split; [exact C|]. exists x. auto.
    - destruct (K _ H2) as [C [x [Hx Hr]]]; [rewrite E1; reflexivity|]. split; [exact C|]. exists x. auto.
  Qed.

  Lemma meta_dim_nonneg c d o z : meta_dim odf_px c d = Ok o -> o = Some z ->
    (0 <= z)%Z /\ (c <> RtfImage -> 0 < z)%Z.
  Proof.
    assert (P : forall w, positive_or_none w = Some z -> (0 < z)%Z).
    { intros w. unfold positive_or_none. destruct (0 <? w)%Z eqn:Q; intro H; inversion H; subst; lia. }
    intros H E. subst o.
    destruct c eqn:C, d as [|w|y]; simpl in H; try discriminate;
      try (inversion H as [H1]; apply P in H1; split; [lia | intros _; exact H1]).
    - destruct y as [|n y]; [discriminate|].
      destruct (odf_px (n :: y)) as [[px|]|]; simpl in H; try discriminate.
      inversion H as [H1]; apply P in H1; split; [lia | intros _; exact H1].
    - destruct (0 <? w)%Z eqn:Q; inversion H; subst. split; [apply Z.div_pos; lia | congruence].
  Qed.

  Lemma image_metadata_items f :
    items (image_metadata_init f) =
      [(s "unit_number", MOptZ (m_unit f)); (s "image_number", MZ (m_num f)); (s "content_type", MStr (m_ctype f));
       (s "width", MOptZ (m_width f)); (s "height", MOptZ (m_height f))].
  Proof. reflexivity. Qed.

  Lemma get_content_type_utf8able i :
    forallb (fun kv => utf8able (snd kv)) rtf_ctypes = true -> utf8able (ictype i) = true ->
    utf8able (get_content_type isspace lower rtf_ctypes i) = true.
  Proof.
    intros HT H. unfold get_content_type, utf8able in *.
    destruct (icls i); try exact H; try (apply forallb_strip; exact H).
    destruct (assoc (lower (ictype i)) rtf_ctypes) eqn:E; [|reflexivity].
    apply assoc_In in E. rewrite forallb_forall in HT. exact (HT _ E).
  Qed.

  Lemma get_caption_utf8able i : utf8able (icaption i) = true -> utf8able (get_caption isspace i) = true.
  Proof.
    intro H. unfold get_caption, utf8able in *. destruct (icls i); try exact H; try reflexivity; apply forallb_strip; exact H.
  Qed.

  Lemma get_description_utf8able i : utf8able (idesc i) = true -> utf8able (get_description isspace i) = true.
  Proof.
    intro H. unfold get_description, utf8able in *. destruct (icls i); try exact H; try reflexivity; apply forallb_strip; exact H.
  Qed.
End Img.

(* ------------------------------------------------------------------ _odf_length_to_px *)
Lemma py_round_raises f : raises (py_round f) = negb (is_finite f).
Proof. destruct f; reflexivity. Qed.

Section OdfP.
  Variable isspace : N -> bool.
  Variable decval : N -> option N.

  Lemma odf_px_total_guarded T x : guarded T = true -> raises (odf_px isspace decval T x) = false.
  Proof.
    intro G. unfold odf_px. destruct x; [reflexivity|].
    destruct (px_float isspace decval T (n :: x)) as [px|]; [|reflexivity].
    rewrite G. simpl. pose proof (py_round_raises px) as R.
    destruct (is_finite px); simpl in *; [|reflexivity].
    destruct (py_round px); simpl in *; [reflexivity | discriminate].
  Qed.

  Lemma odf_px_raises_iff T x : guarded T = false ->
    (raises (odf_px isspace decval T x) = true <->
     x <> [] /\ exists px, px_float isspace decval T x = Some px /\ is_finite px = false).
  Proof.
    intro G. unfold odf_px. destruct x.
    - simpl. split; [discriminate | intros [H _]; congruence].
    - destruct (px_float isspace decval T (n :: x)) as [px|].
      + rewrite G. simpl. pose proof (py_round_raises px) as R. split.
        * intro H. split; [discriminate|]. exists px. split; [reflexivity|].
          destruct (py_round px); simpl in *; [discriminate|]. destruct (is_finite px); [discriminate | reflexivity].
        * intros [_ [px' [E F]]]. inversion E; subst. rewrite F in R. destruct (py_round px'); simpl in *; [discriminate | reflexivity].
      + simpl. split; [discriminate | intros [_ [px [E _]]]; discriminate].
  Qed.
End OdfP.

(* ------------------------------------------------------------------ path metadata *)
Section PathP.
  Variable fs_exists : str -> option bool.
  Variable fs_resolve : str -> str.

  Lemma populate_none guard m : populate_from_path fs_exists fs_resolve guard m None = Ok m.
  Proof. reflexivity. Qed.

  Lemma resolved_total q : raises (resolved_or_str fs_exists fs_resolve true q) = false.
  Proof. unfold resolved_or_str. destruct (fs_exists (pstr q)) as [[|]|]; reflexivity. Qed.

  Lemma populate_total_guarded m path : raises (populate_from_path fs_exists fs_resolve true m path) = false.
  Proof.
    destruct path as [x|]; [|reflexivity]. unfold populate_from_path.
    pose proof (resolved_total (parse x)) as A. pose proof (resolved_total (pparent (parse x))) as B.
    destruct (resolved_or_str fs_exists fs_resolve true (parse x)); [|discriminate]. simpl.
    destruct (resolved_or_str fs_exists fs_resolve true (pparent (parse x))); [|discriminate]. reflexivity.
  Qed.

  Lemma populate_fields guard m x m' :
    populate_from_path fs_exists fs_resolve guard m (Some x) = Ok m' ->
    filename m' = Some (pname (parse x)) /\ file_extension m' = Some (psuffix (parse x))
    /\ resolved_or_str fs_exists fs_resolve guard (parse x) = Ok (or_nil (file_path m'))
    /\ resolved_or_str fs_exists fs_resolve guard (pparent (parse x)) = Ok (or_nil (folder_path m'))
    /\ file_path m' <> None /\ folder_path m' <> None.
  Proof.
    unfold populate_from_path.
    destruct (resolved_or_str fs_exists fs_resolve guard (parse x)); [|discriminate]. simpl.
    destruct (resolved_or_str fs_exists fs_resolve guard (pparent (parse x))); [|discriminate]. simpl.
    intro H; inversion H; subst; simpl. repeat split; discriminate.
  Qed.
End PathP.
