(* C04 — executable models of the regex-based RTF text routines of ms_legacy/rtf_extractor.py:
     _RtfParser._extract_metadata.get_value   (info-group values: title, author, subject, keywords, …)
     _RtfParser._remove_ignorable_groups, _RtfParser._strip_rtf_simple   (fallback stripper used for headers,
                                                footers, footnotes, hyperlink texts, table cells)
   Definitions only.  Every re.sub is modelled as the left-to-right scan it performs (structural recursion over
   the text with a count of characters still covered by the previous match).

   Tables/variants (Gen/C04Tables.v): SPECIAL_CHARS in dict order; `repair` = the text goes through
   _repair_surrogates after the \uN substitution; `info_unicode` = get_value decodes \uN at all
   (fixes/C04-rtf-info-unicode.patch).
   Oracles: Unicode decimal values (\d, int()), str.isspace / \s, the code points matched by [a-z] under
   re.IGNORECASE, ASCII-prefix test of text.lower().  Which group of the info text a pattern such as
   {\title <value>} captures is the regex engine's business: get_value is modelled from the captured text on. *)
From S2T Require Import Lib.PyStr C04.Model C04.ModelRtf.
From Coq Require Import List NArith ZArith Bool.
Import ListNotations.
Open Scope N_scope.

Definition STAR : N := 42.

Section Text.
  Variable decval : N -> option N.
  Variable isspace : N -> bool.
  Variable az_ci : N -> bool.          (* matched by [a-z] with re.IGNORECASE *)

  Definition isdec' (c : N) : bool := match decval c with Some _ => true | None => false end.

  (* ---- _RE_UNICODE.sub(lambda m: chr(int(m.group(1)) & 0xFFFF), x);  int() raises ValueError beyond 4300 digits *)
  Definition uni_at (c : N) (r : str) : option (result Z * nat) :=
    if N.eqb c BSL then
      match r with
      | u :: r1 => if N.eqb u LETTER_u then match_unicode decval r1 else None
      | [] => None
      end
    else None.

  Fixpoint usub (pending : nat) (x : str) : result str :=
    match x with
    | [] => Ok []
    | c :: r =>
        match pending with
        | S k => usub k r
        | O =>
            match uni_at c r with
            | Some (Ok v, len) => bind (usub (S len) r) (fun t => Ok (Z.to_N (Z.land v 0xFFFF) :: t))
            | Some (Raise e, _) => Raise e
            | None => bind (usub 0 r) (fun t => Ok (c :: t))
            end
        end
    end.

  (* ---- _RE_HEX_ESCAPE.sub: \'([0-9a-fA-F]{2}) -> chr(int(hh, 16)) *)
  Definition ascii_hexval (c : N) : option N :=
    if (48 <=? c) && (c <=? 57) then Some (c - 48)
    else if (97 <=? c) && (c <=? 102) then Some (c - 87)
    else if (65 <=? c) && (c <=? 70) then Some (c - 55) else None.

  Definition hex_at (c : N) (r : str) : option N :=
    if N.eqb c BSL then
      match r with
      | q :: h1 :: h2 :: _ =>
          if N.eqb q QUOTE then
            match ascii_hexval h1, ascii_hexval h2 with
            | Some a, Some b => Some (16 * a + b)
            | _, _ => None
            end
          else None
      | _ => None
      end
    else None.

  Fixpoint hexsub (pending : nat) (x : str) : str :=
    match x with
    | [] => []
    | c :: r =>
        match pending with
        | S k => hexsub k r
        | O => match hex_at c r with
               | Some v => v :: hexsub 3 r
               | None => c :: hexsub 0 r
               end
        end
    end.

  (* ---- val.replace("\\~", " ") *)
  Fixpoint tilde_sub (pending : nat) (x : str) : str :=
    match x with
    | [] => []
    | c :: r =>
        match pending with
        | S k => tilde_sub k r
        | O => if N.eqb c BSL && match r with t :: _ => N.eqb t TILDE | [] => false end
               then SPACE :: tilde_sub 1 r else c :: tilde_sub 0 r
        end
    end.

  (* ---- _RE_CONTROL_SEQ.sub("", x):  \\[a-z]+\d*\s*  (IGNORECASE) *)
  Definition ctrl_seq_len (r : str) : nat :=
    let letters := takeWhile az_ci r in
    match letters with
    | [] => 0%nat
    | _ => let r1 := dropWhile az_ci r in
           let ds := takeWhile isdec' r1 in
           let r2 := dropWhile isdec' r1 in
           (length letters + length ds + length (takeWhile isspace r2))%nat
    end.

  Fixpoint ctrl_seq_sub (pending : nat) (x : str) : str :=
    match x with
    | [] => []
    | c :: r =>
        match pending with
        | S k => ctrl_seq_sub k r
        | O => if N.eqb c BSL then
                 match ctrl_seq_len r with
                 | O => c :: ctrl_seq_sub 0 r
                 | n => ctrl_seq_sub n r
                 end
               else c :: ctrl_seq_sub 0 r
        end
    end.

  Definition drop_braces (x : str) : str := filter (fun c => negb (N.eqb c LBRACE || N.eqb c RBRACE)) x.

  (* ---- get_value, from the captured group on *)
  Definition info_value (info_unicode rep : bool) (captured : str) : result str :=
    let v0 := strip isspace captured in
    bind (if info_unicode then usub 0 v0 else Ok v0) (fun v1 =>
    let v1' := if info_unicode && rep then repair_surrogates v1 else v1 in
    Ok (strip isspace (drop_braces (ctrl_seq_sub 0 (tilde_sub 0 (hexsub 0 v1')))))).

  (* ---- _remove_ignorable_groups: a group opening with {\pict, {\object or {\* (ASCII case-insensitive, via
     text.lower()) is dropped up to its matching brace (to the end of the text when unbalanced) *)
  Definition ascii_lower_c (c : N) : N := if (65 <=? c) && (c <=? 90) then c + 32 else c.
  Fixpoint starts_ci (x p : str) : bool :=
    match p, x with
    | [], _ => true
    | c :: p', d :: x' => N.eqb c (ascii_lower_c d) && starts_ci x' p'
    | _ :: _, [] => false
    end.
  Definition ignorable_open (r : str) : bool :=
    starts_ci r (BSL :: s "pict") || starts_ci r (BSL :: s "object") || starts_ci r [BSL; STAR].

  Fixpoint rig (depth : nat) (x : str) : str :=
    match x with
    | [] => []
    | c :: r =>
        match depth with
        | O => if N.eqb c LBRACE && ignorable_open r then rig 1 r else c :: rig 0 r
        | S d => if N.eqb c LBRACE then rig (S depth) r
                 else if N.eqb c RBRACE then rig d r else rig depth r
        end
    end.

  (* ---- one SPECIAL_CHARS pattern:  \\<kw>(?:(?:\s+)|(?=\\)|(?=\{)|(?=\})|$)  ->  chars *)
  Definition special_at (kw : str) (c : N) (r : str) : option nat :=
    if N.eqb c BSL && startswith r kw then
      let r' := skipn (length kw) r in
      match takeWhile isspace r' with
      | [] => match r' with
              | [] => Some (length kw)
              | d :: _ => if N.eqb d BSL || N.eqb d LBRACE || N.eqb d RBRACE then Some (length kw) else None
              end
      | ws => Some (length kw + length ws)%nat
      end
    else None.

  Fixpoint special_sub (kw chars : str) (pending : nat) (x : str) : str :=
    match x with
    | [] => []
    | c :: r =>
        match pending with
        | S k => special_sub kw chars k r
        | O => match special_at kw c r with
               | Some n => chars ++ special_sub kw chars n r
               | None => c :: special_sub kw chars 0 r
               end
        end
    end.

  Definition special_all (tbl : list (str * str)) (x : str) : str :=
    fold_left (fun acc kv => special_sub (fst kv) (snd kv) 0 acc) tbl x.

  (* ---- _RE_CONTROL_WORD.sub("", x):  \\[a-z]+(-?\d+)?\s?  (IGNORECASE) *)
  Definition ctrl_word_len (r : str) : nat :=
    let letters := takeWhile az_ci r in
    match letters with
    | [] => 0%nat
    | _ => let r1 := dropWhile az_ci r in
           let '(nnum, r2) :=
             match r1 with
             | m :: r1' =>
                 if N.eqb m MINUS then
                   match takeWhile isdec' r1' with
                   | [] => (0%nat, r1)
                   | ds => (S (length ds), dropWhile isdec' r1')
                   end
                 else (length (takeWhile isdec' r1), dropWhile isdec' r1)
             | [] => (0%nat, r1)
             end in
           let sp := match r2 with d :: _ => if isspace d then 1%nat else 0%nat | [] => 0%nat end in
           (length letters + nnum + sp)%nat
    end.

  Fixpoint ctrl_word_sub (pending : nat) (x : str) : str :=
    match x with
    | [] => []
    | c :: r =>
        match pending with
        | S k => ctrl_word_sub k r
        | O => if N.eqb c BSL then
                 match ctrl_word_len r with
                 | O => c :: ctrl_word_sub 0 r
                 | n => ctrl_word_sub n r
                 end
               else c :: ctrl_word_sub 0 r
        end
    end.

  (* ---- _strip_rtf_simple *)
  Definition strip_simple (T : rtf_tables) (text : str) : result str :=
    bind (usub 0 (rig 0 text)) (fun v1 =>
    let v1' := if repair T then repair_surrogates v1 else v1 in
    let v2 := hexsub 0 v1' in
    let v3 := special_all (special T) v2 in
    let v4 := drop_braces (ctrl_word_sub 0 v3) in
    Ok (strip isspace (multi_newline (multi_space v4)))).
End Text.

(* ---- how a writer puts a property value into the info group: plain ASCII, \'hh, \uN? and surrogate pairs *)
Inductive token :=
  | TChar (c : N)                 (* the character itself (not \, {, }) *)
  | THex (h1 h2 : N)              (* \'h1h2 *)
  | TUni (neg : bool) (ds : str)  (* \u[-]digits? *)
  | TPair (n1 : bool) (d1 : str) (n2 : bool) (d2 : str).   (* \uHIGH?\uLOW? *)

Definition uni_text (neg : bool) (ds : str) : str :=
  [BSL; LETTER_u] ++ (if neg then [MINUS] else []) ++ ds ++ [QMARK].

Definition written_tok (t : token) : str :=
  match t with
  | TChar c => [c]
  | THex h1 h2 => [BSL; QUOTE; h1; h2]
  | TUni neg ds => uni_text neg ds
  | TPair n1 d1 n2 d2 => uni_text n1 d1 ++ uni_text n2 d2
  end.
Definition written (ts : list token) : str := concat (map written_tok ts).

Section Meaning.
  Variable decval : N -> option N.
  Definition uni_code (neg : bool) (ds : str) : N :=
    Z.to_N (Z.land (if neg then (- dec_value decval ds)%Z else dec_value decval ds) 0xFFFF).
  Definition hex_code (h1 h2 : N) : N :=
    match ascii_hexval h1, ascii_hexval h2 with Some a, Some b => 16 * a + b | _, _ => 0 end.

  Definition meaning_tok (t : token) : N :=
    match t with
    | TChar c => c
    | THex h1 h2 => hex_code h1 h2
    | TUni neg ds => uni_code neg ds
    | TPair n1 d1 n2 d2 => combine_pair (uni_code n1 d1) (uni_code n2 d2)
    end.
  Definition meaning (ts : list token) : str := map meaning_tok ts.

  Definition digits_ok (ds : str) : bool :=
    match ds with [] => false | _ => forallb (fun c => match decval c with Some _ => true | None => false end) ds end
    && (N.of_nat (length ds) <=? 4300).

  (* a token the reader can take apart again, and whose meaning is an ordinary character *)
  Definition plain_char (c : N) : bool := negb (N.eqb c BSL || N.eqb c LBRACE || N.eqb c RBRACE).
  Definition token_ok (t : token) : bool :=
    match t with
    | TChar c => plain_char c && scalar c
    | THex h1 h2 => match ascii_hexval h1, ascii_hexval h2 with Some _, Some _ => true | _, _ => false end
                    && plain_char (hex_code h1 h2)
    | TUni neg ds => digits_ok ds && plain_char (uni_code neg ds) && negb (is_surrogate (uni_code neg ds))
    | TPair n1 d1 n2 d2 => digits_ok d1 && digits_ok d2 && is_hi (uni_code n1 d1) && is_lo (uni_code n2 d2)
    end.
End Meaning.
