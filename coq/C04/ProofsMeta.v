(* C04 — lemmas about the document-property readers. *)
From S2T Require Import Lib.PyStr C04.Model C04.ModelMeta.
From Coq Require Import List NArith Bool.
Import ListNotations.
Open Scope N_scope.

(* "the file stores text t for property `tag` under element e": the first child of e with that tag
   has the non-empty text t *)
Definition stored (e : xml) (tag t : str) : Prop :=
  exists x rx pre ch post,
    e = Elem x rx (pre ++ Elem tag (Some t) ch :: post) /\ ~ In tag (map xtag pre) /\ t <> [].

Lemma find_first_skip tag pre e post :
  ~ In tag (map xtag pre) -> xtag e = tag -> find_first tag (pre ++ e :: post) = Some e.
Proof.
  intros N E. induction pre as [|p pre IH]; simpl.
  - rewrite E, str_eqb_refl. reflexivity.
  - destruct (str_eqb (xtag p) tag) eqn:K.
    + apply str_eqb_eq in K. exfalso. apply N. left. exact K.
    + apply IH. intro H. apply N. right. exact H.
Qed.

Lemma stored_found e tag t : stored e tag t ->
  exists ch, find_child tag e = Some (Elem tag (Some t) ch) /\ t <> [].
Proof.
  intros [x [rx [pre [ch [post [-> [N T]]]]]]]. exists ch. split; [|exact T].
  unfold find_child. simpl. apply find_first_skip; [exact N | reflexivity].
Qed.

Lemma stored_get e tag t : stored e tag t -> or_empty (nonempty_text (find_child tag e)) = t.
Proof.
  intro H. destruct (stored_found e tag t H) as [ch [F T]]. rewrite F. simpl.
  destruct t; [congruence | reflexivity].
Qed.

Lemma ooxml_unchanged tg root :
  (forall t, stored root (t_title tg) t -> p_title (ooxml_props tg (Some root)) = t) /\
  (forall t, stored root (t_author tg) t -> p_author (ooxml_props tg (Some root)) = t) /\
  (forall t, stored root (t_subject tg) t -> p_subject (ooxml_props tg (Some root)) = t) /\
  (forall t, stored root (t_keywords tg) t -> p_keywords (ooxml_props tg (Some root)) = t) /\
  (forall t, stored root (t_description tg) t -> p_description (ooxml_props tg (Some root)) = t).
Proof. repeat split; intros t H; simpl; apply stored_get; exact H. Qed.

Lemma odf_unchanged office_meta tg root m :
  find_desc office_meta root = Some m ->
  (forall t, stored m (t_title tg) t -> p_title (odf_props office_meta tg (Some root)) = t) /\
  (forall t, stored m (t_author tg) t -> p_author (odf_props office_meta tg (Some root)) = t) /\
  (forall t, stored m (t_subject tg) t -> p_subject (odf_props office_meta tg (Some root)) = t) /\
  (forall t, stored m (t_keywords tg) t -> p_keywords (odf_props office_meta tg (Some root)) = t) /\
  (forall t, stored m (t_description tg) t -> p_description (odf_props office_meta tg (Some root)) = t).
Proof. intro F. repeat split; intros t H; simpl; rewrite F; simpl; apply stored_get; exact H. Qed.

(* the layout of meta.xml: <office:document-meta><office:meta>…</office:meta></office:document-meta> *)
Lemma find_desc_first_child office_meta x rx m rest :
  xtag m = office_meta -> find_desc office_meta (Elem x rx (m :: rest)) = Some m.
Proof. intro E. simpl. rewrite E, str_eqb_refl. reflexivity. Qed.

Section EpubP.
  Variable isspace : N -> bool.
  Variable opf_metadata : str.
  Variable any_ns : str -> bool.

  Lemma epub_get m tag t : stored m tag t ->
    match find_child tag m with Some e => strip isspace (or_empty (xtext e)) | None => [] end = strip isspace t.
  Proof. intro H. destruct (stored_found m tag t H) as [ch [F _]]. rewrite F. reflexivity. Qed.

  Lemma epub_stripped tg root m :
    find_child opf_metadata root = Some m ->
    (forall t, stored m (t_title tg) t -> p_title (epub_props isspace opf_metadata any_ns tg (Some root)) = strip isspace t) /\
    (forall t, stored m (t_author tg) t -> p_author (epub_props isspace opf_metadata any_ns tg (Some root)) = strip isspace t) /\
    (forall t, stored m (t_subject tg) t -> p_subject (epub_props isspace opf_metadata any_ns tg (Some root)) = strip isspace t) /\
    (forall t, stored m (t_description tg) t -> p_description (epub_props isspace opf_metadata any_ns tg (Some root)) = strip isspace t).
  Proof. intro F. repeat split; intros t H; simpl; rewrite F; simpl; apply epub_get; exact H. Qed.
End EpubP.

(* ---- HTML <meta>: the last element with a given (lowered) name and non-empty content wins *)
Inductive mkey := KDescription | KKeywords | KAuthor.
Definition key_name (k : mkey) : str :=
  match k with KDescription => s "description" | KKeywords => s "keywords" | KAuthor => s "author" end.
Definition key_get (k : mkey) (p : props) : str :=
  match k with KDescription => p_description p | KKeywords => p_keywords p | KAuthor => p_author p end.

Section HtmlP.
  Variable lower : str -> str.
  Definition meta_name (a : list (str * str)) : str := lower (or_empty (assoc (s "name"%string) a)).
  Definition meta_content (a : list (str * str)) : str := or_empty (assoc (s "content"%string) a).

  Lemma step_sets k p a :
    meta_name a = key_name k -> meta_content a <> [] -> key_get k (html_meta_step lower p a) = meta_content a.
  Proof.
    unfold meta_name, meta_content, html_meta_step. intros E C. rewrite E.
    destruct (or_empty (assoc (s "content"%string) a)) as [|c0 rest0] eqn:K; [congruence|].
    destruct k; reflexivity.
  Qed.

  Lemma step_keeps k p a :
    (meta_name a = key_name k -> meta_content a = []) -> key_get k (html_meta_step lower p a) = key_get k p.
  Proof.
    unfold meta_name, meta_content, html_meta_step. intro H.
    destruct (or_empty (assoc (s "content"%string) a)) as [|c0 rest0] eqn:K; [reflexivity|].
    destruct (str_eqb (lower (or_empty (assoc (s "name"%string) a))) (s "description"%string)) eqn:E1.
    { apply str_eqb_eq in E1. destruct k; try reflexivity. specialize (H E1). discriminate. }
    destruct (str_eqb (lower (or_empty (assoc (s "name"%string) a))) (s "keywords"%string)) eqn:E2.
    { apply str_eqb_eq in E2. destruct k; try reflexivity. specialize (H E2). discriminate. }
    destruct (str_eqb (lower (or_empty (assoc (s "name"%string) a))) (s "author"%string)) eqn:E3.
    { apply str_eqb_eq in E3. destruct k; try reflexivity. specialize (H E3). discriminate. }
    reflexivity.
  Qed.

  Lemma fold_keeps k post : forall p,
    (forall a, In a post -> meta_name a = key_name k -> meta_content a = []) ->
    key_get k (fold_left (html_meta_step lower) post p) = key_get k p.
  Proof.
    induction post as [|a post IH]; intros p H; simpl; [reflexivity|].
    rewrite IH by (intros b Hb; apply H; right; exact Hb).
    apply step_keeps. apply H. left. reflexivity.
  Qed.

  Lemma html_meta_last_wins k p0 pre a post :
    meta_name a = key_name k -> meta_content a <> [] ->
    (forall b, In b post -> meta_name b = key_name k -> meta_content b = []) ->
    key_get k (html_meta_props lower p0 (pre ++ a :: post)) = meta_content a.
  Proof.
    intros E C H. unfold html_meta_props. rewrite fold_left_app. simpl.
    rewrite fold_keeps by exact H. apply step_sets; assumption.
  Qed.
End HtmlP.
