(* C04 — lemmas about the regex-based RTF text routines: character invariants of every pass
   (well-formedness of _strip_rtf_simple) and the writer/reader round trip of info-group values. *)
From S2T Require Import Lib.PyStr C04.Model C04.ModelRtf C04.ModelRtfText C04.Proofs C04.ProofsRtf.
From Coq Require Import ZArith List Bool Lia.
Import ListNotations.
Open Scope N_scope.

(* ================================================================= every pass keeps a character predicate *)
Section Keep.
  Variable decval : N -> option N.
  Variable isspace : N -> bool.
  Variable az_ci : N -> bool.
  Variable P : N -> bool.

  Lemma usub_P : (forall v : Z, P (Z.to_N (Z.land v 0xFFFF)) = true) ->
    forall x k y, forallb P x = true -> usub decval k x = Ok y -> forallb P y = true.
  Proof.
    intro HU. induction x as [|c r IH]; intros k y Hx; cbn [usub].
    - intros [= <-]. reflexivity.
    - simpl in Hx. apply andb_true_iff in Hx as [Hc Hr]. destruct k as [|k]; [|apply IH; exact Hr].
      destruct (uni_at decval c r) as [[[v|e] len]|].
      + destruct (usub decval (S len) r) as [t|] eqn:E; [|discriminate]. simpl. intros [= <-].
        simpl. rewrite HU. apply (IH (S len)); assumption.
      + discriminate.
      + destruct (usub decval 0 r) as [t|] eqn:E; [|discriminate]. simpl. intros [= <-].
        simpl. rewrite Hc. apply (IH 0%nat); assumption.
  Qed.

  Lemma ascii_hexval_le c a : ascii_hexval c = Some a -> a <= 15.
  Proof.
    unfold ascii_hexval.
    destruct ((48 <=? c) && (c <=? 57)) eqn:E1; [intros [= <-]; b2p; lia|].
    destruct ((97 <=? c) && (c <=? 102)) eqn:E2; [intros [= <-]; b2p; lia|].
    destruct ((65 <=? c) && (c <=? 70)) eqn:E3; [intros [= <-]; b2p; lia | discriminate].
  Qed.

  Lemma hex_at_le c r v : hex_at c r = Some v -> v <= 255.
  Proof.
    unfold hex_at. destruct (c =? BSL); [|discriminate].
    destruct r as [|q [|h1 [|h2 r']]]; try discriminate.
    destruct (q =? QUOTE); [|discriminate].
    destruct (ascii_hexval h1) as [a|] eqn:A; [|discriminate].
    destruct (ascii_hexval h2) as [b|] eqn:B; [|discriminate].
    apply ascii_hexval_le in A. apply ascii_hexval_le in B.
    assert (K : 16 * a + b <= 255) by lia. intros [= <-]. exact K.
  Qed.

  Hypothesis Hsmall : forall v, v <= 255 -> P v = true.

  Lemma hexsub_P x : forall k, forallb P x = true -> forallb P (hexsub k x) = true.
  Proof.
    induction x as [|c r IH]; intros k Hx; cbn [hexsub]; [reflexivity|].
    simpl in Hx. apply andb_true_iff in Hx as [Hc Hr]. destruct k; [|apply IH; exact Hr].
    destruct (hex_at c r) as [v|] eqn:E; simpl.
    - rewrite (Hsmall v (hex_at_le _ _ _ E)). apply IH. exact Hr.
    - rewrite Hc. apply IH. exact Hr.
  Qed.

  Lemma tilde_P x : forall k, forallb P x = true -> forallb P (tilde_sub k x) = true.
  Proof.
    induction x as [|c r IH]; intros k Hx; cbn [tilde_sub]; [reflexivity|].
    simpl in Hx. apply andb_true_iff in Hx as [Hc Hr]. destruct k; [|apply IH; exact Hr].
    destruct ((c =? BSL) && match r with t :: _ => t =? TILDE | [] => false end); simpl.
    - rewrite (Hsmall SPACE) by (unfold SPACE; lia). apply IH. exact Hr.
    - rewrite Hc. apply IH. exact Hr.
  Qed.

  Lemma ctrl_seq_P x : forall k, forallb P x = true -> forallb P (ctrl_seq_sub decval isspace az_ci k x) = true.
  Proof.
    induction x as [|c r IH]; intros k Hx; cbn [ctrl_seq_sub]; [reflexivity|].
    simpl in Hx. apply andb_true_iff in Hx as [Hc Hr]. destruct k; [|apply IH; exact Hr].
    destruct (c =? BSL); [destruct (ctrl_seq_len decval isspace az_ci r)|]; simpl; try rewrite Hc; apply IH; exact Hr.
  Qed.

  Lemma ctrl_word_P x : forall k, forallb P x = true -> forallb P (ctrl_word_sub decval isspace az_ci k x) = true.
  Proof.
    induction x as [|c r IH]; intros k Hx; cbn [ctrl_word_sub]; [reflexivity|].
    simpl in Hx. apply andb_true_iff in Hx as [Hc Hr]. destruct k; [|apply IH; exact Hr].
    destruct (c =? BSL); [destruct (ctrl_word_len decval isspace az_ci r)|]; simpl; try rewrite Hc; apply IH; exact Hr.
  Qed.

  Lemma drop_braces_P x : forallb P x = true -> forallb P (drop_braces x) = true.
  Proof.
    unfold drop_braces. induction x as [|c r IH]; simpl; [auto|]. intro H. apply andb_true_iff in H as [Hc Hr].
    destruct (negb ((c =? LBRACE) || (c =? RBRACE))); simpl; [rewrite Hc|]; apply IH; exact Hr.
  Qed.

  Lemma rig_P x : forall d, forallb P x = true -> forallb P (rig d x) = true.
  Proof.
    induction x as [|c r IH]; intros d Hx; cbn [rig]; [reflexivity|].
    simpl in Hx. apply andb_true_iff in Hx as [Hc Hr]. destruct d.
    - destruct ((c =? LBRACE) && ignorable_open r); simpl; [|rewrite Hc]; apply IH; exact Hr.
    - destruct (c =? LBRACE); [apply IH; exact Hr|]. destruct (c =? RBRACE); apply IH; exact Hr.
  Qed.

  Lemma special_sub_P kw chars x : forallb P chars = true ->
    forall k, forallb P x = true -> forallb P (special_sub isspace kw chars k x) = true.
  Proof.
    intro HC. induction x as [|c r IH]; intros k Hx; cbn [special_sub]; [reflexivity|].
    simpl in Hx. apply andb_true_iff in Hx as [Hc Hr]. destruct k; [|apply IH; exact Hr].
    destruct (special_at isspace kw c r).
    - rewrite forallb_app, HC. apply IH. exact Hr.
    - simpl. rewrite Hc. apply IH. exact Hr.
  Qed.

  Lemma special_all_P tbl : forallb (fun kv => forallb P (snd kv)) tbl = true ->
    forall x, forallb P x = true -> forallb P (special_all isspace tbl x) = true.
  Proof.
    unfold special_all. induction tbl as [|[kw ch] tbl IH]; intros HT x Hx; simpl; [exact Hx|].
    simpl in HT. apply andb_true_iff in HT as [H1 H2]. apply IH; [exact H2|]. apply special_sub_P; assumption.
  Qed.
End Keep.

Lemma scalar_small v : v <= 255 -> scalar v = true.
Proof.
  intro H. unfold scalar, is_surrogate. apply andb_true_iff; split.
  - apply negb_true_iff. apply andb_false_iff. left. apply N.leb_gt. lia.
  - apply N.leb_le. lia.
Qed.

Lemma valid_small v : v <= 255 -> valid v = true.
Proof. intro H. unfold valid. apply N.leb_le. lia. Qed.

Section Simple.
  Variable decval : N -> option N.
  Variable isspace : N -> bool.
  Variable az_ci : N -> bool.
  Variable T : rtf_tables.

  (* repaired stripper: code points in, UTF-8 encodable text out *)
  Lemma strip_simple_utf8able text out :
    repair T = true -> special_ok T scalar = true -> forallb valid text = true ->
    strip_simple decval isspace az_ci T text = Ok out -> utf8able out = true.
  Proof.
    intros Rp Sp V. unfold strip_simple.
    destruct (usub decval 0 (rig 0 text)) as [v1|] eqn:E; [|discriminate]. simpl. intros [= <-].
    rewrite Rp. unfold utf8able.
    assert (V1 : forallb valid v1 = true).
    { apply (usub_P decval valid valid_land (rig 0 text) 0%nat v1); [|exact E]. apply rig_P. exact V. }
    apply forallb_strip.
    apply (multi_newline_aux_P scalar); [reflexivity|].
    apply (multi_space_P scalar); [reflexivity|].
    apply drop_braces_P. apply ctrl_word_P.
    apply special_all_P; [exact Sp|].
    apply hexsub_P; [exact scalar_small|].
    apply repair_scalar. exact V1.
  Qed.

  (* the only failure is int() refusing more than 4300 digits in a \uN escape *)
  Lemma strip_simple_raises text :
    raises (strip_simple decval isspace az_ci T text) = raises (usub decval 0 (rig 0 text)).
  Proof. unfold strip_simple. destruct (usub decval 0 (rig 0 text)); reflexivity. Qed.
End Simple.

(* ================================================================= info-group values: writer / reader round trip *)
Lemma takeWhile_app_stop {X} (f : X -> bool) ds c rest :
  forallb f ds = true -> f c = false -> takeWhile f (ds ++ c :: rest) = ds /\ dropWhile f (ds ++ c :: rest) = c :: rest.
Proof.
  induction ds as [|d ds IH]; simpl; intros H Hc.
  - rewrite Hc. auto.
  - apply andb_true_iff in H as [Hd Hs]. rewrite Hd. destruct (IH Hs Hc) as [A B]. rewrite A, B. auto.
Qed.

Section RoundTrip.
  Variable decval : N -> option N.
  Variable isspace : N -> bool.
  Variable az_ci : N -> bool.

  (* the oracle does not call '?' or '-' a decimal digit *)
  Definition sane : bool :=
    match decval QMARK, decval MINUS with None, None => true | _, _ => false end.
  Hypothesis Hsane : sane = true.

  Lemma sane_q : isdec decval QMARK = false.
  Proof. unfold sane in Hsane. unfold isdec. destruct (decval QMARK); [discriminate | reflexivity]. Qed.
  Lemma sane_m : decval MINUS = None.
  Proof. unfold sane in Hsane. destruct (decval QMARK); [discriminate|]. destruct (decval MINUS); [discriminate | reflexivity]. Qed.

  Lemma usub_skip a : forall rest, usub decval (length a) (a ++ rest) = usub decval 0 rest.
  Proof. induction a as [|c a IH]; intro rest; [reflexivity|]. simpl. apply IH. Qed.

  Lemma digits_ok_spec ds : digits_ok decval ds = true ->
    ds <> [] /\ forallb (isdec decval) ds = true /\ (4300 <? N.of_nat (length ds)) = false.
  Proof.
    unfold digits_ok. intro H. apply andb_true_iff in H as [H1 H2]. destruct ds as [|d ds]; [discriminate|].
    split; [discriminate|]. split; [exact H1|]. apply N.leb_le in H2. apply N.ltb_ge. exact H2.
  Qed.

  Lemma match_unicode_written (neg : bool) (ds rest : str) : digits_ok decval ds = true ->
    match_unicode decval ((if neg then [MINUS] else []) ++ ds ++ QMARK :: rest)
    = Some (Ok (if neg then (- dec_value decval ds)%Z else dec_value decval ds),
            ((if neg then 1 else 0) + length ds + 1)%nat).
  Proof.
    intro D. destruct (digits_ok_spec ds D) as [NE [AD LE]].
    destruct (takeWhile_app_stop (isdec decval) ds QMARK rest AD sane_q) as [TW DW].
    unfold match_unicode. destruct neg.
    - cbn [app]. rewrite N.eqb_refl. rewrite TW, DW. destruct ds as [|d ds']; [congruence|].
      rewrite N.eqb_refl, LE. reflexivity.
    - cbn [app]. destruct ds as [|d ds']; [congruence|]. cbn [app].
      assert (Hd : (d =? MINUS) = false).
      { destruct (d =? MINUS) eqn:E; [|reflexivity]. apply N.eqb_eq in E. subst d.
        simpl in AD. apply andb_true_iff in AD as [AD _]. unfold isdec in AD. rewrite sane_m in AD. discriminate. }
      rewrite Hd. change (d :: ds' ++ QMARK :: rest) with ((d :: ds') ++ QMARK :: rest). rewrite TW, DW.
      rewrite N.eqb_refl, LE. reflexivity.
  Qed.

  Lemma usub_uni (neg : bool) (ds rest : str) : digits_ok decval ds = true ->
    usub decval 0 (uni_text neg ds ++ rest)
    = bind (usub decval 0 rest) (fun t => Ok (uni_code decval neg ds :: t)).
  Proof.
    intro D. unfold uni_text.
    set (m := if neg then [MINUS] else []).
    assert (E : ([BSL; LETTER_u] ++ m ++ ds ++ [QMARK]) ++ rest = BSL :: LETTER_u :: (m ++ ds ++ QMARK :: rest)).
    { simpl. rewrite <- !app_assoc. reflexivity. }
    rewrite E. clear E.
    assert (U : uni_at decval BSL (LETTER_u :: m ++ ds ++ QMARK :: rest)
                = Some (Ok (if neg then (- dec_value decval ds)%Z else dec_value decval ds),
                        ((if neg then 1 else 0) + length ds + 1)%nat)).
    { unfold uni_at. rewrite !N.eqb_refl. apply match_unicode_written. exact D. }
    cbn [usub]. rewrite U.
    assert (L : m ++ ds ++ QMARK :: rest = (m ++ ds ++ [QMARK]) ++ rest).
    { rewrite <- !app_assoc. reflexivity. }
    rewrite L.
    assert (N : ((if neg then 1 else 0) + length ds + 1)%nat = length (m ++ ds ++ [QMARK])).
    { rewrite !app_length. subst m. destruct neg; simpl; lia. }
    rewrite N. rewrite usub_skip. reflexivity.
  Qed.

  (* stage 1: after the \uN substitution *)
  Definition stage1_tok (t : token) : str :=
    match t with
    | TChar c => [c]
    | THex h1 h2 => [BSL; QUOTE; h1; h2]
    | TUni neg ds => [uni_code decval neg ds]
    | TPair n1 d1 n2 d2 => [uni_code decval n1 d1; uni_code decval n2 d2]
    end.
  Definition stage1 (ts : list token) : str := concat (map stage1_tok ts).

  Lemma quote_not_u : (QUOTE =? LETTER_u) = false. Proof. reflexivity. Qed.

  Lemma usub_written ts : forallb (token_ok decval) ts = true -> usub decval 0 (written ts) = Ok (stage1 ts).
  Proof.
    unfold written, stage1. induction ts as [|t ts IH]; [reflexivity|]. intro H. simpl in H.
    apply andb_true_iff in H as [Ht Hs]. specialize (IH Hs). cbn [map concat]. destruct t as [c|h1 h2|neg ds|n1 d1 n2 d2].
    - cbn [written_tok stage1_tok app usub]. unfold uni_at.
      simpl in Ht. apply andb_true_iff in Ht as [Hp _]. unfold plain_char in Hp.
      destruct (c =? BSL); [discriminate|]. rewrite IH. reflexivity.
    - cbn [written_tok stage1_tok app usub]. unfold uni_at. rewrite N.eqb_refl, quote_not_u.
      cbn [usub]. unfold uni_at. change (QUOTE =? BSL) with false. cbn [usub].
      simpl in Ht. apply andb_true_iff in Ht as [Hh _].
      destruct (ascii_hexval h1) as [a|] eqn:A; [|discriminate]. destruct (ascii_hexval h2) as [b|] eqn:B; [|discriminate].
      assert (N1 : (h1 =? BSL) = false).
      { destruct (h1 =? BSL) eqn:E; [|reflexivity]. apply N.eqb_eq in E; subst. discriminate. }
      assert (N2 : (h2 =? BSL) = false).
      { destruct (h2 =? BSL) eqn:E; [|reflexivity]. apply N.eqb_eq in E; subst. discriminate. }
      unfold uni_at. rewrite N1. cbn [usub]. unfold uni_at. rewrite N2. rewrite IH. reflexivity.
    - cbn [written_tok stage1_tok]. simpl in Ht. apply andb_true_iff in Ht as [Ht _]. apply andb_true_iff in Ht as [D _].
      rewrite usub_uni by exact D. rewrite IH. reflexivity.
    - cbn [written_tok stage1_tok]. simpl in Ht.
      apply andb_true_iff in Ht as [Ht _]. apply andb_true_iff in Ht as [Ht _]. apply andb_true_iff in Ht as [D1 D2].
      rewrite <- app_assoc. rewrite usub_uni by exact D1. rewrite usub_uni by exact D2. rewrite IH. reflexivity.
  Qed.

  (* stage 2: after _repair_surrogates *)
  Definition stage2_tok (t : token) : str :=
    match t with
    | TPair n1 d1 n2 d2 => [combine_pair (uni_code decval n1 d1) (uni_code decval n2 d2)]
    | _ => stage1_tok t
    end.
  Definition stage2 (ts : list token) : str := concat (map stage2_tok ts).

  Lemma repair_plain c rest : is_hi c = false -> is_lo c = false -> repair_surrogates (c :: rest) = c :: repair_surrogates rest.
  Proof. intros A B. cbn [repair_surrogates]. rewrite A, B. reflexivity. Qed.

  Lemma not_sur_small c : c <= 255 -> is_hi c = false /\ is_lo c = false.
  Proof. intro H. unfold is_hi, is_lo. split; apply andb_false_iff; left; apply N.leb_gt; lia. Qed.

  Lemma not_sur c : is_surrogate c = false -> is_hi c = false /\ is_lo c = false.
  Proof.
    unfold is_surrogate, is_hi, is_lo. intro H. apply andb_false_iff in H. split; apply andb_false_iff.
    - destruct H as [H|H]; [left; exact H|]. apply N.leb_gt in H. right. apply N.leb_gt. lia.
    - destruct H as [H|H]; [left; apply N.leb_gt in H; apply N.leb_gt; lia | right; exact H].
  Qed.

  Lemma hexchar_le c a : ascii_hexval c = Some a -> c <= 255.
  Proof.
    unfold ascii_hexval.
    destruct ((48 <=? c) && (c <=? 57)) eqn:E1; [intros _; b2p; lia|].
    destruct ((97 <=? c) && (c <=? 102)) eqn:E2; [intros _; b2p; lia|].
    destruct ((65 <=? c) && (c <=? 70)) eqn:E3; [intros _; b2p; lia | discriminate].
  Qed.

  Lemma repair_stage1 ts : forallb (token_ok decval) ts = true -> repair_surrogates (stage1 ts) = stage2 ts.
  Proof.
    unfold stage1, stage2. induction ts as [|t ts IH]; [reflexivity|]. intro H. simpl in H.
    apply andb_true_iff in H as [Ht Hs]. specialize (IH Hs). cbn [map concat]. destruct t as [c|h1 h2|neg ds|n1 d1 n2 d2].
    - cbn [stage1_tok stage2_tok app]. simpl in Ht. apply andb_true_iff in Ht as [_ Sc].
      destruct (scalar_not_surrogate c Sc) as [A B]. rewrite repair_plain by assumption. rewrite IH. reflexivity.
    - cbn [stage1_tok stage2_tok app]. simpl in Ht. apply andb_true_iff in Ht as [Hh _].
      destruct (ascii_hexval h1) as [a|] eqn:A; [|discriminate]. destruct (ascii_hexval h2) as [b|] eqn:B; [|discriminate].
      destruct (not_sur_small h1 (hexchar_le _ _ A)) as [A1 A2]. destruct (not_sur_small h2 (hexchar_le _ _ B)) as [B1 B2].
      rewrite (repair_plain BSL) by reflexivity. rewrite (repair_plain QUOTE) by reflexivity.
      rewrite (repair_plain h1) by assumption. rewrite (repair_plain h2) by assumption. rewrite IH. reflexivity.
    - cbn [stage1_tok stage2_tok app]. simpl in Ht. apply andb_true_iff in Ht as [_ Ns]. apply negb_true_iff in Ns.
      destruct (not_sur _ Ns) as [A B]. rewrite repair_plain by assumption. rewrite IH. reflexivity.
    - cbn [stage1_tok stage2_tok app]. simpl in Ht.
      apply andb_true_iff in Ht as [Ht Lo]. apply andb_true_iff in Ht as [_ Hi].
      cbn [repair_surrogates]. rewrite Hi, Lo. rewrite IH. reflexivity.
  Qed.

  (* stage 3: after the \'hh substitution = the meaning *)
  Lemma hex_at_plain c r : (c =? BSL) = false -> hex_at c r = None.
  Proof. intro H. unfold hex_at. rewrite H. reflexivity. Qed.

  Lemma plain_not_bsl c : plain_char c = true -> (c =? BSL) = false /\ (c =? LBRACE) = false /\ (c =? RBRACE) = false.
  Proof.
    unfold plain_char. intro H. apply negb_true_iff in H. apply orb_false_iff in H as [H H3].
    apply orb_false_iff in H as [H1 H2]. auto.
  Qed.

  Lemma pair_big h l : is_hi h = true -> is_lo l = true -> 0x10000 <= combine_pair h l.
  Proof. unfold is_hi, is_lo, combine_pair. intros A B. b2p. lia. Qed.

  Lemma tok_meaning_plain t : token_ok decval t = true -> plain_char (meaning_tok decval t) = true.
  Proof.
    destruct t as [c|h1 h2|neg ds|n1 d1 n2 d2]; simpl; intro H.
    - apply andb_true_iff in H as [H _]. exact H.
    - apply andb_true_iff in H as [_ H]. exact H.
    - apply andb_true_iff in H as [H _]. apply andb_true_iff in H as [_ H]. exact H.
    - apply andb_true_iff in H as [H Lo]. apply andb_true_iff in H as [_ Hi].
      pose proof (pair_big _ _ Hi Lo) as B. unfold plain_char. apply negb_true_iff.
      unfold BSL, LBRACE, RBRACE. repeat (apply orb_false_iff; split); apply N.eqb_neq; lia.
  Qed.

  Lemma hexsub_stage2 ts : forallb (token_ok decval) ts = true -> hexsub 0 (stage2 ts) = meaning decval ts.
  Proof.
    unfold stage2, meaning. induction ts as [|t ts IH]; [reflexivity|]. intro H. simpl in H.
    apply andb_true_iff in H as [Ht Hs]. specialize (IH Hs). cbn [map concat].
    pose proof (tok_meaning_plain t Ht) as PL. destruct (plain_not_bsl _ PL) as [NB _].
    destruct t as [c|h1 h2|neg ds|n1 d1 n2 d2]; cbn [stage2_tok stage1_tok app hexsub meaning_tok] in *.
    - rewrite (hex_at_plain c _ NB). rewrite IH. reflexivity.
    - simpl in Ht. apply andb_true_iff in Ht as [Hh _].
      unfold hex_at. rewrite !N.eqb_refl. unfold hex_code.
      destruct (ascii_hexval h1) as [a|]; [|discriminate]. destruct (ascii_hexval h2) as [b|]; [|discriminate].
      cbn [hexsub]. rewrite IH. reflexivity.
    - rewrite (hex_at_plain _ _ NB). rewrite IH. reflexivity.
    - rewrite (hex_at_plain _ _ NB). rewrite IH. reflexivity.
  Qed.

  (* the remaining passes leave a text without \, { and } alone *)
  Lemma tilde_id x : forallb plain_char x = true -> tilde_sub 0 x = x.
  Proof.
    induction x as [|c r IH]; [reflexivity|]. simpl. intro H. apply andb_true_iff in H as [Hc Hr].
    destruct (plain_not_bsl _ Hc) as [NB _]. rewrite NB. simpl. rewrite IH by exact Hr. reflexivity.
  Qed.

  Lemma ctrl_seq_id x : forallb plain_char x = true -> ctrl_seq_sub decval isspace az_ci 0 x = x.
  Proof.
    induction x as [|c r IH]; [reflexivity|]. simpl. intro H. apply andb_true_iff in H as [Hc Hr].
    destruct (plain_not_bsl _ Hc) as [NB _]. rewrite NB. rewrite IH by exact Hr. reflexivity.
  Qed.

  Lemma drop_braces_id x : forallb plain_char x = true -> drop_braces x = x.
  Proof.
    unfold drop_braces. induction x as [|c r IH]; [reflexivity|]. simpl. intro H. apply andb_true_iff in H as [Hc Hr].
    destruct (plain_not_bsl _ Hc) as [_ [N1 N2]]. rewrite N1, N2. simpl. rewrite IH by exact Hr. reflexivity.
  Qed.

  Lemma meaning_plain ts : forallb (token_ok decval) ts = true -> forallb plain_char (meaning decval ts) = true.
  Proof.
    unfold meaning. induction ts as [|t ts IH]; [reflexivity|]. simpl. intro H. apply andb_true_iff in H as [Ht Hs].
    rewrite (tok_meaning_plain t Ht). apply IH. exact Hs.
  Qed.

  Lemma meaning_utf8able ts : forallb (token_ok decval) ts = true -> utf8able (meaning decval ts) = true.
  Proof.
    unfold meaning, utf8able. induction ts as [|t ts IH]; [reflexivity|]. simpl. intro H. apply andb_true_iff in H as [Ht Hs].
    rewrite IH by exact Hs. rewrite andb_true_r.
    destruct t as [c|h1 h2|neg ds|n1 d1 n2 d2]; simpl in *.
    - apply andb_true_iff in Ht as [_ H]. exact H.
    - apply andb_true_iff in Ht as [Hh _]. unfold hex_code.
      destruct (ascii_hexval h1) as [a|] eqn:A; [|discriminate]. destruct (ascii_hexval h2) as [b|] eqn:B; [|discriminate].
      apply scalar_small. apply (ascii_hexval_le) in A. apply ascii_hexval_le in B. lia.
    - apply andb_true_iff in Ht as [_ Ns]. apply negb_true_iff in Ns. destruct (not_sur _ Ns) as [A B].
      apply scalar_of_valid; try assumption. apply valid_land.
    - apply andb_true_iff in Ht as [Ht Lo]. apply andb_true_iff in Ht as [_ Hi]. apply scalar_combine; assumption.
  Qed.

  (* the repaired reader returns exactly what the writer meant *)
  Lemma info_round_trip ts :
    forallb (token_ok decval) ts = true ->
    str_eqb (strip isspace (written ts)) (written ts) = true ->
    str_eqb (strip isspace (meaning decval ts)) (meaning decval ts) = true ->
    info_value decval isspace az_ci true true (written ts) = Ok (meaning decval ts).
  Proof.
    intros OK S1 S2. apply str_eqb_eq in S1. apply str_eqb_eq in S2.
    unfold info_value. rewrite S1. rewrite (usub_written ts OK). cbn [bind andb].
    rewrite (repair_stage1 ts OK). rewrite (hexsub_stage2 ts OK).
    pose proof (meaning_plain ts OK) as PL.
    rewrite (tilde_id _ PL), (ctrl_seq_id _ PL), (drop_braces_id _ PL), S2. reflexivity.
  Qed.
End RoundTrip.
