(* C04 — executable models of the property readers that sit on a third-party record.  Definitions only.
     doc_extractor   …get_metadata        (olefile get_metadata(): title, author, subject, keywords)
     ppt_extractor._extract_metadata      (title, subject, author, keywords, comments)
     xls_extractor._read_metadata         (title, author, subject)
     xlsx_extractor._extract_metadata_from_workbook   (openpyxl wb.properties: title, creator, keywords, description)
   Oracles: the record itself (what olefile / openpyxl parsed), bytes.decode.  An OLE string property arrives as
   raw bytes in the property set's code page (VT_LPSTR), as str (VT_LPWSTR), as None (absent) or as another object.
   Variant `cp_aware` (fixes/C04-ole-summary-codepage.patch): bytes are decoded with the recorded code page and
   errors="replace" by util/ole_text.decode_ole_text; before, DOC/PPT decoded as UTF-8 with replacement and XLS
   decoded as strict UTF-8 (UnicodeDecodeError on ANSI text; AttributeError on a str). *)
From S2T Require Import Lib.PyStr C04.Model C04.ModelMeta.
From Coq Require Import List NArith ZArith Bool.
Import ListNotations.
Open Scope N_scope.

Inductive oval :=
  | ONone
  | OBytes (b : list N)
  | OStr (x : str)
  | OOther (truthy : bool) (shown : str).     (* any other object: bool(v), str(v) *)

Record ole_meta := {
  o_cp : Z;                                    (* codepage as recorded (signed 16-bit; 0 when absent) *)
  o_title : oval; o_author : oval; o_subject : oval; o_keywords : oval; o_comments : oval }.

Section Summary.
  Variable decode : Z -> list N -> str.        (* b.decode(<codec of code page>, errors="replace") *)
  Variable utf8_strict : list N -> option str. (* b.decode("utf-8"); None = UnicodeDecodeError *)
  Variable cp_aware : bool.

  Definition UTF8 : Z := 65001.

  (* decode_ole_text / the local decode helpers of DOC and PPT *)
  Definition lenient (cp : Z) (v : oval) : str :=
    match v with
    | ONone => []
    | OBytes b => decode (if cp_aware then cp else UTF8) b
    | OStr x => x
    | OOther t shown => if t then shown else []
    end.

  (* XLS: `val.decode("utf-8") if val else ""` before the repair *)
  Definition xls_decode (cp : Z) (v : oval) : result str :=
    if cp_aware then Ok (lenient cp v)
    else match v with
         | ONone | OBytes [] | OStr [] | OOther false _ => Ok []
         | OBytes b => match utf8_strict b with Some x => Ok x | None => Raise UnicodeDecodeError end
         | OStr _ | OOther true _ => Raise AttributeError
         end.

  Definition doc_props (m : ole_meta) : props :=
    {| p_title := lenient (o_cp m) (o_title m); p_author := lenient (o_cp m) (o_author m);
       p_subject := lenient (o_cp m) (o_subject m); p_keywords := lenient (o_cp m) (o_keywords m); p_description := [] |}.

  Definition ppt_props (m : ole_meta) : props :=
    {| p_title := lenient (o_cp m) (o_title m); p_author := lenient (o_cp m) (o_author m);
       p_subject := lenient (o_cp m) (o_subject m); p_keywords := lenient (o_cp m) (o_keywords m);
       p_description := lenient (o_cp m) (o_comments m) |}.

  (* XlsMetadata(title=decode(meta.title), author=decode(meta.author), subject=decode(meta.subject), …) *)
  Definition xls_props (m : ole_meta) : result props :=
    bind (xls_decode (o_cp m) (o_title m)) (fun t =>
    bind (xls_decode (o_cp m) (o_author m)) (fun a =>
    bind (xls_decode (o_cp m) (o_subject m)) (fun s_ =>
    Ok {| p_title := t; p_author := a; p_subject := s_; p_keywords := []; p_description := [] |}))).
End Summary.

(* openpyxl DocumentProperties: every text field is None or str;  `props.x or ""` *)
Record xlsx_properties := { x_title : option str; x_creator : option str; x_keywords : option str; x_description : option str }.
Definition xlsx_props (p : xlsx_properties) : props :=
  {| p_title := or_empty (x_title p); p_author := or_empty (x_creator p); p_subject := [];
     p_keywords := or_empty (x_keywords p); p_description := or_empty (x_description p) |}.
