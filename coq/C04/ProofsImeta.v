(* C04 — ImageMetadata: attribute view and dict view stay in step under every sequence of assignments. *)
From S2T Require Import Lib.PyStr C04.Model C04.ModelImeta.
From Coq Require Import List NArith ZArith Bool.
Import ListNotations.
Open Scope N_scope.

Lemma assoc_map_set {A} k v (d : list (str * A)) k' :
  assoc k' (map (fun kv => if str_eqb (fst kv) k then (k, v) else kv) d)
  = if str_eqb k' k then (match assoc k' d with Some _ => Some v | None => None end) else assoc k' d.
Proof.
  induction d as [|[a b] d IH]; simpl.
  - destruct (str_eqb k' k); reflexivity.
  - destruct (str_eqb a k) eqn:E1; simpl.
    + apply str_eqb_eq in E1; subst a. destruct (str_eqb k' k) eqn:E2; [reflexivity | exact IH].
    + destruct (str_eqb k' a) eqn:E3.
      * apply str_eqb_eq in E3; subst a. rewrite E1. reflexivity.
      * exact IH.
Qed.

Lemma assoc_app_new {A} k (v : A) d k' : assoc k d = None ->
  assoc k' (d ++ [(k, v)]) = match assoc k' d with Some x => Some x | None => if str_eqb k' k then Some v else None end.
Proof.
  intro H. induction d as [|[a b] d IH]; simpl.
  - destruct (str_eqb k' k); reflexivity.
  - simpl in H. destruct (str_eqb k a) eqn:E; [discriminate|].
    destruct (str_eqb k' a); [reflexivity | apply IH; exact H].
Qed.

Lemma dict_set_same k v d : assoc k (dict_set k v d) = Some v.
Proof.
  unfold dict_set, has_key. destruct (assoc k d) eqn:E.
  - rewrite assoc_map_set, str_eqb_refl, E. reflexivity.
  - rewrite (assoc_app_new k v d k E), E, str_eqb_refl. reflexivity.
Qed.

Lemma dict_set_other k v d k' : str_eqb k' k = false -> assoc k' (dict_set k v d) = assoc k' d.
Proof.
  intro N. unfold dict_set, has_key. destruct (assoc k d) eqn:E.
  - rewrite assoc_map_set, N. reflexivity.
  - rewrite (assoc_app_new k v d k' E), N. destruct (assoc k' d); reflexivity.
Qed.

Lemma fld_name_inj f g : str_eqb (fld_name f) (fld_name g) = true -> f = g.
Proof. destruct f, g; simpl; intro H; try reflexivity; discriminate. Qed.

Lemma fld_of_key_name f : fld_of_key (fld_name f) = Some f.
Proof. destruct f; reflexivity. Qed.

Lemma fld_of_key_some k f : fld_of_key k = Some f -> k = fld_name f.
Proof.
  unfold fld_of_key. intro H. apply find_some in H as [_ H]. apply str_eqb_eq in H. exact H.
Qed.

Lemma fld_of_key_none k f : fld_of_key k = None -> str_eqb (fld_name f) k = false.
Proof.
  unfold fld_of_key. intro H. destruct (str_eqb (fld_name f) k) eqn:E; [|reflexivity].
  apply str_eqb_eq in E. subst k. assert (I : In f all_flds) by (destruct f; simpl; tauto).
  pose proof (find_none _ _ H f I) as N. simpl in N. rewrite str_eqb_refl in N. discriminate.
Qed.

Lemma attr_set_same f v x : attr f (set_attr_only f v x) = v.
Proof. destruct f; reflexivity. Qed.
Lemma attr_set_other f g v x : f <> g -> attr g (set_attr_only f v x) = attr g x.
Proof. destruct f, g; intro H; try reflexivity; congruence. Qed.
Lemma items_set_attr f v x : d_items (set_attr_only f v x) = d_items x.
Proof. destruct f; reflexivity. Qed.
Lemma attr_set_items g d x : attr g (set_items d x) = attr g x.
Proof. destruct g; reflexivity. Qed.

Lemma fld_eq_dec (f g : fld) : {f = g} + {f <> g}.
Proof. decide equality. Qed.

Lemma setattr_field_synced f v x : synced x -> synced (setattr_field f v x).
Proof.
  intros S g. unfold setattr_field. cbn [d_items set_items]. rewrite attr_set_items, items_set_attr.
  destruct (fld_eq_dec f g) as [<-|N].
  - rewrite dict_set_same, attr_set_same. reflexivity.
  - rewrite dict_set_other.
    + rewrite attr_set_other by exact N. apply S.
    + destruct (str_eqb (fld_name g) (fld_name f)) eqn:E; [|reflexivity]. apply fld_name_inj in E. congruence.
Qed.

Lemma apply_op_synced x o : synced x -> synced (apply_op x o).
Proof.
  intro S. destruct o as [f v|v|k v|v|v]; cbn [apply_op]; try (apply setattr_field_synced; exact S); [exact S|].
  destruct (fld_of_key k) as [f|] eqn:E.
  - apply fld_of_key_some in E. subst k. exact (setattr_field_synced f v x S) || idtac.
    intro g. rewrite items_set_attr. cbn [d_items set_items].
    destruct (fld_eq_dec f g) as [<-|N].
    + rewrite dict_set_same, attr_set_same. reflexivity.
    + rewrite dict_set_other.
      * rewrite attr_set_other by exact N. rewrite attr_set_items. apply S.
      * destruct (str_eqb (fld_name g) (fld_name f)) eqn:E2; [|reflexivity]. apply fld_name_inj in E2. congruence.
  - intro g. cbn [d_items set_items]. rewrite attr_set_items. rewrite dict_set_other by (apply fld_of_key_none; exact E). apply S.
Qed.

Lemma im_new_synced u n c w h : synced (im_new u n c w h).
Proof. intro f. destruct f; reflexivity. Qed.

Lemma run_ops_synced ops : forall x, synced x -> synced (run_ops x ops).
Proof.
  unfold run_ops. induction ops as [|o ops IH]; intros x S; simpl; [exact S|]. apply IH. apply apply_op_synced. exact S.
Qed.
