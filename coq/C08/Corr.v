(* C08 — correspondence helpers: evaluate the models on views recorded from the real libraries and
   compare with the implementation's answer. *)
From Coq Require Import ZArith List Bool NArith.
From S2T Require Import Lib.PyStr C08.Model C08.Pad.
Import ListNotations.
Open Scope N_scope.

(* str.lower restricted to ASCII (the harness only generates ASCII stream names) *)
Definition ascii_lower (x : str) : str := map (fun c => if (65 <=? c) && (c <=? 90) then c + 32 else c) x.

Inductive ccase :=
| CXls (v : option xls_view) (impl : bool)            (* is_xls_encrypted *)
| COoxml (es : option (list str)) (impl : bool)        (* is_ooxml_encrypted *)
| CPpt (aware : bool) (es : option (list str)) (token : option N) (impl : bool)   (* is_ppt_encrypted *)
| CDoc (wd : bytes) (impl : N)                         (* read_doc: 0 encrypted, 1 rejected as not-a-doc, 2 went on *)
| COdf (v : odf_view) (impl : bool)                    (* is_odf_encrypted *)
| CZip (ms : list zmember) (n : nat) (impl : N)        (* _extract_from_zip: results before the end, 0 done / 1 encrypted / 2 other error *)
| C7z (v : sz_view) (impl : bool)                      (* read_archive raised the encrypted error *)
| CEpub (v : epub_view) (impl : bool)                  (* _is_epub_encrypted *)
| CPdf (v : pdf_view) (impl : bool)                    (* read_pdf raised the encrypted error *)
| CPad (bs : nat) (d : bytes) (impl : bytes)           (* _pkcs7_pad *)
| CUnpad (bs : nat) (d : bytes) (impl : option bytes)  (* _pkcs7_unpad; None = ValueError *)
| CAtt (l : list att) (n : nat) (enc : bool)
| CPdfStep (e : pdf_env) (installed0 : bool) (impl : N) (installed : bool).  (* 0 dependency / 1 rejected / 2 pages; AES installed afterwards *)         (* one invocation of iterate_supported_attachments *)

Definition doc_code (r : doc_res) : N := match r with DocEncrypted => 0 | DocNotDoc => 1 | DocContinue => 2 end.
Definition zout_code (o : zout) : N := match o with ZDone => 0 | ZEncrypted => 1 | ZFailed => 2 end.

(* legacy = true: the code before fixes/C08-*.patch (used only to explain a disagreement) *)
Definition corr_case_gen (legacy : bool) (c : ccase) : bool :=
  match c with
  | CXls v impl => Bool.eqb (xls_detect ascii_lower v) impl
  | COoxml es impl => Bool.eqb (ooxml_detect ascii_lower es) impl
  | CPpt aware es token impl => Bool.eqb (ppt_detect_tok ascii_lower aware es token) impl
  | CDoc wd impl => doc_code (doc_check wd) =? impl
  | COdf v impl => Bool.eqb (odf_detect v) impl
  | CZip ms n impl =>
      let '(k, o) := zip_run_gen legacy ms in Nat.eqb k n && (zout_code o =? impl)
  | C7z v impl =>
      Bool.eqb (match sz_open_gen legacy v with SzEncrypted => true | _ => false end) impl
  | CEpub v impl => Bool.eqb (epub_detect_gen legacy v) impl
  | CPdf v impl => Bool.eqb (pdf_detect v) impl
  | CPad bs d impl => str_eqb (pkcs7_pad bs d) impl
  | CPdfStep e i0 impl inst =>
      match pdf_decide true e i0 with
      | PdfDependency => impl =? 0
      | PdfRejected i => (impl =? 1) && Bool.eqb i inst
      | PdfPages i => (impl =? 2) && Bool.eqb i inst
      end
  | CAtt l n enc => let '(k, e) := att_run l in Nat.eqb k n && Bool.eqb e enc
  | CUnpad bs d impl =>
      match pkcs7_unpad bs d, impl with
      | UOk x, Some y => str_eqb x y
      | UErr, None => true
      | _, _ => false
      end
  end.
Definition corr_case := corr_case_gen false.
Definition corr_case_legacy := corr_case_gen true.
