(* C08 — 7z: the encrypted / not-encrypted decision FROM THE ARCHIVE BYTES.
   The byte-level header parser of util/sevenzip.py and the 7z path of read_archive are modelled (and tied to the
   code by its own correspondence) in C10 (C10/Parse.v parse_7z, C10/Ser.v read_7z_bytes); here the C08 statement is
   proved over that model, so the 7z header parser is no longer an oracle of C08's theorem. *)
From Coq Require Import ZArith List Bool Lia.
From S2T Require Import Lib.PyStr C10.Model C10.Spec C10.Parse C10.Ser C10.RoundTrip C08.Model.
Import ListNotations.
Open Scope N_scope.

(* C10's needs_password over parsed folders is C08's coder-id scan *)
Definition folder_ids (f : C10.Model.folder) : C08.Model.folder := map c_id (f_coders f).

Lemma needs_password_ids (T : tables) (fl : list C10.Model.folder) :
  aes_prefix T = AES_PREFIX -> C10.Model.needs_password T fl = has_aes (map folder_ids fl).
Proof.
  intro HT. unfold C10.Model.needs_password, has_aes. rewrite HT.
  induction fl as [|f fl IH]; [reflexivity|]. cbn [existsb map]. rewrite IH. f_equal.
  unfold folder_ids. induction (f_coders f) as [|c cs IHc]; [reflexivity|]. cbn [existsb map]. rewrite IHc. reflexivity.
Qed.

Section FromBytes.
  Variable R : Type.
  Variable T : tables.
  Variable lzma_alone : bytes -> option N -> bytes -> dres.
  Variable lzma2_raw : N -> bytes -> dres.
  Variable crc32 : bytes -> N.
  Variable supported : str -> bool.
  Variable lower : str -> str.
  Variable extract : str -> bytes -> str -> list R.

  Let run := read_7z_bytes R T lzma_alone lzma2_raw crc32 supported lower extract.

  (* plain (not encoded) header: the outcome is the encrypted error exactly when some coder of some folder
     starts with the AES id — and then nothing is yielded *)
  Lemma sevenz_bytes_decision h crcs ef wa area apath :
    aes_prefix T = AES_PREFIX ->
    wf_header h crcs ef wa = true ->
    wf_archive crc32 area (ser_header h crcs ef wa) = true ->
    (max_7z T <? lenN (archive_bytes crc32 area (ser_header h crcs ef wa))) = false ->
    let file := archive_bytes crc32 area (ser_header h crcs ef wa) in
    (fin (run file apath) = Raise Encrypted <-> has_aes (map folder_ids (h_folders h)) = true)
    /\ (has_aes (map folder_ids (h_folders h)) = true -> yields (run file apath) = []).
  Proof.
    intros HT Hwf Harch Hsize file. subst run file. unfold read_7z_bytes. rewrite Hsize.
    destruct (parse_7z_rt T lzma_alone lzma2_raw crc32 h crcs ef wa area Hwf Harch) as [st [S1 S2]].
    rewrite S2. unfold state_of in S1.
    destruct (file_sizes rev_new (h_folders h) (h_ss h)) as [sz|]; [|discriminate].
    inversion S1; subst st; clear S1. unfold read_7z_state. cbn [p_folders p_pack p_files p_sizes p_nstreams].
    rewrite (needs_password_ids T (h_folders h) HT).
    destruct (has_aes (map folder_ids (h_folders h))) eqn:E.
    - cbn [fin yields]. split; [split; reflexivity | reflexivity].
    - split; [|discriminate]. split; [|discriminate].
      match goal with |- fin (match ?x with _ => _ end) = _ -> _ => destruct x end; cbn [fin]; discriminate.
  Qed.

  (* whatever the header looks like: when the reader raises Encrypted7zError while opening (AES coder in the
     encoded header's folder), the outcome is the encrypted error with nothing yielded *)
  Lemma sevenz_bytes_encoded_header file apath :
    (max_7z T <? lenN file) = false -> parse_7z T lzma_alone lzma2_raw crc32 file = PEnc ->
    run file apath = {| yields := []; fin := Raise Encrypted |}.
  Proof. intros Hs Hp. subst run. unfold read_7z_bytes. rewrite Hs, Hp. reflexivity. Qed.
End FromBytes.
