(* C08 — executable models of the encryption detectors (definitions only).
   Container parsing (olefile, zipfile, ElementTree, pypdf, the 7z header parser) is an ORACLE:
   the models take the parsed view (directory listing, stream bytes, member list, element tree,
   folder/coder lists, pypdf's answers) as input.  What is modelled is the decision logic written
   in the repository:
     util/encryption.py   is_ooxml_encrypted, is_odf_encrypted, is_xls_encrypted, is_ppt_encrypted
     doc_extractor.py     _DocReader._parse_content (size, magic, FIB flag)
     archive_extractor.py _extract_from_zip_optimized (two passes), _extract_from_7z_optimized
     util/sevenzip.py     needs_password, _apply_decoder on an encoded header
     epub_extractor.py    _is_epub_encrypted
     pdf_extractor.py     read_pdf's decrypt('') test *)
From Coq Require Import ZArith List Bool Lia NArith.
From S2T Require Import Lib.PyStr.
Import ListNotations.
Open Scope N_scope.

Definition bytes := list N.

(* ------------------------------------------------------------------ BIFF record walk (FILEPASS) *)
Inductive wres := Found | NotFound | OutOfFuel.

Definition le16 (a b : N) : N := a + 256 * b.
Definition FILEPASS : N := 47.  (* 0x002F *)

(* d = data[offset:].  `while offset + 4 <= data_len` <=> at least four bytes remain *)
Fixpoint walk (fuel : nat) (d : bytes) : wres :=
  match fuel with
  | O => OutOfFuel
  | S f =>
      match d with
      | a :: b :: c :: e :: rest =>
          if le16 a b =? FILEPASS then Found
          else walk f (skipn (N.to_nat (le16 c e)) rest)
      | _ => NotFound
      end
  end.

Definition biff_fuel (d : bytes) : nat := S (List.length d).
Definition biff_detect (d : bytes) : bool :=
  match walk (biff_fuel d) d with Found => true | _ => false end.

(* a BIFF record and its serialisation *)
Record brec := { rid : N; payload : bytes }.
Definition plen (r : brec) : N := N.of_nat (List.length (payload r)).
Definition ser_rec (r : brec) : bytes :=
  [rid r mod 256; rid r / 256; plen r mod 256; plen r / 256] ++ payload r.
Definition ser (rs : list brec) : bytes := flat_map ser_rec rs.
Definition wf_rec (r : brec) : bool := (rid r <? 65536) && (plen r <? 65536).
Definition is_filepass (r : brec) : bool := rid r =? FILEPASS.

(* ------------------------------------------------------------------ OLE directory predicates *)
Section OLE.
  Variable lower : str -> str.     (* str.lower, oracle: olefile compares lower-cased names *)

  (* entries: names of the root storage's children (streams and storages) *)
  Definition ole_exists (entries : list str) (name : str) : bool :=
    existsb (fun e => str_eqb (lower e) (lower name)) entries.

  Definition ENC_STREAMS : list str := [s "EncryptionInfo"; s "EncryptedPackage"; s "DataSpaces"].
  Definition PPT_STREAMS : list str := [s "EncryptedSummary"; s "EncryptedSummaryInformation"].

  Definition has_ole_encryption_stream (entries : list str) : bool :=
    existsb (ole_exists entries) ENC_STREAMS.

  (* None = not an OLE file (olefile.isOleFile false) *)
  Definition ooxml_detect (ole : option (list str)) : bool :=
    match ole with None => false | Some es => has_ole_encryption_stream es end.

  Definition ppt_detect (ole : option (list str)) : bool :=
    match ole with
    | None => false
    | Some es => has_ole_encryption_stream es || existsb (ole_exists es) PPT_STREAMS
    end.

  (* [MS-PPT] 2.3.2: CurrentUserAtom.headerToken (bytes 12..15 of the "Current User" stream) is 0xF3D1C4DF
     for an encrypted document — with or without an EncryptedSummary stream.  `aware` = the detector
     looks at it (proposed repair fixes/proposed-not-applied/C08-ppt-encrypted-header-token.patch);
     today's code does not (aware = false).  token = None: no/short "Current User" stream. *)
  Definition PPT_ENCRYPTED_TOKEN : N := 4090610911.   (* 0xF3D1C4DF *)
  Definition token_encrypted (token : option N) : bool :=
    match token with Some t => t =? PPT_ENCRYPTED_TOKEN | None => false end.
  Definition ppt_detect_tok (aware : bool) (ole : option (list str)) (token : option N) : bool :=
    ppt_detect ole || (aware && match ole with Some _ => token_encrypted token | None => false end).

  (* xls: the stream that openstream returns for "Workbook", else for "Book" *)
  Record xls_view := { x_entries : list str; x_workbook : bytes; x_book : bytes }.
  Definition xls_detect (ole : option xls_view) : bool :=
    match ole with
    | None => false
    | Some v =>
        if ole_exists (x_entries v) (s "Workbook") then biff_detect (x_workbook v)
        else if ole_exists (x_entries v) (s "Book") then biff_detect (x_book v)
        else false
    end.
End OLE.

(* ------------------------------------------------------------------ DOC: FIB *)
Inductive doc_res := DocEncrypted | DocNotDoc | DocContinue.
Definition MIN_DOC_SIZE : nat := 512.
Definition byte_at (d : bytes) (i : nat) : N := nth i d 0.
Definition word16 (d : bytes) (i : nat) : N := le16 (byte_at d i) (byte_at d (S i)).
Definition doc_check (wd : bytes) : doc_res :=
  if (List.length wd <? MIN_DOC_SIZE)%nat then DocNotDoc
  else if negb ((word16 wd 0 =? 42476) || (word16 wd 0 =? 42460)) then DocNotDoc   (* 0xA5EC / 0xA5DC *)
  else if negb (N.land (word16 wd 10) 256 =? 0) then DocEncrypted
  else DocContinue.

(* ------------------------------------------------------------------ XML view (ElementTree oracle) *)
Inductive xml := El (ns : str) (local : str) (attrs : list (str * str)) (kids : list xml).
Definition x_ns (x : xml) := match x with El n _ _ _ => n end.
Definition x_local (x : xml) := match x with El _ l _ _ => l end.
Definition x_attrs (x : xml) := match x with El _ _ a _ => a end.
Definition x_kids (x : xml) := match x with El _ _ _ k => k end.

(* proper descendants in document order (root.iter() minus the root; `.//tag` candidates) *)
Fixpoint desc (x : xml) : list xml :=
  match x with
  | El _ _ _ ks => (fix go (l : list xml) : list xml :=
                      match l with [] => [] | k :: r => k :: desc k ++ go r end) ks
  end.
Definition desc_list := fix go (l : list xml) : list xml :=
  match l with [] => [] | k :: r => k :: desc k ++ go r end.
Definition iter_all (x : xml) : list xml := x :: desc x.

(* ------------------------------------------------------------------ ODF manifest (REPAIRED code:
   fixes/C08-odf-manifest-elements.patch — parse META-INF/manifest.xml, look for an element whose
   local name is encryption-data) *)
Inductive odf_view :=
| OdfNotZip                      (* zipfile.is_zipfile false *)
| OdfNoManifest                  (* KeyError *)
| OdfBadManifest                 (* XML parse error *)
| OdfManifest (root : xml).
Definition is_encdata (x : xml) : bool := str_eqb (x_local x) (s "encryption-data").
Definition odf_detect (v : odf_view) : bool :=
  match v with
  | OdfManifest root => existsb is_encdata (iter_all root)
  | _ => false
  end.

(* the code before the repair: substring test on the decoded manifest text *)
Fixpoint contains (x p : str) : bool :=
  startswith x p || match x with [] => false | _ :: r => contains r p end.
Definition odf_detect_legacy (manifest_text : str) : bool :=
  contains manifest_text (s "encryption-data") || contains manifest_text (s "manifest:encrypted")
  || contains manifest_text (s "manifest:algorithm").

(* ------------------------------------------------------------------ ZIP (two passes) *)
Inductive zread :=
| ZOk (n : nat)              (* member read and processed: n results yielded (errors of the member swallowed) *)
| ZRuntime                   (* zf.read raises RuntimeError proper: encrypted member, no password *)
| ZNotImpl                   (* zf.read raises NotImplementedError: unsupported compression / flag *)
| ZOther.                    (* any other exception of zf.read (BadZipFile, zlib.error, ...): member skipped *)
Record zmember := { z_dir : bool; z_flags : N; z_skip : bool; z_big : bool; z_read : zread }.
Inductive zout := ZDone | ZEncrypted | ZFailed.

Definition z_encrypted (m : zmember) : bool := negb (z_dir m) && N.testbit (z_flags m) 0.

(* pass 1: `for info in zf.infolist()` — None when the encrypted error is raised *)
Fixpoint zip_pass1 (ms : list zmember) : option (list zmember) :=
  match ms with
  | [] => Some []
  | m :: r =>
      if z_dir m then zip_pass1 r
      else if negb (N.land (z_flags m) 1 =? 0) then None
      else match zip_pass1 r with
           | None => None
           | Some l => Some (if z_skip m then l else m :: l)
           end
  end.

(* pass 2 (REPAIRED code, fixes/C08-zip-notimplemented.patch: NotImplementedError is a failure
   of that member, not "encrypted") -> (results yielded, outcome) *)
Fixpoint zip_pass2 (notimpl_is_encrypted : bool) (l : list zmember) : nat * zout :=
  match l with
  | [] => (O, ZDone)
  | m :: r =>
      if z_big m then zip_pass2 notimpl_is_encrypted r
      else match z_read m with
           | ZOk n => let '(k, o) := zip_pass2 notimpl_is_encrypted r in ((n + k)%nat, o)
           | ZRuntime => (O, ZEncrypted)
           | ZNotImpl => if notimpl_is_encrypted then (O, ZEncrypted) else (O, ZFailed)
           | ZOther => zip_pass2 notimpl_is_encrypted r     (* corrupt member: warning, next member *)
           end
  end.

Definition zip_run_gen (legacy : bool) (ms : list zmember) : nat * zout :=
  match zip_pass1 ms with
  | None => (O, ZEncrypted)
  | Some l => zip_pass2 legacy l
  end.
Definition zip_run := zip_run_gen false.          (* repaired code *)
Definition zip_run_legacy := zip_run_gen true.    (* code before the repair *)

(* ------------------------------------------------------------------ 7z *)
Definition AES_PREFIX : bytes := [6; 241; 7].   (* 06 F1 07 *)
Definition folder := list bytes.                 (* coder ids of one folder *)
Definition has_aes (fs : list folder) : bool := existsb (existsb (fun c => startswith c AES_PREFIX)) fs.
Definition needs_password := has_aes.

(* hdr: folders of the EncodedHeader's streams info (None: plain header); main: folders of the archive *)
Record sz_view := { sz_hdr : option (list folder); sz_main : list folder }.
Inductive sz_res := SzEncrypted | SzFailed | SzContinue.
(* first folder of the encoded header is decoded while opening; REPAIRED code
   (fixes/C08-7z-encrypted-header.patch): an AES coder there is "encrypted", not "invalid archive" *)
Definition sz_open_gen (legacy : bool) (v : sz_view) : sz_res :=
  match sz_hdr v with
  | Some (f :: _) =>
      (* coders are applied in reverse order; the first one that is not decodable decides *)
      if existsb (fun c => startswith c AES_PREFIX) f then (if legacy then SzFailed else SzEncrypted)
      else if needs_password (sz_main v) then SzEncrypted else SzContinue
  | Some [] => SzFailed
  | None => if needs_password (sz_main v) then SzEncrypted else SzContinue
  end.
Definition sz_open := sz_open_gen false.
Definition sz_open_legacy := sz_open_gen true.

(* ------------------------------------------------------------------ EPUB *)
Definition XMLENC : str := s "http://www.w3.org/2001/04/xmlenc#".
Definition is_encrypted_data (x : xml) : bool :=
  str_eqb (x_ns x) XMLENC && str_eqb (x_local x) (s "EncryptedData").
Definition is_encryption_method (x : xml) : bool :=
  str_eqb (x_ns x) XMLENC && str_eqb (x_local x) (s "EncryptionMethod").
(* font obfuscation (IDPF / Adobe) is not DRM: REPAIRED code, fixes/C08-epub-font-obfuscation.patch *)
Definition OBFUSCATION : list str :=
  [s "http://www.idpf.org/2008/embedding"; s "http://ns.adobe.com/pdf/enc#RC"].
(* algorithm of an EncryptedData: Algorithm attribute of its first EncryptionMethod child (find) *)
Definition enc_algorithm (x : xml) : option str :=
  match filter is_encryption_method (x_kids x) with
  | m :: _ => assoc (s "Algorithm") (x_attrs m)
  | [] => None
  end.
Definition is_obfuscation_only (x : xml) : bool :=
  match enc_algorithm x with Some a => mem_str a OBFUSCATION | None => false end.
Definition counts_as_drm (legacy : bool) (x : xml) : bool :=
  is_encrypted_data x && (legacy || negb (is_obfuscation_only x)).

Inductive encxml := EncAbsent | EncUnparsable | EncRoot (root : xml).
Record epub_view := { e_encxml : encxml; e_rights : bool }.
Definition epub_detect_gen (legacy : bool) (v : epub_view) : bool :=
  (match e_encxml v with
   | EncRoot root => existsb (counts_as_drm legacy) (desc root)
   | _ => false
   end) || e_rights v.
Definition epub_detect := epub_detect_gen false.
Definition epub_detect_legacy := epub_detect_gen true.

(* ------------------------------------------------------------------ PDF *)
Inductive decrypt_res := DecRaises | DecReturns (n : N).   (* PasswordType: 0 = not decrypted, 1 user, 2 owner *)
Record pdf_view := { p_is_encrypted : bool; p_decrypt_empty : decrypt_res }.
Definition pdf_detect (v : pdf_view) : bool :=
  p_is_encrypted v && match p_decrypt_empty v with DecRaises => true | DecReturns n => n =? 0 end.

(* ------------------------------------------------------------------ e-mail attachments (data_types.py:
   EmailContent.iterate_supported_attachments) — the fourth entry point.  Per attachment the router and
   the attachment's extractor are oracles: *)
Inductive att :=
| AtSkip                 (* type not supported: skipped *)
| AtOk (n : nat)         (* extractor yields n results *)
| AtFail (n : nat)       (* n results, then another exception: logged, next attachment *)
| AtEnc (n : nat).       (* n results (0 for every guarded extractor), then ExtractionFileEncryptedError: re-raised *)
Definition att_is_enc (a : att) : bool := match a with AtEnc _ => true | _ => false end.
Definition att_yields (a : att) : nat := match a with AtSkip => O | AtOk n | AtFail n | AtEnc n => n end.
(* (results yielded, encrypted error raised); the function has no state: every invocation is this one *)
Fixpoint att_run (l : list att) : nat * bool :=
  match l with
  | [] => (O, false)
  | AtEnc n :: _ => (n, true)
  | a :: r => let '(k, e) := att_run r in ((att_yields a + k)%nat, e)
  end.

(* ------------------------------------------------------------------ PDF: _open_pdf_reader + read_pdf's decision, with the
   process-wide state "the pure-python AES is installed in pypdf's fallback provider".  Oracles (pypdf):
   ctor_needs_aes = PdfReader(file) raises DependencyError("... AES algorithm ...") while AES is not installed
   (revision 5/6 documents verify the empty password with AES in the constructor; AESV2 documents do not);
   on_fallback = patch_pypdf_fallback_aes() returns True (pypdf runs on its pure-python provider). *)
Record pdf_env := { ctor_needs_aes : bool; on_fallback : bool; pe_view : pdf_view }.
Inductive pdf_step :=
| PdfDependency                 (* DependencyError propagates (-> ExtractionFailedError) *)
| PdfRejected (installed : bool)  (* ExtractionFileEncryptedError *)
| PdfPages (installed : bool).    (* goes on to read the pages, AES installed or not *)
(* proactive = true: today's code (installs the fallback for every encrypted document that opened) *)
Definition pdf_open (proactive : bool) (e : pdf_env) (installed0 : bool) : option bool :=
  if ctor_needs_aes e && negb installed0
  then (if on_fallback e then Some true else None)
  else Some (installed0 || (proactive && p_is_encrypted (pe_view e) && on_fallback e)).
Definition pdf_decide (proactive : bool) (e : pdf_env) (installed0 : bool) : pdf_step :=
  match pdf_open proactive e installed0 with
  | None => PdfDependency
  | Some inst => if pdf_detect (pe_view e) then PdfRejected inst else PdfPages inst
  end.
