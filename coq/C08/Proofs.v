(* C08 — lemmas about the detector models. *)
From Coq Require Import ZArith List Bool Lia ZifyBool NArith.
From S2T Require Import Lib.PyStr C08.Model.
Import ListNotations.
Open Scope N_scope.

(* ------------------------------------------------------------------ BIFF walk *)
Lemma skipn_length_le {A} n (l : list A) : (List.length (skipn n l) <= List.length l)%nat.
Proof. revert l; induction n as [|n IH]; intro l; simpl; [lia|]. destruct l; simpl; [lia|]. specialize (IH l). lia. Qed.

Lemma walk_fuel_enough fuel d : (List.length d < fuel)%nat -> walk fuel d <> OutOfFuel.
Proof.
  revert d; induction fuel as [|f IH]; intros d H; [lia|].
  cbn [walk]. destruct d as [|a [|b [|c [|e rest]]]]; try discriminate.
  destruct (le16 a b =? FILEPASS); [discriminate|].
  apply IH. pose proof (skipn_length_le (N.to_nat (le16 c e)) rest). cbn [List.length] in H. lia.
Qed.

Lemma biff_never_out_of_fuel d : walk (biff_fuel d) d <> OutOfFuel.
Proof. apply walk_fuel_enough. unfold biff_fuel. lia. Qed.

Lemma skipn_app_exact {A} (l r : list A) : skipn (List.length l) (l ++ r) = r.
Proof. induction l; simpl; auto. Qed.

Lemma le16_split n : le16 (n mod 256) (n / 256) = n.
Proof. unfold le16. rewrite N.add_comm. symmetry. apply N.div_mod. discriminate. Qed.

Lemma walk_short fuel tail : (List.length tail < 4)%nat -> (0 < fuel)%nat -> walk fuel tail = NotFound.
Proof.
  intros H F. destruct fuel; [lia|]. cbn [walk].
  destruct tail as [|a [|b [|c [|e rest]]]]; try reflexivity. cbn [List.length] in H. lia.
Qed.

Lemma ser_cons r rs : ser (r :: rs) = ser_rec r ++ ser rs.
Proof. reflexivity. Qed.

Lemma walk_ser rs : forall tail fuel,
  forallb wf_rec rs = true -> (List.length tail < 4)%nat -> (List.length (ser rs ++ tail) < fuel)%nat ->
  walk fuel (ser rs ++ tail) = if existsb is_filepass rs then Found else NotFound.
Proof.
  induction rs as [|r rs IH]; intros tail fuel W T F.
  - cbn [ser flat_map app existsb]. apply walk_short; [exact T | lia].
  - cbn [forallb] in W. apply andb_true_iff in W as [Wr Wrs].
    rewrite ser_cons in *. unfold ser_rec in *. rewrite <- !app_assoc in *. cbn [app] in *.
    destruct fuel as [|f]; [lia|]. cbn [walk].
    rewrite !le16_split. cbn [existsb]. unfold is_filepass at 1.
    destruct (rid r =? FILEPASS); [reflexivity|]. cbn [orb].
    unfold plen. rewrite Nat2N.id, skipn_app_exact.
    apply IH; [exact Wrs | exact T |].
    cbn [List.length] in F. rewrite app_length in F. lia.
Qed.

Lemma biff_detect_ser rs tail :
  forallb wf_rec rs = true -> (List.length tail < 4)%nat ->
  biff_detect (ser rs ++ tail) = existsb is_filepass rs.
Proof.
  intros W T. unfold biff_detect. rewrite (walk_ser rs tail _ W T) by (unfold biff_fuel; lia).
  destruct (existsb is_filepass rs); reflexivity.
Qed.

(* ------------------------------------------------------------------ bit lemmas *)
Lemma land_pow2_zero w n : (N.land w (2 ^ n) =? 0) = negb (N.testbit w n).
Proof.
  destruct (N.testbit w n) eqn:E; cbn [negb].
  - apply N.eqb_neq. intro H. apply (f_equal (fun x => N.testbit x n)) in H.
    rewrite N.land_spec, E, N.pow2_bits_true, N.bits_0 in H. discriminate.
  - apply N.eqb_eq. apply N.bits_inj. intro m. rewrite N.land_spec, N.bits_0.
    destruct (N.eq_dec n m) as [->|Hne].
    + rewrite E. reflexivity.
    + rewrite (N.pow2_bits_false n m Hne). apply andb_false_r.
Qed.

Lemma land_256 w : (N.land w 256 =? 0) = negb (N.testbit w 8).
Proof. exact (land_pow2_zero w 8). Qed.
Lemma land_1 w : (N.land w 1 =? 0) = negb (N.testbit w 0).
Proof. exact (land_pow2_zero w 0). Qed.

Lemma le16_bit8 a b : a < 256 -> N.testbit (le16 a b) 8 = N.testbit b 0.
Proof.
  intro H. unfold le16. rewrite N.testbit_eqb, (N.testbit_eqb b 0).
  change (2 ^ 8) with 256. change (2 ^ 0) with 1. rewrite N.div_1_r.
  replace (a + 256 * b) with (a + b * 256) by lia.
  rewrite N.div_add by discriminate. rewrite (N.div_small a 256 H). reflexivity.
Qed.

(* ------------------------------------------------------------------ DOC *)
Definition doc_wellformed (wd : bytes) : bool :=
  negb (List.length wd <? MIN_DOC_SIZE)%nat && ((word16 wd 0 =? 42476) || (word16 wd 0 =? 42460))
  && (byte_at wd 10 <? 256).

Lemma doc_check_spec wd : doc_wellformed wd = true ->
  doc_check wd = if N.testbit (byte_at wd 11) 0 then DocEncrypted else DocContinue.
Proof.
  unfold doc_wellformed, doc_check. intro H.
  apply andb_true_iff in H as [H H3]. apply andb_true_iff in H as [H1 H2].
  apply negb_true_iff in H1. rewrite H1, H2. cbn [negb].
  rewrite land_256. unfold word16. rewrite le16_bit8 by (apply N.ltb_lt; exact H3).
  change (S 10) with 11%nat. destruct (N.testbit (byte_at wd 11) 0); reflexivity.
Qed.

Lemma doc_check_not_doc wd :
  ((List.length wd <? MIN_DOC_SIZE)%nat || negb ((word16 wd 0 =? 42476) || (word16 wd 0 =? 42460))) = true ->
  doc_check wd = DocNotDoc.
Proof.
  unfold doc_check. intro H. destruct (List.length wd <? MIN_DOC_SIZE)%nat; [reflexivity|].
  cbn [orb] in H. rewrite H. reflexivity.
Qed.

(* ------------------------------------------------------------------ OLE *)
Section OLE.
  Variable lower : str -> str.

  Lemma ole_exists_iff es nm : ole_exists lower es nm = true <-> exists e, In e es /\ lower e = lower nm.
  Proof.
    unfold ole_exists. rewrite existsb_exists. split; intros [e [H1 H2]]; exists e; split; auto;
      apply str_eqb_eq; auto.
  Qed.

  Lemma has_enc_stream_iff es :
    has_ole_encryption_stream lower es = true <->
    exists e nm, In e es /\ In nm ENC_STREAMS /\ lower e = lower nm.
  Proof.
    unfold has_ole_encryption_stream. rewrite existsb_exists. split.
    - intros [nm [H1 H2]]. apply ole_exists_iff in H2 as [e [H2 H3]]. exists e, nm. auto.
    - intros [e [nm [H1 [H2 H3]]]]. exists nm. split; [exact H2|]. apply ole_exists_iff. exists e. auto.
  Qed.

  Lemma ppt_detect_iff es :
    ppt_detect lower (Some es) = true <->
    exists e nm, In e es /\ In nm (ENC_STREAMS ++ PPT_STREAMS) /\ lower e = lower nm.
  Proof.
    unfold ppt_detect. rewrite orb_true_iff, has_enc_stream_iff, existsb_exists. split.
    - intros [[e [nm [H1 [H2 H3]]]] | [nm [H1 H2]]].
      + exists e, nm. repeat split; auto. apply in_or_app; auto.
      + apply ole_exists_iff in H2 as [e [H2 H3]]. exists e, nm. repeat split; auto. apply in_or_app; auto.
    - intros [e [nm [H1 [H2 H3]]]]. apply in_app_or in H2 as [H2|H2].
      + left. exists e, nm. auto.
      + right. exists nm. split; [exact H2|]. apply ole_exists_iff. exists e; auto.
  Qed.
End OLE.

(* ------------------------------------------------------------------ XML *)
Lemma desc_unfold x : desc x = desc_list (x_kids x).
Proof. destruct x; reflexivity. Qed.

Lemma desc_list_cons k r : desc_list (k :: r) = k :: desc k ++ desc_list r.
Proof. reflexivity. Qed.

Lemma desc_list_kid l k : In k l -> In k (desc_list l).
Proof.
  induction l as [|a l IH]; [contradiction|]. intros [->|H]; rewrite desc_list_cons.
  - left; reflexivity.
  - right. apply in_or_app. right. auto.
Qed.

Lemma desc_list_trans l k y : In k l -> In y (desc k) -> In y (desc_list l).
Proof.
  induction l as [|a l IH]; [contradiction|]. intros [->|H] Hy; rewrite desc_list_cons.
  - right. apply in_or_app. left. exact Hy.
  - right. apply in_or_app. right. auto.
Qed.

Lemma desc_kid x k : In k (x_kids x) -> In k (desc x).
Proof. rewrite desc_unfold. apply desc_list_kid. Qed.

Lemma desc_grandkid x k y : In k (x_kids x) -> In y (x_kids k) -> In y (desc x).
Proof. intros H1 H2. rewrite desc_unfold. apply (desc_list_trans _ k); [exact H1 | apply desc_kid; exact H2]. Qed.

(* ------------------------------------------------------------------ ODF *)
Lemma odf_detect_iff root :
  odf_detect (OdfManifest root) = true <-> exists e, In e (iter_all root) /\ is_encdata e = true.
Proof. unfold odf_detect. apply existsb_exists. Qed.

Lemma odf_sound_file_entry root fe e :
  In fe (x_kids root) -> In e (x_kids fe) -> is_encdata e = true -> odf_detect (OdfManifest root) = true.
Proof.
  intros H1 H2 H3. apply odf_detect_iff. exists e. split; [|exact H3].
  right. apply (desc_grandkid root fe e H1 H2).
Qed.

Lemma odf_complete root :
  (forall e, In e (iter_all root) -> is_encdata e = false) -> odf_detect (OdfManifest root) = false.
Proof.
  intro H. destruct (odf_detect (OdfManifest root)) eqn:E; [|reflexivity].
  apply odf_detect_iff in E as [e [H1 H2]]. rewrite (H e H1) in H2. discriminate.
Qed.

(* ------------------------------------------------------------------ ZIP *)
Lemma zip_pass1_none ms : zip_pass1 ms = None <-> existsb z_encrypted ms = true.
Proof.
  induction ms as [|m r IH]; cbn [zip_pass1 existsb]; [split; discriminate|].
  unfold z_encrypted at 1. rewrite land_1, negb_involutive.
  destruct (z_dir m); cbn [negb andb orb]; [exact IH|].
  destruct (N.testbit (z_flags m) 0); cbn [orb]; [split; reflexivity|].
  destruct (zip_pass1 r) eqn:E.
  - split; [discriminate|]. intro H. apply IH in H. discriminate.
  - split; [intros _; apply IH; reflexivity | reflexivity].
Qed.

Lemma zip_pass1_sub ms l : zip_pass1 ms = Some l -> forall m, In m l -> In m ms /\ z_dir m = false.
Proof.
  revert l; induction ms as [|a r IH]; cbn [zip_pass1]; intros l H m Hm.
  - inversion H; subst. contradiction.
  - destruct (z_dir a) eqn:D.
    + destruct (IH l H m Hm). split; [right|]; assumption.
    + destruct (negb (N.land (z_flags a) 1 =? 0)); [discriminate|].
      destruct (zip_pass1 r) as [l'|] eqn:E; [|discriminate].
      inversion H; subst; clear H. destruct (z_skip a).
      * destruct (IH l' eq_refl m Hm). split; [right|]; assumption.
      * destruct Hm as [->|Hm]; [split; [left; reflexivity | exact D]|].
        destruct (IH l' eq_refl m Hm). split; [right|]; assumption.
Qed.

Lemma zip_sound legacy ms : existsb z_encrypted ms = true -> zip_run_gen legacy ms = (O, ZEncrypted).
Proof. intro H. unfold zip_run_gen. apply zip_pass1_none in H. rewrite H. reflexivity. Qed.

(* zipfile's contract (oracle): RuntimeError proper is raised by read() only for a member whose
   general-purpose flag bit 0 is set *)
Definition zipfile_contract (m : zmember) : bool :=
  match z_read m with ZRuntime => N.testbit (z_flags m) 0 | _ => true end.

Lemma zip_pass2_not_encrypted l :
  (forall m, In m l -> z_read m <> ZRuntime) -> snd (zip_pass2 false l) <> ZEncrypted.
Proof.
  induction l as [|m r IH]; cbn [zip_pass2]; intro H; [discriminate|].
  assert (Hr : forall m', In m' r -> z_read m' <> ZRuntime) by (intros; apply H; right; assumption).
  destruct (z_big m); [auto|].
  destruct (z_read m) eqn:E.
  - specialize (IH Hr). destruct (zip_pass2 false r) as [k o]. cbn [snd] in *. exact IH.
  - exfalso. apply (H m); [left; reflexivity | exact E].
  - discriminate.
  - auto.
Qed.

Lemma zip_complete ms :
  forallb zipfile_contract ms = true -> existsb z_encrypted ms = false -> snd (zip_run ms) <> ZEncrypted.
Proof.
  intros C P. unfold zip_run, zip_run_gen.
  destruct (zip_pass1 ms) as [l|] eqn:E.
  - apply zip_pass2_not_encrypted. intros m Hm Hr.
    destruct (zip_pass1_sub ms l E m Hm) as [Hin Hd].
    rewrite forallb_forall in C. specialize (C m Hin). unfold zipfile_contract in C. rewrite Hr in C.
    assert (Hx : existsb z_encrypted ms = true).
    { apply existsb_exists. exists m. split; [exact Hin|]. unfold z_encrypted. rewrite Hd, C. reflexivity. }
    rewrite Hx in P. discriminate.
  - apply zip_pass1_none in E. rewrite E in P. discriminate.
Qed.

(* nothing is yielded before the encrypted error, whatever the position of the flagged member *)
Lemma zip_position pre m post legacy :
  z_encrypted m = true -> zip_run_gen legacy (pre ++ m :: post) = (O, ZEncrypted).
Proof.
  intro H. apply zip_sound. apply existsb_exists. exists m. split; [|exact H].
  apply in_or_app. right. left. reflexivity.
Qed.

(* ------------------------------------------------------------------ 7z *)
Lemma has_aes_iff fs :
  has_aes fs = true <-> exists f c rest, In f fs /\ In c f /\ c = AES_PREFIX ++ rest.
Proof.
  unfold has_aes. rewrite existsb_exists. split.
  - intros [f [H1 H2]]. apply existsb_exists in H2 as [c [H2 H3]]. apply startswith_app in H3 as [rest H3].
    exists f, c, rest. auto.
  - intros [f [c [rest [H1 [H2 H3]]]]]. exists f. split; [exact H1|]. apply existsb_exists. exists c.
    split; [exact H2|]. apply startswith_app. exists rest. exact H3.
Qed.

Definition hdr_decodable (v : sz_view) : bool :=
  match sz_hdr v with Some [] => false | _ => true end.
Definition hdr_has_aes (v : sz_view) : bool :=
  match sz_hdr v with Some (f :: _) => existsb (fun c => startswith c AES_PREFIX) f | _ => false end.

Lemma sz_sound v : hdr_decodable v = true -> (hdr_has_aes v || has_aes (sz_main v)) = true -> sz_open v = SzEncrypted.
Proof.
  unfold hdr_decodable, hdr_has_aes, sz_open, sz_open_gen, needs_password.
  destruct (sz_hdr v) as [[|f r]|]; intros D H; try discriminate.
  - destruct (existsb (fun c => startswith c AES_PREFIX) f); [reflexivity|]. cbn [orb] in H. rewrite H. reflexivity.
  - cbn [orb] in H. rewrite H. reflexivity.
Qed.

Lemma sz_complete v : (hdr_has_aes v || has_aes (sz_main v)) = false -> sz_open v <> SzEncrypted.
Proof.
  unfold hdr_has_aes, sz_open, sz_open_gen, needs_password.
  destruct (sz_hdr v) as [[|f r]|]; intro H; try discriminate.
  - apply orb_false_iff in H as [H1 H2]. rewrite H1, H2. discriminate.
  - cbn [orb] in H. rewrite H. discriminate.
Qed.

(* ------------------------------------------------------------------ EPUB *)
Definition epub_drm (v : epub_view) : Prop :=
  e_rights v = true \/
  exists root x, e_encxml v = EncRoot root /\ In x (desc root) /\ is_encrypted_data x = true
                 /\ is_obfuscation_only x = false.

Lemma epub_detect_iff v : epub_detect v = true <-> epub_drm v.
Proof.
  unfold epub_detect, epub_detect_gen, epub_drm. rewrite orb_true_iff. split.
  - intros [H|H]; [right | left; exact H].
    destruct (e_encxml v) as [| |root]; try discriminate.
    apply existsb_exists in H as [x [H1 H2]]. unfold counts_as_drm in H2. cbn [orb] in H2.
    apply andb_true_iff in H2 as [H2 H3]. apply negb_true_iff in H3. exists root, x. auto.
  - intros [H|[root [x [H0 [H1 [H2 H3]]]]]]; [right; exact H | left].
    rewrite H0. apply existsb_exists. exists x. split; [exact H1|].
    unfold counts_as_drm. rewrite H2, H3. reflexivity.
Qed.

(* ------------------------------------------------------------------ PDF *)
Lemma pdf_detect_iff v :
  pdf_detect v = true <->
  p_is_encrypted v = true /\ (p_decrypt_empty v = DecRaises \/ p_decrypt_empty v = DecReturns 0).
Proof.
  unfold pdf_detect. rewrite andb_true_iff. split; intros [H1 H2]; split; auto.
  - destruct (p_decrypt_empty v) as [|n]; [left; reflexivity|]. apply N.eqb_eq in H2. subst. right; reflexivity.
  - destruct H2 as [->| ->]; reflexivity.
Qed.

(* ------------------------------------------------------------------ attachments *)
Definition sum_yields (l : list att) : nat := fold_right (fun a k => (att_yields a + k)%nat) O l.

Lemma att_run_enc pre a post :
  existsb att_is_enc pre = false -> att_is_enc a = true ->
  att_run (pre ++ a :: post) = ((sum_yields pre + att_yields a)%nat, true).
Proof.
  intros Hp Ha. induction pre as [|x pre IH].
  - destruct a; try discriminate. reflexivity.
  - cbn [existsb] in Hp. apply orb_false_iff in Hp as [Hx Hp]. specialize (IH Hp).
    change (sum_yields (x :: pre)) with (att_yields x + sum_yields pre)%nat.
    destruct x; try discriminate; cbn [app att_run]; rewrite IH; cbn [att_yields]; f_equal; lia.
Qed.

Lemma att_run_plain l : existsb att_is_enc l = false -> att_run l = (sum_yields l, false).
Proof.
  induction l as [|x l IH]; intro H; [reflexivity|].
  cbn [existsb] in H. apply orb_false_iff in H as [Hx H]. specialize (IH H).
  change (sum_yields (x :: l)) with (att_yields x + sum_yields l)%nat.
  destruct x; try discriminate; cbn [att_run]; rewrite IH; reflexivity.
Qed.

(* ------------------------------------------------------------------ PDF: AES is installed before any page is read *)
Lemma pdf_pages_installed e i0 inst :
  on_fallback e = true -> p_is_encrypted (pe_view e) = true ->
  pdf_decide true e i0 = PdfPages inst -> inst = true.
Proof.
  unfold pdf_decide, pdf_open. intros F E.
  rewrite F, E. cbn [andb]. destruct (ctor_needs_aes e && negb i0).
  - destruct (pdf_detect (pe_view e)); intro H; inversion H; reflexivity.
  - rewrite orb_true_r. destruct (pdf_detect (pe_view e)); intro H; inversion H; reflexivity.
Qed.

Lemma pdf_decision_history_free e i0 i1 :
  on_fallback e = true ->
  match pdf_decide true e i0, pdf_decide true e i1 with
  | PdfDependency, PdfDependency => True
  | PdfRejected _, PdfRejected _ => True
  | PdfPages a, PdfPages b => p_is_encrypted (pe_view e) = true -> a = b
  | _, _ => False
  end.
Proof.
  unfold pdf_decide, pdf_open. intro F. rewrite F.
  destruct (ctor_needs_aes e), i0, i1, (pdf_detect (pe_view e)), (p_is_encrypted (pe_view e)); cbn; auto.
Qed.
