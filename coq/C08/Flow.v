(* C08 — "rejected before any content": guard-dominance skeletons.
   A tiny statement language for generator bodies, its nondeterministic big-step semantics for runs
   in which the ENCRYPTION DETECTOR ANSWERS TRUE (so the guard statement
       if <detector>: raise ExtractionFileEncryptedError(...)
   never completes normally), counting the results yielded, and a computable analysis `ana`.
   Definitions and the soundness proof (short, so kept together); property theorems are in Props.v,
   obligations over the skeletons generated from /repo in Inst.v. *)
From Coq Require Import List Bool Arith Lia.
Import ListNotations.

Inductive gs :=
| GPure                      (* cannot raise, yields nothing *)
| GAny                       (* arbitrary code without a yield: completes or raises *)
| GGuard                     (* the guard; detector true => raises (or the detector call itself raises) *)
| GYield                     (* delivers one result (or, in a callee skeleton, `return value`) *)
| GAbort                     (* raise / bare raise (in a callee skeleton also: return after delivering) *)
| GReturn                    (* bare `return`: the generator ends silently *)
| GBreak                     (* break / continue *)
| GSeq (a b : gs)
| GChoice (a b : gs)
| GLoop (b : gs)
| GTry (body : gs) (hs : list gs) (orelse fin : gs).

(* N: normal completion, A: abrupt by exception, B: break/continue, R: return (silent end of the generator) *)
Inductive out := N | A | B | R.

(* run s n o: one execution of s delivers n results and ends in o.  Handlers are treated
   coarsely (any handler may take over after any abrupt end of the body, or none): every real
   execution is among the modelled ones. *)
Inductive run : gs -> nat -> out -> Prop :=
| R_Pure : run GPure 0 N
| R_AnyN : run GAny 0 N
| R_AnyA : run GAny 0 A
| R_Guard : run GGuard 0 A
| R_YieldN : run GYield 1 N
| R_YieldA : run GYield 1 A                 (* GeneratorExit thrown in at the yield *)
| R_Abort : run GAbort 0 A
| R_Break : run GBreak 0 B
| R_Return : run GReturn 0 R
| R_SeqN a b n1 n2 o : run a n1 N -> run b n2 o -> run (GSeq a b) (n1 + n2) o
| R_SeqA a b n1 : run a n1 A -> run (GSeq a b) n1 A
| R_SeqB a b n1 : run a n1 B -> run (GSeq a b) n1 B
| R_SeqR a b n1 : run a n1 R -> run (GSeq a b) n1 R
| R_ChoiceL a b n o : run a n o -> run (GChoice a b) n o
| R_ChoiceR a b n o : run b n o -> run (GChoice a b) n o
| R_Loop0 b : run (GLoop b) 0 N
| R_LoopS b n1 n2 o o1 : run b n1 o1 -> o1 <> A -> o1 <> R -> run (GLoop b) n2 o -> run (GLoop b) (n1 + n2) o
| R_LoopBrk b n1 : run b n1 B -> run (GLoop b) n1 N
| R_LoopA b n1 : run b n1 A -> run (GLoop b) n1 A
| R_LoopR b n1 : run b n1 R -> run (GLoop b) n1 R
| R_Try body hs orelse fin n1 o1 n2 o2 n3 o3 o :
    run body n1 o1 -> after o1 hs orelse n2 o2 -> run fin n3 o3 ->
    o = match o3 with N => o2 | _ => o3 end ->
    run (GTry body hs orelse fin) (n1 + n2 + n3) o
with after : out -> list gs -> gs -> nat -> out -> Prop :=
| Af_N hs orelse n o : run orelse n o -> after N hs orelse n o
| Af_B hs orelse : after B hs orelse 0 B
| Af_R hs orelse : after R hs orelse 0 R
| Af_Prop hs orelse : after A hs orelse 0 A
| Af_H hs orelse h n o : In h hs -> run h n o -> after A hs orelse n o.

Scheme run_ind' := Minimality for run Sort Prop
  with after_ind' := Minimality for after Sort Prop.
Combined Scheme run_mutind from run_ind', after_ind'.

(* abstract result: may yield / may end N / may end A / may end B *)
Record ares := { ry : bool; rn : bool; ra : bool; rb : bool; rr : bool }.
Definition aunion (x y : ares) : ares :=
  {| ry := ry x || ry y; rn := rn x || rn y; ra := ra x || ra y; rb := rb x || rb y; rr := rr x || rr y |}.
Definition abot : ares := {| ry := false; rn := false; ra := false; rb := false; rr := false |}.
(* y after x completed normally *)
Definition athen (x y : ares) : ares :=
  {| ry := ry x || (rn x && ry y); rn := rn x && rn y; ra := ra x || (rn x && ra y); rb := rb x || (rn x && rb y);
     rr := rr x || (rn x && rr y) |}.

Fixpoint ana (s : gs) : ares :=
  match s with
  | GPure => {| ry := false; rn := true; ra := false; rb := false; rr := false |}
  | GAny => {| ry := false; rn := true; ra := true; rb := false; rr := false |}
  | GGuard => {| ry := false; rn := false; ra := true; rb := false; rr := false |}
  | GYield => {| ry := true; rn := true; ra := true; rb := false; rr := false |}
  | GAbort => {| ry := false; rn := false; ra := true; rb := false; rr := false |}
  | GReturn => {| ry := false; rn := false; ra := false; rb := false; rr := true |}
  | GBreak => {| ry := false; rn := false; ra := false; rb := true; rr := false |}
  | GSeq a b => athen (ana a) (ana b)
  | GChoice a b => aunion (ana a) (ana b)
  | GLoop b => let r := ana b in {| ry := ry r; rn := true; ra := ra r; rb := false; rr := rr r |}
  | GTry body hs orelse fin =>
      let r := ana body in
      let h := fold_right aunion abot (map ana hs) in
      let o := ana orelse in
      let pre := {| ry := ry r || (ra r && ry h) || (rn r && ry o);
                    rn := (rn r && rn o) || (ra r && rn h);
                    ra := ra r || (ra r && ra h) || (rn r && ra o);
                    rb := rb r || (ra r && rb h) || (rn r && rb o);
                    rr := rr r || (ra r && rr h) || (rn r && rr o) |} in
      let f := ana fin in
      {| ry := ry pre || ry f; rn := rn pre && rn f; ra := ra pre || ra f; rb := rb pre || rb f; rr := rr pre || rr f |}
  end.

Definition covers (r : ares) (n : nat) (o : out) : Prop :=
  (n <> 0 -> ry r = true) /\ match o with N => rn r = true | A => ra r = true | B => rb r = true | R => rr r = true end.

Lemma fold_union_in (l : list ares) (x : ares) : In x l ->
  let h := fold_right aunion abot l in
  (ry x = true -> ry h = true) /\ (rn x = true -> rn h = true) /\ (ra x = true -> ra h = true) /\ (rb x = true -> rb h = true)
  /\ (rr x = true -> rr h = true).
Proof.
  induction l as [|y l IH]; simpl; [tauto|]. intros [->|H].
  - repeat split; intro E; rewrite E; reflexivity.
  - destruct (IH H) as [H1 [H2 [H3 [H4 H5]]]].
    repeat split; intro E; apply orb_true_iff; right; auto.
Qed.

Definition P_run (s : gs) (n : nat) (o : out) : Prop := covers (ana s) n o.
Definition P_after (o1 : out) (hs : list gs) (orelse : gs) (n : nat) (o : out) : Prop :=
  forall r, match o1 with N => rn r = true | A => ra r = true | B => rb r = true | R => rr r = true end ->
    let h := fold_right aunion abot (map ana hs) in
    let oe := ana orelse in
    (n <> 0 -> (ra r && ry h) || (rn r && ry oe) = true)
    /\ match o with
       | N => (rn r && rn oe) || (ra r && rn h) = true
       | A => ra r || (ra r && ra h) || (rn r && ra oe) = true
       | B => rb r || (ra r && rb h) || (rn r && rb oe) = true
       | R => rr r || (ra r && rr h) || (rn r && rr oe) = true
       end.

Ltac btrue := repeat (rewrite ?orb_true_iff, ?andb_true_iff).
Ltac bhyp H := repeat (rewrite ?orb_true_iff, ?andb_true_iff in H).

Lemma ana_sound_mut :
  (forall s n o, run s n o -> P_run s n o)
  /\ (forall o1 hs orelse n o, after o1 hs orelse n o -> P_after o1 hs orelse n o).
Proof.
  apply run_mutind; unfold P_run, P_after, covers; intros; cbn [ana athen aunion ry rn ra rb rr] in *.
  - split; [intro; congruence | reflexivity].
  - split; [intro; congruence | reflexivity].
  - split; [intro; congruence | reflexivity].
  - split; [intro; congruence | reflexivity].
  - split; reflexivity.
  - split; reflexivity.
  - split; [intro; congruence | reflexivity].
  - split; [intro; congruence | reflexivity].
  - (* Return *) split; [intro; congruence | reflexivity].
  - (* SeqN *) destruct H0 as [Ya Na], H2 as [Yb Ob]. split.
    + intro Hn. btrue. destruct n1; [right; split; [exact Na | apply Yb; lia] | left; apply Ya; lia].
    + destruct o; btrue; tauto.
  - (* SeqA *) destruct H0 as [Ya Oa]. split; [intro; btrue; left; auto | btrue; tauto].
  - (* SeqB *) destruct H0 as [Ya Oa]. split; [intro; btrue; left; auto | btrue; tauto].
  - (* SeqR *) destruct H0 as [Ya Oa]. split; [intro; btrue; left; auto | btrue; tauto].
  - destruct H0 as [Y O]. split; [intro; btrue; left; auto | destruct o; btrue; tauto].
  - destruct H0 as [Y O]. split; [intro; btrue; right; auto | destruct o; btrue; tauto].
  - (* Loop0 *) split; [intro; congruence | reflexivity].
  - (* LoopS *) destruct H0 as [Y1 _], H4 as [Y2 O2]. split.
    + intro Hn. destruct n1; [apply Y2; lia | apply Y1; lia].
    + exact O2.
  - (* LoopBrk *) destruct H0 as [Y1 _]. split; [exact Y1 | reflexivity].
  - (* LoopA *) destruct H0 as [Y1 O1]. split; [exact Y1 | exact O1].
  - (* LoopR *) destruct H0 as [Y1 O1]. split; [exact Y1 | exact O1].
  - (* Try *)
    destruct H0 as [Yb Ob]. specialize (H2 (ana body)).
    assert (Hpre : match o1 with N => rn (ana body) = true | A => ra (ana body) = true | B => rb (ana body) = true
                          | R => rr (ana body) = true end)
      by exact Ob.
    destruct (H2 Hpre) as [Yh Oh]. destruct H4 as [Yf Of]. subst o. split.
    + intro Hn. btrue.
      destruct n1; [|left; left; left; apply Yb; lia].
      destruct n2; [|left; assert (E : S n2 <> 0) by lia; specialize (Yh E); bhyp Yh; tauto].
      right. apply Yf. lia.
    + destruct o3; [| btrue; tauto | btrue; tauto | btrue; tauto].
      destruct o2; bhyp Oh; btrue; tauto.
  - (* Af_N *) destruct H0 as [Yo Oo]. cbn in H1. split.
    + intro Hn. btrue. right. split; [exact H1 | apply Yo; exact Hn].
    + destruct o; btrue; tauto.
  - (* Af_B *) split; [intro; congruence | btrue; tauto].
  - (* Af_R *) split; [intro; congruence | btrue; tauto].
  - (* Af_Prop *) split; [intro; congruence | btrue; tauto].
  - (* Af_H *)
    destruct H1 as [Yh Oh].
    pose proof (fold_union_in (map ana hs) (ana h) (in_map ana hs h H)) as [F1 [F2 [F3 [F4 F5]]]]. cbn in F1, F2, F3, F4, F5.
    split.
    + intro Hn. btrue. left. split; [exact H2 | apply F1, Yh, Hn].
    + destruct o; btrue; [right | left; right | left; right | left; right]; split; auto.
Qed.

(* the obligation decided per extractor *)
Definition guarded (s : gs) : bool := negb (ry (ana s)).

Theorem guarded_sound s n o : guarded s = true -> run s n o -> n = 0.
Proof.
  unfold guarded. intros G R. apply (proj1 ana_sound_mut) in R. destruct R as [Y _].
  destruct n; [reflexivity|]. rewrite Y in G by lia. discriminate.
Qed.

(* stronger obligation: when the detector answers true the generator neither delivers anything NOR ends
   silently (normal end, bare `return`, break out of the body): every execution ends with an exception *)
Definition rejects (s : gs) : bool :=
  let r := ana s in negb (ry r) && negb (rn r) && negb (rb r) && negb (rr r).

Theorem rejects_sound s n o : rejects s = true -> run s n o -> n = 0 /\ o = A.
Proof.
  unfold rejects. intros G Hr. apply (proj1 ana_sound_mut) in Hr. destruct Hr as [Y O].
  apply andb_true_iff in G as [G G4]. apply andb_true_iff in G as [G G3]. apply andb_true_iff in G as [G1 G2].
  apply negb_true_iff in G1, G2, G3, G4. split.
  - destruct n; [reflexivity|]. rewrite Y in G1 by lia. discriminate.
  - destruct o; [rewrite O in G2 | reflexivity | rewrite O in G3 | rewrite O in G4]; discriminate.
Qed.

Example rejects_refuses_silent_return : rejects (GSeq (GChoice GReturn GPure) (GSeq GGuard GYield)) = false.
Proof. reflexivity. Qed.
Example rejects_accepts_typical :
  rejects (GTry (GSeq GAny (GSeq GGuard (GSeq GAny GYield))) [GAbort; GAbort] GPure GPure) = true.
Proof. reflexivity. Qed.

(* non-vacuity helpers: the skeleton really contains a guard and a delivery point *)
Fixpoint count_guard (s : gs) : nat :=
  match s with
  | GGuard => 1
  | GSeq a b | GChoice a b => count_guard a + count_guard b
  | GLoop b => count_guard b
  | GTry body hs orelse fin => count_guard body + fold_right plus 0 (map count_guard hs) + count_guard orelse + count_guard fin
  | _ => 0
  end.
Fixpoint count_yield (s : gs) : nat :=
  match s with
  | GYield => 1
  | GSeq a b | GChoice a b => count_yield a + count_yield b
  | GLoop b => count_yield b
  | GTry body hs orelse fin => count_yield body + fold_right plus 0 (map count_yield hs) + count_yield orelse + count_yield fin
  | _ => 0
  end.

(* the analysis is not trivially true: a yield before the guard, or a guard on one branch only, is rejected *)
Example guarded_rejects_yield_first : guarded (GSeq GYield (GSeq GGuard GYield)) = false.
Proof. reflexivity. Qed.
Example guarded_rejects_branch_guard : guarded (GSeq (GChoice GGuard GPure) GYield) = false.
Proof. reflexivity. Qed.
Example guarded_rejects_swallowed_guard : guarded (GSeq (GTry GGuard [GPure] GPure GPure) GYield) = false.
Proof. reflexivity. Qed.
Example guarded_accepts_typical :
  guarded (GTry (GSeq GAny (GSeq GGuard (GSeq GAny GYield))) [GAbort; GAbort] GPure GPure) = true.
Proof. reflexivity. Qed.
