(* C08 — obligations over what was generated from /repo on this run: the guard-dominance skeletons of
   every extractor with an encryption check, and the constants the detector models rely on. *)
From Coq Require Import String List Bool Arith NArith.
From S2T Require Import Lib.PyStr C08.Model C08.Flow Gen.C08Skeletons Gen.C08Tables.
Import ListNotations.

(* every skeleton: exactly one guard, at least one delivery point, the analysis accepts it, and — for the
   skeleton of a whole generator / callee (strict) — no execution with the detector true ends silently *)
Definition skeleton_ok (strict : bool) (sk : gs) : bool :=
  guarded sk && Nat.eqb (count_guard sk) 1%nat && Nat.leb 1%nat (count_yield sk) && (negb strict || rejects sk).

Theorem C08_all_guarded : forallb (fun p => skeleton_ok (snd (fst p)) (snd p)) skeletons = true.
Proof. vm_compute. reflexivity. Qed.
Print Assumptions C08_all_guarded.

(* read_docx/xlsx/pptx/xls/ppt/doc(+_parse_content)/odt/ods/odp/odg/odf/pdf/epub, the 7z route and the ZIP
   pass-1 member body: when the detector answers true, no execution delivers a result *)
Theorem C08_no_result_before_rejection :
  forall name strict sk n o, In (name, strict, sk) skeletons -> run sk n o -> n = O.
Proof.
  intros name strict sk n o H R. pose proof C08_all_guarded as A. rewrite forallb_forall in A.
  specialize (A (name, strict, sk) H). unfold skeleton_ok in A. cbn [fst snd] in A.
  apply andb_true_iff in A as [A _]. apply andb_true_iff in A as [A _]. apply andb_true_iff in A as [A _].
  exact (guarded_sound sk n o A R).
Qed.
Print Assumptions C08_no_result_before_rejection.

(* ... and it ends with an exception: never a normal end, a bare `return` or a `break` (an encrypted input
   cannot come back as an empty result) *)
Theorem C08_rejected_never_silent :
  forall name sk n o, In (name, true, sk) skeletons -> run sk n o -> n = O /\ o = A.
Proof.
  intros name sk n o H R. pose proof C08_all_guarded as G. rewrite forallb_forall in G.
  specialize (G (name, true, sk) H). unfold skeleton_ok in G. cbn [fst snd negb orb] in G.
  apply andb_true_iff in G as [_ G]. exact (rejects_sound sk n o G R).
Qed.
Print Assumptions C08_rejected_never_silent.

Theorem C08_skeleton_count : List.length skeletons = 16%nat.
Proof. vm_compute. reflexivity. Qed.
Print Assumptions C08_skeleton_count.

(* ZIP route: the with-block up to the second loop (flag check of EVERY member) delivers nothing, in any
   execution; together with the #pass1-member skeleton above (a flagged non-directory member is never
   admitted to the work list of the second loop) this is the ordering half of C08_zip_sound_any_member *)
Theorem C08_zip_pass1_delivers_nothing :
  forall n o, run zip_prefix n o -> n = O.
Proof. intros n o R. apply (guarded_sound zip_prefix n o); [vm_compute; reflexivity | exact R]. Qed.
Print Assumptions C08_zip_pass1_delivers_nothing.

Theorem C08_zip_prefix_has_the_guard : count_guard zip_prefix = 1%nat /\ count_yield zip_prefix = 0%nat.
Proof. vm_compute. split; reflexivity. Qed.
Print Assumptions C08_zip_prefix_has_the_guard.

(* the constants of today's source are the ones the models use *)
Definition subset (a b : list str) : bool := forallb (fun x => mem_str x b) a.
Definition set_eqb (a b : list str) : bool := subset a b && subset b a.
Definition constants_ok : bool :=
  set_eqb g_enc_streams ENC_STREAMS
  (* is_ppt_encrypted: exactly the modelled names; "Current User" only together with the header-token test *)
  && subset PPT_STREAMS g_ppt_streams && subset g_ppt_streams (PPT_STREAMS ++ [s "Current User"])%list
  && Bool.eqb g_ppt_token_aware (mem_str (s "Current User") g_ppt_streams)
  && existsb (N.eqb FILEPASS) g_xls_ints
  && Nat.eqb g_min_doc_size MIN_DOC_SIZE
  && (existsb (N.eqb 42476%N) g_doc_magics && existsb (N.eqb 42460%N) g_doc_magics && Nat.eqb (List.length g_doc_magics) 2%nat)
  && Nat.eqb g_fib_flags_offset 10%nat && N.eqb g_fib_flag 256%N
  && str_eqb g_aes_prefix AES_PREFIX
  && str_eqb g_epub_findall (List.app (s ".//{") (List.app XMLENC (s "}EncryptedData")))
  && set_eqb g_obfuscation OBFUSCATION.

Theorem C08_constants : constants_ok = true.
Proof. vm_compute. reflexivity. Qed.
Print Assumptions C08_constants.
