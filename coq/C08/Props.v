(* C08 — property theorems: encrypted input is rejected as encrypted (soundness, for every position /
   member / folder / element), plain input never is (completeness), nothing is yielded before the error.
   The models follow the code WITH the repairs fixes/C08-*.patch; the `_legacy_refuted` theorems are the
   kernel-checked witnesses that the full statement is false of the code before the repair.
   Statements + `exact`; proofs are in C08/Proofs.v and C08/Flow.v. *)
From Coq Require Import ZArith List Bool Lia NArith.
From S2T Require Import Lib.PyStr C08.Model C08.Proofs C08.Flow C08.Pad.
Import ListNotations.
Open Scope N_scope.

(* ---------------------------------------------------------------- XLS: FILEPASS walk *)
(* the walk of is_xls_encrypted terminates on EVERY byte string (fuel = len + 1 is never exhausted) *)
Theorem C08_biff_terminates : forall d : bytes, walk (biff_fuel d) d <> OutOfFuel.
Proof. exact biff_never_out_of_fuel. Qed.
Print Assumptions C08_biff_terminates.

(* on a well-formed record stream (any ids/payloads, < 4 trailing bytes) the detector is true exactly
   when some record — at ANY position — is FILEPASS: soundness and completeness in one statement *)
Theorem C08_biff_filepass_any_position :
  forall (rs : list brec) (tail : bytes),
    forallb wf_rec rs = true -> (List.length tail < 4)%nat ->
    biff_detect (ser rs ++ tail) = existsb is_filepass rs.
Proof. exact biff_detect_ser. Qed.
Print Assumptions C08_biff_filepass_any_position.

Theorem C08_xls_sound :
  forall (lower : str -> str) (v : xls_view) (pre post : list brec) (fp : brec) (tail : bytes),
    ole_exists lower (x_entries v) (s "Workbook") = true ->
    x_workbook v = ser (pre ++ fp :: post) ++ tail ->
    forallb wf_rec (pre ++ fp :: post) = true -> (List.length tail < 4)%nat -> is_filepass fp = true ->
    xls_detect lower (Some v) = true.
Proof.
  intros lower v pre post fp tail He Hw Wf Ht Hf. unfold xls_detect. rewrite He, Hw.
  rewrite (biff_detect_ser _ _ Wf Ht). apply existsb_exists. exists fp. split; [|exact Hf].
  apply in_or_app. right. left. reflexivity.
Qed.
Print Assumptions C08_xls_sound.

Theorem C08_xls_complete :
  forall (lower : str -> str) (v : xls_view) (rs : list brec) (tail : bytes),
    ole_exists lower (x_entries v) (s "Workbook") = true ->
    x_workbook v = ser rs ++ tail -> forallb wf_rec rs = true -> (List.length tail < 4)%nat ->
    existsb is_filepass rs = false -> xls_detect lower (Some v) = false.
Proof.
  intros lower v rs tail He Hw Wf Ht Hf. unfold xls_detect. rewrite He, Hw, (biff_detect_ser _ _ Wf Ht). exact Hf.
Qed.
Print Assumptions C08_xls_complete.

Example C08_biff_nonvacuous :
  forallb wf_rec [{| rid := 2057; payload := [0; 6] |}; {| rid := 47; payload := [1; 0; 1; 0] |}] = true
  /\ biff_detect (ser [{| rid := 2057; payload := [0; 6] |}; {| rid := 47; payload := [1; 0; 1; 0] |}] ++ [10]) = true
  /\ biff_detect (ser [{| rid := 2057; payload := [0; 6] |}; {| rid := 10; payload := [] |}]) = false.
Proof. vm_compute. auto. Qed.
Print Assumptions C08_biff_nonvacuous.

(* ---------------------------------------------------------------- OLE stream names (OOXML, PPT) *)
Theorem C08_ooxml_iff :
  forall (lower : str -> str) (entries : list str),
    ooxml_detect lower (Some entries) = true <->
    exists e nm, In e entries /\ In nm ENC_STREAMS /\ lower e = lower nm.
Proof. intros. exact (has_enc_stream_iff lower entries). Qed.
Print Assumptions C08_ooxml_iff.

Theorem C08_not_ole_never_encrypted :
  forall lower, ooxml_detect lower None = false /\ ppt_detect lower None = false /\ xls_detect lower None = false.
Proof. intro. repeat split. Qed.
Print Assumptions C08_not_ole_never_encrypted.

Theorem C08_ppt_iff :
  forall (lower : str -> str) (entries : list str),
    ppt_detect lower (Some entries) = true <->
    exists e nm, In e entries /\ In nm (ENC_STREAMS ++ PPT_STREAMS) /\ lower e = lower nm.
Proof. exact ppt_detect_iff. Qed.
Print Assumptions C08_ppt_iff.

(* legacy PPT encrypted with RC4 CryptoAPI whose document properties stay in the clear has NO EncryptedSummary
   stream; what marks it is CurrentUserAtom.headerToken.  Today's detector (aware = false) misses it:
   replayed on the real code by the check (key ppt-cryptsession10-no-encryptedsummary, open known finding) *)
Theorem C08_ppt_token_sound_refuted :
  exists (lower : str -> str) (es : list str),
    token_encrypted (Some PPT_ENCRYPTED_TOKEN) = true
    /\ ppt_detect_tok lower false (Some es) (Some PPT_ENCRYPTED_TOKEN) = false.
Proof.
  exists (fun x => x), [s "Current User"; s "PowerPoint Document"; s "Pictures"]. vm_compute. auto.
Qed.
Print Assumptions C08_ppt_token_sound_refuted.

(* the strongest true statement for today's code: encrypted AND one of the stream names present *)
Theorem C08_ppt_sound_partial :
  forall (lower : str -> str) (aware : bool) (es : list str) (token : option BinNums.N),
    (exists e nm, In e es /\ In nm (ENC_STREAMS ++ PPT_STREAMS) /\ lower e = lower nm) ->
    ppt_detect_tok lower aware (Some es) token = true.
Proof.
  intros lower aware es token H. unfold ppt_detect_tok. apply orb_true_iff. left.
  apply ppt_detect_iff. exact H.
Qed.
Print Assumptions C08_ppt_sound_partial.

(* with the proposed repair (aware = true): exact — stream names or the header token, nothing else *)
Theorem C08_ppt_token_aware_iff :
  forall (lower : str -> str) (es : list str) (token : option BinNums.N),
    ppt_detect_tok lower true (Some es) token = true <->
    (exists e nm, In e es /\ In nm (ENC_STREAMS ++ PPT_STREAMS) /\ lower e = lower nm)
    \/ token = Some PPT_ENCRYPTED_TOKEN.
Proof.
  intros lower es token. unfold ppt_detect_tok. rewrite orb_true_iff, ppt_detect_iff. cbn [andb].
  split; intros [H|H]; auto; right.
  - destruct token as [t|]; [|discriminate]. cbn in H. apply N.eqb_eq in H. subst. reflexivity.
  - subst. reflexivity.
Qed.
Print Assumptions C08_ppt_token_aware_iff.

(* ---------------------------------------------------------------- DOC: FIB flag *)
(* for a stream that passes the size and magic checks the outcome is decided by bit 8 of the flag word
   (= bit 0 of byte 0x0B) alone *)
Theorem C08_doc_fib_flag :
  forall wd : bytes, doc_wellformed wd = true ->
    doc_check wd = if N.testbit (byte_at wd 11) 0 then DocEncrypted else DocContinue.
Proof. exact doc_check_spec. Qed.
Print Assumptions C08_doc_fib_flag.

Example C08_doc_nonvacuous :
  doc_wellformed ([236; 165] ++ repeat 0 9 ++ [1] ++ repeat 0 500) = true
  /\ doc_check ([236; 165] ++ repeat 0 9 ++ [1] ++ repeat 0 500) = DocEncrypted
  /\ doc_check ([236; 165] ++ repeat 0 9 ++ [0] ++ repeat 0 500) = DocContinue.
Proof. vm_compute. auto. Qed.
Print Assumptions C08_doc_nonvacuous.

(* ---------------------------------------------------------------- ODF manifest (repaired code) *)
(* soundness: some file-entry of the manifest has an encryption-data child *)
Theorem C08_odf_sound :
  forall root fe e, In fe (x_kids root) -> In e (x_kids fe) -> is_encdata e = true ->
    odf_detect (OdfManifest root) = true.
Proof. exact odf_sound_file_entry. Qed.
Print Assumptions C08_odf_sound.

(* completeness at full strength: no element named encryption-data anywhere => never "encrypted",
   whatever the member names, attribute values and texts are *)
Theorem C08_odf_complete :
  forall root, (forall e, In e (iter_all root) -> is_encdata e = false) -> odf_detect (OdfManifest root) = false.
Proof. exact odf_complete. Qed.
Print Assumptions C08_odf_complete.

Theorem C08_odf_no_manifest_not_encrypted :
  odf_detect OdfNotZip = false /\ odf_detect OdfNoManifest = false /\ odf_detect OdfBadManifest = false.
Proof. repeat split. Qed.
Print Assumptions C08_odf_no_manifest_not_encrypted.

(* the code before the repair (substring test on the decoded text).  Witness 1: the manifest of a plain
   package with a member called encryption-data.xml; witness 2: the text of an encrypted manifest stored
   as UTF-16 and decoded with utf-8/ignore (NUL between the characters).  The pairing text <-> tree is
   replayed on the real code by the check (keys odf-substring-false-positive, odf-utf16-manifest). *)
Definition M := s "urn:oasis:names:tc:opendocument:xmlns:manifest:1.0".
Definition plain_manifest : xml :=
  El M (s "manifest") [] [El M (s "file-entry") [(s "full-path", s "encryption-data.xml")] []].
Definition plain_manifest_text : str :=
  s "<manifest:manifest><manifest:file-entry manifest:full-path=""encryption-data.xml""/></manifest:manifest>".
Definition enc_manifest : xml :=
  El M (s "manifest") [] [El M (s "file-entry") [(s "full-path", s "content.xml")] [El M (s "encryption-data") [] []]].
Definition utf16_as_utf8 (t : str) : str := flat_map (fun c => [c; 0]) t.
Definition enc_manifest_text : str :=
  s "<manifest:manifest><manifest:file-entry manifest:full-path=""content.xml""><manifest:encryption-data/></manifest:file-entry></manifest:manifest>".

Theorem C08_odf_legacy_refuted :
  (odf_detect (OdfManifest plain_manifest) = false /\ odf_detect_legacy plain_manifest_text = true)
  /\ (odf_detect (OdfManifest enc_manifest) = true /\ odf_detect_legacy (utf16_as_utf8 enc_manifest_text) = false).
Proof. vm_compute. auto. Qed.
Print Assumptions C08_odf_legacy_refuted.

(* ---------------------------------------------------------------- ZIP *)
(* a flagged non-directory member at ANY position: encrypted error, ZERO results before it *)
Theorem C08_zip_sound_any_member :
  forall (pre post : list zmember) (m : zmember),
    z_encrypted m = true -> zip_run (pre ++ m :: post) = (O, ZEncrypted).
Proof. intros. apply zip_position. assumption. Qed.
Print Assumptions C08_zip_sound_any_member.

(* no flagged member => never rejected as encrypted (zipfile's contract as boolean premise) *)
Theorem C08_zip_complete :
  forall ms, forallb zipfile_contract ms = true -> existsb z_encrypted ms = false ->
    snd (zip_run ms) <> ZEncrypted.
Proof. exact zip_complete. Qed.
Print Assumptions C08_zip_complete.

Definition plain_member (r : zread) : zmember :=
  {| z_dir := false; z_flags := 0; z_skip := false; z_big := false; z_read := r |}.
(* before the repair: a member with an unsupported compression method (NotImplementedError is a
   RuntimeError) turns a plain archive into "encrypted" AFTER one result was yielded *)
Theorem C08_zip_legacy_refuted :
  exists ms, forallb zipfile_contract ms = true /\ existsb z_encrypted ms = false
             /\ zip_run_legacy ms = (1%nat, ZEncrypted).
Proof. exists [plain_member (ZOk 1); plain_member ZNotImpl]. vm_compute. auto. Qed.
Print Assumptions C08_zip_legacy_refuted.

Example C08_zip_nonvacuous :
  forallb zipfile_contract [plain_member (ZOk 1); plain_member ZNotImpl] = true
  /\ zip_run [plain_member (ZOk 1); plain_member ZNotImpl] = (1%nat, ZFailed)
  /\ zip_run [plain_member (ZOk 1); plain_member (ZOk 2)] = (3%nat, ZDone).
Proof. vm_compute. auto. Qed.
Print Assumptions C08_zip_nonvacuous.

(* ---------------------------------------------------------------- 7z *)
Theorem C08_7z_needs_password_iff :
  forall fs : list folder,
    needs_password fs = true <-> exists f c rest, In f fs /\ In c f /\ c = AES_PREFIX ++ rest.
Proof. exact has_aes_iff. Qed.
Print Assumptions C08_7z_needs_password_iff.

(* AES coder in any folder of the archive or in the encoded header (7z -mhe) => encrypted *)
Theorem C08_7z_sound :
  forall v, hdr_decodable v = true -> (hdr_has_aes v || has_aes (sz_main v)) = true -> sz_open v = SzEncrypted.
Proof. exact sz_sound. Qed.
Print Assumptions C08_7z_sound.

Theorem C08_7z_complete :
  forall v, (hdr_has_aes v || has_aes (sz_main v)) = false -> sz_open v <> SzEncrypted.
Proof. exact sz_complete. Qed.
Print Assumptions C08_7z_complete.

(* before the repair: header encryption is reported as "invalid archive" *)
Theorem C08_7z_legacy_refuted :
  exists v, hdr_decodable v = true /\ hdr_has_aes v = true /\ sz_open_legacy v = SzFailed.
Proof. exists {| sz_hdr := Some [[[6; 241; 7; 1]]]; sz_main := [] |}. vm_compute. auto. Qed.
Print Assumptions C08_7z_legacy_refuted.

(* ---------------------------------------------------------------- EPUB *)
(* detector true  <=>  rights.xml present, or an EncryptedData element (any depth below the root of a
   parsable encryption.xml) that is not font obfuscation *)
Theorem C08_epub_iff : forall v, epub_detect v = true <-> epub_drm v.
Proof. exact epub_detect_iff. Qed.
Print Assumptions C08_epub_iff.

Definition CONT := s "urn:oasis:names:tc:opendocument:xmlns:container".
Definition font_obfuscated : epub_view :=
  {| e_encxml := EncRoot (El CONT (s "encryption") []
       [El XMLENC (s "EncryptedData") []
          [El XMLENC (s "EncryptionMethod") [(s "Algorithm", s "http://www.idpf.org/2008/embedding")] []]]);
     e_rights := false |}.
(* before the repair: font obfuscation (no DRM) is rejected as encrypted *)
Theorem C08_epub_legacy_refuted : epub_detect font_obfuscated = false /\ epub_detect_legacy font_obfuscated = true.
Proof. vm_compute. auto. Qed.
Print Assumptions C08_epub_legacy_refuted.

(* ---------------------------------------------------------------- PDF *)
Theorem C08_pdf_iff :
  forall v, pdf_detect v = true <->
    p_is_encrypted v = true /\ (p_decrypt_empty v = DecRaises \/ p_decrypt_empty v = DecReturns 0).
Proof. exact pdf_detect_iff. Qed.
Print Assumptions C08_pdf_iff.

(* ---------------------------------------------------------------- rejected before any content *)
(* for every skeleton accepted by `guarded`: in every execution in which the detector answers true,
   ZERO results are delivered (instantiated on the generated skeletons in C08/Inst.v) *)
Theorem C08_reject_before_yield :
  forall (sk : gs) (n : nat) (o : out), guarded sk = true -> run sk n o -> n = O.
Proof. exact guarded_sound. Qed.
Print Assumptions C08_reject_before_yield.

(* ---------------------------------------------------------------- PKCS#7 layer of the AES fallback *)
(* what decryption strips is exactly what encryption appended, for EVERY plaintext length (in particular
   lengths that are multiples of the block size, where a whole block of padding is appended) *)
Theorem C08_pkcs7_roundtrip :
  forall (bs : nat) (d : bytes), (0 < bs)%nat -> pkcs7_unpad bs (pkcs7_pad bs d) = UOk d.
Proof. exact unpad_pad. Qed.
Print Assumptions C08_pkcs7_roundtrip.

Theorem C08_pkcs7_full_block :
  forall (bs : nat) (d : bytes), (0 < bs)%nat -> (List.length d mod bs = 0)%nat ->
    pkcs7_pad bs d = d ++ repeat (N.of_nat bs) bs.
Proof. exact pad_full_block. Qed.
Print Assumptions C08_pkcs7_full_block.

Theorem C08_pkcs7_padded_length :
  forall (bs : nat) (d : bytes), (0 < bs)%nat -> (List.length (pkcs7_pad bs d) mod bs = 0)%nat.
Proof. exact pad_length_multiple. Qed.
Print Assumptions C08_pkcs7_padded_length.

(* a last byte outside 1..block_size is an error, never returned as data *)
Theorem C08_pkcs7_rejects_bad_byte :
  forall (bs : nat) (d : bytes), List.length d <> O ->
    (N.to_nat (last d 0%N) < 1 \/ bs < N.to_nat (last d 0%N))%nat -> pkcs7_unpad bs d = UErr.
Proof. exact unpad_rejects_bad_byte. Qed.
Print Assumptions C08_pkcs7_rejects_bad_byte.

Example C08_pkcs7_nonvacuous :
  pkcs7_unpad 16%nat (repeat 16 16%nat) = UOk [] /\ pkcs7_unpad 16%nat ([1; 2] ++ repeat 14 14%nat) = UOk [1; 2]
  /\ pkcs7_unpad 16%nat (repeat 7 16%nat ++ repeat 16 16%nat) = UOk (repeat 7 16%nat)
  /\ pkcs7_unpad 16%nat [5; 17] = UErr /\ pkcs7_unpad 16%nat [3; 3] = UErr.
Proof. vm_compute. repeat split. Qed.
Print Assumptions C08_pkcs7_nonvacuous.

(* ---------------------------------------------------------------- never a silent end *)
Theorem C08_reject_never_silent :
  forall (sk : gs) (n : nat) (o : out), rejects sk = true -> run sk n o -> n = O /\ o = A.
Proof. exact rejects_sound. Qed.
Print Assumptions C08_reject_never_silent.

(* ---------------------------------------------------------------- e-mail attachments (fourth entry point) *)
(* an encrypted attachment at ANY position: the results of the attachments before it, then the encrypted
   error — for every invocation (the model has no state; the check calls the implementation repeatedly) *)
Theorem C08_attachment_encrypted_any_position :
  forall (pre post : list att) (a : att),
    existsb att_is_enc pre = false -> att_is_enc a = true ->
    att_run (pre ++ a :: post) = ((sum_yields pre + att_yields a)%nat, true).
Proof. intros pre post a. exact (att_run_enc pre a post). Qed.
Print Assumptions C08_attachment_encrypted_any_position.

Theorem C08_attachment_complete :
  forall l : list att, existsb att_is_enc l = false -> att_run l = (sum_yields l, false).
Proof. exact att_run_plain. Qed.
Print Assumptions C08_attachment_complete.

(* ---------------------------------------------------------------- PDF: fallback AES before the pages *)
(* on pypdf's pure-python provider, an encrypted document that gets past the password test reaches the page loop
   with AES installed — whatever was installed before (fresh process or not), whatever revision *)
Theorem C08_pdf_aes_installed_before_pages :
  forall (e : pdf_env) (installed0 inst : bool),
    on_fallback e = true -> p_is_encrypted (pe_view e) = true ->
    pdf_decide true e installed0 = PdfPages inst -> inst = true.
Proof. exact pdf_pages_installed. Qed.
Print Assumptions C08_pdf_aes_installed_before_pages.

(* the code before fixes/C08-pdf-aesv2-fallback.patch (proactive = false): an AESV2 document (constructor does not
   touch AES) in a fresh process reaches the pages WITHOUT AES *)
Theorem C08_pdf_aes_legacy_refuted :
  exists e, on_fallback e = true /\ p_is_encrypted (pe_view e) = true /\ pdf_decide false e false = PdfPages false.
Proof.
  exists {| ctor_needs_aes := false; on_fallback := true;
            pe_view := {| p_is_encrypted := true; p_decrypt_empty := DecReturns 1 |} |}. vm_compute. auto.
Qed.
Print Assumptions C08_pdf_aes_legacy_refuted.

(* the verdict (rejected / pages / dependency error) does not depend on what earlier documents installed *)
Theorem C08_pdf_decision_history_free :
  forall (e : pdf_env) (i0 i1 : bool), on_fallback e = true ->
    match pdf_decide true e i0, pdf_decide true e i1 with
    | PdfDependency, PdfDependency => True
    | PdfRejected _, PdfRejected _ => True
    | PdfPages a, PdfPages b => p_is_encrypted (pe_view e) = true -> a = b
    | _, _ => False
    end.
Proof. exact pdf_decision_history_free. Qed.
Print Assumptions C08_pdf_decision_history_free.
