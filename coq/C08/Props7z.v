(* C08 — property theorems for 7z stated over the ARCHIVE BYTES (parser and 7z path of read_archive as modelled in
   C10 and tied to the code by C10's correspondence).  Statements + exact; proofs in C08/SevenZ.v. *)
From Coq Require Import ZArith List Bool.
From S2T Require Import Lib.PyStr C10.Model C10.Spec C10.Parse C10.Ser C08.Model C08.SevenZ Gen.C10Tables.
Import ListNotations.
Open Scope N_scope.

(* for the bytes of ANY archive with a plain header (any folders, coders, properties, files; any pack area):
   read_archive's 7z path ends with the file-encrypted error  <=>  some coder id of some folder starts with 06 F1 07;
   and then nothing was yielded.  Soundness and completeness of the 7z detector from the bytes. *)
Theorem C08_7z_decision_from_bytes :
  forall (R : Type) (T : tables) lzma_alone lzma2_raw (crc32 : C10.Model.bytes -> N) supported lower
         (extract : str -> C10.Model.bytes -> str -> list R)
         (h : header) (crcs ef : option C10.Model.bytes) (wa : bool) (area : C10.Model.bytes) (apath : option str),
    aes_prefix T = AES_PREFIX ->
    wf_header h crcs ef wa = true ->
    wf_archive crc32 area (ser_header h crcs ef wa) = true ->
    (max_7z T <? lenN (archive_bytes crc32 area (ser_header h crcs ef wa))) = false ->
    let file := archive_bytes crc32 area (ser_header h crcs ef wa) in
    let out := read_7z_bytes R T lzma_alone lzma2_raw crc32 supported lower extract file apath in
    (fin out = Raise Encrypted <-> has_aes (map folder_ids (h_folders h)) = true)
    /\ (has_aes (map folder_ids (h_folders h)) = true -> yields out = []).
Proof. intros. apply sevenz_bytes_decision; assumption. Qed.
Print Assumptions C08_7z_decision_from_bytes.

(* an AES coder met while the ENCODED header is decoded (7z -mhe=on): encrypted error, nothing yielded *)
Theorem C08_7z_encoded_header_from_bytes :
  forall (R : Type) (T : tables) lzma_alone lzma2_raw (crc32 : C10.Model.bytes -> N) supported lower
         (extract : str -> C10.Model.bytes -> str -> list R) (file : C10.Model.bytes) (apath : option str),
    (max_7z T <? lenN file) = false -> parse_7z T lzma_alone lzma2_raw crc32 file = PEnc ->
    read_7z_bytes R T lzma_alone lzma2_raw crc32 supported lower extract file apath
    = {| yields := []; fin := Raise Encrypted |}.
Proof. intros. apply sevenz_bytes_encoded_header; assumption. Qed.
Print Assumptions C08_7z_encoded_header_from_bytes.

(* the table premise holds for the tables dumped from the live modules *)
Example C08_7z_tables_premise : str_eqb (aes_prefix Gen.C10Tables.T) AES_PREFIX = true.
Proof. vm_compute. reflexivity. Qed.
Print Assumptions C08_7z_tables_premise.
