(* C08 — the PKCS#7 layer of the pure-python AES fallback (pdf/_pypdf_aes_fallback.py: _pkcs7_pad,
   _pkcs7_unpad), through which every string and stream of an AES-encrypted PDF passes.  "Empty user
   password extracts the same content as the plain original" needs unpad (pad d) = d for EVERY length,
   in particular for len d = 0 mod 16, where a full block of 0x10 is appended. *)
From Coq Require Import ZArith List Bool Lia NArith Arith.
From S2T Require Import Lib.PyStr C08.Model.
Import ListNotations.
Open Scope nat_scope.

Definition pad_len (bs n : nat) : nat := bs - (n mod bs).
Definition pkcs7_pad (bs : nat) (d : bytes) : bytes :=
  let p := pad_len bs (List.length d) in d ++ repeat (N.of_nat p) p.

Inductive ures := UOk (d : bytes) | UErr.      (* UErr: ValueError("Invalid PKCS#7 padding") *)

(* data[-p:] : the whole list when p exceeds its length *)
Definition lastn (p : nat) (d : bytes) : bytes := skipn (List.length d - p) d.

Definition pkcs7_unpad (bs : nat) (d : bytes) : ures :=
  if List.length d =? 0 then UOk []
  else
    let b := last d 0%N in
    let p := N.to_nat b in
    if (p <? 1) || (bs <? p) then UErr
    else if str_eqb (lastn p d) (repeat b p) then UOk (firstn (List.length d - p) d)
    else UErr.

(* ---- lemmas *)
Lemma pad_len_range bs n : 0 < bs -> 1 <= pad_len bs n <= bs.
Proof. intro H. unfold pad_len. pose proof (Nat.mod_upper_bound n bs). lia. Qed.

Lemma last_app_repeat (d : bytes) (x : N) p : 0 < p -> last (d ++ repeat x p) 0%N = x.
Proof.
  intro H. destruct p as [|p]; [lia|].
  replace (repeat x (S p)) with (repeat x p ++ [x]) by (symmetry; apply repeat_cons).
  rewrite app_assoc. apply last_last.
Qed.

Lemma skipn_app_len {A} (l r : list A) : skipn (List.length l) (l ++ r) = r.
Proof. induction l; simpl; auto. Qed.
Lemma firstn_app_len {A} (l r : list A) : firstn (List.length l) (l ++ r) = l.
Proof. induction l; simpl; congruence. Qed.

Lemma unpad_pad bs d : 0 < bs -> pkcs7_unpad bs (pkcs7_pad bs d) = UOk d.
Proof.
  intro H. unfold pkcs7_pad, pkcs7_unpad.
  set (p := pad_len bs (List.length d)). pose proof (pad_len_range bs (List.length d) H) as R. fold p in R.
  rewrite app_length, repeat_length.
  replace (List.length d + p =? 0) with false by (symmetry; apply Nat.eqb_neq; lia).
  rewrite last_app_repeat by lia. rewrite Nat2N.id.
  replace (p <? 1) with false by (symmetry; apply Nat.ltb_ge; lia).
  replace (bs <? p) with false by (symmetry; apply Nat.ltb_ge; lia).
  cbn [orb]. unfold lastn. rewrite app_length, repeat_length.
  replace (List.length d + p - p) with (List.length d) by lia.
  rewrite skipn_app_len, str_eqb_refl, firstn_app_len. reflexivity.
Qed.

Lemma pad_full_block bs d : 0 < bs -> List.length d mod bs = 0 ->
  pkcs7_pad bs d = d ++ repeat (N.of_nat bs) bs.
Proof. intros H M. unfold pkcs7_pad, pad_len. rewrite M, Nat.sub_0_r. reflexivity. Qed.

Lemma pad_length_multiple bs d : 0 < bs -> List.length (pkcs7_pad bs d) mod bs = 0.
Proof.
  intro H. unfold pkcs7_pad. rewrite app_length, repeat_length. unfold pad_len.
  set (n := List.length d).
  pose proof (Nat.div_mod n bs ltac:(lia)) as E. pose proof (Nat.mod_upper_bound n bs ltac:(lia)) as U.
  replace (n + (bs - n mod bs)) with ((n / bs + 1) * bs) by nia.
  apply Nat.mod_mul. lia.
Qed.

(* invalid padding bytes are rejected, never handed back as data *)
Lemma unpad_rejects_bad_byte bs d :
  List.length d <> 0 -> (N.to_nat (last d 0%N) < 1 \/ bs < N.to_nat (last d 0%N)) -> pkcs7_unpad bs d = UErr.
Proof.
  intros L B. unfold pkcs7_unpad.
  replace (List.length d =? 0) with false by (symmetry; apply Nat.eqb_neq; exact L).
  destruct B as [B|B].
  - replace (N.to_nat (last d 0%N) <? 1) with true by (symmetry; apply Nat.ltb_lt; exact B). reflexivity.
  - replace (bs <? N.to_nat (last d 0%N)) with true by (symmetry; apply Nat.ltb_lt; exact B).
    rewrite orb_true_r. reflexivity.
Qed.
