(* C12 — executable models of the explicit limits and of the size arithmetic of the amplifying
   constructs (definitions only). *)
From Coq Require Export List ZArith Bool Lia.
Export ListNotations.
Open Scope Z_scope.

(* ---------- explicit limits ---------- *)
(* sharepoint2text.read_file: `if max_file_size > 0: if file_size > max_file_size: raise TooLarge` *)
Definition read_file_refuses (max_file_size file_size : Z) : bool :=
  (max_file_size >? 0) && (file_size >? max_file_size).

(* _extract_from_7z_optimized: `if archive_size > MAX_7Z_FILE_SIZE: raise TooLarge` *)
Definition sevenz_refuses (max_7z archive_size : Z) : bool := archive_size >? max_7z.

(* ---------- archive member processing as event traces ---------- *)
Record member := {
  m_id : nat;            (* position in the archive listing *)
  m_size : Z;            (* declared uncompressed size *)
  m_regular : bool;      (* not a directory / tar special member *)
  m_skip : bool          (* _should_skip_file(filename, basename): oracle, see C09 *)
}.

Inductive event :=
| Decompress (id : nat)  (* member bytes materialised in memory: zf.read / extractfile().read / 7z folder decode *)
| WriteDisk (id : nat)   (* member bytes written to the temporary directory *)
| Process (id : nat).    (* handed to _process_archive_entry *)

(* _extract_from_zip_optimized / _extract_from_tar_optimized: size test precedes the read *)
Definition zip_member_events (limit : Z) (m : member) : list event :=
  if negb (m_regular m) then []
  else if m_skip m then []
  else if m_size m >? limit then []
  else [Decompress (m_id m); Process (m_id m)].
Definition zip_events (limit : Z) (ms : list member) : list event := flat_map (zip_member_events limit) ms.

(* _extract_from_7z_optimized: the size test only filters files_to_process; extractall() decodes
   every folder and writes every regular member first *)
(* a regular member has a data stream (and is therefore decoded and written) iff it is non-empty;
   empty files are never written, hence "Extracted file not found" and no result *)
Definition has_stream (m : member) : bool := m_regular m && (m_size m >? 0).
Definition sevenz_extractall (ms : list member) : list event :=
  flat_map (fun m => if has_stream m then [Decompress (m_id m); WriteDisk (m_id m)] else []) ms.
Definition sevenz_selected (limit : Z) (m : member) : bool :=
  has_stream m && negb (m_skip m) && negb (m_size m >? limit).
Definition sevenz_events (limit : Z) (ms : list member) : list event :=
  sevenz_extractall ms ++ map (fun m => Process (m_id m)) (filter (sevenz_selected limit) ms).

Definition oversize (limit : Z) (m : member) : bool := m_size m >? limit.
Fixpoint mentions (id : nat) (es : list event) : bool :=
  match es with
  | [] => false
  | (Decompress i | WriteDisk i | Process i) :: r => Nat.eqb i id || mentions id r
  end.
Fixpoint processes (id : nat) (es : list event) : bool :=
  match es with
  | [] => false
  | Process i :: r => Nat.eqb i id || processes id r
  | _ :: r => processes id r
  end.

(* ---------- ODS repeat expansion (ods_extractor._extract_sheet, first pass) ---------- *)
(* a cell: (number-columns-repeated, typed_value is None) ; a row: (number-rows-repeated, cells) *)
Definition cell := (Z * bool)%type.
Definition row := (Z * list cell)%type.

(* Python list repetition [x] * n yields max n 0 copies *)
Definition reps (n : Z) : Z := Z.max n 0.

(* row_values after the cell loop: list of is_none flags (as many entries as the real list) is
   represented by its length and whether all entries are None *)
Definition cell_count (c : cell) : Z :=
  let '(rep, is_none) := c in if is_none && (rep >? 100) then 1 else reps rep.
Definition row_len (cs : list cell) : Z := fold_right (fun c acc => cell_count c + acc) 0 cs.
Definition cell_all_none (c : cell) : bool := let '(rep, is_none) := c in is_none || (reps rep =? 0).
Definition row_all_none (cs : list cell) : bool := forallb cell_all_none cs.

(* number of entries of raw_rows contributed by one row element *)
Definition row_copies (r : row) : Z :=
  let '(rep, cs) := r in if (rep >? 100) && row_all_none cs then 1 else reps rep.

(* total number of (value, text) slots referenced from raw_rows — the quantity that drives the
   second pass, which materialises rows_data with one Python object slot per (row, column) *)
Definition raw_cells (rs : list row) : Z :=
  fold_right (fun r acc => row_copies r * row_len (snd r) + acc) 0 rs.
Definition raw_row_count (rs : list row) : Z := fold_right (fun r acc => row_copies r + acc) 0 rs.

(* size of the source: one XML element per row and per cell *)
Definition xml_elements (rs : list row) : Z :=
  fold_right (fun r acc => 1 + Z.of_nat (length (snd r)) + acc) 0 rs.

Definition repeats_le (k : Z) (rs : list row) : bool :=
  forallb (fun r => (fst r <=? k) && forallb (fun c => fst c <=? k) (snd r)) rs.

(* ---------- the concrete expansion (lists of is-None flags), of which raw_cells is the size ---------- *)
Definition expand_cell (c : cell) : list bool :=
  let '(rep, is_none) := c in if is_none && (rep >? 100) then [true] else repeat is_none (Z.to_nat rep).
Definition expand_row (cs : list cell) : list bool := flat_map expand_cell cs.
Definition expand_one (r : row) : list (list bool) :=
  let '(rep, cs) := r in
  let v := expand_row cs in
  if (rep >? 100) && forallb (fun b => b) v then [v] else repeat v (Z.to_nat rep).
Definition expand_rows (rs : list row) : list (list bool) := flat_map expand_one rs.

Fixpoint drop_while {A} (f : A -> bool) (l : list A) : list A :=
  match l with [] => [] | x :: r => if f x then drop_while f r else l end.

(* second pass: trailing all-None rows dropped; column count = last column holding data *)
Definition trim_rows (rows : list (list bool)) : list (list bool) :=
  rev (drop_while (forallb (fun b => b)) (rev rows)).
Definition last_data_col (r : list bool) : nat := length (drop_while (fun b => b) (rev r)).
Definition final_dims (rs : list row) : nat * nat :=
  let t := trim_rows (expand_rows rs) in
  (length t, fold_right Nat.max 0%nat (map last_data_col t)).

(* ---------- ODF <text:s text:c="N"/> (open_office/_shared.py _append_element_text) ---------- *)
(* `int(raw)` is an oracle: None = ValueError (then count = 1); absent attribute = "1" *)
Definition space_count (parsed : option Z) : Z :=
  match parsed with
  | Some c => if c >? 0 then c else 0
  | None => 1
  end.
