From S2T Require Import C12.Model.
Open Scope Z_scope.

(* ---------- limits ---------- *)
Lemma read_file_refuses_spec max size :
  read_file_refuses max size = true <-> (0 < max /\ max < size).
Proof. unfold read_file_refuses. rewrite andb_true_iff, !Z.gtb_lt. tauto. Qed.

Lemma sevenz_refuses_spec limit size : sevenz_refuses limit size = true <-> limit < size.
Proof. unfold sevenz_refuses. rewrite Z.gtb_lt. tauto. Qed.

(* ---------- zip / tar: an oversize member is never touched ---------- *)
Lemma mentions_app id a b : mentions id (a ++ b) = mentions id a || mentions id b.
Proof.
  induction a as [|e a IH]; simpl; [reflexivity|]. destruct e; rewrite IH, orb_assoc; reflexivity.
Qed.

Lemma zip_member_mentions limit m id :
  mentions id (zip_member_events limit m) = true -> id = m_id m /\ oversize limit m = false /\ m_regular m = true /\ m_skip m = false.
Proof.
  unfold zip_member_events, oversize.
  destruct (m_regular m); simpl; [|discriminate].
  destruct (m_skip m); simpl; [discriminate|].
  destruct (m_size m >? limit); simpl; [discriminate|].
  rewrite orb_false_r, orb_diag. intro H. apply Nat.eqb_eq in H. auto.
Qed.

Lemma zip_oversize_untouched limit ms m :
  In m ms -> oversize limit m = true ->
  (forall m', In m' ms -> m_id m' = m_id m -> m' = m) ->
  mentions (m_id m) (zip_events limit ms) = false.
Proof.
  intros Hin Hov Huniq. unfold zip_events.
  assert (G : forall l, (forall m', In m' l -> In m' ms) -> mentions (m_id m) (flat_map (zip_member_events limit) l) = false).
  { induction l as [|x l IH]; intro Hsub; simpl; [reflexivity|].
    rewrite mentions_app, IH by (intros; apply Hsub; right; assumption).
    rewrite orb_false_r.
    destruct (mentions (m_id m) (zip_member_events limit x)) eqn:E; [|reflexivity].
    apply zip_member_mentions in E as [Hid [Hno _]].
    assert (x = m) by (apply Huniq; [apply Hsub; left; reflexivity | symmetry; exact Hid]).
    subst x. congruence. }
  apply G. auto.
Qed.

(* every processed member was within the limit, regular and not skipped; and was decompressed exactly then *)
Lemma zip_events_sound limit ms id :
  mentions id (zip_events limit ms) = true ->
  exists m, In m ms /\ m_id m = id /\ oversize limit m = false /\ m_regular m = true /\ m_skip m = false.
Proof.
  unfold zip_events. induction ms as [|x ms IH]; simpl; [discriminate|].
  rewrite mentions_app, orb_true_iff. intros [H|H].
  - apply zip_member_mentions in H as [Hid [H1 [H2 H3]]]. exists x. auto.
  - destruct (IH H) as [m [Hin Hm]]. exists m. auto.
Qed.

(* ---------- 7z: oversize members are never processed, but they ARE decompressed and written ---------- *)
Lemma processes_app id a b : processes id (a ++ b) = processes id a || processes id b.
Proof. induction a as [|e a IH]; simpl; [reflexivity|]. destruct e; rewrite ?IH, ?orb_assoc; reflexivity. Qed.

Lemma processes_extractall id ms : processes id (sevenz_extractall ms) = false.
Proof.
  unfold sevenz_extractall. induction ms as [|m ms IH]; simpl; [reflexivity|].
  rewrite processes_app, IH, orb_false_r. destruct (has_stream m); reflexivity.
Qed.

Lemma sevenz_oversize_not_processed limit ms m :
  In m ms -> oversize limit m = true ->
  (forall m', In m' ms -> m_id m' = m_id m -> m' = m) ->
  processes (m_id m) (sevenz_events limit ms) = false.
Proof.
  intros Hin Hov Huniq. unfold sevenz_events. rewrite processes_app, processes_extractall. simpl.
  assert (G : forall l, (forall m', In m' l -> In m' ms) ->
              processes (m_id m) (map (fun m0 => Process (m_id m0)) (filter (sevenz_selected limit) l)) = false).
  { induction l as [|x l IH]; intro Hsub; simpl; [reflexivity|].
    destruct (sevenz_selected limit x) eqn:E; simpl; [|apply IH; intros; apply Hsub; right; assumption].
    rewrite IH by (intros; apply Hsub; right; assumption). rewrite orb_false_r.
    destruct (Nat.eqb (m_id x) (m_id m)) eqn:Ei; [|reflexivity].
    apply Nat.eqb_eq in Ei. assert (x = m) by (apply Huniq; [apply Hsub; left; reflexivity | exact Ei]). subst x.
    unfold sevenz_selected, oversize in *. rewrite Hov in E. rewrite andb_false_r in E. discriminate. }
  apply G. auto.
Qed.

Lemma sevenz_extractall_touches ms m : In m ms -> has_stream m = true -> mentions (m_id m) (sevenz_extractall ms) = true.
Proof.
  intros Hin Hr. unfold sevenz_extractall. induction ms as [|x ms IH]; [contradiction|].
  simpl. rewrite mentions_app. destruct Hin as [->|Hin].
  - rewrite Hr. simpl. rewrite Nat.eqb_refl. reflexivity.
  - rewrite IH by assumption. apply orb_true_r.
Qed.

(* full-strength statement "oversize members are skipped without being decompressed" is false for 7z *)
Lemma sevenz_oversize_decompressed_refuted :
  exists limit ms m, In m ms /\ oversize limit m = true /\ mentions (m_id m) (sevenz_events limit ms) = true.
Proof.
  exists 10, [{| m_id := 0%nat; m_size := 11; m_regular := true; m_skip := false |}],
         {| m_id := 0%nat; m_size := 11; m_regular := true; m_skip := false |}.
  split; [left; reflexivity | split; reflexivity].
Qed.

(* and this holds for EVERY regular oversize member of every 7z listing *)
Lemma sevenz_oversize_always_decompressed limit ms m :
  In m ms -> has_stream m = true -> mentions (m_id m) (sevenz_events limit ms) = true.
Proof.
  intros Hin Hr. unfold sevenz_events. rewrite mentions_app, (sevenz_extractall_touches ms m Hin Hr). reflexivity.
Qed.

(* ---------- ODS repeat expansion ---------- *)
Lemma reps_nonneg n : 0 <= reps n. Proof. unfold reps. lia. Qed.

Lemma cell_count_nonneg c : 0 <= cell_count c.
Proof. destruct c as [rep n]. unfold cell_count. destruct (n && (rep >? 100)); [lia | apply reps_nonneg]. Qed.

Lemma cell_count_le k c : 1 <= k -> fst c <= k -> cell_count c <= k.
Proof.
  destruct c as [rep n]. simpl. intros Hk H. unfold cell_count, reps. destruct (n && (rep >? 100)); lia.
Qed.

Lemma row_len_nonneg cs : 0 <= row_len cs.
Proof. induction cs as [|c cs IH]; simpl; [lia|]. pose proof (cell_count_nonneg c). lia. Qed.

Lemma row_len_le k cs : 1 <= k -> forallb (fun c => fst c <=? k) cs = true -> row_len cs <= k * Z.of_nat (length cs).
Proof.
  intros Hk. induction cs as [|c cs IH]; intro H; [simpl; lia|].
  cbn [forallb] in H. apply andb_true_iff in H as [H1 H2]. apply Z.leb_le in H1.
  cbn [row_len fold_right length]. fold (row_len cs).
  pose proof (cell_count_le k c Hk H1). specialize (IH H2). lia.
Qed.

Lemma row_copies_nonneg r : 0 <= row_copies r.
Proof. destruct r as [rep cs]. unfold row_copies. destruct ((rep >? 100) && row_all_none cs); [lia | apply reps_nonneg]. Qed.

Lemma row_copies_le k r : 1 <= k -> fst r <= k -> row_copies r <= k.
Proof. destruct r as [rep cs]. simpl. intros Hk H. unfold row_copies, reps. destruct ((rep >? 100) && row_all_none cs); lia. Qed.

(* bounded repeat counts => quadratic-in-k, linear-in-input expansion *)
Lemma raw_cells_bounded k rs : 1 <= k -> repeats_le k rs = true -> raw_cells rs <= k * k * xml_elements rs.
Proof.
  intros Hk. induction rs as [|r rs IH]; intro H; [simpl; lia|].
  unfold repeats_le in H. cbn [forallb] in H. apply andb_true_iff in H as [H1 H2].
  apply andb_true_iff in H1 as [Hr Hc]. apply Z.leb_le in Hr.
  cbn [raw_cells xml_elements fold_right]. fold (raw_cells rs). fold (xml_elements rs).
  specialize (IH H2).
  pose proof (row_copies_le k r Hk Hr) as A. pose proof (row_copies_nonneg r) as A0.
  pose proof (row_len_le k (snd r) Hk Hc) as B. pose proof (row_len_nonneg (snd r)) as B0.
  assert (row_copies r * row_len (snd r) <= k * (k * Z.of_nat (length (snd r)))) by (apply Z.mul_le_mono_nonneg; assumption).
  nia.
Qed.

(* empty cells / empty rows alone never amplify beyond 100 x 100 per element *)
Definition all_empty (rs : list row) : bool := forallb (fun r => forallb (fun c => snd c) (snd r)) rs.

Lemma cell_count_empty_le c : snd c = true -> cell_count c <= 100.
Proof.
  destruct c as [rep n]. simpl. intros ->. unfold cell_count, reps. simpl.
  destruct (rep >? 100) eqn:E; [lia|]. destruct (Z.gtb_spec rep 100); [discriminate | lia].
Qed.

Lemma row_len_empty_le cs : forallb (fun c => snd c) cs = true -> row_len cs <= 100 * Z.of_nat (length cs).
Proof.
  induction cs as [|c cs IH]; intro H; [simpl; lia|].
  cbn [forallb] in H. apply andb_true_iff in H as [H1 H2].
  cbn [row_len fold_right length]. fold (row_len cs).
  pose proof (cell_count_empty_le c H1). specialize (IH H2). lia.
Qed.

Lemma row_all_none_of_empty cs : forallb (fun c => snd c) cs = true -> row_all_none cs = true.
Proof.
  unfold row_all_none. rewrite !forallb_forall. intros H c Hc. specialize (H c Hc). destruct c as [rep n]. simpl in *. subst. reflexivity.
Qed.

Lemma raw_cells_empty_bounded rs : all_empty rs = true -> raw_cells rs <= 100 * 100 * xml_elements rs.
Proof.
  induction rs as [|r rs IH]; intro H; [simpl; lia|].
  unfold all_empty in H. cbn [forallb] in H. apply andb_true_iff in H as [H1 H2].
  cbn [raw_cells xml_elements fold_right]. fold (raw_cells rs). fold (xml_elements rs).
  specialize (IH H2).
  pose proof (row_len_empty_le (snd r) H1) as B. pose proof (row_len_nonneg (snd r)) as B0.
  pose proof (row_copies_nonneg r) as A0.
  assert (A : row_copies r <= 100).
  { destruct r as [rep cs]. simpl in *. unfold row_copies. rewrite (row_all_none_of_empty cs H1), andb_true_r.
    unfold reps. destruct (rep >? 100) eqn:E; [lia|]. destruct (Z.gtb_spec rep 100); [discriminate | lia]. }
  assert (row_copies r * row_len (snd r) <= 100 * (100 * Z.of_nat (length (snd r)))) by (apply Z.mul_le_mono_nonneg; assumption).
  nia.
Qed.

(* full-strength linear bound is false: one non-empty cell with a repeat attribute *)
Lemma ods_linear_refuted : forall K : Z, exists rs, xml_elements rs = 2 /\ raw_cells rs > K * xml_elements rs.
Proof.
  intro K. set (R := Z.max (2 * K + 1) 1).
  exists [(1, [(R, false)])]. split; [reflexivity|].
  assert (HR : raw_cells [(1, [(R, false)])] = R).
  { unfold raw_cells, row_copies, row_len, cell_count, reps. cbn [fold_right snd andb].
    change (1 >? 100) with false. cbn [andb]. unfold R. lia. }
  rewrite HR. change (xml_elements [(1, [(R, false)])]) with 2. unfold R. lia.
Qed.

(* ---------- raw_cells really is the size of the concrete expansion ---------- *)
Lemma repeat_length_Z {A} (x : A) n : Z.of_nat (length (repeat x (Z.to_nat n))) = reps n.
Proof. rewrite repeat_length. unfold reps. lia. Qed.

Lemma expand_cell_length c : Z.of_nat (length (expand_cell c)) = cell_count c.
Proof.
  destruct c as [rep n]. unfold expand_cell, cell_count. destruct (n && (rep >? 100)); [reflexivity | apply repeat_length_Z].
Qed.

Lemma expand_row_length cs : Z.of_nat (length (expand_row cs)) = row_len cs.
Proof.
  induction cs as [|c cs IH]; [reflexivity|].
  unfold expand_row in *. cbn [flat_map row_len fold_right]. fold (row_len cs).
  rewrite app_length, Nat2Z.inj_add, IH, expand_cell_length. reflexivity.
Qed.

Lemma forallb_repeat b n : forallb (fun x : bool => x) (repeat b n) = (b || Nat.eqb n 0).
Proof. induction n as [|n IH]; simpl; [rewrite orb_true_r; reflexivity|]. rewrite IH. destruct b; simpl; [reflexivity|reflexivity]. Qed.

Lemma expand_cell_all_none c : forallb (fun b => b) (expand_cell c) = cell_all_none c.
Proof.
  destruct c as [rep n]. unfold expand_cell, cell_all_none, reps.
  destruct n; simpl.
  - destruct (rep >? 100); simpl; [reflexivity|]. rewrite forallb_repeat. reflexivity.
  - rewrite forallb_repeat. simpl.
    destruct (Z.max rep 0 =? 0) eqn:E.
    + apply Z.eqb_eq in E. apply Nat.eqb_eq. lia.
    + apply Z.eqb_neq in E. apply Nat.eqb_neq. lia.
Qed.

Lemma expand_row_all_none cs : forallb (fun b => b) (expand_row cs) = row_all_none cs.
Proof.
  induction cs as [|c cs IH]; [reflexivity|].
  unfold expand_row, row_all_none in *. cbn [flat_map forallb]. rewrite forallb_app, IH, expand_cell_all_none. reflexivity.
Qed.

Lemma concat_repeat_length {A} (v : list A) n : length (concat (repeat v n)) = (n * length v)%nat.
Proof. induction n as [|n IH]; simpl; [reflexivity|]. rewrite app_length, IH. reflexivity. Qed.

Lemma expand_one_cells r : Z.of_nat (length (concat (expand_one r))) = row_copies r * row_len (snd r).
Proof.
  destruct r as [rep cs]. unfold expand_one, row_copies. cbn [snd].
  rewrite expand_row_all_none.
  destruct ((rep >? 100) && row_all_none cs).
  - cbn [concat]. rewrite app_nil_r, expand_row_length. lia.
  - rewrite concat_repeat_length, Nat2Z.inj_mul, expand_row_length. unfold reps.
    replace (Z.of_nat (Z.to_nat rep)) with (Z.max rep 0) by lia. reflexivity.
Qed.

Lemma expansion_size rs : Z.of_nat (length (concat (expand_rows rs))) = raw_cells rs.
Proof.
  induction rs as [|r rs IH]; [reflexivity|].
  unfold expand_rows in *. cbn [flat_map raw_cells fold_right]. fold (raw_cells rs).
  rewrite concat_app, app_length, Nat2Z.inj_add, IH, expand_one_cells. reflexivity.
Qed.

Lemma space_count_nonneg p : 0 <= space_count p.
Proof. destruct p as [c|]; simpl; [destruct (c >? 0) eqn:E; [apply Z.gtb_lt in E; lia | lia] | lia]. Qed.

Lemma space_count_unbounded : forall K : Z, exists c, space_count (Some c) > K.
Proof.
  intro K. exists (Z.max (K + 1) 1). unfold space_count.
  destruct (Z.max (K + 1) 1 >? 0) eqn:E; [lia | destruct (Z.gtb_spec (Z.max (K + 1) 1) 0); [discriminate | lia]].
Qed.
