(* C12 — property theorems: explicit limits decide exactly; oversize archive members; size arithmetic
   of ODS repeat expansion.  Statements + exact + Print Assumptions only. *)
From S2T Require Import C12.Model C12.Proofs C12.Xlsx C12.Ole.
Open Scope Z_scope.

(* read_file refuses exactly the files larger than a positive max_file_size; 0 (or less) disables *)
Theorem C12_read_file_limit_exact :
  forall max size : Z, read_file_refuses max size = true <-> (0 < max /\ max < size).
Proof. exact read_file_refuses_spec. Qed.
Print Assumptions C12_read_file_limit_exact.

Theorem C12_read_file_zero_disables : forall size : Z, read_file_refuses 0 size = false.
Proof. intro size. reflexivity. Qed.
Print Assumptions C12_read_file_zero_disables.

Theorem C12_sevenz_limit_exact : forall limit size : Z, sevenz_refuses limit size = true <-> limit < size.
Proof. exact sevenz_refuses_spec. Qed.
Print Assumptions C12_sevenz_limit_exact.

(* ZIP / TAR: a member above the per-member limit is neither decompressed nor processed *)
Theorem C12_zip_tar_oversize_untouched :
  forall (limit : Z) (ms : list member) (m : member),
    In m ms -> oversize limit m = true ->
    (forall m', In m' ms -> m_id m' = m_id m -> m' = m) ->
    mentions (m_id m) (zip_events limit ms) = false.
Proof. exact zip_oversize_untouched. Qed.
Print Assumptions C12_zip_tar_oversize_untouched.

Theorem C12_zip_tar_events_sound :
  forall (limit : Z) (ms : list member) (id : nat),
    mentions id (zip_events limit ms) = true ->
    exists m, In m ms /\ m_id m = id /\ oversize limit m = false /\ m_regular m = true /\ m_skip m = false.
Proof. exact zip_events_sound. Qed.
Print Assumptions C12_zip_tar_events_sound.

(* 7z: full statement ("skipped without being decompressed into memory or onto disk") is FALSE of the
   code: extractall() decodes and writes every regular member before the size filter matters *)
Theorem C12_sevenz_oversize_not_decompressed_refuted :
  exists limit ms m, In m ms /\ oversize limit m = true /\ mentions (m_id m) (sevenz_events limit ms) = true.
Proof. exact sevenz_oversize_decompressed_refuted. Qed.
Print Assumptions C12_sevenz_oversize_not_decompressed_refuted.

Theorem C12_sevenz_every_regular_member_decompressed :
  forall (limit : Z) (ms : list member) (m : member),
    In m ms -> has_stream m = true -> mentions (m_id m) (sevenz_events limit ms) = true.
Proof. exact sevenz_oversize_always_decompressed. Qed.
Print Assumptions C12_sevenz_every_regular_member_decompressed.

(* what does hold for 7z: an oversize member never produces a result *)
Theorem C12_sevenz_oversize_not_processed_partial :
  forall (limit : Z) (ms : list member) (m : member),
    In m ms -> oversize limit m = true ->
    (forall m', In m' ms -> m_id m' = m_id m -> m' = m) ->
    processes (m_id m) (sevenz_events limit ms) = false.
Proof. exact sevenz_oversize_not_processed. Qed.
Print Assumptions C12_sevenz_oversize_not_processed_partial.

(* ODS: raw_cells is exactly the number of slots of the concrete expansion *)
Theorem C12_ods_expansion_size :
  forall rs : list row, Z.of_nat (length (concat (expand_rows rs))) = raw_cells rs.
Proof. exact expansion_size. Qed.
Print Assumptions C12_ods_expansion_size.

(* full statement (output linear in the input, for a fixed multiple K) is FALSE: for every K a
   two-element sheet expands to more than K times its size *)
Theorem C12_ods_output_linear_refuted :
  forall K : Z, exists rs, xml_elements rs = 2 /\ raw_cells rs > K * xml_elements rs.
Proof. exact ods_linear_refuted. Qed.
Print Assumptions C12_ods_output_linear_refuted.

(* what does hold: with repeat attributes bounded by k the expansion is at most k^2 per element;
   and empty cells/rows alone never amplify beyond 100 x 100 per element whatever the attributes say *)
Theorem C12_ods_bounded_repeats_partial :
  forall (k : Z) (rs : list row), 1 <= k -> repeats_le k rs = true -> raw_cells rs <= k * k * xml_elements rs.
Proof. exact raw_cells_bounded. Qed.
Print Assumptions C12_ods_bounded_repeats_partial.

Theorem C12_ods_empty_cells_capped :
  forall rs : list row, all_empty rs = true -> raw_cells rs <= 100 * 100 * xml_elements rs.
Proof. exact raw_cells_empty_bounded. Qed.
Print Assumptions C12_ods_empty_cells_capped.

(* ODF <text:s text:c="N"/>: the element is rendered as exactly space_count spaces — never negative, one
   space for an unparsable count, and unbounded in the size of the attribute (the open finding) *)
Theorem C12_odf_space_count_spec :
  forall p : option Z, 0 <= space_count p /\ space_count None = 1 /\ (forall c, c <= 0 -> space_count (Some c) = 0)
                       /\ (forall c, 0 < c -> space_count (Some c) = c).
Proof.
  intro p. split; [apply space_count_nonneg|]. split; [reflexivity|]. split; intros c Hc; unfold space_count.
  - destruct (c >? 0) eqn:E; [apply Z.gtb_lt in E; lia | reflexivity].
  - destruct (c >? 0) eqn:E; [reflexivity | destruct (Z.gtb_spec c 0); [discriminate | lia]].
Qed.
Print Assumptions C12_odf_space_count_spec.

Theorem C12_odf_space_count_unbounded_refuted : forall K : Z, exists c, space_count (Some c) > K.
Proof. exact space_count_unbounded. Qed.
Print Assumptions C12_odf_space_count_unbounded_refuted.

(* non-vacuity of the hypotheses *)
Example C12_hypotheses_satisfiable :
  repeats_le 3 [(2, [(3, false); (1, true)]); (1, [(2, false)])] = true
  /\ all_empty [(1000000, [(1000000, true)])] = true
  /\ raw_cells [(1000000, [(1000000, true)])] = 1
  /\ raw_cells [(2, [(3, false); (1, true)]); (1, [(2, false)])] = 10.
Proof. vm_compute. repeat split; reflexivity. Qed.
Print Assumptions C12_hypotheses_satisfiable.

(* XLSX: the aligned text block of a sheet has max_row x max_col fields, whatever the number of cells *)
Theorem C12_xlsx_text_is_full_grid :
  forall cs : list xcell, valid cs = true -> text_fields cs = max_row cs * max_col cs.
Proof. exact text_fields_grid. Qed.
Print Assumptions C12_xlsx_text_is_full_grid.

(* full statement (output within a fixed multiple K of the input, here: of the number of cells) is FALSE:
   two cells suffice, far apart by rows ... *)
Theorem C12_xlsx_output_linear_refuted :
  forall K : Z, exists cs, valid cs = true /\ length cs = 2%nat /\ text_fields cs > K * 2.
Proof. exact text_fields_unbounded. Qed.
Print Assumptions C12_xlsx_output_linear_refuted.

(* ... or by columns *)
Theorem C12_xlsx_output_linear_refuted_columns :
  forall K : Z, exists cs, valid cs = true /\ length cs = 2%nat /\ text_fields cs > K * 2.
Proof. exact text_fields_unbounded_columns. Qed.
Print Assumptions C12_xlsx_output_linear_refuted_columns.

(* what does hold: a dense sheet (cells fill 1..n x 1..m) has exactly one field per cell *)
Theorem C12_xlsx_dense_sheet_linear_partial :
  forall n m : nat, (1 <= n)%nat -> (1 <= m)%nat ->
    text_fields (rectangle n m) = Z.of_nat (length (rectangle n m)).
Proof. exact dense_sheet_linear. Qed.
Print Assumptions C12_xlsx_dense_sheet_linear_partial.

Example C12_xlsx_nonvacuous :
  valid [(1, 1); (300000, 1)] = true /\ text_fields [(1, 3); (2, 1); (4, 2)] = 12
  /\ widths [(1, 3); (2, 1); (4, 2)] = [3; 1; 0; 2].
Proof. vm_compute. repeat split; reflexivity. Qed.
Print Assumptions C12_xlsx_nonvacuous.

(* OLE property sets (util/ole_text._check_property_vectors, repair 1113e56): in an accepted stream every vector
   property claims at most as many elements as the stream has bytes ... *)
Theorem C12_ole_accepted_vectors_fit :
  forall d : list Z, 48 <= Ole.len d -> section_of d + 8 <= Ole.len d -> check_vectors d = true ->
    forall i ptype count, 0 <= i < Ole.num_props d -> prop_at d i = Some (ptype, count) ->
      is_vector ptype = true -> count <= Ole.len d.
Proof. exact accepted_vectors_fit. Qed.
Print Assumptions C12_ole_accepted_vectors_fit.

(* ... so the element loops olefile runs on it are bounded by (number of properties) x (stream length) *)
Theorem C12_ole_accepted_work_bounded :
  forall d : list Z, 48 <= Ole.len d -> section_of d + 8 <= Ole.len d -> check_vectors d = true ->
    vector_work d <= Z.max (Ole.num_props d) 0 * Ole.len d.
Proof. exact accepted_work_bounded. Qed.
Print Assumptions C12_ole_accepted_work_bounded.

(* without the guard the statement is false: 72 bytes cost 2^32 - 1 iterations (the defect that was repaired) *)
Theorem C12_ole_unguarded_work_refuted :
  exists d, Ole.len d = 72 /\ vector_work d = 4294967295 /\ check_vectors d = false.
Proof. exact unguarded_work_refuted. Qed.
Print Assumptions C12_ole_unguarded_work_refuted.
