From S2T Require Import C12.Model.
Open Scope Z_scope.
(* (max_file_size, size, implementation refused) *)
Definition read_file_case (c : Z * Z * bool) : bool := let '(m, s, r) := c in Bool.eqb (read_file_refuses m s) r.
Definition sevenz_case (c : Z * Z * bool) : bool := let '(m, s, r) := c in Bool.eqb (sevenz_refuses m s) r.
(* ODS: (rows, implementation's (nrows, ncols)) *)
Definition ods_case (c : list row * (nat * nat)) : bool :=
  let '(rs, (r, k)) := c in let '(r', k') := final_dims rs in Nat.eqb r r' && Nat.eqb k k'.
(* archives: (limit, members, ids decompressed, ids written, ids processed) as observed *)
Fixpoint ids_of (f : event -> option nat) (es : list event) : list nat :=
  match es with [] => [] | e :: r => match f e with Some i => i :: ids_of f r | None => ids_of f r end end.
Definition dec_id e := match e with Decompress i => Some i | _ => None end.
Definition wr_id e := match e with WriteDisk i => Some i | _ => None end.
Definition pr_id e := match e with Process i => Some i | _ => None end.
Fixpoint nat_list_eqb (a b : list nat) : bool :=
  match a, b with [], [] => true | x :: a', y :: b' => Nat.eqb x y && nat_list_eqb a' b' | _, _ => false end.
Definition mk (t : nat * Z * bool * bool) : member :=
  let '(i, s, r, k) := t in {| m_id := i; m_size := s; m_regular := r; m_skip := k |}.
Definition zip_case (c : Z * list (nat * Z * bool * bool) * list nat * list nat) : bool :=
  let '(limit, ms, dec, pr) := c in
  let es := zip_events limit (map mk ms) in
  nat_list_eqb (ids_of dec_id es) dec && nat_list_eqb (ids_of pr_id es) pr.
Definition sevenz_arch_case (c : Z * list (nat * Z * bool * bool) * list nat * list nat) : bool :=
  let '(limit, ms, wr, pr) := c in
  let es := sevenz_events limit (map mk ms) in
  nat_list_eqb (ids_of wr_id es) wr && nat_list_eqb (ids_of pr_id es) pr.

(* ODF text:s: (int(raw) or None, number of spaces the implementation produced) *)
Definition space_case (c : option Z * Z) : bool := let '(p, got) := c in space_count p =? got.
