(* C12 — the limits of today's source (dumped from the live modules) *)
From S2T Require Import C12.Model C12.Proofs Gen.C12Limits.
Open Scope Z_scope.

(* "a 7z archive above 100 MB is refused": the constant is 100 MiB, exactly *)
Theorem C12_sevenz_limit_is_100MB :
  MAX_7Z_FILE_SIZE = 100 * 1024 * 1024
  /\ sevenz_refuses MAX_7Z_FILE_SIZE (100 * 1024 * 1024) = false
  /\ sevenz_refuses MAX_7Z_FILE_SIZE (100 * 1024 * 1024 + 1) = true.
Proof. vm_compute. repeat split; reflexivity. Qed.
Print Assumptions C12_sevenz_limit_is_100MB.

(* default read_file limit: positive (so the check is on by default) *)
Theorem C12_read_file_default_on :
  0 < READ_FILE_DEFAULT_MAX
  /\ read_file_refuses READ_FILE_DEFAULT_MAX READ_FILE_DEFAULT_MAX = false
  /\ read_file_refuses READ_FILE_DEFAULT_MAX (READ_FILE_DEFAULT_MAX + 1) = true.
Proof. vm_compute. repeat split; reflexivity. Qed.
Print Assumptions C12_read_file_default_on.

(* the per-member limit applied before decompression is the stricter of the two member limits *)
Theorem C12_member_limit_consistent : 0 < MAX_MEMORY_SIZE /\ MAX_MEMORY_SIZE <= MAX_ARCHIVE_FILE_SIZE.
Proof. vm_compute. split; [reflexivity | discriminate]. Qed.
Print Assumptions C12_member_limit_consistent.
