(* C12 — XLSX: the sheet grid that _read_sheet_data / _format_sheet_as_text build from a sparse sheet.
   A sheet is given by the (row, column) positions (1-based) of its non-empty cells.  openpyxl's
   read-only reader (oracle, recorded in the correspondence) yields one tuple per row index 1..max_row,
   each as wide as the last cell present in that row (an empty tuple for a row without cells);
   _read_sheet_data keeps every row up to the last data row, cut to the last data column;
   _format_sheet_as_text pads EVERY row to the width of the widest one.  So the text has
   max_row x max_col fields whatever the number of cells is. *)
From Coq Require Import ZArith List Bool Lia.
Import ListNotations.
Open Scope Z_scope.

Definition xcell := (Z * Z)%type.

Definition max_row (cs : list xcell) : Z := fold_right (fun c a => Z.max (fst c) a) 0 cs.
Definition max_col (cs : list xcell) : Z := fold_right (fun c a => Z.max (snd c) a) 0 cs.

Definition in_row (r : Z) (c : xcell) : bool := fst c =? r.
Definition row_width (cs : list xcell) (r : Z) : Z := max_col (filter (in_row r) cs).
Definition row_indices (cs : list xcell) : list Z := map Z.of_nat (seq 1 (Z.to_nat (max_row cs))).
(* widths of the rows of all_rows (header row first) *)
Definition widths (cs : list xcell) : list Z := map (row_width cs) (row_indices cs).
Definition num_cols (cs : list xcell) : Z := fold_right Z.max 0 (widths cs).
(* fields of the aligned text block: every row padded to num_cols *)
Definition text_fields (cs : list xcell) : Z := Z.of_nat (length (widths cs)) * num_cols cs.

Definition valid (cs : list xcell) : bool := forallb (fun c => (1 <=? fst c) && (1 <=? snd c)) cs.

(* ---------------------------------------------------------------- proofs *)
Lemma max_row_nonneg cs : 0 <= max_row cs.
Proof. induction cs as [|c cs IH]; simpl; lia. Qed.
Lemma max_col_nonneg cs : 0 <= max_col cs.
Proof. induction cs as [|c cs IH]; simpl; lia. Qed.

Lemma max_row_ge cs c : In c cs -> fst c <= max_row cs.
Proof. induction cs as [|d cs IH]; simpl; [tauto|]. intros [->|H]; [lia|]. specialize (IH H). lia. Qed.
Lemma max_col_ge cs c : In c cs -> snd c <= max_col cs.
Proof. induction cs as [|d cs IH]; simpl; [tauto|]. intros [->|H]; [lia|]. specialize (IH H). lia. Qed.

Lemma max_col_filter_le cs f : max_col (filter f cs) <= max_col cs.
Proof. induction cs as [|d cs IH]; simpl; [lia|]. destruct (f d); simpl; lia. Qed.

Lemma max_col_attained cs : cs <> [] -> valid cs = true -> exists c, In c cs /\ snd c = max_col cs.
Proof.
  induction cs as [|d cs IH]; [congruence|]. intros _ Hv. simpl in Hv. apply andb_true_iff in Hv as [Hd Hv].
  destruct cs as [|e cs'].
  - exists d. split; [left; reflexivity|]. simpl. apply andb_true_iff in Hd as [_ Hd]. apply Z.leb_le in Hd. lia.
  - destruct (IH ltac:(congruence) Hv) as [c [Hin Hc]].
    destruct (Z_le_gt_dec (snd d) (max_col (e :: cs'))) as [Hle|Hgt].
    + exists c. split; [right; exact Hin|]. change (max_col (d :: e :: cs')) with (Z.max (snd d) (max_col (e :: cs'))). lia.
    + exists d. split; [left; reflexivity|]. change (max_col (d :: e :: cs')) with (Z.max (snd d) (max_col (e :: cs'))). lia.
Qed.

Lemma length_widths cs : Z.of_nat (length (widths cs)) = max_row cs.
Proof.
  unfold widths, row_indices. rewrite !map_length, seq_length. apply Z2Nat.id, max_row_nonneg.
Qed.

Lemma fold_max_le (l : list Z) (b : Z) : (forall x, In x l -> x <= b) -> 0 <= b -> fold_right Z.max 0 l <= b.
Proof. induction l as [|x l IH]; simpl; intros H Hb; [lia|]. specialize (H x (or_introl eq_refl)) as Hx.
  assert (fold_right Z.max 0 l <= b) by (apply IH; [intros y Hy; apply H; right; exact Hy | exact Hb]). lia. Qed.
Lemma fold_max_ge (l : list Z) (x : Z) : In x l -> x <= fold_right Z.max 0 l.
Proof. induction l as [|y l IH]; simpl; [tauto|]. intros [->|H]; [lia|]. specialize (IH H). lia. Qed.

Lemma num_cols_le cs : num_cols cs <= max_col cs.
Proof.
  unfold num_cols. apply fold_max_le; [|apply max_col_nonneg].
  intros x Hx. unfold widths in Hx. apply in_map_iff in Hx as [r [<- _]]. apply max_col_filter_le.
Qed.

Lemma in_row_indices cs r : 1 <= r <= max_row cs -> In r (row_indices cs).
Proof.
  intros Hr. unfold row_indices. apply in_map_iff. exists (Z.to_nat r). split; [apply Z2Nat.id; lia|].
  apply in_seq. lia.
Qed.

(* the widest row is as wide as the right-most cell of the sheet *)
Lemma num_cols_eq cs : valid cs = true -> num_cols cs = max_col cs.
Proof.
  intros Hv. destruct cs as [|d cs']; [reflexivity|].
  pose proof (num_cols_le (d :: cs')) as Hle.
  destruct (max_col_attained (d :: cs') ltac:(congruence) Hv) as [c [Hin Hc]].
  assert (Hc1 : 1 <= fst c).
  { unfold valid in Hv. rewrite forallb_forall in Hv. specialize (Hv c Hin). apply andb_true_iff in Hv as [H _].
    apply Z.leb_le in H. exact H. }
  assert (Hrow : In (fst c) (row_indices (d :: cs'))) by (apply in_row_indices; split; [exact Hc1 | apply max_row_ge, Hin]).
  assert (Hw : snd c <= row_width (d :: cs') (fst c)).
  { unfold row_width. apply max_col_ge. apply filter_In. split; [exact Hin|]. unfold in_row. apply Z.eqb_refl. }
  assert (row_width (d :: cs') (fst c) <= num_cols (d :: cs')).
  { unfold num_cols. apply fold_max_ge. unfold widths. apply in_map. exact Hrow. }
  lia.
Qed.

Theorem text_fields_grid cs : valid cs = true -> text_fields cs = max_row cs * max_col cs.
Proof. intros Hv. unfold text_fields. rewrite length_widths, num_cols_eq by exact Hv. reflexivity. Qed.

Lemma valid_two a b c d : 1 <= a -> 1 <= b -> 1 <= c -> 1 <= d -> valid [(a, b); (c, d)] = true.
Proof.
  intros Ha Hb Hc Hd. unfold valid. cbn [forallb fst snd].
  apply Z.leb_le in Ha, Hb, Hc, Hd. rewrite Ha, Hb, Hc, Hd. reflexivity.
Qed.

(* the full statement (output bounded by a fixed multiple K of the number of cells) is false: two cells suffice *)
Theorem text_fields_unbounded : forall K : Z, exists cs, valid cs = true /\ length cs = 2%nat /\ text_fields cs > K * 2.
Proof.
  intros K. exists [(1, 1); (2 * Z.abs K + 3, 1)].
  assert (Hv : valid [(1, 1); (2 * Z.abs K + 3, 1)] = true) by (apply valid_two; lia).
  split; [exact Hv|]. split; [reflexivity|].
  rewrite text_fields_grid by exact Hv. cbn [max_row max_col fold_right fst snd]. lia.
Qed.

Theorem text_fields_unbounded_columns : forall K : Z, exists cs, valid cs = true /\ length cs = 2%nat /\ text_fields cs > K * 2.
Proof.
  intros K. exists [(1, 2 * Z.abs K + 3); (2, 1)].
  assert (Hv : valid [(1, 2 * Z.abs K + 3); (2, 1)] = true) by (apply valid_two; lia).
  split; [exact Hv|]. split; [reflexivity|].
  rewrite text_fields_grid by exact Hv. cbn [max_row max_col fold_right fst snd]. lia.
Qed.

(* what does hold: a sheet whose cells fill the rectangle 1..n x 1..m has exactly one field per cell *)
Definition rectangle (n m : nat) : list xcell :=
  flat_map (fun r => map (fun c => (Z.of_nat r, Z.of_nat c)) (seq 1 m)) (seq 1 n).

Lemma max_row_bound cs b : 0 <= b -> (forall c, In c cs -> fst c <= b) -> max_row cs <= b.
Proof. induction cs as [|d cs IH]; simpl; intros Hb H; [lia|]. specialize (H d (or_introl eq_refl)) as Hd.
  assert (max_row cs <= b) by (apply IH; [exact Hb | intros c Hc; apply H; right; exact Hc]). lia. Qed.
Lemma max_col_bound cs b : 0 <= b -> (forall c, In c cs -> snd c <= b) -> max_col cs <= b.
Proof. induction cs as [|d cs IH]; simpl; intros Hb H; [lia|]. specialize (H d (or_introl eq_refl)) as Hd.
  assert (max_col cs <= b) by (apply IH; [exact Hb | intros c Hc; apply H; right; exact Hc]). lia. Qed.

Lemma in_rectangle n m c :
  In c (rectangle n m) <-> exists r k, c = (Z.of_nat r, Z.of_nat k) /\ (1 <= r <= n)%nat /\ (1 <= k <= m)%nat.
Proof.
  unfold rectangle. rewrite in_flat_map. split.
  - intros [r [Hr Hc]]. apply in_map_iff in Hc as [k [<- Hk]]. apply in_seq in Hr. apply in_seq in Hk.
    exists r, k. split; [reflexivity|]. lia.
  - intros [r [k [-> [Hr Hk]]]]. exists r. split; [apply in_seq; lia|]. apply in_map_iff. exists k. split; [reflexivity|apply in_seq; lia].
Qed.

Lemma length_rectangle n m : length (rectangle n m) = (n * m)%nat.
Proof.
  unfold rectangle. generalize 1%nat at 2. induction n as [|n IH]; intros s; simpl; [reflexivity|].
  rewrite app_length, map_length, seq_length, IH. reflexivity.
Qed.

Lemma valid_rectangle n m : valid (rectangle n m) = true.
Proof.
  unfold valid. apply forallb_forall. intros c Hc. apply in_rectangle in Hc as [r [k [-> [Hr Hk]]]]. simpl.
  apply andb_true_iff. split; apply Z.leb_le; lia.
Qed.

Theorem dense_sheet_linear n m : (1 <= n)%nat -> (1 <= m)%nat ->
  text_fields (rectangle n m) = Z.of_nat (length (rectangle n m)).
Proof.
  intros Hn Hm. rewrite text_fields_grid by apply valid_rectangle. rewrite length_rectangle, Nat2Z.inj_mul.
  assert (Hr : max_row (rectangle n m) = Z.of_nat n).
  { apply Z.le_antisymm.
    - apply max_row_bound; [lia|]. intros c Hc. apply in_rectangle in Hc as [r [k [-> [Hr Hk]]]]. simpl. lia.
    - change (Z.of_nat n) with (fst (Z.of_nat n, Z.of_nat m)). apply max_row_ge. apply in_rectangle. exists n, m. split; [reflexivity|lia]. }
  assert (Hc : max_col (rectangle n m) = Z.of_nat m).
  { apply Z.le_antisymm.
    - apply max_col_bound; [lia|]. intros c Hc. apply in_rectangle in Hc as [r [k [-> [Hr' Hk]]]]. simpl. lia.
    - change (Z.of_nat m) with (snd (Z.of_nat n, Z.of_nat m)). apply max_col_ge. apply in_rectangle. exists n, m. split; [reflexivity|lia]. }
  rewrite Hr, Hc. reflexivity.
Qed.

(* correspondence: (cells, (number of rows of all_rows, widest row, widths of the rows)) as observed *)
Fixpoint zlist_eqb (a b : list Z) : bool :=
  match a, b with [] , [] => true | x :: a', y :: b' => (x =? y) && zlist_eqb a' b' | _, _ => false end.
Definition xlsx_case (c : list xcell * (Z * Z * list Z)) : bool :=
  let '(cs, (n, k, ws)) := c in
  (Z.of_nat (length (widths cs)) =? n) && (num_cols cs =? k) && zlist_eqb (widths cs) ws.
