(* C12 — util/ole_text._check_property_vectors (added by the repair 1113e56): the guard that runs before olefile
   parses an OLE property set.  olefile loops `count` times over a VT_VECTOR property; the guard rejects a property
   set in which some vector claims more elements than the stream has bytes.  Model over the bytes of one stream. *)
From Coq Require Import List ZArith Bool Lia.
Import ListNotations.
Open Scope Z_scope.

Definition byte_at (d : list Z) (i : Z) : Z := nth (Z.to_nat i) d 0.
Definition u32le (d : list Z) (i : Z) : Z :=
  byte_at d i + 256 * byte_at d (i + 1) + 65536 * byte_at d (i + 2) + 16777216 * byte_at d (i + 3).
Definition len (d : list Z) : Z := Z.of_nat (length d).

Definition VT_VECTOR : Z := 4096.
Definition is_vector (ptype : Z) : bool := negb (Z.land ptype VT_VECTOR =? 0).

(* struct.unpack_from needs the 4 (8) bytes to exist; the code checks the bounds it relies on before every read *)
Definition section_of (d : list Z) : Z := u32le d 44.
Definition num_props (d : list Z) : Z :=
  Z.min (u32le d (section_of d + 4)) ((len d - section_of d - 8) / 8).

(* property i: Some (ptype, count) when its 8 bytes lie inside the stream, None when the code `continue`s *)
Definition prop_at (d : list Z) (i : Z) : option (Z * Z) :=
  let pos := section_of d + u32le d (section_of d + 12 + 8 * i) in
  if pos + 8 >? len d then None else Some (u32le d pos, u32le d (pos + 4)).

Definition prop_ok (d : list Z) (i : Z) : bool :=
  match prop_at d i with
  | None => true
  | Some (ptype, count) => negb (is_vector ptype && (count >? len d))
  end.

Definition indices (n : Z) : list Z := map Z.of_nat (seq 0 (Z.to_nat n)).

(* True = the property set is handed to olefile; false = ValueError *)
Definition check_vectors (d : list Z) : bool :=
  if len d <? 48 then true
  else if section_of d + 8 >? len d then true
  else forallb (prop_ok d) (indices (num_props d)).

(* ---- what olefile then does with an accepted stream: per property, a vector costs `count` iterations, anything
   else one step (olefile clamps the number of properties to len(section)/8 itself) *)
Definition prop_work (d : list Z) (i : Z) : Z :=
  match prop_at d i with
  | Some (ptype, count) => if is_vector ptype then count else 1
  | None => 1
  end.
Definition vector_work (d : list Z) : Z := fold_right (fun i a => prop_work d i + a) 0 (indices (num_props d)).

(* ---------------------------------------------------------------- proofs *)
Lemma in_indices n i : In i (indices n) <-> 0 <= i < n.
Proof.
  unfold indices. rewrite in_map_iff. split.
  - intros [k [<- Hk]]. apply in_seq in Hk. lia.
  - intros H. exists (Z.to_nat i). split; [apply Z2Nat.id; lia|]. apply in_seq. lia.
Qed.

Lemma length_indices n : Z.of_nat (length (indices n)) = Z.max n 0.
Proof. unfold indices. rewrite map_length, seq_length. lia. Qed.

Theorem accepted_vectors_fit d :
  48 <= len d -> section_of d + 8 <= len d -> check_vectors d = true ->
  forall i ptype count, 0 <= i < num_props d -> prop_at d i = Some (ptype, count) ->
    is_vector ptype = true -> count <= len d.
Proof.
  intros H48 Hs Hc i ptype count Hi Hp Hv. unfold check_vectors in Hc.
  destruct (len d <? 48) eqn:E1; [apply Z.ltb_lt in E1; lia|].
  destruct (section_of d + 8 >? len d) eqn:E2; [destruct (Z.gtb_spec (section_of d + 8) (len d)); [lia|discriminate]|].
  rewrite forallb_forall in Hc. specialize (Hc i (proj2 (in_indices _ _) Hi)).
  unfold prop_ok in Hc. rewrite Hp, Hv in Hc. simpl in Hc. apply negb_true_iff in Hc.
  destruct (Z.gtb_spec count (len d)); [discriminate|lia].
Qed.

Lemma prop_work_le d i : prop_ok d i = true -> 1 <= len d -> prop_work d i <= len d.
Proof.
  unfold prop_ok, prop_work. destruct (prop_at d i) as [[ptype count]|]; [|lia].
  destruct (is_vector ptype); simpl; [|lia]. intros H _. apply negb_true_iff in H.
  destruct (Z.gtb_spec count (len d)); [discriminate|lia].
Qed.

Lemma fold_work_le d l b : 0 <= b -> (forall i, In i l -> prop_work d i <= b) ->
  fold_right (fun i a => prop_work d i + a) 0 l <= Z.of_nat (length l) * b.
Proof.
  intros Hb. induction l as [|x l IH]; intros H; [simpl; lia|].
  cbn [fold_right length]. rewrite Nat2Z.inj_succ.
  assert (prop_work d x <= b) by (apply H; left; reflexivity).
  assert (fold_right (fun i a => prop_work d i + a) 0 l <= Z.of_nat (length l) * b) by (apply IH; intros i Hi; apply H; right; exact Hi).
  lia.
Qed.

(* the work olefile does on an accepted stream is at most (number of properties) x (stream length), and the number
   of properties is at most a eighth of the stream: no count field can make it run away *)
Theorem accepted_work_bounded d :
  48 <= len d -> section_of d + 8 <= len d -> check_vectors d = true ->
  vector_work d <= Z.max (num_props d) 0 * len d.
Proof.
  intros H48 Hs Hc. unfold vector_work. rewrite <- length_indices.
  apply fold_work_le; [lia|]. intros i Hi.
  apply prop_work_le; [|lia].
  unfold check_vectors in Hc.
  destruct (len d <? 48) eqn:E1; [apply Z.ltb_lt in E1; lia|].
  destruct (section_of d + 8 >? len d) eqn:E2; [destruct (Z.gtb_spec (section_of d + 8) (len d)); [lia|discriminate]|].
  rewrite forallb_forall in Hc. apply Hc. exact Hi.
Qed.

Lemma num_props_le d : 0 <= section_of d -> num_props d <= len d / 8.
Proof.
  intros Hs. unfold num_props.
  assert ((len d - section_of d - 8) / 8 <= len d / 8) by (apply Z.div_le_mono; lia). lia.
Qed.

(* without the guard the same cost model is unbounded in the stream length: the finding that was repaired *)
Definition hostile (n : Z) : list Z :=
  (* 44 header bytes, section offset 48 at 44..47, section: size, num_props = 1, (id, offset 16), type 0x1001, count n *)
  repeat 0 44 ++ [48; 0; 0; 0] ++ [24; 0; 0; 0] ++ [1; 0; 0; 0] ++ [2; 0; 0; 0] ++ [16; 0; 0; 0]
  ++ [1; 16; 0; 0] ++ [n mod 256; (n / 256) mod 256; (n / 65536) mod 256; (n / 16777216) mod 256].

Theorem unguarded_work_refuted :
  exists d, len d = 72 /\ vector_work d = 4294967295 /\ check_vectors d = false.
Proof. exists (hostile 4294967295). vm_compute. repeat split; reflexivity. Qed.

Example accepted_nonvacuous :
  check_vectors (hostile 60) = true /\ vector_work (hostile 60) = 60 /\ len (hostile 60) = 72
  /\ prop_at (hostile 60) 0 = Some (4097, 60).
Proof. vm_compute. repeat split; reflexivity. Qed.

(* correspondence: (stream bytes, True iff _check_property_vectors returned without raising) *)
Definition ole_case (c : list Z * bool) : bool := let '(d, ok) := c in Bool.eqb (check_vectors d) ok.
