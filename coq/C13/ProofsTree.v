(* C13 — tree / event walkers: DOCX, PPTX, ODT/ODP, EPUB.
   Round-trip theorems for the walkers of C13/Model.v over rendered abstract documents, and
   closed refutation witnesses for nested tables. *)
From Coq Require Import ZArith List Bool Lia ZifyBool.
From S2T Require Import Lib.PyStr C13.Model C13.ProofsRows.
Import ListNotations.
Notation length := List.length.
Notation concat := List.concat.
Open Scope N_scope.

(* ------------------------------------------------------------------ list lemmas *)
Lemma flat_map_map' {A B C} (f : B -> list C) (g : A -> B) l :
  flat_map f (map g l) = flat_map (fun x => f (g x)) l.
Proof. induction l; simpl; congruence. Qed.

Lemma flat_map_ext' {A B} (f g : A -> list B) l :
  (forall a, f a = g a) -> flat_map f l = flat_map g l.
Proof. intro H; induction l; simpl; [reflexivity|]. rewrite H, IHl. reflexivity. Qed.

Lemma flat_map_nil' {A B} (f : A -> list B) l : (forall a, f a = []) -> flat_map f l = [].
Proof. intro H; induction l; simpl; [reflexivity|]. rewrite H, IHl. reflexivity. Qed.

Lemma flat_map_single {A B} (f : A -> B) l : flat_map (fun x => [f x]) l = map f l.
Proof. induction l; simpl; congruence. Qed.

Lemma flat_map_mapf {A B C} (f : B -> C) (h : A -> list B) l :
  flat_map (fun x => map f (h x)) l = map f (flat_map h l).
Proof. induction l; simpl; [reflexivity|]. rewrite map_app, IHl. reflexivity. Qed.

Lemma flat_map_map_concat {A B} (f : A -> B) (l : list (list A)) :
  flat_map (fun c => map f c) l = map f (concat l).
Proof. induction l; simpl; [reflexivity|]. rewrite map_app, IHl. reflexivity. Qed.

Lemma flat_map_id_concat {A} (l : list (list A)) : flat_map (fun x => x) l = concat l.
Proof. induction l; simpl; congruence. Qed.

Lemma flat_map_concat2 {A} (g : list (list (list A))) : flat_map (@concat A) g = concat (concat g).
Proof. induction g; simpl; [reflexivity|]. rewrite concat_app, IHg. reflexivity. Qed.

Lemma flat_map_flat_map' {A B C} (f : B -> list C) (g : A -> list B) l :
  flat_map f (flat_map g l) = flat_map (fun x => flat_map f (g x)) l.
Proof. induction l; simpl; [reflexivity|]. rewrite flat_map_app, IHl. reflexivity. Qed.

Lemma filter_flat_map {A B} (p : B -> bool) (f : A -> list B) l :
  filter p (flat_map f l) = flat_map (fun x => filter p (f x)) l.
Proof. induction l; simpl; [reflexivity|]. rewrite filter_app, IHl. reflexivity. Qed.

Lemma filter_map_true {A B} (p : B -> bool) (g : A -> B) l :
  (forall a, p (g a) = true) -> filter p (map g l) = map g l.
Proof. intro H; induction l; simpl; [reflexivity|]. rewrite H, IHl. reflexivity. Qed.

Lemma filter_map_false {A B} (p : B -> bool) (g : A -> B) l :
  (forall a, p (g a) = false) -> filter p (map g l) = [].
Proof. intro H; induction l; simpl; [reflexivity|]. rewrite H, IHl. reflexivity. Qed.

Lemma is_nil_rev {A} (l : list A) : is_nil (rev l) = is_nil l.
Proof.
  destruct l as [|x l]; [reflexivity|]. simpl. destruct (rev l); reflexivity.
Qed.

Lemma is_nil_map {A B} (f : A -> B) l : is_nil (map f l) = is_nil l.
Proof. destruct l; reflexivity. Qed.

(* closed tag comparisons: replace [str_eqb a b] / [mem_str a l] by its value when it computes *)
Ltac tagc :=
  repeat match goal with
  | |- context [str_eqb ?a ?b] =>
      let v := eval vm_compute in (str_eqb a b) in
      match v with true => idtac | false => idtac end;
      let H := fresh in
      assert (H : str_eqb a b = v) by (vm_compute; reflexivity);
      rewrite !H; clear H
  | |- context [mem_str ?a ?b] =>
      let v := eval vm_compute in (mem_str a b) in
      match v with true => idtac | false => idtac end;
      let H := fresh in
      assert (H : mem_str a b = v) by (vm_compute; reflexivity);
      rewrite !H; clear H
  end.

(* ------------------------------------------------------------------ ElementTree unfolding *)
Lemma iter_unfold t a x cs l : iter (Elem t a x cs l) = Elem t a x cs l :: flat_map iter cs.
Proof.
  reflexivity.
Qed.

Lemma iter_tag_unfold t tg a x cs l :
  iter_tag t (Elem tg a x cs l)
  = (if str_eqb tg t then [Elem tg a x cs l] else []) ++ flat_map (iter_tag t) cs.
Proof.
  unfold iter_tag at 1. rewrite iter_unfold. cbn [filter]. unfold tag_is at 1. cbn [xtag].
  rewrite filter_flat_map. destruct (str_eqb tg t); reflexivity.
Qed.

Lemma iter_tag_E t tg cs :
  iter_tag t (E tg cs) = (if str_eqb tg t then [E tg cs] else []) ++ flat_map (iter_tag t) cs.
Proof. apply iter_tag_unfold. Qed.

Lemma iter_tag_ET t tg x : iter_tag t (ET tg x) = if str_eqb tg t then [ET tg x] else [].
Proof. unfold ET. rewrite iter_tag_unfold. cbn [flat_map]. apply app_nil_r. Qed.

Lemma findall_E t tg cs : findall t (E tg cs) = filter (tag_is t) cs.
Proof. reflexivity. Qed.

Lemma tag_is_E t tg cs : tag_is t (E tg cs) = str_eqb tg t.
Proof. reflexivity. Qed.

Lemma tag_is_ET t tg x : tag_is t (ET tg x) = str_eqb tg t.
Proof. reflexivity. Qed.

Lemma xchildren_E t cs : xchildren (E t cs) = cs.
Proof. reflexivity. Qed.

(* ------------------------------------------------------------------ DOCX *)
Definition citem_all (i : citem) : list para :=
  match i with CPara p => [p] | CTable g => concat (concat g) end.
Definition citem_nested (i : citem) : list fgrid :=
  match i with CPara _ => [] | CTable g => [g] end.

Lemma dx_T_run t : iter_tag W_T (docx_r_run t) = [ET W_T t].
Proof. unfold docx_r_run. rewrite iter_tag_E. cbn [flat_map]. rewrite iter_tag_ET. tagc. reflexivity. Qed.

Lemma dx_T_para p : iter_tag W_T (docx_r_para p) = map (ET W_T) p.
Proof.
  unfold docx_r_para. rewrite iter_tag_E, flat_map_map'. tagc. cbn [app].
  rewrite (flat_map_ext' _ (fun t => [ET W_T t])) by (intro; apply dx_T_run).
  apply flat_map_single.
Qed.

Lemma dx_text_para p : docx_collect_text (docx_r_para p) = concat p.
Proof.
  unfold docx_collect_text. rewrite dx_T_para, map_map. cbn [xtext ET]. rewrite map_id. reflexivity.
Qed.

Lemma dx_P_run t : iter_tag W_P (docx_r_run t) = [].
Proof. unfold docx_r_run. rewrite iter_tag_E. cbn [flat_map]. rewrite iter_tag_ET. tagc. reflexivity. Qed.

Lemma dx_TBL_run t : iter_tag W_TBL (docx_r_run t) = [].
Proof. unfold docx_r_run. rewrite iter_tag_E. cbn [flat_map]. rewrite iter_tag_ET. tagc. reflexivity. Qed.

Lemma dx_P_para p : iter_tag W_P (docx_r_para p) = [docx_r_para p].
Proof.
  unfold docx_r_para. rewrite iter_tag_E, flat_map_map'. tagc.
  rewrite flat_map_nil' by (intro; apply dx_P_run). reflexivity.
Qed.

Lemma dx_TBL_para p : iter_tag W_TBL (docx_r_para p) = [].
Proof.
  unfold docx_r_para. rewrite iter_tag_E, flat_map_map'. tagc.
  rewrite flat_map_nil' by (intro; apply dx_TBL_run). reflexivity.
Qed.

Lemma dx_P_fcell c : iter_tag W_P (docx_r_fcell c) = map docx_r_para c.
Proof.
  unfold docx_r_fcell. rewrite iter_tag_E, flat_map_map'. tagc. cbn [app].
  rewrite (flat_map_ext' _ (fun p => [docx_r_para p])) by (intro; apply dx_P_para).
  apply flat_map_single.
Qed.

Lemma dx_TBL_fcell c : iter_tag W_TBL (docx_r_fcell c) = [].
Proof.
  unfold docx_r_fcell. rewrite iter_tag_E, flat_map_map'. tagc. cbn [app].
  apply flat_map_nil'. intro; apply dx_TBL_para.
Qed.

Lemma dx_P_ftable g : iter_tag W_P (docx_r_ftable g) = map docx_r_para (concat (concat g)).
Proof.
  unfold docx_r_ftable. rewrite iter_tag_E, flat_map_map'. tagc. cbn [app].
  rewrite (flat_map_ext' _ (fun r => map docx_r_para (concat r))).
  - rewrite flat_map_mapf, flat_map_concat2. reflexivity.
  - intro r. rewrite iter_tag_E, flat_map_map'. tagc. cbn [app].
    rewrite (flat_map_ext' _ (fun c => map docx_r_para c)) by (intro; apply dx_P_fcell).
    apply flat_map_map_concat.
Qed.

Lemma dx_TBL_ftable g : iter_tag W_TBL (docx_r_ftable g) = [docx_r_ftable g].
Proof.
  unfold docx_r_ftable. rewrite iter_tag_E, flat_map_map'. tagc.
  rewrite flat_map_nil'; [reflexivity|].
  intro r. rewrite iter_tag_E, flat_map_map'. tagc. cbn [app].
  apply flat_map_nil'. intro; apply dx_TBL_fcell.
Qed.

Lemma dx_P_citem i : iter_tag W_P (docx_r_citem i) = map docx_r_para (citem_all i).
Proof. destruct i; cbn [docx_r_citem citem_all]; [apply dx_P_para | apply dx_P_ftable]. Qed.

Lemma dx_TBL_citem i : iter_tag W_TBL (docx_r_citem i) = map docx_r_ftable (citem_nested i).
Proof. destruct i; cbn [docx_r_citem citem_nested]; [apply dx_TBL_para | apply dx_TBL_ftable]. Qed.

Lemma dx_P_cell c : iter_tag W_P (docx_r_cell c) = map docx_r_para (cell_all_paras c).
Proof.
  unfold docx_r_cell. rewrite iter_tag_E, flat_map_map'. tagc. cbn [app].
  rewrite (flat_map_ext' _ (fun i => map docx_r_para (citem_all i))) by (intro; apply dx_P_citem).
  apply (flat_map_mapf docx_r_para citem_all).
Qed.

Lemma dx_TBL_cell c : iter_tag W_TBL (docx_r_cell c) = map docx_r_ftable (nested_of_cell c).
Proof.
  unfold docx_r_cell. rewrite iter_tag_E, flat_map_map'. tagc. cbn [app].
  rewrite (flat_map_ext' _ (fun i => map docx_r_ftable (citem_nested i))) by (intro; apply dx_TBL_citem).
  apply (flat_map_mapf docx_r_ftable citem_nested).
Qed.

Lemma dx_cell_fcell c : docx_cell (docx_r_fcell c) = fcell_text c.
Proof.
  unfold docx_cell, fcell_text. rewrite dx_P_fcell, map_map. f_equal.
  apply map_ext. intro; apply dx_text_para.
Qed.

Lemma dx_cell_cell c : docx_cell (docx_r_cell c) = cell_text_all c.
Proof.
  unfold docx_cell, cell_text_all. rewrite dx_P_cell, map_map. f_equal.
  apply map_ext. intro; apply dx_text_para.
Qed.

Lemma forallb_map_true {A B} (p : B -> bool) (g : A -> B) l :
  (forall a, p (g a) = true) -> forallb p (map g l) = true.
Proof. intro H; induction l; cbn [map forallb]; [reflexivity|]. rewrite H, IHl. reflexivity. Qed.

(* all children carry the wanted tag: through(parent, tag) = the children *)
Lemma docx_through_map {A} T tg (g : A -> xml) l :
  (forall a, tag_is T (g a) = true) -> docx_through T (E tg (map g l)) = map g l.
Proof.
  intro H. unfold docx_through, E. apply collect_all_leaves. apply forallb_map_true, H.
Qed.

Lemma dx_table_ftable g : docx_table (docx_r_ftable g) = fgrid_text g.
Proof.
  unfold docx_table, docx_r_ftable, fgrid_text.
  rewrite docx_through_map by (intro; reflexivity).
  rewrite map_map. apply map_ext. intro r.
  rewrite docx_through_map by (intro; reflexivity).
  rewrite map_map. apply map_ext. intro; apply dx_cell_fcell.
Qed.

Lemma dx_table_table g : docx_table (docx_r_table g) = map (map cell_text_all) g.
Proof.
  unfold docx_table, docx_r_table.
  rewrite docx_through_map by (intro; reflexivity).
  rewrite map_map. apply map_ext. intro r.
  rewrite docx_through_map by (intro; reflexivity).
  rewrite map_map. apply map_ext. intro; apply dx_cell_cell.
Qed.

Lemma dx_TBL_table g :
  iter_tag W_TBL (docx_r_table g) = docx_r_table g :: map docx_r_ftable (nested_of_grid g).
Proof.
  unfold docx_r_table. rewrite iter_tag_E, flat_map_map'. tagc. cbn [app]. f_equal.
  unfold nested_of_grid.
  rewrite (flat_map_ext' _ (fun r => map docx_r_ftable (flat_map nested_of_cell r))).
  - apply flat_map_mapf.
  - intro r. rewrite iter_tag_E, flat_map_map'. tagc. cbn [app].
    rewrite (flat_map_ext' _ (fun c => map docx_r_ftable (nested_of_cell c))) by (intro; apply dx_TBL_cell).
    apply flat_map_mapf.
Qed.

(* a rendered top-level table: itself, then its nested tables, each read by docx_table *)
Lemma dx_tables_of_table g :
  map docx_table (iter_tag W_TBL (docx_r_table g))
  = map (map cell_text_all) g :: map fgrid_text (nested_of_grid g).
Proof.
  rewrite dx_TBL_table. cbn [map]. rewrite dx_table_table, map_map. f_equal.
  apply map_ext. intro; apply dx_table_ftable.
Qed.

(* D2: the walker returns every table, nested ones included, in document pre-order *)
Theorem docx_tables_preorder : forall d, docx_tables (docx_r_body d) = spec_preorder d.
Proof.
  intro d. unfold docx_tables, docx_r_body, spec_preorder, top_tables. rewrite xchildren_E.
  rewrite flat_map_map', flat_map_flat_map'. apply flat_map_ext'. intros [p|g].
  - cbn [docx_r_block flat_map]. unfold docx_r_para. rewrite tag_is_E.
    change (xtag (E W_P (map docx_r_run p))) with W_P. tagc. reflexivity.
  - cbn [docx_r_block flat_map]. rewrite app_nil_r.
    replace (tag_is W_TBL (docx_r_table g)) with true by (vm_compute; reflexivity).
    apply dx_tables_of_table.
Qed.

Lemma flat_cell c :
  forallb is_cpara c = true -> cell_all_paras c = cell_own_paras c /\ nested_of_cell c = [].
Proof.
  unfold cell_all_paras, cell_own_paras, nested_of_cell.
  induction c as [|[p|g] c IH]; simpl; intro H; [auto| |discriminate].
  destruct (IH H) as [E1 E2]. rewrite E1, E2. auto.
Qed.

Lemma flat_row r :
  forallb (forallb is_cpara) r = true ->
  map cell_text_all r = map cell_text_own r /\ flat_map nested_of_cell r = [].
Proof.
  induction r as [|c r IH]; simpl; intro H; [auto|].
  apply andb_true_iff in H as [Hc Hr]. destruct (IH Hr) as [E1 E2].
  destruct (flat_cell c Hc) as [E3 E4]. rewrite E1, E2, E4.
  unfold cell_text_all, cell_text_own. rewrite E3. auto.
Qed.

Lemma flat_grid g :
  grid_flat g = true ->
  map (map cell_text_all) g = map (map cell_text_own) g /\ nested_of_grid g = [].
Proof.
  unfold grid_flat, nested_of_grid.
  induction g as [|r g IH]; simpl; intro H; [auto|].
  apply andb_true_iff in H as [Hr Hg]. destruct (IH Hg) as [E1 E2].
  destruct (flat_row r Hr) as [E3 E4]. rewrite E1, E2, E3, E4. auto.
Qed.

Lemma spec_preorder_flat d : no_nested_tables d = true -> spec_preorder d = spec_top d.
Proof.
  unfold no_nested_tables, spec_preorder, spec_top, top_tables.
  induction d as [|[p|g] d IH]; simpl; intro H; [reflexivity | apply IH, H |].
  apply andb_true_iff in H as [Hg Hd]. destruct (flat_grid g Hg) as [E1 E2].
  rewrite E1, E2. simpl. f_equal. apply IH, Hd.
Qed.

(* D1 *)
Theorem docx_tables_flat : forall d, no_nested_tables d = true -> docx_tables (docx_r_body d) = spec_top d.
Proof. intros d H. rewrite docx_tables_preorder. apply spec_preorder_flat, H. Qed.

(* D3 *)
Definition docx_d0 : doc :=
  [BTable [[ [CPara [s "outer"]; CTable [[ [[s "inner"]] ]]] ; [CPara [s "x"]] ]]].

Example docx_d0_value :
  docx_tables (docx_r_body docx_d0) = [ [[s "outer" ++ NL ++ s "inner"; s "x"]]; [[s "inner"]] ]
  /\ spec_top docx_d0 = [ [[s "outer"; s "x"]] ].
Proof. split; vm_compute; reflexivity. Qed.

Theorem docx_toplevel_refuted : exists d, docx_tables (docx_r_body d) <> spec_top d.
Proof. exists docx_d0. intro H. vm_compute in H. discriminate H. Qed.

(* D4 *)
Corollary docx_adjacent : forall g1 g2, grid_flat g1 = true -> grid_flat g2 = true ->
  docx_tables (docx_r_body [BTable g1; BTable g2])
  = [map (map cell_text_own) g1; map (map cell_text_own) g2].
Proof.
  intros g1 g2 H1 H2. rewrite docx_tables_flat; [reflexivity|].
  unfold no_nested_tables. cbn [forallb]. rewrite H1, H2. reflexivity.
Qed.

(* D5 *)
Example no_nested_sat :
  no_nested_tables [BPara [s "t"];
                    BTable [[ [CPara [s "a"]]; [CPara [s "b"]] ]; [ [CPara [s "c"]]; [CPara [s "d"; s "e"]] ]]] = true
  /\ docx_tables (docx_r_body [BPara [s "t"];
                    BTable [[ [CPara [s "a"]]; [CPara [s "b"]] ]; [ [CPara [s "c"]]; [CPara [s "d"; s "e"]] ]]])
     = [ [[s "a"; s "b"]; [s "c"; s "de"]] ].
Proof. split; vm_compute; reflexivity. Qed.

(* ------------------------------------------------------------------ DOCX: content controls / customXml *)
Definition okc (leaf : str) (chain : list str) : bool := chain_ok leaf DOCX_WRAPPERS chain.

Theorem docx_row_cells_wrapped : forall t a x l (segs : list (list str * list xml)),
  forallb (fun sg => okc W_TC (fst sg) && forallb (tag_is W_TC) (snd sg)) segs = true ->
  docx_through W_TC (Elem t a x (flat_map (fun sg => wrap_chain (fst sg) (snd sg)) segs) l)
  = flat_map snd segs.
Proof. intros. unfold docx_through. apply collect_through_segments. assumption. Qed.

Theorem docx_table_rows_wrapped : forall t a x l (segs : list (list str * list xml)),
  forallb (fun sg => okc W_TR (fst sg) && forallb (tag_is W_TR) (snd sg)) segs = true ->
  docx_through W_TR (Elem t a x (flat_map (fun sg => wrap_chain (fst sg) (snd sg)) segs) l)
  = flat_map snd segs.
Proof. intros. unfold docx_through. apply collect_through_segments. assumption. Qed.

Theorem docx_tables_through_wrapped : forall t a x l (segs : list (list str * list xml)),
  forallb (fun sg => okc W_TBL (fst sg) && forallb (tag_is W_TBL) (snd sg)) segs = true ->
  docx_through W_TBL (Elem t a x (flat_map (fun sg => wrap_chain (fst sg) (snd sg)) segs) l)
  = flat_map snd segs.
Proof. intros. unfold docx_through. apply collect_through_segments. assumption. Qed.

Lemma segs_all_leaves leaf (segs : list (list str * list xml)) :
  forallb (fun sg => okc leaf (fst sg) && forallb (tag_is leaf) (snd sg)) segs = true ->
  forallb (tag_is leaf) (flat_map snd segs) = true.
Proof.
  induction segs as [|sg segs IH]; intro H; [reflexivity|].
  cbn [forallb] in H. apply andb_true_iff in H as [H1 H2]. apply andb_true_iff in H1 as [_ Hl].
  cbn [flat_map]. rewrite forallb_app, Hl. exact (IH H2).
Qed.

(* rows inside wrapper chains: the same table as with the rows as direct children *)
Theorem docx_table_wrapped_eq : forall (segs : list (list str * list xml)),
  forallb (fun sg => okc W_TR (fst sg) && forallb (tag_is W_TR) (snd sg)) segs = true ->
  docx_table (E W_TBL (flat_map (fun sg => wrap_chain (fst sg) (snd sg)) segs))
  = docx_table (E W_TBL (flat_map snd segs)).
Proof.
  intros segs H. unfold docx_table, E. rewrite (docx_table_rows_wrapped _ _ _ _ segs H).
  unfold docx_through at 3. rewrite collect_all_leaves by (apply segs_all_leaves, H). reflexivity.
Qed.

(* and the same one level down: cells inside wrapper chains *)
Theorem docx_row_wrapped_eq : forall (segs : list (list str * list xml)),
  forallb (fun sg => okc W_TC (fst sg) && forallb (tag_is W_TC) (snd sg)) segs = true ->
  map docx_cell (docx_through W_TC (E W_TR (flat_map (fun sg => wrap_chain (fst sg) (snd sg)) segs)))
  = map docx_cell (flat_map snd segs).
Proof. intros segs H. unfold E. rewrite (docx_row_cells_wrapped _ _ _ _ segs H). reflexivity. Qed.

(* leaves of any tags under a wrapper chain: the chain is transparent *)
Lemma collect_chain_any leaf chain (L : list xml) :
  okc leaf chain = true ->
  flat_map (collect_child leaf DOCX_WRAPPERS) (wrap_chain chain L)
  = flat_map (collect_child leaf DOCX_WRAPPERS) L.
Proof.
  unfold okc. induction chain as [|w ch IH]; intro H; [reflexivity|].
  cbn [chain_ok forallb] in H. apply andb_true_iff in H as [Hw Hch].
  apply andb_true_iff in Hw as [Hm Hn]. apply negb_true_iff in Hn.
  cbn [wrap_chain flat_map]. rewrite app_nil_r. unfold collect_child at 1.
  rewrite tag_is_E, Hn. change (xtag (E w (wrap_chain ch L))) with w. rewrite Hm.
  unfold E. rewrite collect_through_unfold. exact (IH Hch).
Qed.

Lemma collect_TBL_block b :
  collect_child W_TBL DOCX_WRAPPERS (docx_r_block b)
  = match b with BPara _ => [] | BTable g => [docx_r_table g] end.
Proof.
  destruct b as [p|g]; cbn [docx_r_block].
  - apply collect_child_other; vm_compute; reflexivity.
  - unfold collect_child.
    replace (tag_is W_TBL (docx_r_table g)) with true by (vm_compute; reflexivity). reflexivity.
Qed.

(* a whole document inside a body-level content control / customXml chain *)
Theorem docx_tables_body_wrapped : forall (chain : list str) (d : doc),
  chain <> [] -> okc W_TBL chain = true ->
  docx_tables (E W_BODY (wrap_chain chain (map docx_r_block d))) = spec_preorder d.
Proof.
  intros [|w ch] d Hne H; [congruence|]. clear Hne.
  unfold okc in H. cbn [chain_ok forallb] in H. apply andb_true_iff in H as [Hw Hch].
  apply andb_true_iff in Hw as [Hm Hn]. apply negb_true_iff in Hn.
  unfold docx_tables. rewrite xchildren_E. cbn [wrap_chain flat_map]. rewrite app_nil_r.
  rewrite tag_is_E, Hn. change (xtag (E w (wrap_chain ch (map docx_r_block d)))) with w. rewrite Hm.
  unfold docx_through, E. rewrite collect_through_unfold.
  rewrite (collect_chain_any W_TBL ch _ Hch).
  unfold spec_preorder, top_tables.
  rewrite flat_map_map', !flat_map_flat_map'. apply flat_map_ext'. intro b.
  rewrite collect_TBL_block. destruct b as [p|g]; [reflexivity|].
  cbn [flat_map]. rewrite !app_nil_r. apply dx_tables_of_table.
Qed.

Example docx_wrapper_chains_ok :
  okc W_TBL [s "w:sdt"; s "w:sdtContent"] = true /\ okc W_TBL [s "w:customXml"] = true
  /\ okc W_TR [s "w:sdt"; s "w:sdtContent"] = true /\ okc W_TC [s "w:customXml"; s "w:sdt"; s "w:sdtContent"] = true.
Proof. repeat split; vm_compute; reflexivity. Qed.

Corollary docx_tables_body_sdt : forall d,
  docx_tables (E W_BODY [E (s "w:sdt") [E (s "w:sdtContent") (map docx_r_block d)]]) = spec_preorder d.
Proof.
  intro d. apply (docx_tables_body_wrapped [s "w:sdt"; s "w:sdtContent"] d); [discriminate | vm_compute; reflexivity].
Qed.

Corollary docx_tables_body_customxml : forall d,
  docx_tables (E W_BODY [E (s "w:customXml") (map docx_r_block d)]) = spec_preorder d.
Proof.
  intro d. apply (docx_tables_body_wrapped [s "w:customXml"] d); [discriminate | vm_compute; reflexivity].
Qed.

(* the walker before the fix lost a table inside a body-level content control *)
Definition docx_sdt_body : xml :=
  E W_BODY [E (s "w:sdt") [E (s "w:sdtPr") []; E (s "w:sdtContent") [docx_r_ftable [[ [[s "in sdt"]] ]]]]].

Theorem docx_tables_direct_lost_wrapped :
  exists body, docx_tables_direct body = [] /\ docx_tables body = [[[s "in sdt"]]].
Proof. exists docx_sdt_body. split; vm_compute; reflexivity. Qed.

(* a row and a cell wrapped in w:sdt: dropped before the fix, returned in place after it *)
Definition docx_sdt_row_table : xml :=
  E W_TBL [E W_TR [docx_r_fcell [[s "h"]]];
           E (s "w:sdt") [E (s "w:sdtPr") [];
             E (s "w:sdtContent")
               [E W_TR [docx_r_fcell [[s "row in sdt"]];
                        E (s "w:sdt") [E (s "w:sdtContent") [docx_r_fcell [[s "cell in sdt"]]]]]]]].

Example docx_wrapped_row_cell :
  docx_tables_direct (E W_BODY [docx_sdt_row_table]) = [[[s "h"]]]
  /\ docx_tables (E W_BODY [docx_sdt_row_table]) = [[[s "h"]; [s "row in sdt"; s "cell in sdt"]]].
Proof. split; vm_compute; reflexivity. Qed.

(* ------------------------------------------------------------------ PPTX *)
Section PPTX.
Variable is_ws : N -> bool.

Lemma px_P_run t : iter_tag A_P (E A_R [ET A_T t]) = [].
Proof. rewrite iter_tag_E. cbn [flat_map]. rewrite iter_tag_ET. tagc. reflexivity. Qed.

Lemma px_P_para p : iter_tag A_P (pptx_r_para p) = [pptx_r_para p].
Proof.
  unfold pptx_r_para. rewrite iter_tag_E, flat_map_map'. tagc.
  rewrite flat_map_nil' by (intro; apply px_P_run). reflexivity.
Qed.

Lemma px_para_text p : pptx_para_text (pptx_r_para p) = concat p.
Proof.
  unfold pptx_para_text, pptx_r_para. rewrite xchildren_E, map_map.
  rewrite (map_ext _ (fun t => t)); [rewrite map_id; reflexivity|].
  intro t. rewrite !tag_is_E. tagc. cbn [orb]. unfold find. rewrite findall_E. cbn [filter].
  rewrite tag_is_ET. tagc. reflexivity.
Qed.

Lemma px_paras_text c : pptx_paragraphs_text (E A_TXBODY (map pptx_r_para c)) = fcell_text c.
Proof.
  unfold pptx_paragraphs_text, fcell_text. rewrite iter_tag_E, flat_map_map'. tagc. cbn [app].
  rewrite (flat_map_ext' _ (fun p => [pptx_r_para p])) by (intro; apply px_P_para).
  rewrite flat_map_single, map_map. f_equal. apply map_ext. intro; apply px_para_text.
Qed.

Theorem pptx_table_roundtrip : forall g,
  pptx_table is_ws (pptx_r_frame g) = Some (map (map (fun c => strip is_ws (fcell_text c))) g).
Proof.
  intro g. unfold pptx_table, pptx_r_frame.
  rewrite iter_tag_E. cbn [flat_map]. rewrite iter_tag_E. cbn [flat_map]. rewrite iter_tag_unfold.
  tagc. cbn [app].
  unfold xget, has_key, find. cbn [xattrs assoc findall xchildren filter]. rewrite tag_is_E. tagc.
  cbn [negb orb hd_error]. f_equal.
  rewrite findall_E, filter_map_true by (intro; reflexivity).
  rewrite map_map. apply map_ext. intro r.
  rewrite findall_E, filter_map_true by (intro; reflexivity).
  rewrite map_map. apply map_ext. intro c.
  unfold pptx_r_cell. rewrite findall_E. cbn [filter]. rewrite tag_is_E. tagc. cbn [hd_error].
  rewrite px_paras_text. reflexivity.
Qed.

(* P2 *)
Definition cells_stripped (g : fgrid) : bool :=
  forallb (forallb (fun c => str_eqb (strip is_ws (fcell_text c)) (fcell_text c))) g.

Corollary pptx_table_stripped : forall g, cells_stripped g = true ->
  pptx_table is_ws (pptx_r_frame g) = Some (fgrid_text g).
Proof.
  intros g H. rewrite pptx_table_roundtrip. f_equal. unfold fgrid_text, cells_stripped in *.
  induction g as [|r g IH]; [reflexivity|]. cbn [map forallb] in *.
  apply andb_true_iff in H as [Hr Hg]. rewrite (IH Hg). f_equal.
  clear IH Hg. induction r as [|c r IH]; [reflexivity|]. cbn [map forallb] in *.
  apply andb_true_iff in Hr as [Hc Hr]. apply str_eqb_eq in Hc. rewrite Hc, (IH Hr). reflexivity.
Qed.
End PPTX.

Example pptx_stripped_sat :
  cells_stripped ws_ascii [[ [[s "a b"]; [s "c"]]; [[s "d"]] ]; [ [[s "e"; s "f"]] ]] = true
  /\ pptx_table ws_ascii (pptx_r_frame [[ [[s "a b"]; [s "c"]]; [[s "d"]] ]; [ [[s "e"; s "f"]] ]])
     = Some [[s "a b" ++ NL ++ s "c"; s "d"]; [s "ef"]].
Proof. split; vm_compute; reflexivity. Qed.

(* a cell with surrounding blanks is stripped: the side condition of P2 is needed *)
Example pptx_strip_witness :
  pptx_table ws_ascii (pptx_r_frame [[ [[s " a "]] ]]) = Some [[s "a"]].
Proof. vm_compute; reflexivity. Qed.

(* ------------------------------------------------------------------ ODF text, ODT, ODP *)
Definition rows_nonempty {A} (g : list (list A)) : bool := forallb (fun r => negb (is_nil r)) g.
Definition grid_nonempty {A} (g : list (list A)) : bool := negb (is_nil g) && rows_nonempty g.
Definition grids_nonempty (d : doc) : bool :=
  forallb (fun b => match b with BPara _ => true | BTable g => grid_nonempty g end) d.

Definition odf_child (pint : int_oracle) (skip : list str) (c : xml) : str :=
  (if mem_str (xtag c) skip then []
   else if tag_is TEXT_S c then
     let n := match pint (xget ATTR_TEXT_C (s "1") c) with Some n => n | None => 1%Z end in
     repeat_list SP (Z.to_nat n)
   else if tag_is TEXT_TAB c then [9]
   else if tag_is TEXT_LB c then NL
   else odf_text pint skip c) ++ xtail c.

Lemma odf_text_unfold pint skip t a tx cs tl :
  odf_text pint skip (Elem t a tx cs tl) = tx ++ flat_map (odf_child pint skip) cs.
Proof.
  cbn [odf_text]. f_equal. induction cs as [|c r IH]; [reflexivity|].
  cbn [flat_map]. rewrite <- IH. unfold odf_child. rewrite <- app_assoc. reflexivity.
Qed.

Section ODF.
Variable pint : int_oracle.
Variable skip : list str.
Hypothesis Hskip : mem_str TEXT_SPAN skip = false.

(* O1 *)
Lemma odf_text_para p : odf_text pint skip (odf_r_para p) = concat p.
Proof.
  destruct p as [|t0 rest]; unfold odf_r_para.
  - unfold ET. rewrite odf_text_unfold. reflexivity.
  - rewrite odf_text_unfold, flat_map_map'. cbn [concat]. f_equal.
    rewrite (flat_map_ext' (A:=str) (B:=N) _ (fun t => t)); [apply flat_map_id_concat|].
    intro t. unfold odf_child.
    change (xtag (ET TEXT_SPAN t)) with TEXT_SPAN. change (xtail (ET TEXT_SPAN t)) with (@nil N).
    rewrite Hskip, !tag_is_ET. tagc. unfold ET. rewrite odf_text_unfold. cbn [flat_map].
    rewrite !app_nil_r. reflexivity.
Qed.

Lemma od_tag_para T p :
  str_eqb TEXT_P T = false -> str_eqb TEXT_SPAN T = false -> iter_tag T (odf_r_para p) = [].
Proof.
  intros H1 H2. destruct p as [|t0 rest]; unfold odf_r_para.
  - rewrite iter_tag_ET, H1. reflexivity.
  - rewrite iter_tag_unfold, H1, flat_map_map'. cbn [app].
    apply flat_map_nil'. intro t. rewrite iter_tag_ET, H2. reflexivity.
Qed.

Lemma od_P_para p : iter_tag TEXT_P (odf_r_para p) = [odf_r_para p].
Proof.
  destruct p as [|t0 rest]; unfold odf_r_para.
  - rewrite iter_tag_ET. tagc. reflexivity.
  - rewrite iter_tag_unfold, flat_map_map'. tagc.
    rewrite flat_map_nil'; [reflexivity|]. intro t. rewrite iter_tag_ET. tagc. reflexivity.
Qed.

Lemma od_P_fcell c : iter_tag TEXT_P (odf_r_fcell c) = map odf_r_para c.
Proof.
  unfold odf_r_fcell. rewrite iter_tag_E, flat_map_map'. tagc. cbn [app].
  rewrite (flat_map_ext' _ (fun p => [odf_r_para p])) by (intro; apply od_P_para).
  apply flat_map_single.
Qed.

Lemma od_tag_fcell T c :
  str_eqb TABLE_CELL T = false -> str_eqb TEXT_P T = false -> str_eqb TEXT_SPAN T = false ->
  iter_tag T (odf_r_fcell c) = [].
Proof.
  intros H0 H1 H2. unfold odf_r_fcell. rewrite iter_tag_E, flat_map_map', H0. cbn [app].
  apply flat_map_nil'. intro p. apply od_tag_para; assumption.
Qed.

Lemma od_cell_fcell c : odf_cell pint skip (odf_r_fcell c) = fcell_text c.
Proof.
  unfold odf_cell, fcell_text. rewrite od_P_fcell, map_map. f_equal.
  apply map_ext. intro; apply odf_text_para.
Qed.

Lemma od_rows_ftable_gen (cf : xml -> str) (fg : fgrid) :
  (forall c, cf (odf_r_fcell c) = fcell_text c) ->
  rows_nonempty fg = true ->
  filter (fun r => negb (is_nil r))
    (map (fun row => map cf (findall TABLE_CELL row))
         (map (fun r => E TABLE_ROW (map odf_r_fcell r)) fg)) = fgrid_text fg.
Proof.
  intros Hcf H. rewrite map_map.
  rewrite (map_ext _ (map fcell_text)).
  2:{ intro r. rewrite findall_E, filter_map_true by (intro; reflexivity).
      rewrite map_map. apply map_ext. intro; apply Hcf. }
  unfold fgrid_text, rows_nonempty in *.
  induction fg as [|r fg IH]; [reflexivity|]. cbn [map filter forallb] in *.
  apply andb_true_iff in H as [Hr Hg]. rewrite is_nil_map, Hr, (IH Hg). reflexivity.
Qed.

Lemma od_rows_ftable (fg : fgrid) :
  rows_nonempty fg = true ->
  filter (fun r => negb (is_nil r))
    (map (fun row => map (odf_cell pint skip) (findall TABLE_CELL row))
         (map (fun r => E TABLE_ROW (map odf_r_fcell r)) fg)) = fgrid_text fg.
Proof. apply od_rows_ftable_gen. exact od_cell_fcell. Qed.

(* iter_skip: descendants without entering children tagged `sk` *)
Lemma iter_skip_unfold sk t a x cs l :
  iter_skip sk (Elem t a x cs l)
  = flat_map (fun c => if tag_is sk c then [] else c :: iter_skip sk c) cs.
Proof. reflexivity. Qed.

Lemma od_paras_para p :
  (if tag_is OFFICE_ANNOTATION (odf_r_para p) then []
   else filter (tag_is TEXT_P) (odf_r_para p :: iter_skip OFFICE_ANNOTATION (odf_r_para p)))
  = [odf_r_para p].
Proof.
  destruct p as [|t0 rest]; unfold odf_r_para.
  - reflexivity.
  - replace (tag_is OFFICE_ANNOTATION (Elem TEXT_P [] t0 (map (fun t => ET TEXT_SPAN t) rest) []))
      with false by (vm_compute; reflexivity).
    rewrite iter_skip_unfold, flat_map_map'. cbn [filter].
    replace (tag_is TEXT_P (Elem TEXT_P [] t0 (map (fun t => ET TEXT_SPAN t) rest) []))
      with true by (vm_compute; reflexivity).
    f_equal. rewrite filter_flat_map. apply flat_map_nil'. intro t. reflexivity.
Qed.

Lemma ods_cell_paras_children t cs :
  ods_cell_paras (E t cs)
  = flat_map (fun c => if tag_is OFFICE_ANNOTATION c then []
                       else filter (tag_is TEXT_P) (c :: iter_skip OFFICE_ANNOTATION c)) cs.
Proof.
  unfold ods_cell_paras, E. rewrite iter_skip_unfold, filter_flat_map.
  apply flat_map_ext'. intro c. destruct (tag_is OFFICE_ANNOTATION c); reflexivity.
Qed.

Lemma od_paras_fcell c : ods_cell_paras (odf_r_fcell c) = map odf_r_para c.
Proof.
  unfold odf_r_fcell. rewrite ods_cell_paras_children, flat_map_map'.
  rewrite (flat_map_ext' _ (fun p => [odf_r_para p])) by (intro; apply od_paras_para).
  apply flat_map_single.
Qed.

Lemma odp_cell_fcell c : odp_cell pint skip (odf_r_fcell c) = fcell_text c.
Proof.
  unfold odp_cell, fcell_text. rewrite od_paras_fcell, map_map. f_equal.
  apply map_ext. intro; apply odf_text_para.
Qed.

(* an annotation (cell comment) with arbitrary content does not reach the cell text *)
Theorem odp_cell_comment_skipped_sec : forall aa ax acs al p,
  odp_cell pint skip (E TABLE_CELL [Elem OFFICE_ANNOTATION aa ax acs al; odf_r_para p]) = concat p.
Proof.
  intros. unfold odp_cell. rewrite ods_cell_paras_children. cbn [flat_map].
  replace (tag_is OFFICE_ANNOTATION (Elem OFFICE_ANNOTATION aa ax acs al)) with true
    by (vm_compute; reflexivity).
  rewrite od_paras_para. cbn [app map join]. apply odf_text_para.
Qed.

Lemma od_ROW_ftable fg :
  iter_tag TABLE_ROW (odf_r_ftable fg) = map (fun r => E TABLE_ROW (map odf_r_fcell r)) fg.
Proof.
  unfold odf_r_ftable. rewrite iter_tag_E, flat_map_map'. tagc. cbn [app].
  rewrite (flat_map_ext' _ (fun r => [E TABLE_ROW (map odf_r_fcell r)])); [apply flat_map_single|].
  intro r. rewrite iter_tag_E, flat_map_map'. tagc.
  rewrite flat_map_nil'; [reflexivity|]. intro c. apply od_tag_fcell; vm_compute; reflexivity.
Qed.

Lemma od_TABLE_ftable fg : iter_tag TABLE_TABLE (odf_r_ftable fg) = [odf_r_ftable fg].
Proof.
  unfold odf_r_ftable. rewrite iter_tag_E, flat_map_map'. tagc.
  rewrite flat_map_nil'; [reflexivity|].
  intro r. rewrite iter_tag_E, flat_map_map'. tagc. cbn [app].
  apply flat_map_nil'. intro c. apply od_tag_fcell; vm_compute; reflexivity.
Qed.

Lemma odt_table_ftable fg :
  rows_nonempty fg = true -> odt_table pint skip (odf_r_ftable fg) = fgrid_text fg.
Proof. intro H. unfold odt_table. rewrite od_ROW_ftable. apply od_rows_ftable, H. Qed.

(* O4 *)
Theorem odp_table_flat : forall g : fgrid,
  rows_nonempty g = true -> odp_table pint skip (odf_r_ftable g) = fgrid_text g.
Proof.
  intros g H. unfold odp_table, odf_r_ftable, table_rows. unfold E at 1.
  rewrite collect_all_leaves
    by (clear H; induction g as [|r g' IHg]; [reflexivity | cbn [map forallb]; rewrite IHg; reflexivity]).
  apply od_rows_ftable_gen; [exact odp_cell_fcell | exact H].
Qed.

(* a flat grid renders as the flat table of its own paragraphs *)
Definition flatg (g : grid) : fgrid := map (map cell_own_paras) g.

Lemma od_flat_cell c : forallb is_cpara c = true -> odf_r_cell c = odf_r_fcell (cell_own_paras c).
Proof.
  intro H. unfold odf_r_cell, odf_r_fcell, cell_own_paras. f_equal.
  induction c as [|[p|g] c IH]; simpl in *; [reflexivity| |discriminate].
  rewrite (IH H). reflexivity.
Qed.

Lemma od_flat_table g : grid_flat g = true -> odf_r_table g = odf_r_ftable (flatg g).
Proof.
  intro H. unfold odf_r_table, odf_r_ftable, flatg, grid_flat in *. f_equal. rewrite map_map.
  induction g as [|r g IH]; [reflexivity|]. cbn [map forallb] in *.
  apply andb_true_iff in H as [Hr Hg]. rewrite (IH Hg). f_equal. f_equal. rewrite map_map.
  clear IH Hg. induction r as [|c r IH]; [reflexivity|]. cbn [map forallb] in *.
  apply andb_true_iff in Hr as [Hc Hr]. rewrite (IH Hr), (od_flat_cell c Hc). reflexivity.
Qed.

Lemma fgrid_text_flatg g : fgrid_text (flatg g) = map (map cell_text_own) g.
Proof.
  unfold fgrid_text, flatg. rewrite map_map. apply map_ext. intro r. rewrite map_map. reflexivity.
Qed.

Lemma rows_nonempty_flatg g : rows_nonempty (flatg g) = rows_nonempty g.
Proof.
  unfold rows_nonempty, flatg. induction g as [|r g IH]; [reflexivity|].
  cbn [map forallb]. rewrite is_nil_map, IH. reflexivity.
Qed.

(* O2 *)
Theorem odt_tables_flat : forall d,
  no_nested_tables d = true -> grids_nonempty d = true ->
  odt_tables pint skip (odt_r_body d) = spec_top d.
Proof.
  intros d. unfold odt_tables, odt_r_body. rewrite iter_tag_E, flat_map_map'. tagc. cbn [app].
  unfold no_nested_tables, grids_nonempty, spec_top, top_tables.
  induction d as [|[p|g] d IH]; intros Hf Hn; [reflexivity| |]; cbn [flat_map forallb odf_r_block] in *.
  - rewrite od_tag_para by (vm_compute; reflexivity). cbn [app]. apply IH; assumption.
  - apply andb_true_iff in Hf as [Hg Hf]. apply andb_true_iff in Hn as [Hn1 Hn].
    apply andb_true_iff in Hn1 as [Hn1 Hn2].
    rewrite (od_flat_table g Hg), od_TABLE_ftable. cbn [app map filter].
    rewrite odt_table_ftable by (rewrite rows_nonempty_flatg; exact Hn2).
    rewrite fgrid_text_flatg, !is_nil_map, Hn1. cbn [app map]. f_equal. apply IH; assumption.
Qed.
End ODF.

Theorem odp_cell_comment_skipped : forall pint skip aa ax acs al p,
  mem_str TEXT_SPAN skip = false ->
  odp_cell pint skip (E TABLE_CELL [Elem OFFICE_ANNOTATION aa ax acs al; odf_r_para p]) = concat p.
Proof. intros. apply odp_cell_comment_skipped_sec; assumption. Qed.

Example odp_cell_comment_witness :
  odp_cell (fun _ => None) [OFFICE_ANNOTATION]
    (E TABLE_CELL [E OFFICE_ANNOTATION [ET TEXT_P (s "note")]; odf_r_para [s "va"; s "lue"]])
  = s "value"
  /\ odf_cell (fun _ => None) [OFFICE_ANNOTATION]
    (E TABLE_CELL [E OFFICE_ANNOTATION [ET TEXT_P (s "note")]; odf_r_para [s "va"; s "lue"]])
  = s "note" ++ NL ++ s "value".
Proof. split; vm_compute; reflexivity. Qed.

(* O3 *)
Definition pint0 : int_oracle := fun _ => None.
Definition odt_d0 : doc :=
  [BTable [[ [CPara [s "a"]]; [CPara [s "b"]; CTable [[ [[s "n"]] ]]] ]]].

Example odt_d0_value :
  odt_tables pint0 [OFFICE_ANNOTATION] (odt_r_body odt_d0)
    = [ [[s "a"; s "b" ++ NL ++ s "n"]; [s "n"]]; [[s "n"]] ]
  /\ spec_top odt_d0 = [ [[s "a"; s "b"]] ]
  /\ spec_preorder odt_d0 = [ [[s "a"; s "b" ++ NL ++ s "n"]]; [[s "n"]] ].
Proof. repeat split; vm_compute; reflexivity. Qed.

Theorem odt_nested_refuted : exists d,
  grids_nonempty d = true
  /\ odt_tables pint0 [OFFICE_ANNOTATION] (odt_r_body d) <> spec_top d
  /\ odt_tables pint0 [OFFICE_ANNOTATION] (odt_r_body d) <> spec_preorder d.
Proof.
  exists odt_d0. split; [reflexivity|]. split; intro H; vm_compute in H; discriminate H.
Qed.

Example odt_flat_sat :
  no_nested_tables [BTable [[ [CPara [s "a"; s "b"]]; [CPara [s "c"]; CPara [s "d"]] ]]] = true
  /\ grids_nonempty [BTable [[ [CPara [s "a"; s "b"]]; [CPara [s "c"]; CPara [s "d"]] ]]] = true
  /\ mem_str TEXT_SPAN [OFFICE_ANNOTATION] = false
  /\ odt_tables pint0 [OFFICE_ANNOTATION]
       (odt_r_body [BTable [[ [CPara [s "a"; s "b"]]; [CPara [s "c"]; CPara [s "d"]] ]]])
     = [ [[s "ab"; s "c" ++ NL ++ s "d"]] ].
Proof. repeat split; vm_compute; reflexivity. Qed.

(* ------------------------------------------------------------------ EPUB *)
Definition epub_mk (T : list (list (list str))) (tb : list (list str)) (r c : list str) (it ic : bool)
  : epub_state :=
  {| es_skip := 0; es_skip_tag := []; es_tables := T; es_table := tb; es_row := r; es_cell := c;
     es_in_table := it; es_in_cell := ic; es_in_title := false |}.

Definition epub_cell_events (t : str) : list event := [EvStart H_TD; EvData t; EvEnd H_TD].
Definition epub_row_events (r : list str) : list event :=
  [EvStart H_TR] ++ flat_map (fun t => [EvStart H_TD; EvData t; EvEnd H_TD]) r ++ [EvEnd H_TR].

Section EPUB.
Variable is_ws : N -> bool.
Let nc (t : str) : str := epub_norm_cell is_ws [t].
Let step := epub_step is_ws.

Lemma ep_start_table T tb r c it ic :
  step (epub_mk T tb r c it ic) (EvStart H_TABLE) = epub_mk T [] r c true ic.
Proof. reflexivity. Qed.
Lemma ep_end_table T tb r c it ic :
  step (epub_mk T tb r c it ic) (EvEnd H_TABLE)
  = epub_mk (if is_nil tb then T else rev tb :: T) [] r c false ic.
Proof. reflexivity. Qed.
Lemma ep_start_tr T tb r c ic :
  step (epub_mk T tb r c true ic) (EvStart H_TR) = epub_mk T tb [] c true ic.
Proof. reflexivity. Qed.
Lemma ep_end_tr T tb r c ic :
  step (epub_mk T tb r c true ic) (EvEnd H_TR)
  = epub_mk T (if is_nil r then tb else rev r :: tb) [] c true ic.
Proof. reflexivity. Qed.
Lemma ep_cell T tb r c ic t :
  fold_left step [EvStart H_TD; EvData t; EvEnd H_TD] (epub_mk T tb r c true ic)
  = epub_mk T tb (nc t :: r) [] true false.
Proof. reflexivity. Qed.

Lemma ep_cells T tb row : forall r c ic,
  fold_left step (flat_map (fun t => [EvStart H_TD; EvData t; EvEnd H_TD]) row) (epub_mk T tb r c true ic)
  = epub_mk T tb (rev (map nc row) ++ r)
            (if is_nil row then c else []) true (if is_nil row then ic else false).
Proof.
  induction row as [|t row IH]; intros r c ic; [reflexivity|].
  cbn [flat_map]. rewrite fold_left_app, ep_cell, IH. cbn [map rev is_nil].
  rewrite <- app_assoc. cbn [app]. destruct row; reflexivity.
Qed.

Lemma ep_row T tb row r c ic :
  is_nil row = false ->
  fold_left step (epub_row_events row) (epub_mk T tb r c true ic)
  = epub_mk T (map nc row :: tb) [] [] true false.
Proof.
  intro H. unfold epub_row_events. rewrite !fold_left_app. cbn [fold_left].
  rewrite ep_start_tr, ep_cells, ep_end_tr, H, app_nil_r, is_nil_rev, is_nil_map, H, rev_involutive.
  reflexivity.
Qed.

Lemma ep_rows T g : forall tb r c ic,
  rows_nonempty g = true ->
  fold_left step (flat_map epub_row_events g) (epub_mk T tb r c true ic)
  = epub_mk T (rev (map (map nc) g) ++ tb)
            (if is_nil g then r else []) (if is_nil g then c else [])
            true (if is_nil g then ic else false).
Proof.
  unfold rows_nonempty.
  induction g as [|row g IH]; intros tb r c ic H; [reflexivity|].
  cbn [forallb] in H. apply andb_true_iff in H as [Hr Hg]. apply negb_true_iff in Hr.
  cbn [flat_map]. rewrite fold_left_app, ep_row, IH by assumption. cbn [map rev is_nil].
  rewrite <- app_assoc. cbn [app]. destruct g; reflexivity.
Qed.

Lemma ep_table T g tb r c it ic :
  grid_nonempty g = true ->
  fold_left step (epub_r_table g) (epub_mk T tb r c it ic)
  = epub_mk (map (map nc) g :: T) [] [] [] false false.
Proof.
  unfold grid_nonempty. intro H. apply andb_true_iff in H as [Hg Hr]. apply negb_true_iff in Hg.
  unfold epub_r_table. rewrite !fold_left_app. cbn [fold_left].
  rewrite ep_start_table. fold epub_row_events.
  change (flat_map (fun r0 => [EvStart H_TR] ++ flat_map (fun t => [EvStart H_TD; EvData t; EvEnd H_TD]) r0 ++ [EvEnd H_TR]) g)
    with (flat_map epub_row_events g).
  rewrite ep_rows, ep_end_table by assumption.
  rewrite Hg, app_nil_r, is_nil_rev, is_nil_map, Hg, rev_involutive. reflexivity.
Qed.

Lemma ep_tables gs : forall T tb r c it ic,
  forallb grid_nonempty gs = true ->
  es_tables (fold_left step (flat_map epub_r_table gs) (epub_mk T tb r c it ic))
  = rev (map (map (map nc)) gs) ++ T.
Proof.
  induction gs as [|g gs IH]; intros T tb r c it ic H; [reflexivity|].
  cbn [forallb] in H. apply andb_true_iff in H as [Hg Hgs].
  cbn [flat_map]. rewrite fold_left_app, ep_table, IH by assumption. cbn [map rev].
  rewrite <- app_assoc. reflexivity.
Qed.

(* E1 *)
Theorem epub_tables_roundtrip : forall gs : list (list (list str)),
  forallb grid_nonempty gs = true ->
  epub_tables is_ws (flat_map epub_r_table gs)
  = map (map (map (fun t => epub_norm_cell is_ws [t]))) gs.
Proof.
  intros gs H. unfold epub_tables. change epub_init with (epub_mk [] [] [] [] false false).
  fold step. rewrite ep_tables by assumption. rewrite app_nil_r, rev_involutive. reflexivity.
Qed.
End EPUB.

(* E1 is not vacuous *)
Example epub_roundtrip_sat :
  forallb grid_nonempty [ [[s "a"; s "b"]; [s "c"]]; [[s " d  e "]] ] = true
  /\ epub_tables ws_ascii (flat_map epub_r_table [ [[s "a"; s "b"]; [s "c"]]; [[s " d  e "]] ])
     = [ [[s "a"; s "b"]; [s "c"]]; [[s "d e"]] ].
Proof. split; vm_compute; reflexivity. Qed.

(* E2: an outer 2x? table whose second cell holds an inner table *)
Definition epub_nested_events : list event :=
  [EvStart H_TABLE; EvStart H_TR; EvStart H_TD; EvData (s "a"); EvEnd H_TD;
   EvStart H_TD; EvStart H_TABLE; EvStart H_TR; EvStart H_TD; EvData (s "n"); EvEnd H_TD; EvEnd H_TR;
   EvEnd H_TABLE; EvEnd H_TD; EvEnd H_TR;
   EvStart H_TR; EvStart H_TD; EvData (s "b"); EvEnd H_TD; EvEnd H_TR; EvEnd H_TABLE].

Example epub_nested_witness : epub_tables ws_ascii epub_nested_events = [ [[s "n"]] ].
Proof. vm_compute; reflexivity. Qed.

Theorem epub_nested_refuted :
  length (epub_tables ws_ascii epub_nested_events) <> 2%nat
  /\ (forall t, In t (epub_tables ws_ascii epub_nested_events) ->
        length t <> 2%nat /\ ~ In [s "b"] t /\ (forall r, In r t -> ~ In (s "a") r))
  /\ epub_tables ws_ascii epub_nested_events <> [ [[s "a"; s "n"]; [s "b"]]; [[s "n"]] ]
  /\ epub_tables ws_ascii epub_nested_events <> [ [[s "a"; []]; [s "b"]] ].
Proof.
  rewrite epub_nested_witness. split; [cbn; lia|]. split.
  - intros t [<-|[]]. split; [cbn; lia|]. split.
    + intros [H|[]]. vm_compute in H. discriminate H.
    + intros r [<-|[]] [H|[]]. vm_compute in H. discriminate H.
  - split; intro H; vm_compute in H; discriminate H.
Qed.

(* E3: inline markup inside a cell splits the word *)
Example epub_inline_split_witness :
  epub_tables ws_ascii
    [EvStart H_TABLE; EvStart H_TR; EvStart H_TD;
     EvData (s "foo"); EvStart (s "b"); EvData (s "bar"); EvEnd (s "b");
     EvEnd H_TD; EvEnd H_TR; EvEnd H_TABLE]
  = [ [[s "foo bar"]] ].
Proof. vm_compute; reflexivity. Qed.

Print Assumptions docx_tables_flat.
Print Assumptions docx_tables_preorder.
Print Assumptions docx_toplevel_refuted.
Print Assumptions docx_adjacent.
Print Assumptions no_nested_sat.
Print Assumptions docx_d0_value.
Print Assumptions docx_row_cells_wrapped.
Print Assumptions docx_table_rows_wrapped.
Print Assumptions docx_tables_through_wrapped.
Print Assumptions docx_table_wrapped_eq.
Print Assumptions docx_row_wrapped_eq.
Print Assumptions docx_tables_body_wrapped.
Print Assumptions docx_tables_body_sdt.
Print Assumptions docx_tables_body_customxml.
Print Assumptions docx_tables_direct_lost_wrapped.
Print Assumptions docx_wrapped_row_cell.
Print Assumptions pptx_table_roundtrip.
Print Assumptions pptx_table_stripped.
Print Assumptions odf_text_para.
Print Assumptions odt_tables_flat.
Print Assumptions odt_nested_refuted.
Print Assumptions odp_table_flat.
Print Assumptions odp_cell_comment_skipped.
Print Assumptions odp_cell_comment_witness.
Print Assumptions epub_tables_roundtrip.
Print Assumptions epub_nested_refuted.
Print Assumptions epub_inline_split_witness.
