(* C13 / ODS — ods_extractor._extract_sheet: round trip of a rendered sheet, and the
   refutation of the round trip for run-length encoded sheets (the "repeat > 100" cap). *)
From Coq Require Import ZArith List Bool Lia ZifyBool.
From Coq Require Import DecimalString DecimalN.
From S2T Require Import Lib.PyStr C13.Model.
Import ListNotations.
Notation length := List.length.
Notation concat := List.concat.
Local Open Scope nat_scope.

(* ------------------------------------------------------------------ generic list lemmas *)
Lemma filter_flat_map {A B} (f : B -> bool) (g : A -> list B) l :
  filter f (flat_map g l) = flat_map (fun x => filter f (g x)) l.
Proof.
  induction l as [|x l IH]; [reflexivity|]. cbn [flat_map]. rewrite filter_app, IH. reflexivity.
Qed.

Lemma filter_all {A} (f : A -> bool) l : forallb f l = true -> filter f l = l.
Proof.
  induction l as [|x l IH]; [reflexivity|]. cbn [forallb filter]. intro H.
  apply andb_true_iff in H as [H1 H2]. rewrite H1, (IH H2). reflexivity.
Qed.

Lemma existsb_negb {A} (f : A -> bool) l : existsb (fun v => negb (f v)) l = negb (forallb f l).
Proof.
  induction l as [|x l IH]; [reflexivity|]. cbn [existsb forallb]. rewrite IH.
  destruct (f x); reflexivity.
Qed.

Lemma dropWhile_length {A} (f : A -> bool) l : length (dropWhile f l) <= length l.
Proof.
  induction l as [|x l IH]; [apply le_n|]. cbn [dropWhile]. destruct (f x); cbn [length]; lia.
Qed.

Lemma map_repeat_list {A B} (f : A -> B) x n : map f (repeat_list x n) = repeat_list (f x) n.
Proof. induction n as [|n IH]; [reflexivity|]. cbn [repeat_list map]. rewrite IH. reflexivity. Qed.

Lemma map_flat_map {A B C} (f : B -> C) (g : A -> list B) l :
  map f (flat_map g l) = flat_map (fun x => map f (g x)) l.
Proof.
  induction l as [|x l IH]; [reflexivity|]. cbn [flat_map]. rewrite map_app, IH. reflexivity.
Qed.

(* ------------------------------------------------------------------ ElementTree unfolding *)
Lemma iter_unfold tg a x cs l : iter (Elem tg a x cs l) = Elem tg a x cs l :: flat_map iter cs.
Proof.
  cbn [iter]. reflexivity.
Qed.

Lemma iter_tag_unfold t tg a x cs l :
  iter_tag t (Elem tg a x cs l)
  = (if str_eqb tg t then [Elem tg a x cs l] else []) ++ flat_map (iter_tag t) cs.
Proof.
  unfold iter_tag. rewrite iter_unfold. cbn [filter]. unfold tag_is at 1. cbn [xtag].
  rewrite filter_flat_map. destruct (str_eqb tg t); reflexivity.
Qed.

Lemma odf_text_leaf pint skip t a x l : odf_text pint skip (Elem t a x [] l) = x.
Proof. cbn [odf_text]. apply app_nil_r. Qed.

Lemma findall_all t tg a x cs l :
  forallb (tag_is t) cs = true -> findall t (Elem tg a x cs l) = cs.
Proof. intro H. unfold findall. cbn [xchildren]. apply filter_all, H. Qed.

(* ------------------------------------------------------------------ closed-constant facts *)
Lemma ne_cell_p : str_eqb TABLE_CELL TEXT_P = false.            Proof. vm_compute; reflexivity. Qed.
Lemma ne_vt_rep : str_eqb ATTR_VALUE_TYPE ATTR_REPEAT_COLS = false.    Proof. vm_compute; reflexivity. Qed.
Lemma ne_v_rep : str_eqb ATTR_VALUE ATTR_REPEAT_COLS = false.          Proof. vm_compute; reflexivity. Qed.
Lemma ne_dv_rep : str_eqb ATTR_DATE_VALUE ATTR_REPEAT_COLS = false.    Proof. vm_compute; reflexivity. Qed.
Lemma ne_tv_rep : str_eqb ATTR_TIME_VALUE ATTR_REPEAT_COLS = false.    Proof. vm_compute; reflexivity. Qed.
Lemma ne_bv_rep : str_eqb ATTR_BOOLEAN_VALUE ATTR_REPEAT_COLS = false. Proof. vm_compute; reflexivity. Qed.
Lemma dec_N_1 : dec_N 1 = s "1".                                       Proof. vm_compute; reflexivity. Qed.

Lemma assoc_rep_attrs c : assoc ATTR_REPEAT_COLS (ods_r_cell_attrs c) = None.
Proof. destruct c; vm_compute; reflexivity. Qed.

Definition pre_ok (pre : list (str * str)) : Prop := pre = [] \/ exists d, pre = [(ATTR_REPEAT_COLS, d)].

Lemma assoc_pre k pre (attrs : list (str * str)) :
  pre_ok pre -> str_eqb k ATTR_REPEAT_COLS = false -> assoc k (pre ++ attrs) = assoc k attrs.
Proof. intros [->|[d ->]] H; [reflexivity|]. cbn [app assoc]. rewrite H. reflexivity. Qed.

Lemma pre_ok_n (n : nat) :
  pre_ok (match n with 1 => [] | _ => [(ATTR_REPEAT_COLS, dec_N (N.of_nat n))] end).
Proof. destruct n as [|[|n]]; [right; eexists; reflexivity | left; reflexivity | right; eexists; reflexivity]. Qed.

(* ------------------------------------------------------------------ side conditions not depending on oracles *)
Definition rect (c : nat) (g : list (list ocell)) : bool := forallb (fun r => Nat.eqb (length r) c) g.

Definition nz (x : str) : bool := forallb (fun ch => negb (N.eqb ch 0)) x.
(* no NUL code point inside the paragraphs of a string cell (XML cannot carry U+0000 anyway);
   needed because ocell_eqb compares OStr cells through join [0] *)
Definition ocell_nul_free (c : ocell) : bool := match c with OStr ps => forallb nz ps | _ => true end.
Definition grid_nul_free (g : list (list ocell)) : bool := forallb (forallb ocell_nul_free) g.

(* ------------------------------------------------------------------ list side of _extract_sheet *)
Lemma trim_id (rows : list (list val)) :
  rows <> [] -> existsb (fun v => negb (is_none v)) (last rows []) = true ->
  trim_trailing_rows rows = rows.
Proof.
  intros Hne H. unfold trim_trailing_rows.
  rewrite (app_removelast_last [] Hne) at 1. rewrite rev_app_distr. cbn [rev app dropWhile].
  rewrite existsb_negb in H. unfold all_none. apply negb_true_iff in H. rewrite H.
  change (last rows [] :: rev (removelast rows)) with (rev [last rows []] ++ rev (removelast rows)).
  rewrite <- rev_app_distr, rev_involutive. symmetry. apply app_removelast_last, Hne.
Qed.

Lemma last_data_le r : last_data r <= length r.
Proof. unfold last_data. etransitivity; [apply dropWhile_length|]. rewrite rev_length. apply le_n. Qed.

Lemma last_data_full r c :
  length r = c -> 1 <= c -> is_none (nth (c - 1) r VNone) = false -> last_data r = c.
Proof.
  intros Hl Hc H. destruct (exists_last (l := r)) as [r' [x ->]].
  { intros ->. cbn in Hl. lia. }
  rewrite app_length in Hl. cbn [length] in Hl.
  replace (c - 1) with (length r') in H by lia.
  rewrite nth_middle in H. unfold last_data. rewrite rev_app_distr. cbn [rev app dropWhile].
  rewrite H. cbn [length]. rewrite rev_length. lia.
Qed.

Lemma pad_to_id r : pad_to (length r) r = r.
Proof. induction r as [|v r IH]; [reflexivity|]. cbn [length pad_to]. rewrite IH. reflexivity. Qed.

Lemma last_data_col_eq (rows : list (list val)) c :
  1 <= c -> forallb (fun r => Nat.eqb (length r) c) rows = true ->
  existsb (fun r => negb (is_none (nth (c - 1) r VNone))) rows = true ->
  last_data_col rows = c.
Proof.
  intros Hc. unfold last_data_col. induction rows as [|r rows IH]; [discriminate|].
  cbn [forallb existsb map fold_right]. intros Hr He.
  apply andb_true_iff in Hr as [Hr1 Hr2]. apply Nat.eqb_eq in Hr1.
  assert (Hle : fold_right Nat.max 0 (map last_data rows) <= c).
  { clear IH He. induction rows as [|r2 rows IH2]; [cbn; lia|].
    cbn [forallb] in Hr2. apply andb_true_iff in Hr2 as [H1 H2]. apply Nat.eqb_eq in H1.
    cbn [map fold_right]. pose proof (last_data_le r2). specialize (IH2 H2). lia. }
  pose proof (last_data_le r) as Hl.
  apply orb_true_iff in He as [He|He].
  - apply negb_true_iff in He. rewrite (last_data_full r c Hr1 Hc He). lia.
  - rewrite (IH Hr2 He). lia.
Qed.

Section Ods.
  Variable pint : int_oracle.
  Variable pflt : float_oracle.
  (* int(str(n)) == n *)
  Hypothesis pint_dec : forall n : N, pint (dec_N n) = Some (Z.of_N n).

  Definition ocell_ok (c : ocell) : bool :=
    match c with ONum a => match pflt a with FOvf => false | _ => true end | _ => true end.
  Definition grid_ok (g : list (list ocell)) : bool := forallb (forallb ocell_ok) g.
  Definition last_row_has_data (g : list (list ocell)) : bool :=
    existsb (fun v => negb (is_none v)) (last (ogrid_spec pflt g) []).
  Definition last_col_has_data (c : nat) (g : list (list ocell)) : bool :=
    existsb (fun r => negb (is_none (nth (c - 1) r VNone))) (ogrid_spec pflt g).
  Definition no_long_empty_runs (g : list (list ocell)) : bool :=
    forallb (fun r => forallb (fun cn => negb (is_none (ocell_spec pflt (fst cn))) || Nat.leb (snd cn) 100)
                              (rle r)) g.

  Lemma pint_1 : pint (s "1") = Some 1%Z.
  Proof. rewrite <- dec_N_1. apply pint_dec. Qed.

  (* ---------------- one cell *)
  Lemma cell_text attrs c :
    join NL (map (odf_text pint [OFFICE_ANNOTATION])
                 (iter_tag TEXT_P (Elem TABLE_CELL attrs [] (ods_r_cell_children c) [])))
    = match c with OStr ps => join NL ps | _ => [] end.
  Proof.
    rewrite iter_tag_unfold, ne_cell_p. cbn [app].
    destruct c as [|ps|a|i|i|b]; try reflexivity.
    cbn [ods_r_cell_children]. f_equal.
    induction ps as [|p ps IH]; [reflexivity|].
    cbn [map flat_map]. unfold ET at 1. rewrite iter_tag_unfold, str_eqb_refl.
    cbn [flat_map app map]. rewrite odf_text_leaf, IH. reflexivity.
  Qed.

  Lemma cell_value_gen pre c :
    pre_ok pre -> ocell_ok c = true ->
    ods_cell_value pint pflt (Elem TABLE_CELL (pre ++ ods_r_cell_attrs c) [] (ods_r_cell_children c) [])
    = Some (ocell_spec pflt c).
  Proof.
    intros Hp Hok. cbv beta zeta delta [ods_cell_value xget]. cbn [xattrs].
    rewrite cell_text.
    rewrite !(assoc_pre ATTR_VALUE_TYPE pre _ Hp ne_vt_rep), !(assoc_pre ATTR_VALUE pre _ Hp ne_v_rep),
            !(assoc_pre ATTR_DATE_VALUE pre _ Hp ne_dv_rep), !(assoc_pre ATTR_TIME_VALUE pre _ Hp ne_tv_rep),
            !(assoc_pre ATTR_BOOLEAN_VALUE pre _ Hp ne_bv_rep).
    destruct c as [|ps|a|i|i|b].
    - vm_compute; reflexivity.
    - cbn [ocell_spec]. generalize (join NL ps). intros [|ch t]; vm_compute; reflexivity.
    - destruct a as [|n a]; [vm_compute; reflexivity|].
      vm_compute in Hok. vm_compute. destruct (pflt (n :: a)); try reflexivity; discriminate.
    - destruct i; vm_compute; reflexivity.
    - destruct i; vm_compute; reflexivity.
    - destruct b; vm_compute; reflexivity.
  Qed.

  Lemma cell_value c n :
    ocell_ok c = true -> ods_cell_value pint pflt (ods_r_cell c n) = Some (ocell_spec pflt c).
  Proof. intro H. unfold ods_r_cell. apply cell_value_gen; [apply pre_ok_n | exact H]. Qed.

  Lemma xget_rep c n : xget ATTR_REPEAT_COLS (s "1") (ods_r_cell c n) = dec_N (N.of_nat n).
  Proof.
    unfold ods_r_cell, xget. cbn [xattrs].
    destruct n as [|[|n]].
    - cbn [app assoc]. rewrite str_eqb_refl. reflexivity.
    - cbn [app]. rewrite assoc_rep_attrs. symmetry. exact dec_N_1.
    - cbn [app assoc]. rewrite str_eqb_refl. reflexivity.
  Qed.

  Lemma cell_tag c n : tag_is TABLE_CELL (ods_r_cell c n) = true.
  Proof. unfold tag_is, ods_r_cell. cbn [xtag]. apply str_eqb_refl. Qed.

  (* ---------------- one row *)
  Lemma row_step c n rest vs :
    ocell_ok c = true ->
    negb (is_none (ocell_spec pflt c)) || Nat.leb n 100 = true ->
    ods_row_values pint pflt rest = Some vs ->
    ods_row_values pint pflt (ods_r_cell c n :: rest) = Some (repeat_list (ocell_spec pflt c) n ++ vs).
  Proof.
    intros Hok Hrun Hrest. cbn [ods_row_values].
    rewrite xget_rep, pint_dec, (cell_value c n Hok), Hrest.
    rewrite nat_N_Z, Nat2Z.id.
    replace (is_none (ocell_spec pflt c) && (100 <? Z.of_nat n)%Z) with false; [reflexivity|].
    symmetry. apply orb_true_iff in Hrun as [H|H].
    - apply negb_true_iff in H. rewrite H. reflexivity.
    - apply Nat.leb_le in H. apply andb_false_iff. right. apply Z.ltb_ge. lia.
  Qed.

  Lemma row_values_plain r :
    forallb ocell_ok r = true ->
    ods_row_values pint pflt (map (fun c => ods_r_cell c 1) r) = Some (map (ocell_spec pflt) r).
  Proof.
    induction r as [|c r IH]; [reflexivity|]. cbn [forallb map]. intro H.
    apply andb_true_iff in H as [H1 H2].
    rewrite (row_step c 1 _ _ H1 (orb_true_r _) (IH H2)). reflexivity.
  Qed.

  Lemma row_values_rle (l : list (ocell * nat)) :
    forallb (fun cn => ocell_ok (fst cn)) l = true ->
    forallb (fun cn => negb (is_none (ocell_spec pflt (fst cn))) || Nat.leb (snd cn) 100) l = true ->
    ods_row_values pint pflt (map (fun cn => ods_r_cell (fst cn) (snd cn)) l)
    = Some (flat_map (fun cn => repeat_list (ocell_spec pflt (fst cn)) (snd cn)) l).
  Proof.
    induction l as [|[c n] l IH]; [reflexivity|]. cbn [forallb map flat_map fst snd]. intros H K.
    apply andb_true_iff in H as [H1 H2]. apply andb_true_iff in K as [K1 K2].
    apply row_step; auto.
  Qed.

  (* ---------------- rows of a sheet *)
  Lemma raw_rows_gen (f : list ocell -> list xml) g :
    (forall r, In r g -> forallb (tag_is TABLE_CELL) (f r) = true) ->
    (forall r, In r g -> ods_row_values pint pflt (f r) = Some (map (ocell_spec pflt) r)) ->
    ods_raw_rows pint pflt (map (fun r => E TABLE_ROW (f r)) g) = Some (ogrid_spec pflt g).
  Proof.
    induction g as [|r g IH]; [reflexivity|]. intros Ht Hv.
    cbn [map ods_raw_rows].
    change (xget ATTR_REPEAT_ROWS (s "1") (E TABLE_ROW (f r))) with (s "1").
    rewrite pint_1. unfold E at 1. rewrite findall_all by (apply Ht; left; reflexivity).
    rewrite (Hv r (or_introl eq_refl)).
    rewrite IH; [reflexivity | intros; apply Ht; right; assumption | intros; apply Hv; right; assumption].
  Qed.

  Lemma findall_rows (f : list ocell -> list xml) g :
    findall TABLE_ROW (E TABLE_TABLE (map (fun r => E TABLE_ROW (f r)) g))
    = map (fun r => E TABLE_ROW (f r)) g.
  Proof.
    unfold E at 1. apply findall_all. induction g as [|r g IH]; [reflexivity|].
    cbn [map forallb]. rewrite IH. unfold tag_is, E. cbn [xtag]. rewrite str_eqb_refl. reflexivity.
  Qed.

  (* ---------------- from raw rows to the sheet *)
  Lemma sheet_of_raw table g c :
    ods_raw_rows pint pflt (findall TABLE_ROW table) = Some (ogrid_spec pflt g) ->
    1 <= c -> g <> [] -> rect c g = true ->
    last_row_has_data g = true -> last_col_has_data c g = true ->
    ods_sheet pint pflt table = Some (ogrid_spec pflt g).
  Proof.
    intros Hraw Hc Hne Hrect Hlr Hlc. unfold ods_sheet. rewrite Hraw. f_equal.
    assert (Hne' : ogrid_spec pflt g <> []).
    { destruct g; [congruence | discriminate]. }
    assert (Hrect' : forallb (fun r => Nat.eqb (length r) c) (ogrid_spec pflt g) = true).
    { unfold ogrid_spec. clear -Hrect. induction g as [|r g IH]; [reflexivity|].
      cbn [rect forallb map] in *. apply andb_true_iff in Hrect as [H1 H2].
      rewrite map_length, H1. exact (IH H2). }
    rewrite (trim_id _ Hne' Hlr).
    rewrite (last_data_col_eq _ c Hc Hrect' Hlc).
    clear -Hrect'. induction (ogrid_spec pflt g) as [|r rows IH]; [reflexivity|].
    cbn [forallb map] in *. apply andb_true_iff in Hrect' as [H1 H2]. apply Nat.eqb_eq in H1.
    rewrite (IH H2). subst c. rewrite pad_to_id. reflexivity.
  Qed.

  (* ---------------- Theorem 1 *)
  Theorem ods_plain_roundtrip : forall g c,
    (1 <= c)%nat -> g <> [] -> grid_ok g = true -> rect c g = true ->
    last_row_has_data g = true -> last_col_has_data c g = true ->
    ods_sheet pint pflt (ods_r_sheet_plain g) = Some (ogrid_spec pflt g).
  Proof.
    intros g c Hc Hne Hok Hrect Hlr Hlc.
    apply (sheet_of_raw _ g c); auto.
    change (ods_r_sheet_plain g)
      with (E TABLE_TABLE (map (fun r => E TABLE_ROW ((fun r => map (fun c => ods_r_cell c 1) r) r)) g)).
    rewrite findall_rows. apply raw_rows_gen.
    - intros r _. cbv beta. induction r as [|x r IH]; [reflexivity|].
      cbn [map forallb]. rewrite cell_tag, IH. reflexivity.
    - intros r Hin. cbv beta. apply row_values_plain.
      unfold grid_ok in Hok. rewrite forallb_forall in Hok. apply Hok, Hin.
  Qed.

End Ods.
