(* C13 / ODS — ods_extractor._extract_sheet: round trip of a rendered sheet, and the
   refutation of the round trip for run-length encoded sheets (the "repeat > 100" cap). *)
From Coq Require Import ZArith List Bool Lia ZifyBool.
From Coq Require Import DecimalString DecimalN.
From S2T Require Import Lib.PyStr C13.Model C13.ProofsRows.
Import ListNotations.
Notation length := List.length.
Notation concat := List.concat.
Local Open Scope nat_scope.

(* ------------------------------------------------------------------ generic list lemmas *)
Lemma filter_flat_map {A B} (f : B -> bool) (g : A -> list B) l :
  filter f (flat_map g l) = flat_map (fun x => filter f (g x)) l.
Proof.
  induction l as [|x l IH]; [reflexivity|]. cbn [flat_map]. rewrite filter_app, IH. reflexivity.
Qed.

Lemma filter_all {A} (f : A -> bool) l : forallb f l = true -> filter f l = l.
Proof.
  induction l as [|x l IH]; [reflexivity|]. cbn [forallb filter]. intro H.
  apply andb_true_iff in H as [H1 H2]. rewrite H1, (IH H2). reflexivity.
Qed.

Lemma existsb_negb {A} (f : A -> bool) l : existsb (fun v => negb (f v)) l = negb (forallb f l).
Proof.
  induction l as [|x l IH]; [reflexivity|]. cbn [existsb forallb]. rewrite IH.
  destruct (f x); reflexivity.
Qed.

Lemma dropWhile_length {A} (f : A -> bool) l : length (dropWhile f l) <= length l.
Proof.
  induction l as [|x l IH]; [apply le_n|]. cbn [dropWhile]. destruct (f x); cbn [length]; lia.
Qed.

Lemma map_repeat_list {A B} (f : A -> B) x n : map f (repeat_list x n) = repeat_list (f x) n.
Proof. induction n as [|n IH]; [reflexivity|]. cbn [repeat_list map]. rewrite IH. reflexivity. Qed.

Lemma map_flat_map {A B C} (f : B -> C) (g : A -> list B) l :
  map f (flat_map g l) = flat_map (fun x => map f (g x)) l.
Proof.
  induction l as [|x l IH]; [reflexivity|]. cbn [flat_map]. rewrite map_app, IH. reflexivity.
Qed.

(* ------------------------------------------------------------------ ElementTree unfolding *)
Lemma iter_unfold tg a x cs l : iter (Elem tg a x cs l) = Elem tg a x cs l :: flat_map iter cs.
Proof.
  cbn [iter]. reflexivity.
Qed.

Lemma iter_tag_unfold t tg a x cs l :
  iter_tag t (Elem tg a x cs l)
  = (if str_eqb tg t then [Elem tg a x cs l] else []) ++ flat_map (iter_tag t) cs.
Proof.
  unfold iter_tag. rewrite iter_unfold. cbn [filter]. unfold tag_is at 1. cbn [xtag].
  rewrite filter_flat_map. destruct (str_eqb tg t); reflexivity.
Qed.

Lemma iter_skip_unfold skip t a x cs l :
  iter_skip skip (Elem t a x cs l)
  = flat_map (fun c => if tag_is skip c then [] else c :: iter_skip skip c) cs.
Proof. cbn [iter_skip]. reflexivity. Qed.

Lemma odf_text_leaf pint skip t a x l : odf_text pint skip (Elem t a x [] l) = x.
Proof. cbn [odf_text]. apply app_nil_r. Qed.

Lemma findall_all t tg a x cs l :
  forallb (tag_is t) cs = true -> findall t (Elem tg a x cs l) = cs.
Proof. intro H. unfold findall. cbn [xchildren]. apply filter_all, H. Qed.

(* ------------------------------------------------------------------ closed-constant facts *)
Lemma ne_cell_p : str_eqb TABLE_CELL TEXT_P = false.            Proof. vm_compute; reflexivity. Qed.
Lemma ne_p_ann : str_eqb TEXT_P OFFICE_ANNOTATION = false.   Proof. vm_compute; reflexivity. Qed.
Lemma ne_vt_rep : str_eqb ATTR_VALUE_TYPE ATTR_REPEAT_COLS = false.    Proof. vm_compute; reflexivity. Qed.
Lemma ne_v_rep : str_eqb ATTR_VALUE ATTR_REPEAT_COLS = false.          Proof. vm_compute; reflexivity. Qed.
Lemma ne_dv_rep : str_eqb ATTR_DATE_VALUE ATTR_REPEAT_COLS = false.    Proof. vm_compute; reflexivity. Qed.
Lemma ne_tv_rep : str_eqb ATTR_TIME_VALUE ATTR_REPEAT_COLS = false.    Proof. vm_compute; reflexivity. Qed.
Lemma ne_bv_rep : str_eqb ATTR_BOOLEAN_VALUE ATTR_REPEAT_COLS = false. Proof. vm_compute; reflexivity. Qed.
Lemma dec_N_1 : dec_N 1 = s "1".                                       Proof. vm_compute; reflexivity. Qed.

Lemma assoc_rep_attrs c : assoc ATTR_REPEAT_COLS (ods_r_cell_attrs c) = None.
Proof. destruct c; vm_compute; reflexivity. Qed.

Definition pre_ok (pre : list (str * str)) : Prop := pre = [] \/ exists d, pre = [(ATTR_REPEAT_COLS, d)].

Lemma assoc_pre k pre (attrs : list (str * str)) :
  pre_ok pre -> str_eqb k ATTR_REPEAT_COLS = false -> assoc k (pre ++ attrs) = assoc k attrs.
Proof. intros [->|[d ->]] H; [reflexivity|]. cbn [app assoc]. rewrite H. reflexivity. Qed.

Lemma pre_ok_n (n : nat) :
  pre_ok (match n with 1 => [] | _ => [(ATTR_REPEAT_COLS, dec_N (N.of_nat n))] end).
Proof. destruct n as [|[|n]]; [right; eexists; reflexivity | left; reflexivity | right; eexists; reflexivity]. Qed.

(* ------------------------------------------------------------------ side conditions not depending on oracles *)
Definition rect (c : nat) (g : list (list ocell)) : bool := forallb (fun r => Nat.eqb (length r) c) g.

Definition nz (x : str) : bool := forallb (fun ch => negb (N.eqb ch 0)) x.
(* no NUL code point inside the paragraphs of a string cell (XML cannot carry U+0000 anyway);
   needed because ocell_eqb compares OStr cells through join [0] *)
Definition ocell_nul_free (c : ocell) : bool := match c with OStr ps => forallb nz ps | _ => true end.
Definition grid_nul_free (g : list (list ocell)) : bool := forallb (forallb ocell_nul_free) g.

(* ------------------------------------------------------------------ list side of _extract_sheet *)
Lemma trim_id (rows : list (list val)) :
  rows <> [] -> existsb (fun v => negb (is_none v)) (last rows []) = true ->
  trim_trailing_rows rows = rows.
Proof.
  intros Hne H. unfold trim_trailing_rows.
  rewrite (app_removelast_last [] Hne) at 1. rewrite rev_app_distr. cbn [rev app dropWhile].
  rewrite existsb_negb in H. unfold all_none. apply negb_true_iff in H. rewrite H.
  change (last rows [] :: rev (removelast rows)) with (rev [last rows []] ++ rev (removelast rows)).
  rewrite <- rev_app_distr, rev_involutive. symmetry. apply app_removelast_last, Hne.
Qed.

Lemma last_data_le r : last_data r <= length r.
Proof. unfold last_data. etransitivity; [apply dropWhile_length|]. rewrite rev_length. apply le_n. Qed.

Lemma last_data_full r c :
  length r = c -> 1 <= c -> is_none (nth (c - 1) r VNone) = false -> last_data r = c.
Proof.
  intros Hl Hc H. destruct (exists_last (l := r)) as [r' [x ->]].
  { intros ->. cbn in Hl. lia. }
  rewrite app_length in Hl. cbn [length] in Hl.
  replace (c - 1) with (length r') in H by lia.
  rewrite nth_middle in H. unfold last_data. rewrite rev_app_distr. cbn [rev app dropWhile].
  rewrite H. cbn [length]. rewrite rev_length. lia.
Qed.

Lemma pad_to_id r : pad_to (length r) r = r.
Proof. induction r as [|v r IH]; [reflexivity|]. cbn [length pad_to]. rewrite IH. reflexivity. Qed.

Lemma last_data_col_eq (rows : list (list val)) c :
  1 <= c -> forallb (fun r => Nat.eqb (length r) c) rows = true ->
  existsb (fun r => negb (is_none (nth (c - 1) r VNone))) rows = true ->
  last_data_col rows = c.
Proof.
  intros Hc. unfold last_data_col. induction rows as [|r rows IH]; [discriminate|].
  cbn [forallb existsb map fold_right]. intros Hr He.
  apply andb_true_iff in Hr as [Hr1 Hr2]. apply Nat.eqb_eq in Hr1.
  assert (Hle : fold_right Nat.max 0 (map last_data rows) <= c).
  { clear IH He. induction rows as [|r2 rows IH2]; [cbn; lia|].
    cbn [forallb] in Hr2. apply andb_true_iff in Hr2 as [H1 H2]. apply Nat.eqb_eq in H1.
    cbn [map fold_right]. pose proof (last_data_le r2). specialize (IH2 H2). lia. }
  pose proof (last_data_le r) as Hl.
  apply orb_true_iff in He as [He|He].
  - apply negb_true_iff in He. rewrite (last_data_full r c Hr1 Hc He). lia.
  - rewrite (IH Hr2 He). lia.
Qed.

(* ------------------------------------------------------------------ run-length encoding *)
Lemma app_sep_inj x : forall y r1 r2,
  nz x = true -> nz y = true -> x ++ 0%N :: r1 = y ++ 0%N :: r2 -> x = y /\ r1 = r2.
Proof.
  induction x as [|a x IH]; intros [|b y] r1 r2 Hx Hy H; cbn [app] in H.
  - inversion H. split; reflexivity.
  - inversion H; subst b. cbn in Hy. discriminate.
  - inversion H; subst a. cbn in Hx. discriminate.
  - inversion H; subst b. unfold nz in Hx, Hy. cbn [forallb] in Hx, Hy.
    apply andb_true_iff in Hx as [_ Hx]. apply andb_true_iff in Hy as [_ Hy].
    destruct (IH y r1 r2 Hx Hy H2) as [-> ->]. split; reflexivity.
Qed.

Lemma join_cons2 sep (x y : str) (r : list str) : join sep (x :: y :: r) = x ++ sep ++ join sep (y :: r).
Proof. reflexivity. Qed.

Lemma join0_inj p : forall q,
  forallb nz p = true -> forallb nz q = true -> length p = length q ->
  join [0%N] p = join [0%N] q -> p = q.
Proof.
  induction p as [|x p IH]; intros [|y q] Hp Hq Hl H; try discriminate; [reflexivity|].
  cbn [forallb] in Hp, Hq. apply andb_true_iff in Hp as [Hx Hp]. apply andb_true_iff in Hq as [Hy Hq].
  destruct p as [|x' p], q as [|y' q]; try discriminate.
  - cbn [join] in H. subst y. reflexivity.
  - rewrite !join_cons2 in H. cbn [app] in H.
    destruct (app_sep_inj x y _ _ Hx Hy H) as [-> H2].
    f_equal. apply IH; auto.
Qed.

Lemma ocell_eqb_eq a b :
  ocell_nul_free a = true -> ocell_nul_free b = true -> ocell_eqb a b = true -> a = b.
Proof.
  destruct a as [|p|x|x|x|x], b as [|q|y|y|y|y]; cbn [ocell_eqb ocell_nul_free]; intros Ha Hb H;
    try discriminate; try reflexivity; try (apply str_eqb_eq in H; subst; reflexivity).
  - apply andb_true_iff in H as [H1 H2]. apply str_eqb_eq in H1. apply Nat.eqb_eq in H2.
    f_equal. apply join0_inj; auto.
  - apply eqb_prop in H. subst. reflexivity.
Qed.

Lemma rle_In r : forall c n, In (c, n) (rle r) -> In c r.
Proof.
  induction r as [|a r IH]; intros c n H; [destruct H|].
  cbn [rle] in H. destruct (rle r) as [|[c' n'] rest].
  - destruct H as [H|[]]. inversion H; subst. left; reflexivity.
  - destruct (ocell_eqb a c').
    + destruct H as [H|H].
      * inversion H; subst. right. apply (IH c n'). left; reflexivity.
      * right. apply (IH c n). right; exact H.
    + destruct H as [H|H].
      * inversion H; subst. left; reflexivity.
      * right. apply (IH c n). exact H.
Qed.

(* Theorem 2 (strong form): expanding the runs gives the row back, for NUL-free string cells *)
Theorem rle_expand r :
  forallb ocell_nul_free r = true ->
  flat_map (fun cn => repeat_list (fst cn) (snd cn)) (rle r) = r.
Proof.
  induction r as [|a r IH]; [reflexivity|]. cbn [forallb]. intro H.
  apply andb_true_iff in H as [Ha Hr]. specialize (IH Hr).
  pose proof (rle_In r) as HIn.
  cbn [rle]. destruct (rle r) as [|[c' n] rest].
  - cbn in IH. subst r. reflexivity.
  - destruct (ocell_eqb a c') eqn:E.
    + assert (a = c') as ->.
      { apply ocell_eqb_eq; auto. rewrite forallb_forall in Hr. apply Hr, (HIn c' n). left; reflexivity. }
      cbn [flat_map fst snd repeat_list app] in *. rewrite IH. reflexivity.
    + cbn [flat_map fst snd repeat_list app] in *. rewrite IH. reflexivity.
Qed.

(* spec-level corollary *)
Corollary rle_expand_spec pflt r :
  forallb ocell_nul_free r = true ->
  flat_map (fun cn => repeat_list (ocell_spec pflt (fst cn)) (snd cn)) (rle r) = map (ocell_spec pflt) r.
Proof.
  intro H. rewrite <- (rle_expand r H) at 2. rewrite map_flat_map.
  induction (rle r) as [|cn l IH]; [reflexivity|]. cbn [flat_map]. rewrite map_repeat_list, IH. reflexivity.
Qed.

(* the side condition is needed: ocell_eqb identifies these two different cells *)
Example rle_nul_counterexample :
  let r := [OStr [[0%N]; []]; OStr [[]; [0%N]]] in
  flat_map (fun cn => repeat_list (fst cn) (snd cn)) (rle r) <> r
  /\ flat_map (fun cn => repeat_list (ocell_spec (fun _ => FValErr) (fst cn)) (snd cn)) (rle r)
     <> map (ocell_spec (fun _ => FValErr)) r.
Proof. split; vm_compute; discriminate. Qed.

(* ------------------------------------------------------------------ paragraphs of a cell (comments skipped) *)
Lemma para_step p :
  (if tag_is OFFICE_ANNOTATION (ET TEXT_P p) then [] else ET TEXT_P p :: iter_skip OFFICE_ANNOTATION (ET TEXT_P p))
  = [ET TEXT_P p].
Proof. unfold tag_is, ET. cbn [xtag iter_skip]. rewrite ne_p_ann. reflexivity. Qed.

Lemma para_tag p : tag_is TEXT_P (ET TEXT_P p) = true.
Proof. unfold tag_is, ET. cbn [xtag]. apply str_eqb_refl. Qed.

Lemma cell_paras_r tg attrs x l c :
  ods_cell_paras (Elem tg attrs x (ods_r_cell_children c) l) = ods_r_cell_children c.
Proof.
  unfold ods_cell_paras. rewrite iter_skip_unfold.
  destruct c as [|ps|a|i|i|b]; try reflexivity.
  cbn [ods_r_cell_children]. induction ps as [|p ps IH]; [reflexivity|].
  cbn [map flat_map]. rewrite para_step. cbn [app filter]. rewrite para_tag, IH. reflexivity.
Qed.

(* a cell comment (office:annotation, whatever it contains) does not reach the value *)
Theorem ods_cell_comment_skipped : forall pint pflt aa ax acs al t,
  ods_cell_value pint pflt
    (Elem TABLE_CELL [(ATTR_VALUE_TYPE, s "string")] []
          [Elem OFFICE_ANNOTATION aa ax acs al; ET TEXT_P t] [])
  = Some (if is_nil t then VNone else VStr t).
Proof.
  intros pint pflt aa ax acs al t.
  assert (Hp : ods_cell_paras (Elem TABLE_CELL [(ATTR_VALUE_TYPE, s "string")] []
                                    [Elem OFFICE_ANNOTATION aa ax acs al; ET TEXT_P t] [])
               = [ET TEXT_P t]).
  { unfold ods_cell_paras. rewrite iter_skip_unfold. cbn [flat_map].
    replace (tag_is OFFICE_ANNOTATION (Elem OFFICE_ANNOTATION aa ax acs al)) with true
      by (unfold tag_is; cbn [xtag]; symmetry; apply str_eqb_refl).
    rewrite para_step.
    cbn [app filter]. rewrite para_tag. reflexivity. }
  cbv beta zeta delta [ods_cell_value]. rewrite Hp. cbn [map join].
  unfold ET. rewrite odf_text_leaf.
  destruct t; vm_compute; reflexivity.
Qed.

Section Ods.
  Variable pint : int_oracle.
  Variable pflt : float_oracle.
  (* int(str(n)) == n *)
  Hypothesis pint_dec : forall n : N, pint (dec_N n) = Some (Z.of_N n).

  Definition last_row_has_data (g : list (list ocell)) : bool :=
    existsb (fun v => negb (is_none v)) (last (ogrid_spec pflt g) []).
  Definition last_col_has_data (c : nat) (g : list (list ocell)) : bool :=
    existsb (fun r => negb (is_none (nth (c - 1) r VNone))) (ogrid_spec pflt g).
  Definition no_long_empty_runs (g : list (list ocell)) : bool :=
    forallb (fun r => forallb (fun cn => negb (is_none (ocell_spec pflt (fst cn))) || Nat.leb (snd cn) 100)
                              (rle r)) g.

  Lemma pint_1 : pint (s "1") = Some 1%Z.
  Proof. rewrite <- dec_N_1. apply pint_dec. Qed.

  (* ---------------- one cell *)
  Lemma cell_text attrs c :
    join NL (map (odf_text pint [OFFICE_ANNOTATION])
                 (ods_cell_paras (Elem TABLE_CELL attrs [] (ods_r_cell_children c) [])))
    = match c with OStr ps => join NL ps | _ => [] end.
  Proof.
    rewrite cell_paras_r.
    destruct c as [|ps|a|i|i|b]; try reflexivity.
    cbn [ods_r_cell_children]. f_equal.
    induction ps as [|p ps IH]; [reflexivity|].
    cbn [map]. unfold ET at 1. rewrite odf_text_leaf, IH. reflexivity.
  Qed.

  Lemma cell_value_gen pre c :
    pre_ok pre ->
    ods_cell_value pint pflt (Elem TABLE_CELL (pre ++ ods_r_cell_attrs c) [] (ods_r_cell_children c) [])
    = Some (ocell_spec pflt c).
  Proof.
    intros Hp. cbv beta zeta delta [ods_cell_value xget]. cbn [xattrs].
    rewrite cell_text.
    rewrite !(assoc_pre ATTR_VALUE_TYPE pre _ Hp ne_vt_rep), !(assoc_pre ATTR_VALUE pre _ Hp ne_v_rep),
            !(assoc_pre ATTR_DATE_VALUE pre _ Hp ne_dv_rep), !(assoc_pre ATTR_TIME_VALUE pre _ Hp ne_tv_rep),
            !(assoc_pre ATTR_BOOLEAN_VALUE pre _ Hp ne_bv_rep).
    destruct c as [|ps|a|i|i|b].
    - vm_compute; reflexivity.
    - cbn [ocell_spec]. generalize (join NL ps). intros [|ch t]; vm_compute; reflexivity.
    - destruct a as [|n a]; [vm_compute; reflexivity|].
      vm_compute. destruct (pflt (n :: a)); reflexivity.
    - destruct i; vm_compute; reflexivity.
    - destruct i; vm_compute; reflexivity.
    - destruct b; vm_compute; reflexivity.
  Qed.

  Lemma cell_value c n :
    ods_cell_value pint pflt (ods_r_cell c n) = Some (ocell_spec pflt c).
  Proof. unfold ods_r_cell. apply cell_value_gen, pre_ok_n. Qed.

  Lemma xget_rep c n : xget ATTR_REPEAT_COLS (s "1") (ods_r_cell c n) = dec_N (N.of_nat n).
  Proof.
    unfold ods_r_cell, xget. cbn [xattrs].
    destruct n as [|[|n]].
    - cbn [app assoc]. rewrite str_eqb_refl. reflexivity.
    - cbn [app]. rewrite assoc_rep_attrs. symmetry. exact dec_N_1.
    - cbn [app assoc]. rewrite str_eqb_refl. reflexivity.
  Qed.

  Lemma cell_tag c n : tag_is TABLE_CELL (ods_r_cell c n) = true.
  Proof. unfold tag_is, ods_r_cell. cbn [xtag]. apply str_eqb_refl. Qed.

  (* ---------------- one row *)
  Lemma row_step c n rest vs :
    negb (is_none (ocell_spec pflt c)) || Nat.leb n 100 = true ->
    ods_row_values pint pflt rest = Some vs ->
    ods_row_values pint pflt (ods_r_cell c n :: rest) = Some (repeat_list (ocell_spec pflt c) n ++ vs).
  Proof.
    intros Hrun Hrest. cbn [ods_row_values].
    rewrite xget_rep, pint_dec, (cell_value c n), Hrest.
    rewrite nat_N_Z, Nat2Z.id.
    replace (is_none (ocell_spec pflt c) && (100 <? Z.of_nat n)%Z) with false; [reflexivity|].
    symmetry. apply orb_true_iff in Hrun as [H|H].
    - apply negb_true_iff in H. rewrite H. reflexivity.
    - apply Nat.leb_le in H. apply andb_false_iff. right. apply Z.ltb_ge. lia.
  Qed.

  Lemma row_values_plain r :
    ods_row_values pint pflt (map (fun c => ods_r_cell c 1) r) = Some (map (ocell_spec pflt) r).
  Proof.
    induction r as [|c r IH]; [reflexivity|]. cbn [map].
    rewrite (row_step c 1 _ _ (orb_true_r _) IH). reflexivity.
  Qed.

  Lemma row_values_rle (l : list (ocell * nat)) :
    forallb (fun cn => negb (is_none (ocell_spec pflt (fst cn))) || Nat.leb (snd cn) 100) l = true ->
    ods_row_values pint pflt (map (fun cn => ods_r_cell (fst cn) (snd cn)) l)
    = Some (flat_map (fun cn => repeat_list (ocell_spec pflt (fst cn)) (snd cn)) l).
  Proof.
    induction l as [|[c n] l IH]; [reflexivity|]. cbn [forallb map flat_map fst snd]. intros K.
    apply andb_true_iff in K as [K1 K2].
    apply row_step; auto.
  Qed.

  (* ---------------- rows of a sheet *)
  Lemma raw_rows_gen (f : list ocell -> list xml) g :
    (forall r, In r g -> forallb (tag_is TABLE_CELL) (f r) = true) ->
    (forall r, In r g -> ods_row_values pint pflt (f r) = Some (map (ocell_spec pflt) r)) ->
    ods_raw_rows pint pflt (map (fun r => E TABLE_ROW (f r)) g) = Some (ogrid_spec pflt g).
  Proof.
    induction g as [|r g IH]; [reflexivity|]. intros Ht Hv.
    cbn [map ods_raw_rows].
    change (xget ATTR_REPEAT_ROWS (s "1") (E TABLE_ROW (f r))) with (s "1").
    rewrite pint_1. unfold E at 1. rewrite findall_all by (apply Ht; left; reflexivity).
    rewrite (Hv r (or_introl eq_refl)).
    rewrite IH; [reflexivity | intros; apply Ht; right; assumption | intros; apply Hv; right; assumption].
  Qed.

  Lemma findall_rows (f : list ocell -> list xml) g :
    table_rows (E TABLE_TABLE (map (fun r => E TABLE_ROW (f r)) g))
    = map (fun r => E TABLE_ROW (f r)) g.
  Proof.
    unfold table_rows. unfold E at 1. apply collect_all_leaves. induction g as [|r g IH]; [reflexivity|].
    cbn [map forallb]. rewrite IH. unfold tag_is, E. cbn [xtag]. rewrite str_eqb_refl. reflexivity.
  Qed.

  (* ---------------- from raw rows to the sheet *)
  Lemma sheet_of_raw table g c :
    ods_raw_rows pint pflt (table_rows table) = Some (ogrid_spec pflt g) ->
    1 <= c -> g <> [] -> rect c g = true ->
    last_row_has_data g = true -> last_col_has_data c g = true ->
    ods_sheet pint pflt table = Some (ogrid_spec pflt g).
  Proof.
    intros Hraw Hc Hne Hrect Hlr Hlc. unfold ods_sheet. rewrite Hraw. f_equal.
    assert (Hne' : ogrid_spec pflt g <> []).
    { destruct g; [congruence | discriminate]. }
    assert (Hrect' : forallb (fun r => Nat.eqb (length r) c) (ogrid_spec pflt g) = true).
    { unfold ogrid_spec. clear -Hrect. induction g as [|r g IH]; [reflexivity|].
      cbn [rect forallb map] in *. apply andb_true_iff in Hrect as [H1 H2].
      rewrite map_length, H1. exact (IH H2). }
    rewrite (trim_id _ Hne' Hlr).
    rewrite (last_data_col_eq _ c Hc Hrect' Hlc).
    clear -Hrect'. induction (ogrid_spec pflt g) as [|r rows IH]; [reflexivity|].
    cbn [forallb map] in *. apply andb_true_iff in Hrect' as [H1 H2]. apply Nat.eqb_eq in H1.
    rewrite (IH H2). subst c. rewrite pad_to_id. reflexivity.
  Qed.

  (* ---------------- Theorem 1 *)
  Theorem ods_plain_roundtrip : forall g c,
    (1 <= c)%nat -> g <> [] -> rect c g = true ->
    last_row_has_data g = true -> last_col_has_data c g = true ->
    ods_sheet pint pflt (ods_r_sheet_plain g) = Some (ogrid_spec pflt g).
  Proof.
    intros g c Hc Hne Hrect Hlr Hlc.
    apply (sheet_of_raw _ g c); auto.
    change (ods_r_sheet_plain g)
      with (E TABLE_TABLE (map (fun r => E TABLE_ROW ((fun r => map (fun c => ods_r_cell c 1) r) r)) g)).
    rewrite findall_rows. apply raw_rows_gen.
    - intros r _. cbv beta. induction r as [|x r IH]; [reflexivity|].
      cbn [map forallb]. rewrite cell_tag, IH. reflexivity.
    - intros r Hin. cbv beta. apply row_values_plain.
  Qed.

  (* ---------------- Theorem 3 *)
  Theorem ods_rle_roundtrip : forall g c,
    (1 <= c)%nat -> g <> [] -> rect c g = true ->
    last_row_has_data g = true -> last_col_has_data c g = true ->
    grid_nul_free g = true -> no_long_empty_runs g = true ->
    ods_sheet pint pflt (ods_r_sheet_rle g) = Some (ogrid_spec pflt g).
  Proof.
    intros g c Hc Hne Hrect Hlr Hlc Hnul Hruns.
    apply (sheet_of_raw _ g c); auto.
    change (ods_r_sheet_rle g)
      with (E TABLE_TABLE (map (fun r => E TABLE_ROW ((fun r => map (fun cn => ods_r_cell (fst cn) (snd cn)) (rle r)) r)) g)).
    rewrite findall_rows. apply raw_rows_gen.
    - intros r _. cbv beta. induction (rle r) as [|x l IH]; [reflexivity|].
      cbn [map forallb]. rewrite cell_tag, IH. reflexivity.
    - intros r Hin. cbv beta.
      unfold grid_nul_free in Hnul. rewrite forallb_forall in Hnul.
      unfold no_long_empty_runs in Hruns. rewrite forallb_forall in Hruns.
      rewrite row_values_rle.
      + rewrite rle_expand_spec by (apply Hnul, Hin). reflexivity.
      + apply Hruns, Hin.
  Qed.

End Ods.

(* ------------------------------------------------------------------ concrete oracles *)
(* int(): decimal parser through Coq's DecimalString (enough for the strings str(n) produces) *)
Fixpoint unS (x : str) : string :=
  match x with [] => EmptyString | c :: r => String (ascii_of_N c) (unS r) end.
Lemma unS_s x : unS (s x) = x.
Proof. induction x as [|a x IH]; [reflexivity|]. cbn [s unS]. rewrite ascii_N_embedding, IH. reflexivity. Qed.

Definition pint0 : int_oracle := fun x =>
  match NilEmpty.uint_of_string (unS x) with
  | Some d => Some (Z.of_N (N.of_uint d))
  | None => None
  end.
Definition pflt0 : float_oracle := fun _ => FValErr.

(* the Section hypothesis is satisfiable *)
Lemma pint0_dec : forall n : N, pint0 (dec_N n) = Some (Z.of_N n).
Proof. intro n. unfold pint0, dec_N. rewrite unS_s, NilEmpty.usu, DecimalN.Unsigned.of_to. reflexivity. Qed.

Definition ods_plain_roundtrip0 := ods_plain_roundtrip pint0 pflt0 pint0_dec.
Definition ods_rle_roundtrip0 := ods_rle_roundtrip pint0 pflt0 pint0_dec.

(* ------------------------------------------------------------------ Refutation: the repeat cap *)
(* A | 101 empty cells | B   — one row, 103 columns *)
Definition gw : list (list ocell) := [ OStr [s "A"] :: repeat_list OEmpty 101 ++ [OStr [s "B"]] ].

Theorem ods_repeat_cap_refuted : exists g c,
  (1 <= c)%nat /\ g <> [] /\ rect c g = true /\
  last_row_has_data pflt0 g = true /\ last_col_has_data pflt0 c g = true /\
  grid_nul_free g = true /\
  ods_sheet pint0 pflt0 (ods_r_sheet_plain g) = Some (ogrid_spec pflt0 g) /\
  ods_sheet pint0 pflt0 (ods_r_sheet_rle g) <> Some (ogrid_spec pflt0 g).
Proof.
  exists gw, 103. repeat split; try (vm_compute; reflexivity).
  - lia.
  - discriminate.
  - vm_compute. discriminate.
Qed.

(* what comes back: B moved from column 103 to column 3 *)
Example ods_repeat_cap_witness :
  ods_sheet pint0 pflt0 (ods_r_sheet_rle gw) = Some [[VStr (s "A"); VNone; VStr (s "B")]].
Proof. vm_compute; reflexivity. Qed.

(* the only hypothesis of ods_rle_roundtrip the witness violates *)
Example ods_repeat_cap_witness_runs : no_long_empty_runs pflt0 gw = false.
Proof. vm_compute; reflexivity. Qed.

(* row variant: A / one empty row repeated 101 times / B  -> 3 rows instead of 103 *)
Definition row_of (c : ocell) : xml := E TABLE_ROW [ods_r_cell c 1].
Definition xw_rows : xml :=
  E TABLE_TABLE [ row_of (OStr [s "A"]);
                  Elem TABLE_ROW [(ATTR_REPEAT_ROWS, s "101")] [] [ods_r_cell OEmpty 1] [];
                  row_of (OStr [s "B"]) ].
Definition gw_rows : list (list ocell) := [OStr [s "A"]] :: repeat_list [OEmpty] 101 ++ [[OStr [s "B"]]].

Example ods_row_repeat_cap_witness :
  ods_sheet pint0 pflt0 xw_rows = Some [[VStr (s "A")]; [VNone]; [VStr (s "B")]]
  /\ length (ogrid_spec pflt0 gw_rows) = 103%nat
  /\ ods_sheet pint0 pflt0 (ods_r_sheet_plain gw_rows) = Some (ogrid_spec pflt0 gw_rows)
  /\ ods_sheet pint0 pflt0 xw_rows <> Some (ogrid_spec pflt0 gw_rows).
Proof. repeat split; try (vm_compute; reflexivity). vm_compute. discriminate. Qed.

(* with 100 repeats both variants are expanded faithfully (the cap is exactly > 100) *)
Definition gw100 : list (list ocell) := [ OStr [s "A"] :: repeat_list OEmpty 100 ++ [OStr [s "B"]] ].
Example ods_repeat_100_ok :
  no_long_empty_runs pflt0 gw100 = true
  /\ ods_sheet pint0 pflt0 (ods_r_sheet_rle gw100) = Some (ogrid_spec pflt0 gw100).
Proof. split; vm_compute; reflexivity. Qed.

(* ------------------------------------------------------------------ non-vacuity of the hypotheses *)
Definition g22 : list (list ocell) :=
  [ [OStr [s "a"; s "b"]; ONum (s "1.5")];
    [OEmpty;              OBool true] ].
Definition pflt1 : float_oracle := fun x => if str_eqb x (s "1.5") then FFlt (s "1.5") else FValErr.

Example nonvac_width : (1 <= 2)%nat.                            Proof. lia. Qed.
Example nonvac_nonempty : g22 <> [].                            Proof. discriminate. Qed.
Example nonvac_rect : rect 2 g22 = true.                        Proof. vm_compute; reflexivity. Qed.
Example nonvac_last_row : last_row_has_data pflt0 g22 = true.   Proof. vm_compute; reflexivity. Qed.
Example nonvac_last_col : last_col_has_data pflt0 2 g22 = true. Proof. vm_compute; reflexivity. Qed.
Example nonvac_nul_free : grid_nul_free g22 = true.             Proof. vm_compute; reflexivity. Qed.
Example nonvac_runs : no_long_empty_runs pflt0 g22 = true.      Proof. vm_compute; reflexivity. Qed.
Example nonvac_plain :
  ods_sheet pint0 pflt0 (ods_r_sheet_plain g22)
  = Some [[VStr (s "a" ++ NL ++ s "b"); VStr (s "1.5")]; [VNone; VBool true]].
Proof. vm_compute; reflexivity. Qed.
Example nonvac_rle :
  ods_sheet pint0 pflt1 (ods_r_sheet_rle g22)
  = Some [[VStr (s "a" ++ NL ++ s "b"); VFlt (s "1.5")]; [VNone; VBool true]].
Proof. vm_compute; reflexivity. Qed.
(* the hypotheses can fail too (they are real conditions) *)
Example nonvac_rect_false : rect 2 [[OEmpty]; [OEmpty; OEmpty]] = false.     Proof. vm_compute; reflexivity. Qed.
Example nonvac_last_row_false : last_row_has_data pflt0 [[OBool true]; [OEmpty]] = false. Proof. vm_compute; reflexivity. Qed.
Example nonvac_last_col_false : last_col_has_data pflt0 2 [[OBool true; OEmpty]] = false. Proof. vm_compute; reflexivity. Qed.
(* and the walker really trims in those cases *)
Example trailing_row_trimmed :
  ods_sheet pint0 pflt0 (ods_r_sheet_plain [[OBool true]; [OEmpty]]) = Some [[VBool true]].
Proof. vm_compute; reflexivity. Qed.
Example trailing_col_trimmed :
  ods_sheet pint0 pflt0 (ods_r_sheet_plain [[OBool true; OEmpty]]) = Some [[VBool true]].
Proof. vm_compute; reflexivity. Qed.
(* inf in office:value: OverflowError is caught, the attribute text is kept (no grid_ok hypothesis any more) *)
Example ovf_kept_as_text :
  ods_sheet pint0 (fun _ => FOvf) (ods_r_sheet_plain [[ONum (s "inf")]]) = Some [[VStr (s "inf")]].
Proof. vm_compute; reflexivity. Qed.

(* a cell with a comment: the comment's paragraph does not reach the value *)
Example ods_cell_comment_example :
  ods_cell_value pint0 pflt0
    (Elem TABLE_CELL [(ATTR_VALUE_TYPE, s "string")] []
          [Elem OFFICE_ANNOTATION [] [] [ET TEXT_P (s "a comment")] []; ET TEXT_P (s "value")] [])
  = Some (VStr (s "value")).
Proof. vm_compute; reflexivity. Qed.

Print Assumptions ods_plain_roundtrip.
Print Assumptions rle_expand.
Print Assumptions rle_expand_spec.
Print Assumptions ods_rle_roundtrip.
Print Assumptions ods_plain_roundtrip0.
Print Assumptions ods_rle_roundtrip0.
Print Assumptions ods_repeat_cap_refuted.
Print Assumptions ods_repeat_cap_witness.
Print Assumptions ods_row_repeat_cap_witness.
Print Assumptions pint0_dec.
Print Assumptions ods_cell_comment_skipped.
Print Assumptions ods_cell_comment_example.
