(* C13 — constant sets the position / row-iteration models depend on equal today's module constants *)
From Coq Require Import ZArith List Bool.
From S2T Require Import Lib.PyStr C13.Model C13.Corr Gen.C13Tables.
Import ListNotations.
Open Scope N_scope.
Definition sorted_mem_eq (a b : list str) : bool :=
  forallb (fun x => mem_str x b) a && forallb (fun x => mem_str x a) b.

Theorem C13_pptx_placeholder_types_match :
  sorted_mem_eq live_pptx_title_types PPTX_TITLE_TYPES && sorted_mem_eq live_pptx_body_types PPTX_BODY_TYPES
  && sorted_mem_eq live_pptx_footer_types PPTX_FOOTER_TYPES = true.
Proof. vm_compute. reflexivity. Qed.
Print Assumptions C13_pptx_placeholder_types_match.

Theorem C13_row_wrappers_match :
  sorted_mem_eq live_ods_row_wrappers ROW_WRAPPERS && sorted_mem_eq live_odp_row_wrappers ROW_WRAPPERS = true.
Proof. vm_compute. reflexivity. Qed.
Print Assumptions C13_row_wrappers_match.
