(* C13 — boolean case checkers for the differential correspondence (model vs implementation). *)
From Coq Require Import ZArith List Bool.
From S2T Require Import Lib.PyStr C13.Model.
Import ListNotations.
Notation length := List.length.

Fixpoint list_eqb {A} (eq : A -> A -> bool) (a b : list A) : bool :=
  match a, b with
  | [], [] => true
  | x :: a', y :: b' => eq x y && list_eqb eq a' b'
  | _, _ => false
  end.

Definition tables_eqb := list_eqb (list_eqb (list_eqb str_eqb)).
Definition vgrid_eqb := list_eqb (list_eqb val_eqb).
Definition opt_eqb {A} (eq : A -> A -> bool) (a b : option A) : bool :=
  match a, b with Some x, Some y => eq x y | None, None => true | _, _ => false end.

(* --- tree walkers: (tree the implementation parsed, tables the implementation returned) *)
Definition corr_docx_tree (c : xml * list (list (list str))) : bool :=
  tables_eqb (docx_tables (fst c)) (snd c).
(* structured cases: the tree must also be the Coq rendering of the abstract document *)
Definition corr_docx (c : doc * xml * list (list (list str))) : bool :=
  let '(d, t, r) := c in xml_eqb t (docx_r_body d) && tables_eqb (docx_tables t) r.

Definition lookup_int (tab : list (str * option Z)) : int_oracle :=
  fun x => match assoc x tab with Some r => r | None => None end.
Definition lookup_flt (tab : list (str * fres)) : float_oracle :=
  fun x => match assoc x tab with Some r => r | None => FValErr end.

Definition ODF_SKIP : list str := [OFFICE_ANNOTATION].                 (* ods, odp *)
Definition ODT_SKIP : list str := [OFFICE_ANNOTATION; s "text:note"].  (* odt *)

Definition corr_odt_tree (c : list (str * option Z) * xml * list (list (list str))) : bool :=
  let '(it, t, r) := c in tables_eqb (odt_tables (lookup_int it) ODT_SKIP t) r.
Definition corr_odt (c : doc * xml * list (list (list str))) : bool :=
  let '(d, t, r) := c in xml_eqb t (odt_r_body d) && tables_eqb (odt_tables (lookup_int []) ODT_SKIP t) r.

(* ODP: one table element -> its grid *)
Definition corr_odp_tree (c : list (str * option Z) * xml * list (list str)) : bool :=
  let '(it, t, r) := c in list_eqb (list_eqb str_eqb) (odp_table (lookup_int it) ODF_SKIP t) r.
Definition corr_odp (c : fgrid * xml * list (list str)) : bool :=
  let '(g, t, r) := c in xml_eqb t (odf_r_ftable g) && list_eqb (list_eqb str_eqb) (odp_table (lookup_int []) ODF_SKIP t) r.

(* PPTX: one graphic frame -> optional grid *)
Definition corr_pptx_tree (is_ws : N -> bool) (c : xml * option (list (list str))) : bool :=
  opt_eqb (list_eqb (list_eqb str_eqb)) (pptx_table is_ws (fst c)) (snd c).
Definition corr_pptx (is_ws : N -> bool) (c : fgrid * xml * option (list (list str))) : bool :=
  let '(g, t, r) := c in xml_eqb t (pptx_r_frame g) && opt_eqb (list_eqb (list_eqb str_eqb)) (pptx_table is_ws t) r.

(* ODS: one table:table element -> sheet data (None = the extractor raised) *)
Definition corr_ods_tree (c : list (str * option Z) * list (str * fres) * xml * option (list (list val))) : bool :=
  let '(it, ft, t, r) := c in opt_eqb vgrid_eqb (ods_sheet (lookup_int it) (lookup_flt ft) t) r.
Definition corr_ods (rle_mode : bool)
           (c : list (str * option Z) * list (str * fres) * list (list ocell) * xml * option (list (list val))) : bool :=
  let '(it, ft, g, t, r) := c in
  xml_eqb t (if rle_mode then ods_r_sheet_rle g else ods_r_sheet_plain g)
  && opt_eqb vgrid_eqb (ods_sheet (lookup_int it) (lookup_flt ft) t) r.

(* HTML: tree built by _HtmlTreeBuilder -> tables *)
Definition corr_html_tree (is_ws : N -> bool) (c : xml * list (list (list str))) : bool :=
  tables_eqb (html_tables is_ws (fst c)) (snd c).
Definition corr_html (is_ws : N -> bool) (c : str * list hblock * xml * list (list (list str))) : bool :=
  let '(w, d, t, r) := c in xml_eqb t (html_r_root w d) && tables_eqb (html_tables is_ws t) r.

(* EPUB: parser events of one chapter -> tables *)
Definition corr_epub (is_ws : N -> bool) (c : list event * list (list (list str))) : bool :=
  tables_eqb (epub_tables is_ws (fst c)) (snd c).

(* XLSX / XLS: grid handed over by openpyxl / xlrd -> sheet data *)
Definition corr_xlsx (is_ws : N -> bool) (c : list (list xcell) * list (list val)) : bool :=
  vgrid_eqb (xlsx_sheet is_ws (fst c)) (snd c).
Definition corr_xls (c : list (list lcell) * list (list val) * (nat * nat)) : bool :=
  let '(g, r, dm) := c in
  vgrid_eqb (xls_sheet_table g) r
  && Nat.eqb (fst (xls_get_dim (xls_sheet_data g))) (fst dm) && Nat.eqb (snd (xls_get_dim (xls_sheet_data g))) (snd dm).

(* get_dim of the list-backed table types *)
Definition corr_dim (c : list (list str) * (nat * nat)) : bool :=
  let '(data, dm) := c in
  Nat.eqb (fst (data_get_dim data)) (fst dm) && Nat.eqb (snd (data_get_dim data)) (snd dm).

(* str.strip / whitespace collapsing against CPython *)
Definition corr_norm (is_ws : N -> bool) (c : str * str * str) : bool :=
  let '(x, stripped, normed) := c in str_eqb (strip is_ws x) stripped && str_eqb (html_norm is_ws x) normed.

(* RTF: decoded text -> tables; unit-level: _strip_rtf_simple and _extract_table_cells *)
Definition corr_rtf (is_ws is_word : N -> bool) (c : list rblock * str * list (list (list str))) : bool :=
  let '(d, text, r) := c in str_eqb text (rtf_r_doc d) && tables_eqb (rtf_tables is_ws is_word text) r.
Definition corr_rtf_text (is_ws is_word : N -> bool) (c : str * list (list (list str))) : bool :=
  tables_eqb (rtf_tables is_ws is_word (fst c)) (snd c).
Definition corr_rtf_strip (is_ws : N -> bool) (c : str * str) : bool :=
  str_eqb (rtf_strip_simple is_ws (fst c)) (snd c).
Definition corr_rtf_cells (is_ws is_word : N -> bool) (c : str * list str) : bool :=
  list_eqb str_eqb (rtf_row_cells is_ws is_word (fst c)) (snd c).

(* RTF render variants: (tight, separator after \row, grid, text, result) *)
Definition corr_rtf_gen (is_ws is_word : N -> bool) (c : bool * str * list (list str) * str * list (list (list str))) : bool :=
  let '(tight, sep, g, text, r) := c in
  str_eqb text (rtf_r_doc_gen tight sep g) && tables_eqb (rtf_tables is_ws is_word text) r.

(* decks: slides of frames (rank of y, rank of x, content); result None = the extractor raised *)
Definition corr_odp_deck (c : list xml * option (list (list (list str)))) : bool :=
  (* pages as parsed (frames possibly inside nested draw:g), frames carry rank:y / rank:x *)
  opt_eqb tables_eqb (Some (flat_map (odp_page_tables (lookup_int []) ODF_SKIP) (fst c))) (snd c).
Definition corr_pptx_deck (is_ws : N -> bool) (c : list (list (nat * nat * option xml)) * option (list (list (list str)))) : bool :=
  let slides := map (map (fun f : nat * nat * option xml =>
                     let '(y, x, t) := f in ((y, x), match t with Some fr => pptx_table is_ws fr | None => None end))) (fst c) in
  opt_eqb tables_eqb (Some (deck_tables slides)) (snd c).

(* --- modelled position keys *)
From Coq Require Import Floats.SpecFloat.
(* a recorded CPython float: None = zero, Some (m, e) = m * 2^e exactly; infinities do not occur *)
Definition f_of_rec (r : option (Z * Z)) : spec_float :=
  match r with None => f_zero | Some (m, e) => binary_normalize fprec femax m e false end.
Definition corr_odf_px (is_ws : N -> bool) (c : str * option (Z * Z)) : bool :=
  f_eqb (odf_length_px is_ws (fst c)) (f_of_rec (snd c))
  || (match odf_length_px is_ws (fst c), snd c with S754_zero _, None => true | _, _ => false end).
(* ODP pages (frames through groups, keys from svg:y / svg:x by the modelled parser) *)
Definition corr_odp_deck_f (is_ws : N -> bool) (c : list xml * option (list (list (list str)))) : bool :=
  opt_eqb tables_eqb (Some (flat_map (odp_page_tables_f is_ws (lookup_int []) ODF_SKIP) (fst c))) (snd c).
(* PPTX: _get_shape_position and whole slides (p:spTree elements) *)
Definition corr_pptx_pos (c : list (str * option Z) * xml * (Z * Z)) : bool :=
  let '(it, sh, k) := c in
  let r := pptx_shape_position (lookup_int it) sh in (fst r =? fst k)%Z && (snd r =? snd k)%Z.
Definition corr_pptx_slides (is_ws : N -> bool) (c : list (str * option Z) * list xml * option (list (list (list str)))) : bool :=
  let '(it, trees, r) := c in
  opt_eqb tables_eqb (Some (flat_map (pptx_slide_tables is_ws (lookup_int it)) trees)) r.

(* XLS: a whole workbook (every sheet as handed over by xlrd) -> the tables of all sheets *)
Definition corr_xls_wb (c : list (list (list lcell)) * list (list (list val))) : bool :=
  list_eqb vgrid_eqb (xls_workbook_tables (fst c)) (snd c).

(* DOCX: tables with their anchor paragraph indices (the two parallel lists of DocxContent) *)
Definition corr_docx_anchor (c : xml * list (list (list str)) * list Z) : bool :=
  let '(t, tabs, anchors) := c in
  let r := docx_tables_anchored t in
  tables_eqb (map fst r) tabs && list_eqb Z.eqb (map snd r) anchors.
