(* C13 — tables come back with their shape and every cell in place.
   Executable model (definitions only) of the table walkers of /repo as they are:
     data_types.py   TableData / XlsxSheet / OdsSheet / OdtTable / RtfTable / XlsSheet get_table, get_dim
     docx_extractor  _extract_tables_from_context, _collect_text_from_element
     pptx_extractor  _extract_table_from_graphic_frame, _extract_text_from_paragraphs
     odt_extractor   _extract_tables          odp_extractor _extract_table
     ods_extractor   _extract_cell_value, _extract_sheet         _shared.element_text
     html_extractor  _get_node_text, _find_nodes, _extract_table, table part of _process_node, extract
     epub_extractor  _XhtmlTextExtractor table state machine (over parser events)
     xlsx_extractor  _read_sheet_data, _is_table_name_row, _read_content_from_workbook
     xls_extractor   _read_content (dict-keyed rows) + XlsSheet.get_table
   plus, per format, `render` functions from abstract source grids to the tree / event list the
   walker reads (the harness serialises the same trees into real files).
   Oracles (parameters, never axioms): is_ws (str.isspace == regex \s), int(), float(),
   ElementTree / html.parser / openpyxl / xlrd parsing. *)
From Coq Require Import ZArith List Bool Lia ZifyBool DecimalString.
From S2T Require Import Lib.PyStr.
Import ListNotations.
Notation length := List.length.
Notation concat := List.concat.
Open Scope N_scope.

(* ------------------------------------------------------------------ small Python helpers *)
Definition NL : str := [10].
Definition SP : N := 32.

(* sep.join(l) *)
Fixpoint join (sep : str) (l : list str) : str :=
  match l with
  | [] => []
  | x :: r => match r with [] => x | _ :: _ => x ++ sep ++ join sep r end
  end.

Definition is_nil {A} (l : list A) : bool := match l with [] => true | _ => false end.

Fixpoint repeat_list {A} (x : A) (n : nat) : list A :=
  match n with O => [] | S k => x :: repeat_list x k end.

(* str(n) for a non-negative int *)
Definition dec_N (n : N) : str := s (NilEmpty.string_of_uint (N.to_uint n)).

(* max((len(row) for row in data), default=0) *)
Definition max_len {A} (data : list (list A)) : nat := fold_right Nat.max O (map (@List.length A) data).

(* str.strip() and re.sub(r"\s+", " ", x), parametric in the whitespace predicate *)
Definition lstrip (is_ws : N -> bool) (x : str) : str := dropWhile is_ws x.
Definition rstrip (is_ws : N -> bool) (x : str) : str := rev (dropWhile is_ws (rev x)).
Definition strip (is_ws : N -> bool) (x : str) : str := rstrip is_ws (lstrip is_ws x).
Fixpoint collapse_ws (is_ws : N -> bool) (in_ws : bool) (x : str) : str :=
  match x with
  | [] => []
  | c :: r => if is_ws c then (if in_ws then collapse_ws is_ws true r else SP :: collapse_ws is_ws true r)
              else c :: collapse_ws is_ws false r
  end.
(* the ASCII part of Python's whitespace set; used for closed refutation witnesses *)
Definition ws_ascii (c : N) : bool := (c =? 32) || ((9 <=? c) && (c <=? 13)).
Definition all_ws (is_ws : N -> bool) (x : str) : bool := forallb is_ws x.

(* ------------------------------------------------------------------ cell values (typed) *)
Inductive val :=
| VNone
| VStr (x : str)
| VInt (z : Z)
| VFlt (tok : str)      (* float, identified by its repr token *)
| VBool (b : bool)
| VOther (tok : str).   (* any other Python object (timedelta ...), identified by type+repr token *)

Definition val_eqb (a b : val) : bool :=
  match a, b with
  | VNone, VNone => true
  | VStr x, VStr y => str_eqb x y
  | VInt x, VInt y => Z.eqb x y
  | VFlt x, VFlt y => str_eqb x y
  | VBool x, VBool y => Bool.eqb x y
  | VOther x, VOther y => str_eqb x y
  | _, _ => false
  end.

Definition is_none (v : val) : bool := match v with VNone => true | _ => false end.

(* ------------------------------------------------------------------ table types of data_types.py *)
(* TableDim(rows, columns) *)
Definition dim := (nat * nat)%type.

(* TableData / XlsxSheet / OdsSheet / OdtTable / RtfTable: get_table() returns self.data and
   get_dim() is (len(data), max(len(row))) computed from self.data *)
Definition data_get_table {A} (data : list (list A)) : list (list A) := data.
Definition data_get_dim {A} (data : list (list A)) : dim := (length data, max_len data).

(* XlsSheet: data is a list of dicts (insertion ordered, keyed by header text) *)
Definition pydict := list (str * val).
Fixpoint dict_set (k : str) (v : val) (d : pydict) : pydict :=
  match d with
  | [] => [(k, v)]
  | (k', v') :: r => if str_eqb k k' then (k', v) :: r else (k', v') :: dict_set k v r
  end.
Definition dict_get (k : str) (d : pydict) : val := match assoc k d with Some v => v | None => VNone end.
Definition dict_keys (d : pydict) : list str := map fst d.

Definition xls_get_table (data : list pydict) : list (list val) :=
  match data with
  | [] => []
  | d0 :: _ =>
      let headers := dict_keys d0 in
      map VStr headers :: map (fun row => map (fun h => dict_get h row) headers) data
  end.
Definition xls_get_dim (data : list pydict) : dim :=
  let t := xls_get_table data in (length t, max_len t).

(* ------------------------------------------------------------------ ElementTree *)
Inductive xml := Elem (tag : str) (attrs : list (str * str)) (text : str) (children : list xml) (tail : str).

Definition xtag (x : xml) := match x with Elem t _ _ _ _ => t end.
Definition xattrs (x : xml) := match x with Elem _ a _ _ _ => a end.
Definition xtext (x : xml) := match x with Elem _ _ t _ _ => t end.
Definition xchildren (x : xml) := match x with Elem _ _ _ c _ => c end.
Definition xtail (x : xml) := match x with Elem _ _ _ _ t => t end.

Definition tag_is (t : str) (x : xml) : bool := str_eqb (xtag x) t.

(* element.iter(): the element itself, then all descendants, document order *)
Fixpoint iter (x : xml) : list xml :=
  match x with
  | Elem _ _ _ cs _ => x :: (fix go (l : list xml) : list xml :=
                               match l with [] => [] | c :: r => iter c ++ go r end) cs
  end.
Definition iter_tag (t : str) (x : xml) : list xml := filter (tag_is t) (iter x).
(* element.findall(tag): direct children with that tag *)
Definition findall (t : str) (x : xml) : list xml := filter (tag_is t) (xchildren x).
(* element.find(tag) *)
Definition find (t : str) (x : xml) : option xml := hd_error (findall t x).
(* element.get(name, default) *)
Definition xget (name : str) (default : str) (x : xml) : str :=
  match assoc name (xattrs x) with Some v => v | None => default end.

Fixpoint xml_eqb (a b : xml) {struct a} : bool :=
  match a, b with
  | Elem t1 a1 x1 c1 l1, Elem t2 a2 x2 c2 l2 =>
      str_eqb t1 t2
      && (fix ae (p q : list (str * str)) : bool :=
            match p, q with
            | [], [] => true
            | (k, v) :: p', (k', v') :: q' => str_eqb k k' && str_eqb v v' && ae p' q'
            | _, _ => false
            end) a1 a2
      && str_eqb x1 x2
      && (fix ce (p : list xml) (q : list xml) : bool :=
            match p, q with
            | [], [] => true
            | u :: p', w :: q' => xml_eqb u w && ce p' q'
            | _, _ => false
            end) c1 c2
      && str_eqb l1 l2
  end.

Definition E (t : str) (cs : list xml) : xml := Elem t [] [] cs [].
Definition ET (t : str) (tx : str) : xml := Elem t [] tx [] [].

(* ------------------------------------------------------------------ abstract source documents
   (word-processing / HTML style).  A paragraph is a list of runs; a cell is a list of items;
   an item is a paragraph or a table whose own cells hold paragraphs only (nesting depth 1 —
   the bound is part of every statement that mentions `citem`). *)
Definition para := list str.
Definition fcell := list para.                 (* cell without nested tables *)
Definition fgrid := list (list fcell).
Inductive citem := CPara (p : para) | CTable (g : fgrid).
Definition cell := list citem.
Definition grid := list (list cell).
Inductive block := BPara (p : para) | BTable (g : grid).
Definition doc := list block.

Definition is_cpara (c : citem) : bool := match c with CPara _ => true | CTable _ => false end.
Definition grid_flat (g : grid) : bool := forallb (forallb (forallb is_cpara)) g.
Definition no_nested_tables (d : doc) : bool :=
  forallb (fun b => match b with BPara _ => true | BTable g => grid_flat g end) d.

Definition para_text (p : para) : str := concat p.
Definition fcell_text (c : fcell) : str := join NL (map para_text c).
Definition fgrid_text (g : fgrid) : list (list str) := map (map fcell_text) g.

(* the paragraphs directly in a cell (nested tables skipped) / all paragraphs in a cell *)
Definition cell_own_paras (c : cell) : list para :=
  flat_map (fun i => match i with CPara p => [p] | CTable _ => [] end) c.
Definition cell_all_paras (c : cell) : list para :=
  flat_map (fun i => match i with CPara p => [p] | CTable g => concat (concat g) end) c.
Definition cell_text_own (c : cell) : str := join NL (map para_text (cell_own_paras c)).
Definition cell_text_all (c : cell) : str := join NL (map para_text (cell_all_paras c)).
Definition nested_of_cell (c : cell) : list fgrid :=
  flat_map (fun i => match i with CPara _ => [] | CTable g => [g] end) c.
Definition nested_of_grid (g : grid) : list fgrid := flat_map (flat_map nested_of_cell) g.

Definition top_tables (d : doc) : list grid :=
  flat_map (fun b => match b with BPara _ => [] | BTable g => [g] end) d.

(* SPEC A (strict reading of the property): exactly the top-level tables, in order; cell (i,j)
   holds the text of the paragraphs of source cell (i,j) *)
Definition spec_top (d : doc) : list (list (list str)) :=
  map (fun g => map (map cell_text_own) g) (top_tables d).
(* SPEC B (flattening reading): every table incl. nested ones in document (pre-)order; an outer
   cell holds all text inside it, nested tables' text included *)
Definition spec_preorder (d : doc) : list (list (list str)) :=
  flat_map (fun g => map (map cell_text_all) g :: map fgrid_text (nested_of_grid g)) (top_tables d).

(* the `leaf` elements of x in document order, looking through (possibly nested) wrapper elements
   but not into anything else:
     ods _iter_sheet_rows / odp _iter_table_rows  (leaf table:table-row; wrappers header-rows, table-rows, row-group)
     odp _iter_slide_frames                       (leaf draw:frame; wrapper draw:g) *)
Fixpoint collect_through (leaf : str) (wr : list str) (x : xml) : list xml :=
  match x with
  | Elem _ _ _ cs _ =>
      (fix go (l : list xml) : list xml :=
         match l with
         | [] => []
         | c :: r => (if tag_is leaf c then [c] else if mem_str (xtag c) wr then collect_through leaf wr c else []) ++ go r
         end) cs
  end.

(* ------------------------------------------------------------------ DOCX *)
Definition W_BODY := s "w:body".
Definition W_P := s "w:p".
Definition W_R := s "w:r".
Definition W_T := s "w:t".
Definition W_TBL := s "w:tbl".
Definition W_TR := s "w:tr".
Definition W_TC := s "w:tc".

(* "".join(t.text for t in element.iter(W_T) if t.text) *)
Definition docx_collect_text (e : xml) : str := concat (map xtext (iter_tag W_T e)).
Definition docx_cell (tc : xml) : str := join NL (map docx_collect_text (iter_tag W_P tc)).
(* wrappers _iter_block_elements looks through: content controls and custom XML *)
Definition DOCX_WRAPPERS : list str := [s "w:sdt"; s "w:sdtContent"; s "w:customXml"].
(* through(parent, tag) = [e for e in _iter_block_elements(parent) if e.tag == tag]  (tag is not a wrapper) *)
Definition docx_through (tag : str) (parent : xml) : list xml := collect_through tag DOCX_WRAPPERS parent.
Definition docx_table (tbl : xml) : list (list str) :=
  map (fun tr => map docx_cell (docx_through W_TC tr)) (docx_through W_TR tbl).
(* for child in body: a w:tbl, or the w:tbl elements found through a wrapper child; each with its nested tables *)
Definition docx_tables (body : xml) : list (list (list str)) :=
  flat_map (fun ch => if tag_is W_TBL ch then map docx_table (iter_tag W_TBL ch)
                      else if mem_str (xtag ch) DOCX_WRAPPERS
                      then flat_map (fun top => map docx_table (iter_tag W_TBL top)) (docx_through W_TBL ch)
                      else []) (xchildren body).

(* the walker before fix a634949: direct children only (tables / rows / cells inside wrappers were lost) *)
Definition docx_table_direct (tbl : xml) : list (list str) :=
  map (fun tr => map docx_cell (findall W_TC tr)) (findall W_TR tbl).
Definition docx_tables_direct (body : xml) : list (list (list str)) :=
  flat_map (fun ch => if tag_is W_TBL ch then map docx_table_direct (iter_tag W_TBL ch) else []) (xchildren body).

Definition docx_r_run (t : str) : xml := E W_R [ET W_T t].
Definition docx_r_para (p : para) : xml := E W_P (map docx_r_run p).
Definition docx_r_fcell (c : fcell) : xml := E W_TC (map docx_r_para c).
Definition docx_r_ftable (g : fgrid) : xml := E W_TBL (map (fun r => E W_TR (map docx_r_fcell r)) g).
Definition docx_r_citem (i : citem) : xml :=
  match i with CPara p => docx_r_para p | CTable g => docx_r_ftable g end.
Definition docx_r_cell (c : cell) : xml := E W_TC (map docx_r_citem c).
Definition docx_r_table (g : grid) : xml := E W_TBL (map (fun r => E W_TR (map docx_r_cell r)) g).
Definition docx_r_block (b : block) : xml :=
  match b with BPara p => docx_r_para p | BTable g => docx_r_table g end.
Definition docx_r_body (d : doc) : xml := E W_BODY (map docx_r_block d).

(* ------------------------------------------------------------------ PPTX (one graphic frame) *)
Definition A_GRAPHICDATA := s "a:graphicData".
Definition A_TBL := s "a:tbl".
Definition A_TR := s "a:tr".
Definition A_TC := s "a:tc".
Definition A_TXBODY := s "a:txBody".
Definition A_P := s "a:p".
Definition A_R := s "a:r".
Definition A_FLD := s "a:fld".
Definition A_BR := s "a:br".
Definition A_T := s "a:t".
Definition P_GRAPHICFRAME := s "p:graphicFrame".
Definition TABLE_URI := s "http://schemas.openxmlformats.org/drawingml/2006/table".
Definition VT : str := [11].

Definition pptx_para_text (p : xml) : str :=
  concat (map (fun ch =>
    if tag_is A_R ch || tag_is A_FLD ch then match find A_T ch with Some t => xtext t | None => [] end
    else if tag_is A_BR ch then VT
    else if tag_is A_T ch then xtext ch else []) (xchildren p)).
Definition pptx_paragraphs_text (e : xml) : str := join NL (map pptx_para_text (iter_tag A_P e)).
Definition pptx_table (is_ws : N -> bool) (frame : xml) : option (list (list str)) :=
  match iter_tag A_GRAPHICDATA frame with
  | [] => None
  | gd :: _ =>
      if negb (str_eqb (xget (s "uri") [] gd) TABLE_URI) || negb (has_key (s "uri") (xattrs gd)) then None
      else match find A_TBL gd with
           | None => None
           | Some tbl =>
               Some (map (fun tr => map (fun tc =>
                       match find A_TXBODY tc with
                       | Some tb => strip is_ws (pptx_paragraphs_text tb)
                       | None => [] end) (findall A_TC tr)) (findall A_TR tbl))
           end
  end.

Definition pptx_r_para (p : para) : xml := E A_P (map (fun t => E A_R [ET A_T t]) p).
Definition pptx_r_cell (c : fcell) : xml := E A_TC [E A_TXBODY (map pptx_r_para c)].
Definition pptx_r_frame (g : fgrid) : xml :=
  E P_GRAPHICFRAME [E (s "a:graphic") [Elem A_GRAPHICDATA [(s "uri", TABLE_URI)] []
     [E A_TBL (map (fun r => E A_TR (map pptx_r_cell r)) g)] []]].

(* ------------------------------------------------------------------ ODF text (shared element_text) *)
Definition TEXT_P := s "text:p".
Definition TEXT_S := s "text:s".
Definition TEXT_TAB := s "text:tab".
Definition TEXT_LB := s "text:line-break".
Definition TEXT_SPAN := s "text:span".
Definition OFFICE_ANNOTATION := s "office:annotation".
Definition ATTR_TEXT_C := s "text:c".
Definition TABLE_TABLE := s "table:table".
Definition TABLE_ROW := s "table:table-row".
Definition TABLE_CELL := s "table:table-cell".
Definition TABLE_HEADER_ROWS := s "table:table-header-rows".
Definition ATTR_REPEAT_ROWS := s "table:number-rows-repeated".
Definition ATTR_REPEAT_COLS := s "table:number-columns-repeated".
Definition ATTR_VALUE_TYPE := s "office:value-type".
Definition ATTR_VALUE := s "office:value".
Definition ATTR_DATE_VALUE := s "office:date-value".
Definition ATTR_TIME_VALUE := s "office:time-value".
Definition ATTR_BOOLEAN_VALUE := s "office:boolean-value".

(* int(x) as an oracle: None = ValueError *)
Definition int_oracle := str -> option Z.

(* _append_element_text; skip = the skip_tags set of the calling module *)
Fixpoint odf_text (pint : int_oracle) (skip : list str) (x : xml) : str :=
  match x with
  | Elem _ _ tx cs _ =>
      tx ++ (fix go (l : list xml) : str :=
               match l with
               | [] => []
               | c :: r =>
                   (if mem_str (xtag c) skip then []
                    else if tag_is TEXT_S c then
                      let n := match pint (xget ATTR_TEXT_C (s "1") c) with Some n => n | None => 1%Z end in
                      repeat_list SP (Z.to_nat n)
                    else if tag_is TEXT_TAB c then [9]
                    else if tag_is TEXT_LB c then NL
                    else odf_text pint skip c)
                   ++ xtail c ++ go r
               end) cs
  end.

Definition ROW_WRAPPERS : list str := [s "table:table-header-rows"; s "table:table-rows"; s "table:table-row-group"].
Definition table_rows (t : xml) : list xml := collect_through TABLE_ROW ROW_WRAPPERS t.
Definition DRAW_FRAME := s "draw:frame".
Definition DRAW_G := s "draw:g".
Definition slide_frames (page : xml) : list xml := collect_through DRAW_FRAME [DRAW_G] page.

(* descendants of x in document order, not entering children whose tag is `skip`
   (ods _iter_cell_paragraphs / odp _iter_paragraphs: the paragraphs of cell comments are left out) *)
Fixpoint iter_skip (skip : str) (x : xml) : list xml :=
  match x with
  | Elem _ _ _ cs _ =>
      (fix go (l : list xml) : list xml :=
         match l with
         | [] => []
         | c :: r => (if tag_is skip c then [] else c :: iter_skip skip c) ++ go r
         end) cs
  end.
Definition ods_cell_paras (cell : xml) : list xml := filter (tag_is TEXT_P) (iter_skip OFFICE_ANNOTATION cell).


(* ------------------------------------------------------------------ ODT / ODP *)
Definition odf_cell (pint : int_oracle) (skip : list str) (c : xml) : str :=
  join NL (map (odf_text pint skip) (iter_tag TEXT_P c)).

(* odt _extract_tables(body): body.iter(table); table.iter(row); row.findall(cell) *)
Definition odt_table (pint : int_oracle) (skip : list str) (t : xml) : list (list str) :=
  filter (fun r => negb (is_nil r))
         (map (fun row => map (odf_cell pint skip) (findall TABLE_CELL row)) (iter_tag TABLE_ROW t)).
Definition odt_tables (pint : int_oracle) (skip : list str) (body : xml) : list (list (list str)) :=
  filter (fun t => negb (is_nil t)) (map (odt_table pint skip) (iter_tag TABLE_TABLE body)).

(* odp: cell text from _iter_paragraphs(cell) (annotations skipped), odt still uses cell.iter(text:p) *)
Definition odp_cell (pint : int_oracle) (skip : list str) (c : xml) : str :=
  join NL (map (odf_text pint skip) (ods_cell_paras c)).
(* odp _extract_table(table_elem): the rows of _iter_table_rows, document order *)
Definition odp_table (pint : int_oracle) (skip : list str) (t : xml) : list (list str) :=
  let rows := table_rows t in
  filter (fun r => negb (is_nil r)) (map (fun row => map (odp_cell pint skip) (findall TABLE_CELL row)) rows).

Definition odf_r_para (p : para) : xml :=
  match p with
  | [] => ET TEXT_P []
  | t0 :: rest => Elem TEXT_P [] t0 (map (fun t => ET TEXT_SPAN t) rest) []
  end.
Definition odf_r_fcell (c : fcell) : xml := E TABLE_CELL (map odf_r_para c).
Definition odf_r_ftable (g : fgrid) : xml := E TABLE_TABLE (map (fun r => E TABLE_ROW (map odf_r_fcell r)) g).
Definition odf_r_citem (i : citem) : xml := match i with CPara p => odf_r_para p | CTable g => odf_r_ftable g end.
Definition odf_r_cell (c : cell) : xml := E TABLE_CELL (map odf_r_citem c).
Definition odf_r_table (g : grid) : xml := E TABLE_TABLE (map (fun r => E TABLE_ROW (map odf_r_cell r)) g).
Definition odf_r_block (b : block) : xml := match b with BPara p => odf_r_para p | BTable g => odf_r_table g end.
Definition odt_r_body (d : doc) : xml := E (s "office:text") (map odf_r_block d).

(* ------------------------------------------------------------------ ODS *)
(* float(x) as an oracle, already split the way _extract_cell_value uses it *)
Inductive fres :=
| FInt (z : Z)        (* float(x) is finite and whole: int(float(x)) *)
| FFlt (tok : str)    (* finite, not whole: repr token *)
| FValErr             (* float(x) raises ValueError, or is nan (int(nan) raises ValueError) *)
| FOvf.               (* +-inf: int(inf) raises OverflowError (caught like ValueError since fix C13-ods-nonfinite-number) *)
Definition float_oracle := str -> fres.

Fixpoint ascii_lower (x : str) : str :=
  match x with [] => [] | c :: r => (if (65 <=? c) && (c <=? 90) then c + 32 else c) :: ascii_lower r end.

Definition mem3 (x a b c : str) : bool := str_eqb x a || str_eqb x b || str_eqb x c.

(* _extract_cell_value (repaired code); the option is kept for uniformity: it is always Some *)
Definition ods_cell_value (pint : int_oracle) (pflt : float_oracle) (cell : xml) : option val :=
  let vt := xget ATTR_VALUE_TYPE [] cell in
  let text_fallback :=
    let t := join NL (map (odf_text pint [OFFICE_ANNOTATION]) (ods_cell_paras cell)) in
    if is_nil t then Some VNone else Some (VStr t) in
  let after_num :=
    if str_eqb vt (s "date") && negb (is_nil (xget ATTR_DATE_VALUE [] cell)) then Some (VStr (xget ATTR_DATE_VALUE [] cell))
    else if str_eqb vt (s "time") && negb (is_nil (xget ATTR_TIME_VALUE [] cell)) then Some (VStr (xget ATTR_TIME_VALUE [] cell))
    else if str_eqb vt (s "boolean") && negb (is_nil (xget ATTR_BOOLEAN_VALUE [] cell))
      then Some (VBool (str_eqb (ascii_lower (xget ATTR_BOOLEAN_VALUE [] cell)) (s "true")))
    else text_fallback in
  if mem3 vt (s "float") (s "currency") (s "percentage") && negb (is_nil (xget ATTR_VALUE [] cell)) then
    match pflt (xget ATTR_VALUE [] cell) with
    | FInt z => Some (VInt z)
    | FFlt t => Some (VFlt t)
    | FValErr => Some (VStr (xget ATTR_VALUE [] cell))
    | FOvf => Some (VStr (xget ATTR_VALUE [] cell))
    end
  else after_num.

Definition all_none (r : list val) : bool := forallb is_none r.

(* one table:table-row -> (row_values, row_repeat); None = exception *)
Fixpoint ods_row_values (pint : int_oracle) (pflt : float_oracle) (cells : list xml) : option (list val) :=
  match cells with
  | [] => Some []
  | c :: r =>
      match pint (xget ATTR_REPEAT_COLS (s "1") c), ods_cell_value pint pflt c with
      | Some rep, Some v =>
          match ods_row_values pint pflt r with
          | Some rest =>
              Some ((if is_none v && (100 <? rep)%Z then [VNone] else repeat_list v (Z.to_nat rep)) ++ rest)
          | None => None
          end
      | _, _ => None
      end
  end.

Fixpoint ods_raw_rows (pint : int_oracle) (pflt : float_oracle) (rows : list xml) : option (list (list val)) :=
  match rows with
  | [] => Some []
  | row :: r =>
      match pint (xget ATTR_REPEAT_ROWS (s "1") row) with
      | None => None
      | Some rr =>
          match ods_row_values pint pflt (findall TABLE_CELL row) with
          | None => None
          | Some vals =>
              match ods_raw_rows pint pflt r with
              | None => None
              | Some rest =>
                  Some ((if (100 <? rr)%Z && all_none vals then [vals] else repeat_list vals (Z.to_nat rr)) ++ rest)
              end
          end
      end
  end.

(* while raw_rows and all(v is None for v in raw_rows[-1]): pop() *)
Definition trim_trailing_rows (rows : list (list val)) : list (list val) := rev (dropWhile all_none (rev rows)).
(* 1 + index of the last non-None cell of a row, 0 if none *)
Definition last_data (r : list val) : nat := length (dropWhile is_none (rev r)).
Definition last_data_col (rows : list (list val)) : nat := fold_right Nat.max O (map last_data rows).
(* [row[i] if i < len(row) else None for i in range(n)] *)
Fixpoint pad_to (n : nat) (r : list val) : list val :=
  match n with
  | O => []
  | S k => match r with [] => VNone :: pad_to k [] | v :: r' => v :: pad_to k r' end
  end.

Definition ods_sheet (pint : int_oracle) (pflt : float_oracle) (table : xml) : option (list (list val)) :=
  match ods_raw_rows pint pflt (table_rows table) with
  | None => None
  | Some raw =>
      let rows := trim_trailing_rows raw in
      Some (map (pad_to (last_data_col rows)) rows)
  end.

(* the walker before fix aa77d43: direct table:table-row children only *)
Definition ods_sheet_direct_rows (pint : int_oracle) (pflt : float_oracle) (table : xml) : option (list (list val)) :=
  match ods_raw_rows pint pflt (findall TABLE_ROW table) with
  | None => None
  | Some raw => let rows := trim_trailing_rows raw in Some (map (pad_to (last_data_col rows)) rows)
  end.

(* source cells of a spreadsheet *)
Inductive ocell :=
| OEmpty
| OStr (paras : list str)        (* string cell with these paragraphs *)
| ONum (attr : str)              (* office:value-type="float" office:value=attr *)
| ODate (iso : str)
| OTime (v : str)
| OBool (b : bool).

Definition ocell_eqb (a b : ocell) : bool :=
  match a, b with
  | OEmpty, OEmpty => true
  | OStr p, OStr q => str_eqb (join [0] p) (join [0] q) && Nat.eqb (length p) (length q)
  | ONum x, ONum y | ODate x, ODate y | OTime x, OTime y => str_eqb x y
  | OBool x, OBool y => Bool.eqb x y
  | _, _ => false
  end.

Definition ocell_spec (pflt : float_oracle) (c : ocell) : val :=
  match c with
  | OEmpty => VNone
  | OStr ps => let t := join NL ps in if is_nil t then VNone else VStr t
  | ONum a => if is_nil a then VNone else
              match pflt a with FInt z => VInt z | FFlt t => VFlt t | FValErr => VStr a | FOvf => VStr a end
  | ODate i => if is_nil i then VNone else VStr i
  | OTime i => if is_nil i then VNone else VStr i
  | OBool b => VBool b
  end.

Definition ods_r_cell_attrs (c : ocell) : list (str * str) :=
  match c with
  | OEmpty => []
  | OStr _ => [(ATTR_VALUE_TYPE, s "string")]
  | ONum a => [(ATTR_VALUE_TYPE, s "float"); (ATTR_VALUE, a)]
  | ODate i => [(ATTR_VALUE_TYPE, s "date"); (ATTR_DATE_VALUE, i)]
  | OTime i => [(ATTR_VALUE_TYPE, s "time"); (ATTR_TIME_VALUE, i)]
  | OBool b => [(ATTR_VALUE_TYPE, s "boolean"); (ATTR_BOOLEAN_VALUE, if b then s "true" else s "false")]
  end.
Definition ods_r_cell_children (c : ocell) : list xml :=
  match c with OStr ps => map (fun t => ET TEXT_P t) ps | _ => [] end.
(* a run of n equal cells, written the way LibreOffice does (number-columns-repeated) *)
Definition ods_r_cell (c : ocell) (n : nat) : xml :=
  Elem TABLE_CELL
       ((match n with 1%nat => [] | _ => [(ATTR_REPEAT_COLS, dec_N (N.of_nat n))] end) ++ ods_r_cell_attrs c)
       [] (ods_r_cell_children c) [].

(* run-length encoding of adjacent equal cells *)
Fixpoint rle (l : list ocell) : list (ocell * nat) :=
  match l with
  | [] => []
  | c :: r => match rle r with
              | (c', n) :: rest => if ocell_eqb c c' then (c', S n) :: rest else (c, 1%nat) :: (c', n) :: rest
              | [] => [(c, 1%nat)]
              end
  end.
Definition ods_r_row_rle (r : list ocell) : xml :=
  E TABLE_ROW (map (fun cn => ods_r_cell (fst cn) (snd cn)) (rle r)).
Definition ods_r_row_plain (r : list ocell) : xml :=
  E TABLE_ROW (map (fun c => ods_r_cell c 1) r).
Definition ods_r_sheet_rle (g : list (list ocell)) : xml := E TABLE_TABLE (map ods_r_row_rle g).
Definition ods_r_sheet_plain (g : list (list ocell)) : xml := E TABLE_TABLE (map ods_r_row_plain g).

Definition ogrid_spec (pflt : float_oracle) (g : list (list ocell)) : list (list val) :=
  map (map (ocell_spec pflt)) g.

(* ------------------------------------------------------------------ HTML (tree of _HtmlTreeBuilder) *)
Definition H_TABLE := s "table".
Definition H_TR := s "tr".
Definition H_TD := s "td".
Definition H_TH := s "th".
Definition H_BODY := s "body".
Definition H_P := s "p".
Definition REMOVE_TAGS : list str :=
  [s "script"; s "style"; s "noscript"; s "iframe"; s "object"; s "embed"; s "applet"].
Definition VOID_REMOVE_TAGS : list str := [s "embed"].     (* removable void elements: nothing to skip *)
Definition HEADING_TAGS : list str := [s "h1"; s "h2"; s "h3"; s "h4"; s "h5"; s "h6"].

(* _get_node_text(node, include_children=True, include_tail) *)
Fixpoint node_text_tail (x : xml) : str :=
  match x with
  | Elem _ _ tx cs tl =>
      tx ++ (fix go (l : list xml) : str := match l with [] => [] | c :: r => node_text_tail c ++ go r end) cs ++ tl
  end.
Definition node_text (x : xml) : str := xtext x ++ concat (map node_text_tail (xchildren x)).

Definition html_norm (is_ws : N -> bool) (x : str) : str := collapse_ws is_ws false (strip is_ws x).
Definition is_cell_tag (x : xml) : bool := tag_is H_TH x || tag_is H_TD x.

(* _extract_table: _find_nodes(table, "tr") is descendant-recursive (== iter_tag) *)
Definition html_row (is_ws : N -> bool) (tr : xml) : list str :=
  map (fun c => html_norm is_ws (node_text c)) (filter is_cell_tag (xchildren tr)).
Definition html_extract_table (is_ws : N -> bool) (t : xml) : list (list str) :=
  filter (fun r => negb (is_nil r)) (map (html_row is_ws) (iter_tag H_TR t)).

(* the effect of _process_node on self.tables *)
Fixpoint html_tables_node (is_ws : N -> bool) (x : xml) : list (list (list str)) :=
  match x with
  | Elem tg _ _ cs _ =>
      if mem_str tg REMOVE_TAGS then []
      else if str_eqb tg H_TABLE then [html_extract_table is_ws x]
      else if mem_str tg HEADING_TAGS || str_eqb tg (s "br") || str_eqb tg (s "hr") then []
      else (fix go (l : list xml) : list (list (list str)) :=
              match l with [] => [] | c :: r => html_tables_node is_ws c ++ go r end) cs
  end.
(* extract(): body = _find_node(root, "body") or root *)
Definition html_tables (is_ws : N -> bool) (root : xml) : list (list (list str)) :=
  match iter_tag H_BODY root with
  | b :: _ => html_tables_node is_ws b
  | [] => html_tables_node is_ws root
  end.

(* HTML source cells: text with inline markup  t0 <i1>t1</i1> u1 <i2>t2</i2> u2 ...  *)
Definition hinline := (str * str * str)%type.     (* tag, text, tail *)
Inductive hitem := HText (t0 : str) (rest : list hinline)      (* inline content *)
                 | HParas (ps : list str)                       (* <p>..</p><p>..</p> *)
                 | HNested (g : list (list str)).               (* a table inside the cell (plain text cells) *)
Definition hgrid := list (list hitem).
Inductive hblock := HBPara (t : str) | HBTable (g : hgrid).

Definition hinline_text (i : hinline) : str := snd (fst i) ++ snd i.
Definition hitem_src_text (c : hitem) : str :=
  match c with
  | HText t0 rest => t0 ++ concat (map hinline_text rest)
  | HParas ps => join [SP] ps
  | HNested _ => []
  end.
(* inline content only, and no inline element is itself called "tr" *)
Definition hitem_simple (c : hitem) : bool :=
  match c with
  | HText _ rest => forallb (fun i : hinline => negb (str_eqb (fst (fst i)) H_TR)) rest
  | _ => false
  end.
Definition hgrid_simple (g : hgrid) : bool := forallb (forallb hitem_simple) g.
Definition hgrid_rows_nonempty (g : hgrid) : bool := forallb (fun r => negb (is_nil r)) g.

Definition html_r_plain_table (w : str) (g : list (list str)) : xml :=
  Elem H_TABLE [] w (map (fun r => Elem H_TR [] w (map (fun t => Elem H_TD [] t [] w) r) w) g) [].
Definition html_r_cell (w : str) (c : hitem) : xml :=
  match c with
  | HText t0 rest => Elem H_TD [] t0 (map (fun i => Elem (fst (fst i)) [] (snd (fst i)) [] (snd i)) rest) w
  | HParas ps => Elem H_TD [] [] (map (fun t => ET H_P t) ps) w
  | HNested g => Elem H_TD [] [] [html_r_plain_table w g] w
  end.
(* w = arbitrary inter-element text (indentation) the writer may put between rows and cells *)
Definition html_r_table (w : str) (g : hgrid) : xml :=
  Elem H_TABLE [] w (map (fun r => Elem H_TR [] w (map (html_r_cell w) r) w) g) w.
Definition html_r_block (w : str) (b : hblock) : xml :=
  match b with HBPara t => Elem H_P [] t [] w | HBTable g => html_r_table w g end.
Definition html_r_root (w : str) (d : list hblock) : xml :=
  E (s "root") [E (s "html") [E H_BODY (map (html_r_block w) d)]].

Definition hgrid_spec (is_ws : N -> bool) (g : hgrid) : list (list str) :=
  map (map (fun c => html_norm is_ws (hitem_src_text c))) g.
Definition html_top_tables (d : list hblock) : list hgrid :=
  flat_map (fun b => match b with HBPara _ => [] | HBTable g => [g] end) d.
Definition html_spec (is_ws : N -> bool) (d : list hblock) : list (list (list str)) :=
  map (hgrid_spec is_ws) (html_top_tables d).
Definition html_doc_simple (d : list hblock) : bool :=
  forallb (fun b => match b with HBPara _ => true | HBTable g => hgrid_simple g && hgrid_rows_nonempty g end) d.

(* ------------------------------------------------------------------ EPUB (parser events) *)
Inductive event := EvStart (tag : str) | EvEnd (tag : str) | EvData (d : str).

Record epub_state := {
  es_skip : Z;                             (* skip_depth *)
  es_skip_tag : str;                       (* _skip_tag: name of the removed element being skipped *)
  es_tables : list (list (list str));      (* reversed *)
  es_table : list (list str);              (* reversed *)
  es_row : list str;                       (* reversed *)
  es_cell : list str;                      (* reversed *)
  es_in_table : bool;
  es_in_cell : bool;
  es_in_title : bool
}.
Definition epub_init : epub_state :=
  {| es_skip := 0; es_skip_tag := []; es_tables := []; es_table := []; es_row := []; es_cell := [];
     es_in_table := false; es_in_cell := false; es_in_title := false |}.

(* _normalize_ws(" ".join(cell).strip()) : " ".join(value.split()) *)
Fixpoint split_ws (is_ws : N -> bool) (cur : str) (x : str) : list str :=
  match x with
  | [] => if is_nil cur then [] else [rev cur]
  | c :: r => if is_ws c then (if is_nil cur then split_ws is_ws [] r else rev cur :: split_ws is_ws [] r)
              else split_ws is_ws (c :: cur) r
  end.
Definition epub_norm_cell (is_ws : N -> bool) (parts : list str) : str :=
  join [SP] (split_ws is_ws [] (join [SP] parts)).

Definition epub_step (is_ws : N -> bool) (st : epub_state) (e : event) : epub_state :=
  match e with
  | EvStart tag =>
      if (0 <? es_skip st)%Z then
        (* only a nested element of the same name deepens the removed region *)
        if str_eqb tag (es_skip_tag st) then
          {| es_skip := es_skip st + 1; es_skip_tag := es_skip_tag st; es_tables := es_tables st; es_table := es_table st; es_row := es_row st;
             es_cell := es_cell st; es_in_table := es_in_table st; es_in_cell := es_in_cell st; es_in_title := es_in_title st |}
        else st
      else if mem_str tag REMOVE_TAGS then
        if mem_str tag VOID_REMOVE_TAGS then st
        else
          {| es_skip := 1; es_skip_tag := tag; es_tables := es_tables st; es_table := es_table st; es_row := es_row st;
             es_cell := es_cell st; es_in_table := es_in_table st; es_in_cell := es_in_cell st; es_in_title := es_in_title st |}
      else if str_eqb tag (s "title") then
        {| es_skip := es_skip st; es_skip_tag := es_skip_tag st; es_tables := es_tables st; es_table := es_table st; es_row := es_row st;
           es_cell := es_cell st; es_in_table := es_in_table st; es_in_cell := es_in_cell st; es_in_title := true |}
      else if str_eqb tag H_TABLE then
        {| es_skip := es_skip st; es_skip_tag := es_skip_tag st; es_tables := es_tables st; es_table := []; es_row := es_row st;
           es_cell := es_cell st; es_in_table := true; es_in_cell := es_in_cell st; es_in_title := es_in_title st |}
      else if es_in_table st && str_eqb tag H_TR then
        {| es_skip := es_skip st; es_skip_tag := es_skip_tag st; es_tables := es_tables st; es_table := es_table st; es_row := [];
           es_cell := es_cell st; es_in_table := es_in_table st; es_in_cell := es_in_cell st; es_in_title := es_in_title st |}
      else if es_in_table st && (str_eqb tag H_TD || str_eqb tag H_TH) then
        {| es_skip := es_skip st; es_skip_tag := es_skip_tag st; es_tables := es_tables st; es_table := es_table st; es_row := es_row st;
           es_cell := []; es_in_table := es_in_table st; es_in_cell := true; es_in_title := es_in_title st |}
      else st
  | EvEnd tag =>
      if (0 <? es_skip st)%Z then
        if str_eqb tag (es_skip_tag st) then
          {| es_skip := es_skip st - 1; es_skip_tag := es_skip_tag st; es_tables := es_tables st; es_table := es_table st; es_row := es_row st;
             es_cell := es_cell st; es_in_table := es_in_table st; es_in_cell := es_in_cell st; es_in_title := es_in_title st |}
        else st
      else if str_eqb tag (s "title") then
        {| es_skip := es_skip st; es_skip_tag := es_skip_tag st; es_tables := es_tables st; es_table := es_table st; es_row := es_row st;
           es_cell := es_cell st; es_in_table := es_in_table st; es_in_cell := es_in_cell st; es_in_title := false |}
      else if str_eqb tag H_TABLE then
        {| es_skip := es_skip st; es_skip_tag := es_skip_tag st;
           es_tables := (if is_nil (es_table st) then es_tables st else rev (es_table st) :: es_tables st);
           es_table := []; es_row := es_row st;
           es_cell := es_cell st; es_in_table := false; es_in_cell := es_in_cell st; es_in_title := es_in_title st |}
      else if es_in_table st && str_eqb tag H_TR then
        {| es_skip := es_skip st; es_skip_tag := es_skip_tag st; es_tables := es_tables st;
           es_table := (if is_nil (es_row st) then es_table st else rev (es_row st) :: es_table st); es_row := [];
           es_cell := es_cell st; es_in_table := es_in_table st; es_in_cell := es_in_cell st; es_in_title := es_in_title st |}
      else if es_in_table st && (str_eqb tag H_TD || str_eqb tag H_TH) then
        {| es_skip := es_skip st; es_skip_tag := es_skip_tag st; es_tables := es_tables st; es_table := es_table st;
           es_row := epub_norm_cell is_ws (rev (es_cell st)) :: es_row st;
           es_cell := []; es_in_table := es_in_table st; es_in_cell := false; es_in_title := es_in_title st |}
      else st
  | EvData d =>
      if (0 <? es_skip st)%Z then st
      else if es_in_title st then st
      else if es_in_cell st then
        {| es_skip := es_skip st; es_skip_tag := es_skip_tag st; es_tables := es_tables st; es_table := es_table st; es_row := es_row st;
           es_cell := d :: es_cell st; es_in_table := es_in_table st; es_in_cell := es_in_cell st; es_in_title := es_in_title st |}
      else st
  end.
Definition epub_tables (is_ws : N -> bool) (evs : list event) : list (list (list str)) :=
  rev (es_tables (fold_left (epub_step is_ws) evs epub_init)).

(* events of a table whose cells are single text pieces *)
Definition epub_r_table (g : list (list str)) : list event :=
  [EvStart H_TABLE]
  ++ flat_map (fun r => [EvStart H_TR] ++ flat_map (fun t => [EvStart H_TD; EvData t; EvEnd H_TD]) r ++ [EvEnd H_TR]) g
  ++ [EvEnd H_TABLE].

(* ------------------------------------------------------------------ XLSX *)
(* a cell as openpyxl hands it over (iter_rows(values_only=True)), with the two CPython
   renderings the code applies to it recorded next to it *)
Record xcell := { xc_val : val;            (* the Python value; dates/times are VOther *)
                  xc_str : str;            (* str(value) *)
                  xc_conv : option str }.  (* the JSON-safe string _get_cell_value replaces the value with:
                                              value.isoformat() for date/datetime/time, str(value) for a
                                              timedelta (duration cell, e.g. "1:02:00"); None for every other type *)
Definition xnone : xcell := {| xc_val := VNone; xc_str := s "None"; xc_conv := None |}.
Definition xstr (t : str) : xcell := {| xc_val := VStr t; xc_str := t; xc_conv := None |}.
(* a date/datetime/time cell: Python object token, str(value), value.isoformat() *)
Definition xdate (tok strf iso : str) : xcell := {| xc_val := VOther tok; xc_str := strf; xc_conv := Some iso |}.
(* a duration cell (datetime.timedelta): the conversion is str(value) itself *)
Definition xdur (tok strf : str) : xcell := {| xc_val := VOther tok; xc_str := strf; xc_conv := Some strf |}.

Definition x_non_empty (is_ws : N -> bool) (c : xcell) : bool :=
  match xc_val c with VNone => false | VStr t => negb (is_nil (strip is_ws t)) | _ => true end.
(* _get_cell_value *)
Definition x_cell_value (c : xcell) : val :=
  match xc_val c with
  | VNone => VNone
  | v => match xc_conv c with Some i => VStr i | None => v end
  end.
Definition x_trim_rows (is_ws : N -> bool) (rows : list (list xcell)) : list (list xcell) :=
  rev (dropWhile (fun r => negb (existsb (x_non_empty is_ws) r)) (rev rows)).
Definition x_last_data (is_ws : N -> bool) (r : list xcell) : nat :=
  length (dropWhile (fun c => negb (x_non_empty is_ws c)) (rev r)).
Definition x_last_col (is_ws : N -> bool) (rows : list (list xcell)) : nat :=
  fold_right Nat.max O (map (x_last_data is_ws) rows).
Definition UNNAMED := s "Unnamed: ".
Fixpoint x_headers (is_ws : N -> bool) (i : N) (r : list xcell) : list str :=
  match r with
  | [] => []
  | c :: r' =>
      (match xc_val c with
       | VNone => UNNAMED ++ dec_N i
       | VStr t => if is_nil (strip is_ws t) then UNNAMED ++ dec_N i else xc_str c
       | _ => xc_str c end) :: x_headers is_ws (i + 1) r'
  end.
(* all_rows of _read_sheet_data *)
Definition x_all_rows (is_ws : N -> bool) (rows : list (list xcell)) : list (list val) :=
  match x_trim_rows is_ws rows with
  | [] => []
  | trimmed =>
      let lc := x_last_col is_ws trimmed in
      match map (firstn lc) trimmed with
      | [] => []
      | r0 :: rest => map VStr (x_headers is_ws 0 r0) :: map (map x_cell_value) rest
      end
  end.
Definition x_meaningful (is_ws : N -> bool) (v : val) : bool :=
  match v with
  | VNone => false
  | VStr t => negb (is_nil (strip is_ws t)) && negb (startswith t UNNAMED)
  | _ => true
  end.
Definition x_is_table_name_row (is_ws : N -> bool) (r : list val) : bool :=
  Nat.eqb (length (filter (x_meaningful is_ws) r)) 1 && Nat.ltb 1 (length r).
(* XlsxSheet.data *)
Definition xlsx_sheet (is_ws : N -> bool) (rows : list (list xcell)) : list (list val) :=
  match x_all_rows is_ws rows with
  | [] => []
  | r0 :: rest => if x_is_table_name_row is_ws r0 then rest else r0 :: rest
  end.
Definition xgrid_spec (g : list (list xcell)) : list (list val) := map (map x_cell_value) g.

(* ------------------------------------------------------------------ XLS *)
(* a cell as xlrd hands it over, already through _get_cell_value(as_string=True) (header text)
   and _get_cell_values (native value) — both oracles *)
Record lcell := { lc_native : val; lc_header : str }.
Fixpoint xls_row_dict (headers : list str) (cells : list lcell) (col : N) (d : pydict) : pydict :=
  match cells with
  | [] => d
  | c :: r =>
      let h := match headers with h :: _ => h | [] => s "col_" ++ dec_N col end in
      xls_row_dict (tl headers) r (col + 1) (dict_set h (lc_native c) d)
  end.
(* XlsSheet.data of _read_content for one sheet given as a rectangular grid *)
Definition xls_sheet_data (g : list (list lcell)) : list pydict :=
  match g with
  | [] => []
  | r0 :: rest => let headers := map lc_header r0 in map (fun r => xls_row_dict headers r 0 []) rest
  end.
Definition xls_sheet_table (g : list (list lcell)) : list (list val) := xls_get_table (xls_sheet_data g).
(* what the sheet holds: header row as text, the other rows as native values *)
Definition lgrid_spec (g : list (list lcell)) : list (list val) :=
  match g with
  | [] => []
  | r0 :: rest => map (fun c => VStr (lc_header c)) r0 :: map (map lc_native) rest
  end.
Fixpoint nodup_str (l : list str) : bool :=
  match l with [] => true | x :: r => negb (mem_str x r) && nodup_str r end.

(* ------------------------------------------------------------------ RTF
   ms_legacy/rtf_extractor.py: _extract_tables, _save_table, _extract_table_cells,
   _strip_rtf_simple, _remove_ignorable_groups, _repair_surrogates and the regexes they use, as
   hand-written matchers.  Oracles: is_ws (regex \s, str.strip), is_word (regex \w, for \b).
   Assumptions on the decoded text (stated in the check's trusted list): digits after \u and after
   control words are ASCII digits, and the text has no code point that case-folds into ASCII or
   changes length under str.lower() (U+0130, U+0131, U+017F, U+212A). *)
Definition BS : N := 92.
Definition LBR : N := 123.
Definition RBR : N := 125.

(* a matcher looks at the text from the current position and answers (replacement, consumed >= 1) *)
Definition matcher := str -> option (str * nat).

(* re.sub(pattern, repl, x) for patterns that never match the empty string: leftmost,
   non-overlapping; `skip` = characters of the current match still to drop *)
Fixpoint re_sub (m : matcher) (skip : nat) (x : str) : str :=
  match x with
  | [] => []
  | c :: r =>
      match skip with
      | S k => re_sub m k r
      | O => match m x with
             | Some (rep, n) => rep ++ re_sub m (pred n) r
             | None => c :: re_sub m O r
             end
      end
  end.

(* [(m.start(), m.end()) for m in pattern.finditer(x)] *)
Fixpoint re_find_all (m : matcher) (skip : nat) (off : nat) (x : str) : list (nat * nat) :=
  match x with
  | [] => []
  | c :: r =>
      match skip with
      | S k => re_find_all m k (S off) r
      | O => match m x with
             | Some (_, n) => (off, (off + n)%nat) :: re_find_all m (pred n) (S off) r
             | None => re_find_all m O (S off) r
             end
      end
  end.

(* re.split(pattern, x) (no capture groups); cur = current part, reversed *)
Fixpoint re_split (m : matcher) (skip : nat) (cur : str) (x : str) : list str :=
  match x with
  | [] => [rev cur]
  | c :: r =>
      match skip with
      | S k => re_split m k cur r
      | O => match m x with
             | Some (_, n) => rev cur :: re_split m (pred n) [] r
             | None => re_split m O (c :: cur) r
             end
      end
  end.

Definition is_digit (c : N) : bool := (48 <=? c) && (c <=? 57).
Definition is_alpha (c : N) : bool := ((65 <=? c) && (c <=? 90)) || ((97 <=? c) && (c <=? 122)).
Definition is_hex (c : N) : bool := is_digit c || ((65 <=? c) && (c <=? 70)) || ((97 <=? c) && (c <=? 102)).
Definition hex_val (c : N) : N := if is_digit c then c - 48 else if c <=? 70 then c - 55 else c - 87.

(* length of the longest prefix whose characters satisfy p *)
Fixpoint span_len (p : N -> bool) (x : str) : nat :=
  match x with c :: r => if p c then S (span_len p r) else O | [] => O end.

(* \\kw\b *)
Definition m_word_b (is_word : N -> bool) (kw : str) : matcher := fun x =>
  match x with
  | c :: r => if (c =? BS) && startswith r kw
                 && match skipn (length kw) r with [] => true | d :: _ => negb (is_word d) end
              then Some ([], S (length kw)) else None
  | [] => None
  end.

Fixpoint dec_val (acc : Z) (x : str) : Z :=
  match x with c :: r => if is_digit c then dec_val (acc * 10 + Z.of_N (c - 48)) r else acc | [] => acc end.

(* _RE_UNICODE = \\u(-?\d+)\??   ->  chr(int(group 1) & 0xFFFF) *)
Definition m_unicode : matcher := fun x =>
  match x with
  | b :: u :: r =>
      if (b =? BS) && (u =? 117) then
        let neg := match r with c :: _ => c =? 45 | [] => false end in
        let r' := if neg then tl r else r in
        let nd := span_len is_digit r' in
        match nd with
        | O => None
        | _ => let v := dec_val 0 r' in
               let v' := if neg then (- v)%Z else v in
               let q := match skipn nd r' with c :: _ => c =? 63 | [] => false end in
               Some ([Z.to_N (v' mod 65536)], (2 + (if neg then 1 else 0) + nd + (if q then 1 else 0))%nat)
        end
      else None
  | _ => None
  end.

(* _repair_surrogates: join high+low pairs, replace lone surrogates by U+FFFD *)
Definition is_high (c : N) : bool := (55296 <=? c) && (c <=? 56319).
Definition is_low (c : N) : bool := (56320 <=? c) && (c <=? 57343).
Definition m_surrogate : matcher := fun x =>
  match x with
  | h :: r =>
      if is_high h then
        match r with
        | l :: _ => if is_low l then Some ([65536 + (h - 55296) * 1024 + (l - 56320)], 2%nat) else Some ([65533], 1%nat)
        | [] => Some ([65533], 1%nat)
        end
      else if is_low h then Some ([65533], 1%nat) else None
  | [] => None
  end.

(* _RE_HEX_ESCAPE = \\'([0-9a-fA-F]{2}) -> chr(int(.., 16)) *)
Definition m_hex_escape : matcher := fun x =>
  match x with
  | b :: q :: h1 :: h2 :: _ =>
      if (b =? BS) && (q =? 39) && is_hex h1 && is_hex h2 then Some ([16 * hex_val h1 + hex_val h2], 4%nat) else None
  | _ => None
  end.

(* \\ + re.escape(keyword) + (?:(?:\s+)|(?=\\)|(?=\{)|(?=\})|$)  ->  char *)
Definition m_special (is_ws : N -> bool) (kw : str) (ch : N) : matcher := fun x =>
  match x with
  | c :: r =>
      if (c =? BS) && startswith r kw then
        let rest := skipn (length kw) r in
        let nws := span_len is_ws rest in
        match nws with
        | S _ => Some ([ch], (S (length kw) + nws)%nat)
        | O => match rest with
               | [] => Some ([ch], S (length kw))
               | d :: _ => if (d =? BS) || (d =? LBR) || (d =? RBR) then Some ([ch], S (length kw)) else None
               end
        end
      else None
  | [] => None
  end.

(* _RE_CONTROL_WORD = \\[a-z]+(-?\d+)?\s?  (IGNORECASE) -> "" *)
Definition m_control (is_ws : N -> bool) : matcher := fun x =>
  match x with
  | c :: r =>
      if c =? BS then
        let na := span_len is_alpha r in
        match na with
        | O => None
        | _ =>
            let r1 := skipn na r in
            let neg := match r1 with d :: _ => d =? 45 | [] => false end in
            let r2 := if neg then tl r1 else r1 in
            let nd := span_len is_digit r2 in
            let numlen := match nd with O => O | _ => ((if neg then 1 else 0) + nd)%nat end in
            let r3 := skipn numlen r1 in
            let w := match r3 with d :: _ => is_ws d | [] => false end in
            Some ([], (1 + na + numlen + (if w then 1 else 0))%nat)
        end
      else None
  | [] => None
  end.

(* a maximal run of characters satisfying p, of length >= lo, replaced by rep *)
Definition m_run (p : N -> bool) (lo : nat) (rep : str) : matcher := fun x =>
  let n := span_len p x in if Nat.leb lo n && Nat.leb 1 n then Some (rep, n) else None.

(* _RE_CELL_NEWLINE = " *\n *" -> "\n" *)
Definition m_cell_newline : matcher := fun x =>
  let a := span_len (N.eqb 32) x in
  match skipn a x with
  | c :: r => if c =? 10 then Some (NL, (a + 1 + span_len (N.eqb 32) r)%nat) else None
  | [] => None
  end.

(* _remove_ignorable_groups; d = brace depth inside the group being removed (0 = not removing) *)
Definition starts_ignorable (x : str) : bool :=
  let l := ascii_lower (firstn 8 x) in
  startswith l (s "{\pict") || startswith l (s "{\object") || startswith l (s "{\*").
Fixpoint remove_ignorable (d : nat) (x : str) : str :=
  match x with
  | [] => []
  | c :: r =>
      match d with
      | O => if (c =? LBR) && starts_ignorable x then remove_ignorable 1 r else c :: remove_ignorable O r
      | S k => if c =? LBR then remove_ignorable (S d) r
               else if c =? RBR then remove_ignorable k r else remove_ignorable d r
      end
  end.

(* SPECIAL_CHARS in dict order (generated copy in Gen/C13Tables.v; Inst.v decides equality) *)
Definition RTF_SPECIAL_CHARS : list (str * N) :=
  [(s "par", 10); (s "line", 10); (s "tab", 9); (s "cell", 9); (s "row", 10); (s "sect", 10);
   (s "lquote", 39); (s "rquote", 39); (s "ldblquote", 34); (s "rdblquote", 34); (s "bullet", 8226);
   (s "endash", 8211); (s "emdash", 8212); (s "~", 160); (s "_", 173); (s "-", 173);
   (s "enspace", 8194); (s "emspace", 8195); (s "qmspace", 8197)].

Definition is_sp_tab (c : N) : bool := (c =? 32) || (c =? 9).
Definition is_nl (c : N) : bool := c =? 10.
Definition is_brace (c : N) : bool := (c =? LBR) || (c =? RBR).

(* _strip_rtf_simple *)
Definition rtf_strip_simple (is_ws : N -> bool) (x : str) : str :=
  let r := remove_ignorable 0 x in
  let r := re_sub m_unicode 0 r in
  let r := re_sub m_surrogate 0 r in
  let r := re_sub m_hex_escape 0 r in
  let r := fold_left (fun acc kc => re_sub (m_special is_ws (fst kc) (snd kc)) 0 acc) RTF_SPECIAL_CHARS r in
  let r := re_sub (m_control is_ws) 0 r in
  let r := filter (fun c => negb (is_brace c)) r in
  let r := re_sub (m_run is_sp_tab 1 [32]) 0 r in
  let r := re_sub (m_run is_nl 3 [10; 10]) 0 r in
  strip is_ws r.

Definition is_cell_space (c : N) : bool := (c =? 32) || (c =? 9) || (c =? 12) || (c =? 11).

(* the body of the loop of _extract_table_cells *)
Definition rtf_cell_text (is_ws : N -> bool) (part : str) : str :=
  let t := rtf_strip_simple is_ws part in
  let t := re_sub (m_run is_hex 64 []) 0 t in
  let t := re_sub (m_run is_cell_space 1 [32]) 0 t in
  let t := re_sub m_cell_newline 0 t in
  let t := re_sub (m_run is_nl 3 [10; 10]) 0 t in
  strip is_ws t.

(* _extract_table_cells: re.split(r"\\cell\b", row)[:-1] *)
Definition rtf_row_cells (is_ws is_word : N -> bool) (row : str) : list str :=
  map (rtf_cell_text is_ws) (removelast (re_split (m_word_b is_word (s "cell")) 0 [] row)).

Definition slice (x : str) (a b : nat) : str := firstn (b - a) (skipn a x).

(* table_rows: every \trowd start paired with the first \row end after it *)
Definition rtf_table_rows (is_word : N -> bool) (text : str) : list (nat * nat * str) :=
  let trowd := map fst (re_find_all (m_word_b is_word (s "trowd")) 0 0 text) in
  let rows := map snd (re_find_all (m_word_b is_word (s "row")) 0 0 text) in
  flat_map (fun tp => match List.find (fun rp => Nat.ltb tp rp) rows with
                      | Some rp => [(tp, rp, slice text tp rp)]
                      | None => [] end) trowd.

(* _save_table: pad every row with "" to the widest row *)
Definition rtf_pad_rows (rows : list (list str)) : list (list str) :=
  let w := max_len rows in map (fun r => r ++ repeat_list [] (w - length r)) rows.

(* grouping loop of _extract_tables; state = (saved tables reversed, current rows reversed, last_end) *)
Definition rtf_group_step (is_ws is_word : N -> bool) (text : str)
           (st : list (list (list str)) * list (list str) * Z) (row : nat * nat * str)
  : list (list (list str)) * list (list str) * Z :=
  let '(saved, cur, last_end) := st in
  let '(rs, re, content) := row in
  let brk :=
    negb (is_nil cur) && (100 <? Z.of_nat rs - last_end)%Z
    && Nat.ltb 20 (length (strip is_ws (rtf_strip_simple is_ws (slice text (Z.to_nat last_end) rs)))) in
  let '(saved, cur) := if brk then (rtf_pad_rows (rev cur) :: saved, []) else (saved, cur) in
  let cells := rtf_row_cells is_ws is_word content in
  (saved, (if is_nil cells then cur else cells :: cur), Z.of_nat re).

(* self.tables after _extract_tables(text) (the data of each RtfTable) *)
Definition rtf_tables (is_ws is_word : N -> bool) (text : str) : list (list (list str)) :=
  let '(saved, cur, _) := fold_left (rtf_group_step is_ws is_word text) (rtf_table_rows is_word text) ([], [], (-1)%Z) in
  rev (if is_nil cur then saved else rtf_pad_rows (rev cur) :: saved).

(* rendering: a document is a list of paragraphs and tables; cells are plain text *)
Inductive rblock := RPara (t : str) | RTable (g : list (list str)).
Definition rtf_r_row (cells : list str) : str :=
  s "\trowd" ++ concat (map (fun t => SP :: t ++ s "\cell") cells) ++ s "\row" ++ NL.
Definition rtf_r_block (b : rblock) : str :=
  match b with
  | RPara t => s "\pard " ++ t ++ s "\par" ++ NL
  | RTable g => concat (map rtf_r_row g)
  end.
Definition rtf_r_doc (d : list rblock) : str :=
  s "{\rtf1\ansi " ++ concat (map rtf_r_block d) ++ s "}".

(* render variants: what may follow \row (nothing, a space, a newline, a group boundary, \pard) and
   empty cells written as \cell directly after the previous \cell / \trowd *)
Definition rtf_row_sep_ok (sep : str) : bool := mem_str sep [[]; [32]; [10]; s "}{"; s "\pard"].
Definition rtf_r_cell_gen (tight : bool) (t : str) : str :=
  (if tight && is_nil t then [] else SP :: t) ++ s "\cell".
Definition rtf_r_row_gen (tight : bool) (sep : str) (cells : list str) : str :=
  s "\trowd" ++ concat (map (rtf_r_cell_gen tight) cells) ++ s "\row" ++ sep.
Definition rtf_r_doc_gen (tight : bool) (sep : str) (g : list (list str)) : str :=
  s "{\rtf1\ansi " ++ concat (map (rtf_r_row_gen tight sep) g) ++ s "}".

(* ------------------------------------------------------------------ order of the tables of a slide
   odp _extract_slide / pptx _extract_slide: the frames (shapes) of a slide are sorted by their
   (top, left) position with Python's stable sort and key=(y, x); the tables are then collected in
   that order, empty tables skipped.  Positions enter as order-preserving ranks (the parsing of
   svg:y / svg:x / a:off and the float comparison are oracles). *)
Definition poskey := (nat * nat)%type.
Definition poskey_leb (a b : poskey) : bool :=
  Nat.ltb (fst a) (fst b) || (Nat.eqb (fst a) (fst b) && Nat.leb (snd a) (snd b)).

Fixpoint insert_by {A} (k : A -> poskey) (x : A) (l : list A) : list A :=
  match l with
  | [] => [x]
  | y :: r => if poskey_leb (k x) (k y) then x :: y :: r else y :: insert_by k x r
  end.
(* sorted(l, key=k): stable *)
Fixpoint stable_sort_by {A} (k : A -> poskey) (l : list A) : list A :=
  match l with [] => [] | x :: r => insert_by k x (stable_sort_by k r) end.

(* a frame: its position key and the table it holds, if any *)
Definition frame := (poskey * option (list (list str)))%type.
Definition frame_tables (f : frame) : list (list (list str)) :=
  match snd f with Some t => if is_nil t then [] else [t] | None => [] end.
Definition slide_tables (frames : list frame) : list (list (list str)) :=
  flat_map frame_tables (stable_sort_by fst frames).
Definition deck_tables (slides : list (list frame)) : list (list (list str)) := flat_map slide_tables slides.
(* the tables of a deck in source (document) order *)
Definition deck_source_tables (slides : list (list frame)) : list (list (list str)) :=
  flat_map (flat_map frame_tables) slides.
Fixpoint keys_sorted (l : list poskey) : bool :=
  match l with
  | a :: r => match r with b :: _ => poskey_leb a b && keys_sorted r | [] => true end
  | [] => true
  end.

(* an ODP page as the extractor sees it: frames found through draw:g groups; the harness records the
   order-preserving ranks of (svg:y, svg:x) as attributes rank:y / rank:x of each frame *)
Fixpoint nat_of_dec (acc : nat) (x : str) : nat :=
  match x with c :: r => nat_of_dec (acc * 10 + N.to_nat (c - 48)) r | [] => acc end.
Definition odp_frame (pint : int_oracle) (skip : list str) (f : xml) : frame :=
  ((nat_of_dec 0 (xget (s "rank:y") [] f), nat_of_dec 0 (xget (s "rank:x") [] f)),
   option_map (odp_table pint skip) (find TABLE_TABLE f)).
Definition odp_page_tables (pint : int_oracle) (skip : list str) (page : xml) : list (list (list str)) :=
  slide_tables (map (odp_frame pint skip) (slide_frames page)).

(* ------------------------------------------------------------------ position keys, modelled
   (extension round: the rank oracle of the deck model is replaced by models of the two parsers) *)
From Coq Require Import Floats.SpecFloat.

(* sorted(l, key=...) for an arbitrary "not greater" test on the elements: stable insertion sort *)
Fixpoint insert_le {A} (le : A -> A -> bool) (x : A) (l : list A) : list A :=
  match l with
  | [] => [x]
  | y :: r => if le x y then x :: y :: r else y :: insert_le le x r
  end.
Fixpoint stable_sort_le {A} (le : A -> A -> bool) (l : list A) : list A :=
  match l with [] => [] | x :: r => insert_le le x (stable_sort_le le r) end.
Fixpoint sorted_le {A} (le : A -> A -> bool) (l : list A) : bool :=
  match l with
  | a :: r => match r with b :: _ => le a b && sorted_le le r | [] => true end
  | [] => true
  end.

(* --- ODP: _parse_odf_length_to_px, IEEE-754 binary64 via Coq's SpecFloat (prec 53, emax 1024).
   _ODF_LENGTH_RE = ^\s*(\d+(?:\.\d+)?)\s*([a-zA-Z]+)?\s*$  as a scanner (ASCII digits assumed);
   float("ddd.fff") is the correctly rounded quotient ddd fff / 10^k (exact for < 2^53 digits, k <= 22) *)
Definition fprec : Z := 53.
Definition femax : Z := 1024.
Definition f_of_Z (z : Z) : spec_float := binary_normalize fprec femax z 0 false.
(* float of the decimal literal  digits / 10^k *)
Definition f_dec (digits : Z) (k : nat) : spec_float := SFdiv fprec femax (f_of_Z digits) (f_of_Z (10 ^ Z.of_nat k)).
Definition f_mul := SFmul fprec femax.
Definition f_div := SFdiv fprec femax.
Definition f_zero : spec_float := S754_zero false.
Definition f_leb (a b : spec_float) : bool :=
  match SFcompare a b with Some Lt | Some Eq => true | _ => false end.
Definition f_eqb (a b : spec_float) : bool := match SFcompare a b with Some Eq => true | _ => false end.
Definition f_ltb (a b : spec_float) : bool := match SFcompare a b with Some Lt => true | _ => false end.

(* the regex as a scanner: Some (digits, number of decimals, unit) or None (no match) *)
Definition odf_length_scan (is_ws : N -> bool) (x : str) : option (Z * nat * str) :=
  let x1 := dropWhile is_ws x in
  let ni := span_len is_digit x1 in
  match ni with
  | O => None
  | _ =>
      let ip := firstn ni x1 in
      let r1 := skipn ni x1 in
      let '(fp, r2) :=
        match r1 with
        | d :: r' => if (d =? 46) && Nat.ltb 0 (span_len is_digit r')
                     then (firstn (span_len is_digit r') r', skipn (span_len is_digit r') r') else ([], r1)
        | [] => ([], r1)
        end in
      let r3 := dropWhile is_ws r2 in
      let nu := span_len is_alpha r3 in
      let unit := firstn nu r3 in
      let r4 := dropWhile is_ws (skipn nu r3) in
      (* \s* between number and unit may also have consumed nothing: when the unit is absent the two
         \s* runs are adjacent, which the scanner treats the same way *)
      if is_nil r4 then Some (dec_val 0 (ip ++ fp), length fp, unit) else None
  end.

(* the arithmetic after the match: number = float(group 1), unit = (group 2 or "px").lower() *)
Definition odf_px_value (digits : Z) (k : nat) (unit : str) : spec_float :=
  let number := f_dec digits k in
  let u := if is_nil unit then s "px" else ascii_lower unit in
  if str_eqb u (s "px") then number
  else if str_eqb u (s "in") then f_mul number (f_of_Z 96)
  else if str_eqb u (s "cm") then f_mul (f_div number (f_dec 254 2)) (f_of_Z 96)
  else if str_eqb u (s "mm") then f_mul (f_div number (f_dec 254 1)) (f_of_Z 96)
  else if str_eqb u (s "pt") then f_mul (f_div number (f_of_Z 72)) (f_of_Z 96)
  else if str_eqb u (s "pc") then f_mul (f_div (f_mul number (f_of_Z 12)) (f_of_Z 72)) (f_of_Z 96)
  else number.

Definition odf_length_px (is_ws : N -> bool) (value : str) : spec_float :=
  if is_nil value then f_zero else
  match odf_length_scan is_ws value with
  | None => f_zero
  | Some (digits, k, unit) => odf_px_value digits k unit
  end.

Definition fkey := (spec_float * spec_float)%type.
(* how list.sort orders the (y, x) key tuples: first components compared, the second decides on == *)
Definition fkey_le (a b : fkey) : bool :=
  f_ltb (fst a) (fst b) || (f_eqb (fst a) (fst b) && f_leb (snd a) (snd b)).

Definition SVG_X := s "svg:x".
Definition SVG_Y := s "svg:y".
Definition odp_frame_key (is_ws : N -> bool) (f : xml) : fkey :=
  (odf_length_px is_ws (xget SVG_Y [] f), odf_length_px is_ws (xget SVG_X [] f)).
(* _extract_slide restricted to tables: frames through groups, sorted by position, tables collected *)
Definition odp_page_tables_f (is_ws : N -> bool) (pint : int_oracle) (skip : list str) (page : xml) : list (list (list str)) :=
  flat_map (fun f => match option_map (odp_table pint skip) (find TABLE_TABLE f) with
                     | Some t => if is_nil t then [] else [t] | None => [] end)
           (stable_sort_le (fun a b => fkey_le (odp_frame_key is_ws a) (odp_frame_key is_ws b)) (slide_frames page)).

(* --- PPTX: _get_shape_position (ints) and the shapes of a slide *)
Definition P_SP := s "p:sp".
Definition P_PIC := s "p:pic".
Definition P_GRPSP := s "p:grpSp".
Definition P_SPPR := s "p:spPr".
Definition A_XFRM := s "a:xfrm".
Definition P_XFRM := s "p:xfrm".
Definition A_OFF := s "a:off".
Definition P_NVSPPR := s "p:nvSpPr".
Definition P_NVPR := s "p:nvPr".
Definition P_PH := s "p:ph".
Definition PPTX_TITLE_TYPES : list str := [s "title"; s "ctrTitle"].
Definition PPTX_BODY_TYPES : list str := [s "body"; s "subTitle"; s "obj"; s "tbl"].
Definition PPTX_FOOTER_TYPES : list str := [s "ftr"].
Definition zkey := (Z * Z)%type.
Definition zkey_le (a b : zkey) : bool := (fst a <? fst b)%Z || ((fst a =? fst b)%Z && (snd a <=? snd b)%Z).
Definition PPTX_LAST : zkey := (999999999, 999999999)%Z.

Definition first_iter (t : str) (x : xml) : option xml := hd_error (iter_tag t x).
Definition or_else {A} (a b : option A) : option A := match a with Some _ => a | None => b end.

(* pint = int(); a failing int() lands in the blanket `except Exception` -> PPTX_LAST *)
Definition pptx_shape_position (pint : int_oracle) (sh : xml) : zkey :=
  let sp_pr := match or_else (first_iter P_SPPR sh) (first_iter A_XFRM sh) with Some e => e | None => sh end in
  let xfrm := or_else (or_else (find A_XFRM sp_pr) (find P_XFRM sp_pr)) (or_else (first_iter A_XFRM sh) (first_iter P_XFRM sh)) in
  let explicit :=
    match xfrm with
    | Some xf => match find A_OFF xf with
                 | Some off => Some (pint (xget (s "x") (s "0") off), pint (xget (s "y") (s "0") off))
                 | None => None end
    | None => None
    end in
  match explicit with
  | Some (Some x, Some y) => (y, x)
  | Some _ => PPTX_LAST
  | None =>
      match find P_NVSPPR sh with
      | Some nv =>
          match find P_NVPR nv with
          | Some nvpr =>
              match find P_PH nvpr with
              | Some ph =>
                  let ty := xget (s "type") [] ph in
                  let idx := xget (s "idx") [] ph in
                  if mem_str ty PPTX_TITLE_TYPES then (0, 0)%Z
                  else if mem_str ty PPTX_BODY_TYPES || (is_nil ty && negb (is_nil idx)) then
                    (if forallb is_digit idx && negb (is_nil idx)
                     then match pint idx with Some n => ((1 + n)%Z, 0%Z) | None => PPTX_LAST end
                     else (1, 0)%Z)
                  else if mem_str ty PPTX_FOOTER_TYPES || str_eqb ty (s "sldNum") then (999999998, 0)%Z
                  else PPTX_LAST
              | None => PPTX_LAST end
          | None => PPTX_LAST end
      | None => PPTX_LAST
      end
  end.

Definition is_pptx_shape (x : xml) : bool := tag_is P_SP x || tag_is P_PIC x || tag_is P_GRAPHICFRAME x.
(* sp_tree.iter(): every descendant, so shapes inside (nested) p:grpSp groups are seen too *)
Definition pptx_slide_shapes (sp_tree : xml) : list xml := filter is_pptx_shape (iter sp_tree).
Definition pptx_slide_tables (is_ws : N -> bool) (pint : int_oracle) (sp_tree : xml) : list (list (list str)) :=
  flat_map (fun sh => if tag_is P_GRAPHICFRAME sh
                      then match pptx_table is_ws sh with Some t => if is_nil t then [] else [t] | None => [] end
                      else [])
           (stable_sort_le (fun a b => zkey_le (pptx_shape_position pint a) (pptx_shape_position pint b))
                           (pptx_slide_shapes sp_tree)).

(* a table frame with an explicit position (p:xfrm / a:off), as PowerPoint writes it *)
Definition pptx_r_frame_at (xs ys : str) (g : fgrid) : xml :=
  match pptx_r_frame g with
  | Elem t a x cs l => Elem t a x (E P_XFRM [Elem A_OFF [(s "x", xs); (s "y", ys)] [] [] []] :: cs) l
  end.
Definition P_SPTREE := s "p:spTree".

(* XLS workbook: _read_content handles the sheets one after the other with no state carried over *)
Definition xls_workbook_tables (sheets : list (list (list lcell))) : list (list (list val)) := map xls_sheet_table sheets.

(* ------------------------------------------------------------------ DOCX: anchor paragraph index of every table
   _extract_tables_from_context returns (tables, table_anchor_paragraph_indices): the two lists are zipped
   by the unit builder, so they must stay aligned.  current_paragraph_index counts the DIRECT w:p
   children of the body seen so far (starting at -1); a table (and every table nested in it, and every
   table found through a wrapper child) gets anchor = max(0, current index). *)
Fixpoint docx_anchor_walk (idx : Z) (children : list xml) : list (list (list str) * Z) :=
  match children with
  | [] => []
  | ch :: r =>
      if tag_is W_P ch then docx_anchor_walk (idx + 1) r
      else
        let tops := if tag_is W_TBL ch then [ch]
                    else if mem_str (xtag ch) DOCX_WRAPPERS then docx_through W_TBL ch else [] in
        map (fun tb => (docx_table tb, Z.max 0 idx)) (flat_map (iter_tag W_TBL) tops) ++ docx_anchor_walk idx r
  end.
Definition docx_tables_anchored (body : xml) : list (list (list str) * Z) := docx_anchor_walk (-1) (xchildren body).
(* number of paragraph blocks before each top-level table of an abstract document *)
Fixpoint doc_anchor_spec (seen : Z) (d : doc) : list Z :=
  match d with
  | [] => []
  | BPara _ :: r => doc_anchor_spec (seen + 1) r
  | BTable g :: r => repeat_list (Z.max 0 (seen - 1)) (S (length (nested_of_grid g))) ++ doc_anchor_spec seen r
  end.
