(* C13 — HTML tables: what the tree walker of html_extractor (_extract_table, _process_node,
   extract) returns on rendered documents.
   Positive: for documents whose cells hold inline content only (html_doc_simple) the tables come
   back in source order, each with the source shape and every cell text in place, whatever the
   inter-element filler text w and whatever the whitespace predicate.
   Negative (closed witnesses): a table nested in a cell is merged into the outer table, and
   two <p> paragraphs in one cell are glued without a separator. *)
From Coq Require Import ZArith List Bool Lia ZifyBool.
From S2T Require Import Lib.PyStr C13.Model.
Import ListNotations.
Notation length := List.length.
Notation concat := List.concat.
Open Scope N_scope.

(* ------------------------------------------------------------------ unfolding of the nested fixpoints *)
Lemma iter_unfold t a x cs l :
  iter (Elem t a x cs l) = Elem t a x cs l :: flat_map iter cs.
Proof.
  cbn [iter]. f_equal.
Qed.

Lemma filter_flat_map {A B} (p : B -> bool) (f : A -> list B) l :
  filter p (flat_map f l) = flat_map (fun a => filter p (f a)) l.
Proof.
  induction l as [|a l IH]; cbn [flat_map filter]; [reflexivity|].
  rewrite filter_app, IH. reflexivity.
Qed.

Lemma iter_tag_unfold t tg a x cs l :
  iter_tag t (Elem tg a x cs l)
  = (if str_eqb tg t then [Elem tg a x cs l] else []) ++ flat_map (iter_tag t) cs.
Proof.
  unfold iter_tag at 1. rewrite iter_unfold. cbn [filter].
  unfold tag_is at 1. cbn [xtag]. rewrite filter_flat_map.
  destruct (str_eqb tg t); reflexivity.
Qed.

Lemma node_text_tail_unfold t a x cs l :
  node_text_tail (Elem t a x cs l) = x ++ concat (map node_text_tail cs) ++ l.
Proof.
  cbn [node_text_tail]. f_equal. f_equal.
  induction cs as [|c cs IH]; [reflexivity|].
  cbn [map List.concat]. rewrite <- IH. reflexivity.
Qed.

Lemma html_tables_node_unfold is_ws tg a x cs l :
  html_tables_node is_ws (Elem tg a x cs l)
  = if mem_str tg REMOVE_TAGS then []
    else if str_eqb tg H_TABLE then [html_extract_table is_ws (Elem tg a x cs l)]
    else if mem_str tg HEADING_TAGS || str_eqb tg (s "br") || str_eqb tg (s "hr") then []
    else flat_map (html_tables_node is_ws) cs.
Proof.
  cbn [html_tables_node].
  destruct (mem_str tg REMOVE_TAGS); [reflexivity|].
  destruct (str_eqb tg H_TABLE); [reflexivity|].
  destruct (mem_str tg HEADING_TAGS || str_eqb tg (s "br") || str_eqb tg (s "hr")); [reflexivity|].
  reflexivity.
Qed.

(* ------------------------------------------------------------------ closed tag facts *)
Lemma TD_ne_TR : str_eqb H_TD H_TR = false.       Proof. vm_compute; reflexivity. Qed.
Lemma TABLE_ne_TR : str_eqb H_TABLE H_TR = false. Proof. vm_compute; reflexivity. Qed.
Lemma root_ne_BODY : str_eqb (s "root") H_BODY = false. Proof. vm_compute; reflexivity. Qed.
Lemma html_ne_BODY : str_eqb (s "html") H_BODY = false. Proof. vm_compute; reflexivity. Qed.
Lemma BODY_not_removed : mem_str H_BODY REMOVE_TAGS = false. Proof. vm_compute; reflexivity. Qed.
Lemma BODY_ne_TABLE : str_eqb H_BODY H_TABLE = false. Proof. vm_compute; reflexivity. Qed.
Lemma BODY_not_heading :
  mem_str H_BODY HEADING_TAGS || str_eqb H_BODY (s "br") || str_eqb H_BODY (s "hr") = false.
Proof. vm_compute; reflexivity. Qed.
Lemma P_not_removed : mem_str H_P REMOVE_TAGS = false. Proof. vm_compute; reflexivity. Qed.
Lemma P_ne_TABLE : str_eqb H_P H_TABLE = false. Proof. vm_compute; reflexivity. Qed.
Lemma P_not_heading :
  mem_str H_P HEADING_TAGS || str_eqb H_P (s "br") || str_eqb H_P (s "hr") = false.
Proof. vm_compute; reflexivity. Qed.
Lemma TABLE_not_removed : mem_str H_TABLE REMOVE_TAGS = false. Proof. vm_compute; reflexivity. Qed.

(* from here on the tag constants stay folded *)
Local Opaque H_TABLE H_TR H_TD H_TH H_BODY H_P.

(* ------------------------------------------------------------------ rows found in a rendered table *)
Definition r_inline (i : hinline) : xml := Elem (fst (fst i)) [] (snd (fst i)) [] (snd i).
Definition r_row (w : str) (r : list hitem) : xml := Elem H_TR [] w (map (html_r_cell w) r) w.

Lemma iter_tag_inlines rest :
  forallb (fun i : hinline => negb (str_eqb (fst (fst i)) H_TR)) rest = true ->
  flat_map (iter_tag H_TR) (map r_inline rest) = [].
Proof.
  induction rest as [|i rest IH]; cbn [forallb map flat_map]; [reflexivity|].
  intro H. apply andb_true_iff in H as [H1 H2].
  unfold r_inline at 1. rewrite iter_tag_unfold.
  apply negb_true_iff in H1. rewrite H1. cbn [flat_map app]. auto.
Qed.

Lemma iter_tag_cell w c : hitem_simple c = true -> iter_tag H_TR (html_r_cell w c) = [].
Proof.
  destruct c as [t0 rest| |]; cbn [hitem_simple]; try discriminate.
  intro H. cbn [html_r_cell]. rewrite iter_tag_unfold, TD_ne_TR.
  change (map (fun i : hinline => Elem (fst (fst i)) [] (snd (fst i)) [] (snd i)) rest)
    with (map r_inline rest).
  rewrite iter_tag_inlines by exact H. reflexivity.
Qed.

Lemma iter_tag_cells w r :
  forallb hitem_simple r = true -> flat_map (iter_tag H_TR) (map (html_r_cell w) r) = [].
Proof.
  induction r as [|c r IH]; cbn [forallb map flat_map]; [reflexivity|].
  intro H. apply andb_true_iff in H as [H1 H2].
  rewrite iter_tag_cell by exact H1. rewrite IH by exact H2. reflexivity.
Qed.

Lemma iter_tag_row w r :
  forallb hitem_simple r = true -> iter_tag H_TR (r_row w r) = [r_row w r].
Proof.
  intro H. unfold r_row. rewrite iter_tag_unfold, str_eqb_refl, iter_tag_cells by exact H.
  reflexivity.
Qed.

Lemma iter_tag_rows w g :
  hgrid_simple g = true -> flat_map (iter_tag H_TR) (map (r_row w) g) = map (r_row w) g.
Proof.
  unfold hgrid_simple.
  induction g as [|r g IH]; cbn [forallb map flat_map]; [reflexivity|].
  intro H. apply andb_true_iff in H as [H1 H2].
  rewrite iter_tag_row by exact H1. rewrite IH by exact H2. reflexivity.
Qed.

Lemma iter_tag_table w g :
  hgrid_simple g = true -> iter_tag H_TR (html_r_table w g) = map (r_row w) g.
Proof.
  intro H. unfold html_r_table. rewrite iter_tag_unfold, TABLE_ne_TR.
  change (map (fun r => Elem H_TR [] w (map (html_r_cell w) r) w) g) with (map (r_row w) g).
  rewrite iter_tag_rows by exact H. reflexivity.
Qed.

(* ------------------------------------------------------------------ one row *)
Lemma is_cell_tag_cell w c : is_cell_tag (html_r_cell w c) = true.
Proof.
  unfold is_cell_tag, tag_is. destruct c; cbn [html_r_cell xtag];
    rewrite str_eqb_refl; apply orb_true_r.
Qed.

Lemma node_text_tail_inline i : node_text_tail (r_inline i) = hinline_text i.
Proof.
  unfold r_inline. rewrite node_text_tail_unfold. cbn [map List.concat app]. reflexivity.
Qed.

Lemma node_text_cell w c :
  hitem_simple c = true -> node_text (html_r_cell w c) = hitem_src_text c.
Proof.
  destruct c as [t0 rest| |]; cbn [hitem_simple]; try discriminate.
  intros _. unfold node_text. cbn [html_r_cell xtext xchildren hitem_src_text].
  f_equal. f_equal. rewrite map_map. apply map_ext. intro i. apply node_text_tail_inline.
Qed.

Lemma html_row_row is_ws w r :
  forallb hitem_simple r = true ->
  html_row is_ws (r_row w r) = map (fun c => html_norm is_ws (hitem_src_text c)) r.
Proof.
  unfold html_row, r_row. cbn [xchildren].
  induction r as [|c r IH]; cbn [forallb map filter]; [reflexivity|].
  intro H. apply andb_true_iff in H as [H1 H2].
  rewrite is_cell_tag_cell. cbn [map].
  rewrite node_text_cell by exact H1. rewrite IH by exact H2. reflexivity.
Qed.

Lemma html_rows is_ws w g :
  hgrid_simple g = true ->
  map (html_row is_ws) (map (r_row w) g) = hgrid_spec is_ws g.
Proof.
  unfold hgrid_simple, hgrid_spec.
  induction g as [|r g IH]; cbn [forallb map]; [reflexivity|].
  intro H. apply andb_true_iff in H as [H1 H2].
  rewrite html_row_row by exact H1. rewrite IH by exact H2. reflexivity.
Qed.

Lemma filter_nonempty_spec is_ws g :
  hgrid_rows_nonempty g = true ->
  filter (fun r : list str => negb (is_nil r)) (hgrid_spec is_ws g) = hgrid_spec is_ws g.
Proof.
  unfold hgrid_rows_nonempty, hgrid_spec.
  induction g as [|r g IH]; cbn [forallb map filter]; [reflexivity|].
  intro H. apply andb_true_iff in H as [H1 H2].
  destruct r as [|c r]; [discriminate H1|]. cbn [map is_nil negb].
  rewrite IH by exact H2. reflexivity.
Qed.

(* shape facts about the specification: every table row has at least one column *)
Lemma hgrid_spec_rows_nonempty is_ws g :
  hgrid_rows_nonempty g = true ->
  forallb (fun r : list str => negb (is_nil r)) (hgrid_spec is_ws g) = true.
Proof.
  unfold hgrid_rows_nonempty, hgrid_spec.
  induction g as [|r g IH]; cbn [forallb map]; [reflexivity|].
  intro H. apply andb_true_iff in H as [H1 H2].
  destruct r as [|c r]; [discriminate H1|]. cbn [map is_nil negb andb]. auto.
Qed.

Lemma hgrid_spec_shape is_ws g :
  length (hgrid_spec is_ws g) = length g /\
  map (@List.length str) (hgrid_spec is_ws g) = map (@List.length hitem) g.
Proof.
  unfold hgrid_spec. split; [apply map_length|].
  rewrite map_map. apply map_ext. intro r. apply map_length.
Qed.

(* ------------------------------------------------------------------ 1. one table *)
Theorem html_table_roundtrip : forall is_ws w g,
  hgrid_simple g = true -> hgrid_rows_nonempty g = true ->
  html_extract_table is_ws (html_r_table w g) = hgrid_spec is_ws g.
Proof.
  intros is_ws w g Hs Hn. unfold html_extract_table.
  rewrite iter_tag_table by exact Hs.
  rewrite html_rows by exact Hs.
  apply filter_nonempty_spec; exact Hn.
Qed.

(* ------------------------------------------------------------------ 2. whole document *)
Lemma html_tables_block is_ws w b :
  match b with HBPara _ => true | HBTable g => hgrid_simple g && hgrid_rows_nonempty g end = true ->
  html_tables_node is_ws (html_r_block w b)
  = match b with HBPara _ => [] | HBTable g => [hgrid_spec is_ws g] end.
Proof.
  destruct b as [t|g]; cbn [html_r_block].
  - intros _. rewrite html_tables_node_unfold, P_not_removed, P_ne_TABLE, P_not_heading.
    reflexivity.
  - intro H. apply andb_true_iff in H as [Hs Hn].
    rewrite <- (html_table_roundtrip is_ws w g Hs Hn).
    unfold html_r_table at 1.
    rewrite html_tables_node_unfold, TABLE_not_removed, str_eqb_refl. reflexivity.
Qed.

Lemma html_tables_blocks is_ws w d :
  html_doc_simple d = true ->
  flat_map (html_tables_node is_ws) (map (html_r_block w) d) = html_spec is_ws d.
Proof.
  unfold html_doc_simple, html_spec, html_top_tables.
  induction d as [|b d IH]; cbn [forallb map flat_map]; [reflexivity|].
  intro H. apply andb_true_iff in H as [H1 H2].
  rewrite html_tables_block by exact H1. rewrite IH by exact H2.
  rewrite map_app. destruct b; reflexivity.
Qed.

Lemma html_body_found w d :
  exists rest, iter_tag H_BODY (html_r_root w d) = E H_BODY (map (html_r_block w) d) :: rest.
Proof.
  unfold html_r_root, E.
  rewrite iter_tag_unfold, root_ne_BODY. cbn [flat_map app].
  rewrite iter_tag_unfold, html_ne_BODY. cbn [flat_map app].
  rewrite iter_tag_unfold, str_eqb_refl. cbn [app]. eexists. reflexivity.
Qed.

Theorem html_tables_roundtrip : forall is_ws w d,
  html_doc_simple d = true ->
  html_tables is_ws (html_r_root w d) = html_spec is_ws d.
Proof.
  intros is_ws w d H. unfold html_tables.
  destruct (html_body_found w d) as [rest ->].
  unfold E. rewrite html_tables_node_unfold, BODY_not_removed, BODY_ne_TABLE, BODY_not_heading.
  apply html_tables_blocks; exact H.
Qed.

(* ------------------------------------------------------------------ 3. adjacency *)
Corollary html_adjacent : forall is_ws w g1 g2,
  hgrid_simple g1 = true -> hgrid_rows_nonempty g1 = true ->
  hgrid_simple g2 = true -> hgrid_rows_nonempty g2 = true ->
  html_tables is_ws (html_r_root w [HBTable g1; HBTable g2])
  = [hgrid_spec is_ws g1; hgrid_spec is_ws g2].
Proof.
  intros is_ws w g1 g2 S1 N1 S2 N2.
  rewrite html_tables_roundtrip; [reflexivity|].
  cbn [html_doc_simple forallb]. rewrite S1, N1, S2, N2. reflexivity.
Qed.

(* every table of a simple document has r = number of source rows and each row its source width,
   all >= 1 columns *)
Corollary html_tables_shape : forall is_ws w d,
  html_doc_simple d = true ->
  map (fun t => (length t, map (@List.length str) t)) (html_tables is_ws (html_r_root w d))
  = map (fun g => (length g, map (@List.length hitem) g)) (html_top_tables d).
Proof.
  intros is_ws w d H. rewrite html_tables_roundtrip by exact H.
  unfold html_spec. rewrite map_map. apply map_ext. intro g.
  destruct (hgrid_spec_shape is_ws g) as [-> ->]. reflexivity.
Qed.

(* ------------------------------------------------------------------ 4. refutations *)
Definition html_nested_d0 : list hblock :=
  [HBTable [[HText (s "a") []; HNested [[s "n1"; s "n2"]]];
            [HText (s "b") []; HText (s "c") []]]].

(* the nested table's row shows up as an extra row of the outer table, the nested cell's text is
   the glued text of the nested table, and no separate nested table is reported *)
Example html_nested_witness :
  html_tables ws_ascii (html_r_root [] html_nested_d0)
  = [[[s "a"; s "n1n2"]; [s "n1"; s "n2"]; [s "b"; s "c"]]].
Proof. vm_compute. reflexivity. Qed.

Example html_nested_spec_value :
  html_spec ws_ascii html_nested_d0 = [[[s "a"; []]; [s "b"; s "c"]]].
Proof. vm_compute. reflexivity. Qed.

Theorem html_nested_refuted :
  exists d : list hblock, html_tables ws_ascii (html_r_root [] d) <> html_spec ws_ascii d.
Proof.
  exists html_nested_d0. rewrite html_nested_witness, html_nested_spec_value.
  vm_compute. discriminate.
Qed.

Definition html_multipara_d0 : list hblock := [HBTable [[HParas [s "Hello"; s "World"]]]].

Example html_multipara_witness :
  html_tables ws_ascii (html_r_root [] html_multipara_d0) = [[[s "HelloWorld"]]].
Proof. vm_compute. reflexivity. Qed.

Example html_multipara_spec_value :
  html_spec ws_ascii html_multipara_d0 = [[[s "Hello World"]]].
Proof. vm_compute. reflexivity. Qed.

Theorem html_multipara_refuted :
  exists d : list hblock, html_tables ws_ascii (html_r_root [] d) <> html_spec ws_ascii d.
Proof.
  exists html_multipara_d0. rewrite html_multipara_witness, html_multipara_spec_value.
  vm_compute. discriminate.
Qed.

(* ------------------------------------------------------------------ 5. non-vacuity *)
Example html_doc_simple_sat :
  html_doc_simple [HBPara (s "x"); HBTable [[HText (s "a") [(s "b", s "c", s "d")]; HText [] []]]] = true.
Proof. vm_compute. reflexivity. Qed.

Print Assumptions html_table_roundtrip.
Print Assumptions html_tables_roundtrip.
Print Assumptions html_adjacent.
Print Assumptions html_tables_shape.
Print Assumptions html_nested_witness.
Print Assumptions html_nested_refuted.
Print Assumptions html_multipara_witness.
Print Assumptions html_multipara_refuted.
Print Assumptions html_doc_simple_sat.
