(* C13 — tables come back with their shape and every cell in place: property theorems only.
   Every positive theorem is about  walker (render source) = source  for ALL source grids
   (any number of rows/columns, ragged rows, empty cells, multi-run / multi-paragraph cells, adjacent
   tables, paragraphs between tables) — equality of the whole list of grids gives shape, every cell,
   source order, nothing lost / merged / invented at once.  `_refuted` theorems are the full-strength
   statements that are FALSE of the code as it is (witness replayed on the implementation by the
   check); the `_partial`/flat theorems next to them carry the narrowest boolean hypothesis.
   Nesting depth of tables inside cells is bounded by 1 in the source type (`citem`). *)
From Coq Require Import ZArith List Bool Permutation Floats.SpecFloat.
From S2T Require Import Lib.PyStr C13.Model C13.ProofsHtml C13.ProofsSheets C13.ProofsOds C13.ProofsTree C13.ProofsRtf C13.ProofsOrder C13.ProofsRows C13.ProofsPos C13.ProofsPptx C13.ProofsAnchor.
Import ListNotations.
Notation length := List.length.
Notation concat := List.concat.

(* ---------------------------------------------------------------- get_dim = shape of get_table *)
(* TableData, XlsxSheet, OdsSheet, OdtTable, RtfTable *)
Theorem C13_get_dim_is_shape : forall (A : Type) (data : list (list A)),
  data_get_dim data = (length (data_get_table data), max_len (data_get_table data)).
Proof. exact data_get_dim_is_shape. Qed.
Print Assumptions C13_get_dim_is_shape.

Theorem C13_get_dim_rect : forall (A : Type) (data : list (list A)) (r c : nat),
  length data = r -> (1 <= r)%nat -> forallb (fun row => Nat.eqb (length row) c) data = true ->
  data_get_dim data = (r, c).
Proof. exact data_get_dim_rect. Qed.
Print Assumptions C13_get_dim_rect.

(* XlsSheet (dict-backed) *)
Theorem C13_xls_get_dim_is_shape : forall data : list pydict,
  xls_get_dim data = (length (xls_get_table data), max_len (xls_get_table data)).
Proof. exact xls_get_dim_is_shape. Qed.
Print Assumptions C13_xls_get_dim_is_shape.

(* ---------------------------------------------------------------- DOCX *)
Theorem C13_docx_tables_flat : forall d : doc,
  no_nested_tables d = true -> docx_tables (docx_r_body d) = spec_top d.
Proof. exact docx_tables_flat. Qed.
Print Assumptions C13_docx_tables_flat.

Theorem C13_docx_adjacent : forall g1 g2 : grid, grid_flat g1 = true -> grid_flat g2 = true ->
  docx_tables (docx_r_body [BTable g1; BTable g2]) = [map (map cell_text_own) g1; map (map cell_text_own) g2].
Proof. exact docx_adjacent. Qed.
Print Assumptions C13_docx_adjacent.

(* with a table inside a cell: every table is returned, pre-order, and the outer cell repeats the
   nested table's text (no hypothesis) ... *)
Theorem C13_docx_tables_preorder : forall d : doc, docx_tables (docx_r_body d) = spec_preorder d.
Proof. exact docx_tables_preorder. Qed.
Print Assumptions C13_docx_tables_preorder.

(* ... so "exactly the top-level tables, each cell its own paragraphs" is false *)
Theorem C13_docx_toplevel_refuted : exists d : doc, docx_tables (docx_r_body d) <> spec_top d.
Proof. exact docx_toplevel_refuted. Qed.
Print Assumptions C13_docx_toplevel_refuted.

(* ---------------------------------------------------------------- PPTX (cells are .strip()ped) *)
Theorem C13_pptx_table_roundtrip : forall (is_ws : N -> bool) (g : fgrid),
  pptx_table is_ws (pptx_r_frame g) = Some (map (map (fun c => strip is_ws (fcell_text c))) g).
Proof. exact pptx_table_roundtrip. Qed.
Print Assumptions C13_pptx_table_roundtrip.

Theorem C13_pptx_table_stripped : forall (is_ws : N -> bool) (g : fgrid),
  cells_stripped is_ws g = true -> pptx_table is_ws (pptx_r_frame g) = Some (fgrid_text g).
Proof. exact pptx_table_stripped. Qed.
Print Assumptions C13_pptx_table_stripped.

(* ---------------------------------------------------------------- ODT / ODP *)
Theorem C13_odt_tables_flat : forall (pint : int_oracle) (skip : list str),
  mem_str TEXT_SPAN skip = false ->
  forall d : doc, no_nested_tables d = true -> grids_nonempty d = true ->
  odt_tables pint skip (odt_r_body d) = spec_top d.
Proof. exact odt_tables_flat. Qed.
Print Assumptions C13_odt_tables_flat.

Theorem C13_odt_nested_refuted : exists d : doc,
  grids_nonempty d = true /\
  odt_tables ProofsTree.pint0 [OFFICE_ANNOTATION] (odt_r_body d) <> spec_top d /\
  odt_tables ProofsTree.pint0 [OFFICE_ANNOTATION] (odt_r_body d) <> spec_preorder d.
Proof. exact odt_nested_refuted. Qed.
Print Assumptions C13_odt_nested_refuted.

Theorem C13_odp_table_flat : forall (pint : int_oracle) (skip : list str),
  mem_str TEXT_SPAN skip = false ->
  forall g : fgrid, rows_nonempty g = true -> odp_table pint skip (odf_r_ftable g) = fgrid_text g.
Proof. exact odp_table_flat. Qed.
Print Assumptions C13_odp_table_flat.

(* ODP cells leave out the paragraphs of comments (office:annotation, arbitrary content) *)
Theorem C13_odp_cell_comment_skipped : forall (pint : int_oracle) (skip : list str) aa ax acs al (p : Model.para),
  mem_str TEXT_SPAN skip = false ->
  odp_cell pint skip (E TABLE_CELL [Elem OFFICE_ANNOTATION aa ax acs al; odf_r_para p]) = concat p.
Proof. exact odp_cell_comment_skipped. Qed.
Print Assumptions C13_odp_cell_comment_skipped.

(* ---------------------------------------------------------------- HTML *)
Theorem C13_html_tables_roundtrip : forall (is_ws : N -> bool) (w : str) (d : list hblock),
  html_doc_simple d = true -> html_tables is_ws (html_r_root w d) = html_spec is_ws d.
Proof. exact html_tables_roundtrip. Qed.
Print Assumptions C13_html_tables_roundtrip.

Theorem C13_html_adjacent : forall (is_ws : N -> bool) (w : str) (g1 g2 : hgrid),
  hgrid_simple g1 = true -> hgrid_rows_nonempty g1 = true -> hgrid_simple g2 = true -> hgrid_rows_nonempty g2 = true ->
  html_tables is_ws (html_r_root w [HBTable g1; HBTable g2]) = [hgrid_spec is_ws g1; hgrid_spec is_ws g2].
Proof. exact html_adjacent. Qed.
Print Assumptions C13_html_adjacent.

Theorem C13_html_tables_shape : forall (is_ws : N -> bool) (w : str) (d : list hblock),
  html_doc_simple d = true ->
  map (fun t : list (list str) => (length t, map (@List.length str) t)) (html_tables is_ws (html_r_root w d)) =
  map (fun g : list (list hitem) => (length g, map (@List.length hitem) g)) (html_top_tables d).
Proof. exact html_tables_shape. Qed.
Print Assumptions C13_html_tables_shape.

Theorem C13_html_nested_refuted : exists d : list hblock, html_tables ws_ascii (html_r_root [] d) <> html_spec ws_ascii d.
Proof. exact html_nested_refuted. Qed.
Print Assumptions C13_html_nested_refuted.

Theorem C13_html_multipara_refuted : exists d : list hblock, html_tables ws_ascii (html_r_root [] d) <> html_spec ws_ascii d.
Proof. exact html_multipara_refuted. Qed.
Print Assumptions C13_html_multipara_refuted.

(* ---------------------------------------------------------------- EPUB *)
Theorem C13_epub_tables_roundtrip : forall (is_ws : N -> bool) (gs : list (list (list str))),
  forallb grid_nonempty gs = true ->
  epub_tables is_ws (flat_map epub_r_table gs) = map (map (map (fun t => epub_norm_cell is_ws [t]))) gs.
Proof. exact epub_tables_roundtrip. Qed.
Print Assumptions C13_epub_tables_roundtrip.

Theorem C13_epub_nested_refuted :
  length (epub_tables ws_ascii epub_nested_events) <> 2%nat /\
  (forall t, In t (epub_tables ws_ascii epub_nested_events) ->
     length t <> 2%nat /\ ~ In [s "b"] t /\ (forall r, In r t -> ~ In (s "a") r)) /\
  epub_tables ws_ascii epub_nested_events <> [[[s "a"; s "n"]; [s "b"]]; [[s "n"]]] /\
  epub_tables ws_ascii epub_nested_events <> [[[s "a"; []]; [s "b"]]].
Proof. exact epub_nested_refuted. Qed.
Print Assumptions C13_epub_nested_refuted.

(* ---------------------------------------------------------------- ODS *)
Theorem C13_ods_plain_roundtrip : forall (pint : int_oracle) (pflt : float_oracle),
  (forall n : N, pint (dec_N n) = Some (Z.of_N n)) ->
  forall (g : list (list ocell)) (c : nat),
  (1 <= c)%nat -> g <> [] -> rect c g = true ->
  last_row_has_data pflt g = true -> last_col_has_data pflt c g = true ->
  ods_sheet pint pflt (ods_r_sheet_plain g) = Some (ogrid_spec pflt g).
Proof. exact ods_plain_roundtrip. Qed.
Print Assumptions C13_ods_plain_roundtrip.

(* the way LibreOffice writes sheets: runs of equal cells as number-columns-repeated *)
Theorem C13_ods_rle_roundtrip : forall (pint : int_oracle) (pflt : float_oracle),
  (forall n : N, pint (dec_N n) = Some (Z.of_N n)) ->
  forall (g : list (list ocell)) (c : nat),
  (1 <= c)%nat -> g <> [] -> rect c g = true ->
  last_row_has_data pflt g = true -> last_col_has_data pflt c g = true ->
  grid_nul_free g = true -> no_long_empty_runs pflt g = true ->
  ods_sheet pint pflt (ods_r_sheet_rle g) = Some (ogrid_spec pflt g).
Proof. exact ods_rle_roundtrip. Qed.
Print Assumptions C13_ods_rle_roundtrip.

Theorem C13_ods_repeat_cap_refuted : exists (g : list (list ocell)) (c : nat),
  (1 <= c)%nat /\ g <> [] /\ rect c g = true /\
  last_row_has_data pflt0 g = true /\ last_col_has_data pflt0 c g = true /\ grid_nul_free g = true /\
  ods_sheet ProofsOds.pint0 pflt0 (ods_r_sheet_plain g) = Some (ogrid_spec pflt0 g) /\
  ods_sheet ProofsOds.pint0 pflt0 (ods_r_sheet_rle g) <> Some (ogrid_spec pflt0 g).
Proof. exact ods_repeat_cap_refuted. Qed.
Print Assumptions C13_ods_repeat_cap_refuted.

(* a cell comment (office:annotation, arbitrary content) does not reach the cell's value
   (repaired code, fixes/C13-ods-cell-comment-text.patch) *)
Theorem C13_ods_cell_comment_skipped : forall (pint : int_oracle) (pflt : float_oracle) aa ax acs al (t : str),
  ods_cell_value pint pflt (Elem TABLE_CELL [(ATTR_VALUE_TYPE, s "string")] []
                                 [Elem OFFICE_ANNOTATION aa ax acs al; ET TEXT_P t] [])
  = Some (if is_nil t then VNone else VStr t).
Proof. exact ods_cell_comment_skipped. Qed.
Print Assumptions C13_ods_cell_comment_skipped.

(* a non-finite office:value is kept as its text and no longer aborts the file
   (repaired code, fixes/C13-ods-nonfinite-number.patch): ods_sheet never raises on rendered grids,
   whatever float() says — the round-trip theorems above carry no hypothesis on the float oracle *)
Theorem C13_ods_nonfinite_kept_as_text :
  ods_sheet ProofsOds.pint0 (fun _ => FOvf) (ods_r_sheet_plain [[ONum (s "inf")]]) = Some [[VStr (s "inf")]].
Proof. exact ovf_kept_as_text. Qed.
Print Assumptions C13_ods_nonfinite_kept_as_text.

(* ---------------------------------------------------------------- XLSX *)
Theorem C13_xlsx_sheet_partial : forall (is_ws : N -> bool) (g : list (list xcell)) (c : nat),
  (1 <= c)%nat -> header_ok is_ws g = true -> x_rect c g = true ->
  x_last_row_has_data is_ws g = true -> x_last_col_has_data is_ws c g = true ->
  xlsx_sheet is_ws g = xgrid_spec g.
Proof. exact xlsx_sheet_partial. Qed.
Print Assumptions C13_xlsx_sheet_partial.

Theorem C13_xlsx_empty_header_refuted : exists g : list (list xcell),
  x_rect 3 g = true /\ x_last_row_has_data ws_ascii g = true /\ x_last_col_has_data ws_ascii 3 g = true /\
  xlsx_sheet ws_ascii g <> xgrid_spec g.
Proof. exact xlsx_empty_header_refuted. Qed.
Print Assumptions C13_xlsx_empty_header_refuted.

Theorem C13_xlsx_title_row_refuted : exists g : list (list xcell),
  x_rect 2 g = true /\ x_last_row_has_data ws_ascii g = true /\ x_last_col_has_data ws_ascii 2 g = true /\
  length (xlsx_sheet ws_ascii g) = 1%nat /\ length g = 2%nat /\ xlsx_sheet ws_ascii g <> xgrid_spec g.
Proof. exact xlsx_title_row_refuted. Qed.
Print Assumptions C13_xlsx_title_row_refuted.

Theorem C13_xlsx_typed_header_refuted : exists g : list (list xcell),
  x_rect 2 g = true /\ x_last_row_has_data ws_ascii g = true /\ x_last_col_has_data ws_ascii 2 g = true /\
  xlsx_sheet ws_ascii g <> xgrid_spec g.
Proof. exact xlsx_typed_header_refuted. Qed.
Print Assumptions C13_xlsx_typed_header_refuted.

(* a datetime in the first row comes back as str(value) ('2024-01-02 00:00:00'), not as the ISO string *)
Theorem C13_xlsx_date_header_refuted : exists g : list (list xcell),
  x_rect 2 g = true /\ x_last_row_has_data ws_ascii g = true /\ x_last_col_has_data ws_ascii 2 g = true /\
  xlsx_sheet ws_ascii g <> xgrid_spec g.
Proof. exact xlsx_date_header_refuted. Qed.
Print Assumptions C13_xlsx_date_header_refuted.

(* typed values: dates/times come back as their ISO string, durations as their str() form, everything
   else (numbers, booleans, text, error texts) unchanged — this is what xgrid_spec says cell by cell *)
Theorem C13_xlsx_typed_values : forall (tok strf iso t : str) (z : Z) (b : bool),
  x_cell_value (xdate tok strf iso) = VStr iso /\
  x_cell_value (xdur tok strf) = VStr strf /\
  x_cell_value {| xc_val := VInt z; xc_str := t; xc_conv := None |} = VInt z /\
  x_cell_value {| xc_val := VFlt tok; xc_str := t; xc_conv := None |} = VFlt tok /\
  x_cell_value {| xc_val := VBool b; xc_str := t; xc_conv := None |} = VBool b /\
  x_cell_value (xstr t) = VStr t /\ x_cell_value xnone = VNone.
Proof. intros; repeat split; reflexivity. Qed.
Print Assumptions C13_xlsx_typed_values.

(* ---------------------------------------------------------------- XLS *)
Theorem C13_xls_sheet_partial : forall (g : list (list lcell)) (r0 : list lcell) (rest : list (list lcell)) (c : nat),
  g = r0 :: rest -> rest <> [] -> l_rect c g = true -> nodup_str (map lc_header r0) = true ->
  xls_sheet_table g = lgrid_spec g.
Proof. exact xls_sheet_partial. Qed.
Print Assumptions C13_xls_sheet_partial.

Theorem C13_xls_get_dim_rect : forall (g : list (list lcell)) (r0 : list lcell) (rest : list (list lcell)) (r c : nat),
  g = r0 :: rest -> length g = r -> (2 <= r)%nat -> l_rect c g = true -> nodup_str (map lc_header r0) = true ->
  xls_get_dim (xls_sheet_data g) = (r, c).
Proof. exact xls_get_dim_rect. Qed.
Print Assumptions C13_xls_get_dim_rect.

Theorem C13_xls_duplicate_header_refuted : exists (g : list (list lcell)) (r0 : list lcell) (rest : list (list lcell)),
  g = r0 :: rest /\ rest <> [] /\ l_rect 2 g = true /\ xls_sheet_table g <> lgrid_spec g.
Proof. exact xls_duplicate_header_refuted. Qed.
Print Assumptions C13_xls_duplicate_header_refuted.

Theorem C13_xls_header_only_refuted : exists (g : list (list lcell)) (r0 : list lcell),
  g = [r0] /\ l_rect 2 g = true /\ nodup_str (map lc_header r0) = true /\ xls_sheet_table g <> lgrid_spec g.
Proof. exact xls_header_only_refuted. Qed.
Print Assumptions C13_xls_header_only_refuted.

(* ---------------------------------------------------------------- RTF (regex walker, hand-written matchers)
   is_ws / is_word are the whitespace and \w oracles; the pointwise facts about them are re-decided
   for today's tables in C13/InstRtf.v (C13_rtf_oracle_facts) *)
Theorem C13_rtf_tables_single : forall is_ws is_word : N -> bool,
  is_ws 32 = true -> is_ws 9 = true -> is_ws 10 = true -> is_ws 11 = true -> is_ws 12 = true ->
  is_word 32 = false -> is_word 92 = false -> is_word 10 = false ->
  forall g : list (list str), g <> [] ->
  forallb (fun r => negb (is_nil r)) g = true -> forallb (forallb (rtf_plain is_ws)) g = true ->
  rtf_tables is_ws is_word (rtf_r_doc [RTable g]) = [rtf_pad_rows g].
Proof. exact rtf_tables_single. Qed.
Print Assumptions C13_rtf_tables_single.

(* the same for every way a row can be glued to the next one — \row directly followed by \trowd
   (END offset of \row == START offset of \trowd), by a space, a newline, a group boundary "}{" or
   \pard — and with empty cells written as a bare \cell *)
Theorem C13_rtf_tables_single_gen : forall is_ws is_word : N -> bool,
  is_ws 32 = true -> is_ws 9 = true -> is_ws 10 = true -> is_ws 11 = true -> is_ws 12 = true ->
  is_word 32 = false -> is_word 92 = false -> is_word 10 = false -> is_word 125 = false ->
  forall (tight : bool) (sep : str) (g : list (list str)), rtf_row_sep_ok sep = true -> g <> [] ->
  forallb (fun r => negb (is_nil r)) g = true -> forallb (forallb (rtf_plain is_ws)) g = true ->
  rtf_tables is_ws is_word (rtf_r_doc_gen tight sep g) = [rtf_pad_rows g].
Proof. exact rtf_tables_single_gen. Qed.
Print Assumptions C13_rtf_tables_single_gen.

(* padding is the identity on a rectangular grid, so r x c comes back as r x c, cell by cell *)
Theorem C13_rtf_pad_rows_id : forall (g : list (list str)) (c : nat),
  forallb (fun r => Nat.eqb (length r) c) g = true -> rtf_pad_rows g = g.
Proof. exact rtf_pad_rows_id. Qed.
Print Assumptions C13_rtf_pad_rows_id.

Theorem C13_rtf_get_dim : forall g : list (list str), data_get_dim (rtf_pad_rows g) = (length g, max_len g).
Proof. exact rtf_get_dim. Qed.
Print Assumptions C13_rtf_get_dim.

(* adjacency holds when the paragraph between the tables is long (>= 90 characters) ... *)
Theorem C13_rtf_tables_long_separator : forall is_ws is_word : N -> bool,
  is_ws 32 = true -> is_ws 9 = true -> is_ws 10 = true -> is_ws 11 = true -> is_ws 12 = true -> is_ws 100 = false ->
  is_word 32 = false -> is_word 92 = false -> is_word 10 = false ->
  forall (g1 g2 : list (list str)) (t : str),
  g1 <> [] -> forallb (fun r => negb (is_nil r)) g1 = true -> forallb (forallb (rtf_plain is_ws)) g1 = true ->
  g2 <> [] -> forallb (fun r => negb (is_nil r)) g2 = true -> forallb (forallb (rtf_plain is_ws)) g2 = true ->
  rtf_plain is_ws t = true -> (90 <= length t)%nat ->
  rtf_tables is_ws is_word (rtf_r_doc [RTable g1; RPara t; RTable g2]) = [rtf_pad_rows g1; rtf_pad_rows g2].
Proof. exact rtf_tables_long_separator. Qed.
Print Assumptions C13_rtf_tables_long_separator.

(* ... and fails otherwise: two tables separated by a short paragraph come back as one *)
Theorem C13_rtf_adjacent_tables_merged_refuted : exists d : list rblock,
  rtf_doc_plain ws_ascii d = true /\ rtf_tables ws_ascii wd_ascii (rtf_r_doc d) <> rtf_doc_tables d.
Proof. exact rtf_adjacent_tables_merged_refuted. Qed.
Print Assumptions C13_rtf_adjacent_tables_merged_refuted.

(* ---------------------------------------------------------------- order of the tables of a deck (ODP, PPTX)
   frames are sorted by position with a stable sort; positions are order-preserving ranks *)
(* none lost, none invented, whatever the positions are (equal, missing, unparseable, descending) *)
Theorem C13_deck_tables_perm : forall slides : list (list frame),
  Permutation (deck_tables slides) (deck_source_tables slides).
Proof. exact deck_tables_perm. Qed.
Print Assumptions C13_deck_tables_perm.

(* source order whenever positions do not decrease along the document *)
Theorem C13_deck_tables_source_order : forall slides : list (list frame),
  forallb (fun sl => keys_sorted (map fst sl)) slides = true -> deck_tables slides = deck_source_tables slides.
Proof. exact deck_tables_source_order. Qed.
Print Assumptions C13_deck_tables_source_order.

(* in particular for frames stacked at one position / frames without a usable position *)
Theorem C13_slide_tables_same_position : forall (c : poskey) (ts : list (option (list (list str)))),
  slide_tables (map (fun t => (c, t)) ts) = flat_map frame_tables (map (fun t => (c, t)) ts).
Proof. exact slide_tables_same_position. Qed.
Print Assumptions C13_slide_tables_same_position.

(* ---------------------------------------------------------------- rows / frames behind wrappers (repaired code)
   ODS _iter_sheet_rows, ODP _iter_table_rows: rows wrapped in table:table-header-rows, table:table-rows,
   table:table-row-group — any nesting, any mix with direct rows — are all read, in document order;
   ODP _iter_slide_frames: frames inside (nested) draw:g groups likewise *)
Theorem C13_table_rows_through_wrappers : forall t a x l (segs : list (list str * list xml)),
  forallb (fun sg => chain_ok TABLE_ROW ROW_WRAPPERS (fst sg) && forallb (tag_is TABLE_ROW) (snd sg)) segs = true ->
  table_rows (Elem t a x (flat_map (fun sg => wrap_chain (fst sg) (snd sg)) segs) l) = flat_map snd segs.
Proof. intros t a x l segs. exact (collect_through_segments TABLE_ROW ROW_WRAPPERS t a x l segs). Qed.
Print Assumptions C13_table_rows_through_wrappers.

(* hence a sheet / table with wrapped rows is read exactly like the one with the same rows unwrapped,
   to which the round-trip theorems above apply *)
Theorem C13_ods_sheet_wrapped : forall pint pflt (segs : list (list str * list xml)),
  forallb (fun sg => chain_ok TABLE_ROW ROW_WRAPPERS (fst sg) && forallb (tag_is TABLE_ROW) (snd sg)) segs = true ->
  ods_sheet pint pflt (E TABLE_TABLE (flat_map (fun sg => wrap_chain (fst sg) (snd sg)) segs))
  = ods_sheet pint pflt (E TABLE_TABLE (flat_map snd segs)).
Proof. exact ods_sheet_wrapped. Qed.
Print Assumptions C13_ods_sheet_wrapped.

Theorem C13_odp_table_wrapped : forall pint skip (segs : list (list str * list xml)),
  forallb (fun sg => chain_ok TABLE_ROW ROW_WRAPPERS (fst sg) && forallb (tag_is TABLE_ROW) (snd sg)) segs = true ->
  odp_table pint skip (E TABLE_TABLE (flat_map (fun sg => wrap_chain (fst sg) (snd sg)) segs))
  = odp_table pint skip (E TABLE_TABLE (flat_map snd segs)).
Proof. exact odp_table_wrapped. Qed.
Print Assumptions C13_odp_table_wrapped.

Theorem C13_slide_frames_groups : forall t a x l (segs : list (list str * list xml)),
  forallb (fun sg => chain_ok DRAW_FRAME [DRAW_G] (fst sg) && forallb (tag_is DRAW_FRAME) (snd sg)) segs = true ->
  slide_frames (Elem t a x (flat_map (fun sg => wrap_chain (fst sg) (snd sg)) segs) l) = flat_map snd segs.
Proof. exact slide_frames_groups. Qed.
Print Assumptions C13_slide_frames_groups.

(* ---------------------------------------------------------------- position keys (modelled parsers)
   ODP _parse_odf_length_to_px in IEEE-754 binary64 (SpecFloat); bounds are part of the statements:
   lengths d/100 <unit>, d = 0..3000, units cm mm in pt pc px and none *)
Theorem C13_odf_px_strictly_monotone_bounded :
  forall u, In u UNITS -> forall d : nat, (d < 3000)%nat ->
  f_ltb (odf_px_value (Z.of_nat d) 2 u) (odf_px_value (Z.of_nat d + 1) 2 u) = true.
Proof. exact odf_px_strictly_monotone_bounded. Qed.
Print Assumptions C13_odf_px_strictly_monotone_bounded.

(* "equal lengths in different units get equal keys" is false in floating point (0.01cm vs 0.1mm) ... *)
Theorem C13_odf_px_equal_lengths_equal_keys_refuted :
  exists d : Z, f_eqb (odf_px_value d 2 (s "cm")) (odf_px_value d 1 (s "mm")) = false.
Proof. exact odf_px_equal_lengths_equal_keys_refuted. Qed.
Print Assumptions C13_odf_px_equal_lengths_equal_keys_refuted.

(* ... but the error never reaches the neighbouring grid point: different lengths in different units
   are ordered correctly (cm/mm, in/pt, in/px on the same bounded grid) *)
Theorem C13_odf_px_cross_unit_order_partial :
  cross_unit_consistent (s "cm") 2 (s "mm") 1 1 1 = true
  /\ cross_unit_consistent (s "in") 2 (s "pt") 2 1 72 = true
  /\ cross_unit_consistent (s "in") 2 (s "px") 2 1 96 = true.
Proof. exact odf_px_cross_unit_order_partial. Qed.
Print Assumptions C13_odf_px_cross_unit_order_partial.

Theorem C13_odf_px_unusable_is_zero :
  odf_length_px ws_ascii [] = f_zero /\ odf_length_px ws_ascii (s "-1cm") = f_zero /\ odf_length_px ws_ascii (s "abc") = f_zero.
Proof. exact odf_px_unusable_is_zero. Qed.
Print Assumptions C13_odf_px_unusable_is_zero.

(* PPTX _get_shape_position on a table frame: explicit a:off, none, unparsable *)
Theorem C13_pptx_position_explicit : forall pint xs ys x y g, pint xs = Some x -> pint ys = Some y ->
  pptx_shape_position pint (pptx_r_frame_at xs ys g) = (y, x).
Proof. exact pptx_position_explicit. Qed.
Print Assumptions C13_pptx_position_explicit.

Theorem C13_pptx_position_missing : forall pint g, pptx_shape_position pint (pptx_r_frame g) = PPTX_LAST.
Proof. exact pptx_position_missing. Qed.
Print Assumptions C13_pptx_position_missing.

Theorem C13_pptx_table_at : forall is_ws xs ys g,
  pptx_table is_ws (pptx_r_frame_at xs ys g) = pptx_table is_ws (pptx_r_frame g).
Proof. exact pptx_table_at. Qed.
Print Assumptions C13_pptx_table_at.

(* table frames inside (nested) p:grpSp groups are found, in document order *)
Theorem C13_pptx_slide_shapes_groups : forall segs : list (list str * list (str * str * fgrid)),
  forallb (fun sg => forallb (fun w => str_eqb w P_GRPSP) (fst sg)) segs = true ->
  pptx_slide_shapes (E P_SPTREE (flat_map (fun sg => wrap_chain (fst sg) (map rf (snd sg))) segs))
  = flat_map (fun sg => map rf (snd sg)) segs.
Proof. exact pptx_slide_shapes_groups. Qed.
Print Assumptions C13_pptx_slide_shapes_groups.

(* the whole slide: none lost, none invented, whatever the positions; source order when keys do not decrease *)
Theorem C13_pptx_slide_tables_perm : forall is_ws pint t,
  Permutation (pptx_slide_tables is_ws pint t)
    (flat_map (fun sh => if tag_is P_GRAPHICFRAME sh
                         then match pptx_table is_ws sh with Some tb => if is_nil tb then [] else [tb] | None => [] end
                         else []) (pptx_slide_shapes t)).
Proof. exact pptx_slide_tables_perm. Qed.
Print Assumptions C13_pptx_slide_tables_perm.

Theorem C13_stable_sort_le_sorted_id : forall (A : Type) (le : A -> A -> bool) (l : list A),
  sorted_le le l = true -> stable_sort_le le l = l.
Proof. intros A le l. exact (stable_sort_le_sorted_id le l). Qed.
Print Assumptions C13_stable_sort_le_sorted_id.

(* XLS: the table of a sheet is the same whatever sheets precede it in the workbook (the second sheet
   with the same header texts as the first comes back like the first) *)
Theorem C13_xls_sheets_independent : forall before g after,
  nth (length before) (xls_workbook_tables (before ++ g :: after)) [] = xls_sheet_table g.
Proof. exact xls_sheets_independent. Qed.
Print Assumptions C13_xls_sheets_independent.

(* ---------------------------------------------------------------- DOCX through content controls / customXml
   (repaired code a634949: tables at body level, rows and cells are found through w:sdt / w:sdtContent /
   w:customXml wrappers, any nesting, document order) *)
Theorem C13_docx_table_wrapped_eq : forall segs : list (list str * list xml),
  forallb (fun sg => okc W_TR (fst sg) && forallb (tag_is W_TR) (snd sg)) segs = true ->
  docx_table (E W_TBL (flat_map (fun sg => wrap_chain (fst sg) (snd sg)) segs)) = docx_table (E W_TBL (flat_map snd segs)).
Proof. exact docx_table_wrapped_eq. Qed.
Print Assumptions C13_docx_table_wrapped_eq.

Theorem C13_docx_row_cells_wrapped : forall t a x l (segs : list (list str * list xml)),
  forallb (fun sg => okc W_TC (fst sg) && forallb (tag_is W_TC) (snd sg)) segs = true ->
  docx_through W_TC (Elem t a x (flat_map (fun sg => wrap_chain (fst sg) (snd sg)) segs) l) = flat_map snd segs.
Proof. exact docx_row_cells_wrapped. Qed.
Print Assumptions C13_docx_row_cells_wrapped.

(* a whole document inside a body-level wrapper chain: every table is returned *)
Theorem C13_docx_tables_body_wrapped : forall (chain : list str) (d : doc),
  chain <> [] -> okc W_TBL chain = true ->
  docx_tables (E W_BODY (wrap_chain chain (map docx_r_block d))) = spec_preorder d.
Proof. exact docx_tables_body_wrapped. Qed.
Print Assumptions C13_docx_tables_body_wrapped.

(* the walker before the fix lost them (closed witness, replayed by the check on the real code) *)
Theorem C13_docx_tables_direct_lost_wrapped :
  exists body, docx_tables_direct body = [] /\ docx_tables body = [[[s "in sdt"]]].
Proof. exact docx_tables_direct_lost_wrapped. Qed.
Print Assumptions C13_docx_tables_direct_lost_wrapped.

(* ---------------------------------------------------------------- XLSX sheet assembly, exact (no header hypothesis)
   _read_sheet_data + _is_table_name_row on a rectangular used range: every row below the first is ALWAYS
   in place with its converted values; the first row is replaced by header texts; it is dropped iff it has
   exactly one meaningful header and the sheet is wider than one column *)
Theorem C13_xlsx_sheet_exact : forall is_ws r0 rest c, (1 <= c)%nat -> x_rect c (r0 :: rest) = true ->
  x_last_row_has_data is_ws (r0 :: rest) = true -> x_last_col_has_data is_ws c (r0 :: rest) = true ->
  xlsx_sheet is_ws (r0 :: rest) =
    (let hs := map VStr (x_headers is_ws 0 r0) in
     if x_is_table_name_row is_ws hs then map (map x_cell_value) rest else hs :: map (map x_cell_value) rest).
Proof. exact xlsx_sheet_exact. Qed.
Print Assumptions C13_xlsx_sheet_exact.

Theorem C13_xlsx_body_rows_in_place : forall is_ws r0 rest c, (1 <= c)%nat -> x_rect c (r0 :: rest) = true ->
  x_last_row_has_data is_ws (r0 :: rest) = true -> x_last_col_has_data is_ws c (r0 :: rest) = true ->
  exists first, xlsx_sheet is_ws (r0 :: rest) = first ++ map (map x_cell_value) rest /\ (length first <= 1)%nat.
Proof. exact xlsx_body_rows_in_place. Qed.
Print Assumptions C13_xlsx_body_rows_in_place.

(* header cell j, exactly: a non-blank text is kept verbatim, a blank one becomes "Unnamed: j" *)
Theorem C13_xlsx_header_cell_kept : forall is_ws r0 j c0 t, nth_error r0 j = Some c0 -> xc_val c0 = VStr t -> xc_str c0 = t ->
  strip is_ws t <> [] -> nth_error (x_headers is_ws 0 r0) j = Some t.
Proof. exact xlsx_header_cell_kept. Qed.
Print Assumptions C13_xlsx_header_cell_kept.

Theorem C13_xlsx_header_cell_blank_renamed : forall is_ws r0 j c0 t, nth_error r0 j = Some c0 -> xc_val c0 = VStr t ->
  strip is_ws t = [] -> nth_error (x_headers is_ws 0 r0) j = Some (UNNAMED ++ dec_N (N.of_nat j)).
Proof. exact xlsx_header_cell_blank_renamed. Qed.
Print Assumptions C13_xlsx_header_cell_blank_renamed.

(* ---------------------------------------------------------------- DOCX anchors: the two parallel lists stay aligned *)
Theorem C13_docx_anchored_tables_are_tables : forall body, map fst (docx_tables_anchored body) = docx_tables body.
Proof. exact docx_anchored_tables_are_tables. Qed.
Print Assumptions C13_docx_anchored_tables_are_tables.

Theorem C13_docx_anchors_nonneg_monotone : forall body,
  zsorted (map snd (docx_tables_anchored body)) = true
  /\ forallb (fun a => (0 <=? a)%Z) (map snd (docx_tables_anchored body)) = true.
Proof. exact docx_anchors_nonneg_monotone. Qed.
Print Assumptions C13_docx_anchors_nonneg_monotone.

(* a table is anchored at max(0, paragraph blocks before it - 1); nested tables share their parent's anchor *)
Theorem C13_docx_anchors_render : forall d : doc, map snd (docx_tables_anchored (docx_r_body d)) = doc_anchor_spec 0 d.
Proof. exact docx_anchors_render. Qed.
Print Assumptions C13_docx_anchors_render.
