(* C13 — obligations re-decided by the kernel over the constants generated from the repo under
   test on this run (Gen/C13Tables.v). *)
From Coq Require Import ZArith List Bool.
From S2T Require Import Lib.PyStr C13.Model C13.Corr Gen.C13Tables.
Import ListNotations.
Open Scope N_scope.

(* every tag / attribute constant the model uses equals today's module constant *)
Theorem C13_live_tags_match : forallb (fun p => str_eqb (fst p) (snd p)) live_tags = true.
Proof. vm_compute. reflexivity. Qed.
Print Assumptions C13_live_tags_match.

Definition sorted_mem_eq (a b : list str) : bool :=
  forallb (fun x => mem_str x b) a && forallb (fun x => mem_str x a) b.

(* REMOVE_TAGS of html_extractor and epub_extractor are the model's set *)
Theorem C13_remove_tags_match :
  sorted_mem_eq live_remove_tags_html REMOVE_TAGS && sorted_mem_eq live_remove_tags_epub REMOVE_TAGS = true.
Proof. vm_compute. reflexivity. Qed.
Print Assumptions C13_remove_tags_match.

(* removable void elements of the EPUB state machine (nothing is skipped after them) *)
Theorem C13_void_remove_tags_match : sorted_mem_eq live_void_remove_tags_epub VOID_REMOVE_TAGS = true.
Proof. vm_compute. reflexivity. Qed.
Print Assumptions C13_void_remove_tags_match.

(* the skip set handed to element_text by the three ODF extractors is the one the correspondence uses *)
Theorem C13_odf_skip_tags_match :
  sorted_mem_eq live_ods_skip_tags ODF_SKIP && sorted_mem_eq live_odt_skip_tags ODT_SKIP
  && sorted_mem_eq live_odp_skip_tags ODF_SKIP = true.
Proof. vm_compute. reflexivity. Qed.
Print Assumptions C13_odf_skip_tags_match.

(* the closed refutation witnesses use ws_ascii: it is exactly Python's whitespace set below 128
   except the four separators 0x1c-0x1f, none of which occurs in a witness *)
Fixpoint upto (n : nat) : list N := match n with O => [] | S k => upto k ++ [N.of_nat k] end.
Theorem C13_ws_ascii_agrees :
  forallb (fun c => Bool.eqb (py_is_ws c) (ws_ascii c || ((28 <=? c) && (c <=? 31)))) (upto 128) = true.
Proof. vm_compute. reflexivity. Qed.
Print Assumptions C13_ws_ascii_agrees.

(* TEXT_SPAN (used by the renderers for runs) is not skipped by element_text *)
Theorem C13_span_not_skipped : mem_str TEXT_SPAN ODF_SKIP || mem_str TEXT_SPAN ODT_SKIP = false.
Proof. vm_compute. reflexivity. Qed.
Print Assumptions C13_span_not_skipped.
