(* C13 — obligations re-decided by the kernel over the constants generated from the repo under
   test on this run (Gen/C13Tables.v).  One file per obligation group (Inst*.v), so that one broken
   obligation does not mark the others. *)
From Coq Require Import ZArith List Bool.
From S2T Require Import Lib.PyStr C13.Model C13.Corr Gen.C13Tables.
Import ListNotations.
Open Scope N_scope.

(* every tag / attribute constant the model uses equals today's module constant *)
Theorem C13_live_tags_match : forallb (fun p => str_eqb (fst p) (snd p)) live_tags = true.
Proof. vm_compute. reflexivity. Qed.
Print Assumptions C13_live_tags_match.
