(* C13 — DOCX: the anchor paragraph index returned next to every table
   (_extract_tables_from_context returns two parallel lists; they stay aligned, anchors are
   non-negative and non-decreasing, and on rendered documents they are the number of paragraph
   blocks before the table, minus one, clipped at 0). *)
From Coq Require Import ZArith List Bool Lia ZifyBool.
From S2T Require Import Lib.PyStr C13.Model C13.ProofsRows C13.ProofsTree.
Import ListNotations.
Notation length := List.length.
Notation concat := List.concat.
Open Scope N_scope.

(* the per-child function of docx_tables *)
Definition docx_child_tables (ch : xml) : list (list (list str)) :=
  if tag_is W_TBL ch then map docx_table (iter_tag W_TBL ch)
  else if mem_str (xtag ch) DOCX_WRAPPERS
  then flat_map (fun top => map docx_table (iter_tag W_TBL top)) (docx_through W_TBL ch)
  else [].

Lemma docx_tables_children body : docx_tables body = flat_map docx_child_tables (xchildren body).
Proof. reflexivity. Qed.

Lemma para_child_no_tables ch : tag_is W_P ch = true -> docx_child_tables ch = [].
Proof.
  intro H. unfold tag_is in H. apply str_eqb_eq in H. unfold docx_child_tables, tag_is. rewrite H.
  replace (str_eqb W_P W_TBL) with false by (vm_compute; reflexivity).
  replace (mem_str W_P DOCX_WRAPPERS) with false by (vm_compute; reflexivity). reflexivity.
Qed.

(* A1 *)
Lemma docx_anchor_walk_fst cs : forall idx,
  map fst (docx_anchor_walk idx cs) = flat_map docx_child_tables cs.
Proof.
  induction cs as [|ch r IH]; intro idx; [reflexivity|].
  cbn [docx_anchor_walk flat_map]. destruct (tag_is W_P ch) eqn:HP.
  - rewrite (para_child_no_tables ch HP). apply IH.
  - cbv zeta. rewrite map_app, IH, map_map. cbn [fst]. f_equal.
    unfold docx_child_tables. destruct (tag_is W_TBL ch).
    + cbn [flat_map]. rewrite app_nil_r. reflexivity.
    + destruct (mem_str (xtag ch) DOCX_WRAPPERS); [|reflexivity].
      symmetry. apply flat_map_mapf.
Qed.

Theorem docx_anchored_tables_are_tables : forall body,
  map fst (docx_tables_anchored body) = docx_tables body.
Proof. intro body. unfold docx_tables_anchored. rewrite docx_anchor_walk_fst. reflexivity. Qed.

Corollary docx_anchored_same_length : forall body,
  length (map snd (docx_tables_anchored body)) = length (docx_tables body).
Proof. intro body. rewrite <- docx_anchored_tables_are_tables, !map_length. reflexivity. Qed.

(* A2 *)
Fixpoint zsorted (l : list Z) : bool :=
  match l with
  | a :: r => match r with b :: _ => (a <=? b)%Z && zsorted r | [] => true end
  | [] => true
  end.

Lemma zsorted_cons v m : forallb (Z.leb v) m = true -> zsorted m = true -> zsorted (v :: m) = true.
Proof.
  destruct m as [|b m]; [reflexivity|]. cbn [forallb]. intros H1 H2.
  apply andb_true_iff in H1 as [H1 _]. cbn [zsorted] in *. rewrite H1, H2. reflexivity.
Qed.

Lemma forallb_leb_weaken (u v : Z) l : (u <= v)%Z -> forallb (Z.leb v) l = true -> forallb (Z.leb u) l = true.
Proof.
  intro Huv. induction l as [|a l IH]; [reflexivity|]. cbn [forallb]. intro H.
  apply andb_true_iff in H as [H1 H2]. rewrite (IH H2), andb_true_r. lia.
Qed.

Lemma const_app_bounds {A} (v : Z) (X : list A) l :
  forallb (Z.leb v) l = true -> zsorted l = true ->
  forallb (Z.leb v) (map (fun _ => v) X ++ l) = true /\ zsorted (map (fun _ => v) X ++ l) = true.
Proof.
  intros H1 H2. induction X as [|x X [I1 I2]]; [auto|]. cbn [map app]. split.
  - cbn [forallb]. rewrite I1, Z.leb_refl. reflexivity.
  - apply zsorted_cons; assumption.
Qed.

Lemma docx_anchor_walk_bounds cs : forall idx,
  forallb (Z.leb (Z.max 0 idx)) (map snd (docx_anchor_walk idx cs)) = true
  /\ zsorted (map snd (docx_anchor_walk idx cs)) = true.
Proof.
  induction cs as [|ch r IH]; intro idx; [auto|].
  cbn [docx_anchor_walk]. destruct (tag_is W_P ch).
  - destruct (IH (idx + 1)%Z) as [I1 I2]. split; [|exact I2].
    apply (forallb_leb_weaken _ (Z.max 0 (idx + 1))); [lia | exact I1].
  - cbv zeta. destruct (IH idx) as [I1 I2]. rewrite map_app, map_map. cbn [snd].
    apply const_app_bounds; assumption.
Qed.

Theorem docx_anchors_nonneg_monotone : forall body,
  zsorted (map snd (docx_tables_anchored body)) = true
  /\ forallb (fun a => (0 <=? a)%Z) (map snd (docx_tables_anchored body)) = true.
Proof.
  intro body. unfold docx_tables_anchored.
  destruct (docx_anchor_walk_bounds (xchildren body) (-1)%Z) as [I1 I2]. split; [exact I2 | exact I1].
Qed.

(* A3 *)
Lemma map_const_repeat {A} (v : Z) (l : list A) : map (fun _ => v) l = repeat_list v (length l).
Proof. induction l; cbn [map length repeat_list]; congruence. Qed.

Lemma docx_anchor_walk_render d : forall seen,
  map snd (docx_anchor_walk (seen - 1) (map docx_r_block d)) = doc_anchor_spec seen d.
Proof.
  induction d as [|[p|g] d IH]; intro seen; [reflexivity| |];
    cbn [map docx_r_block docx_anchor_walk doc_anchor_spec].
  - replace (tag_is W_P (docx_r_para p)) with true by reflexivity.
    replace (seen - 1 + 1)%Z with (seen + 1 - 1)%Z by lia. apply IH.
  - replace (tag_is W_P (docx_r_table g)) with false by reflexivity.
    replace (tag_is W_TBL (docx_r_table g)) with true by reflexivity.
    cbv zeta. cbn [flat_map]. rewrite app_nil_r, dx_TBL_table, map_app, map_map. cbn [snd].
    rewrite IH, map_const_repeat. cbn [length]. rewrite map_length. reflexivity.
Qed.

Theorem docx_anchors_render : forall d,
  map snd (docx_tables_anchored (docx_r_body d)) = doc_anchor_spec 0 d.
Proof. intro d. unfold docx_tables_anchored, docx_r_body. rewrite xchildren_E. apply (docx_anchor_walk_render d 0%Z). Qed.

(* A4 *)
Example docx_anchor_witness :
  docx_tables_anchored
    (docx_r_body [BPara [s "p0"]; BPara [s "p1"]; BTable [[ [CPara [s "t1"]] ]];
                  BPara [s "p2"]; BTable [[ [CPara [s "t2"]] ]]])
  = [ ([[s "t1"]], 1%Z); ([[s "t2"]], 2%Z) ]
  /\ docx_tables_anchored (docx_r_body [BTable [[ [CPara [s "t0"]] ]]; BPara [s "p"]]) = [ ([[s "t0"]], 0%Z) ]
  /\ (* a nested table shares its parent's anchor *)
     map snd (docx_tables_anchored
       (docx_r_body [BPara [s "p0"]; BPara [s "p1"]; BPara [s "p2"];
                     BTable [[ [CPara [s "o"]; CTable [[ [[s "n"]] ]]] ]]])) = [2%Z; 2%Z].
Proof. repeat split; vm_compute; reflexivity. Qed.

Print Assumptions docx_anchored_tables_are_tables.
Print Assumptions docx_anchored_same_length.
Print Assumptions docx_anchors_nonneg_monotone.
Print Assumptions docx_anchors_render.
Print Assumptions docx_anchor_witness.
