(* C13 — REMOVE_TAGS / void removable tags of html_extractor and epub_extractor are the model's sets *)
From Coq Require Import ZArith List Bool.
From S2T Require Import Lib.PyStr C13.Model C13.Corr Gen.C13Tables.
Import ListNotations.
Open Scope N_scope.
Definition sorted_mem_eq (a b : list str) : bool :=
  forallb (fun x => mem_str x b) a && forallb (fun x => mem_str x a) b.

Theorem C13_remove_tags_match :
  sorted_mem_eq live_remove_tags_html REMOVE_TAGS && sorted_mem_eq live_remove_tags_epub REMOVE_TAGS = true.
Proof. vm_compute. reflexivity. Qed.
Print Assumptions C13_remove_tags_match.

Theorem C13_void_remove_tags_match : sorted_mem_eq live_void_remove_tags_epub VOID_REMOVE_TAGS = true.
Proof. vm_compute. reflexivity. Qed.
Print Assumptions C13_void_remove_tags_match.
