(* C13 — collect_through: leaves found through (nested) wrappers, in document order. *)
From Coq Require Import ZArith List Bool Lia.
From S2T Require Import Lib.PyStr C13.Model.
Import ListNotations.
Notation length := List.length.
Notation concat := List.concat.

Section Collect.
Variables (leaf : str) (wr : list str).

Definition collect_child (c : xml) : list xml :=
  if tag_is leaf c then [c] else if mem_str (xtag c) wr then collect_through leaf wr c else [].

Lemma collect_through_unfold t a x cs l :
  collect_through leaf wr (Elem t a x cs l) = flat_map collect_child cs.
Proof.
  cbn [collect_through]. induction cs as [|c r IH]; [reflexivity|].
  cbn [flat_map]. rewrite <- IH. reflexivity.
Qed.

(* children that are all leaves: exactly the children *)
Lemma collect_all_leaves t a x cs l :
  forallb (tag_is leaf) cs = true -> collect_through leaf wr (Elem t a x cs l) = cs.
Proof.
  rewrite collect_through_unfold. induction cs as [|c r IH]; intro H; [reflexivity|].
  cbn [forallb] in H. apply andb_true_iff in H as [Hc Hr]. cbn [flat_map]. unfold collect_child at 1.
  rewrite Hc. cbn [app]. f_equal. exact (IH Hr).
Qed.

(* a run of leaves, wrapped in a chain of wrappers (outermost first; [] = not wrapped) *)
Fixpoint wrap_chain (chain : list str) (leaves : list xml) : list xml :=
  match chain with [] => leaves | w :: ch => [E w (wrap_chain ch leaves)] end.

Definition chain_ok (chain : list str) : bool :=
  forallb (fun w => mem_str w wr && negb (str_eqb w leaf)) chain.

Lemma collect_wrap_chain chain leaves :
  chain_ok chain = true -> forallb (tag_is leaf) leaves = true ->
  flat_map collect_child (wrap_chain chain leaves) = leaves.
Proof.
  induction chain as [|w ch IH]; intros Hc Hl.
  - cbn [wrap_chain]. rewrite <- (collect_through_unfold [] [] [] leaves []). apply collect_all_leaves, Hl.
  - cbn [chain_ok forallb] in Hc. apply andb_true_iff in Hc as [Hw Hch]. apply andb_true_iff in Hw as [Hm Hn].
    cbn [wrap_chain flat_map]. rewrite app_nil_r. unfold collect_child at 1. unfold tag_is, E. cbn [xtag].
    apply negb_true_iff in Hn. rewrite Hn, Hm. rewrite collect_through_unfold. apply IH; assumption.
Qed.

(* any sequence of such runs under one parent: all leaves, document order *)
Theorem collect_through_segments t a x l (segs : list (list str * list xml)) :
  forallb (fun sg => chain_ok (fst sg) && forallb (tag_is leaf) (snd sg)) segs = true ->
  collect_through leaf wr (Elem t a x (flat_map (fun sg => wrap_chain (fst sg) (snd sg)) segs) l)
  = flat_map snd segs.
Proof.
  rewrite collect_through_unfold. induction segs as [|[ch lv] r IH]; intro H; [reflexivity|].
  cbn [forallb fst snd] in H. apply andb_true_iff in H as [H1 H2]. apply andb_true_iff in H1 as [Hc Hl].
  cbn [flat_map fst snd]. rewrite flat_map_app. rewrite (collect_wrap_chain ch lv Hc Hl). f_equal. exact (IH H2).
Qed.

(* elements that are neither leaf nor wrapper contribute nothing (their content is not entered) *)
Lemma collect_child_other c : tag_is leaf c = false -> mem_str (xtag c) wr = false -> collect_child c = [].
Proof. intros H1 H2. unfold collect_child. rewrite H1, H2. reflexivity. Qed.
End Collect.

(* the three ODF row wrappers are admissible chains for table rows *)
Example row_wrappers_chain_ok :
  chain_ok TABLE_ROW ROW_WRAPPERS [s "table:table-row-group"; s "table:table-row-group"; s "table:table-rows"] = true
  /\ chain_ok TABLE_ROW ROW_WRAPPERS [s "table:table-header-rows"] = true
  /\ chain_ok DRAW_FRAME [DRAW_G] [DRAW_G; DRAW_G] = true.
Proof. repeat split; vm_compute; reflexivity. Qed.

(* the walkers depend on the table element only through its rows *)
Lemma ods_sheet_rows_ext pint pflt t1 t2 : table_rows t1 = table_rows t2 -> ods_sheet pint pflt t1 = ods_sheet pint pflt t2.
Proof. intro H. unfold ods_sheet. rewrite H. reflexivity. Qed.
Lemma odp_table_rows_ext pint skip t1 t2 : table_rows t1 = table_rows t2 -> odp_table pint skip t1 = odp_table pint skip t2.
Proof. intro H. unfold odp_table. rewrite H. reflexivity. Qed.

(* wrapped rows: same sheet / table as with the rows as direct children *)
Theorem ods_sheet_wrapped pint pflt (segs : list (list str * list xml)) :
  forallb (fun sg => chain_ok TABLE_ROW ROW_WRAPPERS (fst sg) && forallb (tag_is TABLE_ROW) (snd sg)) segs = true ->
  ods_sheet pint pflt (E TABLE_TABLE (flat_map (fun sg => wrap_chain (fst sg) (snd sg)) segs))
  = ods_sheet pint pflt (E TABLE_TABLE (flat_map snd segs)).
Proof.
  intro H. apply ods_sheet_rows_ext. unfold table_rows, E.
  rewrite (collect_through_segments _ _ _ _ _ _ segs H).
  symmetry. apply collect_all_leaves.
  induction segs as [|[ch lv] r IH]; [reflexivity|].
  cbn [forallb fst snd] in H. apply andb_true_iff in H as [H1 H2]. apply andb_true_iff in H1 as [_ Hl].
  cbn [flat_map snd]. rewrite forallb_app, Hl. exact (IH H2).
Qed.

Theorem odp_table_wrapped pint skip (segs : list (list str * list xml)) :
  forallb (fun sg => chain_ok TABLE_ROW ROW_WRAPPERS (fst sg) && forallb (tag_is TABLE_ROW) (snd sg)) segs = true ->
  odp_table pint skip (E TABLE_TABLE (flat_map (fun sg => wrap_chain (fst sg) (snd sg)) segs))
  = odp_table pint skip (E TABLE_TABLE (flat_map snd segs)).
Proof.
  intro H. apply odp_table_rows_ext. unfold table_rows, E.
  rewrite (collect_through_segments _ _ _ _ _ _ segs H).
  symmetry. apply collect_all_leaves.
  induction segs as [|[ch lv] r IH]; [reflexivity|].
  cbn [forallb fst snd] in H. apply andb_true_iff in H as [H1 H2]. apply andb_true_iff in H1 as [_ Hl].
  cbn [flat_map snd]. rewrite forallb_app, Hl. exact (IH H2).
Qed.

(* frames of a page: found through nested draw:g groups, document order *)
Theorem slide_frames_groups t a x l (segs : list (list str * list xml)) :
  forallb (fun sg => chain_ok DRAW_FRAME [DRAW_G] (fst sg) && forallb (tag_is DRAW_FRAME) (snd sg)) segs = true ->
  slide_frames (Elem t a x (flat_map (fun sg => wrap_chain (fst sg) (snd sg)) segs) l) = flat_map snd segs.
Proof. apply collect_through_segments. Qed.

(* before fix aa77d43 the wrapped rows were dropped (closed witness) *)
Example ods_wrapped_rows_dropped_before_fix :
  let row t := E TABLE_ROW [Elem TABLE_CELL [(ATTR_VALUE_TYPE, s "string")] [] [ET TEXT_P t] []] in
  let sheet := E TABLE_TABLE [E (s "table:table-header-rows") [row (s "h")]; row (s "a"); E (s "table:table-row-group") [row (s "c")]] in
  ods_sheet_direct_rows (fun _ => Some 1%Z) (fun _ => FValErr) sheet = Some [[VStr (s "a")]]
  /\ ods_sheet (fun _ => Some 1%Z) (fun _ => FValErr) sheet = Some [[VStr (s "h")]; [VStr (s "a")]; [VStr (s "c")]].
Proof. split; vm_compute; reflexivity. Qed.
