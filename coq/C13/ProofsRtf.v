(* C13 / RTF — rtf_extractor._extract_tables: round trip of rendered tables with plain cells, and the
   refutation of the round trip for adjacent tables (rows closer than 100 characters, or separated
   by at most 20 characters of text, are merged into one table). *)
From Coq Require Import ZArith List Bool Lia ZifyBool.
From S2T Require Import Lib.PyStr C13.Model.
Import ListNotations.
Notation length := List.length.
Notation concat := List.concat.
Local Open Scope nat_scope.

(* ------------------------------------------------------------------ definitions *)
Definition wd_ascii (c : N) : bool := is_alpha c || is_digit c || (c =? 95)%N.

Definition plain_char (is_ws : N -> bool) (c : N) : bool :=
  negb (c =? 92)%N && negb (c =? 123)%N && negb (c =? 125)%N
  && (negb (is_ws c) || (c =? 32)%N) && negb (is_high c) && negb (is_low c).

Fixpoint no_dbl_sp (x : str) : bool :=
  match x with
  | c :: r => negb ((c =? 32)%N && match r with d :: _ => (d =? 32)%N | [] => false end) && no_dbl_sp r
  | [] => true
  end.

Definition no_edge_sp (x : str) : bool := match x with c :: _ => negb (c =? 32)%N | [] => true end.

(* no suffix starts with 64 or more hex digits *)
Fixpoint no_run (p : N -> bool) (lo : nat) (x : str) : bool :=
  match x with [] => true | c :: r => Nat.ltb (span_len p x) lo && no_run p lo r end.

Definition rtf_plain (is_ws : N -> bool) (t : str) : bool :=
  forallb (plain_char is_ws) t && no_dbl_sp t && no_edge_sp t && no_edge_sp (rev t) && no_run is_hex 64 t.

Definition rtf_doc_tables (d : list rblock) : list (list (list str)) :=
  flat_map (fun b => match b with RTable g => [g] | RPara _ => [] end) d.

Definition rtf_doc_plain (is_ws : N -> bool) (d : list rblock) : bool :=
  forallb (fun b => match b with RTable g => forallb (forallb (rtf_plain is_ws)) g | RPara t => rtf_plain is_ws t end) d.

(* ------------------------------------------------------------------ R5: closed witnesses *)
Example rtf_plain_nonvacuous : rtf_plain ws_ascii (s "a b") = true.
Proof. vm_compute. reflexivity. Qed.

Example rtf_adjacent_witness :
  rtf_tables ws_ascii wd_ascii (rtf_r_doc [RTable [[s "a"; s "b"]]; RPara (s "Table 2"); RTable [[s "c"; s "d"]]])
  = [[[s "a"; s "b"]; [s "c"; s "d"]]].
Proof. vm_compute. reflexivity. Qed.

Example rtf_adjacent_direct_witness :
  rtf_tables ws_ascii wd_ascii (rtf_r_doc [RTable [[s "a"]]; RTable [[s "c"]]]) = [[[s "a"]; [s "c"]]].
Proof. vm_compute. reflexivity. Qed.

Example rtf_single_witness :
  rtf_tables ws_ascii wd_ascii (rtf_r_doc [RPara (s "Intro"); RTable [[s "a b"; s "c"]; [s "d"; s "e"]]; RPara (s "End")])
  = [[[s "a b"; s "c"]; [s "d"; s "e"]]].
Proof. vm_compute. reflexivity. Qed.

Example rtf_long_separator_witness :
  rtf_tables ws_ascii wd_ascii
    (rtf_r_doc [RTable [[s "a"; s "b"]]; RPara (repeat_list 97%N 95); RTable [[s "c"; s "d"]]])
  = [[[s "a"; s "b"]]; [[s "c"; s "d"]]].
Proof. vm_compute. reflexivity. Qed.

Theorem rtf_adjacent_tables_merged_refuted :
  exists d : list rblock,
    rtf_doc_plain ws_ascii d = true /\ rtf_tables ws_ascii wd_ascii (rtf_r_doc d) <> rtf_doc_tables d.
Proof.
  exists [RTable [[s "a"; s "b"]]; RPara (s "Table 2"); RTable [[s "c"; s "d"]]].
  split; [vm_compute; reflexivity|].
  rewrite rtf_adjacent_witness. vm_compute. discriminate.
Qed.

(* ------------------------------------------------------------------ R6: padding *)
Lemma repeat_list_length {A} (x : A) n : length (repeat_list x n) = n.
Proof. induction n as [|n IH]; [reflexivity|]. cbn [repeat_list length]. rewrite IH. reflexivity. Qed.

Lemma max_len_cons {A} (r : list A) g : max_len (r :: g) = Nat.max (length r) (max_len g).
Proof. reflexivity. Qed.

Lemma max_len_ge {A} (g : list (list A)) r : In r g -> length r <= max_len g.
Proof.
  induction g as [|r0 g IH]; [intros []|]. rewrite max_len_cons. intros [->|H]; [lia|].
  specialize (IH H). lia.
Qed.

Lemma max_len_const {A} (g : list (list A)) w :
  (forall r, In r g -> length r = w) -> g <> [] -> max_len g = w.
Proof.
  induction g as [|r g IH]; [congruence|]. intros H _. rewrite max_len_cons.
  rewrite (H r (or_introl eq_refl)). destruct g as [|r' g].
  - cbn. lia.
  - rewrite IH; [lia | intros x Hx; apply H; right; exact Hx | discriminate].
Qed.

Lemma pad_row_length (r : list str) w : length r <= w -> length (r ++ repeat_list [] (w - length r)) = w.
Proof. intro H. rewrite app_length, repeat_list_length. lia. Qed.

Lemma rtf_pad_rows_lengths g r : In r (rtf_pad_rows g) -> length r = max_len g.
Proof.
  unfold rtf_pad_rows. intro H. apply in_map_iff in H as [r0 [<- H0]].
  apply pad_row_length, max_len_ge, H0.
Qed.

Lemma rtf_pad_rows_length g : length (rtf_pad_rows g) = length g.
Proof. unfold rtf_pad_rows. apply map_length. Qed.

Lemma rtf_pad_rows_max_len g : max_len (rtf_pad_rows g) = max_len g.
Proof.
  destruct g as [|r g]; [reflexivity|].
  apply max_len_const; [apply rtf_pad_rows_lengths|]. unfold rtf_pad_rows. cbn [map]. discriminate.
Qed.

Theorem rtf_pad_rows_rect : forall g, forallb (fun r => Nat.eqb (length r) (max_len g)) (rtf_pad_rows g) = true.
Proof.
  intro g. apply forallb_forall. intros r H. apply Nat.eqb_eq, rtf_pad_rows_lengths, H.
Qed.

Theorem rtf_get_dim : forall g, data_get_dim (rtf_pad_rows g) = (length g, max_len g).
Proof. intro g. unfold data_get_dim. rewrite rtf_pad_rows_length, rtf_pad_rows_max_len. reflexivity. Qed.

Theorem rtf_pad_rows_id : forall g c, forallb (fun r => Nat.eqb (length r) c) g = true -> rtf_pad_rows g = g.
Proof.
  intros g c H. destruct g as [|r0 g0]; [reflexivity|]. set (g := r0 :: g0) in *.
  assert (Hw : max_len g = c).
  { apply max_len_const; [|discriminate]. intros r Hr. apply Nat.eqb_eq. revert r Hr. apply forallb_forall, H. }
  unfold rtf_pad_rows. rewrite Hw. rewrite <- (map_id g) at 2. apply map_ext_in. intros r Hr. cbv beta. unfold id.
  unfold str in *.
  assert (E : length r = c) by (apply Nat.eqb_eq; revert r Hr; apply forallb_forall, H).
  rewrite E, Nat.sub_diag. apply app_nil_r.
Qed.

(* ------------------------------------------------------------------ generic lemmas *)
Definition nobs (c : N) : bool := negb (c =? 92)%N.

Lemma forallb_impl {A} (p q : A -> bool) l :
  (forall x, p x = true -> q x = true) -> forallb p l = true -> forallb q l = true.
Proof.
  intros H. induction l as [|x l IH]; [reflexivity|]. cbn [forallb]. intro E.
  apply andb_true_iff in E as [E1 E2]. rewrite (H _ E1), (IH E2). reflexivity.
Qed.

Lemma forallb_rev {A} (p : A -> bool) l : forallb p l = true -> forallb p (rev l) = true.
Proof.
  intro H. apply forallb_forall. intros x Hx. apply in_rev in Hx. revert x Hx. apply forallb_forall, H.
Qed.

Lemma filter_all {A} (f : A -> bool) l : forallb f l = true -> filter f l = l.
Proof.
  induction l as [|x l IH]; [reflexivity|]. cbn [forallb filter]. intro H.
  apply andb_true_iff in H as [H1 H2]. rewrite H1, (IH H2). reflexivity.
Qed.

Lemma skipn_len_app {A} (p y : list A) : skipn (length p) (p ++ y) = y.
Proof. induction p as [|c p IH]; [reflexivity|]. exact IH. Qed.

Lemma firstn_len_app {A} (p y : list A) : firstn (length p) (p ++ y) = p.
Proof. induction p as [|c p IH]; [reflexivity|]. cbn [length app firstn]. rewrite IH. reflexivity. Qed.

Lemma startswith_self p y : startswith (p ++ y) p = true.
Proof. apply startswith_app. exists y. reflexivity. Qed.

(* suffix predicate: P holds of every non-empty suffix of x *)
Fixpoint all_suffixes (P : str -> Prop) (x : str) : Prop :=
  match x with [] => True | c :: r => P x /\ all_suffixes P r end.

(* R1 *)
Lemma re_sub_no_match (m : matcher) x : all_suffixes (fun y => m y = None) x -> re_sub m 0 x = x.
Proof.
  induction x as [|c r IH]; [reflexivity|]. cbn [all_suffixes re_sub]. intros [H1 H2].
  rewrite H1, (IH H2). reflexivity.
Qed.

Lemma all_suffixes_head (m : matcher) (q : N -> bool) x :
  (forall c r, q c = true -> m (c :: r) = None) -> forallb q x = true ->
  all_suffixes (fun y => m y = None) x.
Proof.
  intro H. induction x as [|c r IH]; [constructor|]. cbn [forallb all_suffixes]. intro E.
  apply andb_true_iff in E as [E1 E2]. split; [apply H, E1 | apply IH, E2].
Qed.

Lemma re_sub_head_none (m : matcher) (q : N -> bool) x :
  (forall c r, q c = true -> m (c :: r) = None) -> forallb q x = true -> re_sub m 0 x = x.
Proof. intros H E. apply re_sub_no_match, (all_suffixes_head m q); assumption. Qed.

Lemma re_sub_head_none_app (m : matcher) (q : N -> bool) p y :
  (forall c r, q c = true -> m (c :: r) = None) -> forallb q p = true ->
  re_sub m 0 (p ++ y) = p ++ re_sub m 0 y.
Proof.
  intro H. induction p as [|c p IH]; [reflexivity|]. cbn [forallb app re_sub]. intro E.
  apply andb_true_iff in E as [E1 E2]. rewrite (H _ _ E1), (IH E2). reflexivity.
Qed.

Lemma re_sub_skip (m : matcher) p y : re_sub m (length p) (p ++ y) = re_sub m 0 y.
Proof. induction p as [|c p IH]; [reflexivity|]. exact IH. Qed.

(* every backslash of x is followed by a, b *)
Fixpoint bs2 (a b : N) (x : str) : bool :=
  match x with
  | [] => true
  | c :: r => (nobs c || match r with a' :: b' :: _ => (a' =? a)%N && (b' =? b)%N | _ => false end) && bs2 a b r
  end.

Lemma bs2_app_nobs a b p y : forallb nobs p = true -> bs2 a b (p ++ y) = bs2 a b y.
Proof.
  induction p as [|c p IH]; [reflexivity|]. cbn [forallb app bs2]. intro E.
  apply andb_true_iff in E as [E1 E2]. rewrite E1, (IH E2). reflexivity.
Qed.

Lemma bs2_nobs a b x : forallb nobs x = true -> bs2 a b x = true.
Proof. intro H. rewrite <- (app_nil_r x), bs2_app_nobs by exact H. reflexivity. Qed.

Lemma re_sub_bs2 (m : matcher) a b x :
  (forall c r, nobs c = true -> m (c :: r) = None) ->
  (forall z, m (92%N :: a :: b :: z) = None) ->
  bs2 a b x = true -> re_sub m 0 x = x.
Proof.
  intros Hn Hm H. apply re_sub_no_match. induction x as [|c r IH]; [constructor|].
  cbn [bs2] in H. apply andb_true_iff in H as [H1 H2]. cbn [all_suffixes]. split; [|apply IH, H2].
  destruct (nobs c) eqn:Ec; [apply Hn, Ec|]. cbn [orb] in H1.
  unfold nobs in Ec. apply negb_false_iff, N.eqb_eq in Ec. subst c.
  destruct r as [|a' [|b' z]]; try discriminate. apply andb_true_iff in H1 as [Ea Eb].
  apply N.eqb_eq in Ea, Eb. subst. apply Hm.
Qed.

(* m_run without a long enough run *)
Lemma re_sub_no_run p lo rep x : no_run p lo x = true -> re_sub (m_run p lo rep) 0 x = x.
Proof.
  intro H. apply re_sub_no_match. induction x as [|c r IH]; [constructor|].
  cbn [no_run] in H. apply andb_true_iff in H as [H1 H2]. split; [|apply IH, H2].
  unfold m_run. apply Nat.ltb_lt in H1.
  destruct (Nat.leb lo (span_len p (c :: r))) eqn:E; [apply Nat.leb_le in E; lia | reflexivity].
Qed.

Lemma span_len_head_false p c r : p c = false -> span_len p (c :: r) = 0.
Proof. intro H. cbn [span_len]. rewrite H. reflexivity. Qed.

Lemma no_run_app_none p lo t y :
  0 < lo -> forallb (fun c => negb (p c)) t = true -> no_run p lo (t ++ y) = no_run p lo y.
Proof.
  intros Hlo. induction t as [|c t IH]; [reflexivity|]. cbn [forallb app]. intro E.
  apply andb_true_iff in E as [E1 E2]. apply negb_true_iff in E1. cbn [no_run].
  rewrite (span_len_head_false p c _ E1), (IH E2).
  assert (Nat.ltb 0 lo = true) as -> by (apply Nat.ltb_lt; exact Hlo). reflexivity.
Qed.

Lemma no_run_none p lo t : 0 < lo -> forallb (fun c => negb (p c)) t = true -> no_run p lo t = true.
Proof. intros Hlo H. rewrite <- (app_nil_r t), no_run_app_none by assumption. reflexivity. Qed.

(* runs of length one of the character 32 are replaced by themselves *)
Fixpoint run1 (p : N -> bool) (x : str) : bool :=
  match x with
  | [] => true
  | c :: r => (negb (p c) || ((c =? 32)%N && match r with d :: _ => negb (p d) | [] => true end)) && run1 p r
  end.

Lemma re_sub_run1 p x : run1 p x = true -> re_sub (m_run p 1 [32%N]) 0 x = x.
Proof.
  induction x as [|c r IH]; [reflexivity|]. cbn [run1]. intro H.
  apply andb_true_iff in H as [H1 H2]. cbn [re_sub]. unfold m_run at 1. cbn [span_len].
  destruct (p c) eqn:Ec.
  - cbn [negb orb] in H1. apply andb_true_iff in H1 as [Hc Hd]. apply N.eqb_eq in Hc. subst c.
    assert (span_len p r = 0) as ->.
    { destruct r as [|d r]; [reflexivity|]. apply negb_true_iff in Hd. apply span_len_head_false, Hd. }
    cbn [Nat.leb andb pred app]. rewrite (IH H2). reflexivity.
  - cbn [Nat.leb andb]. rewrite (IH H2). reflexivity.
Qed.

Lemma run1_app_single p t d : run1 p t = true -> p d = false -> run1 p (t ++ [d]) = true.
Proof.
  intros H Hd. induction t as [|c t IH]; [cbn; rewrite Hd; reflexivity|].
  cbn [run1 app] in *. apply andb_true_iff in H as [H1 H2]. rewrite (IH H2), andb_true_r.
  destruct t as [|e t]; [|exact H1]. cbn [app]. rewrite Hd. cbn [negb]. destruct (p c); cbn in *; [|reflexivity].
  rewrite andb_true_r in *. exact H1.
Qed.

(* ------------------------------------------------------------------ matchers on a head that is not a backslash *)
Lemma m_unicode_nobs c r : nobs c = true -> m_unicode (c :: r) = None.
Proof.
  unfold nobs. intro H. apply negb_true_iff in H. unfold m_unicode, BS. destruct r; [reflexivity|].
  rewrite H. reflexivity.
Qed.

Lemma m_hex_escape_nobs c r : nobs c = true -> m_hex_escape (c :: r) = None.
Proof.
  unfold nobs. intro H. apply negb_true_iff in H. unfold m_hex_escape, BS.
  destruct r as [|q [|h1 [|h2 r]]]; try reflexivity. rewrite H. reflexivity.
Qed.

Lemma m_special_nobs is_ws kw ch c r : nobs c = true -> m_special is_ws kw ch (c :: r) = None.
Proof. unfold nobs. intro H. apply negb_true_iff in H. unfold m_special, BS. rewrite H. reflexivity. Qed.

Lemma m_control_nobs is_ws c r : nobs c = true -> m_control is_ws (c :: r) = None.
Proof. unfold nobs. intro H. apply negb_true_iff in H. unfold m_control, BS. rewrite H. reflexivity. Qed.

Lemma m_word_b_nobs w kw c r : nobs c = true -> m_word_b w kw (c :: r) = None.
Proof. unfold nobs. intro H. apply negb_true_iff in H. unfold m_word_b, BS. rewrite H. reflexivity. Qed.

Definition nosurr (c : N) : bool := negb (is_high c) && negb (is_low c).
Lemma m_surrogate_nosurr c r : nosurr c = true -> m_surrogate (c :: r) = None.
Proof.
  unfold nosurr. intro H. apply andb_true_iff in H as [H1 H2]. apply negb_true_iff in H1, H2.
  unfold m_surrogate. rewrite H1, H2. reflexivity.
Qed.

Lemma m_special_miss is_ws kw ch r : startswith r kw = false -> m_special is_ws kw ch (92%N :: r) = None.
Proof. intro H. unfold m_special. rewrite H, andb_false_r. reflexivity. Qed.

Lemma m_word_b_miss w kw r : startswith r kw = false -> m_word_b w kw (92%N :: r) = None.
Proof. intro H. unfold m_word_b. rewrite H, andb_false_r. reflexivity. Qed.

Lemma m_word_b_hit w kw d y : w d = false -> m_word_b w kw (92%N :: kw ++ d :: y) = Some ([], S (length kw)).
Proof.
  intro H. unfold m_word_b. rewrite startswith_self, skipn_len_app, H. reflexivity.
Qed.

(* keyword that cannot start a text beginning with a, b *)
Definition miss2 (a b : N) (kw : str) : bool :=
  match kw with
  | k :: rest => negb (k =? a)%N || match rest with k2 :: _ => negb (k2 =? b)%N | [] => false end
  | [] => false
  end.

Lemma miss2_sound a b kw z : miss2 a b kw = true -> startswith (a :: b :: z) kw = false.
Proof.
  destruct kw as [|k rest]; [discriminate|]. cbn [miss2 startswith]. intro H.
  destruct (k =? a)%N eqn:E; [|reflexivity]. cbn [negb orb andb] in *.
  destruct rest as [|k2 rest]; [discriminate|]. cbn [startswith]. apply negb_true_iff in H. rewrite H. reflexivity.
Qed.

Lemma specials_miss_tr : forallb (fun kc => miss2 116 114 (fst kc)) RTF_SPECIAL_CHARS = true.
Proof. vm_compute. reflexivity. Qed.

Definition specials_tail : list (str * N) := tl RTF_SPECIAL_CHARS.
Lemma specials_split : RTF_SPECIAL_CHARS = ([112; 97; 114]%N, 10%N) :: specials_tail.
Proof. reflexivity. Qed.
Lemma specials_tail_miss_pa : forallb (fun kc => miss2 112 97 (fst kc)) specials_tail = true.
Proof. vm_compute. reflexivity. Qed.

Lemma fold_specials_id is_ws (L : list (str * N)) x :
  (forall kc, In kc L -> re_sub (m_special is_ws (fst kc) (snd kc)) 0 x = x) ->
  fold_left (fun acc kc => re_sub (m_special is_ws (fst kc) (snd kc)) 0 acc) L x = x.
Proof.
  induction L as [|kc L IH]; [reflexivity|]. intro H. cbn [fold_left].
  rewrite (H kc (or_introl eq_refl)). apply IH. intros kc' Hk. apply H. right. exact Hk.
Qed.

Lemma fold_specials_bs2 is_ws (L : list (str * N)) a b x :
  forallb (fun kc => miss2 a b (fst kc)) L = true -> bs2 a b x = true ->
  fold_left (fun acc kc => re_sub (m_special is_ws (fst kc) (snd kc)) 0 acc) L x = x.
Proof.
  intros HL Hx. apply fold_specials_id. intros kc Hk. apply (re_sub_bs2 _ a b); [| |exact Hx].
  - apply m_special_nobs.
  - intro z. apply m_special_miss, miss2_sound.
    revert kc Hk. apply (proj1 (forallb_forall _ _)). exact HL.
Qed.

Lemma remove_ignorable_nolbr x : forallb (fun c => negb (c =? 123)%N) x = true -> remove_ignorable 0 x = x.
Proof.
  induction x as [|c r IH]; [reflexivity|]. cbn [forallb remove_ignorable]. intro E.
  apply andb_true_iff in E as [E1 E2]. apply negb_true_iff in E1. unfold LBR. rewrite E1, (IH E2). reflexivity.
Qed.

Lemma skipn_In {A} n (x : list A) c r : skipn n x = c :: r -> In c x.
Proof.
  revert x. induction n as [|n IH]; intros x H; [cbn in H; subst; left; reflexivity|].
  destruct x as [|d x]; [discriminate|]. right. apply IH. exact H.
Qed.

Lemma m_cell_newline_none x : forallb (fun c => negb (c =? 10)%N) x = true ->
  all_suffixes (fun y => m_cell_newline y = None) x.
Proof.
  assert (G : forall y, forallb (fun c => negb (c =? 10)%N) y = true -> m_cell_newline y = None).
  { intros y H. unfold m_cell_newline. destruct (skipn (span_len (N.eqb 32) y) y) as [|c r] eqn:E; [reflexivity|].
    apply skipn_In in E. assert (Hc := proj1 (forallb_forall _ _) H c E). apply negb_true_iff in Hc.
    rewrite Hc. reflexivity. }
  induction x as [|c r IH]; [constructor|]. intro H. split; [apply G, H|].
  cbn [forallb] in H. apply andb_true_iff in H as [_ H]. apply IH, H.
Qed.

(* ------------------------------------------------------------------ the section: oracles *)
Definition K_trowd : str := [116; 114; 111; 119; 100]%N.
Definition K_row : str := [114; 111; 119]%N.
Definition K_cell : str := [99; 101; 108; 108]%N.
Definition K_pard : str := [112; 97; 114; 100]%N.
Definition K_par : str := [112; 97; 114]%N.

Section Rtf.
Variables is_ws is_word : N -> bool.
Hypothesis ws32 : is_ws 32 = true.
Hypothesis ws9 : is_ws 9 = true.
Hypothesis ws10 : is_ws 10 = true.
Hypothesis ws11 : is_ws 11 = true.
Hypothesis ws12 : is_ws 12 = true.
Hypothesis ws100 : is_ws 100 = false.
Hypothesis wd32 : is_word 32 = false.
Hypothesis wd92 : is_word 92 = false.
Hypothesis wd10 : is_word 10 = false.

Ltac slia := clear ws32 ws9 ws10 ws11 ws12 ws100 wd32 wd92 wd10; lia.
Notation plain := (rtf_plain is_ws).
Notation pchar := (plain_char is_ws).

Lemma plain_parts t : plain t = true ->
  forallb pchar t = true /\ no_dbl_sp t = true /\ no_edge_sp t = true /\ no_edge_sp (rev t) = true
  /\ no_run is_hex 64 t = true.
Proof.
  unfold rtf_plain. intro H. repeat (apply andb_true_iff in H as [H ?]). auto.
Qed.

Lemma pchar_parts c : pchar c = true ->
  nobs c = true /\ (c =? 123)%N = false /\ (c =? 125)%N = false /\ (is_ws c = true -> c = 32%N) /\ nosurr c = true.
Proof.
  unfold plain_char, nobs, nosurr. intro H. repeat (apply andb_true_iff in H as [H ?]).
  repeat split; try (apply negb_true_iff; assumption); try assumption.
  - intro W. rewrite W in *. cbn in *. apply N.eqb_eq. assumption.
  - apply andb_true_iff. split; assumption.
Qed.

Lemma pchars_nobs t : forallb pchar t = true -> forallb nobs t = true.
Proof. apply forallb_impl. intros c H. apply pchar_parts in H. tauto. Qed.
Lemma pchars_nolbr t : forallb pchar t = true -> forallb (fun c => negb (c =? 123)%N) t = true.
Proof. apply forallb_impl. intros c H. apply pchar_parts in H as (_ & H & _). rewrite H. reflexivity. Qed.
Lemma pchars_nobrace t : forallb pchar t = true -> forallb (fun c => negb (is_brace c)) t = true.
Proof.
  apply forallb_impl. intros c H. apply pchar_parts in H as (_ & H1 & H2 & _).
  unfold is_brace, LBR, RBR. rewrite H1, H2. reflexivity.
Qed.
Lemma pchars_nosurr t : forallb pchar t = true -> forallb nosurr t = true.
Proof. apply forallb_impl. intros c H. apply pchar_parts in H. tauto. Qed.
Lemma pchars_not p t : (forall c, p c = true -> is_ws c = true) -> p 32%N = false ->
  forallb pchar t = true -> forallb (fun c => negb (p c)) t = true.
Proof.
  intros Hp H32. apply forallb_impl. intros c H. apply pchar_parts in H as (_ & _ & _ & H & _).
  destruct (p c) eqn:E; [|reflexivity]. rewrite (H (Hp _ E)) in E. congruence.
Qed.

Lemma is_nl_ws c : is_nl c = true -> is_ws c = true.
Proof. unfold is_nl. intro H. apply N.eqb_eq in H. subst. exact ws10. Qed.
Lemma is_sp_tab_ws c : is_sp_tab c = true -> is_ws c = true.
Proof. unfold is_sp_tab. intro H. apply orb_true_iff in H as [H|H]; apply N.eqb_eq in H; subst; assumption. Qed.
Lemma is_cell_space_ws c : is_cell_space c = true -> is_ws c = true.
Proof.
  unfold is_cell_space. intro H. repeat (apply orb_true_iff in H as [H|H]); apply N.eqb_eq in H; subst; assumption.
Qed.
Lemma eq10_ws c : (c =? 10)%N = true -> is_ws c = true.
Proof. exact (is_nl_ws c). Qed.

Lemma plain_run1 p t : (forall c, p c = true -> is_ws c = true) ->
  forallb pchar t = true -> no_dbl_sp t = true -> run1 p t = true.
Proof.
  intro Hp. induction t as [|c r IH]; [reflexivity|]. cbn [forallb no_dbl_sp run1]. intros H1 H2.
  apply andb_true_iff in H1 as [Hc Hr]. apply andb_true_iff in H2 as [Hd Hs].
  rewrite (IH Hr Hs), andb_true_r. destruct (p c) eqn:Ec; [|reflexivity]. cbn [negb orb].
  apply pchar_parts in Hc as (_ & _ & _ & Hc & _). rewrite (Hc (Hp _ Ec)) in *. cbn [N.eqb Pos.eqb andb] in *.
  destruct r as [|d r]; [reflexivity|]. cbn [forallb] in Hr. apply andb_true_iff in Hr as [Hd' _].
  apply pchar_parts in Hd' as (_ & _ & _ & Hd' & _). destruct (p d) eqn:Ed; [|reflexivity].
  rewrite (Hd' (Hp _ Ed)) in Hd. discriminate.
Qed.

Definition hd_ok (x : str) : bool := match x with c :: _ => negb (is_ws c) | [] => true end.

Lemma dropWhile_hd_ok x : hd_ok x = true -> dropWhile is_ws x = x.
Proof. destruct x as [|c r]; [reflexivity|]. cbn. intro H. apply negb_true_iff in H. rewrite H. reflexivity. Qed.

Lemma pchars_hd_ok t : forallb pchar t = true -> no_edge_sp t = true -> hd_ok t = true.
Proof.
  destruct t as [|c r]; [reflexivity|]. cbn [forallb no_edge_sp hd_ok]. intros H1 H2.
  apply andb_true_iff in H1 as [Hc _]. apply pchar_parts in Hc as (_ & _ & _ & Hc & _).
  destruct (is_ws c) eqn:E; [|reflexivity]. rewrite (Hc eq_refl) in H2. discriminate.
Qed.

Lemma plain_hd_ok t : plain t = true -> hd_ok t = true /\ hd_ok (rev t) = true.
Proof.
  intro H. apply plain_parts in H as (H1 & _ & H3 & H4 & _). split.
  - apply pchars_hd_ok; assumption.
  - apply pchars_hd_ok; [apply forallb_rev|]; assumption.
Qed.

Lemma strip_plain t : plain t = true -> strip is_ws t = t.
Proof.
  intro H. apply plain_hd_ok in H as [H1 H2]. unfold strip, rstrip, lstrip.
  rewrite (dropWhile_hd_ok _ H1), (dropWhile_hd_ok _ H2). apply rev_involutive.
Qed.

Lemma strip_sp t : strip is_ws (32%N :: t) = strip is_ws t.
Proof. unfold strip, lstrip. cbn [dropWhile]. rewrite ws32. reflexivity. Qed.

Lemma strip_nl_nl t : plain t = true -> strip is_ws (10%N :: t ++ [10%N]) = t.
Proof.
  intro H. apply plain_hd_ok in H as [H1 H2]. unfold strip, rstrip, lstrip. cbn [dropWhile]. rewrite ws10.
  destruct t as [|c r].
  - cbn. rewrite ws10. reflexivity.
  - rewrite (dropWhile_hd_ok ((c :: r) ++ [10%N])) by exact H1.
    rewrite rev_app_distr. cbn [rev app dropWhile]. rewrite ws10. cbn [rev] in H2.
    rewrite (dropWhile_hd_ok _ H2). change (rev r ++ [c]) with (rev (c :: r)). apply rev_involutive.
Qed.

(* the last four steps of _strip_rtf_simple *)
Definition stageC (x : str) : str :=
  strip is_ws (re_sub (m_run is_nl 3 [10; 10]%N) 0
     (re_sub (m_run is_sp_tab 1 [32%N]) 0 (filter (fun c => negb (is_brace c)) x))).

Lemma stageC_id y : forallb (fun c => negb (is_brace c)) y = true -> run1 is_sp_tab y = true ->
  no_run is_nl 3 y = true -> stageC y = strip is_ws y.
Proof.
  intros H1 H2 H3. unfold stageC. rewrite (filter_all _ _ H1), (re_sub_run1 _ _ H2), (re_sub_no_run _ _ _ _ H3).
  reflexivity.
Qed.

Lemma strip_simple_eq x :
  rtf_strip_simple is_ws x =
  stageC (re_sub (m_control is_ws) 0
    (fold_left (fun acc kc => re_sub (m_special is_ws (fst kc) (snd kc)) 0 acc) RTF_SPECIAL_CHARS
       (re_sub m_hex_escape 0 (re_sub m_surrogate 0 (re_sub m_unicode 0 (remove_ignorable 0 x)))))).
Proof. reflexivity. Qed.

Lemma pre_specials_id a b x :
  (a =? 117)%N = false -> (a =? 39)%N = false ->
  forallb (fun c => negb (c =? 123)%N) x = true -> forallb nosurr x = true -> bs2 a b x = true ->
  re_sub m_hex_escape 0 (re_sub m_surrogate 0 (re_sub m_unicode 0 (remove_ignorable 0 x))) = x.
Proof.
  intros Ha1 Ha2 H1 H2 H3. rewrite (remove_ignorable_nolbr _ H1).
  rewrite (re_sub_bs2 m_unicode a b x); [| apply m_unicode_nobs | | exact H3].
  2:{ intro z. unfold m_unicode, BS. rewrite Ha1. reflexivity. }
  rewrite (re_sub_head_none m_surrogate nosurr x m_surrogate_nosurr H2).
  apply (re_sub_bs2 m_hex_escape a b x); [apply m_hex_escape_nobs | | exact H3].
  intro z. destruct z as [|h2 z]; [reflexivity|]. unfold m_hex_escape, BS. rewrite Ha2. reflexivity.
Qed.

Lemma plain_stageC t : plain t = true -> stageC t = t.
Proof.
  intro H. destruct (plain_parts t H) as (H1 & H2 & H3 & H4 & H5).
  rewrite stageC_id; [apply strip_plain, H | apply pchars_nobrace, H1 | apply plain_run1; [exact is_sp_tab_ws|assumption..] |].
  apply no_run_none; [slia|]. apply pchars_not; [exact is_nl_ws | reflexivity | exact H1].
Qed.

Lemma plain_hd_not p t : (forall c, p c = true -> is_ws c = true) -> plain t = true ->
  match t with d :: _ => negb (p d) | [] => true end = true.
Proof.
  intros Hp H. apply plain_hd_ok in H as [H _]. destruct t as [|d r]; [reflexivity|]. cbn in H.
  destruct (p d) eqn:E; [|reflexivity]. rewrite (Hp _ E) in H. discriminate.
Qed.

Lemma sp_plain_stageC t : plain t = true -> stageC (32%N :: t) = t.
Proof.
  intro H. destruct (plain_parts t H) as (H1 & H2 & H3 & H4 & H5).
  rewrite stageC_id.
  - rewrite strip_sp. apply strip_plain, H.
  - cbn [forallb]. rewrite (pchars_nobrace _ H1). reflexivity.
  - cbn [run1]. rewrite (plain_run1 is_sp_tab t is_sp_tab_ws H1 H2), (plain_hd_not is_sp_tab t is_sp_tab_ws H).
    reflexivity.
  - change (32%N :: t) with ([32%N] ++ t). rewrite no_run_app_none; [|slia|reflexivity].
    apply no_run_none; [slia|]. apply pchars_not; [exact is_nl_ws | reflexivity | exact H1].
Qed.

Lemma span_nl_plain_nl t : forallb (fun c => negb (is_nl c)) t = true -> span_len is_nl (t ++ [10%N]) <= 1.
Proof.
  destruct t as [|c r]; [cbn; slia|]. cbn [forallb app]. intro H. apply andb_true_iff in H as [H _].
  apply negb_true_iff in H. rewrite (span_len_head_false _ _ _ H). slia.
Qed.

Lemma nl_plain_nl_stageC t : plain t = true -> stageC (10%N :: t ++ [10%N]) = t.
Proof.
  intro H. destruct (plain_parts t H) as (H1 & H2 & H3 & H4 & H5).
  assert (Hnl : forallb (fun c => negb (is_nl c)) t = true)
    by (apply pchars_not; [exact is_nl_ws | reflexivity | exact H1]).
  rewrite stageC_id.
  - apply strip_nl_nl, H.
  - cbn [forallb]. rewrite forallb_app, (pchars_nobrace _ H1). reflexivity.
  - cbn [run1]. change (negb (is_sp_tab 10)) with true. cbn [orb andb]. apply run1_app_single; [|reflexivity].
    apply plain_run1; [exact is_sp_tab_ws|assumption..].
  - cbn [no_run]. rewrite no_run_app_none; [|slia|exact Hnl]. change (no_run is_nl 3 [10%N]) with true.
    rewrite andb_true_r. apply Nat.ltb_lt. cbn [span_len]. change (is_nl 10) with true. cbv iota.
    pose proof (span_nl_plain_nl t Hnl). slia.
Qed.

(* plain text preceded by one space *)
Lemma strip_simple_sp_plain t : plain t = true -> rtf_strip_simple is_ws (32%N :: t) = t.
Proof.
  intro H. destruct (plain_parts t H) as (H1 & _).
  assert (Hn : forallb nobs (32%N :: t) = true) by (cbn [forallb]; rewrite (pchars_nobs _ H1); reflexivity).
  rewrite strip_simple_eq, (pre_specials_id 0 0).
  - rewrite fold_specials_id.
    + rewrite (re_sub_head_none _ nobs _ (m_control_nobs is_ws) Hn). apply sp_plain_stageC, H.
    + intros kc _. apply (re_sub_head_none _ nobs); [apply m_special_nobs | exact Hn].
  - reflexivity.
  - reflexivity.
  - cbn [forallb]. rewrite (pchars_nolbr _ H1). reflexivity.
  - cbn [forallb]. rewrite (pchars_nosurr _ H1). reflexivity.
  - apply bs2_nobs, Hn.
Qed.

Lemma m_control_trowd t : m_control is_ws (92%N :: K_trowd ++ 32%N :: t) = Some ([], 7).
Proof. unfold m_control. cbn. rewrite ws32. reflexivity. Qed.

(* the first part of a row: "\trowd " followed by plain text *)
Lemma strip_simple_trowd_plain t : plain t = true -> rtf_strip_simple is_ws (92%N :: K_trowd ++ 32%N :: t) = t.
Proof.
  intro H. destruct (plain_parts t H) as (H1 & _).
  assert (Hn : forallb nobs t = true) by (apply pchars_nobs, H1).
  assert (Hb : bs2 116 114 (92%N :: K_trowd ++ 32%N :: t) = true).
  { change (92%N :: K_trowd ++ 32%N :: t) with ([92%N] ++ (K_trowd ++ [32%N]) ++ t).
    cbn [app bs2 K_trowd]. rewrite bs2_nobs by exact Hn. reflexivity. }
  rewrite strip_simple_eq, (pre_specials_id 116 114); try reflexivity; try exact Hb.
  - rewrite (fold_specials_bs2 is_ws _ 116 114 _ specials_miss_tr Hb).
    cbn [re_sub]. rewrite m_control_trowd. cbn [pred app K_trowd re_sub].
    rewrite (re_sub_head_none _ nobs _ (m_control_nobs is_ws) Hn). apply plain_stageC, H.
  - cbn [forallb app K_trowd]. rewrite (pchars_nolbr _ H1). reflexivity.
  - cbn [forallb app K_trowd]. rewrite (pchars_nosurr _ H1). reflexivity.
Qed.

(* the tail of the loop body of _extract_table_cells *)
Lemma cell_tail_plain t : plain t = true ->
  strip is_ws (re_sub (m_run is_nl 3 [10; 10]%N) 0 (re_sub m_cell_newline 0
     (re_sub (m_run is_cell_space 1 [32%N]) 0 (re_sub (m_run is_hex 64 []) 0 t)))) = t.
Proof.
  intro H. destruct (plain_parts t H) as (H1 & H2 & H3 & H4 & H5).
  rewrite (re_sub_no_run _ _ _ _ H5).
  rewrite (re_sub_run1 _ _ (plain_run1 is_cell_space t is_cell_space_ws H1 H2)).
  rewrite (re_sub_no_match m_cell_newline).
  2:{ apply m_cell_newline_none. apply (pchars_not (fun c => (c =? 10)%N)); [exact eq10_ws | reflexivity | exact H1]. }
  rewrite re_sub_no_run.
  - apply strip_plain, H.
  - apply no_run_none; [slia|]. apply pchars_not; [exact is_nl_ws | reflexivity | exact H1].
Qed.

Theorem rtf_cell_text_plain : forall t, plain t = true -> rtf_cell_text is_ws (SP :: t) = t.
Proof.
  intros t H. unfold rtf_cell_text, SP. rewrite (strip_simple_sp_plain t H). apply cell_tail_plain, H.
Qed.

Lemma rtf_cell_text_first' t : plain t = true -> rtf_cell_text is_ws (92%N :: K_trowd ++ 32%N :: t) = t.
Proof.
  intros H. unfold rtf_cell_text. rewrite (strip_simple_trowd_plain t H). apply cell_tail_plain, H.
Qed.

Theorem rtf_cell_text_first : forall t, plain t = true -> rtf_cell_text is_ws (s "\trowd" ++ SP :: t) = t.
Proof. intros t H. exact (rtf_cell_text_first' t H). Qed.

(* ------------------------------------------------------------------ R2: the cells of a rendered row *)
Definition body (cells : list str) : str := concat (map (fun t => 32%N :: t ++ 92%N :: K_cell) cells).
Definition Rrow (cells : list str) : str := 92%N :: K_trowd ++ body cells ++ 92%N :: K_row.

Lemma body_cons t cs : body (t :: cs) = (32%N :: t) ++ 92%N :: K_cell ++ body cs.
Proof. unfold body. cbn [map concat]. cbn [app]. rewrite <- app_assoc. reflexivity. Qed.

Lemma rs_none_app (m : matcher) (q : N -> bool) cur p y :
  (forall c r, q c = true -> m (c :: r) = None) -> forallb q p = true ->
  re_split m 0 cur (p ++ y) = re_split m 0 (rev p ++ cur) y.
Proof.
  intro H. revert cur. induction p as [|c p IH]; intros cur E; [reflexivity|]. cbn [forallb app re_split] in *.
  apply andb_true_iff in E as [E1 E2]. rewrite (H _ _ E1), (IH _ E2). cbn [rev]. rewrite <- app_assoc. reflexivity.
Qed.

Lemma rs_skip (m : matcher) cur p y : re_split m (length p) cur (p ++ y) = re_split m 0 cur y.
Proof. induction p as [|c p IH]; [reflexivity|]. exact IH. Qed.

Notation m_cell := (m_word_b is_word K_cell).

Lemma body_tail_head cs d y : is_word d = false ->
  exists d' z, body cs ++ d :: y = d' :: z /\ is_word d' = false.
Proof.
  intro H. destruct cs as [|t cs]; [exists d, y; split; [reflexivity|exact H]|].
  rewrite body_cons. cbn [app]. eexists _, _. split; [reflexivity|exact wd32].
Qed.

Lemma split_body_step t cs cur d y : plain t = true -> is_word d = false ->
  re_split m_cell 0 cur (body (t :: cs) ++ d :: y) = (rev cur ++ 32%N :: t) :: re_split m_cell 0 [] (body cs ++ d :: y).
Proof.
  intros H Hd. destruct (plain_parts t H) as (H1 & _).
  rewrite body_cons, <- app_assoc.
  rewrite (rs_none_app _ nobs); [| apply m_word_b_nobs | cbn [forallb]; rewrite (pchars_nobs _ H1); reflexivity].
  destruct (body_tail_head cs d y Hd) as (d' & z & E & Hd').
  cbn [app]. rewrite <- app_assoc, E. cbn [re_split]. rewrite (m_word_b_hit is_word K_cell d' z Hd').
  cbn [pred]. rewrite rs_skip. rewrite rev_app_distr. cbn [rev]. rewrite rev_app_distr, rev_involutive.
  cbn [rev app]. reflexivity.
Qed.

Lemma split_body cs d y : forallb plain cs = true -> is_word d = false ->
  re_split m_cell 0 [] (body cs ++ d :: y) = map (cons 32%N) cs ++ re_split m_cell 0 [] (d :: y).
Proof.
  intros H Hd. induction cs as [|t cs IH]; [reflexivity|]. cbn [forallb] in H. apply andb_true_iff in H as [Ht Hc].
  rewrite (split_body_step t cs [] d y Ht Hd), (IH Hc). reflexivity.
Qed.

Lemma split_row_tail : re_split m_cell 0 [] (92%N :: K_row) = [92%N :: K_row].
Proof. reflexivity. Qed.

Lemma split_row t cs : forallb plain (t :: cs) = true ->
  re_split m_cell 0 [] (Rrow (t :: cs)) = ((92%N :: K_trowd ++ 32%N :: t) :: map (cons 32%N) cs) ++ [92%N :: K_row].
Proof.
  intro H. cbn [forallb] in H. apply andb_true_iff in H as [Ht Hc]. unfold Rrow.
  cbn [re_split]. rewrite m_word_b_miss by reflexivity.
  rewrite (rs_none_app _ nobs _ K_trowd); [| apply m_word_b_nobs | reflexivity].
  rewrite (split_body_step t cs _ 92%N K_row Ht wd92), (split_body cs 92%N K_row Hc wd92), split_row_tail.
  reflexivity.
Qed.

Lemma row_cells_Rrow cells : cells <> [] -> forallb plain cells = true ->
  rtf_row_cells is_ws is_word (Rrow cells) = cells.
Proof.
  intros Hne H. destruct cells as [|t cs]; [congruence|]. unfold rtf_row_cells.
  change (s "cell") with K_cell. rewrite (split_row t cs H), removelast_last. cbn [map forallb] in *.
  apply andb_true_iff in H as [Ht Hc]. rewrite (rtf_cell_text_first' t Ht). f_equal.
  rewrite map_map. rewrite <- (map_id cs) at 2. apply map_ext_in. intros a Ha.
  apply (rtf_cell_text_plain a). revert a Ha. apply forallb_forall, Hc.
Qed.

Lemma Rrow_render cells :
  s "\trowd" ++ concat (map (fun t => SP :: t ++ s "\cell") cells) ++ s "\row" = Rrow cells.
Proof. reflexivity. Qed.

Theorem rtf_row_cells_render : forall cells, cells <> [] -> forallb plain cells = true ->
  rtf_row_cells is_ws is_word (s "\trowd" ++ concat (map (fun t => SP :: t ++ s "\cell") cells) ++ s "\row") = cells.
Proof. intros cells Hne H. rewrite Rrow_render. apply row_cells_Rrow; assumption. Qed.

(* ------------------------------------------------------------------ finditer over rendered rows *)
Lemma fa_skip (m : matcher) off p y : re_find_all m (length p) off (p ++ y) = re_find_all m 0 (off + length p) y.
Proof.
  revert off. induction p as [|c p IH]; intro off.
  - cbn [length app]. rewrite Nat.add_0_r. reflexivity.
  - cbn [length app re_find_all]. rewrite IH. f_equal. slia.
Qed.

Lemma fa_none_app (m : matcher) (q : N -> bool) off p y :
  (forall c r, q c = true -> m (c :: r) = None) -> forallb q p = true ->
  re_find_all m 0 off (p ++ y) = re_find_all m 0 (off + length p) y.
Proof.
  intro H. revert off. induction p as [|c p IH]; intros off E.
  - cbn [length app]. rewrite Nat.add_0_r. reflexivity.
  - cbn [forallb length app re_find_all] in *. apply andb_true_iff in E as [E1 E2].
    rewrite (H _ _ E1), (IH _ E2). f_equal. slia.
Qed.

Lemma fa_cons_some (m : matcher) off c r rep n : m (c :: r) = Some (rep, n) ->
  re_find_all m 0 off (c :: r) = (off, off + n) :: re_find_all m (pred n) (S off) r.
Proof. intro H. cbn [re_find_all]. rewrite H. reflexivity. Qed.

Lemma fa_hit_wb kw off d y : is_word d = false ->
  re_find_all (m_word_b is_word kw) 0 off (92%N :: kw ++ d :: y)
  = (off, off + S (length kw)) :: re_find_all (m_word_b is_word kw) 0 (off + S (length kw)) (d :: y).
Proof.
  intro H. rewrite (fa_cons_some _ off _ _ _ _ (m_word_b_hit is_word kw d y H)). cbn [pred]. rewrite fa_skip.
  f_equal. f_equal. slia.
Qed.

Lemma fa_miss_wb kw off r : startswith r kw = false ->
  re_find_all (m_word_b is_word kw) 0 off (92%N :: r) = re_find_all (m_word_b is_word kw) 0 (S off) r.
Proof. intro H. cbn [re_find_all]. rewrite (m_word_b_miss is_word kw r H). reflexivity. Qed.

Lemma body_length t cs : length (body (t :: cs)) = length t + 6 + length (body cs).
Proof. rewrite body_cons, !app_length. cbn [length K_cell app]. rewrite ?app_length. cbn [length]. slia. Qed.

Lemma Rrow_length r : length (Rrow r) = length (body r) + 10.
Proof. unfold Rrow. cbn [length]. rewrite !app_length. cbn [length K_trowd K_row]. slia. Qed.

Lemma Rrow_app r y : Rrow r ++ y = 92%N :: K_trowd ++ body r ++ 92%N :: K_row ++ y.
Proof. unfold Rrow. cbn [app]. rewrite <- !app_assoc. reflexivity. Qed.

Lemma fa_body kw off cells y :
  (forall z, startswith (K_cell ++ z) kw = false) -> forallb plain cells = true ->
  re_find_all (m_word_b is_word kw) 0 off (body cells ++ y)
  = re_find_all (m_word_b is_word kw) 0 (off + length (body cells)) y.
Proof.
  intros Hk. revert off. induction cells as [|t cs IH]; intros off H.
  - cbn [body map concat length app]. rewrite Nat.add_0_r. reflexivity.
  - cbn [forallb] in H. apply andb_true_iff in H as [Ht Hc]. destruct (plain_parts t Ht) as (H1 & _).
    rewrite body_length, body_cons, <- app_assoc.
    rewrite (fa_none_app _ nobs); [| apply m_word_b_nobs | cbn [forallb]; rewrite (pchars_nobs _ H1); reflexivity].
    cbn [app]. rewrite <- app_assoc. rewrite (fa_miss_wb kw _ _ (Hk _)).
    rewrite (fa_none_app _ nobs _ K_cell); [| apply m_word_b_nobs | reflexivity].
    rewrite (IH _ Hc). f_equal. cbn [length K_cell]. slia.
Qed.

Notation m_trowd := (m_word_b is_word K_trowd).
Notation m_row := (m_word_b is_word K_row).

Lemma fa_trowd_row off r y : forallb plain r = true ->
  re_find_all m_trowd 0 off (Rrow r ++ 10%N :: y)
  = (off, off + 6) :: re_find_all m_trowd 0 (off + length (Rrow r) + 1) y.
Proof.
  intro H. rewrite Rrow_app, Rrow_length.
  destruct (body_tail_head r 92%N (K_row ++ 10%N :: y) wd92) as (d & z & E & Hd).
  rewrite E, (fa_hit_wb K_trowd off d z Hd), <- E.
  rewrite (fa_body K_trowd _ r _ (fun z => eq_refl) H).
  rewrite (fa_miss_wb K_trowd) by reflexivity.
  change (K_row ++ 10%N :: y) with ((K_row ++ [10%N]) ++ y).
  rewrite (fa_none_app _ nobs _ (K_row ++ [10%N])); [| apply m_word_b_nobs | reflexivity].
  f_equal. f_equal. cbn [length K_trowd K_row app]. slia.
Qed.

Lemma fa_row_row off r y : forallb plain r = true ->
  re_find_all m_row 0 off (Rrow r ++ 10%N :: y)
  = (off + length (Rrow r) - 4, off + length (Rrow r)) :: re_find_all m_row 0 (off + length (Rrow r) + 1) y.
Proof.
  intro H. rewrite Rrow_app, Rrow_length.
  rewrite (fa_miss_wb K_row) by reflexivity.
  rewrite (fa_none_app _ nobs _ K_trowd); [| apply m_word_b_nobs | reflexivity].
  rewrite (fa_body K_row _ r _ (fun z => eq_refl) H).
  rewrite (fa_hit_wb K_row _ 10%N y wd10).
  change (10%N :: y) with ([10%N] ++ y).
  rewrite (fa_none_app _ nobs _ [10%N]); [| apply m_word_b_nobs | reflexivity].
  cbn [length K_trowd K_row]. f_equal; [f_equal; slia | f_equal; slia].
Qed.

Definition rows (g : list (list str)) : str := concat (map rtf_r_row g).
Definition total (g : list (list str)) : nat := length (rows g).

Lemma r_row_eq r : rtf_r_row r = Rrow r ++ [10%N].
Proof. unfold rtf_r_row. rewrite !app_assoc. rewrite <- (app_assoc (s "\trowd")). reflexivity. Qed.

Lemma rows_cons r g : rows (r :: g) = Rrow r ++ 10%N :: rows g.
Proof. unfold rows. cbn [map concat]. rewrite r_row_eq, <- app_assoc. reflexivity. Qed.

Lemma total_cons r g : total (r :: g) = length (Rrow r) + 1 + total g.
Proof. unfold total. rewrite rows_cons, app_length. cbn [length]. slia. Qed.

Fixpoint row_spans (off : nat) (g : list (list str)) : list (nat * nat) :=
  match g with
  | [] => []
  | r :: g' => (off, off + length (Rrow r)) :: row_spans (off + length (Rrow r) + 1) g'
  end.

Lemma fa_trowd_rows off g y : forallb (forallb plain) g = true ->
  map fst (re_find_all m_trowd 0 off (rows g ++ y))
  = map fst (row_spans off g) ++ map fst (re_find_all m_trowd 0 (off + total g) y).
Proof.
  revert off. induction g as [|r g IH]; intros off H.
  - cbn [rows map concat app total length row_spans]. rewrite Nat.add_0_r. reflexivity.
  - cbn [forallb] in H. apply andb_true_iff in H as [Hr Hg].
    rewrite rows_cons, <- app_assoc. cbn [app]. rewrite (fa_trowd_row _ _ _ Hr). cbn [map fst row_spans app].
    rewrite (IH _ Hg), total_cons. do 4 f_equal. slia.
Qed.

Lemma fa_row_rows off g y : forallb (forallb plain) g = true ->
  map snd (re_find_all m_row 0 off (rows g ++ y))
  = map snd (row_spans off g) ++ map snd (re_find_all m_row 0 (off + total g) y).
Proof.
  revert off. induction g as [|r g IH]; intros off H.
  - cbn [rows map concat app total length row_spans]. rewrite Nat.add_0_r. reflexivity.
  - cbn [forallb] in H. apply andb_true_iff in H as [Hr Hg].
    rewrite rows_cons, <- app_assoc. cbn [app]. rewrite (fa_row_row _ _ _ Hr). cbn [map snd row_spans app].
    rewrite (IH _ Hg), total_cons. do 4 f_equal. slia.
Qed.

(* ------------------------------------------------------------------ pairing starts with ends *)
Fixpoint chain (lo : nat) (sp : list (nat * nat)) : Prop :=
  match sp with [] => True | ab :: r => lo <= fst ab /\ fst ab < snd ab /\ chain (snd ab) r end.

Lemma chain_weaken lo lo' sp : lo <= lo' -> chain lo' sp -> chain lo sp.
Proof. destruct sp as [|ab r]; [constructor|]. cbn [chain]. intros H (H1 & H2 & H3). repeat split; try assumption. slia. Qed.

Definition mk_row (text : str) (ab : nat * nat) : nat * nat * str := (fst ab, snd ab, slice text (fst ab) (snd ab)).

Lemma find_app_none {A} (f : A -> bool) l1 l2 : (forall e, In e l1 -> f e = false) -> List.find f (l1 ++ l2) = List.find f l2.
Proof.
  induction l1 as [|e l1 IH]; [reflexivity|]. intro H. cbn [app List.find]. rewrite (H e (or_introl eq_refl)).
  apply IH. intros e' He. apply H. right. exact He.
Qed.

Lemma pair_rows text Epre lo sp :
  (forall e, In e Epre -> e <= lo) -> chain lo sp ->
  flat_map (fun tp => match List.find (fun rp => Nat.ltb tp rp) (Epre ++ map snd sp) with
                      | Some rp => [(tp, rp, slice text tp rp)] | None => [] end) (map fst sp)
  = map (mk_row text) sp.
Proof.
  revert Epre lo. induction sp as [|[a b] sp IH]; intros Epre lo HE Hc; [reflexivity|].
  cbn [chain fst snd] in Hc. destruct Hc as (H1 & H2 & H3). cbn [map fst snd flat_map].
  rewrite find_app_none.
  2:{ intros e He. apply Nat.ltb_ge. specialize (HE e He). slia. }
  cbn [List.find]. assert (Nat.ltb a b = true) as -> by (apply Nat.ltb_lt; exact H2).
  cbn [app]. unfold mk_row at 1. cbn [fst snd]. f_equal.
  specialize (IH (Epre ++ [b]) b). rewrite <- app_assoc in IH. cbn [app] in IH. apply IH; [|exact H3].
  intros e He. apply in_app_iff in He as [He|[<-|[]]]; [|slia]. specialize (HE e He). slia.
Qed.

Lemma body_pos r : 0 < length (Rrow r).
Proof. rewrite Rrow_length. slia. Qed.

Lemma chain_rows_app off g sp2 : chain (off + total g) sp2 -> chain off (row_spans off g ++ sp2).
Proof.
  revert off. induction g as [|r g IH]; intros off H.
  - cbn [row_spans app]. unfold total, rows in H. cbn [map concat length] in H. rewrite Nat.add_0_r in H. exact H.
  - cbn [row_spans app chain fst snd]. pose proof (body_pos r). repeat split; try slia.
    apply (chain_weaken _ (off + length (Rrow r) + 1)); [slia|]. apply IH.
    rewrite total_cons in H. replace (off + length (Rrow r) + 1 + total g) with (off + (length (Rrow r) + 1 + total g)) by slia.
    exact H.
Qed.

Fixpoint rows_of (off : nat) (g : list (list str)) : list (nat * nat * str) :=
  match g with
  | [] => []
  | r :: g' => (off, off + length (Rrow r), Rrow r) :: rows_of (off + length (Rrow r) + 1) g'
  end.

Lemma slice_mid pre mid post : slice (pre ++ mid ++ post) (length pre) (length pre + length mid) = mid.
Proof.
  unfold slice. rewrite skipn_len_app. replace (length pre + length mid - length pre) with (length mid) by slia.
  apply firstn_len_app.
Qed.

Lemma rows_slices pre g post :
  map (mk_row (pre ++ rows g ++ post)) (row_spans (length pre) g) = rows_of (length pre) g.
Proof.
  revert pre. induction g as [|r g IH]; intro pre; [reflexivity|].
  cbn [row_spans rows_of map]. unfold mk_row at 1. cbn [fst snd]. f_equal.
  - rewrite rows_cons, <- app_assoc. rewrite slice_mid. reflexivity.
  - specialize (IH (pre ++ Rrow r ++ [10%N])).
    assert (E : length (pre ++ Rrow r ++ [10%N]) = length pre + length (Rrow r) + 1)
      by (rewrite !app_length; cbn [length]; slia).
    rewrite E in IH. rewrite <- IH. f_equal. f_equal. rewrite rows_cons, <- !app_assoc. reflexivity.
Qed.

(* ------------------------------------------------------------------ the grouping loop *)
Definition K_P : str := [123; 92; 114; 116; 102; 49; 92; 97; 110; 115; 105; 32]%N.

Lemma doc_eq d : rtf_r_doc d = K_P ++ concat (map rtf_r_block d) ++ [125%N].
Proof. reflexivity. Qed.

Lemma fa_P_trowd y : re_find_all m_trowd 0 0 (K_P ++ y) = re_find_all m_trowd 0 12 y.
Proof. reflexivity. Qed.
Lemma fa_P_row y : re_find_all m_row 0 0 (K_P ++ y) = re_find_all m_row 0 12 y.
Proof. reflexivity. Qed.
Lemma fa_end_trowd off : re_find_all m_trowd 0 off [125%N] = [].
Proof. reflexivity. Qed.
Lemma fa_end_row off : re_find_all m_row 0 off [125%N] = [].
Proof. reflexivity. Qed.

Lemma table_rows_unfold text :
  rtf_table_rows is_word text =
  flat_map (fun tp => match List.find (fun rp => Nat.ltb tp rp) (map snd (re_find_all m_row 0 0 text)) with
                      | Some rp => [(tp, rp, slice text tp rp)] | None => [] end)
           (map fst (re_find_all m_trowd 0 0 text)).
Proof. reflexivity. Qed.

Lemma chain_rows off g : chain off (row_spans off g).
Proof. rewrite <- (app_nil_r (row_spans off g)). apply chain_rows_app. constructor. Qed.

Lemma table_rows_single g : forallb (forallb plain) g = true ->
  rtf_table_rows is_word (K_P ++ rows g ++ [125%N]) = rows_of 12 g.
Proof.
  intro H. rewrite table_rows_unfold, fa_P_trowd, fa_P_row, (fa_trowd_rows _ _ _ H), (fa_row_rows _ _ _ H).
  rewrite fa_end_trowd, fa_end_row. cbn [map]. rewrite !app_nil_r.
  rewrite (pair_rows _ [] 12 (row_spans 12 g)); [| intros e [] | apply chain_rows].
  exact (rows_slices K_P g [125%N]).
Qed.

Definition brk_cond (text : str) (cur : list (list str)) (last : Z) (rs : nat) : bool :=
  negb (is_nil cur) && (100 <? Z.of_nat rs - last)%Z
  && Nat.ltb 20 (length (strip is_ws (rtf_strip_simple is_ws (slice text (Z.to_nat last) rs)))).

Lemma step_eq text saved cur last a b r : r <> [] -> forallb plain r = true ->
  rtf_group_step is_ws is_word text (saved, cur, last) (a, b, Rrow r)
  = if brk_cond text cur last a then (rtf_pad_rows (rev cur) :: saved, [r], Z.of_nat b)
    else (saved, r :: cur, Z.of_nat b).
Proof.
  intros Hne H. unfold rtf_group_step. rewrite (row_cells_Rrow r Hne H). fold (brk_cond text cur last a).
  destruct (brk_cond text cur last a); destruct r; try congruence; reflexivity.
Qed.

Lemma brk_gap1 text cur off : brk_cond text cur (Z.of_nat off - 1) off = false.
Proof.
  unfold brk_cond. assert ((100 <? Z.of_nat off - (Z.of_nat off - 1))%Z = false) as -> by (apply Z.ltb_ge; slia).
  rewrite andb_false_r. reflexivity.
Qed.

Notation step text := (rtf_group_step is_ws is_word text).
Notation nonempty_rows g := (forallb (fun r : list str => negb (is_nil r)) g).

Lemma nonnil_ne {A} (r : list A) : negb (is_nil r) = true -> r <> [].
Proof. destruct r; [discriminate|discriminate]. Qed.

Lemma fold_rows_cont text saved cur off g :
  nonempty_rows g = true -> forallb (forallb plain) g = true ->
  fold_left (step text) (rows_of off g) (saved, cur, (Z.of_nat off - 1)%Z)
  = (saved, rev g ++ cur, (Z.of_nat (off + total g) - 1)%Z).
Proof.
  revert cur off. induction g as [|r g IH]; intros cur off Hn Hp.
  - cbn [rows_of fold_left rev app]. unfold total, rows. cbn [map concat length]. rewrite Nat.add_0_r. reflexivity.
  - cbn [forallb] in Hn, Hp. apply andb_true_iff in Hn as [Hn1 Hn2]. apply andb_true_iff in Hp as [Hp1 Hp2].
    cbn [rows_of fold_left]. rewrite (step_eq _ _ _ _ _ _ _ (nonnil_ne _ Hn1) Hp1), brk_gap1.
    replace (Z.of_nat (off + length (Rrow r))) with (Z.of_nat (off + length (Rrow r) + 1) - 1)%Z by slia.
    rewrite (IH _ _ Hn2 Hp2). cbn [rev]. rewrite <- app_assoc. cbn [app]. rewrite total_cons.
    do 2 f_equal. slia.
Qed.

Lemma is_nil_rev {A} (g : list A) : g <> [] -> is_nil (rev g) = false.
Proof.
  destruct g as [|r g]; [congruence|]. intros _. cbn [rev]. destruct (rev g); reflexivity.
Qed.

Lemma brk_nil text last a : brk_cond text [] last a = false.
Proof. reflexivity. Qed.

(* R3 *)
Theorem rtf_tables_single : forall g, g <> [] -> nonempty_rows g = true -> forallb (forallb plain) g = true ->
  rtf_tables is_ws is_word (rtf_r_doc [RTable g]) = [rtf_pad_rows g].
Proof.
  intros g Hne Hn Hp. rewrite doc_eq. cbn [map concat rtf_r_block]. rewrite app_nil_r. fold (rows g).
  unfold rtf_tables. rewrite (table_rows_single g Hp).
  destruct g as [|r g]; [congruence|].
  cbn [forallb] in Hn, Hp. apply andb_true_iff in Hn as [Hn1 Hn2]. apply andb_true_iff in Hp as [Hp1 Hp2].
  cbn [rows_of fold_left]. rewrite (step_eq _ _ _ _ _ _ _ (nonnil_ne _ Hn1) Hp1), brk_nil.
  replace (Z.of_nat (12 + length (Rrow r))) with (Z.of_nat (12 + length (Rrow r) + 1) - 1)%Z by slia.
  rewrite (fold_rows_cont _ _ _ _ _ Hn2 Hp2).
  change (rev g ++ [r]) with (rev (r :: g)). rewrite is_nil_rev by discriminate. rewrite rev_involutive. reflexivity.
Qed.

(* ------------------------------------------------------------------ a paragraph between two tables *)
Definition para (t : str) : str := 92%N :: K_pard ++ 32%N :: t ++ 92%N :: K_par ++ [10%N].

Lemma para_eq t : rtf_r_block (RPara t) = para t.
Proof. reflexivity. Qed.

Lemma para_length t : length (para t) = length t + 11.
Proof. unfold para. cbn [length K_pard app]. rewrite app_length. cbn [length K_par app]. slia. Qed.

Lemma para_app t y : para t ++ y = 92%N :: (K_pard ++ [32%N]) ++ t ++ 92%N :: (K_par ++ [10%N]) ++ y.
Proof. unfold para. cbn [app K_pard K_par]. rewrite <- app_assoc. reflexivity. Qed.

Lemma fa_para kw off t y : (forall z, startswith (112%N :: z) kw = false) -> plain t = true ->
  re_find_all (m_word_b is_word kw) 0 off (para t ++ y)
  = re_find_all (m_word_b is_word kw) 0 (off + length (para t)) y.
Proof.
  intros Hk H. destruct (plain_parts t H) as (H1 & _). rewrite para_app, para_length.
  rewrite (fa_miss_wb kw _ ((K_pard ++ [32%N]) ++ _) (Hk _)).
  rewrite (fa_none_app _ nobs _ (K_pard ++ [32%N])); [| apply m_word_b_nobs | reflexivity].
  rewrite (fa_none_app _ nobs _ t); [| apply m_word_b_nobs | apply pchars_nobs, H1].
  rewrite (fa_miss_wb kw _ ((K_par ++ [10%N]) ++ _) (Hk _)).
  rewrite (fa_none_app _ nobs _ (K_par ++ [10%N])); [| apply m_word_b_nobs | reflexivity].
  f_equal. cbn [length K_pard K_par app]. slia.
Qed.

Lemma m_special_par_pard z : m_special is_ws K_par 10 (92%N :: K_pard ++ 32%N :: z) = None.
Proof. unfold m_special. cbn. rewrite ws100. reflexivity. Qed.

Lemma m_special_par_end : m_special is_ws K_par 10 (92%N :: K_par ++ [10%N]) = Some ([10%N], 5).
Proof. unfold m_special. cbn. rewrite ws10. reflexivity. Qed.

Lemma special_par_para t : forallb nobs t = true ->
  re_sub (m_special is_ws K_par 10) 0 (10%N :: para t) = 10%N :: 92%N :: K_pard ++ 32%N :: t ++ [10%N].
Proof.
  intro Hn. cbn [re_sub]. rewrite (m_special_nobs is_ws K_par 10 10) by reflexivity. f_equal.
  unfold para. cbn [re_sub]. rewrite m_special_par_pard. f_equal.
  change (K_pard ++ 32%N :: t ++ 92%N :: K_par ++ [10%N]) with ((K_pard ++ [32%N]) ++ t ++ 92%N :: K_par ++ [10%N]).
  rewrite (re_sub_head_none_app _ nobs (K_pard ++ [32%N])); [| apply m_special_nobs | reflexivity].
  rewrite (re_sub_head_none_app _ nobs t); [| apply m_special_nobs | exact Hn].
  cbn [re_sub]. rewrite m_special_par_end. reflexivity.
Qed.

Lemma m_control_pard z : m_control is_ws (92%N :: K_pard ++ 32%N :: z) = Some ([], 6).
Proof. unfold m_control. cbn. rewrite ws32. reflexivity. Qed.

Lemma control_para t : forallb nobs t = true ->
  re_sub (m_control is_ws) 0 (10%N :: 92%N :: K_pard ++ 32%N :: t ++ [10%N]) = 10%N :: t ++ [10%N].
Proof.
  intro Hn. cbn [re_sub]. rewrite (m_control_nobs is_ws 10) by reflexivity. f_equal.
  rewrite m_control_pard. cbn [pred app K_pard re_sub].
  apply (re_sub_head_none _ nobs); [apply m_control_nobs|]. rewrite forallb_app, Hn. reflexivity.
Qed.

Lemma strip_simple_para t : plain t = true -> rtf_strip_simple is_ws (10%N :: para t) = t.
Proof.
  intro H. destruct (plain_parts t H) as (H1 & _).
  assert (Hn : forallb nobs t = true) by (apply pchars_nobs, H1).
  assert (Hb : bs2 112 97 (10%N :: para t) = true).
  { unfold para. change (10%N :: 92%N :: K_pard ++ 32%N :: t ++ 92%N :: K_par ++ [10%N])
      with ([10%N; 92%N] ++ (K_pard ++ [32%N]) ++ t ++ 92%N :: K_par ++ [10%N]).
    cbn [app bs2 K_pard]. rewrite bs2_app_nobs by exact Hn. reflexivity. }
  assert (Hb' : bs2 112 97 (10%N :: 92%N :: K_pard ++ 32%N :: t ++ [10%N]) = true).
  { change (10%N :: 92%N :: K_pard ++ 32%N :: t ++ [10%N])
      with ([10%N; 92%N] ++ (K_pard ++ [32%N]) ++ t ++ [10%N]).
    cbn [app bs2 K_pard]. rewrite bs2_app_nobs by exact Hn. reflexivity. }
  rewrite strip_simple_eq, (pre_specials_id 112 97); try reflexivity; try exact Hb.
  - rewrite specials_split. cbn [fold_left fst snd]. change [112; 97; 114]%N with K_par.
    rewrite (special_par_para t Hn).
    rewrite (fold_specials_bs2 is_ws _ 112 97 _ specials_tail_miss_pa Hb').
    rewrite (control_para t Hn). apply nl_plain_nl_stageC, H.
  - unfold para. cbn [forallb app K_pard]. rewrite forallb_app, (pchars_nolbr _ H1). reflexivity.
  - unfold para. cbn [forallb app K_pard]. rewrite forallb_app, (pchars_nosurr _ H1). reflexivity.
Qed.

Lemma table_rows_two g1 t g2 :
  forallb (forallb plain) g1 = true -> plain t = true -> forallb (forallb plain) g2 = true ->
  rtf_table_rows is_word (K_P ++ rows g1 ++ para t ++ rows g2 ++ [125%N])
  = rows_of 12 g1 ++ rows_of (12 + total g1 + length (para t)) g2.
Proof.
  intros H1 Ht H2. rewrite table_rows_unfold, fa_P_trowd, fa_P_row.
  rewrite (fa_trowd_rows _ _ _ H1), (fa_row_rows _ _ _ H1).
  rewrite (fa_para K_trowd _ _ _ (fun z => eq_refl) Ht), (fa_para K_row _ _ _ (fun z => eq_refl) Ht).
  rewrite (fa_trowd_rows _ _ _ H2), (fa_row_rows _ _ _ H2).
  rewrite fa_end_trowd, fa_end_row. cbn [map]. rewrite !app_nil_r, <- !map_app.
  rewrite (pair_rows _ [] 12 (row_spans 12 g1 ++ row_spans (12 + total g1 + length (para t)) g2)); [| intros e [] |].
  2:{ apply chain_rows_app. apply (chain_weaken _ (12 + total g1 + length (para t))); [slia | apply chain_rows]. }
  rewrite map_app. f_equal.
  - exact (rows_slices K_P g1 (para t ++ rows g2 ++ [125%N])).
  - pose proof (rows_slices (K_P ++ rows g1 ++ para t) g2 [125%N]) as E.
    assert (L : length (K_P ++ rows g1 ++ para t) = 12 + total g1 + length (para t))
      by (rewrite !app_length; reflexivity).
    rewrite L in E. rewrite <- E. rewrite <- !app_assoc. reflexivity.
Qed.

Lemma rows_last g : g <> [] -> exists w, rows g = w ++ [10%N].
Proof.
  intro H. destruct (exists_last H) as (g' & r & ->). unfold rows. rewrite map_app, concat_app.
  cbn [map concat]. rewrite app_nil_r, r_row_eq. exists (concat (map rtf_r_row g') ++ Rrow r).
  rewrite app_assoc. reflexivity.
Qed.

(* R4 *)
Theorem rtf_tables_long_separator : forall g1 g2 t,
  g1 <> [] -> nonempty_rows g1 = true -> forallb (forallb plain) g1 = true ->
  g2 <> [] -> nonempty_rows g2 = true -> forallb (forallb plain) g2 = true ->
  plain t = true -> 90 <= length t ->
  rtf_tables is_ws is_word (rtf_r_doc [RTable g1; RPara t; RTable g2]) = [rtf_pad_rows g1; rtf_pad_rows g2].
Proof.
  intros g1 g2 t Hne1 Hn1 Hp1 Hne2 Hn2 Hp2 Ht Hlen. rewrite doc_eq. cbn [map concat]. rewrite para_eq.
  cbn [rtf_r_block]. rewrite app_nil_r. fold (rows g1) (rows g2). rewrite <- !app_assoc.
  set (text := K_P ++ rows g1 ++ para t ++ rows g2 ++ [125%N]).
  unfold rtf_tables. unfold text at 2. rewrite (table_rows_two g1 t g2 Hp1 Ht Hp2), fold_left_app.
  (* the first table *)
  assert (F1 : fold_left (step text) (rows_of 12 g1) ([], [], (-1)%Z)
               = ([], rev g1, (Z.of_nat (12 + total g1) - 1)%Z)).
  { destruct g1 as [|r g]; [congruence|].
    cbn [forallb] in Hn1, Hp1. apply andb_true_iff in Hn1 as [Ha Hb]. apply andb_true_iff in Hp1 as [Hc Hd].
    cbn [rows_of fold_left]. rewrite (step_eq _ _ _ _ _ _ _ (nonnil_ne _ Ha) Hc), brk_nil.
    replace (Z.of_nat (12 + length (Rrow r))) with (Z.of_nat (12 + length (Rrow r) + 1) - 1)%Z by slia.
    rewrite (fold_rows_cont _ _ _ _ _ Hb Hd). rewrite total_cons. cbn [rev]. reflexivity. }
  rewrite F1. clear F1.
  (* the break *)
  assert (B : brk_cond text (rev g1) (Z.of_nat (12 + total g1) - 1) (12 + total g1 + length (para t)) = true).
  { unfold brk_cond. rewrite (is_nil_rev g1 Hne1). cbn [negb andb].
    destruct (rows_last g1 Hne1) as (w & Ew).
    assert (Tw : total g1 = length w + 1) by (unfold total; rewrite Ew, app_length; reflexivity).
    assert (S : slice text (Z.to_nat (Z.of_nat (12 + total g1) - 1)) (12 + total g1 + length (para t)) = 10%N :: para t).
    { unfold text. rewrite Ew, <- app_assoc. cbn [app]. rewrite (app_assoc K_P w).
      change (10%N :: para t ++ rows g2 ++ [125%N]) with ((10%N :: para t) ++ rows g2 ++ [125%N]).
      replace (Z.to_nat (Z.of_nat (12 + total g1) - 1)) with (length (K_P ++ w))
        by (rewrite app_length; change (length K_P) with 12; slia).
      replace (12 + total g1 + length (para t)) with (length (K_P ++ w) + length (10%N :: para t))
        by (rewrite app_length; change (length K_P) with 12; cbn [length]; slia).
      apply slice_mid. }
    rewrite S, (strip_simple_para t Ht), (strip_plain t Ht). rewrite para_length.
    apply andb_true_iff. split; [apply Z.ltb_lt; slia | apply Nat.ltb_lt; slia]. }
  destruct g2 as [|r g]; [congruence|].
  cbn [forallb] in Hn2, Hp2. apply andb_true_iff in Hn2 as [Ha Hb]. apply andb_true_iff in Hp2 as [Hc Hd].
  cbn [rows_of fold_left]. rewrite (step_eq _ _ _ _ _ _ _ (nonnil_ne _ Ha) Hc), B.
  match goal with |- context [Z.of_nat (?a + length (Rrow r))] =>
    replace (Z.of_nat (a + length (Rrow r))) with (Z.of_nat (a + length (Rrow r) + 1) - 1)%Z by slia end.
  rewrite (fold_rows_cont _ _ _ _ _ Hb Hd).
  change (rev g ++ [r]) with (rev (r :: g)). rewrite is_nil_rev by discriminate. rewrite !rev_involutive. reflexivity.
Qed.

(* ------------------------------------------------------------------ render variants: tight empty cells,
   arbitrary separator after \row *)
Hypothesis wd125 : is_word 125 = false.
Ltac slia2 := clear wd125; slia.

Definition pre_gen (tight : bool) (t : str) : str := if tight && is_nil t then [] else 32%N :: t.
Definition body_gen (tight : bool) (cells : list str) : str :=
  concat (map (fun t => pre_gen tight t ++ 92%N :: K_cell) cells).
Definition Rrow_gen (tight : bool) (cells : list str) : str :=
  92%N :: K_trowd ++ body_gen tight cells ++ 92%N :: K_row.

Lemma cell_text_nil : rtf_cell_text is_ws [] = [].
Proof. reflexivity. Qed.
Lemma cell_text_trowd_only : rtf_cell_text is_ws (92%N :: K_trowd) = [].
Proof. vm_compute. reflexivity. Qed.

Section Gen.
Variable tight : bool.

Lemma body_gen_cons t cs : body_gen tight (t :: cs) = pre_gen tight t ++ 92%N :: K_cell ++ body_gen tight cs.
Proof. unfold body_gen. cbn [map concat]. rewrite <- app_assoc. reflexivity. Qed.

Lemma pre_gen_nobs t : plain t = true -> forallb nobs (pre_gen tight t) = true.
Proof.
  intro H. destruct (plain_parts t H) as (H1 & _). unfold pre_gen. destruct (tight && is_nil t); [reflexivity|].
  cbn [forallb]. rewrite (pchars_nobs _ H1). reflexivity.
Qed.

Lemma cell_text_pre t : plain t = true -> rtf_cell_text is_ws (pre_gen tight t) = t.
Proof.
  intro H. unfold pre_gen. destruct (tight && is_nil t) eqn:E; [|apply (rtf_cell_text_plain t H)].
  apply andb_true_iff in E as [_ E]. destruct t; [apply cell_text_nil|discriminate].
Qed.

Lemma cell_text_first_pre t : plain t = true -> rtf_cell_text is_ws (92%N :: K_trowd ++ pre_gen tight t) = t.
Proof.
  intro H. unfold pre_gen. destruct (tight && is_nil t) eqn:E; [|apply (rtf_cell_text_first' t H)].
  apply andb_true_iff in E as [_ E]. destruct t; [|discriminate]. rewrite app_nil_r. apply cell_text_trowd_only.
Qed.

Lemma body_gen_tail_head cs d y : is_word d = false ->
  exists d' z, body_gen tight cs ++ d :: y = d' :: z /\ is_word d' = false.
Proof.
  intro H. destruct cs as [|t cs]; [exists d, y; split; [reflexivity|exact H]|].
  rewrite body_gen_cons. unfold pre_gen. destruct (tight && is_nil t); cbn [app]; eexists _, _; split;
    try reflexivity; assumption.
Qed.

Lemma split_body_step_gen t cs cur d y : plain t = true -> is_word d = false ->
  re_split m_cell 0 cur (body_gen tight (t :: cs) ++ d :: y)
  = (rev cur ++ pre_gen tight t) :: re_split m_cell 0 [] (body_gen tight cs ++ d :: y).
Proof.
  intros H Hd. rewrite body_gen_cons, <- app_assoc.
  rewrite (rs_none_app _ nobs _ (pre_gen tight t)); [| apply m_word_b_nobs | apply pre_gen_nobs, H].
  destruct (body_gen_tail_head cs d y Hd) as (d' & z & E & Hd').
  cbn [app]. rewrite <- app_assoc, E. cbn [re_split]. rewrite (m_word_b_hit is_word K_cell d' z Hd').
  cbn [pred]. rewrite rs_skip. rewrite rev_app_distr, rev_involutive. reflexivity.
Qed.

Lemma split_body_gen cs d y : forallb plain cs = true -> is_word d = false ->
  re_split m_cell 0 [] (body_gen tight cs ++ d :: y) = map (pre_gen tight) cs ++ re_split m_cell 0 [] (d :: y).
Proof.
  intros H Hd. induction cs as [|t cs IH]; [reflexivity|]. cbn [forallb] in H. apply andb_true_iff in H as [Ht Hc].
  rewrite (split_body_step_gen t cs [] d y Ht Hd), (IH Hc). reflexivity.
Qed.

Lemma split_row_gen t cs : forallb plain (t :: cs) = true ->
  re_split m_cell 0 [] (Rrow_gen tight (t :: cs))
  = ((92%N :: K_trowd ++ pre_gen tight t) :: map (pre_gen tight) cs) ++ [92%N :: K_row].
Proof.
  intro H. cbn [forallb] in H. apply andb_true_iff in H as [Ht Hc]. unfold Rrow_gen.
  cbn [re_split]. rewrite m_word_b_miss by reflexivity.
  rewrite (rs_none_app _ nobs _ K_trowd); [| apply m_word_b_nobs | reflexivity].
  rewrite (split_body_step_gen t cs _ 92%N K_row Ht wd92), (split_body_gen cs 92%N K_row Hc wd92), split_row_tail.
  reflexivity.
Qed.

Lemma row_cells_Rrow_gen cells : cells <> [] -> forallb plain cells = true ->
  rtf_row_cells is_ws is_word (Rrow_gen tight cells) = cells.
Proof.
  intros Hne H. destruct cells as [|t cs]; [congruence|]. unfold rtf_row_cells.
  change (s "cell") with K_cell. rewrite (split_row_gen t cs H), removelast_last. cbn [map forallb] in *.
  apply andb_true_iff in H as [Ht Hc]. rewrite (cell_text_first_pre t Ht). f_equal.
  rewrite map_map. rewrite <- (map_id cs) at 2. apply map_ext_in. intros a Ha.
  apply (cell_text_pre a). revert a Ha. apply forallb_forall, Hc.
Qed.

Lemma body_gen_length t cs :
  length (body_gen tight (t :: cs)) = length (pre_gen tight t) + 5 + length (body_gen tight cs).
Proof. rewrite body_gen_cons, app_length. cbn [length]. rewrite app_length. cbn [length K_cell]. slia2. Qed.

Lemma Rrow_gen_length r : length (Rrow_gen tight r) = length (body_gen tight r) + 10.
Proof. unfold Rrow_gen. cbn [length]. rewrite !app_length. cbn [length K_trowd K_row]. slia2. Qed.

Lemma Rrow_gen_app r y : Rrow_gen tight r ++ y = 92%N :: K_trowd ++ body_gen tight r ++ 92%N :: K_row ++ y.
Proof. unfold Rrow_gen. cbn [app]. rewrite <- !app_assoc. reflexivity. Qed.

Lemma fa_body_gen kw off cells y :
  (forall z, startswith (K_cell ++ z) kw = false) -> forallb plain cells = true ->
  re_find_all (m_word_b is_word kw) 0 off (body_gen tight cells ++ y)
  = re_find_all (m_word_b is_word kw) 0 (off + length (body_gen tight cells)) y.
Proof.
  intros Hk. revert off. induction cells as [|t cs IH]; intros off H.
  - cbn [body_gen map concat length app]. rewrite Nat.add_0_r. reflexivity.
  - cbn [forallb] in H. apply andb_true_iff in H as [Ht Hc].
    rewrite body_gen_length, body_gen_cons, <- app_assoc.
    rewrite (fa_none_app _ nobs _ (pre_gen tight t)); [| apply m_word_b_nobs | apply pre_gen_nobs, Ht].
    cbn [app]. rewrite <- app_assoc. rewrite (fa_miss_wb kw _ _ (Hk _)).
    rewrite (fa_none_app _ nobs _ K_cell); [| apply m_word_b_nobs | reflexivity].
    rewrite (IH _ Hc). f_equal. cbn [length K_cell]. slia2.
Qed.

Lemma fa_trowd_row_gen off r y : forallb plain r = true ->
  re_find_all m_trowd 0 off (Rrow_gen tight r ++ y)
  = (off, off + 6) :: re_find_all m_trowd 0 (off + length (Rrow_gen tight r)) y.
Proof.
  intro H. rewrite Rrow_gen_app, Rrow_gen_length.
  destruct (body_gen_tail_head r 92%N (K_row ++ y) wd92) as (d & z & E & Hd).
  rewrite E, (fa_hit_wb K_trowd off d z Hd), <- E.
  rewrite (fa_body_gen K_trowd _ r _ (fun z => eq_refl) H).
  rewrite (fa_miss_wb K_trowd) by reflexivity.
  rewrite (fa_none_app _ nobs _ K_row); [| apply m_word_b_nobs | reflexivity].
  f_equal. f_equal. cbn [length K_trowd K_row]. slia2.
Qed.

Lemma fa_row_row_gen off r d y : forallb plain r = true -> is_word d = false ->
  re_find_all m_row 0 off (Rrow_gen tight r ++ d :: y)
  = (off + length (Rrow_gen tight r) - 4, off + length (Rrow_gen tight r))
    :: re_find_all m_row 0 (off + length (Rrow_gen tight r)) (d :: y).
Proof.
  intros H Hd. rewrite Rrow_gen_app, Rrow_gen_length.
  rewrite (fa_miss_wb K_row) by reflexivity.
  rewrite (fa_none_app _ nobs _ K_trowd); [| apply m_word_b_nobs | reflexivity].
  rewrite (fa_body_gen K_row _ r _ (fun z => eq_refl) H).
  rewrite (fa_hit_wb K_row _ d y Hd).
  cbn [length K_trowd K_row]. f_equal; [f_equal; slia2 | f_equal; slia2].
Qed.

(* what a separator must satisfy *)
Definition SepOK (sep : str) : Prop :=
  (forall kw off y, (forall z, startswith (112%N :: z) kw = false) ->
     re_find_all (m_word_b is_word kw) 0 off (sep ++ y) = re_find_all (m_word_b is_word kw) 0 (off + length sep) y)
  /\ (forall d y, is_word d = false -> exists d' z, sep ++ d :: y = d' :: z /\ is_word d' = false)
  /\ length sep <= 5.

Variable sep : str.
Hypothesis HS : SepOK sep.

Definition rows_gen (g : list (list str)) : str := concat (map (fun r => Rrow_gen tight r ++ sep) g).
Definition total_gen (g : list (list str)) : nat := length (rows_gen g).

Lemma rows_gen_cons r g : rows_gen (r :: g) = Rrow_gen tight r ++ sep ++ rows_gen g.
Proof. unfold rows_gen. cbn [map concat]. rewrite <- app_assoc. reflexivity. Qed.

Lemma total_gen_cons r g : total_gen (r :: g) = length (Rrow_gen tight r) + length sep + total_gen g.
Proof. unfold total_gen. rewrite rows_gen_cons, !app_length. slia2. Qed.

Fixpoint spans_gen (off : nat) (g : list (list str)) : list (nat * nat) :=
  match g with
  | [] => []
  | r :: g' => (off, off + length (Rrow_gen tight r)) :: spans_gen (off + length (Rrow_gen tight r) + length sep) g'
  end.

Lemma fa_trowd_rows_gen off g y : forallb (forallb plain) g = true ->
  map fst (re_find_all m_trowd 0 off (rows_gen g ++ y))
  = map fst (spans_gen off g) ++ map fst (re_find_all m_trowd 0 (off + total_gen g) y).
Proof.
  destruct HS as (S1 & _ & _). revert off. induction g as [|r g IH]; intros off H.
  - cbn [rows_gen map concat app total_gen length spans_gen]. rewrite Nat.add_0_r. reflexivity.
  - cbn [forallb] in H. apply andb_true_iff in H as [Hr Hg].
    rewrite rows_gen_cons, <- !app_assoc. rewrite (fa_trowd_row_gen _ _ _ Hr). cbn [map fst spans_gen app].
    rewrite (S1 K_trowd _ _ (fun z => eq_refl)), (IH _ Hg), total_gen_cons. do 4 f_equal. slia2.
Qed.

Lemma rows_gen_head g d y : is_word d = false ->
  exists d0 y0, rows_gen g ++ d :: y = d0 :: y0 /\ is_word d0 = false.
Proof.
  intro H. destruct g as [|r g]; [exists d, y; split; [reflexivity|exact H]|].
  rewrite rows_gen_cons. unfold Rrow_gen. cbn [app]. eexists _, _. split; [reflexivity|exact wd92].
Qed.

Lemma fa_row_rows_gen off g d y : forallb (forallb plain) g = true -> is_word d = false ->
  map snd (re_find_all m_row 0 off (rows_gen g ++ d :: y))
  = map snd (spans_gen off g) ++ map snd (re_find_all m_row 0 (off + total_gen g) (d :: y)).
Proof.
  destruct HS as (S1 & S2 & _). intros H Hd. revert off. induction g as [|r g IH]; intros off.
  - cbn [rows_gen map concat app total_gen length spans_gen]. rewrite Nat.add_0_r. reflexivity.
  - cbn [forallb] in H. apply andb_true_iff in H as [Hr Hg].
    rewrite rows_gen_cons, <- !app_assoc.
    destruct (rows_gen_head g d y Hd) as (d0 & y0 & E0 & Hd0).
    destruct (S2 d0 y0 Hd0) as (d1 & y1 & E1 & Hd1).
    rewrite E0, E1, (fa_row_row_gen _ _ _ _ Hr Hd1), <- E1, <- E0. cbn [map snd spans_gen app].
    rewrite (S1 K_row _ _ (fun z => eq_refl)), (IH Hg), total_gen_cons. do 4 f_equal. slia2.
Qed.

Lemma Rrow_gen_pos r : 0 < length (Rrow_gen tight r).
Proof. rewrite Rrow_gen_length. slia2. Qed.

Lemma chain_spans_gen off g : chain off (spans_gen off g).
Proof.
  revert off. induction g as [|r g IH]; intro off; [constructor|].
  cbn [spans_gen chain fst snd]. pose proof (Rrow_gen_pos r). repeat split; try slia2.
  apply (chain_weaken _ (off + length (Rrow_gen tight r) + length sep)); [slia2 | apply IH].
Qed.

Fixpoint rows_of_gen (off : nat) (g : list (list str)) : list (nat * nat * str) :=
  match g with
  | [] => []
  | r :: g' => (off, off + length (Rrow_gen tight r), Rrow_gen tight r)
               :: rows_of_gen (off + length (Rrow_gen tight r) + length sep) g'
  end.

Lemma rows_slices_gen pre g post :
  map (mk_row (pre ++ rows_gen g ++ post)) (spans_gen (length pre) g) = rows_of_gen (length pre) g.
Proof.
  revert pre. induction g as [|r g IH]; intro pre; [reflexivity|].
  cbn [spans_gen rows_of_gen map]. unfold mk_row at 1. cbn [fst snd]. f_equal.
  - rewrite rows_gen_cons, <- app_assoc. rewrite slice_mid. reflexivity.
  - specialize (IH (pre ++ Rrow_gen tight r ++ sep)).
    assert (E : length (pre ++ Rrow_gen tight r ++ sep) = length pre + length (Rrow_gen tight r) + length sep)
      by (rewrite !app_length; slia2).
    rewrite E in IH. rewrite <- IH. f_equal. f_equal. rewrite rows_gen_cons, <- !app_assoc. reflexivity.
Qed.

Lemma table_rows_gen g : forallb (forallb plain) g = true ->
  rtf_table_rows is_word (K_P ++ rows_gen g ++ [125%N]) = rows_of_gen 12 g.
Proof.
  intro H. rewrite table_rows_unfold, fa_P_trowd, fa_P_row, (fa_trowd_rows_gen _ _ _ H),
    (fa_row_rows_gen _ _ _ _ H wd125).
  rewrite fa_end_trowd, fa_end_row. cbn [map]. rewrite !app_nil_r.
  rewrite (pair_rows _ [] 12 (spans_gen 12 g)); [| intros e [] | apply chain_spans_gen].
  exact (rows_slices_gen K_P g [125%N]).
Qed.

Lemma step_eq_gen text saved cur last a b r : r <> [] -> forallb plain r = true ->
  rtf_group_step is_ws is_word text (saved, cur, last) (a, b, Rrow_gen tight r)
  = if brk_cond text cur last a then (rtf_pad_rows (rev cur) :: saved, [r], Z.of_nat b)
    else (saved, r :: cur, Z.of_nat b).
Proof.
  intros Hne H. unfold rtf_group_step. rewrite (row_cells_Rrow_gen r Hne H). fold (brk_cond text cur last a).
  destruct (brk_cond text cur last a); destruct r; try congruence; reflexivity.
Qed.

Lemma brk_gap text cur off k : k <= 100 -> brk_cond text cur (Z.of_nat off - Z.of_nat k) off = false.
Proof.
  intro Hk. unfold brk_cond.
  assert ((100 <? Z.of_nat off - (Z.of_nat off - Z.of_nat k))%Z = false) as -> by (apply Z.ltb_ge; slia2).
  rewrite andb_false_r. reflexivity.
Qed.

Lemma fold_rows_cont_gen text saved cur off g :
  nonempty_rows g = true -> forallb (forallb plain) g = true ->
  fold_left (step text) (rows_of_gen off g) (saved, cur, (Z.of_nat off - Z.of_nat (length sep))%Z)
  = (saved, rev g ++ cur, (Z.of_nat (off + total_gen g) - Z.of_nat (length sep))%Z).
Proof.
  assert (HL : length sep <= 100) by (destruct HS as (_ & _ & HL); slia2).
  revert cur off. induction g as [|r g IH]; intros cur off Hn Hp.
  - cbn [rows_of_gen fold_left rev app]. unfold total_gen, rows_gen. cbn [map concat length].
    rewrite Nat.add_0_r. reflexivity.
  - cbn [forallb] in Hn, Hp. apply andb_true_iff in Hn as [Hn1 Hn2]. apply andb_true_iff in Hp as [Hp1 Hp2].
    cbn [rows_of_gen fold_left]. rewrite (step_eq_gen _ _ _ _ _ _ _ (nonnil_ne _ Hn1) Hp1), (brk_gap _ _ _ _ HL).
    replace (Z.of_nat (off + length (Rrow_gen tight r)))
      with (Z.of_nat (off + length (Rrow_gen tight r) + length sep) - Z.of_nat (length sep))%Z by slia2.
    rewrite (IH _ _ Hn2 Hp2). cbn [rev]. rewrite <- app_assoc. cbn [app]. rewrite total_gen_cons.
    do 2 f_equal. slia2.
Qed.

Lemma r_row_gen_eq r : rtf_r_row_gen tight sep r = Rrow_gen tight r ++ sep.
Proof. unfold rtf_r_row_gen. rewrite !app_assoc. rewrite <- (app_assoc (s "\trowd")). reflexivity. Qed.

Lemma doc_gen_eq g : rtf_r_doc_gen tight sep g = K_P ++ rows_gen g ++ [125%N].
Proof.
  unfold rtf_r_doc_gen, rows_gen. change (s "{\rtf1\ansi ") with K_P. change (s "}") with [125%N].
  do 3 f_equal. apply map_ext. intro r. apply r_row_gen_eq.
Qed.

Lemma tables_single_gen_core g : g <> [] -> nonempty_rows g = true -> forallb (forallb plain) g = true ->
  rtf_tables is_ws is_word (rtf_r_doc_gen tight sep g) = [rtf_pad_rows g].
Proof.
  intros Hne Hn Hp. rewrite doc_gen_eq. unfold rtf_tables. rewrite (table_rows_gen g Hp).
  destruct g as [|r g]; [congruence|].
  cbn [forallb] in Hn, Hp. apply andb_true_iff in Hn as [Hn1 Hn2]. apply andb_true_iff in Hp as [Hp1 Hp2].
  cbn [rows_of_gen fold_left]. rewrite (step_eq_gen _ _ _ _ _ _ _ (nonnil_ne _ Hn1) Hp1), brk_nil.
  replace (Z.of_nat (12 + length (Rrow_gen tight r)))
    with (Z.of_nat (12 + length (Rrow_gen tight r) + length sep) - Z.of_nat (length sep))%Z by slia2.
  rewrite (fold_rows_cont_gen _ _ _ _ _ Hn2 Hp2).
  change (rev g ++ [r]) with (rev (r :: g)). rewrite is_nil_rev by discriminate. rewrite rev_involutive. reflexivity.
Qed.

End Gen.

Lemma SepOK_nobs sep : forallb nobs sep = true ->
  match sep with [] => True | c :: _ => is_word c = false end -> length sep <= 5 -> SepOK sep.
Proof.
  intros H1 H2 H3. repeat split; [| |exact H3].
  - intros kw off y _. apply (fa_none_app _ nobs); [apply m_word_b_nobs | exact H1].
  - intros d y Hd. destruct sep as [|c r]; [exists d, y; split; [reflexivity|exact Hd]|].
    exists c, (r ++ d :: y). split; [reflexivity|exact H2].
Qed.

Lemma SepOK_pard : SepOK (92%N :: K_pard).
Proof.
  repeat split.
  - intros kw off y Hk. cbn [app]. rewrite (fa_miss_wb kw _ (K_pard ++ y) (Hk _)).
    rewrite (fa_none_app _ nobs _ K_pard); [| apply m_word_b_nobs | reflexivity]. f_equal. cbn [length K_pard]. slia2.
  - intros d y _. eexists _, _. split; [reflexivity|exact wd92].
  - cbn. slia2.
Qed.

Lemma sep_ok_SepOK sep : rtf_row_sep_ok sep = true -> SepOK sep.
Proof.
  unfold rtf_row_sep_ok. cbn [mem_str]. intro H.
  repeat (apply orb_true_iff in H as [H|H]); try discriminate; apply str_eqb_eq in H; subst sep.
  - apply SepOK_nobs; [reflexivity | exact I | cbn; slia2].
  - apply SepOK_nobs; [reflexivity | exact wd32 | cbn; slia2].
  - apply SepOK_nobs; [reflexivity | exact wd10 | cbn; slia2].
  - apply SepOK_nobs; [reflexivity | exact wd125 | cbn; slia2].
  - exact SepOK_pard.
Qed.

(* G1 *)
Theorem rtf_row_cells_render_gen : forall tight cells, cells <> [] -> forallb plain cells = true ->
  rtf_row_cells is_ws is_word (s "\trowd" ++ concat (map (rtf_r_cell_gen tight) cells) ++ s "\row") = cells.
Proof. intros tight cells Hne H. exact (row_cells_Rrow_gen tight cells Hne H). Qed.

(* G2 *)
Theorem rtf_tables_single_gen : forall tight sep g, rtf_row_sep_ok sep = true -> g <> [] ->
  nonempty_rows g = true -> forallb (forallb plain) g = true ->
  rtf_tables is_ws is_word (rtf_r_doc_gen tight sep g) = [rtf_pad_rows g].
Proof.
  intros tight sep g Hs Hne Hn Hp. exact (tables_single_gen_core tight sep (sep_ok_SepOK sep Hs) g Hne Hn Hp).
Qed.

End Rtf.

(* ------------------------------------------------------------------ closed instances (non-vacuity of the
   section hypotheses): ws_ascii / wd_ascii satisfy every oracle hypothesis by computation *)
Theorem rtf_cell_text_plain_ascii : forall t, rtf_plain ws_ascii t = true -> rtf_cell_text ws_ascii (SP :: t) = t.
Proof. intros t H. apply rtf_cell_text_plain; try reflexivity; assumption. Qed.

Theorem rtf_cell_text_first_ascii : forall t,
  rtf_plain ws_ascii t = true -> rtf_cell_text ws_ascii (s "\trowd" ++ SP :: t) = t.
Proof. intros t H. apply rtf_cell_text_first; try reflexivity; assumption. Qed.

Theorem rtf_row_cells_render_ascii : forall cells, cells <> [] -> forallb (rtf_plain ws_ascii) cells = true ->
  rtf_row_cells ws_ascii wd_ascii (s "\trowd" ++ concat (map (fun t => SP :: t ++ s "\cell") cells) ++ s "\row") = cells.
Proof. intros cells H1 H2. apply rtf_row_cells_render; try reflexivity; assumption. Qed.

Theorem rtf_tables_single_ascii : forall g, g <> [] -> forallb (fun r => negb (is_nil r)) g = true ->
  forallb (forallb (rtf_plain ws_ascii)) g = true ->
  rtf_tables ws_ascii wd_ascii (rtf_r_doc [RTable g]) = [rtf_pad_rows g].
Proof. intros g H1 H2 H3. apply rtf_tables_single; try reflexivity; assumption. Qed.

Theorem rtf_tables_long_separator_ascii : forall g1 g2 t,
  g1 <> [] -> forallb (fun r => negb (is_nil r)) g1 = true -> forallb (forallb (rtf_plain ws_ascii)) g1 = true ->
  g2 <> [] -> forallb (fun r => negb (is_nil r)) g2 = true -> forallb (forallb (rtf_plain ws_ascii)) g2 = true ->
  rtf_plain ws_ascii t = true -> 90 <= length t ->
  rtf_tables ws_ascii wd_ascii (rtf_r_doc [RTable g1; RPara t; RTable g2]) = [rtf_pad_rows g1; rtf_pad_rows g2].
Proof. intros. apply rtf_tables_long_separator; try reflexivity; assumption. Qed.

Print Assumptions rtf_plain_nonvacuous.
Print Assumptions rtf_adjacent_witness.
Print Assumptions rtf_adjacent_direct_witness.
Print Assumptions rtf_single_witness.
Print Assumptions rtf_long_separator_witness.
Print Assumptions rtf_adjacent_tables_merged_refuted.
Print Assumptions rtf_pad_rows_rect.
Print Assumptions rtf_get_dim.
Print Assumptions rtf_pad_rows_id.
Print Assumptions re_sub_no_match.
Print Assumptions m_unicode_nobs.
Print Assumptions m_hex_escape_nobs.
Print Assumptions m_special_nobs.
Print Assumptions m_control_nobs.
Print Assumptions m_word_b_nobs.
Print Assumptions m_surrogate_nosurr.
Print Assumptions rtf_cell_text_plain.
Print Assumptions rtf_cell_text_first.
Print Assumptions rtf_row_cells_render.
Print Assumptions rtf_tables_single.
Print Assumptions rtf_tables_long_separator.
Print Assumptions rtf_cell_text_plain_ascii.
Print Assumptions rtf_cell_text_first_ascii.
Print Assumptions rtf_row_cells_render_ascii.
Print Assumptions rtf_tables_single_ascii.
Print Assumptions rtf_tables_long_separator_ascii.

(* ------------------------------------------------------------------ render variants: closed instances *)
Theorem rtf_row_cells_render_gen_ascii : forall tight cells, cells <> [] -> forallb (rtf_plain ws_ascii) cells = true ->
  rtf_row_cells ws_ascii wd_ascii (s "\trowd" ++ concat (map (rtf_r_cell_gen tight) cells) ++ s "\row") = cells.
Proof. intros tight cells H1 H2. apply rtf_row_cells_render_gen; try reflexivity; assumption. Qed.

Theorem rtf_tables_single_gen_ascii : forall tight sep g, rtf_row_sep_ok sep = true -> g <> [] ->
  forallb (fun r => negb (is_nil r)) g = true -> forallb (forallb (rtf_plain ws_ascii)) g = true ->
  rtf_tables ws_ascii wd_ascii (rtf_r_doc_gen tight sep g) = [rtf_pad_rows g].
Proof. intros tight sep g H0 H1 H2 H3. apply rtf_tables_single_gen; try reflexivity; assumption. Qed.

Definition g4 : list (list str) :=
  [[s "a"; []; s "c"]; [[]; s "e"; s "f"]; [s "g"; s "h"; []]; [s "j"; s "k"; s "l"]].

Example rtf_gen_tight_nosep_witness : rtf_tables ws_ascii wd_ascii (rtf_r_doc_gen true [] g4) = [g4].
Proof. vm_compute. reflexivity. Qed.

Example rtf_gen_group_sep_witness : rtf_tables ws_ascii wd_ascii (rtf_r_doc_gen false (s "}{") g4) = [g4].
Proof. vm_compute. reflexivity. Qed.

Example rtf_group_offset0_witness :
  rtf_tables ws_ascii wd_ascii (s "{\rtf1{\trowd a\cell\row\trowd b\cell\row}}") = [[[s "a"]; [s "b"]]].
Proof. vm_compute. reflexivity. Qed.

Print Assumptions rtf_row_cells_render_gen.
Print Assumptions rtf_tables_single_gen.
Print Assumptions rtf_row_cells_render_gen_ascii.
Print Assumptions rtf_tables_single_gen_ascii.
Print Assumptions rtf_gen_tight_nosep_witness.
Print Assumptions rtf_gen_group_sep_witness.
Print Assumptions rtf_group_offset0_witness.
