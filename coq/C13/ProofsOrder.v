(* C13 — order of the tables of a slide (ODP / PPTX): stable sort by position. *)
From Coq Require Import ZArith List Bool Lia ZifyBool Permutation.
From S2T Require Import Lib.PyStr C13.Model.
Import ListNotations.
Notation length := List.length.

Section Sort.
Context {A : Type} (k : A -> poskey).

Lemma insert_by_perm x l : Permutation (insert_by k x l) (x :: l).
Proof.
  induction l as [|y r IH]; cbn [insert_by]; [reflexivity|].
  destruct (poskey_leb (k x) (k y)); [reflexivity|].
  rewrite IH. apply perm_swap.
Qed.

Lemma stable_sort_by_perm l : Permutation (stable_sort_by k l) l.
Proof.
  induction l as [|x r IH]; cbn [stable_sort_by]; [reflexivity|].
  rewrite insert_by_perm. constructor. exact IH.
Qed.

(* already ordered by position (in particular: all positions equal or all missing) => untouched *)
Lemma stable_sort_by_sorted_id l : keys_sorted (map k l) = true -> stable_sort_by k l = l.
Proof.
  induction l as [|x r IH]; intro H; [reflexivity|].
  cbn [stable_sort_by]. destruct r as [|y r'].
  - reflexivity.
  - cbn [map keys_sorted] in H. apply andb_true_iff in H as [Hxy Hr].
    rewrite IH by exact Hr. cbn [insert_by]. rewrite Hxy. reflexivity.
Qed.
End Sort.

Lemma poskey_leb_refl a : poskey_leb a a = true.
Proof. unfold poskey_leb. rewrite Nat.eqb_refl, Nat.leb_refl. apply orb_true_r. Qed.

(* all frames at one position (stacked, or none has a usable position): sorted *)
Lemma keys_sorted_const (c : poskey) n : keys_sorted (repeat c n) = true.
Proof.
  induction n as [|n IH]; [reflexivity|]. cbn [repeat keys_sorted].
  destruct n; [reflexivity|]. cbn [repeat] in *. rewrite poskey_leb_refl. exact IH.
Qed.

Lemma flat_map_perm {X Y} (f : X -> list Y) l l' : Permutation l l' -> Permutation (flat_map f l) (flat_map f l').
Proof.
  induction 1; cbn [flat_map].
  - reflexivity.
  - apply Permutation_app_head. assumption.
  - rewrite !app_assoc. apply Permutation_app_tail. apply Permutation_app_comm.
  - etransitivity; eassumption.
Qed.

(* nothing lost, nothing invented: the tables of a slide are its source tables, rearranged *)
Theorem slide_tables_perm frames : Permutation (slide_tables frames) (flat_map frame_tables frames).
Proof. unfold slide_tables. apply flat_map_perm. apply stable_sort_by_perm. Qed.

Theorem deck_tables_perm slides : Permutation (deck_tables slides) (deck_source_tables slides).
Proof.
  unfold deck_tables, deck_source_tables. induction slides as [|sl r IH]; cbn [flat_map]; [reflexivity|].
  apply Permutation_app; [apply slide_tables_perm | exact IH].
Qed.

(* source order whenever the positions do not decrease along the document *)
Theorem deck_tables_source_order slides :
  forallb (fun sl => keys_sorted (map fst sl)) slides = true -> deck_tables slides = deck_source_tables slides.
Proof.
  unfold deck_tables, deck_source_tables. induction slides as [|sl r IH]; intro H; [reflexivity|].
  cbn [forallb] in H. apply andb_true_iff in H as [H1 H2]. cbn [flat_map]. rewrite IH by exact H2.
  unfold slide_tables. rewrite (stable_sort_by_sorted_id fst sl H1). reflexivity.
Qed.

(* in particular when every frame of a slide sits at the same position *)
Theorem slide_tables_same_position (c : poskey) (ts : list (option (list (list str)))) :
  slide_tables (map (fun t => (c, t)) ts) = flat_map frame_tables (map (fun t => (c, t)) ts).
Proof.
  unfold slide_tables. rewrite stable_sort_by_sorted_id; [reflexivity|].
  rewrite map_map. cbn [fst]. replace (map (fun _ : option (list (list str)) => c) ts) with (repeat c (length ts)).
  - apply keys_sorted_const.
  - induction ts; cbn; congruence.
Qed.

Example slide_order_example :
  slide_tables [((2, 0)%nat, Some [[s "late"]]); ((1, 5)%nat, None); ((1, 0)%nat, Some [[s "early"]]); ((1, 0)%nat, Some []);
                ((1, 0)%nat, Some [[s "same spot"]])]
  = [[[s "early"]]; [[s "same spot"]]; [[s "late"]]].
Proof. vm_compute. reflexivity. Qed.
