(* C13 — spreadsheet sheets (XLSX / XLS) and the get_dim / get_table agreement.
   A. get_dim is the shape of get_table for every table type.
   B. XLSX: _read_sheet_data returns the source grid exactly when the first row is a row of
      "ordinary" header strings and nothing is trimmed; refutations otherwise.
   C. XLS: dict-keyed rows rebuild the grid exactly when the header texts are pairwise
      distinct and there is at least one data row; refutations otherwise. *)
From Coq Require Import ZArith List Bool Lia ZifyBool.
From S2T Require Import Lib.PyStr C13.Model.
Import ListNotations.
Notation length := List.length.
Notation concat := List.concat.
Open Scope N_scope.

(* ================================================================== A. shapes *)

Theorem data_get_dim_is_shape : forall (A : Type) (data : list (list A)),
  data_get_dim data = (length (data_get_table data), max_len (data_get_table data)).
Proof. reflexivity. Qed.

Theorem xls_get_dim_is_shape : forall data,
  xls_get_dim data = (length (xls_get_table data), max_len (xls_get_table data)).
Proof. reflexivity. Qed.

Lemma max_len_rect : forall (A : Type) (data : list (list A)) c,
  data <> [] -> forallb (fun r => Nat.eqb (length r) c) data = true -> max_len data = c.
Proof.
  intros A data c Hne H. unfold max_len.
  induction data as [|r data IH]; [congruence|].
  cbn [forallb] in H. apply andb_true_iff in H as [H1 H2]. apply Nat.eqb_eq in H1.
  cbn [map fold_right]. destruct data as [|r' data'].
  - cbn [map fold_right]. lia.
  - rewrite IH; [lia | discriminate | exact H2].
Qed.

Theorem data_get_dim_rect : forall (A : Type) (data : list (list A)) r c,
  length data = r -> (1 <= r)%nat ->
  forallb (fun row => Nat.eqb (length row) c) data = true ->
  data_get_dim data = (r, c).
Proof.
  intros A data r c Hl Hr H. unfold data_get_dim.
  rewrite (max_len_rect A data c); [subst; reflexivity | | exact H].
  intro E; subst data; cbn in Hl; lia.
Qed.

(* ================================================================== generic list facts *)

Lemma rev_dropWhile_last {A} (p : A -> bool) (g : list A) d :
  g <> [] -> p (last g d) = false -> rev (dropWhile p (rev g)) = g.
Proof.
  intros Hne Hp. destruct (exists_last Hne) as [g' [x ->]].
  rewrite last_last in Hp. rewrite rev_unit. cbn [dropWhile]. rewrite Hp.
  rewrite <- rev_unit. apply rev_involutive.
Qed.

Lemma dropWhile_length_le {A} (p : A -> bool) l : (length (dropWhile p l) <= length l)%nat.
Proof.
  induction l as [|a l IH]; cbn [dropWhile]; [lia|].
  destruct (p a); cbn [List.length]; lia.
Qed.

Lemma fold_max_le (l : list nat) c :
  (forall x, In x l -> (x <= c)%nat) -> (fold_right Nat.max O l <= c)%nat.
Proof.
  induction l as [|a l IH]; intro H; cbn [fold_right]; [lia|].
  assert (a <= c)%nat by (apply H; left; reflexivity).
  assert (fold_right Nat.max O l <= c)%nat by (apply IH; intros x Hx; apply H; right; exact Hx).
  lia.
Qed.

Lemma fold_max_eq (l : list nat) c :
  (forall x, In x l -> (x <= c)%nat) -> In c l -> fold_right Nat.max O l = c.
Proof.
  intros Hle Hin. pose proof (fold_max_le l c Hle) as Hub.
  assert (c <= fold_right Nat.max O l)%nat; [|lia].
  clear Hle Hub. induction l as [|a l IH]; [destruct Hin|].
  cbn [fold_right]. destruct Hin as [->|Hin]; [lia|]. specialize (IH Hin). lia.
Qed.

Lemma map_firstn_rect {A} (c : nat) (g : list (list A)) :
  forallb (fun r => Nat.eqb (length r) c) g = true -> map (firstn c) g = g.
Proof.
  intro H. rewrite <- (map_id g) at 2. apply map_ext_in. intros r Hr.
  rewrite forallb_forall in H. specialize (H r Hr). apply Nat.eqb_eq in H. subst c.
  apply firstn_all.
Qed.

(* ================================================================== B. XLSX *)

Definition header_cell_ok (is_ws : N -> bool) (c : xcell) : bool :=
  match xc_val c with
  | VStr t => negb (is_nil (strip is_ws t)) && negb (startswith t UNNAMED) && str_eqb (xc_str c) t
              && (match xc_conv c with None => true | Some _ => false end)
  | _ => false
  end.
Definition header_ok (is_ws : N -> bool) (g : list (list xcell)) : bool :=
  match g with r0 :: _ => forallb (header_cell_ok is_ws) r0 | [] => false end.
Definition x_rect (c : nat) (g : list (list xcell)) : bool :=
  forallb (fun r => Nat.eqb (length r) c) g.
Definition x_last_row_has_data (is_ws : N -> bool) (g : list (list xcell)) : bool :=
  existsb (x_non_empty is_ws) (last g []).
Definition x_last_col_has_data (is_ws : N -> bool) (c : nat) (g : list (list xcell)) : bool :=
  existsb (fun r => x_non_empty is_ws (nth (c - 1) r xnone)) g.

(* ---- trimming is the identity *)
Lemma x_trim_rows_id is_ws g :
  g <> [] -> x_last_row_has_data is_ws g = true -> x_trim_rows is_ws g = g.
Proof.
  intros Hne H. unfold x_trim_rows, x_last_row_has_data in *.
  apply (rev_dropWhile_last _ g []); [exact Hne|]. rewrite H. reflexivity.
Qed.

Lemma x_last_data_le is_ws r : (x_last_data is_ws r <= length r)%nat.
Proof.
  unfold x_last_data. rewrite <- (rev_length r). apply dropWhile_length_le.
Qed.

Lemma x_last_data_full is_ws r c :
  length r = c -> (1 <= c)%nat -> x_non_empty is_ws (nth (c - 1) r xnone) = true ->
  x_last_data is_ws r = c.
Proof.
  intros Hl Hc Hn. assert (Hne : r <> []) by (intro E; subst r; cbn in Hl; lia).
  destruct (exists_last Hne) as [r' [x E]]. subst r.
  rewrite app_length in Hl. cbn [List.length] in Hl.
  replace (c - 1)%nat with (length r') in Hn by lia.
  rewrite app_nth2 in Hn by lia. rewrite Nat.sub_diag in Hn. cbn [nth] in Hn.
  unfold x_last_data. rewrite rev_unit. cbn [dropWhile]. rewrite Hn. cbn [negb List.length].
  rewrite rev_length. lia.
Qed.

Lemma x_last_col_rect is_ws g c :
  (1 <= c)%nat -> x_rect c g = true -> x_last_col_has_data is_ws c g = true ->
  x_last_col is_ws g = c.
Proof.
  intros Hc Hr Hl. unfold x_last_col, x_rect, x_last_col_has_data in *.
  rewrite forallb_forall in Hr. apply fold_max_eq.
  - intros x Hx. apply in_map_iff in Hx as [r [<- Hin]].
    specialize (Hr r Hin). apply Nat.eqb_eq in Hr. rewrite <- Hr. apply x_last_data_le.
  - apply existsb_exists in Hl as [r [Hin Hn]]. apply in_map_iff. exists r. split; [|exact Hin].
    specialize (Hr r Hin). apply Nat.eqb_eq in Hr. apply x_last_data_full; assumption.
Qed.

(* ---- the header row *)
Lemma header_cell_ok_inv is_ws c :
  header_cell_ok is_ws c = true ->
  exists t, xc_val c = VStr t /\ is_nil (strip is_ws t) = false /\ startswith t UNNAMED = false
            /\ xc_str c = t /\ xc_conv c = None.
Proof.
  unfold header_cell_ok. destruct (xc_val c) as [|t| | | |]; try discriminate.
  intro H. repeat (apply andb_true_iff in H as [H ?]).
  exists t. repeat split.
  - apply negb_true_iff; assumption.
  - apply negb_true_iff; assumption.
  - apply str_eqb_eq; assumption.
  - destruct (xc_conv c); [discriminate | reflexivity].
Qed.

Lemma header_cell_value is_ws c :
  header_cell_ok is_ws c = true -> x_cell_value c = VStr (xc_str c).
Proof.
  intro H. apply header_cell_ok_inv in H as [t [Hv [_ [_ [Hs Hi]]]]].
  unfold x_cell_value. rewrite Hv, Hi, Hs. reflexivity.
Qed.

Lemma header_cell_meaningful is_ws c :
  header_cell_ok is_ws c = true -> x_meaningful is_ws (x_cell_value c) = true.
Proof.
  intro H. rewrite (header_cell_value is_ws c H).
  apply header_cell_ok_inv in H as [t [Hv [Hn [Hu [Hs Hi]]]]].
  rewrite Hs. cbn [x_meaningful]. rewrite Hn, Hu. reflexivity.
Qed.

Lemma x_headers_ok is_ws r0 : forall i,
  forallb (header_cell_ok is_ws) r0 = true ->
  map VStr (x_headers is_ws i r0) = map x_cell_value r0.
Proof.
  induction r0 as [|c r0 IH]; intros i H; [reflexivity|].
  cbn [forallb] in H. apply andb_true_iff in H as [Hc Hr].
  cbn [x_headers map]. rewrite (IH _ Hr). rewrite (header_cell_value is_ws c Hc).
  apply header_cell_ok_inv in Hc as [t [Hv [Hn [Hu [Hs Hi]]]]].
  rewrite Hv, Hn. reflexivity.
Qed.

Lemma filter_meaningful_ok is_ws r0 :
  forallb (header_cell_ok is_ws) r0 = true ->
  filter (x_meaningful is_ws) (map x_cell_value r0) = map x_cell_value r0.
Proof.
  induction r0 as [|c r0 IH]; intro H; [reflexivity|].
  cbn [forallb] in H. apply andb_true_iff in H as [Hc Hr].
  cbn [map filter]. rewrite (header_cell_meaningful is_ws c Hc), (IH Hr). reflexivity.
Qed.

Lemma not_table_name_row is_ws r0 :
  forallb (header_cell_ok is_ws) r0 = true ->
  x_is_table_name_row is_ws (map x_cell_value r0) = false.
Proof.
  intro H. unfold x_is_table_name_row. rewrite (filter_meaningful_ok is_ws r0 H).
  destruct (Nat.eqb_spec (length (map x_cell_value r0)) 1) as [E|E]; [rewrite E|]; reflexivity.
Qed.

Theorem xlsx_sheet_partial : forall is_ws g c,
  (1 <= c)%nat -> header_ok is_ws g = true -> x_rect c g = true ->
  x_last_row_has_data is_ws g = true -> x_last_col_has_data is_ws c g = true ->
  xlsx_sheet is_ws g = xgrid_spec g.
Proof.
  intros is_ws g c Hc Hh Hr Hlr Hlc.
  destruct g as [|r0 rest]; [discriminate|].
  cbn [header_ok] in Hh.
  assert (Hall : x_all_rows is_ws (r0 :: rest)
                 = map x_cell_value r0 :: map (map x_cell_value) rest).
  { unfold x_all_rows. rewrite x_trim_rows_id by (try discriminate; assumption).
    cbv beta iota zeta. rewrite (x_last_col_rect is_ws (r0 :: rest) c Hc Hr Hlc).
    rewrite (map_firstn_rect c (r0 :: rest) Hr).
    rewrite (x_headers_ok is_ws r0 0 Hh). reflexivity. }
  unfold xlsx_sheet. rewrite Hall. rewrite (not_table_name_row is_ws r0 Hh). reflexivity.
Qed.

(* ---- B2 refutations (closed witnesses, ASCII whitespace) *)
Definition xw_empty_header : list (list xcell) :=
  [[xstr (s "a"); xnone; xstr (s "c")]; [xstr (s "1"); xstr (s "2"); xstr (s "3")]].
Example xlsx_empty_header_value :
  xlsx_sheet ws_ascii xw_empty_header
    = [[VStr (s "a"); VStr (s "Unnamed: 1"); VStr (s "c")]; [VStr (s "1"); VStr (s "2"); VStr (s "3")]]
  /\ xgrid_spec xw_empty_header
    = [[VStr (s "a"); VNone; VStr (s "c")]; [VStr (s "1"); VStr (s "2"); VStr (s "3")]].
Proof. split; vm_compute; reflexivity. Qed.
Theorem xlsx_empty_header_refuted :
  exists g, x_rect 3 g = true /\ x_last_row_has_data ws_ascii g = true
            /\ x_last_col_has_data ws_ascii 3 g = true
            /\ xlsx_sheet ws_ascii g <> xgrid_spec g.
Proof.
  exists xw_empty_header. repeat split; try (vm_compute; reflexivity).
  vm_compute. discriminate.
Qed.

Definition xw_title_row : list (list xcell) :=
  [[xstr (s "Title"); xnone]; [xstr (s "1"); xstr (s "2")]].
Example xlsx_title_row_value :
  xlsx_sheet ws_ascii xw_title_row = [[VStr (s "1"); VStr (s "2")]]
  /\ xgrid_spec xw_title_row = [[VStr (s "Title"); VNone]; [VStr (s "1"); VStr (s "2")]].
Proof. split; vm_compute; reflexivity. Qed.
Theorem xlsx_title_row_refuted :
  exists g, x_rect 2 g = true /\ x_last_row_has_data ws_ascii g = true
            /\ x_last_col_has_data ws_ascii 2 g = true
            /\ length (xlsx_sheet ws_ascii g) = 1%nat /\ length g = 2%nat
            /\ xlsx_sheet ws_ascii g <> xgrid_spec g.
Proof.
  exists xw_title_row. repeat split; try (vm_compute; reflexivity).
  vm_compute. discriminate.
Qed.

Definition xw_int_header : list (list xcell) :=
  [[xstr (s "a"); {| xc_val := VInt 5; xc_str := s "5"; xc_conv := None |}];
   [xstr (s "1"); xstr (s "2")]].
Example xlsx_typed_header_value :
  xlsx_sheet ws_ascii xw_int_header = [[VStr (s "a"); VStr (s "5")]; [VStr (s "1"); VStr (s "2")]]
  /\ xgrid_spec xw_int_header = [[VStr (s "a"); VInt 5]; [VStr (s "1"); VStr (s "2")]].
Proof. split; vm_compute; reflexivity. Qed.
Theorem xlsx_typed_header_refuted :
  exists g, x_rect 2 g = true /\ x_last_row_has_data ws_ascii g = true
            /\ x_last_col_has_data ws_ascii 2 g = true
            /\ xlsx_sheet ws_ascii g <> xgrid_spec g.
Proof.
  exists xw_int_header. repeat split; try (vm_compute; reflexivity).
  vm_compute. discriminate.
Qed.

Definition xw_date_header : list (list xcell) :=
  [[xstr (s "d"); {| xc_val := VOther (s "datetime(2024,1,2,0,0)");
                     xc_str := s "2024-01-02 00:00:00";
                     xc_conv := Some (s "2024-01-02T00:00:00") |}];
   [xstr (s "1"); xstr (s "2")]].
Example xlsx_date_header_value :
  xlsx_sheet ws_ascii xw_date_header
    = [[VStr (s "d"); VStr (s "2024-01-02 00:00:00")]; [VStr (s "1"); VStr (s "2")]]
  /\ xgrid_spec xw_date_header
    = [[VStr (s "d"); VStr (s "2024-01-02T00:00:00")]; [VStr (s "1"); VStr (s "2")]].
Proof. split; vm_compute; reflexivity. Qed.
Theorem xlsx_date_header_refuted :
  exists g, x_rect 2 g = true /\ x_last_row_has_data ws_ascii g = true
            /\ x_last_col_has_data ws_ascii 2 g = true
            /\ xlsx_sheet ws_ascii g <> xgrid_spec g.
Proof.
  exists xw_date_header. repeat split; try (vm_compute; reflexivity).
  vm_compute. discriminate.
Qed.

(* ---- B3 non-vacuity *)
Definition xw_good : list (list xcell) :=
  [[xstr (s "name"); xstr (s "qty")];
   [xstr (s "x"); {| xc_val := VInt 7; xc_str := s "7"; xc_conv := None |}]].
Example xlsx_sheet_partial_nonvacuous :
  (1 <= 2)%nat /\ header_ok ws_ascii xw_good = true /\ x_rect 2 xw_good = true
  /\ x_last_row_has_data ws_ascii xw_good = true /\ x_last_col_has_data ws_ascii 2 xw_good = true
  /\ xlsx_sheet ws_ascii xw_good = [[VStr (s "name"); VStr (s "qty")]; [VStr (s "x"); VInt 7]].
Proof. repeat split; try (vm_compute; reflexivity). lia. Qed.

(* ================================================================== C. XLS *)

Definition l_rect (c : nat) (g : list (list lcell)) : bool :=
  forallb (fun r => Nat.eqb (length r) c) g.

Lemma dict_set_fresh k v d : ~ In k (map fst d) -> dict_set k v d = d ++ [(k, v)].
Proof.
  induction d as [|[k' v'] d IH]; intro H; [reflexivity|].
  cbn [dict_set map fst In app] in *.
  destruct (str_eqb k k') eqn:E.
  - apply str_eqb_eq in E. subst. exfalso; apply H; left; reflexivity.
  - rewrite IH; [reflexivity|]. intro Hin; apply H; right; exact Hin.
Qed.

(* the dict built for one row: generalised over the accumulator and the column counter *)
Lemma xls_row_dict_nodup : forall cells hs col d,
  length hs = length cells -> nodup_str hs = true ->
  (forall h, In h hs -> ~ In h (map fst d)) ->
  xls_row_dict hs cells col d = d ++ combine hs (map lc_native cells).
Proof.
  induction cells as [|c cs IH]; intros hs col d Hlen Hnd Hdis.
  - destruct hs; [|discriminate]. cbn [xls_row_dict map combine]. rewrite app_nil_r. reflexivity.
  - destruct hs as [|h hs]; [discriminate|].
    cbn [xls_row_dict tl]. cbv zeta.
    rewrite dict_set_fresh by (apply Hdis; left; reflexivity).
    cbn [nodup_str] in Hnd. apply andb_true_iff in Hnd as [Hn1 Hn2]. apply negb_true_iff in Hn1.
    rewrite IH.
    + rewrite <- app_assoc. reflexivity.
    + cbn [List.length] in Hlen. lia.
    + exact Hn2.
    + intros h' Hin. rewrite map_app, in_app_iff. cbn [map fst In]. intros [H|[H|[]]].
      * apply (Hdis h'); [right; exact Hin | exact H].
      * subst h'. apply mem_str_In in Hin. congruence.
Qed.

Lemma combine_keys {A B} (l : list A) (l' : list B) :
  length l = length l' -> map fst (combine l l') = l.
Proof.
  revert l'; induction l as [|a l IH]; intros [|b l'] H; try discriminate; [reflexivity|].
  cbn [combine map fst]. rewrite IH; [reflexivity|]. cbn [List.length] in H. lia.
Qed.

Lemma dict_get_combine : forall hs vs,
  length hs = length vs -> nodup_str hs = true ->
  map (fun h => dict_get h (combine hs vs)) hs = vs.
Proof.
  induction hs as [|h hs IH]; intros [|v vs] Hlen Hnd; try discriminate; [reflexivity|].
  cbn [nodup_str] in Hnd. apply andb_true_iff in Hnd as [Hn1 Hn2]. apply negb_true_iff in Hn1.
  cbn [combine map]. f_equal.
  - unfold dict_get. cbn [assoc]. rewrite str_eqb_refl. reflexivity.
  - transitivity (map (fun h0 => dict_get h0 (combine hs vs)) hs);
      [|apply IH; [cbn [List.length] in Hlen; lia | exact Hn2]].
    apply map_ext_in. intros h' Hin. unfold dict_get. cbn [assoc].
    destruct (str_eqb h' h) eqn:E; [|reflexivity].
    apply str_eqb_eq in E. subst h'. apply mem_str_In in Hin. congruence.
Qed.

Theorem xls_sheet_partial : forall g r0 rest c,
  g = r0 :: rest -> rest <> [] -> l_rect c g = true ->
  nodup_str (map lc_header r0) = true ->
  xls_sheet_table g = lgrid_spec g.
Proof.
  intros g r0 rest c -> Hne Hr Hnd.
  unfold l_rect in Hr. cbn [forallb] in Hr. apply andb_true_iff in Hr as [Hr0 Hrest].
  apply Nat.eqb_eq in Hr0. rewrite forallb_forall in Hrest.
  set (hs := map lc_header r0) in *.
  assert (Hhs : length hs = c) by (unfold hs; rewrite map_length; exact Hr0).
  assert (Hdata : xls_sheet_data (r0 :: rest) = map (fun r => combine hs (map lc_native r)) rest).
  { unfold xls_sheet_data. fold hs. apply map_ext_in. intros r Hin.
    specialize (Hrest r Hin). apply Nat.eqb_eq in Hrest.
    rewrite (xls_row_dict_nodup r hs 0 []); [reflexivity | lia | exact Hnd | intros h _ []]. }
  unfold xls_sheet_table. rewrite Hdata.
  destruct rest as [|r1 rest']; [congruence|].
  unfold xls_get_table, lgrid_spec.
  set (data := map (fun r => combine hs (map lc_native r)) (r1 :: rest')).
  cbn [map] in data. subst data. cbv beta iota zeta.
  unfold dict_keys.
  assert (Hk : map fst (combine hs (map lc_native r1)) = hs).
  { apply combine_keys. rewrite map_length.
    specialize (Hrest r1 (or_introl eq_refl)). apply Nat.eqb_eq in Hrest. lia. }
  rewrite Hk. f_equal.
  - unfold hs. rewrite map_map. reflexivity.
  - change (combine hs (map lc_native r1) :: map (fun r => combine hs (map lc_native r)) rest')
      with (map (fun r => combine hs (map lc_native r)) (r1 :: rest')).
    rewrite map_map. apply map_ext_in. intros r Hin.
    specialize (Hrest r Hin). apply Nat.eqb_eq in Hrest.
    apply dict_get_combine; [rewrite map_length; lia | exact Hnd].
Qed.

(* A5: the dimensions reported for an XLS sheet *)
Theorem xls_get_dim_rect : forall g r0 rest r c,
  g = r0 :: rest -> length g = r -> (2 <= r)%nat -> l_rect c g = true ->
  nodup_str (map lc_header r0) = true ->
  xls_get_dim (xls_sheet_data g) = (r, c).
Proof.
  intros g r0 rest r c Hg Hl Hr2 Hrect Hnd.
  assert (Hne : rest <> []).
  { intro E. subst. cbn in Hr2. lia. }
  pose proof (xls_sheet_partial g r0 rest c Hg Hne Hrect Hnd) as Ht.
  unfold xls_sheet_table in Ht. unfold xls_get_dim. cbv zeta. rewrite Ht.
  change (data_get_dim (lgrid_spec g) = (r, c)).
  subst g. unfold l_rect in Hrect. cbn [forallb] in Hrect.
  apply andb_true_iff in Hrect as [H0 Hrest].
  apply data_get_dim_rect.
  - cbn [lgrid_spec List.length] in *. rewrite map_length. exact Hl.
  - lia.
  - cbn [lgrid_spec forallb]. rewrite map_length, H0. cbn [andb].
    rewrite forallb_forall in *. intros x Hx. apply in_map_iff in Hx as [y [<- Hy]].
    rewrite map_length. apply Hrest. exact Hy.
Qed.

(* ---- C2 refutations *)
Definition lw_dup : list (list lcell) :=
  [[{| lc_native := VStr (s "a"); lc_header := s "a" |}; {| lc_native := VStr (s "a"); lc_header := s "a" |}];
   [{| lc_native := VInt 1; lc_header := s "1" |}; {| lc_native := VInt 2; lc_header := s "2" |}]].
Example xls_duplicate_header_value :
  xls_sheet_table lw_dup = [[VStr (s "a")]; [VInt 2]]
  /\ lgrid_spec lw_dup = [[VStr (s "a"); VStr (s "a")]; [VInt 1; VInt 2]]
  /\ xls_get_dim (xls_sheet_data lw_dup) = (2%nat, 1%nat).
Proof. repeat split; vm_compute; reflexivity. Qed.
Theorem xls_duplicate_header_refuted :
  exists g r0 rest, g = r0 :: rest /\ rest <> [] /\ l_rect 2 g = true
                    /\ xls_sheet_table g <> lgrid_spec g.
Proof.
  exists lw_dup. eexists. eexists. split; [reflexivity|].
  split; [discriminate|]. split; [vm_compute; reflexivity|].
  vm_compute. discriminate.
Qed.

Definition lw_header_only : list (list lcell) :=
  [[{| lc_native := VStr (s "a"); lc_header := s "a" |}; {| lc_native := VStr (s "b"); lc_header := s "b" |}]].
Example xls_header_only_value :
  xls_sheet_table lw_header_only = []
  /\ lgrid_spec lw_header_only = [[VStr (s "a"); VStr (s "b")]]
  /\ xls_get_dim (xls_sheet_data lw_header_only) = (0%nat, 0%nat).
Proof. repeat split; vm_compute; reflexivity. Qed.
Theorem xls_header_only_refuted :
  exists g r0, g = [r0] /\ l_rect 2 g = true /\ nodup_str (map lc_header r0) = true
               /\ xls_sheet_table g <> lgrid_spec g.
Proof.
  exists lw_header_only. eexists. split; [reflexivity|].
  split; [vm_compute; reflexivity|]. split; [vm_compute; reflexivity|].
  vm_compute. discriminate.
Qed.

(* ---- C3 non-vacuity *)
Definition lw_good : list (list lcell) :=
  [[{| lc_native := VStr (s "name"); lc_header := s "name" |}; {| lc_native := VStr (s "qty"); lc_header := s "qty" |}];
   [{| lc_native := VStr (s "x"); lc_header := s "x" |}; {| lc_native := VInt 7; lc_header := s "7" |}]].
Example xls_sheet_partial_nonvacuous :
  (exists r0 rest, lw_good = r0 :: rest /\ rest <> [] /\ l_rect 2 lw_good = true
                   /\ nodup_str (map lc_header r0) = true)
  /\ xls_sheet_table lw_good = [[VStr (s "name"); VStr (s "qty")]; [VStr (s "x"); VInt 7]]
  /\ xls_get_dim (xls_sheet_data lw_good) = (2%nat, 2%nat).
Proof.
  split.
  - eexists. eexists. split; [reflexivity|]. split; [discriminate|].
    split; vm_compute; reflexivity.
  - split; vm_compute; reflexivity.
Qed.

Print Assumptions data_get_dim_is_shape.
Print Assumptions xls_get_dim_is_shape.
Print Assumptions max_len_rect.
Print Assumptions data_get_dim_rect.
Print Assumptions xls_get_dim_rect.
Print Assumptions xlsx_sheet_partial.
Print Assumptions xlsx_empty_header_refuted.
Print Assumptions xlsx_title_row_refuted.
Print Assumptions xlsx_typed_header_refuted.
Print Assumptions xlsx_date_header_refuted.
Print Assumptions xlsx_sheet_partial_nonvacuous.
Print Assumptions xls_sheet_partial.
Print Assumptions xls_duplicate_header_refuted.
Print Assumptions xls_header_only_refuted.
Print Assumptions xls_sheet_partial_nonvacuous.

(* a sheet's table does not depend on the sheets before it (no state carried across sheets) *)
Theorem xls_sheets_independent : forall before g after,
  nth (length before) (xls_workbook_tables (before ++ g :: after)) [] = xls_sheet_table g.
Proof.
  intros before g after. unfold xls_workbook_tables. rewrite map_app. cbn [map].
  rewrite app_nth2; rewrite map_length; [|apply Nat.le_refl]. rewrite Nat.sub_diag. reflexivity.
Qed.
Print Assumptions xls_sheets_independent.

(* ================================================================== XLSX, exact description
   (no header_ok): under the "nothing to trim" hypotheses every cell below the first row is in
   place with its converted value; the only deviations are in the first row. *)

Theorem xlsx_all_rows_exact : forall is_ws r0 rest c,
  (1 <= c)%nat -> x_rect c (r0 :: rest) = true ->
  x_last_row_has_data is_ws (r0 :: rest) = true ->
  x_last_col_has_data is_ws c (r0 :: rest) = true ->
  x_all_rows is_ws (r0 :: rest) = map VStr (x_headers is_ws 0 r0) :: map (map x_cell_value) rest.
Proof.
  intros is_ws r0 rest c Hc Hr Hlr Hlc.
  unfold x_all_rows. rewrite x_trim_rows_id by (try discriminate; assumption).
  cbv beta iota zeta. rewrite (x_last_col_rect is_ws (r0 :: rest) c Hc Hr Hlc).
  rewrite (map_firstn_rect c (r0 :: rest) Hr). reflexivity.
Qed.

Theorem xlsx_sheet_exact : forall is_ws r0 rest c,
  (1 <= c)%nat -> x_rect c (r0 :: rest) = true ->
  x_last_row_has_data is_ws (r0 :: rest) = true ->
  x_last_col_has_data is_ws c (r0 :: rest) = true ->
  xlsx_sheet is_ws (r0 :: rest)
  = (let hs := map VStr (x_headers is_ws 0 r0) in
     if x_is_table_name_row is_ws hs then map (map x_cell_value) rest
     else hs :: map (map x_cell_value) rest).
Proof.
  intros is_ws r0 rest c Hc Hr Hlr Hlc. unfold xlsx_sheet.
  rewrite (xlsx_all_rows_exact is_ws r0 rest c Hc Hr Hlr Hlc). reflexivity.
Qed.

Theorem xlsx_body_rows_in_place : forall is_ws r0 rest c,
  (1 <= c)%nat -> x_rect c (r0 :: rest) = true ->
  x_last_row_has_data is_ws (r0 :: rest) = true ->
  x_last_col_has_data is_ws c (r0 :: rest) = true ->
  exists first, xlsx_sheet is_ws (r0 :: rest) = first ++ map (map x_cell_value) rest
                /\ (length first <= 1)%nat.
Proof.
  intros is_ws r0 rest c Hc Hr Hlr Hlc.
  rewrite (xlsx_sheet_exact is_ws r0 rest c Hc Hr Hlr Hlc). cbv zeta.
  destruct (x_is_table_name_row is_ws (map VStr (x_headers is_ws 0 r0))).
  - exists []. split; [reflexivity | cbn [List.length]; lia].
  - exists [map VStr (x_headers is_ws 0 r0)]. split; [reflexivity | cbn [List.length]; lia].
Qed.

(* the header text produced for one first-row cell, given its 0-based column index *)
Definition x_header_of (is_ws : N -> bool) (idx : N) (c0 : xcell) : str :=
  match xc_val c0 with
  | VNone => UNNAMED ++ dec_N idx
  | VStr t => if is_nil (strip is_ws t) then UNNAMED ++ dec_N idx else xc_str c0
  | _ => xc_str c0
  end.

Lemma x_headers_nth_gen : forall is_ws r0 i j c0,
  nth_error r0 j = Some c0 ->
  nth_error (x_headers is_ws i r0) j = Some (x_header_of is_ws (i + N.of_nat j) c0).
Proof.
  induction r0 as [|c r0 IH]; intros i j c0 H; [destruct j; discriminate|].
  destruct j as [|j].
  - cbn [nth_error] in H. inversion H; subst c0. cbn [x_headers nth_error].
    change (N.of_nat 0) with 0. rewrite N.add_0_r. reflexivity.
  - cbn [nth_error] in H. cbn [x_headers nth_error]. rewrite (IH (i + 1) j c0 H).
    replace (i + 1 + N.of_nat j) with (i + N.of_nat (S j)) by lia. reflexivity.
Qed.

Lemma x_headers_nth : forall is_ws r0 j c0,
  nth_error r0 j = Some c0 ->
  nth_error (x_headers is_ws 0 r0) j
  = Some (match xc_val c0 with
          | VNone => UNNAMED ++ dec_N (N.of_nat j)
          | VStr t => if is_nil (strip is_ws t) then UNNAMED ++ dec_N (N.of_nat j) else xc_str c0
          | _ => xc_str c0
          end).
Proof.
  intros is_ws r0 j c0 H. rewrite (x_headers_nth_gen is_ws r0 0 j c0 H).
  rewrite N.add_0_l. reflexivity.
Qed.

(* non-blank text is kept verbatim ... *)
Theorem xlsx_header_cell_kept : forall is_ws r0 j c0 t,
  nth_error r0 j = Some c0 -> xc_val c0 = VStr t -> xc_str c0 = t ->
  strip is_ws t <> [] ->
  nth_error (x_headers is_ws 0 r0) j = Some t.
Proof.
  intros is_ws r0 j c0 t H Hv Hs Hne. rewrite (x_headers_nth is_ws r0 j c0 H), Hv.
  destruct (strip is_ws t); [congruence|]. cbn [is_nil]. rewrite Hs. reflexivity.
Qed.

(* ... blank text is replaced by the invented name *)
Theorem xlsx_header_cell_blank_renamed : forall is_ws r0 j c0 t,
  nth_error r0 j = Some c0 -> xc_val c0 = VStr t ->
  strip is_ws t = [] ->
  nth_error (x_headers is_ws 0 r0) j = Some (UNNAMED ++ dec_N (N.of_nat j)).
Proof.
  intros is_ws r0 j c0 t H Hv He. rewrite (x_headers_nth is_ws r0 j c0 H), Hv, He. reflexivity.
Qed.

Lemma dropWhile_nonempty {A} (p : A -> bool) l a : In a l -> p a = false -> dropWhile p l <> [].
Proof.
  induction l as [|x l IH]; intros Hin Hp; [destruct Hin|].
  cbn [dropWhile]. destruct (p x) eqn:E; [|discriminate].
  destruct Hin as [->|Hin]; [congruence | exact (IH Hin Hp)].
Qed.

Lemma strip_nonempty_head is_ws a x : is_ws a = false -> strip is_ws (a :: x) <> [].
Proof.
  intros Ha. unfold strip, lstrip, rstrip. cbn [dropWhile]. rewrite Ha.
  intro E. apply (f_equal (@rev N)) in E. rewrite rev_involutive in E. cbn [rev] in E.
  revert E. apply (dropWhile_nonempty is_ws _ a); [|exact Ha].
  apply (proj1 (in_rev (a :: x) a)). left; reflexivity.
Qed.

(* the iff needs one fact about the whitespace oracle: "U" (the first character of the invented
   name) is not whitespace.  Without it the statement is false: with is_ws := fun _ => true and
   t := "Unnamed: 0" at column 0 the text is blank yet the invented name equals t. *)
Theorem xlsx_header_cell_kept_iff : forall is_ws r0 j c0 t,
  is_ws 85 = false ->
  nth_error r0 j = Some c0 -> xc_val c0 = VStr t -> xc_str c0 = t -> xc_conv c0 = None ->
  (nth_error (x_headers is_ws 0 r0) j = Some t <-> strip is_ws t <> []).
Proof.
  intros is_ws r0 j c0 t HU H Hv Hs _. split.
  - intros Hh He. rewrite (xlsx_header_cell_blank_renamed is_ws r0 j c0 t H Hv He) in Hh.
    inversion Hh as [Ht]. revert He. rewrite <- Ht.
    change UNNAMED with (85 :: s "nnamed: "). cbn [app].
    apply strip_nonempty_head. exact HU.
  - intro Hne. exact (xlsx_header_cell_kept is_ws r0 j c0 t H Hv Hs Hne).
Qed.

Example xlsx_header_cell_kept_iff_needs_U :
  let is_ws := fun _ : N => true in
  let c0 := xstr (s "Unnamed: 0") in
  strip is_ws (s "Unnamed: 0") = [] /\ nth_error (x_headers is_ws 0 [c0]) 0 = Some (s "Unnamed: 0").
Proof. split; vm_compute; reflexivity. Qed.

Theorem xlsx_first_row_dropped_iff : forall is_ws r0 rest c,
  (1 <= c)%nat -> x_rect c (r0 :: rest) = true ->
  x_last_row_has_data is_ws (r0 :: rest) = true ->
  x_last_col_has_data is_ws c (r0 :: rest) = true ->
  (length (xlsx_sheet is_ws (r0 :: rest)) = length rest
   <-> x_is_table_name_row is_ws (map VStr (x_headers is_ws 0 r0)) = true)
  /\ (length (xlsx_sheet is_ws (r0 :: rest)) = S (length rest)
      <-> x_is_table_name_row is_ws (map VStr (x_headers is_ws 0 r0)) = false).
Proof.
  intros is_ws r0 rest c Hc Hr Hlr Hlc.
  rewrite (xlsx_sheet_exact is_ws r0 rest c Hc Hr Hlr Hlc). cbv zeta.
  destruct (x_is_table_name_row is_ws (map VStr (x_headers is_ws 0 r0)));
    cbn [List.length]; rewrite map_length; repeat split; intros; try reflexivity; try discriminate; lia.
Qed.

Print Assumptions xlsx_all_rows_exact.
Print Assumptions xlsx_sheet_exact.
Print Assumptions xlsx_body_rows_in_place.
Print Assumptions x_headers_nth.
Print Assumptions xlsx_header_cell_kept.
Print Assumptions xlsx_header_cell_blank_renamed.
Print Assumptions xlsx_header_cell_kept_iff.
Print Assumptions xlsx_header_cell_kept_iff_needs_U.
Print Assumptions xlsx_first_row_dropped_iff.
