(* C13 — PPTX: shape positions (_get_shape_position), shapes inside groups, position sort.
   General facts on the stable insertion sort of Model.v, then the slide walker
   pptx_slide_tables over rendered table frames. *)
From Coq Require Import ZArith List Bool Lia ZifyBool Permutation.
From S2T Require Import Lib.PyStr C13.Model C13.ProofsRows.
Import ListNotations.
Notation length := List.length.
Notation concat := List.concat.
Open Scope N_scope.

(* ------------------------------------------------------------------ P6: sort facts *)
Section Sort.
Context {A : Type}.
Variable le : A -> A -> bool.

Lemma insert_le_perm x l : Permutation (insert_le le x l) (x :: l).
Proof.
  induction l as [|y r IH]; cbn [insert_le]; [apply Permutation_refl|].
  destruct (le x y); [apply Permutation_refl|].
  eapply perm_trans; [apply perm_skip, IH | apply perm_swap].
Qed.

Theorem stable_sort_le_perm l : Permutation (stable_sort_le le l) l.
Proof.
  induction l as [|x r IH]; cbn [stable_sort_le]; [apply perm_nil|].
  eapply perm_trans; [apply insert_le_perm | apply perm_skip, IH].
Qed.

Theorem stable_sort_le_sorted_id l : sorted_le le l = true -> stable_sort_le le l = l.
Proof.
  induction l as [|a r IH]; intro H; [reflexivity|].
  cbn [stable_sort_le]. destruct r as [|b r'].
  - reflexivity.
  - cbn [sorted_le] in H. apply andb_true_iff in H as [Hab Hr].
    rewrite (IH Hr). cbn [insert_le]. rewrite Hab. reflexivity.
Qed.

Lemma perm_flat_map {B} (f : A -> list B) l l' :
  Permutation l l' -> Permutation (flat_map f l) (flat_map f l').
Proof.
  induction 1; cbn [flat_map].
  - apply perm_nil.
  - apply Permutation_app_head. assumption.
  - rewrite !app_assoc. apply Permutation_app_tail, Permutation_app_comm.
  - eapply perm_trans; eassumption.
Qed.
End Sort.

Lemma zkey_le_refl a : zkey_le a a = true.
Proof. unfold zkey_le. rewrite Z.eqb_refl, Z.leb_refl. apply orb_true_r. Qed.

Definition pptx_shape_tables (is_ws : N -> bool) (sh : xml) : list (list (list str)) :=
  if tag_is P_GRAPHICFRAME sh
  then match pptx_table is_ws sh with Some tb => if is_nil tb then [] else [tb] | None => [] end
  else [].

(* none lost, none invented, whatever the positions *)
Theorem pptx_slide_tables_perm : forall is_ws pint t,
  Permutation (pptx_slide_tables is_ws pint t)
    (flat_map (fun sh => if tag_is P_GRAPHICFRAME sh
                         then match pptx_table is_ws sh with Some tb => if is_nil tb then [] else [tb] | None => [] end
                         else []) (pptx_slide_shapes t)).
Proof. intros. unfold pptx_slide_tables. apply perm_flat_map, stable_sort_le_perm. Qed.

(* shapes already in position order: the tables come back in source order *)
Theorem pptx_slide_tables_source_order : forall is_ws pint t,
  sorted_le (fun a b => zkey_le (pptx_shape_position pint a) (pptx_shape_position pint b))
            (pptx_slide_shapes t) = true ->
  pptx_slide_tables is_ws pint t
  = flat_map (fun sh => if tag_is P_GRAPHICFRAME sh
                        then match pptx_table is_ws sh with Some tb => if is_nil tb then [] else [tb] | None => [] end
                        else []) (pptx_slide_shapes t).
Proof. intros is_ws pint t H. unfold pptx_slide_tables. rewrite stable_sort_le_sorted_id by exact H. reflexivity. Qed.

(* ------------------------------------------------------------------ tree lemmas *)
Lemma flat_map_map' {A B C} (f : B -> list C) (g : A -> B) l :
  flat_map f (map g l) = flat_map (fun x => f (g x)) l.
Proof. induction l; simpl; congruence. Qed.

Lemma flat_map_ext' {A B} (f g : A -> list B) l :
  (forall a, f a = g a) -> flat_map f l = flat_map g l.
Proof. intro H; induction l; simpl; [reflexivity|]. rewrite H, IHl. reflexivity. Qed.

Lemma flat_map_nil' {A B} (f : A -> list B) l : (forall a, f a = []) -> flat_map f l = [].
Proof. intro H; induction l; simpl; [reflexivity|]. rewrite H, IHl. reflexivity. Qed.

Lemma flat_map_single {A B} (f : A -> B) l : flat_map (fun x => [f x]) l = map f l.
Proof. induction l; simpl; congruence. Qed.

Lemma flat_map_flat_map' {A B C} (f : B -> list C) (g : A -> list B) l :
  flat_map f (flat_map g l) = flat_map (fun x => flat_map f (g x)) l.
Proof. induction l; simpl; [reflexivity|]. rewrite flat_map_app, IHl. reflexivity. Qed.

Lemma filter_flat_map {A B} (p : B -> bool) (f : A -> list B) l :
  filter p (flat_map f l) = flat_map (fun x => filter p (f x)) l.
Proof. induction l; simpl; [reflexivity|]. rewrite filter_app, IHl. reflexivity. Qed.

Lemma iter_unfold t a x cs l : iter (Elem t a x cs l) = Elem t a x cs l :: flat_map iter cs.
Proof. reflexivity. Qed.

(* a predicate on elements that only looks at the tag *)
Definition ptag (q : str -> bool) (x : xml) : bool := q (xtag x).

Lemma filter_iter_unfold q t a x cs l :
  filter (ptag q) (iter (Elem t a x cs l))
  = (if q t then [Elem t a x cs l] else []) ++ flat_map (fun c => filter (ptag q) (iter c)) cs.
Proof.
  rewrite iter_unfold. cbn [filter]. unfold ptag at 1. cbn [xtag]. rewrite filter_flat_map.
  destruct (q t); reflexivity.
Qed.

Lemma iter_tag_ptag T x : iter_tag T x = filter (ptag (fun tg => str_eqb tg T)) (iter x).
Proof. reflexivity. Qed.

(* ------------------------------------------------------------------ the rendered frame *)
Definition pptx_inner_tags : list str :=
  [P_XFRM; A_OFF; s "a:graphic"; A_GRAPHICDATA; A_TBL; A_TR; A_TC; A_TXBODY; A_P; A_R; A_T].
Definition q_fresh (q : str -> bool) : bool := forallb (fun tg => negb (q tg)) pptx_inner_tags.

Definition pptx_r_xfrm (xs ys : str) : xml := E P_XFRM [Elem A_OFF [(s "x", xs); (s "y", ys)] [] [] []].
Definition pptx_r_graphic (g : fgrid) : xml :=
  E (s "a:graphic") [Elem A_GRAPHICDATA [(s "uri", TABLE_URI)] []
     [E A_TBL (map (fun r => E A_TR (map pptx_r_cell r)) g)] []].

Lemma pptx_r_frame_shape g : pptx_r_frame g = Elem P_GRAPHICFRAME [] [] [pptx_r_graphic g] [].
Proof. reflexivity. Qed.
Lemma pptx_r_frame_at_shape xs ys g :
  pptx_r_frame_at xs ys g = Elem P_GRAPHICFRAME [] [] [pptx_r_xfrm xs ys; pptx_r_graphic g] [].
Proof. reflexivity. Qed.

Ltac in_tags := cbn [In pptx_inner_tags]; repeat (first [left; reflexivity | right]).

Section Fresh.
Variable q : str -> bool.
Hypothesis Hq : q_fresh q = true.

Lemma q_inner tg : In tg pptx_inner_tags -> q tg = false.
Proof.
  intro H. unfold q_fresh in Hq. rewrite forallb_forall in Hq. apply Hq in H.
  apply negb_true_iff in H. exact H.
Qed.

Lemma fi_Elem tg a x cs l :
  In tg pptx_inner_tags -> flat_map (fun c => filter (ptag q) (iter c)) cs = [] ->
  filter (ptag q) (iter (Elem tg a x cs l)) = [].
Proof. intros H1 H2. rewrite filter_iter_unfold, (q_inner tg H1), H2. reflexivity. Qed.

Lemma fi_run t : filter (ptag q) (iter (E A_R [ET A_T t])) = [].
Proof.
  apply fi_Elem; [in_tags|]. cbn [flat_map]. rewrite app_nil_r.
  apply fi_Elem; [in_tags | reflexivity].
Qed.

Lemma fi_para p : filter (ptag q) (iter (pptx_r_para p)) = [].
Proof.
  apply fi_Elem; [in_tags|]. rewrite flat_map_map'. apply flat_map_nil'. intro; apply fi_run.
Qed.

Lemma fi_cell c : filter (ptag q) (iter (pptx_r_cell c)) = [].
Proof.
  apply fi_Elem; [in_tags|]. cbn [flat_map]. rewrite app_nil_r.
  apply fi_Elem; [in_tags|]. rewrite flat_map_map'. apply flat_map_nil'. intro; apply fi_para.
Qed.

Lemma fi_graphic g : filter (ptag q) (iter (pptx_r_graphic g)) = [].
Proof.
  apply fi_Elem; [in_tags|]. cbn [flat_map]. rewrite app_nil_r.
  apply fi_Elem; [in_tags|]. cbn [flat_map]. rewrite app_nil_r.
  apply fi_Elem; [in_tags|]. rewrite flat_map_map'. apply flat_map_nil'. intro r.
  apply fi_Elem; [in_tags|]. rewrite flat_map_map'. apply flat_map_nil'. intro; apply fi_cell.
Qed.

Lemma fi_xfrm xs ys : filter (ptag q) (iter (pptx_r_xfrm xs ys)) = [].
Proof.
  apply fi_Elem; [in_tags|]. cbn [flat_map]. rewrite app_nil_r.
  apply fi_Elem; [in_tags | reflexivity].
Qed.

Lemma fi_frame g :
  filter (ptag q) (iter (pptx_r_frame g)) = if q P_GRAPHICFRAME then [pptx_r_frame g] else [].
Proof.
  rewrite pptx_r_frame_shape, filter_iter_unfold. cbn [flat_map]. rewrite fi_graphic.
  destruct (q P_GRAPHICFRAME); reflexivity.
Qed.

Lemma fi_frame_at xs ys g :
  filter (ptag q) (iter (pptx_r_frame_at xs ys g))
  = if q P_GRAPHICFRAME then [pptx_r_frame_at xs ys g] else [].
Proof.
  rewrite pptx_r_frame_at_shape, filter_iter_unfold. cbn [flat_map]. rewrite fi_xfrm, fi_graphic.
  destruct (q P_GRAPHICFRAME); reflexivity.
Qed.
End Fresh.

(* tags that occur nowhere in a rendered frame *)
Definition tag_absent (T : str) : bool :=
  negb (str_eqb P_GRAPHICFRAME T) && q_fresh (fun tg => str_eqb tg T).

Lemma iter_tag_frame T g : tag_absent T = true -> iter_tag T (pptx_r_frame g) = [].
Proof.
  intro H. apply andb_true_iff in H as [H1 H2]. apply negb_true_iff in H1.
  rewrite iter_tag_ptag, (fi_frame _ H2), H1. reflexivity.
Qed.

Lemma iter_tag_frame_at T xs ys g : tag_absent T = true -> iter_tag T (pptx_r_frame_at xs ys g) = [].
Proof.
  intro H. apply andb_true_iff in H as [H1 H2]. apply negb_true_iff in H1.
  rewrite iter_tag_ptag, (fi_frame_at _ H2), H1. reflexivity.
Qed.

Lemma absent_SPPR : tag_absent P_SPPR = true. Proof. vm_compute; reflexivity. Qed.
Lemma absent_AXFRM : tag_absent A_XFRM = true. Proof. vm_compute; reflexivity. Qed.

(* ------------------------------------------------------------------ P1 / P3: explicit position *)
Lemma pptx_position_at pint xs ys g :
  pptx_shape_position pint (pptx_r_frame_at xs ys g)
  = match pint xs, pint ys with Some x, Some y => (y, x) | _, _ => PPTX_LAST end.
Proof.
  unfold pptx_shape_position, first_iter.
  rewrite !(iter_tag_frame_at P_SPPR) by exact absent_SPPR.
  rewrite !(iter_tag_frame_at A_XFRM) by exact absent_AXFRM.
  cbn [hd_error or_else]. rewrite pptx_r_frame_at_shape.
  change (find A_XFRM (Elem P_GRAPHICFRAME [] [] [pptx_r_xfrm xs ys; pptx_r_graphic g] [])) with (@None xml).
  change (find P_XFRM (Elem P_GRAPHICFRAME [] [] [pptx_r_xfrm xs ys; pptx_r_graphic g] []))
    with (Some (pptx_r_xfrm xs ys)).
  cbn [or_else].
  change (find A_OFF (pptx_r_xfrm xs ys)) with (Some (Elem A_OFF [(s "x", xs); (s "y", ys)] [] [] [])).
  cbv beta iota zeta.
  change (xget (s "x") (s "0") (Elem A_OFF [(s "x", xs); (s "y", ys)] [] [] [])) with xs.
  change (xget (s "y") (s "0") (Elem A_OFF [(s "x", xs); (s "y", ys)] [] [] [])) with ys.
  destruct (pint xs), (pint ys); reflexivity.
Qed.

Theorem pptx_position_explicit : forall pint xs ys x y g,
  pint xs = Some x -> pint ys = Some y ->
  pptx_shape_position pint (pptx_r_frame_at xs ys g) = (y, x).
Proof. intros pint xs ys x y g Hx Hy. rewrite pptx_position_at, Hx, Hy. reflexivity. Qed.

Theorem pptx_position_bad_int : forall pint xs ys g,
  pint xs = None \/ pint ys = None ->
  pptx_shape_position pint (pptx_r_frame_at xs ys g) = PPTX_LAST.
Proof.
  intros pint xs ys g [H|H]; rewrite pptx_position_at, H; [reflexivity|].
  destruct (pint xs); reflexivity.
Qed.

(* ------------------------------------------------------------------ P2: no position at all *)
Lemma absent_PXFRM : tag_absent P_XFRM = false. Proof. vm_compute; reflexivity. Qed.

Lemma iter_tag_PXFRM_frame g : iter_tag P_XFRM (pptx_r_frame g) = [].
Proof.
  (* p:xfrm is an inner tag of frame_at but does not occur in the plain frame: go level by level
     with the predicate restricted to the tags below a:graphic *)
  rewrite iter_tag_ptag, pptx_r_frame_shape, filter_iter_unfold. cbn [flat_map].
  replace (str_eqb P_GRAPHICFRAME P_XFRM) with false by (vm_compute; reflexivity).
  cbn [app]. rewrite app_nil_r.
  set (q := fun tg : str => str_eqb tg P_XFRM).
  assert (Hin : forall tg, In tg [s "a:graphic"; A_GRAPHICDATA; A_TBL; A_TR; A_TC; A_TXBODY; A_P; A_R; A_T] -> q tg = false).
  { intros tg H. cbn [In] in H.
    repeat (destruct H as [<-|H]; [vm_compute; reflexivity|]). destruct H. }
  assert (St : forall tg a x cs l, q tg = false ->
            flat_map (fun c => filter (ptag q) (iter c)) cs = [] ->
            filter (ptag q) (iter (Elem tg a x cs l)) = []).
  { intros tg a x cs l H1 H2. rewrite filter_iter_unfold, H1, H2. reflexivity. }
  apply St; [apply Hin; cbn; auto 12|]. cbn [flat_map]. rewrite app_nil_r.
  apply St; [apply Hin; cbn; auto 12|]. cbn [flat_map]. rewrite app_nil_r.
  apply St; [apply Hin; cbn; auto 12|]. rewrite flat_map_map'. apply flat_map_nil'. intro r.
  apply St; [apply Hin; cbn; auto 12|]. rewrite flat_map_map'. apply flat_map_nil'. intro c.
  apply St; [apply Hin; cbn; auto 12|]. cbn [flat_map]. rewrite app_nil_r.
  apply St; [apply Hin; cbn; auto 12|]. rewrite flat_map_map'. apply flat_map_nil'. intro p.
  apply St; [apply Hin; cbn; auto 12|]. rewrite flat_map_map'. apply flat_map_nil'. intro t.
  apply St; [apply Hin; cbn; auto 12|]. cbn [flat_map]. rewrite app_nil_r.
  apply St; [apply Hin; cbn; auto 12 | reflexivity].
Qed.

Theorem pptx_position_missing : forall pint g, pptx_shape_position pint (pptx_r_frame g) = PPTX_LAST.
Proof.
  intros pint g. unfold pptx_shape_position, first_iter.
  rewrite !(iter_tag_frame P_SPPR) by exact absent_SPPR.
  rewrite !(iter_tag_frame A_XFRM) by exact absent_AXFRM.
  rewrite iter_tag_PXFRM_frame.
  cbn [hd_error or_else]. rewrite pptx_r_frame_shape.
  change (find A_XFRM (Elem P_GRAPHICFRAME [] [] [pptx_r_graphic g] [])) with (@None xml).
  change (find P_XFRM (Elem P_GRAPHICFRAME [] [] [pptx_r_graphic g] [])) with (@None xml).
  change (find P_NVSPPR (Elem P_GRAPHICFRAME [] [] [pptx_r_graphic g] [])) with (@None xml).
  reflexivity.
Qed.

(* ------------------------------------------------------------------ P4 *)
Theorem pptx_table_at : forall is_ws xs ys g,
  pptx_table is_ws (pptx_r_frame_at xs ys g) = pptx_table is_ws (pptx_r_frame g).
Proof.
  intros is_ws xs ys g.
  assert (H : iter_tag A_GRAPHICDATA (pptx_r_frame_at xs ys g) = iter_tag A_GRAPHICDATA (pptx_r_frame g)).
  { rewrite !iter_tag_ptag, pptx_r_frame_at_shape, pptx_r_frame_shape, !filter_iter_unfold.
    cbn [flat_map]. reflexivity. }
  unfold pptx_table. rewrite H. reflexivity.
Qed.

(* ------------------------------------------------------------------ P5: frames inside groups *)
Definition rf (f : str * str * fgrid) : xml :=
  let '(xs, ys, g) := f in pptx_r_frame_at xs ys g.

Definition q_shape (tg : str) : bool :=
  str_eqb tg P_SP || str_eqb tg P_PIC || str_eqb tg P_GRAPHICFRAME.

Lemma is_pptx_shape_ptag x : is_pptx_shape x = ptag q_shape x.
Proof. reflexivity. Qed.

Lemma q_shape_fresh : q_fresh q_shape = true. Proof. vm_compute; reflexivity. Qed.

Lemma shapes_of_frame f : filter (ptag q_shape) (iter (rf f)) = [rf f].
Proof. destruct f as [[xs ys] g]. cbn [rf]. rewrite (fi_frame_at _ q_shape_fresh). reflexivity. Qed.

Lemma shapes_of_chain ch fs :
  forallb (fun w => str_eqb w P_GRPSP) ch = true ->
  flat_map (fun c => filter (ptag q_shape) (iter c)) (wrap_chain ch (map rf fs)) = map rf fs.
Proof.
  induction ch as [|w ch IH]; intro H.
  - cbn [wrap_chain]. rewrite flat_map_map'.
    rewrite (flat_map_ext' _ (fun f => [rf f])) by (intro; apply shapes_of_frame).
    apply flat_map_single.
  - cbn [forallb] in H. apply andb_true_iff in H as [Hw Hch]. apply str_eqb_eq in Hw. subst w.
    cbn [wrap_chain flat_map]. rewrite app_nil_r. unfold E at 1. rewrite filter_iter_unfold.
    replace (q_shape P_GRPSP) with false by (vm_compute; reflexivity). cbn [app]. exact (IH Hch).
Qed.

Theorem pptx_slide_shapes_groups : forall (segs : list (list str * list (str * str * fgrid))),
  forallb (fun sg => forallb (fun w => str_eqb w P_GRPSP) (fst sg)) segs = true ->
  pptx_slide_shapes (E P_SPTREE (flat_map (fun sg => wrap_chain (fst sg) (map rf (snd sg))) segs))
  = flat_map (fun sg => map rf (snd sg)) segs.
Proof.
  intros segs H. unfold pptx_slide_shapes.
  change (filter is_pptx_shape) with (filter (ptag q_shape)). unfold E at 1.
  rewrite filter_iter_unfold.
  replace (q_shape P_SPTREE) with false by (vm_compute; reflexivity). cbn [app].
  rewrite flat_map_flat_map'.
  induction segs as [|sg segs IH]; [reflexivity|].
  cbn [forallb] in H. apply andb_true_iff in H as [H1 H2].
  cbn [flat_map]. rewrite (shapes_of_chain _ _ H1), (IH H2). reflexivity.
Qed.

(* ------------------------------------------------------------------ P7 *)
Definition pint57 : int_oracle :=
  fun x => if str_eqb x (s "5") then Some 5%Z else if str_eqb x (s "0") then Some 0%Z else None.

Example pptx_grouped_table_found :
  pptx_slide_tables ws_ascii pint57
    (E P_SPTREE [E P_GRPSP [E P_GRPSP [pptx_r_frame_at (s "0") (s "5") [[ [[s "in group"]] ]]]];
                 pptx_r_frame_at (s "0") (s "0") [[ [[s "top"]] ]]])
  = [ [[s "top"]]; [[s "in group"]] ].
Proof. vm_compute; reflexivity. Qed.

Print Assumptions stable_sort_le_perm.
Print Assumptions stable_sort_le_sorted_id.
Print Assumptions zkey_le_refl.
Print Assumptions pptx_slide_tables_perm.
Print Assumptions pptx_slide_tables_source_order.
Print Assumptions pptx_position_explicit.
Print Assumptions pptx_position_missing.
Print Assumptions pptx_position_bad_int.
Print Assumptions pptx_table_at.
Print Assumptions pptx_slide_shapes_groups.
Print Assumptions pptx_grouped_table_found.
