(* C13 — RTF: SPECIAL_CHARS of _RtfParser is the model's table (same order: one re.sub pass per entry) *)
From Coq Require Import ZArith List Bool.
From S2T Require Import Lib.PyStr C13.Model C13.Corr C13.ProofsRtf Gen.C13Tables.
Import ListNotations.
Open Scope N_scope.

Theorem C13_rtf_special_chars_match :
  list_eqb (fun a b : str * N => str_eqb (fst a) (fst b) && (snd a =? snd b)) live_rtf_special_chars RTF_SPECIAL_CHARS = true.
Proof. vm_compute. reflexivity. Qed.
Print Assumptions C13_rtf_special_chars_match.

(* the pointwise premises of the RTF theorems hold for today's whitespace and \w tables *)
Theorem C13_rtf_oracle_facts :
  py_is_ws 32 = true /\ py_is_ws 9 = true /\ py_is_ws 10 = true /\ py_is_ws 11 = true /\ py_is_ws 12 = true /\
  py_is_ws 100 = false /\ py_is_word 32 = false /\ py_is_word 92 = false /\ py_is_word 10 = false /\ py_is_word 125 = false.
Proof. repeat split; vm_compute; reflexivity. Qed.
Print Assumptions C13_rtf_oracle_facts.

(* hence the walker theorems, instantiated with the live tables *)
Theorem C13_rtf_tables_single_live : forall g : list (list str), g <> [] ->
  forallb (fun r => negb (is_nil r)) g = true -> forallb (forallb (rtf_plain py_is_ws)) g = true ->
  rtf_tables py_is_ws py_is_word (rtf_r_doc [RTable g]) = [rtf_pad_rows g].
Proof.
  destruct C13_rtf_oracle_facts as (a & b & c & d & e & _ & f & g' & h & _).
  exact (rtf_tables_single py_is_ws py_is_word a b c d e f g' h).
Qed.
Print Assumptions C13_rtf_tables_single_live.

Theorem C13_rtf_tables_single_gen_live : forall (tight : bool) (sep : str) (g : list (list str)),
  rtf_row_sep_ok sep = true -> g <> [] ->
  forallb (fun r => negb (is_nil r)) g = true -> forallb (forallb (rtf_plain py_is_ws)) g = true ->
  rtf_tables py_is_ws py_is_word (rtf_r_doc_gen tight sep g) = [rtf_pad_rows g].
Proof.
  destruct C13_rtf_oracle_facts as (a & b & c & d & e & _ & f & g' & h & i).
  exact (rtf_tables_single_gen py_is_ws py_is_word a b c d e f g' h i).
Qed.
Print Assumptions C13_rtf_tables_single_gen_live.
