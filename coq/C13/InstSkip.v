(* C13 — the skip sets handed to element_text by the three ODF extractors *)
From Coq Require Import ZArith List Bool.
From S2T Require Import Lib.PyStr C13.Model C13.Corr Gen.C13Tables.
Import ListNotations.
Open Scope N_scope.
Definition sorted_mem_eq (a b : list str) : bool :=
  forallb (fun x => mem_str x b) a && forallb (fun x => mem_str x a) b.

Theorem C13_odf_skip_tags_match :
  sorted_mem_eq live_ods_skip_tags ODF_SKIP && sorted_mem_eq live_odt_skip_tags ODT_SKIP
  && sorted_mem_eq live_odp_skip_tags ODF_SKIP = true.
Proof. vm_compute. reflexivity. Qed.
Print Assumptions C13_odf_skip_tags_match.

(* TEXT_SPAN (used by the renderers for runs) is not skipped by element_text: premise of the ODT/ODP theorems *)
Theorem C13_span_not_skipped : mem_str TEXT_SPAN ODF_SKIP || mem_str TEXT_SPAN ODT_SKIP = false.
Proof. vm_compute. reflexivity. Qed.
Print Assumptions C13_span_not_skipped.
