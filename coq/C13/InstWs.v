(* C13 — the closed refutation witnesses use ws_ascii: it is Python's whitespace set below 128 except 0x1c-0x1f *)
From Coq Require Import ZArith List Bool.
From S2T Require Import Lib.PyStr C13.Model C13.Corr Gen.C13Tables.
Import ListNotations.
Open Scope N_scope.

Fixpoint upto (n : nat) : list N := match n with O => [] | S k => upto k ++ [N.of_nat k] end.
Theorem C13_ws_ascii_agrees :
  forallb (fun c => Bool.eqb (py_is_ws c) (ws_ascii c || ((28 <=? c) && (c <=? 31)))) (upto 128) = true.
Proof. vm_compute. reflexivity. Qed.
Print Assumptions C13_ws_ascii_agrees.
