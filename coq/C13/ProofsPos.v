(* C13 — _parse_odf_length_to_px (IEEE-754 binary64 via SpecFloat): what the sort key does and does not
   guarantee.  Bounded statements are decided by vm_compute over the COMPLETE stated domain and lifted
   with forallb_forall; the bound is part of each statement. *)
From Coq Require Import ZArith List Bool Lia Floats.SpecFloat.
From S2T Require Import Lib.PyStr C13.Model.
Import ListNotations.
Notation length := List.length.

Definition hundredths (n : nat) : list Z := map Z.of_nat (seq 0 n).

(* lengths d/100 <unit> for d = 0 .. 3000 (0.00 .. 30.00) *)
Definition BOUND : nat := 3001.
Definition UNITS : list str := [s "cm"; s "mm"; s "in"; s "pt"; s "pc"; s "px"; []].

Definition strictly_increasing_on (u : str) : bool :=
  forallb (fun d => f_ltb (odf_px_value d 2 u) (odf_px_value (d + 1) 2 u)) (hundredths (BOUND - 1)).

Lemma all_units_strict : forallb strictly_increasing_on UNITS = true.
Proof. vm_cast_no_check (eq_refl true). Qed.

(* within one unit the key is strictly monotone: different positions never tie, larger is later *)
Theorem odf_px_strictly_monotone_bounded :
  forall u, In u UNITS -> forall d : nat, (d < 3000)%nat ->
  f_ltb (odf_px_value (Z.of_nat d) 2 u) (odf_px_value (Z.of_nat d + 1) 2 u) = true.
Proof.
  intros u Hu d Hd.
  pose proof all_units_strict as H. rewrite forallb_forall in H. specialize (H u Hu).
  unfold strictly_increasing_on in H. rewrite forallb_forall in H. apply H.
  unfold hundredths. apply in_map. apply in_seq. unfold BOUND. lia.
Qed.

(* the CSS anchor points agree exactly: 2.54cm = 25.4mm = 1in = 72pt = 6pc = 96px *)
Theorem odf_px_anchor_points :
  let v := odf_px_value 96 0 (s "px") in
  f_eqb (odf_px_value 254 2 (s "cm")) v && f_eqb (odf_px_value 254 1 (s "mm")) v && f_eqb (odf_px_value 1 0 (s "in")) v
  && f_eqb (odf_px_value 72 0 (s "pt")) v && f_eqb (odf_px_value 6 0 (s "pc")) v && f_eqb (odf_px_value 96 0 []) v = true.
Proof. vm_compute. reflexivity. Qed.

(* FULL-STRENGTH statement "equal lengths in different units give equal keys" is FALSE:
   0.01cm and 0.1mm are the same length but their keys differ in the last bit *)
Theorem odf_px_equal_lengths_equal_keys_refuted :
  exists d : Z, f_eqb (odf_px_value d 2 (s "cm")) (odf_px_value d 1 (s "mm")) = false.
Proof. exists 1%Z. vm_compute. reflexivity. Qed.

Example odf_px_refutation_values :
  odf_px_value 1 2 (s "cm") = S754_finite false 6808591562638860 (-54)
  /\ odf_px_value 1 1 (s "mm") = S754_finite false 6808591562638862 (-54).
Proof. split; vm_compute; reflexivity. Qed.

(* how often: of the 3001 lengths d/100 cm = d/10 mm, these many get two different keys *)
Definition cm_mm_mismatches : nat :=
  length (filter (fun d => negb (f_eqb (odf_px_value d 2 (s "cm")) (odf_px_value d 1 (s "mm")))) (hundredths BOUND)).
Example cm_mm_mismatch_count : cm_mm_mismatches = 1281%nat.
Proof. vm_cast_no_check (eq_refl 1281%nat). Qed.

(* _partial: the disagreement is at most one step of the grid — a length in cm and the same length in mm
   are both strictly between the keys of the neighbouring hundredths, so cross-unit order is wrong only
   between EQUAL lengths, never between different ones (bounded as above) *)
Definition cross_unit_consistent (u1 : str) (k1 : nat) (u2 : str) (k2 : nat) (m1 m2 : Z) : bool :=
  (* length d*m1/10^k1 u1 == d*m2/10^k2 u2; compare key of d in u2 with the keys of d-1, d+1 in u1 *)
  forallb (fun d => f_ltb (odf_px_value ((d - 1) * m1) k1 u1) (odf_px_value (d * m2) k2 u2)
                    && f_ltb (odf_px_value (d * m2) k2 u2) (odf_px_value ((d + 1) * m1) k1 u1))
          (map (fun n => Z.of_nat (S n)) (seq 0 (BOUND - 2))).

Theorem odf_px_cross_unit_order_partial :
  cross_unit_consistent (s "cm") 2 (s "mm") 1 1 1 = true      (* d/100 cm vs d/10 mm *)
  /\ cross_unit_consistent (s "in") 2 (s "pt") 2 1 72 = true  (* d/100 in vs 72d/100 pt *)
  /\ cross_unit_consistent (s "in") 2 (s "px") 2 1 96 = true. (* d/100 in vs 96d/100 px *)
Proof. split; [|split]; vm_cast_no_check (eq_refl true). Qed.

(* scanner: examples of the regex language *)
Example odf_scan_examples :
  odf_length_scan ws_ascii (s " 12.50 cm ") = Some (1250%Z, 2%nat, s "cm")
  /\ odf_length_scan ws_ascii (s "7") = Some (7%Z, 0%nat, [])
  /\ odf_length_scan ws_ascii (s "-1cm") = None /\ odf_length_scan ws_ascii (s "1.") = None
  /\ odf_length_scan ws_ascii (s ".5cm") = None /\ odf_length_scan ws_ascii (s "1cm2") = None
  /\ odf_length_scan ws_ascii (s "1 c m") = None.
Proof. repeat split; vm_compute; reflexivity. Qed.

(* unusable positions (missing, negative, garbage) all map to 0.0: such frames tie and keep document order *)
Theorem odf_px_unusable_is_zero :
  odf_length_px ws_ascii [] = f_zero /\ odf_length_px ws_ascii (s "-1cm") = f_zero /\ odf_length_px ws_ascii (s "abc") = f_zero.
Proof. repeat split; vm_compute; reflexivity. Qed.
