(* C13 — replay of the Coq refutation witnesses on the implementation: the check builds the same
   document as a real file, and these checkers decide (a) the tree/grid the implementation read is
   the witness of the `_refuted` theorem and (b) the implementation returned what the model says. *)
From Coq Require Import ZArith List Bool.
From S2T Require Import Lib.PyStr C13.Model C13.Corr C13.ProofsHtml C13.ProofsSheets C13.ProofsOds C13.ProofsTree.
Import ListNotations.

Definition T3 := list (list (list str)).

Definition w_docx (c : xml * T3) : bool := corr_docx (docx_d0, fst c, snd c).
Definition w_odt (c : xml * T3) : bool := corr_odt (odt_d0, fst c, snd c).
Definition w_html_nested (is_ws : N -> bool) (c : xml * T3) : bool := corr_html is_ws ([], html_nested_d0, fst c, snd c).
Definition w_html_multipara (is_ws : N -> bool) (c : xml * T3) : bool := corr_html is_ws ([], html_multipara_d0, fst c, snd c).
Definition w_epub_nested (is_ws : N -> bool) (c : T3) : bool := tables_eqb (epub_tables is_ws epub_nested_events) c.
Definition w_epub_inline (is_ws : N -> bool) (c : T3) : bool :=
  tables_eqb (epub_tables is_ws [EvStart H_TABLE; EvStart H_TR; EvStart H_TD; EvData (s "foo"); EvStart (s "b"); EvData (s "bar");
                                 EvEnd (s "b"); EvEnd H_TD; EvEnd H_TR; EvEnd H_TABLE]) c.

Definition w_ods_cap (c : list (str * option Z) * xml * option (list (list val))) : bool :=
  let '(it, t, r) := c in corr_ods true (it, [], gw, t, r).
Definition w_ods_rows (c : list (str * option Z) * xml * option (list (list val))) : bool :=
  let '(it, t, r) := c in xml_eqb t xw_rows && opt_eqb vgrid_eqb (ods_sheet (lookup_int it) (lookup_flt []) t) r.

(* witnesses mention dates by an arbitrary token: VOther tokens are not compared *)
Definition val_eqb_w (a b : val) : bool := match a, b with VOther _, VOther _ => true | _, _ => val_eqb a b end.
Definition xcell_eqb_w (a b : xcell) : bool :=
  val_eqb_w (xc_val a) (xc_val b) && str_eqb (xc_str a) (xc_str b) && opt_eqb str_eqb (xc_conv a) (xc_conv b).
Definition w_xlsx (is_ws : N -> bool) (w : list (list xcell)) (c : list (list xcell) * list (list val)) : bool :=
  list_eqb (list_eqb xcell_eqb_w) (fst c) w && corr_xlsx is_ws c.
Definition lcell_eqb (a b : lcell) : bool := val_eqb (lc_native a) (lc_native b) && str_eqb (lc_header a) (lc_header b).
Definition w_xls (w : list (list lcell)) (c : list (list lcell) * list (list val) * (nat * nat)) : bool :=
  list_eqb (list_eqb lcell_eqb) (fst (fst c)) w && corr_xls c.
