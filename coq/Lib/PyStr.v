(* Python str / bytes as lists of code points (N).  Definitions and their basic lemmas. *)
From Coq Require Export List NArith ZArith Bool Ascii String Lia.
Export ListNotations.
Open Scope N_scope.

Definition str := list N.

(* readable ASCII literals:  s "docx" *)
Fixpoint s (x : string) : str :=
  match x with
  | EmptyString => []
  | String a r => N_of_ascii a :: s r
  end.

Fixpoint str_eqb (a b : str) : bool :=
  match a, b with
  | [], [] => true
  | x :: a', y :: b' => N.eqb x y && str_eqb a' b'
  | _, _ => false
  end.

Lemma str_eqb_eq a b : str_eqb a b = true <-> a = b.
Proof.
  revert b; induction a as [|x a IH]; destruct b as [|y b]; simpl; split; intro H;
    try reflexivity; try discriminate.
  - apply andb_true_iff in H as [H1 H2]. apply N.eqb_eq in H1. apply IH in H2. congruence.
  - inversion H; subst. rewrite N.eqb_refl. simpl. apply IH. reflexivity.
Qed.

Lemma str_eqb_refl a : str_eqb a a = true.
Proof. apply str_eqb_eq; reflexivity. Qed.

Lemma str_eqb_neq a b : str_eqb a b = false <-> a <> b.
Proof.
  split; intro H.
  - intro E. apply str_eqb_eq in E. congruence.
  - destruct (str_eqb a b) eqn:E; [apply str_eqb_eq in E; contradiction | reflexivity].
Qed.

Definition str_eq_dec (a b : str) : {a = b} + {a <> b} := list_eq_dec N.eq_dec a b.

Fixpoint mem_str (x : str) (l : list str) : bool :=
  match l with
  | [] => false
  | y :: l' => str_eqb x y || mem_str x l'
  end.

Lemma mem_str_In x l : mem_str x l = true <-> In x l.
Proof.
  induction l as [|y l IH]; simpl; [split; [discriminate | tauto]|].
  rewrite orb_true_iff, IH, str_eqb_eq. split; intros [H|H]; auto.
Qed.

(* x.startswith(p) *)
Fixpoint startswith (x p : str) {struct p} : bool :=
  match p, x with
  | [], _ => true
  | c :: p', d :: x' => N.eqb c d && startswith x' p'
  | _ :: _, [] => false
  end.

Lemma startswith_app x p : startswith x p = true <-> exists r, x = p ++ r.
Proof.
  revert x; induction p as [|c p IH]; intro x; simpl.
  - split; [exists x; reflexivity | reflexivity].
  - destruct x as [|d x]; [split; [discriminate | intros [r H]; discriminate]|].
    rewrite andb_true_iff, N.eqb_eq, IH. split.
    + intros [-> [r ->]]. exists r; reflexivity.
    + intros [r H]. inversion H; subst. split; [reflexivity | exists r; reflexivity].
Qed.

(* x.endswith(e) *)
Definition endswith (x e : str) : bool := startswith (rev x) (rev e).

Lemma endswith_app x e : endswith x e = true <-> exists r, x = r ++ e.
Proof.
  unfold endswith. rewrite startswith_app. split; intros [r H].
  - exists (rev r). apply (f_equal (@rev N)) in H. rewrite rev_involutive, rev_app_distr, rev_involutive in H. exact H.
  - exists (rev r). rewrite H, rev_app_distr. reflexivity.
Qed.

(* dict / table look-up with Python's first-inserted-key semantics for literal tables *)
Fixpoint assoc {A} (k : str) (l : list (str * A)) : option A :=
  match l with
  | [] => None
  | (k', v) :: l' => if str_eqb k k' then Some v else assoc k l'
  end.

Lemma assoc_In {A} k (l : list (str * A)) v : assoc k l = Some v -> In (k, v) l.
Proof.
  induction l as [|[k' v'] l IH]; simpl; [discriminate|].
  destruct (str_eqb k k') eqn:E.
  - intro H; inversion H; subst. apply str_eqb_eq in E; subst. left; reflexivity.
  - intro H; right; auto.
Qed.

Lemma assoc_None_keys {A} k (l : list (str * A)) : assoc k l = None <-> ~ In k (map fst l).
Proof.
  induction l as [|[k' v'] l IH]; simpl; [tauto|].
  destruct (str_eqb k k') eqn:E.
  - apply str_eqb_eq in E; subst. split; [discriminate | intro H; exfalso; apply H; left; reflexivity].
  - apply str_eqb_neq in E. rewrite IH. split; [intros H [H1|H1]; [congruence | tauto] | tauto].
Qed.

Definition has_key {A} (k : str) (l : list (str * A)) : bool :=
  match assoc k l with Some _ => true | None => false end.

Lemma has_key_In {A} k (l : list (str * A)) : has_key k l = true <-> In k (map fst l).
Proof.
  unfold has_key. destruct (assoc k l) eqn:E.
  - apply assoc_In in E. split; [intros _; apply in_map_iff; exists (k, a); auto | reflexivity].
  - apply assoc_None_keys in E. split; [discriminate | tauto].
Qed.

Fixpoint takeWhile {A} (f : A -> bool) (l : list A) : list A :=
  match l with
  | [] => []
  | x :: l' => if f x then x :: takeWhile f l' else []
  end.

Fixpoint dropWhile {A} (f : A -> bool) (l : list A) : list A :=
  match l with
  | [] => []
  | x :: l' => if f x then dropWhile f l' else l
  end.

Lemma takeWhile_dropWhile {A} (f : A -> bool) l : takeWhile f l ++ dropWhile f l = l.
Proof. induction l as [|x l IH]; simpl; [reflexivity|]. destruct (f x); simpl; congruence. Qed.

Lemma takeWhile_all {A} (f : A -> bool) l : forallb f (takeWhile f l) = true.
Proof. induction l as [|x l IH]; simpl; [reflexivity|]. destruct (f x) eqn:E; simpl; [rewrite E; exact IH | reflexivity]. Qed.

Lemma dropWhile_head {A} (f : A -> bool) l x r : dropWhile f l = x :: r -> f x = false.
Proof.
  induction l as [|y l IH]; simpl; [discriminate|].
  destruct (f y) eqn:E; [exact IH|]. intro H; inversion H; subst; exact E.
Qed.
