(* C09 — POSIX os.path (posixpath.py, CPython 3.12) as the archive code uses it: definitions only.
   join (two arguments), normpath, abspath (the working directory is a parameter), isabs,
   splitdrive (always ("", p) on POSIX), dirname, basename. *)
From S2T Require Export Lib.PyStr.

Definition SLASH : N := 47.
Definition DOT : N := 46.
Definition BSLASH : N := 92.
Definition is_slash (c : N) : bool := N.eqb c SLASH.
Definition not_slash (c : N) : bool := negb (N.eqb c SLASH).
Definition nonempty (x : str) : bool := match x with [] => false | _ => true end.

Definition isabs (p : str) : bool := startswith p [SLASH].

(* a.endswith('/') *)
Fixpoint ends_slash (a : str) : bool :=
  match a with
  | [] => false
  | [c] => is_slash c
  | _ :: r => ends_slash r
  end.

(* os.path.join(a, b) *)
Definition join2 (a b : str) : str :=
  if startswith b [SLASH] then b
  else if negb (nonempty a) || ends_slash a then a ++ b
  else a ++ SLASH :: b.

(* p.split('/') — never the empty list *)
Fixpoint split_slash (p : str) : list str :=
  match p with
  | [] => [[]]
  | c :: r =>
      if is_slash c then [] :: split_slash r
      else match split_slash r with
           | h :: t => (c :: h) :: t
           | [] => [[c]]
           end
  end.

(* '/'.join(comps) *)
Fixpoint join_slash (l : list str) : str :=
  match l with
  | [] => []
  | [c] => c
  | c :: r => c ++ SLASH :: join_slash r
  end.

Definition is_dot (c : str) : bool := str_eqb c [DOT].
Definition is_dotdot (c : str) : bool := str_eqb c [DOT; DOT].

(* one iteration of normpath's loop; acc is new_comps REVERSED (head = last component) *)
Definition norm_step (initial : bool) (acc : list str) (comp : str) : list str :=
  if negb (nonempty comp) || is_dot comp then acc
  else if negb (is_dotdot comp) then comp :: acc
  else match acc with
       | [] => if initial then acc else comp :: acc
       | top :: rest => if is_dotdot top then comp :: acc else rest
       end.

(* number of leading slashes kept by normpath: 0, 1, or 2 (exactly two) *)
Definition initial_slashes (p : str) : nat :=
  match p with
  | a :: b :: c :: _ => if is_slash a then (if is_slash b then (if is_slash c then 1 else 2) else 1) else 0
  | [a; b] => if is_slash a then (if is_slash b then 2 else 1) else 0
  | [a] => if is_slash a then 1 else 0
  | [] => 0
  end%nat.

Definition norm_comps (p : str) : list str :=
  rev (fold_left (norm_step (negb (Nat.eqb (initial_slashes p) 0))) (split_slash p) []).

Definition normpath (p : str) : str :=
  match p with
  | [] => [DOT]
  | _ =>
      let r := repeat SLASH (initial_slashes p) ++ join_slash (norm_comps p) in
      match r with [] => [DOT] | _ => r end
  end.

(* os.path.abspath(p) with os.getcwd() = cwd *)
Definition abspath (cwd p : str) : str :=
  normpath (if isabs p then p else join2 cwd p).

(* os.path.basename / dirname *)
Definition basename (p : str) : str := rev (takeWhile not_slash (rev p)).

Definition dirname (p : str) : str :=
  let head_rev := dropWhile not_slash (rev p) in           (* reversed p[:rfind('/')+1] *)
  if forallb is_slash head_rev then rev head_rev            (* '' or all slashes: unchanged *)
  else rev (dropWhile is_slash head_rev).                   (* head.rstrip('/') *)

(* ---- sevenzip._safe_join(base_dir, relative_path); Bad7zFile = None.
   os.path.splitdrive is the identity split ("", p) on POSIX, so `drive` is always empty and tail = p. *)
Definition safe_join (cwd base rel : str) : option str :=
  match rel with
  | [] => Some base
  | _ =>
      if isabs rel || startswith rel [BSLASH] || startswith rel [SLASH] then None
      else
        let base_abs := abspath cwd base in
        let target := abspath cwd (join2 base_abs rel) in
        if str_eqb target base_abs then Some target
        else if startswith target (base_abs ++ [SLASH]) then Some target
        else None
  end.

(* p is base itself or lies below it (string form used by the code) *)
Definition confined_b (base p : str) : bool := str_eqb p base || startswith p (base ++ [SLASH]).

(* no component of p is '.' or '..' *)
Definition plain_comp (c : str) : bool := negb (is_dot c) && negb (is_dotdot c).
Definition no_dots (p : str) : bool := forallb plain_comp (split_slash p).
