(* C09 — boolean case checkers for the differential correspondence. *)
From Coq Require Import ZArith List Bool.
From S2T Require Import Lib.PyStr C09.Path C09.Model.
Open Scope Z_scope.

Definition opt_str_eqb (a b : option str) : bool :=
  match a, b with Some x, Some y => str_eqb x y | None, None => true | _, _ => false end.

(* ---- os.path functions: (op, a, b, expected) ; op 0 join 1 normpath 2 dirname 3 basename 4 abspath(cwd=a) 5 isabs *)
Definition path_case (c : N * str * str * str) : bool :=
  let '(op, a, b, want) := c in
  match op with
  | 0%N => str_eqb (join2 a b) want
  | 1%N => str_eqb (normpath a) want
  | 2%N => str_eqb (dirname a) want
  | 3%N => str_eqb (basename a) want
  | 4%N => str_eqb (abspath a b) want
  | _ => str_eqb (if isabs a then s "1" else s "0") want
  end.

(* ---- _safe_join: (cwd, base, rel, expected) *)
Definition safe_join_case (c : str * str * str * option str) : bool :=
  let '(cwd, base, rel, want) := c in opt_str_eqb (safe_join cwd base rel) want.

(* ---- _should_skip_file: (filename, basename, lower(basename), mime(lower), expected) with the oracles'
   recorded values *)
Definition skip_case (T : R.tables) (NE : list str) (ARCHIVE : R.extractor)
           (c : str * str * str * option str * bool) : bool :=
  let '(fn, bn, bl, m, want) := c in
  Bool.eqb (should_skip T (fun _ => bl) (fun _ => m) NE ARCHIVE fn bn) want
  && str_eqb (basename fn) bn.

(* ---- a whole 7z run: events of the model against the traced calls of the implementation *)
Definition ev_eqb (a b : ev) : bool :=
  match a, b with
  | Mkdirs p, Mkdirs q | OpenW p, OpenW q | Probe p, Probe q | OpenR p, OpenR q => str_eqb p q
  | _, _ => false
  end.
Fixpoint evs_eqb (a b : list ev) : bool :=
  match a, b with
  | [], [] => true
  | x :: a', y :: b' => ev_eqb x y && evs_eqb a' b'
  | _, _ => false
  end.

Record case7z := {
  c_cwd : str; c_base : str; c_hdr : hdr;
  c_dec : list (option Z);        (* per folder: decoded length or failure *)
  c_bad_dirs : list str;          (* makedirs calls that raised *)
  c_bad_writes : list str;        (* open(…,"wb") calls that raised *)
  c_skipped : list str;           (* member names for which _should_skip_file answered True *)
  c_max_mem : Z;
  c_dsizes : list (str * Z);      (* os.path.getsize answers recorded during the read-back *)
  c_events : list ev              (* traced: makedirs / open wb / isfile / open rb, in order *)
}.

Definition run_case7z (c : case7z) : list ev :=
  run_7z (c_cwd c) (c_base c) (fun k => nth k (c_dec c) None)
         (fun p => negb (mem_str p (c_bad_dirs c))) (fun p => negb (mem_str p (c_bad_writes c)))
         (fun n => mem_str n (c_skipped c)) (c_max_mem c) []
         (fun p => match assoc p (c_dsizes c) with Some z => z | None => 0 end) (c_hdr c).

Definition case7z_ok (c : case7z) : bool := evs_eqb (run_case7z c) (c_events c).

(* listed files as the implementation's SevenZipFile.list() reports them: (name, size, is_dir) *)
Definition finfo_eqb (f : finfo) (g : str * Z * bool) : bool :=
  let '(n, z, d) := g in str_eqb (f_name f) n && (f_size f =? z) && Bool.eqb (f_dir f) d.
Fixpoint list_eqb {A B} (f : A -> B -> bool) (a : list A) (b : list B) : bool :=
  match a, b with
  | [], [] => true
  | x :: a', y :: b' => f x y && list_eqb f a' b'
  | _, _ => false
  end.
Definition optnat_eqb (a b : option nat) : bool :=
  match a, b with Some x, Some y => Nat.eqb x y | None, None => true | _, _ => false end.
(* (header, list(), folder index of each file or None) *)
Definition filelist_case (c : hdr * list (str * Z * bool) * list (option nat)) : bool :=
  let '(h, fl, fo) := c in list_eqb finfo_eqb (files_of h) fl && list_eqb optnat_eqb (folder_of h) fo.

(* ---- life cycle: (prog, history, observed number of live temp dirs after each action, observed
   "generator finished" after each action) *)
Fixpoint trace (P : prog) (st : gstate) (n : Z) (h : list action) : list (Z * bool) :=
  match h with
  | [] => []
  | a :: h' =>
      let '(st', e) := step P st a in
      let n' := live n e in
      (n', match st' with Done => true | _ => false end) :: trace P st' n' h'
  end.
Definition zb_eqb (a b : Z * bool) : bool := (fst a =? fst b) && Bool.eqb (snd a) (snd b).
Definition life_case (c : prog * list action * list (Z * bool)) : bool :=
  let '(P, h, obs) := c in list_eqb zb_eqb (trace P NotStarted 0 h) obs.

(* ---- size rule: (max_memory_size, MAX_ARCHIVE_FILE_SIZE, declared size, bytes read, produced a result?)
   for a regular, supported, visible text member "m.txt" whose extractor yields one result: the model's
   member_results (exact comparisons  size > limit) against what the implementation did *)
Definition size_case (T : R.tables) (NE : list str) (ARCHIVE : R.extractor) (c : Z * Z * Z * Z * bool) : bool :=
  let '(mm, me, decl, dl, produced) := c in
  let m := {| m_name := s "m.txt"; m_regular := true; m_declared := decl; m_datalen := dl; m_yields := 1 |} in
  Nat.eqb (member_results T (fun _ => s "m.txt") (fun _ => None) NE ARCHIVE mm me m) (if produced then 1 else 0)%nat.

(* ---- FilesInfo property sequence -> arguments of _build_file_list:
   (num_files, properties in archive order, expected Some [(name, empty_stream, attributes)] | None = Bad7zFile) *)
Definition entry_eqb (e : entry) (g : str * bool * N) : bool :=
  let '(n, b, a) := g in str_eqb (e_name e) n && Bool.eqb (e_empty e) b && N.eqb (e_attr e) a.
Definition filesinfo_case (c : nat * list fprop * option (list (str * bool * N))) : bool :=
  let '(n, ps, want) := c in
  match parse_files_info n ps, want with
  | Some es, Some w => list_eqb entry_eqb es w
  | None, None => true
  | _, _ => false
  end.

(* ---- member loops: (is_tar, max_memory_size, REGULAR_TYPES, members as the library lists them, names for which
   _should_skip_file said True, expected: Some indices read in order | None = encrypted error before any read) *)
Definition natlist_eqb (a b : list nat) : bool := list_eqb Nat.eqb a b.
Definition loop_case (c : bool * Z * list N * list amember * list str * option (list nat)) : bool :=
  let '(is_tar, mm, REG, ms, skipped, want) := c in
  let sk := fun n => mem_str n skipped in
  let got := if is_tar then Some (tar_reads sk mm REG 0 ms) else zip_reads sk mm ms in
  match got, want with
  | Some a, Some b => natlist_eqb a b
  | None, None => true
  | _, _ => false
  end.
